/-
Model of rustbus/src/params/validation.rs: validate_object_path, validate_interface,
validate_errorname, validate_busname, validate_membername (C08). Strings are `List Char`
(Unicode scalar values); `str::len()` is the UTF-8 byte length `utf8Len`.
Import-free.
-/
namespace Rustbus.Names

def utf8Len (s : List Char) : Nat := (s.map Char.utf8Size).sum

/-- `char::is_ascii_digit` -/
def isDigit (c : Char) : Bool := '0' ≤ c && c ≤ '9'
/-- `char::is_ascii_alphanumeric` -/
def isAlnum (c : Char) : Bool :=
  ('a' ≤ c && c ≤ 'z') || ('A' ≤ c && c ≤ 'Z') || ('0' ≤ c && c ≤ '9')

/-- `c.is_ascii_alphanumeric() || c == '_'` -/
def clsName (c : Char) : Bool := isAlnum c || c == '_'
/-- `c.is_ascii_alphanumeric() || c == '_' || c == '-'` -/
def clsBus (c : Char) : Bool := isAlnum c || c == '_' || c == '-'

/-- `str::split(sep)`: always at least one piece -/
def splitOn (sep : Char) : List Char → List (List Char)
  | [] => [[]]
  | c :: cs =>
    if c = sep then [] :: splitOn sep cs
    else match splitOn sep cs with
      | h :: t => (c :: h) :: t
      | [] => [[c]]

/-- one element of a dotted name: non-empty, optional leading-digit rule, character class -/
def elemOk (cls : Char → Bool) (allowLeadingDigit : Bool) (e : List Char) : Bool :=
  match e with
  | [] => false
  | c :: _ => (allowLeadingDigit || !isDigit c) && e.all cls

def validateInterface (s : List Char) : Bool :=
  if utf8Len s > 255 then false
  else
    let els := splitOn '.' s
    els.all (elemOk clsName false) && decide (2 ≤ els.length)

def validateErrorname (s : List Char) : Bool := validateInterface s

def validateBusname (s : List Char) : Bool :=
  if utf8Len s > 255 then false
  else
    let (unique, rest) := match s with
      | ':' :: r => (true, r)
      | _ => (false, s)
    let els := splitOn '.' rest
    els.all (elemOk clsBus unique) && decide (2 ≤ els.length)

def validateMembername (s : List Char) : Bool :=
  if s.isEmpty || utf8Len s > 255 then false
  else match s with
    | [] => false
    | c :: _ => !isDigit c && s.all clsName

def validateObjectPath (s : List Char) : Bool :=
  match s with
  | '/' :: rest =>
    if rest.isEmpty then true
    else (splitOn '/' rest).all (fun e => !e.isEmpty && e.all clsName)
  | _ => false

end Rustbus.Names
