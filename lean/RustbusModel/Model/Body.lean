import RustbusModel.Model.Marshal
/-
Model of MarshalledMessageBody (push_param, push_param2..5, push_params, push_variant,
push_old_param(s), push_mult_helper's snapshot/rollback, reset) and MessageBodyParser
(get, get2..5 via get_mult_helper, get_param, get_next_sig, sigs_left) in message_builder.rs. (C15)
Descriptors appear as bare `UnixFd` parameters (`Item.fd`); values of `Item.plain` contain no 'h' leaves.
-/
namespace Rustbus.Body
open Rustbus Rustbus.Bytes Rustbus.Wire Rustbus.Marshal

structure Body where
  bo : ByteOrder
  buf : List UInt8
  sig : List Char
  nfds : Nat
  deriving Repr

def Body.empty (bo : ByteOrder) : Body := ⟨bo, [], [], 0⟩

inductive Item
  | plain (t : Ty) (v : Val)       -- `push_param(p)` / `push_old_param(p)`: value, then its signature
  | asVariant (t : Ty) (v : Val)   -- `push_variant(p)`: signature + value in the bytes, "v" in the signature
  | fd (valid : Bool)              -- a `UnixFd`: dup + index (valid), or `EmptyUnixFd` (already taken)
  deriving Repr

/-- one `push_param` / `push_variant` on a clean snapshot: `none` = the marshaller returned an error -/
def pushItem (b : Body) : Item → Option Body
  | .plain t v =>
    match marshalM b.bo t v b.buf with
    | some buf' => some { b with buf := buf', sig := b.sig ++ t.toStr }
    | none => none
  | .asVariant t v =>
    match marshalM b.bo .variant (.variant t v) b.buf with
    | some buf' => some { b with buf := buf', sig := b.sig ++ ['v'] }
    | none => none
  | .fd valid =>
    if valid then
      some { b with buf := padTo 4 b.buf ++ bytesOf b.bo 4 b.nfds, sig := b.sig ++ ['h'], nfds := b.nfds + 1 }
    else none

def pushAll (b : Body) : List Item → Option Body
  | [] => some b
  | it :: its =>
    match pushItem b it with
    | some b' => pushAll b' its
    | none => none

/-- `push_mult_helper`: after a failure the signature, bytes and descriptor list are truncated to the
    lengths recorded before the calls -/
def rollback (snapshot dirty : Body) : Body :=
  { dirty with buf := dirty.buf.take snapshot.buf.length, sig := dirty.sig.take snapshot.sig.length,
               nfds := min dirty.nfds snapshot.nfds }

/-- `d` is `b` with more bytes, signature characters and descriptors appended (all the marshallers do
    to the three buffers, also when they fail half way) -/
def Extends (b d : Body) : Prop :=
  d.bo = b.bo ∧ (∃ x, d.buf = b.buf ++ x) ∧ (∃ y, d.sig = b.sig ++ y) ∧ b.nfds ≤ d.nfds

/-- any push entry point: all items or nothing. Returns the new body and whether it succeeded. -/
def push (b : Body) (items : List Item) : Body × Bool :=
  match pushAll b items with
  | some b' => (b', true)
  | none => (b, false)

inductive Op
  | push (items : List Item)
  | reset
  deriving Repr

def step (b : Body) : Op → Body
  | .push items => (push b items).1
  | .reset => Body.empty b.bo

def run (b : Body) (ops : List Op) : Body := ops.foldl step b

/-- the items that are "in" the body after a history: those of the successful pushes since the last reset -/
def effective (b : Body) (acc : List Item) : List Op → List Item
  | [] => acc
  | .reset :: ops => effective (Body.empty b.bo) [] ops
  | .push items :: ops =>
    match pushAll b items with
    | some b' => effective b' (acc ++ items) ops
    | none => effective b acc ops

/-! ### parser -/

structure Parser where
  bufIdx : Nat
  sigIdx : Nat
  deriving Repr, DecidableEq

inductive GetErr | endOfMessage | wrongSignature | decode
  deriving Repr, DecidableEq

/-- `get_next_sig`: the next complete type of the body signature (`SignatureIter::new_at_idx`) -/
def nextSig (b : Body) (p : Parser) : Option (List Char) :=
  let rest := if p.sigIdx ≥ b.sig.length then [] else b.sig.drop p.sigIdx
  if rest.isEmpty then none
  else match Sig.iterNext rest with
    | some (s, _) => some s
    | none => none

/-- `sigs_left` -/
def sigsLeft (b : Body) (p : Parser) : Nat :=
  let rest := if p.sigIdx ≥ b.sig.length then [] else b.sig.drop p.sigIdx
  match Sig.sigIter rest with
  | some l => l.length
  | none => 0

/-- `get::<T>()` where `T` has signature `t` (`T::has_sig(sig)` ⇔ `sig = toStr t`) -/
def get (b : Body) (p : Parser) (t : Ty) : Except GetErr (Val × Parser) :=
  match nextSig b p with
  | none => .error .endOfMessage
  | some s =>
    if s ≠ t.toStr then .error .wrongSignature
    else
      match dec b.bo b.buf (some b.nfds) maxDepth t p.bufIdx b.buf.length with
      | some (v, o') => .ok (v, ⟨o', p.sigIdx + s.length⟩)
      | none => .error .decode

def getAll (b : Body) : Parser → List Ty → Except GetErr (List Val × Parser)
  | p, [] => .ok ([], p)
  | p, t :: ts =>
    match get b p t with
    | .error e => .error e
    | .ok (v, p') =>
      match getAll b p' ts with
      | .error e => .error e
      | .ok (vs, p'') => .ok (v :: vs, p'')

/-- `get2..get5` (`get_mult_helper`): enough signatures left, then all gets or the parser is restored -/
def getMult (b : Body) (p : Parser) (ts : List Ty) : Except GetErr (List Val) × Parser :=
  if ts.length > sigsLeft b p then (.error .endOfMessage, p)
  else
    match getAll b p ts with
    | .ok (vs, p') => (.ok vs, p')
    | .error e => (.error e, p)

/-- `get_param`: the dynamic way, the type comes from the signature -/
def getParam (b : Body) (p : Parser) : Except GetErr (Ty × Val) × Parser :=
  match nextSig b p with
  | none => (.error .endOfMessage, p)
  | some s =>
    match Sig.parseDescription s with
    | some (t :: _) =>
      match dec b.bo b.buf (some b.nfds) maxDepth t p.bufIdx b.buf.length with
      | some (v, o') => (.ok (t, v), ⟨o', p.sigIdx + s.length⟩)
      | none => (.error .decode, p)
    | _ => (.error .wrongSignature, p)

end Rustbus.Body
