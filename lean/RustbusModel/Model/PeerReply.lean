import RustbusModel.Model.PeerId
import RustbusModel.Model.Serial
/-
Model of `handle_peer_message` as a whole (C20): decision, the reply it builds with `DynamicHeader::make_response`
(model shared with C13), the machine id in the body, the id file. Import-free apart from the two models.
-/
namespace Rustbus.PeerId
open Rustbus.Serial (Hdr makeResponse)

/-- one message the handler puts on the connection: the header part the reply constructor sets, and the body
    (the machine id for `GetMachineId`, nothing for `Ping`) -/
structure Reply where
  hdr : Hdr
  body : Option (List Char)
  deriving Repr, DecidableEq

/-- what `handle_peer_message` returns: `Ok(handled)` or the error of the send -/
inductive HRes
  | ok (handled : Bool)
  | sendErr
  deriving Repr, DecidableEq

/-- one incoming message as the handler sees it, together with the inputs the environment chooses during the call: the
    random draw and clock value (used only if the id has to be created) and whether the connection takes the reply -/
structure Incoming where
  /-- the message is a method call (and not a signal, a return or an error that merely names the Peer interface) -/
  isCall : Bool
  call : Hdr
  iface : Option (List Char)
  member : Option (List Char)
  r1 : Nat
  r2 : Nat
  secs : Nat
  wrote : Bool
  deriving Repr, DecidableEq

/-- `handle_peer_message(msg, con)`: result, what was written to the connection, the id file afterwards.
    Only method calls are answered. The id is fetched (and created) BEFORE the send, so a refused send still leaves the created id stored. -/
def handleCall (m : Incoming) (cell : Option (List Char)) : HRes × List Reply × Option (List Char) :=
  match handlePeer m.iface m.member with
  | .notHandled => (.ok false, [], cell)
  | .replied false =>
    if m.wrote then (.ok true, [{ hdr := makeResponse m.call, body := none }], cell) else (.sendErr, [], cell)
  | .replied true =>
    let (id, cell') := getMachineId cell m.r1 m.r2 m.secs
    if m.wrote then (.ok true, [{ hdr := makeResponse m.call, body := some id }], cell') else (.sendErr, [], cell')

def handlePeerMessage (m : Incoming) (cell : Option (List Char)) : HRes × List Reply × Option (List Char) :=
  if m.isCall then handleCall m cell else (.ok false, [], cell)

/-- a peer serving a sequence of incoming messages: per message the result and what was written -/
def serve : Option (List Char) → List Incoming → List (HRes × List Reply)
  | _, [] => []
  | cell, m :: ms =>
    match handlePeerMessage m cell with
    | (r, out, cell') => (r, out) :: serve cell' ms

end Rustbus.PeerId
