/-
Protocol glue shared by the driver handlers: hex, decimal lists, tokens.
Import-free (core Lean only). Not part of any theorem; trusted only for the
correspondence run (a bug here shows up as a disagreement, never as a missed proof).
-/
namespace Rustbus.Proto

def hexDigitVal (c : Char) : Option Nat :=
  if '0' ≤ c ∧ c ≤ '9' then some (c.toNat - '0'.toNat)
  else if 'a' ≤ c ∧ c ≤ 'f' then some (c.toNat - 'a'.toNat + 10)
  else if 'A' ≤ c ∧ c ≤ 'F' then some (c.toNat - 'A'.toNat + 10)
  else none

def hexDigit (n : Nat) : Char :=
  if n < 10 then Char.ofNat ('0'.toNat + n) else Char.ofNat ('a'.toNat + (n - 10))

/-- "-" is the empty byte string (so that a token is never empty). -/
def parseHexChars : List Char → Option (List UInt8)
  | [] => some []
  | [_] => none
  | a :: b :: rest =>
    match hexDigitVal a, hexDigitVal b, parseHexChars rest with
    | some x, some y, some r => some (UInt8.ofNat (x * 16 + y) :: r)
    | _, _, _ => none

def parseHex (s : String) : Option (List UInt8) :=
  if s == "-" then some [] else parseHexChars s.toList

def toHex (bs : List UInt8) : String :=
  if bs.isEmpty then "-" else
  String.ofList (bs.foldr (fun b acc => hexDigit (b.toNat / 16) :: hexDigit (b.toNat % 16) :: acc) [])

/-- comma separated decimal code points, "-" for the empty string -/
def parseCodepoints (s : String) : Option (List Char) :=
  if s == "-" then some [] else
  (s.splitOn ",").foldr (fun t acc =>
    match t.toNat?, acc with
    | some n, some r => some (Char.ofNat n :: r)
    | _, _ => none) (some [])

def parseNats (s : String) : Option (List Nat) :=
  if s == "-" then some [] else
  (s.splitOn ",").foldr (fun t acc =>
    match t.toNat?, acc with
    | some n, some r => some (n :: r)
    | _, _ => none) (some [])

def showNats (ns : List Nat) : String :=
  if ns.isEmpty then "-" else ",".intercalate (ns.map toString)

def bytesOfString (s : String) : List UInt8 := s.toUTF8.toList

end Rustbus.Proto
