/-
Byte-level vocabulary shared by the wire models: byte order, fixed-width integers, padding, slices.
Import-free.
-/
namespace Rustbus

inductive ByteOrder | le | be
  deriving Repr, DecidableEq, Inhabited

namespace Bytes

/-- number of padding bytes needed at absolute offset `off` to reach alignment `a`
    (`pad_to_align`, `align_offset`: `a - off % a`, or 0 if that is `a`) -/
def padLen (a off : Nat) : Nat := (a - off % a) % a

def leBytes : Nat → Nat → List UInt8
  | 0, _ => []
  | k + 1, n => UInt8.ofNat (n % 256) :: leBytes k (n / 256)

def leVal : List UInt8 → Nat
  | [] => 0
  | b :: bs => b.toNat + 256 * leVal bs

/-- `write_u16/u32/u64` (and `to_le_bytes` / `to_be_bytes`): `k` bytes of `n` in the given order -/
def bytesOf (bo : ByteOrder) (k n : Nat) : List UInt8 :=
  match bo with
  | .le => leBytes k n
  | .be => (leBytes k n).reverse

/-- `parse_u16/u32/u64` -/
def valOf (bo : ByteOrder) (bs : List UInt8) : Nat :=
  match bo with
  | .le => leVal bs
  | .be => leVal bs.reverse

def slice (buf : List UInt8) (off k : Nat) : List UInt8 := (buf.drop off).take k

def zeros (n : Nat) : List UInt8 := List.replicate n 0

def allZero (l : List UInt8) : Bool := l.all (· == 0)

/-- `align_offset` + `Cursor::align_to`: skip zero padding up to alignment `a`, staying below `lim` -/
def skipPad (buf : List UInt8) (off lim a : Nat) : Option Nat :=
  if off + padLen a off ≤ lim ∧ lim ≤ buf.length ∧ allZero (slice buf off (padLen a off)) then
    some (off + padLen a off)
  else none

/-- read a `k`-byte unsigned integer at `off` (no alignment), staying below `lim` -/
def readNum (bo : ByteOrder) (buf : List UInt8) (off lim k : Nat) : Option Nat :=
  if off + k ≤ lim ∧ lim ≤ buf.length then some (valOf bo (slice buf off k)) else none

/-- bytes as the characters U+0000..U+00FF. Used where the code first checks UTF-8 validity and then
    a character class that only contains ASCII: both reject every byte ≥ 0x80. -/
def latin1 (bs : List UInt8) : List Char := bs.map (fun b => Char.ofNat b.toNat)

end Bytes

/-- `std::str::from_utf8(..).is_ok()`: RFC 3629 well-formedness (no overlongs, no surrogates, ≤ U+10FFFF) -/
def Utf8.valid : List UInt8 → Bool
  | [] => true
  | b0 :: rest =>
    let cont (b : UInt8) : Bool := 0x80 ≤ b && b ≤ 0xBF
    if b0 < 0x80 then Utf8.valid rest
    else if 0xC2 ≤ b0 && b0 ≤ 0xDF then
      match rest with
      | b1 :: r => cont b1 && Utf8.valid r
      | _ => false
    else if b0 == 0xE0 then
      match rest with
      | b1 :: b2 :: r => (0xA0 ≤ b1 && b1 ≤ 0xBF) && cont b2 && Utf8.valid r
      | _ => false
    else if (0xE1 ≤ b0 && b0 ≤ 0xEC) || b0 == 0xEE || b0 == 0xEF then
      match rest with
      | b1 :: b2 :: r => cont b1 && cont b2 && Utf8.valid r
      | _ => false
    else if b0 == 0xED then
      match rest with
      | b1 :: b2 :: r => (0x80 ≤ b1 && b1 ≤ 0x9F) && cont b2 && Utf8.valid r
      | _ => false
    else if b0 == 0xF0 then
      match rest with
      | b1 :: b2 :: b3 :: r => (0x90 ≤ b1 && b1 ≤ 0xBF) && cont b2 && cont b3 && Utf8.valid r
      | _ => false
    else if 0xF1 ≤ b0 && b0 ≤ 0xF3 then
      match rest with
      | b1 :: b2 :: b3 :: r => cont b1 && cont b2 && cont b3 && Utf8.valid r
      | _ => false
    else if b0 == 0xF4 then
      match rest with
      | b1 :: b2 :: b3 :: r => (0x80 ≤ b1 && b1 ≤ 0x8F) && cont b2 && cont b3 && Utf8.valid r
      | _ => false
    else false

end Rustbus
