/-
Model of the descriptor handling of rustbus (C11). Import-free.

What is modelled, and where it is in the code:

* the process' descriptor table (kernel): `open : List (fd id × open-file identity)`. The numbers the kernel
  picks are irrelevant, ids are handed out in creation order from `nextFd` and never re-used, so "the
  same id closed twice" is visible (in the real table a re-used number would hide it). `kInstall`
  (what `dup` / `recvmsg` with SCM_RIGHTS do: a new descriptor for an existing open file), `lookupFd`,
  `removeFd` (`close`).
* `UnixFd(Arc<UnixFdInner>)` (wire/wrapper_types/unixfd.rs): a `Cell` `{fd, taken, refs}`; `refs` is the
  `Arc` strong count. `incr` = `clone`, `decr` = dropping one `UnixFd`; the last one runs
  `Drop for UnixFdInner` = `close(fd)` unless the descriptor was taken. `UnixFd::new` = `newCell`.
* `MarshalledMessageBody { raw_fds, buf, .. }` (message_builder.rs): `Body {fds, idx, live}`; `fds` are the
  cells in `raw_fds`, `idx` the u32 values that were written into `buf` for the `h` values, in order.
  Received messages are bodies as well (they are the same type in the code: `unmarshal_next_message`
  builds them with `from_parts`).
* `util::marshal_unixfd` / `impl Marshal for &dyn AsRawFd`: `pushItem` (`get_raw_fd` → `EmptyUnixFd` when
  taken; `dup`; `ctx.fds.push(UnixFd::new(new_fd))`; write `fds.len() - 1`).
* `MarshalledMessageBody::push_mult_helper`: `push` (`fds_len`, `buf_len` remembered; on an error
  `raw_fds.truncate(fds_len)` drops the duplicates made so far, `buf.truncate(buf_len)`).
* `reset` (`raw_fds.clear()`), dropping a body.
* `marshal::marshal` + `SendMessageContext::write_once`: `send` (UNIX_FDS = `get_fds().len()`;
  `get_raw_fds()` = the numbers of the cells that are not taken, attached with SCM_RIGHTS: the kernel
  takes a reference to each open FILE; the body keeps its descriptors).
* `RecvConn::refill_buffer` + `get_next_message`: `receive` (the kernel installs a fresh descriptor per
  file that fits into `cmsg_space!([RawFd; 10])`, each is wrapped by `UnixFd::new` and collected in
  `fds_in`; `mem::take(&mut self.fds_in)` moves them into the message; when `unmarshal_next_message`
  fails the vector is dropped). The socket is a FIFO `wire` of in-flight messages; a message carries the
  identities of the open files, not descriptor numbers.
* `UnmarshalContext::read_unixfd`: `unmarshalFd` (`fds.len() <= idx` → `BadFdIndex`, else a CLONE).
* `UnixFd::{take_raw_fd, get_raw_fd, dup, clone}`, dropping a `UnixFd`.

The caller: `userOpen`, `userClose`, `wrap` (= `UnixFd::new(fd)` on a descriptor the caller owns: the
handle owns it from then on). `raws` are the raw numbers the caller knows (from `userOpen`, `take_raw_fd`,
`get_raw_fd`), ops refer to them by position. Caller actions that violate the ownership discipline of
the API (closing or wrapping a number it does not own) or that name an object that does not exist (any
more) are not histories of the property: the model answers `illegal` and does nothing.

Ghost fields (only written, never read by the operations): `user`, `lib`, `takenFds`, `libClosed`,
`enq`, `deq`. `err` is the error state: a `close` by the library on a descriptor that is not open
(double close), or an `Arc` count that is decremented below zero / incremented on a freed cell.
-/
namespace Rustbus.FdTable

/-- `UnixFdInner` behind its `Arc` -/
structure Cell where
  fd : Nat
  taken : Bool
  refs : Nat
  deriving Repr, DecidableEq

/-- `MarshalledMessageBody`: `fds` = cell ids in `raw_fds`; `idx` = the u32 index values in `buf` -/
structure Body where
  fds : List Nat
  idx : List Nat
  live : Bool
  deriving Repr, DecidableEq

/-- a message in the socket: identities of the open files it carries, the UNIX_FDS header value,
    the index values in its body, and whether `unmarshal_next_message` will accept it -/
structure Flight where
  files : List Nat
  nfds : Nat
  idx : List Nat
  valid : Bool
  deriving Repr, DecidableEq

structure State where
  /-- descriptor table: (descriptor id, open file) in creation order -/
  «open» : List (Nat × Nat)
  nextFd : Nat
  cells : List Cell
  /-- the `UnixFd` values the caller holds: cell id, `none` once dropped / consumed -/
  handles : List (Option Nat)
  bodies : List Body
  wire : List Flight
  /-- raw numbers known to the caller -/
  raws : List Nat
  /-- ghost: descriptors owned by the caller (it has to close them) -/
  user : List Nat
  /-- ghost: descriptors created by the library (dup on marshal, received, `UnixFd::dup`) -/
  lib : List Nat
  /-- ghost: descriptors whose ownership went to the caller through `take_raw_fd` (and was not given
      back to a handle with `wrap`) -/
  takenFds : List Nat
  /-- ghost: the `close` calls of `Drop for UnixFdInner`, in order -/
  libClosed : List Nat
  /-- ghost: the file lists of all messages ever put into the socket / taken out of it -/
  enq : List (List Nat)
  deq : List (List Nat)
  err : Bool
  deriving Repr

def State.init : State :=
  { «open» := [], nextFd := 0, cells := [], handles := [], bodies := [], wire := [], raws := [],
    user := [], lib := [], takenFds := [], libClosed := [], enq := [], deq := [], err := false }

/-- room in `cmsg_space!([RawFd; 10])` -/
def maxRecvFds : Nat := 10

/-! ### kernel -/

def lookupFd : List (Nat × Nat) → Nat → Option Nat
  | [], _ => none
  | (k, f) :: r, d => if k = d then some f else lookupFd r d

def removeFd (l : List (Nat × Nat)) (d : Nat) : List (Nat × Nat) := l.filter (fun p => p.1 != d)

def keys (l : List (Nat × Nat)) : List Nat := l.map (·.1)

/-- a new descriptor for the open file `f` (`dup`, SCM_RIGHTS delivery, `open`) -/
def kInstall (s : State) (f : Nat) : State × Nat :=
  ({ s with «open» := s.open ++ [(s.nextFd, f)], nextFd := s.nextFd + 1 }, s.nextFd)

/-! ### `UnixFd` cells -/

/-- `UnixFd::new(d)` -/
def newCell (s : State) (d : Nat) : State × Nat :=
  ({ s with cells := s.cells ++ [⟨d, false, 1⟩] }, s.cells.length)

/-- `close(d)` called by `Drop for UnixFdInner` -/
def libClose (s : State) (d : Nat) : State :=
  match lookupFd s.open d with
  | some _ => { s with «open» := removeFd s.open d, libClosed := s.libClosed ++ [d] }
  | none => { s with err := true, libClosed := s.libClosed ++ [d] }

/-- `Arc::clone` -/
def incr (s : State) (c : Nat) : State :=
  match s.cells[c]? with
  | some x => if x.refs = 0 then { s with err := true }
              else { s with cells := s.cells.set c { x with refs := x.refs + 1 } }
  | none => { s with err := true }

/-- dropping one `UnixFd`: `Arc` decrement, the last one runs `Drop for UnixFdInner` -/
def decr (s : State) (c : Nat) : State :=
  match s.cells[c]? with
  | none => { s with err := true }
  | some x =>
    if x.refs = 0 then { s with err := true }
    else if x.refs = 1 then
      let s1 := { s with cells := s.cells.set c { x with refs := 0 } }
      if x.taken then s1 else libClose s1 x.fd
    else { s with cells := s.cells.set c { x with refs := x.refs - 1 } }

/-- dropping a `Vec<UnixFd>` / the tail cut off by `truncate`: element by element, front to back -/
def dropRefs (s : State) : List Nat → State
  | [] => s
  | c :: cs => dropRefs (decr s c) cs

/-- a new descriptor for file `f`, created by the library and wrapped in `UnixFd::new` -/
def createOwned (s : State) (f : Nat) : State × Nat :=
  let (s1, d) := kInstall s f
  newCell { s1 with lib := s1.lib ++ [d] } d

/-! ### marshalling into a body -/

inductive Item
  /-- a `UnixFd` / `&UnixFd` the caller holds (handle slot) -/
  | handle (h : Nat)
  /-- a `&dyn AsRawFd` for a raw number the caller knows (slot in `raws`) -/
  | raw (r : Nat)
  /-- any other element whose `marshal` fails (e.g. a string with a NUL byte) -/
  | bad
  deriving Repr, DecidableEq

/-- `dup(d)`, `ctx.fds.push(UnixFd::new(new_fd))`, write `ctx.fds.len() - 1`; `none` = the `dup` failed
    (`MarshalError::DupUnixFd`) -/
def dupInto (s : State) (b : Nat) (d : Nat) : Option State :=
  match lookupFd s.open d with
  | none => none
  | some f =>
    let (s1, c) := createOwned s f
    match s1.bodies[b]? with
    | none => none
    | some bd =>
      some { s1 with bodies := s1.bodies.set b { bd with fds := bd.fds ++ [c], idx := bd.idx ++ [bd.fds.length] } }

/-- `marshal` of one element into body `b`; `none` = `Err(_)` -/
def pushItem (s : State) (b : Nat) : Item → Option State
  | .bad => none
  | .raw r =>
    match s.raws[r]? with
    | some d => dupInto s b d
    | none => none
  | .handle h =>
    match s.handles[h]? with
    | some (some c) =>
      match s.cells[c]? with
      | some x => if x.taken then none /- `EmptyUnixFd` -/ else dupInto s b x.fd
      | none => none
    | _ => none

/-- the elements of one push call in order; stops at the first error, keeping what was done so far -/
def pushLoop (s : State) (b : Nat) : List Item → State × Bool
  | [] => (s, true)
  | it :: rest =>
    match pushItem s b it with
    | none => (s, false)
    | some s1 => pushLoop s1 b rest

def itemLegal (s : State) : Item → Bool
  | .bad => true
  | .raw r => r < s.raws.length
  | .handle h => match s.handles[h]? with | some (some _) => true | _ => false

inductive Res
  | ok
  | illegal
  /-- the library call returned `Err` -/
  | err
  /-- nothing to receive -/
  | empty
  /-- `take_raw_fd` / `get_raw_fd`: `Some(number)` / `None` -/
  | fd (d : Option Nat)
  deriving Repr, DecidableEq

/-- `push_param…` on body `b` (any of the push functions: they all go through `push_mult_helper`) -/
def push (s : State) (b : Nat) (items : List Item) : State × Res :=
  match s.bodies[b]? with
  | none => (s, .illegal)
  | some bd =>
    if bd.live = false ∨ items.all (itemLegal s) = false then (s, .illegal)
    else
      match pushLoop s b items with
      | (s1, true) => (s1, .ok)
      | (s1, false) =>
        match s1.bodies[b]? with
        | none => ({ s1 with err := true }, .err)
        | some bd1 =>
          let bd2 : Body := { bd1 with fds := bd1.fds.take bd.fds.length, idx := bd1.idx.take bd.idx.length }
          let s2 := { s1 with bodies := s1.bodies.set b bd2 }
          (dropRefs s2 (bd1.fds.drop bd.fds.length), .err)

/-- `MarshalledMessageBody::reset` -/
def reset (s : State) (b : Nat) : State × Res :=
  match s.bodies[b]? with
  | none => (s, .illegal)
  | some bd =>
    if bd.live = false then (s, .illegal)
    else (dropRefs { s with bodies := s.bodies.set b { bd with fds := [], idx := [] } } bd.fds, .ok)

/-- dropping a body / message -/
def dropBody (s : State) (b : Nat) : State × Res :=
  match s.bodies[b]? with
  | none => (s, .illegal)
  | some bd =>
    if bd.live = false then (s, .illegal)
    else (dropRefs { s with bodies := s.bodies.set b ⟨[], [], false⟩ } bd.fds, .ok)

/-! ### the socket -/

/-- `get_raw_fds()`: the numbers of the cells that still have one -/
def rawFdsOf (s : State) (fds : List Nat) : List Nat :=
  fds.filterMap (fun c => match s.cells[c]? with
    | some x => if x.taken then none else some x.fd
    | none => none)

/-- the kernel resolves the numbers passed in SCM_RIGHTS; `none` = EBADF -/
def filesOf (s : State) : List Nat → Option (List Nat)
  | [] => some []
  | d :: ds =>
    match lookupFd s.open d, filesOf s ds with
    | some f, some fs => some (f :: fs)
    | _, _ => none

/-- `send_message(..).write_all()` of a message with body `b` -/
def send (s : State) (b : Nat) : State × Res :=
  match s.bodies[b]? with
  | none => (s, .illegal)
  | some bd =>
    if bd.live = false then (s, .illegal)
    else
      match filesOf s (rawFdsOf s bd.fds) with
      | none => (s, .err)
      | some fl =>
        ({ s with wire := s.wire ++ [⟨fl, bd.fds.length, bd.idx, true⟩], enq := s.enq ++ [fl] }, .ok)

/-- the other side sends a message of its own -/
def peerSend (s : State) (files idx : List Nat) (valid : Bool) : State × Res :=
  ({ s with wire := s.wire ++ [⟨files, files.length, idx, valid⟩], enq := s.enq ++ [files] }, .ok)

/-- `refill_buffer`: one fresh descriptor per delivered file, wrapped, collected (in order) in `fds_in` -/
def installAll (s : State) : List Nat → State × List Nat
  | [] => (s, [])
  | f :: fs =>
    let (s1, c) := createOwned s f
    let (s2, cs) := installAll s1 fs
    (s2, c :: cs)

/-- `get_next_message` -/
def receive (s : State) : State × Res :=
  match s.wire with
  | [] => (s, .empty)
  | m :: rest =>
    let delivered := m.files.take maxRecvFds
    let (s1, fdsIn) := installAll { s with wire := rest, deq := s.deq ++ [delivered] } delivered
    if m.valid then
      ({ s1 with bodies := s1.bodies ++ [⟨fdsIn, m.idx, true⟩] }, .ok)
    else (dropRefs s1 fdsIn, .err)

/-- `parser().get::<UnixFd>()` (at any nesting position) for the `j`-th `h` value of body `b` -/
def unmarshalFd (s : State) (b j : Nat) : State × Res :=
  match s.bodies[b]? with
  | none => (s, .illegal)
  | some bd =>
    if bd.live = false then (s, .illegal)
    else
      match bd.idx[j]? with
      | none => (s, .illegal)
      | some i =>
        match bd.fds[i]? with
        | none => (s, .err)          -- `BadFdIndex`
        | some c =>
          let s1 := incr s c
          ({ s1 with handles := s1.handles ++ [some c] }, .ok)

/-! ### handles -/

/-- `take_raw_fd(self)` -/
def take (s : State) (h : Nat) : State × Res :=
  match s.handles[h]? with
  | some (some c) =>
    let s0 := { s with handles := s.handles.set h none }
    match s0.cells[c]? with
    | none => ({ s0 with err := true }, .fd none)
    | some x =>
      if x.taken then (decr s0 c, .fd none)
      else
        let s1 := { s0 with cells := s0.cells.set c { x with taken := true },
                            user := s0.user ++ [x.fd], takenFds := s0.takenFds ++ [x.fd],
                            raws := s0.raws ++ [x.fd] }
        (decr s1 c, .fd (some x.fd))
  | _ => (s, .illegal)

/-- `get_raw_fd(&self)` -/
def get (s : State) (h : Nat) : State × Res :=
  match s.handles[h]? with
  | some (some c) =>
    match s.cells[c]? with
    | none => ({ s with err := true }, .fd none)
    | some x =>
      if x.taken then (s, .fd none)
      else ({ s with raws := s.raws ++ [x.fd] }, .fd (some x.fd))
  | _ => (s, .illegal)

/-- `UnixFd::dup(&self)` -/
def dupHandle (s : State) (h : Nat) : State × Res :=
  match s.handles[h]? with
  | some (some c) =>
    match s.cells[c]? with
    | none => ({ s with err := true }, .err)
    | some x =>
      if x.taken then (s, .err)       -- `DupError::AlreadyTaken`
      else
        match lookupFd s.open x.fd with
        | none => (s, .err)           -- `DupError::Io`
        | some f =>
          let (s1, c') := createOwned s f
          ({ s1 with handles := s1.handles ++ [some c'] }, .ok)
  | _ => (s, .illegal)

/-- `UnixFd::dup(&self)` while the process cannot get another descriptor (the `dup` system call fails with EMFILE /
    ENFILE): `Err(DupError::Io)` (or `AlreadyTaken`, if it was), nothing changes -/
def dupHandleFail (s : State) (h : Nat) : State × Res :=
  match s.handles[h]? with
  | some (some _) => (s, .err)
  | _ => (s, .illegal)

/-- `UnixFd::clone(&self)` -/
def cloneHandle (s : State) (h : Nat) : State × Res :=
  match s.handles[h]? with
  | some (some c) =>
    let s1 := incr s c
    ({ s1 with handles := s1.handles ++ [some c] }, .ok)
  | _ => (s, .illegal)

def dropHandle (s : State) (h : Nat) : State × Res :=
  match s.handles[h]? with
  | some (some c) => (decr { s with handles := s.handles.set h none } c, .ok)
  | _ => (s, .illegal)

/-! ### the caller's own descriptors -/

/-- the caller opens file `f` -/
def userOpen (s : State) (f : Nat) : State × Res :=
  let (s1, d) := kInstall s f
  ({ s1 with user := s1.user ++ [d], raws := s1.raws ++ [d] }, .ok)

/-- the caller closes a descriptor it owns -/
def userClose (s : State) (r : Nat) : State × Res :=
  match s.raws[r]? with
  | some d =>
    if d ∈ s.user then
      ({ s with «open» := removeFd s.open d, user := s.user.filter (· != d) }, .ok)
    else (s, .illegal)
  | none => (s, .illegal)

/-- `UnixFd::new(d)` on a descriptor the caller owns: the handle owns it from now on -/
def wrap (s : State) (r : Nat) : State × Res :=
  match s.raws[r]? with
  | some d =>
    if d ∈ s.user then
      let (s1, c) := newCell { s with user := s.user.filter (· != d),
                                      takenFds := s.takenFds.filter (· != d) } d
      ({ s1 with handles := s1.handles ++ [some c] }, .ok)
    else (s, .illegal)
  | none => (s, .illegal)

def newBody (s : State) : State × Res :=
  ({ s with bodies := s.bodies ++ [⟨[], [], true⟩] }, .ok)

/-! ### histories -/

inductive Op
  | userOpen (f : Nat)
  | userClose (r : Nat)
  | wrap (r : Nat)
  | newBody
  | push (b : Nat) (items : List Item)
  | reset (b : Nat)
  | dropBody (b : Nat)
  | send (b : Nat)
  | peerSend (files idx : List Nat) (valid : Bool)
  | receive
  | unmarshalFd (b j : Nat)
  | take (h : Nat)
  | get (h : Nat)
  | dupHandle (h : Nat)
  | dupHandleFail (h : Nat)
  | cloneHandle (h : Nat)
  | dropHandle (h : Nat)
  deriving Repr

def step (s : State) : Op → State × Res
  | .userOpen f => userOpen s f
  | .userClose r => userClose s r
  | .wrap r => wrap s r
  | .newBody => newBody s
  | .push b items => push s b items
  | .reset b => reset s b
  | .dropBody b => dropBody s b
  | .send b => send s b
  | .peerSend files idx valid => peerSend s files idx valid
  | .receive => receive s
  | .unmarshalFd b j => unmarshalFd s b j
  | .take h => take s h
  | .get h => get s h
  | .dupHandle h => dupHandle s h
  | .dupHandleFail h => dupHandleFail s h
  | .cloneHandle h => cloneHandle s h
  | .dropHandle h => dropHandle s h

/-- the state after a history -/
def run (s : State) : List Op → State
  | [] => s
  | op :: ops => run (step s op).1 ops

/-- the state and the result of every operation -/
def runTrace (s : State) : List Op → List (State × Res)
  | [] => []
  | op :: ops => let r := step s op; r :: runTrace r.1 ops

end Rustbus.FdTable
