import RustbusModel.Model.Wire
/-
C04: an INSTRUMENTED copy of the decoder `Wire.dec` (same branches, same order), which returns besides the
result two counters:

* `work`  = number of decoder calls + number of element-loop iterations (`decList` / `decEntries`, the final
            "no bytes left" test included) + number of content bytes of string-likes handed to the UTF-8 /
            object path / signature validators + number of signature characters handed to
            `Type::parse_description` by a variant.  This is what the running time of `validate_raw`,
            the Param unmarshaller and the typed unmarshallers is proportional to (every one of these steps
            costs O(1) apart from padding of at most 7 bytes).
* `depth` = the maximal number of container levels entered (array, struct, variant = 1; dict = 2 because the
            code counts the array and the dict entry), i.e. what the recursion depth of the Rust code
            (stack use) is proportional to.

`Props/C04.lean` proves that `(decW ..).res = dec ..` on all inputs, that `depth` never exceeds the budget and
that `work` is linear in the number of input bytes, on success and on failure.
Model files may only import other model files.
-/
namespace Rustbus

namespace Ty
mutual
/-- number of nodes of a type (a dict counts 2: array + entry); never more than the characters of its signature -/
def size : Ty → Nat
  | base _ => 1
  | array e => 1 + size e
  | dict _ v => 2 + size v
  | struct fs => 1 + sizeList fs
  | variant => 1
def sizeList : List Ty → Nat
  | [] => 0
  | t :: ts => size t + sizeList ts
end
end Ty

namespace Wire
open Bytes

/-- the outcome of an instrumented run -/
structure W (α : Type) where
  res : Option α
  work : Nat
  depth : Nat

/-- work of `decBase`: one call, plus the content bytes of a string-like once its length check has passed
    (they are scanned by the validators) -/
def decBaseWork (bo : ByteOrder) (buf : List UInt8) (b : Base) (off lim : Nat) : Nat :=
  match b.fixedSize with
  | some _ => 1
  | none =>
    match b with
    | .signature =>
      match readNum bo buf off lim 1 with
      | none => 1
      | some len => if off + len + 2 ≤ lim then 1 + len else 1
    | _ =>
      match skipPad buf off lim 4 with
      | none => 1
      | some o =>
        match readNum bo buf o lim 4 with
        | none => 1
        | some len => if o + len + 5 ≤ lim then 1 + len else 1

mutual
/-- `dec` with counters -/
def decW (bo : ByteOrder) (buf : List UInt8) (nfds : Option Nat) : Nat → Ty → Nat → Nat → W (Val × Nat)
  | _, .base b, off, lim => ⟨decBase bo buf nfds b off lim, decBaseWork bo buf b off lim, 0⟩
  | 0, _, _, _ => ⟨none, 1, 0⟩
  | d + 1, .array e, off, lim =>
    match skipPad buf off lim 4 with
    | none => ⟨none, 1, 1⟩
    | some o =>
      match readNum bo buf o lim 4 with
      | none => ⟨none, 1, 1⟩
      | some len =>
        if len ≤ maxArrayLen then
          match skipPad buf (o + 4) lim e.align with
          | none => ⟨none, 1, 1⟩
          | some o2 =>
            if o2 + len ≤ lim then
              match decListW bo buf nfds d e o2 (o2 + len) len with
              | ⟨none, w, dp⟩ => ⟨none, 1 + w, 1 + dp⟩
              | ⟨some vs, w, dp⟩ => ⟨some (.arr vs, o2 + len), 1 + w, 1 + dp⟩
            else ⟨none, 1, 1⟩
        else ⟨none, 1, 1⟩
  | d + 1, .dict k v, off, lim =>
    match d with
    | 0 => ⟨none, 1, 1⟩
    | d' + 1 =>
      match skipPad buf off lim 4 with
      | none => ⟨none, 1, 2⟩
      | some o =>
        match readNum bo buf o lim 4 with
        | none => ⟨none, 1, 2⟩
        | some len =>
          if len ≤ maxArrayLen then
            match skipPad buf (o + 4) lim 8 with
            | none => ⟨none, 1, 2⟩
            | some o2 =>
              if o2 + len ≤ lim then
                match decEntriesW bo buf nfds d' k v o2 (o2 + len) len with
                | ⟨none, w, dp⟩ => ⟨none, 1 + w, 2 + dp⟩
                | ⟨some es, w, dp⟩ => ⟨some (.arr es, o2 + len), 1 + w, 2 + dp⟩
              else ⟨none, 1, 2⟩
          else ⟨none, 1, 2⟩
  | d + 1, .struct fs, off, lim =>
    if fs.isEmpty then ⟨none, 1, 1⟩
    else
      match skipPad buf off lim 8 with
      | none => ⟨none, 1, 1⟩
      | some o =>
        match decFieldsW bo buf nfds d fs o lim with
        | ⟨none, w, dp⟩ => ⟨none, 1 + w, 1 + dp⟩
        | ⟨some (vs, o'), w, dp⟩ => ⟨some (.struct vs, o'), 1 + w, 1 + dp⟩
  | d + 1, .variant, off, lim =>
    match readNum bo buf off lim 1 with
    | none => ⟨none, 1, 1⟩
    | some len =>
      if off + len + 2 ≤ lim then
        if slice buf (off + 1 + len) 1 = [0] then
          match Sig.parseDescription (latin1 (slice buf (off + 1) len)) with
          | some [t] =>
            match decW bo buf nfds d t (off + len + 2) lim with
            | ⟨none, w, dp⟩ => ⟨none, 1 + len + w, 1 + dp⟩
            | ⟨some (v, o'), w, dp⟩ => ⟨some (.variant t v, o'), 1 + len + w, 1 + dp⟩
          | _ => ⟨none, 1 + len, 1⟩
        else ⟨none, 1, 1⟩
      else ⟨none, 1, 1⟩
/-- `decList` with counters: every iteration (the last, empty one included) counts 1 -/
def decListW (bo : ByteOrder) (buf : List UInt8) (nfds : Option Nat) (d : Nat) (e : Ty) (off lim : Nat) :
    Nat → W (List Val)
  | 0 => ⟨if off = lim then some [] else none, 1, 0⟩
  | fuel + 1 =>
    if off = lim then ⟨some [], 1, 0⟩
    else
      match decW bo buf nfds d e off lim with
      | ⟨none, w, dp⟩ => ⟨none, 1 + w, dp⟩
      | ⟨some (v, o'), w, dp⟩ =>
        match decListW bo buf nfds d e o' lim fuel with
        | ⟨none, w', dp'⟩ => ⟨none, 1 + w + w', max dp dp'⟩
        | ⟨some vs, w', dp'⟩ => ⟨some (v :: vs), 1 + w + w', max dp dp'⟩
/-- `decEntries` with counters -/
def decEntriesW (bo : ByteOrder) (buf : List UInt8) (nfds : Option Nat) (d : Nat) (k : Base) (vt : Ty)
    (off lim : Nat) : Nat → W (List Val)
  | 0 => ⟨if off = lim then some [] else none, 1, 0⟩
  | fuel + 1 =>
    if off = lim then ⟨some [], 1, 0⟩
    else
      match skipPad buf off lim 8 with
      | none => ⟨none, 1, 0⟩
      | some o =>
        match decBase bo buf nfds k o lim with
        | none => ⟨none, 1 + decBaseWork bo buf k o lim, 0⟩
        | some (kv, o1) =>
          match decW bo buf nfds d vt o1 lim with
          | ⟨none, w, dp⟩ => ⟨none, 1 + decBaseWork bo buf k o lim + w, dp⟩
          | ⟨some (vv, o2), w, dp⟩ =>
            match decEntriesW bo buf nfds d k vt o2 lim fuel with
            | ⟨none, w', dp'⟩ => ⟨none, 1 + decBaseWork bo buf k o lim + w + w', max dp dp'⟩
            | ⟨some es, w', dp'⟩ =>
              ⟨some (.struct [kv, vv] :: es), 1 + decBaseWork bo buf k o lim + w + w', max dp dp'⟩
/-- `decFields` with counters (the field sequence itself is not a loop of its own: one decoder call per field) -/
def decFieldsW (bo : ByteOrder) (buf : List UInt8) (nfds : Option Nat) (d : Nat) :
    List Ty → Nat → Nat → W (List Val × Nat)
  | [], off, _ => ⟨some ([], off), 0, 0⟩
  | t :: ts, off, lim =>
    match decW bo buf nfds d t off lim with
    | ⟨none, w, dp⟩ => ⟨none, w, dp⟩
    | ⟨some (v, o'), w, dp⟩ =>
      match decFieldsW bo buf nfds d ts o' lim with
      | ⟨none, w', dp'⟩ => ⟨none, w + w', max dp dp'⟩
      | ⟨some (vs, o''), w', dp'⟩ => ⟨some (v :: vs, o''), w + w', max dp dp'⟩
end

/-- instrumented `validate_marshalled` -/
def validateW (bo : ByteOrder) (buf : List UInt8) (off : Nat) (t : Ty) : W (Val × Nat) :=
  decW bo buf none maxDepth t off buf.length

/-- instrumented `decBody` (`MarshalledMessageBody::validate`, the `get_param` loop): the types of the body
    signature one after the other, then the "all bytes used" test -/
def decBodyW (bo : ByteOrder) (buf : List UInt8) (nfds : Option Nat) (ts : List Ty) (off : Nat) : W (List Val) :=
  match decFieldsW bo buf nfds maxDepth ts off buf.length with
  | ⟨none, w, dp⟩ => ⟨none, w, dp⟩
  | ⟨some (vs, o), w, dp⟩ => ⟨if o = buf.length then some vs else none, w, dp⟩

/-- the linear bound of C04 on `work` for a decode of type `t` with budget `d` in a window of `n` bytes -/
def workBound (t : Ty) (d n : Nat) : Nat := max t.size 256 * (1 + (d + 1) * n)

end Wire
end Rustbus
