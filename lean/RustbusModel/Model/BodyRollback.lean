import RustbusModel.Model.Body
/-
The push mechanism of `MarshalledMessageBody` with its dirty intermediate state made explicit (C15): `push_mult_helper`
remembers three lengths, lets the marshallers work on the live buffers and truncates on an error.
-/
namespace Rustbus.Body
open Rustbus Rustbus.Bytes Rustbus.Wire Rustbus.Marshal

/-- what a FAILING marshaller may have left behind before it returned its error: any bytes, any signature characters, any
    number of duplicated descriptors appended to the three buffers (universally quantified: the model does not say what
    partial output a failing `Marshal::marshal` produces) -/
structure Junk where
  bytes : List UInt8
  sig : List Char
  fds : Nat

/-- the push mechanism WITHOUT its rollback: the items are pushed one after the other onto the live body; when one fails the
    body is left dirty - everything pushed before it plus whatever the failing marshaller wrote -/
def pushDirty (b : Body) (j : Junk) : List Item → Body × Bool
  | [] => (b, true)
  | it :: its =>
    match pushItem b it with
    | some b' => pushDirty b' j its
    | none => ({ b with buf := b.buf ++ j.bytes, sig := b.sig ++ j.sig, nfds := b.nfds + j.fds }, false)

/-- `push_mult_helper` as it is written: remember the three lengths, push onto the live body, truncate on error -/
def pushWithRollback (b : Body) (j : Junk) (items : List Item) : Body × Bool :=
  match pushDirty b j items with
  | (d, true) => (d, true)
  | (d, false) => (rollback b d, false)

end Rustbus.Body
