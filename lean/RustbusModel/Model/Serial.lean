/-
Model of SendConn::{alloc_serial, send_message} serial handling (connection/ll_conn.rs) and of the
reply constructors DynamicHeader::{make_response, make_error_response},
standard_messages::{unknown_method, invalid_args} (C13). Import-free.
-/
namespace Rustbus.Serial

/-- `SendConn.serial_counter : NonZeroU32`, starts at `NonZeroU32::MIN` = 1 -/
structure Conn where
  counter : Nat
  deriving Repr, DecidableEq

def Conn.init : Conn := ⟨1⟩

def u32Max : Nat := 4294967295

/-- `alloc_serial`: post-increment; `checked_add(1).expect("run out of serials")` panics (`none`)
    when the counter is `u32::MAX` -/
def allocSerial (c : Conn) : Option (Nat × Conn) :=
  if c.counter + 1 ≤ u32Max then some (c.counter, ⟨c.counter + 1⟩) else none

/-- `send_message`: a preset serial (`msg.dynheader.serial`) wins, otherwise a fresh one is allocated.
    Returns the serial written into the header and reported to the caller. -/
def sendSerial (c : Conn) (preset : Option Nat) : Option (Nat × Conn) :=
  match preset with
  | some s => some (s, c)
  | none => allocSerial c

inductive Op
  | alloc
  | send (preset : Option Nat)
  deriving Repr

/-- what one operation hands out: the serial and whether the connection issued it itself -/
structure Issued where
  serial : Nat
  fresh : Bool
  deriving Repr, DecidableEq

def step (c : Conn) : Op → Option (Issued × Conn)
  | .alloc => (allocSerial c).map (fun (s, c') => (⟨s, true⟩, c'))
  | .send p => (sendSerial c p).map (fun (s, c') => (⟨s, p.isNone⟩, c'))

/-- run a history; `none` = the overflow panic was hit -/
def run : Conn → List Op → Option (List Issued × Conn)
  | c, [] => some ([], c)
  | c, op :: ops =>
    match step c op with
    | none => none
    | some (i, c') =>
      match run c' ops with
      | none => none
      | some (is, c'') => some (i :: is, c'')


/-! ### Suspended sends

`send_message` chooses the serial and marshals the header; the caller may look at it (`SendMessageContext::serial`),
suspend the send (`into_progress`, before or after some bytes were written), allocate serials explicitly in the
meantime, and later `resume` and finish it — or give the message up. The API contract allows one suspended send at a
time and no other send while it is suspended. -/

inductive Op2
  | base (op : Op)
  /-- `send_message(msg)`, `ctx.serial()` reported to the caller, `ctx.into_progress()` -/
  | begin (preset : Option Nat)
  /-- `SendMessageContext::resume(conn, msg, progress).write_all()`: the message reaches the wire -/
  | resume
  /-- the suspended send is given up (`force_finish` / the progress is dropped) -/
  | abandon
  deriving Repr

structure Conn2 where
  conn : Conn
  /-- `SendMessageState.serial` of the suspended send, if any -/
  pending : Option Nat
  deriving Repr, DecidableEq

def Conn2.init : Conn2 := ⟨Conn.init, none⟩

inductive Ev
  /-- a serial handed to the caller -/
  | issued (i : Issued)
  /-- the serial field of a header that reached the wire -/
  | wire (serial : Nat)
  deriving Repr, DecidableEq

/-- `none` = the overflow panic, or a call sequence the API contract forbids (a send or a second suspension while a
    send is suspended; resume / abandon with nothing suspended) -/
def step2 (c : Conn2) : Op2 → Option (List Ev × Conn2)
  | .base .alloc => (allocSerial c.conn).map (fun (s, k) => ([.issued ⟨s, true⟩], { c with conn := k }))
  | .base (.send p) =>
    match c.pending with
    | some _ => none
    | none => (sendSerial c.conn p).map (fun (s, k) => ([.issued ⟨s, p.isNone⟩, .wire s], { c with conn := k }))
  | .begin p =>
    match c.pending with
    | some _ => none
    | none => (sendSerial c.conn p).map (fun (s, k) => ([.issued ⟨s, p.isNone⟩], ⟨k, some s⟩))
  | .resume =>
    match c.pending with
    | some s => some ([.wire s], { c with pending := none })
    | none => none
  | .abandon =>
    match c.pending with
    | some _ => some ([], { c with pending := none })
    | none => none

def run2 : Conn2 → List Op2 → Option (List Ev × Conn2)
  | c, [] => some ([], c)
  | c, op :: ops =>
    match step2 c op with
    | none => none
    | some (es, c') =>
      match run2 c' ops with
      | none => none
      | some (es', c'') => some (es ++ es', c'')

/-- the serials handed to the caller, in order -/
def issuedOf : List Ev → List Issued
  | [] => []
  | .issued i :: es => i :: issuedOf es
  | .wire _ :: es => issuedOf es

/-! ### `DuplexConn::send_hello`

The Hello call is sent with a fresh serial; the NEXT message that arrives is taken as its answer: it is accepted only
if its reply serial is that serial (whatever else it is), and then its body must start with a string, the unique name. -/

/-- what arrives after the Hello was sent -/
structure Arrival where
  replySerial : Option Nat
  /-- the body's first value is a string, and which -/
  bodyString : Option (List Char)
  deriving Repr, DecidableEq

inductive HelloRes
  | name (n : List Char)
  /-- `Error::AuthFailed`: the message is not the answer to the Hello -/
  | notTheAnswer
  /-- the answer carries no string -/
  | badBody
  deriving Repr, DecidableEq

/-- returns the serial the Hello was sent with, the outcome, the connection; `none` = serial overflow panic -/
def sendHello (c : Conn) (a : Arrival) : Option (Nat × HelloRes × Conn) :=
  match allocSerial c with
  | none => none
  | some (s, c') =>
    if a.replySerial ≠ some s then some (s, .notTheAnswer, c')
    else match a.bodyString with
      | some n => some (s, .name n, c')
      | none => some (s, .badBody, c')

/-- the part of a header the reply constructors look at / set -/
structure Hdr where
  serial : Option Nat
  sender : Option (List Char)
  destination : Option (List Char)
  replySerial : Option Nat
  errorName : Option (List Char)
  isError : Bool
  deriving Repr, DecidableEq

/-- `DynamicHeader::make_response` -/
def makeResponse (call : Hdr) : Hdr :=
  { serial := none, sender := none, destination := call.sender, replySerial := call.serial,
    errorName := none, isError := false }

/-- `DynamicHeader::make_error_response(name, _)` (and `unknown_method`, `invalid_args` built on it) -/
def makeErrorResponse (call : Hdr) (name : List Char) : Hdr :=
  { serial := none, sender := none, destination := call.sender, replySerial := call.serial,
    errorName := some name, isError := true }

end Rustbus.Serial
