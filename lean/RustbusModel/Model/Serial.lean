/-
Model of SendConn::{alloc_serial, send_message} serial handling (connection/ll_conn.rs) and of the
reply constructors DynamicHeader::{make_response, make_error_response},
standard_messages::{unknown_method, invalid_args} (C13). Import-free.
-/
namespace Rustbus.Serial

/-- `SendConn.serial_counter : NonZeroU32`, starts at `NonZeroU32::MIN` = 1 -/
structure Conn where
  counter : Nat
  deriving Repr, DecidableEq

def Conn.init : Conn := ⟨1⟩

def u32Max : Nat := 4294967295

/-- `alloc_serial`: post-increment; `checked_add(1).expect("run out of serials")` panics (`none`)
    when the counter is `u32::MAX` -/
def allocSerial (c : Conn) : Option (Nat × Conn) :=
  if c.counter + 1 ≤ u32Max then some (c.counter, ⟨c.counter + 1⟩) else none

/-- `send_message`: a preset serial (`msg.dynheader.serial`) wins, otherwise a fresh one is allocated.
    Returns the serial written into the header and reported to the caller. -/
def sendSerial (c : Conn) (preset : Option Nat) : Option (Nat × Conn) :=
  match preset with
  | some s => some (s, c)
  | none => allocSerial c

inductive Op
  | alloc
  | send (preset : Option Nat)
  deriving Repr

/-- what one operation hands out: the serial and whether the connection issued it itself -/
structure Issued where
  serial : Nat
  fresh : Bool
  deriving Repr, DecidableEq

def step (c : Conn) : Op → Option (Issued × Conn)
  | .alloc => (allocSerial c).map (fun (s, c') => (⟨s, true⟩, c'))
  | .send p => (sendSerial c p).map (fun (s, c') => (⟨s, p.isNone⟩, c'))

/-- run a history; `none` = the overflow panic was hit -/
def run : Conn → List Op → Option (List Issued × Conn)
  | c, [] => some ([], c)
  | c, op :: ops =>
    match step c op with
    | none => none
    | some (i, c') =>
      match run c' ops with
      | none => none
      | some (is, c'') => some (i :: is, c'')

/-- the part of a header the reply constructors look at / set -/
structure Hdr where
  serial : Option Nat
  sender : Option (List Char)
  destination : Option (List Char)
  replySerial : Option Nat
  errorName : Option (List Char)
  isError : Bool
  deriving Repr, DecidableEq

/-- `DynamicHeader::make_response` -/
def makeResponse (call : Hdr) : Hdr :=
  { serial := none, sender := none, destination := call.sender, replySerial := call.serial,
    errorName := none, isError := false }

/-- `DynamicHeader::make_error_response(name, _)` (and `unknown_method`, `invalid_args` built on it) -/
def makeErrorResponse (call : Hdr) (name : List Char) : Hdr :=
  { serial := none, sender := none, destination := call.sender, replySerial := call.serial,
    errorName := some name, isError := true }

end Rustbus.Serial
