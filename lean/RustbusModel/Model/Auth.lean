import RustbusModel.Model.Bytes
/-
Model of connection setup (C17):
  A. connection.rs  `parse_dbus_addr_str`, `get_session_bus_path`, `get_system_bus_path`
  B. auth.rs        `get_uid_as_hex`
  C. auth.rs        `write_message`, `has_line_ending`, `find_line_ending`, `read_message`, `do_auth`,
                    `negotiate_unix_fds`, `send_begin`; ll_conn.rs `DuplexConn::connect_to_bus`.
Inputs that are not the library's: the file-exists test (`Path::exists`), the uid (`getuid`), what
each `stream.read` returns (a script of events) and whether the k-th write succeeds.
Only imports the byte vocabulary (for `Utf8.valid`).
-/
namespace Rustbus.Auth

/-! ## A. address parser -/

/-- `str::split_once(c)`: split at the FIRST occurrence of `c`; `none` if there is none -/
def splitOnce (c : Char) : List Char → Option (List Char × List Char)
  | [] => none
  | x :: xs =>
    if x = c then some ([], xs)
    else
      match splitOnce c xs with
      | none => none
      | some (a, b) => some (x :: a, b)

/-- `str::split(c)`: first piece and the further pieces (there is always a first piece) -/
def splitAll (c : Char) : List Char → List Char × List (List Char)
  | [] => ([], [])
  | x :: xs =>
    let r := splitAll c xs
    if x = c then ([], r.1 :: r.2) else (x :: r.1, r.2)

/-- the items the `for pair in addr_pairs.split(',')` loop sees, in order -/
def pieces (c : Char) (s : List Char) : List (List Char) := (splitAll c s).1 :: (splitAll c s).2

/-- canonical outcome of address resolution (the engine maps `Result<UnixAddr>` to the same enum) -/
inductive AddrResult
  | path (p : List Char)            -- Ok(UnixAddr) with `.path() == p`
  | abstract (a : List Char)        -- Ok(UnixAddr) with `.as_abstract() == a`
  | errNoAddress                    -- Error::NoAddressFound
  | errNotSupported                 -- Error::AddressTypeNotSupported
  | errPathMissing (p : List Char)  -- Error::PathDoesNotExist(p)
  | errIo                           -- Error::IoError (from `UnixAddr::new`/`new_abstract`)
  deriving Repr, DecidableEq

def kUnix : List Char := ['u', 'n', 'i', 'x']
def kPath : List Char := ['p', 'a', 't', 'h']
def kAbstract : List Char := ['a', 'b', 's', 't', 'r', 'a', 'c', 't']

/-- length of the UTF-8 encoding (`str::len`) -/
def utf8Len : List Char → Nat
  | [] => 0
  | c :: cs => c.utf8Size + utf8Len cs

/-- `sizeof(sockaddr_un.sun_path)` on Linux; nix refuses names with `len >= 108` (ENAMETOOLONG) -/
def sunPathLen : Nat := 108

/-- `UnixAddr::new(path)`: fails for an interior NUL (`with_nix_path`) or a too long name -/
def unixAddrNewOk (p : List Char) : Bool := !(p.contains (Char.ofNat 0)) && utf8Len p < sunPathLen

/-- `UnixAddr::new_abstract(bytes)`: only the length is checked -/
def unixAddrAbstractOk (a : List Char) : Bool := utf8Len a < sunPathLen

/-- body of the `for pair in …` loop. `some r` = the function returns `r` here, `none` = next pair.
    `ex` is `Path::exists` on the value. -/
def pairStep (ex : List Char → Bool) (pair : List Char) : Option AddrResult :=
  match splitOnce '=' pair with
  | none => some .errNotSupported                       -- `.ok_or_else(AddressTypeNotSupported)?`
  | some (key, value) =>
    if key = kPath then
      if ex value then
        (if unixAddrNewOk value then some (.path value) else some .errIo)
      else some (.errPathMissing value)
    else if key = kAbstract then
      (if unixAddrAbstractOk value then some (.abstract value) else some .errIo)
    else none

def scanPairs (ex : List Char → Bool) : List (List Char) → AddrResult
  | [] => .errNotSupported                              -- fell out of the loop
  | p :: ps =>
    match pairStep ex p with
    | some r => r
    | none => scanPairs ex ps

/-- `parse_dbus_addr_str` -/
def parseAddr (ex : List Char → Bool) (addr : List Char) : AddrResult :=
  match splitOnce ':' addr with
  | none => .errNoAddress
  | some (sys, rest) =>
    if sys = kUnix then scanPairs ex (pieces ',' rest) else .errNotSupported

/-- `get_session_bus_path`; `env = none`: the variable is unset or not valid unicode -/
def sessionBusPath (ex : List Char → Bool) (env : Option (List Char)) : AddrResult :=
  match env with
  | some a => parseAddr ex a
  | none => .errNoAddress

def systemSocket : List Char :=
  ['/', 'r', 'u', 'n', '/', 'd', 'b', 'u', 's', '/', 's', 'y', 's', 't', 'e', 'm', '_', 'b', 'u', 's', '_', 's', 'o', 'c', 'k', 'e', 't']

/-- `get_system_bus_path` -/
def systemBusPath (ex : List Char → Bool) : AddrResult :=
  if ex systemSocket then
    (if unixAddrNewOk systemSocket then .path systemSocket else .errIo)
  else .errPathMissing systemSocket

/-! ## B. `get_uid_as_hex` -/

/-- `while tmp > 0 { numbers.push(tmp % 10); tmp /= 10 }` with explicit fuel (least significant first) -/
def digitsRevAux : Nat → Nat → List Nat
  | 0, _ => []
  | f + 1, n => if n = 0 then [] else (n % 10) :: digitsRevAux f (n / 10)

/-- fuel `n` is enough: `tmp / 10 < tmp` -/
def digitsRev (n : Nat) : List Nat := digitsRevAux n n

/-- the `match numbers[..] { 0 => "30", …, 9 => "39", _ => unreachable!() }`; `none` = panic -/
def hexOfDigit : Nat → Option (List Char)
  | 0 => some ['3', '0']
  | 1 => some ['3', '1']
  | 2 => some ['3', '2']
  | 3 => some ['3', '3']
  | 4 => some ['3', '4']
  | 5 => some ['3', '5']
  | 6 => some ['3', '6']
  | 7 => some ['3', '7']
  | 8 => some ['3', '8']
  | 9 => some ['3', '9']
  | _ => none

def pushDigits : List Nat → Option (List Char)
  | [] => some []
  | d :: ds =>
    match hexOfDigit d, pushDigits ds with
    | some h, some r => some (h ++ r)
    | _, _ => none

/-- `get_uid_as_hex` for `getuid() = uid`; `none` = the `unreachable!()` panic -/
def getUidAsHex (uid : Nat) : Option (List Char) :=
  if uid = 0 then some ['3', '0']
  else pushDigits (digitsRev uid).reverse     -- `numbers[numbers.len() - 1 - idx]` for idx = 0..

/-! ## C. the handshake -/

/-- what one `stream.read(&mut tmpbuf)` returns: `chunk bs` = `Ok(bs.len())` with these bytes
    (really 1..=512 of them; an empty chunk is `Ok(0)` and is treated like `eof`), `eof` = `Ok(0)`,
    `err` = `Err(_)`. A script is the list of these in the order the reads happen. When the script is
    exhausted the next read is treated as `eof` (a peer that neither answers nor closes is outside the
    model: the real client blocks forever, `auth.rs` has no timeout). -/
inductive Ev
  | chunk (bs : List UInt8)
  | eof
  | err
  deriving Repr, DecidableEq

/-- how a step can fail -/
inductive Fail
  | eof            -- io::ErrorKind::UnexpectedEof
  | invalidData    -- io::ErrorKind::InvalidData (line not UTF-8)
  | ioOther        -- any other io::Error (failed read or write)
  | panic          -- an `unwrap`/`unreachable!` fired
  deriving Repr, DecidableEq

def asciiBytes (s : List Char) : List UInt8 := s.map (fun c => UInt8.ofNat c.toNat)

def crlf : List UInt8 := [13, 10]

/-- `has_line_ending`: some `idx ≥ 1` with `buf[idx-1] == '\r' && buf[idx] == '\n'` -/
def hasLineEnding : List UInt8 → Bool
  | a :: b :: rest => (a == 13 && b == 10) || hasLineEnding (b :: rest)
  | _ => false

/-- `find_line_ending`: index of the `'\r'` of the first "\r\n" -/
def findLineEnding : List UInt8 → Option Nat
  | a :: b :: rest =>
    if a == 13 && b == 10 then some 0
    else
      match findLineEnding (b :: rest) with
      | some i => some (i + 1)
      | none => none
  | _ => none

structure LoopOut where
  buf : Except Fail (List UInt8)
  rest : List Ev
  reads : Nat        -- number of `stream.read` calls
  consumed : Nat     -- bytes taken from the stream
  deriving Repr

/-- the `while !has_line_ending(buf) { read; if 0 → UnexpectedEof; extend }` loop of `read_message` -/
def readLoop : List UInt8 → List Ev → LoopOut
  | buf, [] =>
    if hasLineEnding buf then ⟨.ok buf, [], 0, 0⟩
    else ⟨.error .eof, [], 1, 0⟩                            -- script exhausted: read as eof
  | buf, ev :: s =>
    if hasLineEnding buf then ⟨.ok buf, ev :: s, 0, 0⟩
    else
      match ev with
      | .eof => ⟨.error .eof, s, 1, 0⟩
      | .err => ⟨.error .ioOther, s, 1, 0⟩
      | .chunk bs =>
        if bs.isEmpty then ⟨.error .eof, s, 1, 0⟩
        else
          let r := readLoop (buf ++ bs) s
          ⟨r.buf, r.rest, r.reads + 1, r.consumed + bs.length⟩

/-- one line the client took from the stream: the text before the first "\r\n" and the bytes that
    were in the buffer AFTER that "\r\n" (they are dropped together with `read_buf`) -/
structure Reply where
  line : List UInt8
  extra : List UInt8
  deriving Repr, DecidableEq

/-- the client's view of the socket during the handshake -/
structure St where
  script : List Ev                    -- read events still to come
  written : List (List UInt8) := []   -- successful writes in order (one entry per sendmsg/write_all)
  nwrites : Nat := 0                  -- write attempts so far (index of the next write)
  reads : Nat := 0
  consumed : Nat := 0
  replies : List Reply := []          -- lines taken from the stream so far
  deriving Repr, DecidableEq

/-- `read_message(stream, &mut Vec::new())` (both callers pass a fresh buffer) -/
def readMessage (st : St) : St × Except Fail (List UInt8) :=
  let r := readLoop [] st.script
  let st1 := { st with script := r.rest, reads := st.reads + r.reads, consumed := st.consumed + r.consumed }
  match r.buf with
  | .error e => (st1, .error e)
  | .ok buf =>
    match findLineEnding buf with
    | none => (st1, .error .panic)                       -- `find_line_ending(buf).unwrap()`
    | some idx =>
      let line := buf.take idx                           -- `buf.drain(0..idx)`
      let st2 := { st1 with replies := st1.replies ++ [⟨line, buf.drop (idx + 2)⟩] }
      if Utf8.valid line then (st2, .ok line) else (st2, .error .invalidData)

/-- one `sendmsg` / `write_all`; `wok k` = the k-th write attempt succeeds -/
def send (wok : Nat → Bool) (st : St) (raw : List UInt8) : St × Bool :=
  if wok st.nwrites then
    ({ st with written := st.written ++ [raw], nwrites := st.nwrites + 1 }, true)
  else ({ st with nwrites := st.nwrites + 1 }, false)

/-- `str::starts_with` on a valid UTF-8 string is a byte prefix test -/
def startsWith (pre s : List UInt8) : Bool := pre.isPrefixOf s

def msgNul : List UInt8 := [0]
def okBytes : List UInt8 := asciiBytes ['O', 'K']
def agreeBytes : List UInt8 :=
  asciiBytes ['A', 'G', 'R', 'E', 'E', '_', 'U', 'N', 'I', 'X', '_', 'F', 'D']
/-- "AUTH EXTERNAL " -/
def authPrefix : List UInt8 :=
  asciiBytes ['A', 'U', 'T', 'H', ' ', 'E', 'X', 'T', 'E', 'R', 'N', 'A', 'L', ' ']
def authLine (hex : List Char) : List UInt8 := authPrefix ++ asciiBytes hex ++ crlf
/-- "NEGOTIATE_UNIX_FD\r\n" -/
def negLine : List UInt8 :=
  asciiBytes ['N', 'E', 'G', 'O', 'T', 'I', 'A', 'T', 'E', '_', 'U', 'N', 'I', 'X', '_', 'F', 'D'] ++ crlf
/-- "BEGIN\r\n" -/
def beginLine : List UInt8 := asciiBytes ['B', 'E', 'G', 'I', 'N'] ++ crlf

/-- `io::Result<AuthResult>` -/
inductive StepRes
  | ok
  | rejected
  | fail (f : Fail)
  deriving Repr, DecidableEq

/-- `do_auth` -/
def doAuth (wok : Nat → Bool) (uid : Nat) (st : St) : St × StepRes :=
  match send wok st msgNul with
  | (st, false) => (st, .fail .ioOther)
  | (st, true) =>
    match getUidAsHex uid with
    | none => (st, .fail .panic)
    | some hex =>
      match send wok st (authLine hex) with
      | (st, false) => (st, .fail .ioOther)
      | (st, true) =>
        match readMessage st with
        | (st, .error e) => (st, .fail e)
        | (st, .ok line) => (st, if startsWith okBytes line then .ok else .rejected)

/-- `negotiate_unix_fds` -/
def negotiateUnixFds (wok : Nat → Bool) (st : St) : St × StepRes :=
  match send wok st negLine with
  | (st, false) => (st, .fail .ioOther)
  | (st, true) =>
    match readMessage st with
    | (st, .error e) => (st, .fail e)
    | (st, .ok line) => (st, if startsWith agreeBytes line then .ok else .rejected)

/-- `send_begin` -/
def sendBegin (wok : Nat → Bool) (st : St) : St × StepRes :=
  match send wok st beginLine with
  | (st, false) => (st, .fail .ioOther)
  | (st, true) => (st, .ok)

/-- `Result<DuplexConn>` of `connect_to_bus` -/
inductive ConnResult
  | ok
  | authFailed        -- Error::AuthFailed
  | fdFailed          -- Error::UnixFdNegotiationFailed
  | fail (f : Fail)   -- Error::IoError / panic
  deriving Repr, DecidableEq

/-- the part of `DuplexConn::connect_to_bus` after `connect(2)` succeeded -/
def connectFrom (wok : Nat → Bool) (uid : Nat) (withFd : Bool) (st : St) : St × ConnResult :=
  match doAuth wok uid st with
  | (st, .fail f) => (st, .fail f)
  | (st, .rejected) => (st, .authFailed)
  | (st, .ok) =>
    let neg : St × StepRes := if withFd then negotiateUnixFds wok st else (st, .ok)
    match neg with
    | (st, .fail f) => (st, .fail f)
    | (st, .rejected) => (st, .fdFailed)
    | (st, .ok) =>
      match sendBegin wok st with
      | (st, .fail f) => (st, .fail f)
      | (st, _) => (st, .ok)

def connect (wok : Nat → Bool) (uid : Nat) (withFd : Bool) (script : List Ev) : St × ConnResult :=
  connectFrom wok uid withFd { script := script }

end Rustbus.Auth
