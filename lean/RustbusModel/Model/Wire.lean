import RustbusModel.Model.Bytes
import RustbusModel.Model.Sig
import RustbusModel.Model.Names
/-
The D-Bus wire format: values, the encoding function `enc` (what `Marshal` / `marshal_param` emit,
equally the specification's encoding), and the decoder `dec` (what `validate_raw`, the Param
unmarshaller and the typed `Unmarshal` impls accept and return).  C01, C02, C03, C04, C16, C18.

Offsets are absolute (relative to the start of the body); containers are clipped by `lim`;
`d` is the remaining nesting budget (`MAX_NESTING_DEPTH - depth` of the code).
Model files may only import other model files.
-/
namespace Rustbus
open Bytes

/-- A dynamically typed value. Fixed-size basic types (byte, bool, integers, double bits, fd index)
    are the unsigned bit pattern `num`; string-likes are their bytes; a dict is the array of its
    entries, each entry the two-field struct `[key, value]`. -/
inductive Val
  | num (n : Nat)
  | str (bs : List UInt8)
  | arr (vs : List Val)
  | struct (vs : List Val)
  | variant (t : Ty) (v : Val)
  deriving Repr, Inhabited

namespace Base
/-- byte width of the fixed-size basic types; `none` for string-likes -/
def fixedSize : Base → Option Nat
  | byte => some 1 | bool => some 4 | i16 => some 2 | u16 => some 2 | i32 => some 4 | u32 => some 4
  | i64 => some 8 | u64 => some 8 | double => some 8 | unixfd => some 4
  | string => none | objpath => none | signature => none
/-- exclusive upper bound of the bit pattern -/
def bound (b : Base) : Nat :=
  match b with
  | bool => 2
  | _ => match b.fixedSize with
    | some k => 256 ^ k
    | none => 0
end Base

namespace Wire

/-- `MAX_ARRAY_LEN` (64 MiB) -/
def maxArrayLen : Nat := 67108864
/-- `MAX_NESTING_DEPTH` -/
def maxDepth : Nat := 64

/-- content rule of the string-like types -/
def strOk (b : Base) (bs : List UInt8) : Bool :=
  match b with
  | .string => Utf8.valid bs && !bs.contains 0
  | .objpath => Names.validateObjectPath (latin1 bs)
  | .signature => Sig.validateSignature (latin1 bs)
  | _ => false

/-- signature of a single type as bytes (all ASCII) -/
def sigBytes (t : Ty) : List UInt8 := t.toStr.map (fun c => UInt8.ofNat c.toNat)

/-- a type that may stand in a variant: well formed, printed signature valid (≤ 255, depth ≤ 32/32) -/
def variantTypeOk (t : Ty) : Bool :=
  t.wf && t.depthOk 0 0 && decide ((sigBytes t).length ≤ 255)

/-! ### encoding -/

def encBase (bo : ByteOrder) (off : Nat) (b : Base) (v : Val) : Option (List UInt8) :=
  match b.fixedSize, v with
  | some k, .num n =>
    if n < b.bound then some (zeros (padLen b.align off) ++ bytesOf bo k n) else none
  | none, .str bs =>
    if strOk b bs then
      match b with
      | .signature => some (UInt8.ofNat bs.length :: (bs ++ [0]))
      | _ =>
        if bs.length < 256 ^ 4 then
          some (zeros (padLen 4 off) ++ (bytesOf bo 4 bs.length ++ (bs ++ [0])))
        else none
    else none
  | _, _ => none

mutual
/-- the encoding of value `v` at type `t` starting at absolute offset `off`; `none` = no encoding -/
def enc (bo : ByteOrder) (off : Nat) : Ty → Val → Option (List UInt8)
  | .base b, v => encBase bo off b v
  | .array e, .arr vs =>
    let o1 := off + padLen 4 off + 4
    match encList bo (o1 + padLen e.align o1) e vs with
    | none => none
    | some body =>
      if body.length ≤ maxArrayLen then
        some (zeros (padLen 4 off) ++ (bytesOf bo 4 body.length ++ (zeros (padLen e.align o1) ++ body)))
      else none
  | .dict k v, .arr es =>
    let o1 := off + padLen 4 off + 4
    match encEntries bo (o1 + padLen 8 o1) k v es with
    | none => none
    | some body =>
      if body.length ≤ maxArrayLen then
        some (zeros (padLen 4 off) ++ (bytesOf bo 4 body.length ++ (zeros (padLen 8 o1) ++ body)))
      else none
  | .struct fs, .struct vs =>
    if fs.isEmpty then none
    else match encFields bo (off + padLen 8 off) fs vs with
      | none => none
      | some body => some (zeros (padLen 8 off) ++ body)
  | .variant, .variant t v =>
    if variantTypeOk t then
      let sg := sigBytes t
      match enc bo (off + sg.length + 2) t v with
      | none => none
      | some body => some (UInt8.ofNat sg.length :: (sg ++ (0 :: body)))
    else none
  | _, _ => none
def encList (bo : ByteOrder) (off : Nat) (e : Ty) : List Val → Option (List UInt8)
  | [] => some []
  | v :: vs =>
    match enc bo off e v with
    | none => none
    | some b =>
      match encList bo (off + b.length) e vs with
      | none => none
      | some bs => some (b ++ bs)
def encEntries (bo : ByteOrder) (off : Nat) (k : Base) (vt : Ty) : List Val → Option (List UInt8)
  | [] => some []
  | .struct [kv, vv] :: rest =>
    let p := padLen 8 off
    match encBase bo (off + p) k kv with
    | none => none
    | some kb =>
      match enc bo (off + p + kb.length) vt vv with
      | none => none
      | some vb =>
        match encEntries bo (off + p + kb.length + vb.length) k vt rest with
        | none => none
        | some bs => some (zeros p ++ (kb ++ (vb ++ bs)))
  | _ :: _ => none
def encFields (bo : ByteOrder) (off : Nat) : List Ty → List Val → Option (List UInt8)
  | [], [] => some []
  | t :: ts, v :: vs =>
    match enc bo off t v with
    | none => none
    | some b =>
      match encFields bo (off + b.length) ts vs with
      | none => none
      | some bs => some (b ++ bs)
  | _, _ => none
end

/-! ### decoding -/

/-- `nfds = some n`: descriptor indices must be `< n` (unmarshalling); `none`: not checked (raw validation) -/
def decBase (bo : ByteOrder) (buf : List UInt8) (nfds : Option Nat) (b : Base) (off lim : Nat) :
    Option (Val × Nat) :=
  match b.fixedSize with
  | some k =>
    match skipPad buf off lim b.align with
    | none => none
    | some o =>
      match readNum bo buf o lim k with
      | none => none
      | some n =>
        if n < b.bound then
          match b, nfds with
          | .unixfd, some cnt => if n < cnt then some (.num n, o + k) else none
          | _, _ => some (.num n, o + k)
        else none
  | none =>
    match b with
    | .signature =>
      match readNum bo buf off lim 1 with
      | none => none
      | some len =>
        if off + len + 2 ≤ lim then
          let bs := slice buf (off + 1) len
          if slice buf (off + 1 + len) 1 = [0] && strOk b bs then some (.str bs, off + len + 2) else none
        else none
    | _ =>
      match skipPad buf off lim 4 with
      | none => none
      | some o =>
        match readNum bo buf o lim 4 with
        | none => none
        | some len =>
          if o + len + 5 ≤ lim then
            let bs := slice buf (o + 4) len
            if slice buf (o + 4 + len) 1 = [0] && strOk b bs then some (.str bs, o + len + 5) else none
          else none

mutual
/-- decode one value of type `t` at `off`, not reading at or beyond `lim`, with `d` container levels left -/
def dec (bo : ByteOrder) (buf : List UInt8) (nfds : Option Nat) : Nat → Ty → Nat → Nat → Option (Val × Nat)
  | _, .base b, off, lim => decBase bo buf nfds b off lim
  | 0, _, _, _ => none
  | d + 1, .array e, off, lim =>
    match skipPad buf off lim 4 with
    | none => none
    | some o =>
      match readNum bo buf o lim 4 with
      | none => none
      | some len =>
        if len ≤ maxArrayLen then
          match skipPad buf (o + 4) lim e.align with
          | none => none
          | some o2 =>
            if o2 + len ≤ lim then
              match decList bo buf nfds d e o2 (o2 + len) len with
              | none => none
              | some vs => some (.arr vs, o2 + len)
            else none
        else none
  | d + 1, .dict k v, off, lim =>
    match d with
    | 0 => none
    | d' + 1 =>
      match skipPad buf off lim 4 with
      | none => none
      | some o =>
        match readNum bo buf o lim 4 with
        | none => none
        | some len =>
          if len ≤ maxArrayLen then
            match skipPad buf (o + 4) lim 8 with
            | none => none
            | some o2 =>
              if o2 + len ≤ lim then
                match decEntries bo buf nfds d' k v o2 (o2 + len) len with
                | none => none
                | some es => some (.arr es, o2 + len)
              else none
          else none
  | d + 1, .struct fs, off, lim =>
    if fs.isEmpty then none
    else
      match skipPad buf off lim 8 with
      | none => none
      | some o =>
        match decFields bo buf nfds d fs o lim with
        | none => none
        | some (vs, o') => some (.struct vs, o')
  | d + 1, .variant, off, lim =>
    match readNum bo buf off lim 1 with
    | none => none
    | some len =>
      if off + len + 2 ≤ lim then
        if slice buf (off + 1 + len) 1 = [0] then
          match Sig.parseDescription (latin1 (slice buf (off + 1) len)) with
          | some [t] =>
            match dec bo buf nfds d t (off + len + 2) lim with
            | none => none
            | some (v, o') => some (.variant t v, o')
          | _ => none
        else none
      else none
/-- the element loop of an array: runs until `off = lim`; `fuel` = byte length suffices (every element ≥ 1 byte) -/
def decList (bo : ByteOrder) (buf : List UInt8) (nfds : Option Nat) (d : Nat) (e : Ty) (off lim : Nat) :
    Nat → Option (List Val)
  | 0 => if off = lim then some [] else none
  | fuel + 1 =>
    if off = lim then some []
    else
      match dec bo buf nfds d e off lim with
      | none => none
      | some (v, o') =>
        match decList bo buf nfds d e o' lim fuel with
        | none => none
        | some vs => some (v :: vs)
/-- the entry loop of a dict -/
def decEntries (bo : ByteOrder) (buf : List UInt8) (nfds : Option Nat) (d : Nat) (k : Base) (vt : Ty)
    (off lim : Nat) : Nat → Option (List Val)
  | 0 => if off = lim then some [] else none
  | fuel + 1 =>
    if off = lim then some []
    else
      match skipPad buf off lim 8 with
      | none => none
      | some o =>
        match decBase bo buf nfds k o lim with
        | none => none
        | some (kv, o1) =>
          match dec bo buf nfds d vt o1 lim with
          | none => none
          | some (vv, o2) =>
            match decEntries bo buf nfds d k vt o2 lim fuel with
            | none => none
            | some es => some (.struct [kv, vv] :: es)
def decFields (bo : ByteOrder) (buf : List UInt8) (nfds : Option Nat) (d : Nat) :
    List Ty → Nat → Nat → Option (List Val × Nat)
  | [], off, _ => some ([], off)
  | t :: ts, off, lim =>
    match dec bo buf nfds d t off lim with
    | none => none
    | some (v, o') =>
      match decFields bo buf nfds d ts o' lim with
      | none => none
      | some (vs, o'') => some (v :: vs, o'')
end

/-- `validate_marshalled(byteorder, offset, buf, sig)`: number of bytes used -/
def validate (bo : ByteOrder) (buf : List UInt8) (off : Nat) (t : Ty) : Option Nat :=
  match dec bo buf none maxDepth t off buf.length with
  | some (_, o') => some (o' - off)
  | none => none

/-- `unmarshal_with_sig` on a context at `off` with `nfds` descriptors attached -/
def unmarshal (bo : ByteOrder) (buf : List UInt8) (nfds : Nat) (off : Nat) (t : Ty) : Option (Val × Nat) :=
  dec bo buf (some nfds) maxDepth t off buf.length

/-- a whole body: the types of the body signature one after the other, all bytes used
    (`MarshalledMessageBody::validate`, `unmarshal_body`) -/
def decBody (bo : ByteOrder) (buf : List UInt8) (nfds : Option Nat) : List Ty → Nat → Option (List Val)
  | [], off => if off = buf.length then some [] else none
  | t :: ts, off =>
    match dec bo buf nfds maxDepth t off buf.length with
    | none => none
    | some (v, o') =>
      match decBody bo buf nfds ts o' with
      | none => none
      | some vs => some (v :: vs)

end Wire
end Rustbus
