import RustbusModel.Model.Marshal
import RustbusModel.Spec.Wire
/-
The Param API's marshaller as an entry point (`marshal_param`, `push_old_param`): the mechanism of `Marshal.marshalM`
plus the container-level counter that refuses values no receiver accepts (wire/marshal/param/container.rs: `enter`,
`MAX_NESTING_DEPTH`; a dict counts twice). The code refuses at the level that exceeds the limit and throws the partial
output away; the model decides up front - the same outcome.
-/
namespace Rustbus.Marshal
open Rustbus Rustbus.Wire

def marshalParam (bo : ByteOrder) (t : Ty) (v : Val) (buf : List UInt8) : Option (List UInt8) :=
  if Spec.Wire.depthOf t v ≤ maxDepth then marshalM bo t v buf else none

end Rustbus.Marshal
