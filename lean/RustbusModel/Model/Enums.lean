import RustbusModel.Model.Wire
/-
Model of the generated enum decoders (C16): `#[derive(Unmarshal)]` on enums (rustbus_derive/src/variants.rs:
read the signature, compare it as a string with each case's signature in declaration order, decode the
first match, otherwise `NoMatchingVariantFound`) and `dbus_variant_sig!` / `dbus_variant_var!`
(wire/variant_macros.rs: same, but an unknown signature must be a single valid type whose value is
validated and skipped: `Catchall`).
A case of several fields is the struct of its fields (the generated code aligns to 8 and decodes the fields).
-/
namespace Rustbus.Enums
open Rustbus Rustbus.Bytes Rustbus.Wire

/-- the signature header of a variant: length byte, bytes, NUL (`read_signature`) -/
def readSig (buf : List UInt8) (off lim : Nat) : Option (List UInt8 × Nat) :=
  match readNum .le buf off lim 1 with
  | none => none
  | some len =>
    if off + len + 2 ≤ lim then
      if slice buf (off + 1 + len) 1 = [0] then some (slice buf (off + 1) len, off + len + 2) else none
    else none

/-- index of the first case whose signature text equals `sg` -/
def findCase (cases : List Ty) (sg : List UInt8) : Option (Nat × Ty) :=
  match cases with
  | [] => none
  | t :: ts =>
    if sigBytes t = sg then some (0, t)
    else (findCase ts sg).map (fun (i, t') => (i + 1, t'))

inductive Outcome
  | case (idx : Nat) (v : Val)       -- a known case with its payload
  | catchall (t : Ty)                -- unknown case: value validated and skipped
  deriving Repr

/-- derived enum: `none` = error (also for an unknown case: `NoMatchingVariantFound`) -/
def decDerive (bo : ByteOrder) (buf : List UInt8) (nfds : Option Nat) (cases : List Ty) (off lim : Nat) :
    Option (Nat × Val × Nat) :=
  match readSig buf off lim with
  | none => none
  | some (sg, o) =>
    match findCase cases sg with
    | none => none
    | some (i, t) =>
      -- the typed decoder of the case runs one container level down (`ctx.in_container(1, ..)`; a case with several
      -- fields enters two levels and reads the fields directly: the same count as the struct decoder one level down)
      match dec bo buf nfds (maxDepth - 1) t o lim with
      | some (v, o') => some (i, v, o')
      | none => none

/-- macro enums with `Catchall` -/
def decCatchall (bo : ByteOrder) (buf : List UInt8) (nfds : Option Nat) (cases : List Ty) (off lim : Nat) :
    Option (Outcome × Nat) :=
  match readSig buf off lim with
  | none => none
  | some (sg, o) =>
    match findCase cases sg with
    | some (i, t) =>
      match dec bo buf nfds (maxDepth - 1) t o lim with
      | some (v, o') => some (.case i v, o')
      | none => none
    | none =>
      match Sig.parseDescription (latin1 sg) with
      | some [t] =>
        -- `Variant::unmarshal_with_sig`: enter one container level, validate (descriptors not looked at), skip
        match dec bo buf none (maxDepth - 1) t o lim with
        | some (_, o') => some (.catchall t, o')
        | none => none
      | _ => none

end Rustbus.Enums
