import RustbusModel.Model.Wire
import RustbusModel.Model.Header
/-
Model definitions for C18 (size and depth limits are enforced before resources are committed):

* an INSTRUMENTED decoder `decT`: the decoder `Wire.dec` (same branches in the same order) that also reports
  `hw`, an exclusive upper bound of every byte index it inspected (padding bytes, length words, string
  bytes, terminators), and `big`, the offset of a length word larger than `MAX_ARRAY_LEN` if it met one.
  `Lemmas/LimitsDecT.lean` proves `(decT …).res = dec …`.
* the size of a decoded value (`nodes`, `strBytes`): what the unmarshallers allocate is one node
  (`Param`, `Vec` element, `String`) per node of the value plus the bytes of its strings.
* length-level models of the send side (`arrOk`, `MsgLens`, `marshalLen`): accept/refuse as a function of the
  LENGTHS only, used by the driver for 64 MiB inputs; `Lemmas/LimitsSend.lean` proves them equal to
  `Wire.enc` / `Header.marshalHeader`.
Model files may only import other model files.
-/
namespace Rustbus.Limits
open Rustbus Rustbus.Bytes Rustbus.Wire

/-- result of an instrumented decoding step -/
structure Tr (α : Type) where
  /-- what the plain decoder returns -/
  res : Option α
  /-- every byte index inspected so far is `< hw` -/
  hw : Nat
  /-- offset of the length word that exceeded `MAX_ARRAY_LEN`, if that is why decoding stopped -/
  big : Option Nat

/-- `align_offset`: fails without looking when the padding does not fit, otherwise inspects the padding bytes -/
def skipPadT (buf : List UInt8) (off lim a : Nat) : Option Nat × Nat :=
  (skipPad buf off lim a,
   if off + padLen a off ≤ lim ∧ lim ≤ buf.length then off + padLen a off else off)

/-- `parse_u32` & co: fails without looking when the integer does not fit, otherwise inspects its `k` bytes -/
def readNumT (bo : ByteOrder) (buf : List UInt8) (off lim k : Nat) : Option Nat × Nat :=
  (readNum bo buf off lim k, if off + k ≤ lim ∧ lim ≤ buf.length then off + k else off)

/-- instrumented `decBase`: strings are inspected up to and including their NUL -/
def decBaseT (bo : ByteOrder) (buf : List UInt8) (nfds : Option Nat) (b : Base) (off lim : Nat) :
    Tr (Val × Nat) :=
  match b.fixedSize with
  | some k =>
    match skipPadT buf off lim b.align with
    | (none, h) => ⟨none, h, none⟩
    | (some o, h) =>
      match readNumT bo buf o lim k with
      | (none, h2) => ⟨none, max h h2, none⟩
      | (some n, h2) =>
        ⟨(if n < b.bound then
            match b, nfds with
            | .unixfd, some cnt => if n < cnt then some (.num n, o + k) else none
            | _, _ => some (.num n, o + k)
          else none), max h h2, none⟩
  | none =>
    match b with
    | .signature =>
      match readNumT bo buf off lim 1 with
      | (none, h) => ⟨none, h, none⟩
      | (some len, h) =>
        if off + len + 2 ≤ lim then
          let bs := slice buf (off + 1) len
          ⟨if slice buf (off + 1 + len) 1 = [0] && strOk b bs then some (.str bs, off + len + 2) else none,
            max h (off + len + 2), none⟩
        else ⟨none, h, none⟩
    | _ =>
      match skipPadT buf off lim 4 with
      | (none, h) => ⟨none, h, none⟩
      | (some o, h) =>
        match readNumT bo buf o lim 4 with
        | (none, h2) => ⟨none, max h h2, none⟩
        | (some len, h2) =>
          if o + len + 5 ≤ lim then
            let bs := slice buf (o + 4) len
            ⟨if slice buf (o + 4 + len) 1 = [0] && strOk b bs then some (.str bs, o + len + 5) else none,
              max (max h h2) (o + len + 5), none⟩
          else ⟨none, max h h2, none⟩

mutual
/-- instrumented `Wire.dec`; a container entered with budget 0 is refused without a single byte being inspected -/
def decT (bo : ByteOrder) (buf : List UInt8) (nfds : Option Nat) : Nat → Ty → Nat → Nat → Tr (Val × Nat)
  | _, .base b, off, lim => decBaseT bo buf nfds b off lim
  | 0, _, off, _ => ⟨none, off, none⟩
  | d + 1, .array e, off, lim =>
    match skipPadT buf off lim 4 with
    | (none, h) => ⟨none, h, none⟩
    | (some o, h) =>
      match readNumT bo buf o lim 4 with
      | (none, h2) => ⟨none, max h h2, none⟩
      | (some len, h2) =>
        if len ≤ maxArrayLen then
          match skipPadT buf (o + 4) lim e.align with
          | (none, h3) => ⟨none, max (max h h2) h3, none⟩
          | (some o2, h3) =>
            if o2 + len ≤ lim then
              match decListT bo buf nfds d e o2 (o2 + len) len with
              | ⟨none, h4, b⟩ => ⟨none, max (max (max h h2) h3) h4, b⟩
              | ⟨some vs, h4, b⟩ => ⟨some (.arr vs, o2 + len), max (max (max h h2) h3) h4, b⟩
            else ⟨none, max (max h h2) h3, none⟩
        else ⟨none, max h h2, some o⟩   -- the length word is the last thing looked at
  | d + 1, .dict k v, off, lim =>
    match d with
    | 0 => ⟨none, off, none⟩
    | d' + 1 =>
      match skipPadT buf off lim 4 with
      | (none, h) => ⟨none, h, none⟩
      | (some o, h) =>
        match readNumT bo buf o lim 4 with
        | (none, h2) => ⟨none, max h h2, none⟩
        | (some len, h2) =>
          if len ≤ maxArrayLen then
            match skipPadT buf (o + 4) lim 8 with
            | (none, h3) => ⟨none, max (max h h2) h3, none⟩
            | (some o2, h3) =>
              if o2 + len ≤ lim then
                match decEntriesT bo buf nfds d' k v o2 (o2 + len) len with
                | ⟨none, h4, b⟩ => ⟨none, max (max (max h h2) h3) h4, b⟩
                | ⟨some es, h4, b⟩ => ⟨some (.arr es, o2 + len), max (max (max h h2) h3) h4, b⟩
              else ⟨none, max (max h h2) h3, none⟩
          else ⟨none, max h h2, some o⟩
  | d + 1, .struct fs, off, lim =>
    if fs.isEmpty then ⟨none, off, none⟩
    else
      match skipPadT buf off lim 8 with
      | (none, h) => ⟨none, h, none⟩
      | (some o, h) =>
        match decFieldsT bo buf nfds d fs o lim with
        | ⟨none, h2, b⟩ => ⟨none, max h h2, b⟩
        | ⟨some (vs, o'), h2, b⟩ => ⟨some (.struct vs, o'), max h h2, b⟩
  | d + 1, .variant, off, lim =>
    match readNumT bo buf off lim 1 with
    | (none, h) => ⟨none, h, none⟩
    | (some len, h) =>
      if off + len + 2 ≤ lim then
        if slice buf (off + 1 + len) 1 = [0] then
          match Sig.parseDescription (latin1 (slice buf (off + 1) len)) with
          | some [t] =>
            match decT bo buf nfds d t (off + len + 2) lim with
            | ⟨none, h2, b⟩ => ⟨none, max (max h (off + len + 2)) h2, b⟩
            | ⟨some (v, o'), h2, b⟩ => ⟨some (.variant t v, o'), max (max h (off + len + 2)) h2, b⟩
          | _ => ⟨none, max h (off + len + 2), none⟩
        else ⟨none, max h (off + len + 2), none⟩
      else ⟨none, h, none⟩
def decListT (bo : ByteOrder) (buf : List UInt8) (nfds : Option Nat) (d : Nat) (e : Ty) (off lim : Nat) :
    Nat → Tr (List Val)
  | 0 => ⟨if off = lim then some [] else none, off, none⟩
  | fuel + 1 =>
    if off = lim then ⟨some [], off, none⟩
    else
      match decT bo buf nfds d e off lim with
      | ⟨none, h, b⟩ => ⟨none, h, b⟩
      | ⟨some (v, o'), h, _⟩ =>
        match decListT bo buf nfds d e o' lim fuel with
        | ⟨none, h2, b2⟩ => ⟨none, max h h2, b2⟩
        | ⟨some vs, h2, b2⟩ => ⟨some (v :: vs), max h h2, b2⟩
def decEntriesT (bo : ByteOrder) (buf : List UInt8) (nfds : Option Nat) (d : Nat) (k : Base) (vt : Ty)
    (off lim : Nat) : Nat → Tr (List Val)
  | 0 => ⟨if off = lim then some [] else none, off, none⟩
  | fuel + 1 =>
    if off = lim then ⟨some [], off, none⟩
    else
      match skipPadT buf off lim 8 with
      | (none, h) => ⟨none, h, none⟩
      | (some o, h) =>
        match decBaseT bo buf nfds k o lim with
        | ⟨none, h1, _⟩ => ⟨none, max h h1, none⟩
        | ⟨some (kv, o1), h1, _⟩ =>
          match decT bo buf nfds d vt o1 lim with
          | ⟨none, h2, b⟩ => ⟨none, max (max h h1) h2, b⟩
          | ⟨some (vv, o2), h2, _⟩ =>
            match decEntriesT bo buf nfds d k vt o2 lim fuel with
            | ⟨none, h3, b3⟩ => ⟨none, max (max (max h h1) h2) h3, b3⟩
            | ⟨some es, h3, b3⟩ => ⟨some (.struct [kv, vv] :: es), max (max (max h h1) h2) h3, b3⟩
def decFieldsT (bo : ByteOrder) (buf : List UInt8) (nfds : Option Nat) (d : Nat) :
    List Ty → Nat → Nat → Tr (List Val × Nat)
  | [], off, _ => ⟨some ([], off), off, none⟩
  | t :: ts, off, lim =>
    match decT bo buf nfds d t off lim with
    | ⟨none, h, b⟩ => ⟨none, h, b⟩
    | ⟨some (v, o'), h, _⟩ =>
      match decFieldsT bo buf nfds d ts o' lim with
      | ⟨none, h2, b2⟩ => ⟨none, max h h2, b2⟩
      | ⟨some (vs, o''), h2, b2⟩ => ⟨some (v :: vs, o''), max h h2, b2⟩
end

/-- instrumented `validate_marshalled` -/
def validateT (bo : ByteOrder) (buf : List UInt8) (off : Nat) (t : Ty) : Tr (Val × Nat) :=
  decT bo buf none maxDepth t off buf.length

/-! ### size of a decoded value -/

mutual
/-- number of nodes of a value: one per basic value, string, array, struct (dict entry) and variant -/
def nodes : Val → Nat
  | .num _ => 1
  | .str _ => 1
  | .arr vs => 1 + nodesList vs
  | .struct vs => 1 + nodesList vs
  | .variant _ v => 1 + nodes v
def nodesList : List Val → Nat
  | [] => 0
  | v :: vs => nodes v + nodesList vs
end

mutual
/-- total number of string bytes in a value -/
def strBytes : Val → Nat
  | .num _ => 0
  | .str bs => bs.length
  | .arr vs => strBytesList vs
  | .struct vs => strBytesList vs
  | .variant _ v => strBytes v
def strBytesList : List Val → Nat
  | [] => 0
  | v :: vs => strBytes v + strBytesList vs
end

/-! ### length-level models of the send side -/

/-- an array of `n` elements of a fixed-size basic type of width `k` is marshalled iff `k * n ≤ 64 MiB` -/
def arrOk (k n : Nat) : Bool := decide (k * n ≤ maxArrayLen)

/-- the lengths `marshal::marshal` depends on (given valid names and a valid body signature) -/
structure MsgLens where
  replySerial : Bool
  interface : Option Nat
  destination : Option Nat
  sender : Option Nat
  member : Option Nat
  path : Option Nat
  errorName : Option Nat
  /-- length of the body signature; `none` when the body is empty (no SIGNATURE field is written) -/
  sig : Option Nat
  bodyLen : Nat
  hasFds : Bool
  deriving Repr

/-- a u32 valued field (REPLY_SERIAL, UNIX_FDS): pad to 8, code, `1 'u' 0`, four bytes -/
def stepU32 (on : Bool) (n : Nat) : Nat := if on then n + padLen 8 n + 8 else n
/-- a string / object path valued field: pad to 8, code, `1 's' 0`, u32 length, bytes, NUL -/
def stepStr (l : Option Nat) (n : Nat) : Nat :=
  match l with
  | none => n
  | some k => n + padLen 8 n + 8 + k + 1
/-- the SIGNATURE field: pad to 8, code, `1 'g' 0`, u8 length, bytes, NUL -/
def stepSig (l : Option Nat) (n : Nat) : Nat :=
  match l with
  | none => n
  | some k => n + padLen 8 n + 5 + k + 1

/-- offset at which the header field array ends (it starts at 16), fields in the order `marshal` writes them -/
def fieldsEnd (l : MsgLens) : Nat :=
  stepU32 l.hasFds (stepSig l.sig (stepStr l.errorName (stepStr l.path (stepStr l.member (stepStr l.sender
    (stepStr l.destination (stepStr l.interface (stepU32 l.replySerial 16))))))))

/-- `marshal::marshal` at the level of lengths: length of the header incl. padding, or `none` = refused -/
def marshalLen (l : MsgLens) : Option Nat :=
  let e := fieldsEnd l
  if e - 16 > maxArrayLen then none
  else
    let out := e + padLen 8 e
    if out + l.bodyLen > Header.maxMessageLen then none else some out

/-- the lengths of a message -/
def lensOf (m : Header.Msg) : MsgLens :=
  { replySerial := m.replySerial.isSome
    interface := m.interface.map List.length
    destination := m.destination.map List.length
    sender := m.sender.map List.length
    member := m.member.map List.length
    path := m.path.map List.length
    errorName := m.errorName.map List.length
    sig := if m.body.isEmpty then none else some m.bodySig.length
    bodyLen := m.body.length
    hasFds := m.nfds != 0 }

/-! ### the announcement of a 16-byte fixed header, from its two length words -/

/-- what `bytes_needed_for_current_message` computes from the field array length `F` and body length `B` -/
def announce (F B : Nat) : Header.Needed :=
  let total := 16 + F + padLen 8 (16 + F) + B
  if F > maxArrayLen ∨ total > Header.maxMessageLen then .tooLong else .bytes total

end Rustbus.Limits
