/-
Model of the shared descriptor handle `UnixFd(Arc<UnixFdInner>)`, `UnixFdInner { inner : AtomicI32 }`
(rustbus/src/wire/wrapper_types/unixfd.rs) used from several threads (C12). Import-free.

Small-step interleaving semantics at the granularity of the individual atomic operations of the code:

* `UnixFdInner::take`  = `inner.load(SeqCst)`; if the loaded value is not -1: `inner.compare_exchange(loaded, -1)`
* `UnixFdInner::get`   = `inner.load(SeqCst)`
* `UnixFdInner::dup`   = `get`; if not -1: the `dup` system call on the loaded number (a new, independent handle)
* `Drop for UnixFdInner` (runs in the thread whose `Arc` decrement was the last one) = `take`; if `Some(fd)`: `close(fd)`
* `UnixFd::take_raw_fd(self)` = `self.0.take()`, afterwards `self` (one `Arc` reference) is dropped
* `UnixFd::clone` = `Arc` increment; dropping a `UnixFd` = `Arc` decrement [+ `Drop for UnixFdInner`]

Assumptions (trusted base): the SeqCst atomics behave as atomic steps that interleave (sequential
consistency); `Arc` is an atomic counter whose last decrement runs `Drop` of the content in the
decrementing thread; a `dup` system call that succeeds returns a descriptor that is different from every
descriptor that is open at that moment (modelled as a fresh id `dupd n`); one that is refused (`Op.dupFail`: the
program says which of its dups meet an exhausted descriptor table) creates nothing.
-/
namespace Rustbus.FdConc

/-- The operations of a thread's program, each executed on one of the handles the thread owns (all
    handles are clones of the same `Arc`, so they are interchangeable).
    `dup` stands for `let d = h.dup(); drop(d)`: the duplicate is a separate `UnixFd` that only this
    thread knows; its own atomics cannot be observed by anybody else, only its `close` system call can. -/
inductive Op
  | take | get | dup | clone | drop
  /-- a `dup` during which the `dup` system call is refused (EMFILE / ENFILE: no descriptor left) -/
  | dupFail
  deriving Repr, DecidableEq

/-- a descriptor as it appears in system calls: the number stored in the shared `inner` cell
    (the original descriptor), or the `n`-th descriptor created by the `dup` system call -/
inductive Fd
  | num (v : Int)
  | dupd (n : Nat)
  deriving Repr, DecidableEq

/-- what an operation returns to its caller -/
inductive Res
  | takeSome (fd : Int)   -- `take_raw_fd() = Some(fd)`
  | takeNone              -- `take_raw_fd() = None`
  | getSome (fd : Int)    -- `get_raw_fd() = Some(fd)`
  | getNone
  | dupOk (n : Nat)       -- `dup() = Ok(handle on the new descriptor dupd n)`
  | dupTaken              -- `dup() = Err(DupError::AlreadyTaken)`
  | dupErr                -- `dup() = Err(DupError::Io(_))`: the system call was refused
  | cloned
  | dropped
  deriving Repr, DecidableEq

/-- the operation reported that the descriptor is (still) there -/
def Res.seesFd : Res → Bool
  | .takeSome _ | .getSome _ | .dupOk _ => true
  | _ => false

def Res.isTakeSome : Res → Bool
  | .takeSome _ => true
  | _ => false

/-- Where a thread is inside its current operation = which atomic step it executes next.
    The constructors marked (hook) are the points announced by `verif_hooks::point`; `takeDec` and `dropDec`
    (the `Arc` decrement) have no hook point. `k` is the result the enclosing operation
    (`take_raw_fd` or a drop) reports when `Drop for UnixFdInner` has finished. -/
inductive Pc
  | idle                                -- between two operations
  | takeLoad                            -- (hook FdLoad) in `take`
  | takeCas (v : Int)                   -- (hook FdCompareExchange) in `take`, `v` = loaded value ≠ -1
  | takeDec (r : Option Int)            -- `take` returned `r`; `self` goes out of scope: Arc decrement
  | getLoad                             -- (hook FdLoad) in `get`
  | dupLoad                             -- (hook FdLoad) in `get` called by `dup`
  | dupSys (v : Int)                    -- (hook FdDup v) the dup system call
  | dupClose (n : Nat)                  -- (hook FdClose) the duplicate is dropped again: close of `dupd n`
  | dupLoadF                            -- (hook FdLoad) in `get` called by a `dup` whose system call will be refused
  | dupSysF (v : Int)                   -- (hook FdDup v) the refused dup system call
  | dropDec                             -- a handle goes out of scope: Arc decrement
  | innerDrop (k : Res)                 -- (hook FdInnerDrop) the decrement was the last one
  | dropLoad (k : Res)                  -- (hook FdLoad) in `take` called by `Drop`
  | dropCas (k : Res) (v : Int)         -- (hook FdCompareExchange) in `take` called by `Drop`
  | dropClose (k : Res) (v : Int)       -- (hook FdClose v) `close(v)` in `Drop`
  deriving Repr, DecidableEq

/-- the atomic actions; the trace of an execution is the list of (thread, action) in execution order -/
inductive Act
  | begin (op : Op)                     -- the operation is invoked (no effect on shared state)
  | inc                                 -- Arc increment (`clone`)
  | load (v : Int)                      -- `inner.load` in `take_raw_fd` / `get_raw_fd` / `dup`, saw `v`
  | cas (v : Int) (ok : Bool)           -- `inner.compare_exchange(v, -1)` in `take_raw_fd`
  | dec (last : Bool)                   -- Arc decrement; `last` = the count went to 0
  | innerDrop                           -- `Drop for UnixFdInner` starts
  | dload (v : Int)                     -- `inner.load` in `Drop`
  | dcas (v : Int) (ok : Bool)          -- `inner.compare_exchange(v, -1)` in `Drop`
  | dupSys (v : Int) (n : Nat)          -- system call `dup(v)` returned the new descriptor `dupd n`
  | close (fd : Fd)                     -- system call `close(fd)`
  | dupSysFail (v : Int)                -- system call `dup(v)` failed (EMFILE): no descriptor was created
  deriving Repr, DecidableEq

/-- a successful compare_exchange of a `take_raw_fd` -/
def Act.isTook : Act → Bool
  | .cas _ true => true
  | _ => false

/-- a successful compare_exchange of `Drop for UnixFdInner` -/
def Act.isDropCas : Act → Bool
  | .dcas _ true => true
  | _ => false

/-- "the library closes the original descriptor": a `close` system call on the number `orig`, which
    only `Drop for UnixFdInner` of the shared cell issues (closes of duplicates are `close (dupd n)`) -/
def Act.isCloseOf (orig : Int) : Act → Bool
  | .close (.num v) => v == orig
  | _ => false

/-- the state shared by all threads: the `AtomicI32`, the `Arc` strong count, and the kernel's
    counter for naming new descriptors -/
structure Shared where
  inner : Int
  strong : Nat
  nextDup : Nat
  deriving Repr, DecidableEq

structure Thread where
  prog : List Op          -- operations still to be invoked
  handles : Nat           -- handles (`UnixFd` values) the thread owns and is not operating on
  pc : Pc
  results : List Res      -- results of the finished operations, oldest first
  deriving Repr, DecidableEq

/-- the current operation returns `r` -/
def Thread.finish (th : Thread) (r : Res) : Thread :=
  { th with pc := .idle, results := th.results ++ [r] }

/-- `Arc::drop`: decrement; the thread that brings the count to 0 runs `Drop for UnixFdInner`,
    every other thread is done with its operation. A decrement at count 0 does not exist. -/
def decrement (sh : Shared) (th : Thread) (k : Res) : Option (Shared × Thread × List Act) :=
  match sh.strong with
  | 0 => none
  | 1 => some ({ sh with strong := 0 }, { th with pc := .innerDrop k }, [.dec true])
  | n + 2 => some ({ sh with strong := n + 1 }, th.finish k, [.dec false])

/-- One atomic step of a thread: new shared state, new thread state, the actions performed.
    `none`: the thread cannot step (it has finished; or its next operation needs a handle and it owns
    none — such a program is rejected by the Rust compiler, the value has been moved).
    A thread whose program is used up drops the handles it still owns, one after the other
    (they go out of scope at the end of the thread). -/
def stepThread (sh : Shared) (th : Thread) : Option (Shared × Thread × List Act) :=
  match th.pc with
  | .idle =>
    match th.prog, th.handles with
    | [], 0 => none
    | [], h + 1 => some (sh, { th with handles := h, pc := .dropDec }, [.begin .drop])
    | _ :: _, 0 => none
    | .take :: rest, h + 1 => some (sh, { th with prog := rest, handles := h, pc := .takeLoad }, [.begin .take])
    | .get :: rest, _ + 1 => some (sh, { th with prog := rest, pc := .getLoad }, [.begin .get])
    | .dup :: rest, _ + 1 => some (sh, { th with prog := rest, pc := .dupLoad }, [.begin .dup])
    | .dupFail :: rest, _ + 1 => some (sh, { th with prog := rest, pc := .dupLoadF }, [.begin .dupFail])
    | .clone :: rest, h + 1 =>
      some ({ sh with strong := sh.strong + 1 },
            { th with prog := rest, handles := h + 2, results := th.results ++ [.cloned] }, [.begin .clone, .inc])
    | .drop :: rest, h + 1 => some (sh, { th with prog := rest, handles := h, pc := .dropDec }, [.begin .drop])
  | .takeLoad =>
    if sh.inner = -1 then some (sh, { th with pc := .takeDec none }, [.load sh.inner])
    else some (sh, { th with pc := .takeCas sh.inner }, [.load sh.inner])
  | .takeCas v =>
    if sh.inner = v then some ({ sh with inner := -1 }, { th with pc := .takeDec (some v) }, [.cas v true])
    else some (sh, { th with pc := .takeDec none }, [.cas v false])
  | .takeDec r =>
    decrement sh th (match r with | some v => .takeSome v | none => .takeNone)
  | .getLoad =>
    some (sh, th.finish (if sh.inner = -1 then .getNone else .getSome sh.inner), [.load sh.inner])
  | .dupLoad =>
    if sh.inner = -1 then some (sh, th.finish .dupTaken, [.load sh.inner])
    else some (sh, { th with pc := .dupSys sh.inner }, [.load sh.inner])
  | .dupSys v =>
    some ({ sh with nextDup := sh.nextDup + 1 }, { th with pc := .dupClose sh.nextDup }, [.dupSys v sh.nextDup])
  | .dupClose n => some (sh, th.finish (.dupOk n), [.close (.dupd n)])
  | .dupLoadF =>
    if sh.inner = -1 then some (sh, th.finish .dupTaken, [.load sh.inner])
    else some (sh, { th with pc := .dupSysF sh.inner }, [.load sh.inner])
  | .dupSysF v => some (sh, th.finish .dupErr, [.dupSysFail v])
  | .dropDec => decrement sh th .dropped
  | .innerDrop k => some (sh, { th with pc := .dropLoad k }, [.innerDrop])
  | .dropLoad k =>
    if sh.inner = -1 then some (sh, th.finish k, [.dload sh.inner])
    else some (sh, { th with pc := .dropCas k sh.inner }, [.dload sh.inner])
  | .dropCas k v =>
    if sh.inner = v then some ({ sh with inner := -1 }, { th with pc := .dropClose k v }, [.dcas v true])
    else some (sh, th.finish k, [.dcas v false])
  | .dropClose k v => some (sh, th.finish k, [.close (.num v)])

structure Config where
  sh : Shared
  threads : List Thread
  trace : List (Nat × Act)
  deriving Repr, DecidableEq

/-- `UnixFd::new(orig)`, one clone handed to each thread (thread `i` runs `progs[i]`), the creator's own
    handle already moved into one of them: strong count = number of threads -/
def init (orig : Int) (progs : List (List Op)) : Config :=
  { sh := { inner := orig, strong := progs.length, nextDup := 0 },
    threads := progs.map (fun p => { prog := p, handles := 1, pc := .idle, results := [] }),
    trace := [] }

/-- the scheduler lets thread `t` execute its next atomic step -/
def step (c : Config) (t : Nat) : Option Config :=
  match c.threads[t]? with
  | none => none
  | some th =>
    match stepThread c.sh th with
    | none => none
    | some (sh', th', acts) =>
      some { sh := sh', threads := c.threads.set t th', trace := c.trace ++ acts.map (fun a => (t, a)) }

/-- a schedule is a list of thread ids -/
def run (c : Config) : List Nat → Option Config
  | [] => some c
  | t :: s =>
    match step c t with
    | none => none
    | some c' => run c' s

def Thread.finished (th : Thread) : Bool :=
  th.pc == .idle && th.prog.isEmpty && th.handles == 0

/-- all threads have finished: every handle has been dropped -/
def Config.finished (c : Config) : Bool := c.threads.all Thread.finished

/-- all results reported so far, thread by thread -/
def Config.allResults (c : Config) : List Res := c.threads.flatMap (·.results)

/-- number of `close` system calls on the original descriptor so far -/
def Config.closesOf (c : Config) (orig : Int) : Nat := c.trace.countP (fun e => e.2.isCloseOf orig)

/-- the log of system calls -/
def Config.syslog (c : Config) : List (Nat × Act) :=
  c.trace.filter (fun e => match e.2 with | .dupSys _ _ | .close _ | .dupSysFail _ => true | _ => false)

/-! ### The schedules of the test harness

The harness can only stop a thread at a hook point or between two operations, so one scheduling decision
of the harness ("grant") lets the thread run to the next such point: the `Arc` decrement is executed
together with the atomic step before it. A coarse schedule is therefore a special case of a
schedule (`runCoarse_refines` in Props/C12). -/

/-- the thread waits at a point where the harness can hold it -/
def Pc.visible : Pc → Bool
  | .takeDec _ | .dropDec => false
  | _ => true

def grant (c : Config) (t : Nat) : Option Config :=
  match step c t with
  | none => none
  | some c1 =>
    match c1.threads[t]? with
    | none => none
    | some th => if th.pc.visible then some c1 else step c1 t

def runCoarse (c : Config) : List Nat → Option Config
  | [] => some c
  | t :: s =>
    match grant c t with
    | none => none
    | some c' => runCoarse c' s

end Rustbus.FdConc
