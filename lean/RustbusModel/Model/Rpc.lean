/-
Model of `RpcConn` (rustbus/src/connection/rpc_conn.rs): the three stores `signals`, `calls`
(`VecDeque`, FIFO) and `responses` (`HashMap<NonZeroU32, _>`), the classification of an incoming
message in `insert_message_or_send_error` / `refill_all`, the non-blocking getters and the wait
loops (C14). Import-free.

What is an input rather than modelled:
* the filter (`MessageFilter = Box<dyn Fn(&MarshalledMessage) -> bool>`) is an arbitrary predicate;
  every arriving message carries the filter's verdict on it in the field `accepted`, so quantifying
  over all taggings quantifies over all filters;
* the socket: `wire` is the list of complete messages the peer has written and the client has not
  read yet (in-order byte stream, C09/C10 are about the framing itself);
* `MessageType::Invalid` never reaches `insert_message_or_send_error`: `unmarshal_header` rejects
  the type byte (C06), so `Typ` has four constructors and the two `Invalid => return Err(..)` arms
  have no counterpart here.
-/
namespace Rustbus.Rpc

/-- `MessageType` without `Invalid` (see above) -/
inductive Typ
  | call
  | reply
  | error
  | signal
  deriving Repr, DecidableEq

/-- The part of an incoming `MarshalledMessage` that `RpcConn` looks at, plus a tracking tag `id`
    (used by the theorems only: which arrival is this?) and the filter's verdict. -/
structure Msg where
  id : Nat
  typ : Typ
  /-- `dynheader.serial` of the received message -/
  serial : Nat
  /-- `dynheader.response_serial` -/
  replySerial : Option Nat
  /-- `dynheader.sender` -/
  sender : Option (List Char)
  /-- `(self.filter)(&msg)` -/
  accepted : Bool
  deriving Repr, DecidableEq

/-- The part of an error reply that identifies it: `response_serial`, `destination`, `error_name`. -/
structure ErrReply where
  replySerial : Nat
  dest : Option (List Char)
  errorName : List Char
  deriving Repr, DecidableEq

/-- `standard_messages::unknown_method(&call.dynheader)` = `make_error_response(UnknownMethod, text)`:
    `response_serial: self.serial`, `destination: self.sender.clone()` -/
def unknownMethod (call : Msg) : ErrReply :=
  { replySerial := call.serial, dest := call.sender,
    errorName := "org.freedesktop.DBus.Error.UnknownMethod".toList }

/-! ### `HashMap<NonZeroU32, MarshalledMessage>` as an association list (only `insert`/`remove`) -/

/-- `HashMap::insert`: an existing entry with the same key is REPLACED -/
def mapInsert (k : Nat) (m : Msg) (rs : List (Nat × Msg)) : List (Nat × Msg) :=
  (k, m) :: rs.filter (fun p => p.1 != k)

/-- `HashMap::remove` -/
def mapRemove (k : Nat) (rs : List (Nat × Msg)) : Option Msg × List (Nat × Msg) :=
  match rs.find? (fun p => p.1 == k) with
  | some p => (some p.2, rs.filter (fun q => q.1 != k))
  | none => (none, rs)

structure State where
  /-- `RpcConn.signals` (front = head) -/
  signals : List Msg
  /-- `RpcConn.calls` -/
  calls : List Msg
  /-- `RpcConn.responses` -/
  responses : List (Nat × Msg)
  /-- complete messages written by the peer and not yet read by `conn.recv` -/
  wire : List Msg
  /-- error replies written to the peer by `insert_message_or_send_error` (oldest first) -/
  sent : List ErrReply
  deriving Repr, DecidableEq

/-- `RpcConn::new` -/
def State.init : State := { signals := [], calls := [], responses := [], wire := [], sent := [] }

/-- The `if self.filter(&msg) { match msg.typ { .. } }` half shared by `insert_message_or_send_error`
    and `refill_all`. `none` = the panic of `msg.dynheader.response_serial.unwrap()`; header
    validation (C06) guarantees that replies and errors carry REPLY_SERIAL, so this cannot happen
    for messages that came out of `get_next_message` — the theorems carry that as the explicit
    hypothesis `WellFormed`. -/
def acceptInto (st : State) (m : Msg) : Option State :=
  match m.typ with
  | .call => some { st with calls := st.calls ++ [m] }
  | .signal => some { st with signals := st.signals ++ [m] }
  | .error =>
    match m.replySerial with
    | none => none
    | some k => some { st with responses := mapInsert k m st.responses }
  | .reply =>
    match m.replySerial with
    | none => none
    | some k => some { st with responses := mapInsert k m st.responses }

/-- `insert_message_or_send_error`: accepted → stored by kind; rejected call → an `unknown_method`
    error is written to the peer at once (`send_message(&reply)?.write_all()`); rejected
    reply / error / signal → dropped. -/
def insertOrSendError (st : State) (m : Msg) : Option State :=
  if m.accepted then acceptInto st m
  else
    match m.typ with
    | .call => some { st with sent := st.sent ++ [unknownMethod m] }
    | .error => some st
    | .reply => some st
    | .signal => some st

/-- `try_refill_once` / `refill_once`: read exactly one message and classify it.
    Inner `none` = `Err(TimedOut)`: nothing to read (what `Timeout::Nonblock` and an expired
    `Timeout::Duration` report; with `Timeout::Infinite` the real call would block instead).
    Inner `some t` = `Ok(t)`, the type of the message read. -/
def refillOnce (st : State) : Option (Option Typ × State) :=
  match st.wire with
  | [] => some (none, st)
  | m :: w =>
    match insertOrSendError { st with wire := w } m with
    | none => none
    | some st' => some (some m.typ, st')

/-- the loop of `refill_all` over what is in the socket; `acc` is `filtered_out` -/
def refillAllLoop : List Msg → State → List ErrReply → Option (List ErrReply × State)
  | [], st, acc => some (acc, st)
  | m :: w, st, acc =>
    let st := { st with wire := w }
    if m.accepted then
      match acceptInto st m with
      | none => none
      | some st' => refillAllLoop w st' acc
    else
      match m.typ with
      | .call => refillAllLoop w st (acc ++ [unknownMethod m])
      | .error => refillAllLoop w st acc
      | .reply => refillAllLoop w st acc
      | .signal => refillAllLoop w st acc

/-- `refill_all`: drain the socket; the error replies for rejected calls are RETURNED, not written -/
def refillAll (st : State) : Option (List ErrReply × State) :=
  refillAllLoop st.wire st []

/-- who asks: `try_get_signal`/`wait_signal`, `try_get_call`/`wait_call`,
    `try_get_response(s)`/`wait_response(s)` -/
inductive Consumer
  | signal
  | call
  | response (serial : Nat)
  deriving Repr, DecidableEq

/-- `try_get_signal` = `signals.pop_front()`, `try_get_call` = `calls.pop_front()`,
    `try_get_response(s)` = `responses.remove(&s)` -/
def tryGet (st : State) : Consumer → Option Msg × State
  | .signal =>
    match st.signals with
    | [] => (none, st)
    | m :: r => (some m, { st with signals := r })
  | .call =>
    match st.calls with
    | [] => (none, st)
    | m :: r => (some m, { st with calls := r })
  | .response s =>
    let (r, rs) := mapRemove s st.responses
    (r, { st with responses := rs })

/-- `wait_response` / `wait_signal` / `wait_call`:
    `loop { if let Some(msg) = self.try_get_x() { return Ok(msg) } self.refill_once(timeout_left)?; }`.
    Result `some m` = `Ok(m)`; `none` = the `TimedOut` of `refill_once` propagated by `?` once the
    socket is empty (with `Timeout::Infinite` the real call would block for more data).
    Every iteration that continues has consumed one message of `wire`, hence `wire.length + 1`
    iterations suffice (`waitLoop_fuel` in Lemmas/Rpc: more fuel changes nothing); the fuel-0 arm is
    therefore never the one that answers. -/
def waitLoop (k : Consumer) : Nat → State → Option (Option Msg × State)
  | 0, st => some (none, st)
  | fuel + 1, st =>
    match tryGet st k with
    | (some m, st') => some (some m, st')
    | (none, st') =>
      match refillOnce st' with
      | none => none
      | some (none, st'') => some (none, st'')
      | some (some _, st'') => waitLoop k fuel st''

def wait (st : State) (k : Consumer) : Option (Option Msg × State) :=
  waitLoop k (st.wire.length + 1) st

/-- the inputs of a history: what the peer and the client do, in the order it happens -/
inductive Op
  /-- the peer writes one complete message -/
  | arrive (m : Msg)
  | tryResponse (s : Nat)
  | trySignal
  | tryCall
  | refillOnce
  | refillAll
  | waitResponse (s : Nat)
  | waitSignal
  | waitCall
  deriving Repr, DecidableEq

/-- what the client (and the peer, through `State.sent`) sees of one operation -/
inductive Obs
  | arrived
  /-- `try_get_*` returned `Some(m)` / `None` -/
  | tried (m : Option Msg)
  /-- `wait_*` returned `Ok(m)` -/
  | got (m : Msg)
  /-- `wait_*` ran out of input (real code: `Err(TimedOut)` or blocks) -/
  | blocked
  /-- `refill_once` returned `Ok(t)` -/
  | refilled (t : Typ)
  /-- `refill_once` had nothing to read: `Err(TimedOut)` -/
  | timedOut
  /-- `refill_all` returned `Ok(errs)` -/
  | drained (errs : List ErrReply)
  deriving Repr, DecidableEq

def waitObs : Option Msg → Obs
  | some m => .got m
  | none => .blocked

/-- one operation; `none` = the `unwrap()` panic (see `acceptInto`) -/
def step (st : State) : Op → Option (Obs × State)
  | .arrive m => some (.arrived, { st with wire := st.wire ++ [m] })
  | .tryResponse s => let (r, st') := tryGet st (.response s); some (.tried r, st')
  | .trySignal => let (r, st') := tryGet st .signal; some (.tried r, st')
  | .tryCall => let (r, st') := tryGet st .call; some (.tried r, st')
  | .refillOnce =>
    match refillOnce st with
    | none => none
    | some (none, st') => some (.timedOut, st')
    | some (some t, st') => some (.refilled t, st')
  | .refillAll =>
    match refillAll st with
    | none => none
    | some (errs, st') => some (.drained errs, st')
  | .waitResponse s =>
    match wait st (.response s) with
    | none => none
    | some (r, st') => some (waitObs r, st')
  | .waitSignal =>
    match wait st .signal with
    | none => none
    | some (r, st') => some (waitObs r, st')
  | .waitCall =>
    match wait st .call with
    | none => none
    | some (r, st') => some (waitObs r, st')

/-- run a history; the trace pairs every operation with its observation -/
def run : State → List Op → Option (List (Op × Obs) × State)
  | st, [] => some ([], st)
  | st, op :: ops =>
    match step st op with
    | none => none
    | some (o, st') =>
      match run st' ops with
      | none => none
      | some (tr, st'') => some ((op, o) :: tr, st'')

end Rustbus.Rpc
