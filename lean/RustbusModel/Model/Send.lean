import RustbusModel.Model.Header
import RustbusModel.Model.Serial
/-
Model of the send path (C10): connection/ll_conn.rs
  `SendConn::send_message`, `SendMessageContext::{write_once, write, write_all, bytes_total,
  all_bytes_written, serial, into_progress, resume, force_finish, finish_if_ok}`,
  `impl Drop for SendMessageContext`, `force_finish_on_error`.

What is an INPUT here (not computed): the outcome of every `sendmsg` call (the kernel decides how many
of the offered bytes it takes, or refuses with EAGAIN, or fails), the points at which the caller
suspends (`into_progress`) and resumes, and the clock of `write` (`calc_timeout_left`).
The peer end of the socket is modelled as the list of accepted chunks plus the list of SCM_RIGHTS
deliveries: a stream socket keeps the order of accepted bytes, and the descriptors attached to a
`sendmsg` travel with the first byte that call queued (nothing is delivered by a call that queued
nothing). These kernel facts are assumptions (DESIGN §6), the engine observes them on a real socket.
-/
namespace Rustbus.Send
open Rustbus Rustbus.Bytes

/-- everything `write_once` reads: `conn.header_buf` (filled by `marshal::marshal` in `send_message`),
    `msg.get_buf()`, `msg.body.get_raw_fds()` (descriptors as abstract ids) -/
structure Msg where
  hdr : List UInt8
  body : List UInt8
  fds : List Nat
  deriving Repr, DecidableEq

/-- `bytes_total` -/
def Msg.total (m : Msg) : Nat := m.hdr.length + m.body.length

/-- `SendMessageState` -/
structure State where
  bytesSent : Nat
  serial : Nat
  deriving Repr, DecidableEq

/-- `SendMessageContext`: the borrowed message (and the connection's header buffer) plus the state -/
structure Ctx where
  msg : Msg
  st : State
  deriving Repr, DecidableEq

/-- `all_bytes_written` -/
def allWritten (m : Msg) (st : State) : Bool := st.bytesSent == m.total

/-- outcome of one `sendmsg` call, chosen by the kernel: it takes `min k offered` bytes, or would
    block (EAGAIN: `Timeout::Nonblock` with a full buffer, or the send timeout expired with nothing
    queued), or fails otherwise (this also stands for a failing `write_timeout`/`set_write_timeout`
    BEFORE the call: an error is returned and nothing was sent) -/
inductive Ev
  | accept (k : Nat)
  | eagain
  | fail
  deriving Repr, DecidableEq

/-- what one `sendmsg` call is given: the two-slice iovec and the SCM_RIGHTS payload -/
structure Offer where
  hdrOff : Nat
  bodyOff : Nat
  hdrSlice : List UInt8
  bodySlice : List UInt8
  fds : List Nat
  deriving Repr, DecidableEq

def Offer.len (o : Offer) : Nat := o.hdrSlice.length + o.bodySlice.length

/-- the first half of `write_once`: `header_bytes_sent = min(bytes_sent, header.len())`,
    `&header[header_bytes_sent..]`, `&body[bytes_sent - header_bytes_sent..]` (this slice expression
    panics when the offset is beyond the body: `none`), descriptors iff `bytes_sent == 0` -/
def offer (m : Msg) (st : State) : Option Offer :=
  let hs := min st.bytesSent m.hdr.length
  let bs := st.bytesSent - hs
  if bs ≤ m.body.length then
    some { hdrOff := hs, bodyOff := bs, hdrSlice := m.hdr.drop hs, bodySlice := m.body.drop bs,
           fds := if st.bytesSent = 0 then m.fds else [] }
  else none

/-- the peer end of the stream: accepted chunks (newest first) and the SCM_RIGHTS deliveries in order,
    each with the stream position of the byte it arrived with -/
structure Wire where
  chunks : List (List UInt8)
  transfers : List (Nat × List Nat)
  deriving Repr, DecidableEq

def Wire.empty : Wire := ⟨[], []⟩

/-- the byte stream the peer reads: the accepted chunks in the order they were accepted -/
def Wire.bytes (w : Wire) : List UInt8 := w.chunks.reverse.flatten

/-- what `write_once` returns -/
inductive Res
  | ok (n : Nat)
  | wouldBlock
  | error
  deriving Repr, DecidableEq

/-- number of bytes a `write_once` result reports -/
def Res.count : Res → Nat
  | .ok n => n
  | _ => 0

def sumCounts (rs : List Res) : Nat := (rs.map Res.count).sum

/-- ASSUMED kernel behaviour of `sendmsg(iov, SCM_RIGHTS fds)` on a connected Unix stream socket -/
def kernel (o : Offer) (w : Wire) : Ev → Wire × Res
  | .accept k =>
    let n := min k o.len
    if n = 0 then (w, .ok 0)
    else
      ({ chunks := (o.hdrSlice ++ o.bodySlice).take n :: w.chunks,
         transfers := if o.fds.isEmpty then w.transfers else w.transfers ++ [(w.bytes.length, o.fds)] },
       .ok n)
  | .eagain => (w, .wouldBlock)
  | .fail => (w, .error)

/-- `write_once`: one `sendmsg`; `bytes_sent += n` on success, nothing changes on an error.
    `none` = the slice panic of `offer`. -/
def writeOnce (m : Msg) (st : State) (w : Wire) (ev : Ev) : Option (State × Wire × Res) :=
  match offer m st with
  | none => none
  | some o =>
    match kernel o w ev with
    | (w', .ok n) => some ({ st with bytesSent := st.bytesSent + n }, w', .ok n)
    | (w', r) => some (st, w', r)

/-- `into_progress`: copies the state out, `mem::forget`s the context -/
def intoProgress (c : Ctx) : State := c.st

/-- `resume(conn, msg, progress)` with the same connection (its `header_buf` untouched: no other
    `send_message` in between, as the documentation demands) and the same message -/
def resume (m : Msg) (p : State) : Ctx := ⟨m, p⟩

/-- what the caller does next: one `write_once` (whose outcome the kernel picks) or a
    suspend-and-resume -/
inductive Step
  | call (ev : Ev)
  | suspend
  deriving Repr, DecidableEq

def step (c : Ctx) (w : Wire) : Step → Option (Ctx × Wire × List Res)
  | .call ev =>
    match writeOnce c.msg c.st w ev with
    | none => none
    | some (st', w', r) => some (⟨c.msg, st'⟩, w', [r])
  | .suspend => some (resume c.msg (intoProgress c), w, [])

/-- a whole history of caller steps; returns the final context, the peer's view and the values
    `write_once` returned -/
def run (c : Ctx) (w : Wire) : List Step → Option (Ctx × Wire × List Res)
  | [] => some (c, w, [])
  | s :: ss =>
    match step c w s with
    | none => none
    | some (c', w', r) =>
      match run c' w' ss with
      | none => none
      | some (c'', w'', rs) => some (c'', w'', r ++ rs)

/-! ### `Drop`, the consuming functions -/

/-- `impl Drop`: `bytes_sent != 0 && !all_bytes_written()` panics -/
def dropPanics (m : Msg) (st : State) : Bool := st.bytesSent != 0 && !allWritten m st

/-- the ways a context stops existing -/
inductive Exit
  | drop                -- goes out of scope or `mem::drop` (the `Ok` branch of `finish_if_ok`)
  | forceFinish         -- `mem::forget(self)`
  | intoProgress        -- copies the state, then `force_finish`
  | forceFinishOnError  -- `s.force_finish(); e`
  deriving Repr, DecidableEq

def Exit.runsDrop : Exit → Bool
  | .drop => true
  | _ => false

def exitPanics (c : Ctx) (e : Exit) : Bool := e.runsDrop && dropPanics c.msg c.st

/-! ### `write` -/

/-- one iteration of the loop in `write`: `calc_timeout_left` says the time is up, or the
    `write_once` is made and the kernel answers -/
inductive WEv
  | timeUp
  | io (ev : Ev)
  deriving Repr, DecidableEq

/-- the error `write` hands back: `Error::TimedOut` (from `calc_timeout_left`), the EAGAIN of a
    `write_once`, any other error of a `write_once` -/
inductive WErr
  | timedOut
  | wouldBlock
  | other
  deriving Repr, DecidableEq

inductive WriteRes
  | done (serial : Nat)          -- `Ok(serial)`, the context was dropped
  | err (e : WErr)               -- `Err((self, e))`: the context comes back with its state
  | running                      -- the event list ended while the loop was still going
  | panic                        -- slice panic or `Drop` panic
  deriving Repr, DecidableEq

/-- `write(timeout)`: loop `write_once` until `all_bytes_written` or an error; `finish_if_ok` drops the
    context on `Ok`. Returns the result, the state the context has/had, the peer's view, and the
    number of `write_once` calls made. -/
def write (m : Msg) (st : State) (w : Wire) : List WEv → WriteRes × State × Wire × Nat
  | [] => (.running, st, w, 0)
  | .timeUp :: _ => (.err .timedOut, st, w, 0)
  | .io ev :: rest =>
    match writeOnce m st w ev with
    | none => (.panic, st, w, 1)
    | some (st', w', .ok _) =>
      if allWritten m st' then
        (if exitPanics ⟨m, st'⟩ .drop then .panic else .done st'.serial, st', w', 1)
      else
        let (r, st'', w'', n) := write m st' w' rest
        (r, st'', w'', n + 1)
    | some (st', w', .wouldBlock) => (.err .wouldBlock, st', w', 1)
    | some (st', w', .error) => (.err .other, st', w', 1)

/-! ### `send_message` -/

inductive Start
  | panic                                    -- "run out of serials"
  | refused (c : Serial.Conn)                -- `marshal::marshal` returned an error
  | started (ctx : Ctx) (c : Serial.Conn)
  deriving Repr

/-- `send_message`: serial = the preset one or a freshly allocated one; the header is marshalled with
    that serial into `header_buf`; the context starts at `bytes_sent = 0` with that serial.
    `fds` = `msg.body.get_raw_fds()`. -/
def sendMessage (c : Serial.Conn) (hm : Header.Msg) (fds : List Nat) (preset : Option Nat) : Start :=
  match Serial.sendSerial c preset with
  | none => .panic
  | some (s, c') =>
    match Header.marshalHeader hm s with
    | none => .refused c'
    | some hdr => .started ⟨⟨hdr, hm.body, fds⟩, ⟨0, s⟩⟩ c'

/-- `SendMessageContext::serial` -/
def Ctx.serial (c : Ctx) : Nat := c.st.serial

/-- the context `send_message` creates for an already marshalled header -/
def Ctx.start (m : Msg) (serial : Nat) : Ctx := ⟨m, ⟨0, serial⟩⟩

end Rustbus.Send
