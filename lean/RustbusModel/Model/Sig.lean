/-
Model of rustbus/src/signature.rs (Type, to_str, parse_description, check_nesting_depth),
signature/signature_iter.rs (SignatureIter) and params/validation.rs::validate_signature (C07).
Also the shared type algebra `Ty` used by every wire model. Import-free.
-/
namespace Rustbus

inductive Base
  | byte | bool | i16 | u16 | i32 | u32 | i64 | u64 | double | string | objpath | signature | unixfd
  deriving Repr, DecidableEq, Inhabited

/-- `signature::Type`; `struct []` is representable here but never well-formed (`StructTypes::new`) -/
inductive Ty
  | base (b : Base)
  | array (e : Ty)
  | dict (k : Base) (v : Ty)
  | struct (fs : List Ty)
  | variant
  deriving Repr, Inhabited

namespace Base
/-- `Base::to_str` -/
def char : Base → Char
  | byte => 'y' | bool => 'b' | i16 => 'n' | u16 => 'q' | i32 => 'i' | u32 => 'u'
  | i64 => 'x' | u64 => 't' | double => 'd' | string => 's' | objpath => 'o'
  | signature => 'g' | unixfd => 'h'

/-- the base-type arms of `parse_next_type` / `parse_next_base` (Token → Base) -/
def ofChar (c : Char) : Option Base :=
  if c = 'y' then some byte else if c = 'b' then some bool else if c = 'n' then some i16
  else if c = 'q' then some u16 else if c = 'i' then some i32 else if c = 'u' then some u32
  else if c = 'x' then some i64 else if c = 't' then some u64 else if c = 'd' then some double
  else if c = 's' then some string else if c = 'o' then some objpath
  else if c = 'g' then some signature else if c = 'h' then some unixfd else none

/-- `Base::get_alignment` -/
def align : Base → Nat
  | byte => 1 | bool => 4 | i16 => 2 | u16 => 2 | i32 => 4 | u32 => 4 | unixfd => 4
  | i64 => 8 | u64 => 8 | double => 8 | string => 4 | objpath => 4 | signature => 1
end Base

namespace Ty

/-- `Type::get_alignment` / `Container::get_alignment` -/
def align : Ty → Nat
  | base b => b.align
  | array _ => 4
  | dict _ _ => 4
  | struct _ => 8
  | variant => 1

mutual
/-- `Type::to_str` -/
def toStr : Ty → List Char
  | base b => [b.char]
  | array e => 'a' :: toStr e
  | dict k v => 'a' :: '{' :: k.char :: (toStr v ++ ['}'])
  | struct fs => '(' :: (listToStr fs ++ [')'])
  | variant => ['v']
def listToStr : List Ty → List Char
  | [] => []
  | t :: ts => toStr t ++ listToStr ts
end

mutual
/-- no empty struct anywhere (`StructTypes::new`) -/
def wf : Ty → Bool
  | base _ => true
  | array e => wf e
  | dict _ v => wf v
  | struct fs => !fs.isEmpty && wfList fs
  | variant => true
def wfList : List Ty → Bool
  | [] => true
  | t :: ts => wf t && wfList ts
end

mutual
/-- `Type::check_nesting_depth(t, struct_depth, array_depth)` -/
def depthOk : Ty → Nat → Nat → Bool
  | base _, sd, ad => decide (sd ≤ 32) && decide (ad ≤ 32)
  | variant, sd, ad => decide (sd ≤ 32) && decide (ad ≤ 32)
  | array e, sd, ad => decide (sd ≤ 32) && decide (ad ≤ 32) && depthOk e sd (ad + 1)
  | dict _ v, sd, ad => decide (sd ≤ 32) && decide (ad ≤ 32) && depthOk v sd (ad + 1)
  | struct fs, sd, ad => decide (sd ≤ 32) && decide (ad ≤ 32) && depthOkList fs (sd + 1) ad
def depthOkList : List Ty → Nat → Nat → Bool
  | [], _, _ => true
  | t :: ts, sd, ad => depthOk t sd ad && depthOkList ts sd ad
end

end Ty

namespace Sig

/-- `char_to_token(c).is_ok()` -/
def isTokenChar (c : Char) : Bool :=
  (Base.ofChar c).isSome || c = 'v' || c = 'a' || c = '(' || c = ')' || c = '{' || c = '}'

/-
`parse_next_type(tokens, delim)` on the remaining characters. Outer `none` = `Err(_)`;
`some (none, rest)` = `Ok(None)`; `delim = true` means `Some(Token::Structend)`.
Loops (`parse_struct`, recursion) run on `fuel`; `parseDescription` supplies enough (proved).
-/
mutual
def parseNext : Nat → Bool → List Char → Option (Option Ty × List Char)
  | 0, _, _ => none
  | _ + 1, delim, [] => if delim then none else some (none, [])
  | fuel + 1, delim, c :: rest =>
    if c = '(' then
      match parseStruct fuel rest with
      | some (ts, rest') => if ts.isEmpty then none else some (some (.struct ts), rest')
      | none => none
    else if c = ')' then (if delim then some (none, rest) else none)
    else if c = 'a' then
      match rest with
      | [] => none
      | n :: rest2 =>
        if !isTokenChar n then none
        else if n = '{' then parseDictEntry fuel rest2
        else
          match parseNext fuel false rest with
          | some (some e, r) => some (some (.array e), r)
          | _ => none
    else
      match Base.ofChar c with
      | some b => some (some (.base b), rest)
      | none => if c = 'v' then some (some .variant, rest) else none
/-- `parse_struct`: types up to the closing bracket (which is consumed) -/
def parseStruct : Nat → List Char → Option (List Ty × List Char)
  | 0, _ => none
  | fuel + 1, s =>
    match parseNext fuel true s with
    | some (some t, r) =>
      match parseStruct fuel r with
      | some (ts, r') => some (t :: ts, r')
      | none => none
    | some (none, r) => some ([], r)
    | none => none
/-- `parse_dict_entry` (the leading `a{` is consumed) -/
def parseDictEntry : Nat → List Char → Option (Option Ty × List Char)
  | 0, _ => none
  | _ + 1, [] => none
  | fuel + 1, k :: rest =>
    match Base.ofChar k with
    | none => none
    | some kb =>
      match parseNext fuel false rest with
      | some (some v, r) =>
        match r with
        | '}' :: r' => some (some (.dict kb v), r')
        | _ => none
      | _ => none
end

/-- the top-level `while let Some(t) = parse_next_type(&mut tokens, None)?` loop -/
def parseAll : Nat → List Char → Option (List Ty)
  | 0, _ => none
  | fuel + 1, s =>
    match parseNext (2 * s.length + 2) false s with
    | some (some t, r) =>
      match parseAll fuel r with
      | some ts => some (t :: ts)
      | none => none
    | some (none, _) => some []
    | none => none

def utf8Len (s : List Char) : Nat := (s.map Char.utf8Size).sum

/-- `Type::parse_description` -/
def parseDescription (s : List Char) : Option (List Ty) :=
  if utf8Len s > 255 then none
  else
    match parseAll (s.length + 1) s with
    | some ts => if ts.all (fun t => t.depthOk 0 0) then some ts else none
    | none => none

/-
`validate_signature`'s inner `validate_next(sig, pos, array_depth, bracket_depth)`.
The pair (sig, pos) is represented by (prev, s): `s` = `sig[pos..]`, `prev` = `sig[pos-1]` if pos > 0
(the only look-behind the code does). Returns the number of characters consumed.
-/
mutual
def validateNext : Nat → Option Char → List Char → Nat → Nat → Option Nat
  | 0, _, _, _, _ => none
  | fuel + 1, prev, s, ad, bd =>
    if bd > 32 then none
    else if ad > 32 then none
    else match s with
    | [] => none
    | c :: rest =>
      if (Base.ofChar c).isSome || c = 'v' then some 1
      else if c = 'a' then
        match validateNext fuel (some 'a') rest (ad + 1) bd with
        | some n => some (n + 1)
        | none => none
      else if c = '{' then
        if prev = some 'a' && decide (s.length > 2) then
          match rest with
          | [] => none
          | k :: rest2 =>
            if (Base.ofChar k).isSome then
              match validateNext fuel (some k) rest2 ad bd with
              | some vlen =>
                let inner := 1 + vlen
                -- `pos + inner + 1 >= sig.len()` / `sig[pos + inner + 1] == b'}'`
                match s.drop (inner + 1) with
                | '}' :: _ => some (inner + 2)
                | _ => none
              | none => none
            else none
        else none
      else if c = '(' then validateStruct fuel s 1 ad bd
      else none
/-- the `loop` of the `b'('` arm; `counter` characters of `s` (= `sig[pos..]`) are consumed so far -/
def validateStruct : Nat → List Char → Nat → Nat → Nat → Option Nat
  | 0, _, _, _, _ => none
  | fuel + 1, s, counter, ad, bd =>
    match s.drop counter with
    | [] => none
    | c :: _ =>
      if c = ')' then (if counter = 1 then none else some (counter + 1))
      else
        match validateNext fuel ((s.drop (counter - 1)).head?) (s.drop counter) ad (bd + 1) with
        | some n => validateStruct fuel s (counter + n) ad bd
        | none => none
end

/-- the outer `while pos < sig.len()` loop -/
def validateLoop : Nat → Option Char → List Char → Bool
  | 0, _, _ => false
  | _ + 1, _, [] => true
  | fuel + 1, prev, s =>
    match validateNext (2 * s.length + 2) prev s 0 0 with
    | some n => validateLoop fuel ((s.drop (n - 1)).head?) (s.drop n)
    | none => false

/-- `validate_signature` -/
def validateSignature (s : List Char) : Bool :=
  if utf8Len s > 255 then false else validateLoop (s.length + 1) none s

/-
`SignatureIter::next` (bracket counting). `none` = the `unwrap()` on `get(end_pos)` would panic
(only reachable for invalid signatures). `depth` is an Int in Rust terms (i32, may go negative).
-/
def iterNextAux : Nat → List Char → Nat → Int → Option Nat
  | 0, _, _, _ => none
  | fuel + 1, s, endPos, open_ =>
    match s.drop endPos with
    | [] => none
    | c :: _ =>
      let endPos := endPos + 1
      if c = 'a' then iterNextAux fuel s endPos open_
      else
        let open_ := if c = '(' || c = '{' then open_ + 1 else if c = ')' || c = '}' then open_ - 1 else open_
        if open_ = 0 then some endPos else iterNextAux fuel s endPos open_

/-- one step of the iterator: `Some(sig)` and the remaining string; `none` = panic -/
def iterNext (s : List Char) : Option (List Char × List Char) :=
  match iterNextAux (s.length + 1) s 0 0 with
  | some n => some (s.take n, s.drop n)
  | none => none

/-- collect the whole iterator; `none` = a panic occurred -/
def iterAll : Nat → List Char → Option (List (List Char))
  | 0, _ => none
  | _ + 1, [] => some []
  | fuel + 1, s =>
    match iterNext s with
    | some (h, r) => (iterAll fuel r).map (h :: ·)
    | none => none

def sigIter (s : List Char) : Option (List (List Char)) := iterAll (s.length + 1) s

end Sig
end Rustbus
