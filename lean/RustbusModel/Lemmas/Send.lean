import RustbusModel.Model.Send
/-!
Lemmas for C10: the invariant tying the sender's `bytes_sent` to what the peer has, preserved by
every `write_once` outcome and by suspend/resume.
-/
namespace Rustbus.Send

/-- the invariant of a send in progress: the counter never exceeds the total, the peer has exactly the
    first `bytes_sent` bytes of header ++ body, and the descriptors have been delivered (once, with
    the very first byte) iff at least one byte was accepted -/
structure Inv (m : Msg) (st : State) (w : Wire) : Prop where
  le : st.bytesSent ≤ m.total
  bytes : w.bytes = (m.hdr ++ m.body).take st.bytesSent
  transfers : w.transfers = if st.bytesSent = 0 ∨ m.fds = [] then [] else [(0, m.fds)]

theorem inv_init (m : Msg) (serial : Nat) : Inv m ⟨0, serial⟩ Wire.empty :=
  ⟨by simp, by simp [Wire.bytes, Wire.empty], by simp [Wire.empty]⟩

/-- the two slices of the iovec, re-derived from `bytes_sent`, are together exactly the unsent rest of
    header ++ body — inside the header, at the seam and inside the body alike -/
theorem offer_of_le (m : Msg) (st : State) (h : st.bytesSent ≤ m.total) :
    ∃ o, offer m st = some o ∧
      o.hdrSlice ++ o.bodySlice = (m.hdr ++ m.body).drop st.bytesSent ∧
      o.fds = (if st.bytesSent = 0 then m.fds else []) ∧
      o.hdrOff = min st.bytesSent m.hdr.length ∧
      o.bodyOff = st.bytesSent - m.hdr.length ∧
      o.len = m.total - st.bytesSent := by
  unfold Msg.total at h
  have hb : st.bytesSent - min st.bytesSent m.hdr.length ≤ m.body.length := by omega
  refine ⟨{ hdrOff := min st.bytesSent m.hdr.length, bodyOff := st.bytesSent - min st.bytesSent m.hdr.length,
             hdrSlice := m.hdr.drop (min st.bytesSent m.hdr.length),
             bodySlice := m.body.drop (st.bytesSent - min st.bytesSent m.hdr.length),
             fds := if st.bytesSent = 0 then m.fds else [] },
    by simp only [offer, if_pos hb], ?_, rfl, rfl, ?_, ?_⟩
  · simp only [List.drop_append]
    by_cases hc : st.bytesSent ≤ m.hdr.length
    · have h1 : min st.bytesSent m.hdr.length = st.bytesSent := by omega
      have h2 : st.bytesSent - st.bytesSent = st.bytesSent - m.hdr.length := by omega
      rw [h1, h2]
    · have h1 : min st.bytesSent m.hdr.length = m.hdr.length := by omega
      rw [h1, List.drop_eq_nil_of_le (Nat.le_refl _),
        List.drop_eq_nil_of_le (show m.hdr.length ≤ st.bytesSent by omega)]
  · show st.bytesSent - min st.bytesSent m.hdr.length = _
    omega
  · simp only [Offer.len, List.length_drop, Msg.total]
    omega

theorem bytes_cons (c : List UInt8) (cs : List (List UInt8)) (t : List (Nat × List Nat)) (t' : List (Nat × List Nat)) :
    (Wire.mk (c :: cs) t').bytes = (Wire.mk cs t).bytes ++ c := by
  simp [Wire.bytes]

/-- `write_once` when the kernel accepts: exactly `min k rest` bytes more on both sides -/
theorem writeOnce_accept (m : Msg) (st : State) (w : Wire) (k : Nat) (h : Inv m st w) :
    ∃ w', writeOnce m st w (.accept k) =
        some ({ st with bytesSent := st.bytesSent + min k (m.total - st.bytesSent) }, w',
              .ok (min k (m.total - st.bytesSent))) ∧
      Inv m { st with bytesSent := st.bytesSent + min k (m.total - st.bytesSent) } w' := by
  obtain ⟨o, ho, hcat, hfds, _, _, hlen⟩ := offer_of_le m st h.le
  by_cases hn : min k (m.total - st.bytesSent) = 0
  · refine ⟨w, ?_, ?_⟩
    · simp only [writeOnce, ho, kernel, hlen, hn, if_pos]
    · rw [hn]; exact h
  · refine ⟨{ chunks := (o.hdrSlice ++ o.bodySlice).take (min k (m.total - st.bytesSent)) :: w.chunks,
              transfers := if o.fds.isEmpty then w.transfers else w.transfers ++ [(w.bytes.length, o.fds)] },
      ?_, ?_⟩
    · simp only [writeOnce, ho, kernel, hlen, if_neg hn]
    · have hle := h.le
      refine ⟨by simp only; omega, ?_, ?_⟩
      · obtain ⟨cs, t⟩ := w
        rw [bytes_cons _ _ t, h.bytes, hcat, List.take_add]
      · have hpos : ¬ (st.bytesSent + min k (m.total - st.bytesSent) = 0) := by omega
        simp only [hfds]
        by_cases h0 : st.bytesSent = 0
        · by_cases hf : m.fds = []
          · have := h.transfers
            simp [hf] at this ⊢
            exact this
          · have := h.transfers
            have hb := h.bytes
            simp only [h0, true_or, if_true] at this
            simp only [h0, List.take_zero] at hb
            simp [h0, hf, this, hb]
            omega
        · have := h.transfers
          simp only [h0, false_or] at this
          simp only [if_neg h0, List.isEmpty_nil, if_true, this, hpos, false_or]

theorem writeOnce_eagain (m : Msg) (st : State) (w : Wire) (h : st.bytesSent ≤ m.total) :
    writeOnce m st w .eagain = some (st, w, .wouldBlock) := by
  obtain ⟨o, ho, _⟩ := offer_of_le m st h
  simp only [writeOnce, ho, kernel]

theorem writeOnce_fail (m : Msg) (st : State) (w : Wire) (h : st.bytesSent ≤ m.total) :
    writeOnce m st w .fail = some (st, w, .error) := by
  obtain ⟨o, ho, _⟩ := offer_of_le m st h
  simp only [writeOnce, ho, kernel]

/-- every outcome of `write_once` keeps the invariant, the message and the serial; an error changes
    nothing at all -/
theorem writeOnce_inv (m : Msg) (st : State) (w : Wire) (ev : Ev) (h : Inv m st w) :
    ∃ st' w' r, writeOnce m st w ev = some (st', w', r) ∧ Inv m st' w' ∧ st'.serial = st.serial ∧
      st.bytesSent ≤ st'.bytesSent ∧
      (match r with
       | .ok n => st'.bytesSent = st.bytesSent + n ∧
                  ∃ k, ev = .accept k ∧ n = min k (m.total - st.bytesSent)
       | .wouldBlock => ev = .eagain ∧ st' = st ∧ w' = w
       | .error => ev = .fail ∧ st' = st ∧ w' = w) := by
  cases ev with
  | accept k =>
    obtain ⟨w', h1, h2⟩ := writeOnce_accept m st w k h
    exact ⟨_, w', _, h1, h2, rfl, by simp, rfl, k, rfl, rfl⟩
  | eagain => exact ⟨st, w, _, writeOnce_eagain m st w h.le, h, rfl, Nat.le_refl _, rfl, rfl, rfl⟩
  | fail => exact ⟨st, w, _, writeOnce_fail m st w h.le, h, rfl, Nat.le_refl _, rfl, rfl, rfl⟩

/-- one caller step keeps the invariant -/
theorem step_inv (c : Ctx) (w : Wire) (s : Step) (h : Inv c.msg c.st w) :
    ∃ c' w' r, step c w s = some (c', w', r) ∧ c'.msg = c.msg ∧ Inv c.msg c'.st w' ∧
      c'.st.serial = c.st.serial ∧ c.st.bytesSent ≤ c'.st.bytesSent := by
  cases s with
  | call ev =>
    obtain ⟨st', w', r, h1, h2, h3, h4, _⟩ := writeOnce_inv c.msg c.st w ev h
    exact ⟨⟨c.msg, st'⟩, w', [r], by simp only [step, h1], rfl, h2, h3, h4⟩
  | suspend => exact ⟨c, w, [], rfl, rfl, h, rfl, Nat.le_refl _⟩

/-- every history keeps the invariant (and in particular never reaches the slice panic) -/
theorem run_inv (steps : List Step) : ∀ (c : Ctx) (w : Wire), Inv c.msg c.st w →
    ∃ c' w' rs, run c w steps = some (c', w', rs) ∧ c'.msg = c.msg ∧ Inv c.msg c'.st w' ∧
      c'.st.serial = c.st.serial ∧ c.st.bytesSent ≤ c'.st.bytesSent := by
  induction steps with
  | nil => intro c w h; exact ⟨c, w, [], rfl, rfl, h, rfl, Nat.le_refl _⟩
  | cons s ss ih =>
    intro c w h
    obtain ⟨c1, w1, r, h1, hm, hi, hs, hb⟩ := step_inv c w s h
    obtain ⟨c2, w2, rs, g1, gm, gi, gs, gb⟩ := ih c1 w1 (by rw [hm]; exact hi)
    refine ⟨c2, w2, r ++ rs, by simp only [run, h1, g1], by rw [gm, hm], by rw [← hm]; exact gi,
      by rw [gs, hs], by omega⟩

theorem run_append (a b : List Step) : ∀ (c : Ctx) (w : Wire),
    run c w (a ++ b) =
      match run c w a with
      | none => none
      | some (c', w', rs) =>
        match run c' w' b with
        | none => none
        | some (c'', w'', rs') => some (c'', w'', rs ++ rs') := by
  induction a with
  | nil =>
    intro c w
    simp only [List.nil_append, run]
    cases run c w b with
    | none => rfl
    | some p => obtain ⟨c2, w2, rs⟩ := p; simp
  | cons s ss ih =>
    intro c w
    simp only [List.cons_append, run]
    cases step c w s with
    | none => rfl
    | some p =>
      obtain ⟨c1, w1, r⟩ := p
      simp only [ih c1 w1]
      cases run c1 w1 ss with
      | none => rfl
      | some q =>
        obtain ⟨c2, w2, rs⟩ := q
        simp only
        cases run c2 w2 b with
        | none => rfl
        | some q2 => obtain ⟨c3, w3, rs'⟩ := q2; simp

end Rustbus.Send
