import RustbusModel.Lemmas.FdConcInv
/-!
C12 helper lemmas, part 3: once the cell holds -1 it stays so and every operation that has not yet
executed its load reports "gone"; the harness' coarse schedules are schedules.
-/
namespace Rustbus.FdConc

/-- the result the thread's current operation is going to report (if any) cannot be a descriptor,
    provided the cell holds -1 from now on -/
def Pc.clean : Pc → Bool
  | .idle | .takeLoad | .getLoad | .dupLoad | .dupLoadF | .dropDec => true
  | .takeDec none => true
  | .takeDec (some _) => false
  | .innerDrop k | .dropLoad k | .dropCas k _ | .dropClose k _ => !k.seesFd
  | _ => false

/-- the operation has been invoked at most, none of its atomic steps on the cell has happened -/
def Pc.beforeFirstStep : Pc → Bool
  | .idle | .takeLoad | .getLoad | .dupLoad | .dupLoadF => true
  | _ => false

theorem clean_of_beforeFirstStep {pc : Pc} (h : pc.beforeFirstStep = true) : pc.clean = true := by
  cases pc <;> simp_all [Pc.beforeFirstStep, Pc.clean]

macro "fdg_close" : tactic => `(tactic|
  (simp_all [Pc.clean, Thread.finish, Res.seesFd]))

theorem stepThread_gone {sh sh' : Shared} {th th' : Thread} {acts : List Act}
    (h : stepThread sh th = some (sh', th', acts)) (hg : sh.inner = -1) :
    sh'.inner = -1 ∧
    ((th'.results = th.results ∧ (th.pc.clean = true → th'.pc.clean = true)) ∨
     (∃ r, th'.results = th.results ++ [r] ∧ th'.pc = .idle ∧ (th.pc.clean = true → r.seesFd = false))) := by
  obtain ⟨prog, handles, pc, results⟩ := th
  obtain ⟨inner, strong, nextDup⟩ := sh
  simp only at hg
  subst hg
  cases pc with
  | idle =>
    cases prog with
    | nil =>
      cases handles with
      | zero => simp [stepThread] at h
      | succ n =>
        simp only [stepThread, Option.some.injEq, Prod.mk.injEq] at h
        obtain ⟨rfl, rfl, rfl⟩ := h
        fdg_close
    | cons op rest =>
      cases handles with
      | zero => simp [stepThread] at h
      | succ n =>
        cases op <;>
        · simp only [stepThread, Option.some.injEq, Prod.mk.injEq] at h
          obtain ⟨rfl, rfl, rfl⟩ := h
          fdg_close
  | takeDec r =>
    simp only [stepThread, decrement] at h
    cases r <;> split at h <;>
    first
    | (simp at h; done)
    | (simp only [Option.some.injEq, Prod.mk.injEq] at h
       obtain ⟨rfl, rfl, rfl⟩ := h
       fdg_close)
  | dropDec =>
    simp only [stepThread, decrement] at h
    split at h <;>
    first
    | (simp at h; done)
    | (simp only [Option.some.injEq, Prod.mk.injEq] at h
       obtain ⟨rfl, rfl, rfl⟩ := h
       fdg_close)
  | takeLoad | takeCas v | dupLoad | dupLoadF | dropLoad k | dropCas k v =>
    simp only [stepThread] at h
    split at h <;>
    · simp only [Option.some.injEq, Prod.mk.injEq] at h
      obtain ⟨rfl, rfl, rfl⟩ := h
      fdg_close
  | getLoad | dupSys v | dupClose n | dupSysF v | innerDrop k | dropClose k v =>
    simp only [stepThread, Option.some.injEq, Prod.mk.injEq] at h
    obtain ⟨rfl, rfl, rfl⟩ := h
    fdg_close

/-- From a configuration in which the cell holds -1: what any later configuration says about thread `t`.
    Its new results are all "gone" if the thread was clean (in particular: had not started its current
    operation's atomic steps); in any case all but the first new result are. -/
theorem run_gone : ∀ (s : List Nat) (c1 c2 : Config), run c1 s = some c2 → c1.sh.inner = -1 →
    ∀ (t : Nat) (th1 : Thread), c1.threads[t]? = some th1 →
    c2.sh.inner = -1 ∧
    ∃ th2 new, c2.threads[t]? = some th2 ∧ th2.results = th1.results ++ new ∧
      (th1.pc.clean = true → th2.pc.clean = true ∧ ∀ r ∈ new, r.seesFd = false) ∧
      (new = [] ∨ (th2.pc.clean = true ∧ ∀ r ∈ new.tail, r.seesFd = false)) := by
  intro s
  induction s with
  | nil =>
    intro c1 c2 h hg t th1 ht
    simp only [run, Option.some.injEq] at h
    subst h
    exact ⟨hg, th1, [], ht, by simp, fun hc => ⟨hc, by simp⟩, Or.inl rfl⟩
  | cons u s ih =>
    intro c1 c2 h hg t th1 ht
    simp only [run] at h
    split at h
    · simp at h
    · rename_i cm hcm
      obtain ⟨th, sh', th', acts, hth, hst, rfl⟩ := step_unfold hcm
      obtain ⟨hg', hcase⟩ := stepThread_gone hst hg
      by_cases hut : u = t
      · subst hut
        rw [hth] at ht
        simp only [Option.some.injEq] at ht
        subst ht
        have hlen : u < c1.threads.length := by
          have := List.getElem?_eq_some_iff.mp hth
          exact this.1
        have hget : (c1.threads.set u th')[u]? = some th' := by
          simp [hlen]
        obtain ⟨hg2, th2, new, h2, hres, hcl, htl⟩ := ih _ c2 h hg' u th' hget
        refine ⟨hg2, th2, ?_⟩
        rcases hcase with ⟨hr, hc⟩ | ⟨r, hr, hidle, hc⟩
        · refine ⟨new, h2, by rw [hres, hr], ?_, htl⟩
          intro hclean
          exact hcl (hc hclean)
        · have hcl' := hcl (by rw [hidle]; rfl)
          refine ⟨r :: new, h2, by rw [hres, hr]; simp, ?_, ?_⟩
          · intro hclean
            refine ⟨hcl'.1, ?_⟩
            intro x hx
            simp only [List.mem_cons] at hx
            rcases hx with rfl | hx
            · exact hc hclean
            · exact hcl'.2 x hx
          · right
            exact ⟨hcl'.1, by simpa using hcl'.2⟩
      · have hget : (c1.threads.set u th')[t]? = some th1 := by
          rw [List.getElem?_set_ne hut]; exact ht
        exact ih _ c2 h hg' t th1 hget

theorem run_inner_gone : ∀ (s : List Nat) (c1 c2 : Config), run c1 s = some c2 → c1.sh.inner = -1 →
    c2.sh.inner = -1 := by
  intro s
  induction s with
  | nil => intro c1 c2 h hg; simp only [run, Option.some.injEq] at h; exact h ▸ hg
  | cons u s ih =>
    intro c1 c2 h hg
    simp only [run] at h
    split at h
    · simp at h
    · rename_i cm hcm
      obtain ⟨th, sh', th', acts, hth, hst, rfl⟩ := step_unfold hcm
      exact ih _ c2 h (stepThread_gone hst hg).1

theorem run_append : ∀ (s1 s2 : List Nat) (c : Config),
    run c (s1 ++ s2) = (run c s1).bind (fun c' => run c' s2) := by
  intro s1
  induction s1 with
  | nil => intro s2 c; simp [run]
  | cons t s1 ih =>
    intro s2 c
    simp only [List.cons_append, run]
    cases step c t with
    | none => simp
    | some c' => simp only [ih]

/-- one scheduling decision of the harness is one or two atomic steps of the same thread -/
theorem grant_refines {c c' : Config} {t : Nat} (h : grant c t = some c') :
    run c [t] = some c' ∨ run c [t, t] = some c' := by
  unfold grant at h
  split at h
  · simp at h
  · rename_i c1 hc1
    split at h
    · simp at h
    · split at h
      · simp only [Option.some.injEq] at h
        subst h
        left; simp [run, hc1]
      · right; simp [run, hc1, h]

theorem runCoarse_refines : ∀ (s : List Nat) (c c' : Config), runCoarse c s = some c' →
    ∃ s', run c s' = some c' := by
  intro s
  induction s with
  | nil =>
    intro c c' h
    simp only [runCoarse, Option.some.injEq] at h
    exact ⟨[], by simp [run, h]⟩
  | cons t s ih =>
    intro c c' h
    simp only [runCoarse] at h
    split at h
    · simp at h
    · rename_i cm hcm
      obtain ⟨s', hs'⟩ := ih cm c' h
      rcases grant_refines hcm with g | g
      · exact ⟨[t] ++ s', by rw [run_append, g]; simpa using hs'⟩
      · exact ⟨[t, t] ++ s', by rw [run_append, g]; simpa using hs'⟩

theorem sumBy_ge (f : Thread → Nat) : ∀ (l : List Thread) (th : Thread), th ∈ l → f th ≤ sumBy f l := by
  intro l
  induction l with
  | nil => intro th h; simp at h
  | cons x l ih =>
    intro th h
    simp only [List.mem_cons] at h
    rcases h with rfl | h
    · simp only [sumBy]; omega
    · have := ih th h
      simp only [sumBy]; omega

theorem countP_allResults (c : Config) : c.allResults.countP Res.isTakeSome = sumBy resTakes c.threads := by
  unfold Config.allResults
  induction c.threads with
  | nil => simp [sumBy]
  | cons x l ih => simp only [List.flatMap_cons, List.countP_append, ih, sumBy, resTakes]

theorem finished_measures {c : Config} (hf : c.finished = true) :
    sumBy held c.threads = 0 ∧ sumBy inDrop c.threads = 0 ∧ sumBy atClose c.threads = 0 ∧
    sumBy pendTake c.threads = 0 := by
  have h : ∀ th ∈ c.threads, th.pc = .idle ∧ th.handles = 0 := by
    intro th hth
    have := List.all_eq_true.mp hf th hth
    simp only [Thread.finished, Bool.and_eq_true, beq_iff_eq] at this
    exact ⟨this.1.1, this.2⟩
  refine ⟨sumBy_eq_zero _ _ ?_, sumBy_eq_zero _ _ ?_, sumBy_eq_zero _ _ ?_, sumBy_eq_zero _ _ ?_⟩ <;>
  · intro th hth
    obtain ⟨h1, h2⟩ := h th hth
    simp [held, inDrop, atClose, pendTake, h1, h2]

theorem inner_gone_of_took {orig : Int} {c : Config} (inv : Inv orig c) (ht : 0 < nTook c.trace) :
    c.sh.inner = -1 := by
  have h := inv.casEq
  have hb : b2n (c.sh.inner = orig) = 0 := by omega
  rcases inv.inner with hi | hi
  · simp [b2n, hi] at hb
  · exact hi

end Rustbus.FdConc
