import RustbusModel.Lemmas.FdConc
/-!
C12 helper lemmas, part 2: the invariant of all reachable configurations and its preservation.
-/
namespace Rustbus.FdConc

/-- successful compare_exchanges of `take_raw_fd` operations so far -/
def nTook (tr : List (Nat × Act)) : Nat := tr.countP (fun e => e.2.isTook)
/-- successful compare_exchanges of `Drop for UnixFdInner` so far -/
def nDropCas (tr : List (Nat × Act)) : Nat := tr.countP (fun e => e.2.isDropCas)
def nClose (orig : Int) (tr : List (Nat × Act)) : Nat := tr.countP (fun e => e.2.isCloseOf orig)

theorem countP_trace_append (p : Act → Bool) (tr : List (Nat × Act)) (t : Nat) (acts : List Act) :
    (tr ++ acts.map (fun a => (t, a))).countP (fun e => p e.2) = tr.countP (fun e => p e.2) + acts.countP p := by
  rw [List.countP_append, List.countP_map]
  rfl

structure Inv (orig : Int) (c : Config) : Prop where
  inner : c.sh.inner = orig ∨ c.sh.inner = -1
  wf : ∀ th ∈ c.threads, th.wf orig
  strongEq : c.sh.strong = sumBy held c.threads
  casEq : nTook c.trace + nDropCas c.trace + b2n (c.sh.inner = orig) = 1
  closeEq : nClose orig c.trace + sumBy atClose c.threads = nDropCas c.trace
  takeEq : sumBy resTakes c.threads + sumBy pendTake c.threads = nTook c.trace
  alive : 0 < c.sh.strong → sumBy inDrop c.threads = 0 ∧ nDropCas c.trace = 0
  dead : c.sh.strong = 0 → sumBy inDrop c.threads = 1 ∨ c.sh.inner = -1 ∨ c.threads = []

theorem sumBy_init (f : Thread → Nat) (k : Nat) (progs : List (List Op))
    (hf : ∀ p, f { prog := p, handles := 1, pc := .idle, results := [] } = k) :
    sumBy f (progs.map (fun p => { prog := p, handles := 1, pc := .idle, results := [] })) = k * progs.length := by
  induction progs with
  | nil => simp [sumBy]
  | cons p ps ih => simp only [List.map_cons, sumBy, hf, ih, List.length_cons]; rw [Nat.mul_succ]; omega

theorem inv_init (orig : Int) (progs : List (List Op)) : Inv orig (init orig progs) := by
  have h1 := sumBy_init held 1 progs (fun p => by simp [held])
  have h2 := sumBy_init atClose 0 progs (fun p => by simp [atClose])
  have h3 := sumBy_init resTakes 0 progs (fun p => by simp [resTakes])
  have h4 := sumBy_init pendTake 0 progs (fun p => by simp [pendTake])
  have h5 := sumBy_init inDrop 0 progs (fun p => by simp [inDrop])
  constructor
  · left; rfl
  · intro th hth
    simp only [init, List.mem_map] at hth
    obtain ⟨p, _, rfl⟩ := hth
    simp [Thread.wf, Pc.wf]
  · simp only [init, h1]; omega
  · simp [init, nTook, nDropCas, b2n]
  · simp only [init, h2]; simp [nClose, nDropCas]
  · simp only [init, h3, h4]; simp [nTook]
  · intro _; simp only [init, h5]; simp [nDropCas]
  · intro h
    right; right
    simp only [init] at h
    simp only [init, List.map_eq_nil_iff]
    exact List.eq_nil_of_length_eq_zero h

/-- what `step` is, in terms of `stepThread` -/
theorem step_unfold {c c' : Config} {t : Nat} (h : step c t = some c') :
    ∃ th sh' th' acts, c.threads[t]? = some th ∧ stepThread c.sh th = some (sh', th', acts) ∧
      c' = { sh := sh', threads := c.threads.set t th', trace := c.trace ++ acts.map (fun a => (t, a)) } := by
  unfold step at h
  split at h
  · simp at h
  · rename_i th hth
    split at h
    · simp at h
    · rename_i sh' th' acts hst
      simp only [Option.some.injEq] at h
      exact ⟨th, sh', th', acts, hth, hst, h.symm⟩

theorem alive_arith (strong strong' hT rH dT dT' rD nD aD : Nat)
    (i1 : strong = hT + rH) (i5 : 0 < strong → dT + rD = 0 ∧ nD = 0) (l2 : strong < strong' → 1 ≤ hT)
    (l6 : aD ≤ dT) (l8 : dT' ≤ dT ∨ (dT = 0 ∧ dT' = 1 ∧ strong = 1 ∧ strong' = 0)) (hs' : 0 < strong') :
    dT' + rD = 0 ∧ nD + aD = 0 := by
  omega

theorem dead_arith1 (strong strong' dT dT' rD : Nat)
    (l8 : dT' ≤ dT ∨ (dT = 0 ∧ dT' = 1 ∧ strong = 1 ∧ strong' = 0)) (hs : strong = 0)
    (d : dT + rD = 1) (h : ¬ (dT = 1 ∧ dT' = 0)) : dT' + rD = 1 := by
  omega

theorem dead_arith2 (strong strong' dT dT' rD nD : Nat)
    (i5 : 0 < strong → dT + rD = 0 ∧ nD = 0) (l9 : strong' < strong → strong' = 0 → dT' = 1)
    (hs : ¬ strong = 0) (hs' : strong' = 0) : dT' + rD = 1 := by
  omega

theorem inv_step (orig : Int) (ho : orig ≠ -1) {c c' : Config} {t : Nat} (inv : Inv orig c)
    (h : step c t = some c') : Inv orig c' := by
  obtain ⟨th, sh', th', acts, hth, hst, rfl⟩ := step_unfold h
  have hmem : th ∈ c.threads := List.mem_of_getElem? hth
  have L := stepThread_local orig ho hst inv.inner (inv.wf th hmem)
  obtain ⟨rH, eH, eH'⟩ := sumBy_split held c.threads t th hth
  obtain ⟨rC, eC, eC'⟩ := sumBy_split atClose c.threads t th hth
  obtain ⟨rR, eR, eR'⟩ := sumBy_split resTakes c.threads t th hth
  obtain ⟨rP, eP, eP'⟩ := sumBy_split pendTake c.threads t th hth
  obtain ⟨rD, eD, eD'⟩ := sumBy_split inDrop c.threads t th hth
  have hne : c.threads ≠ [] := by intro hn; rw [hn] at hth; simp at hth
  have i1 := inv.strongEq
  have i2 := inv.casEq
  have i3 := inv.closeEq
  have i4 := inv.takeEq
  have i5 := inv.alive
  have i6 := inv.dead
  have i0 := inv.inner
  have l1 := L.heldEq
  have l2 := L.incHeld
  have l3 := L.casEq
  have l4 := L.closeEq
  have l5 := L.takeEq
  have l6 := L.dcasDrop
  have l7 := L.dropStrong
  have l8 := L.enterDrop
  have l9 := L.lastDec
  have l10 := L.goneStable
  have l11 := L.leaveDrop
  have l0 := L.inner'
  clear hst h hmem
  simp only [nTook, nDropCas, nClose] at i2 i3 i4 i5
  constructor
  · exact L.inner'
  · intro x hx
    rcases List.mem_or_eq_of_mem_set hx with hx | rfl
    · exact inv.wf x hx
    · exact L.wf'
  · simp only [eH']; omega
  · simp only [nTook, nDropCas, countP_trace_append]; omega
  · simp only [nClose, nDropCas, countP_trace_append, eC']; omega
  · simp only [nTook, countP_trace_append, eR', eP']; omega
  · simp only [nDropCas, countP_trace_append, eD']
    intro hs'
    exact alive_arith _ _ _ _ _ _ _ _ _ (i1.trans eH) (by rw [← eD]; exact i5) l2 l6 l8 hs'
  · simp only [eD']
    intro hs'
    by_cases hs : c.sh.strong = 0
    · rcases i6 hs with d | d | d
      · by_cases hd : inDrop th = 1 ∧ inDrop th' = 0
        · right; left
          rcases l11 hd.1 hd.2 with g | g
          · exact g
          · have hb : b2n (c.sh.inner = orig) = 0 := by omega
            have hno : c.sh.inner ≠ orig := by
              intro hh; simp [b2n, hh] at hb
            exact l10 (by omega)
        · left
          exact dead_arith1 _ _ _ _ _ l8 hs (eD ▸ d) hd
      · right; left; exact l10 d
      · exact absurd d hne
    · left
      exact dead_arith2 _ _ _ _ _ _ (by rw [← eD]; exact i5) l9 hs hs'

theorem inv_run (orig : Int) (ho : orig ≠ -1) : ∀ (s : List Nat) (c c' : Config), Inv orig c →
    run c s = some c' → Inv orig c' := by
  intro s
  induction s with
  | nil => intro c c' inv h; simp only [run, Option.some.injEq] at h; exact h ▸ inv
  | cons t s ih =>
    intro c c' inv h
    simp only [run] at h
    split at h
    · simp at h
    · rename_i c1 hc1
      exact ih c1 c' (inv_step orig ho inv hc1) h

end Rustbus.FdConc
