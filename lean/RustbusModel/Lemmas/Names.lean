import RustbusModel.Model.Names
namespace Rustbus.Names

/-! ### Specification vocabulary (written from the D-Bus specification, not from the code) -/

/-- `[A-Z][a-z][0-9]_` -/
def SpecNameChar (c : Char) : Prop :=
  ('A'.toNat ≤ c.toNat ∧ c.toNat ≤ 'Z'.toNat) ∨ ('a'.toNat ≤ c.toNat ∧ c.toNat ≤ 'z'.toNat) ∨
  ('0'.toNat ≤ c.toNat ∧ c.toNat ≤ '9'.toNat) ∨ c = '_'
/-- `[A-Z][a-z][0-9]_-` -/
def SpecBusChar (c : Char) : Prop := SpecNameChar c ∨ c = '-'
def SpecDigit (c : Char) : Prop := '0'.toNat ≤ c.toNat ∧ c.toNat ≤ '9'.toNat

/-- `s` consists of exactly `n` elements satisfying `ok`, separated by single `sep` characters. -/
inductive Sep (sep : Char) (ok : List Char → Prop) : List Char → Nat → Prop
  | single {e : List Char} : ok e → sep ∉ e → Sep sep ok e 1
  | cons {e rest : List Char} {n : Nat} : ok e → sep ∉ e → Sep sep ok rest n →
      Sep sep ok (e ++ sep :: rest) (n + 1)

/-- element of an interface / error / well-known bus name: non-empty, allowed characters, no leading digit -/
def SpecElem (chr : Char → Prop) (leadingDigitOk : Bool) (e : List Char) : Prop :=
  e ≠ [] ∧ (∀ c ∈ e, chr c) ∧ (leadingDigitOk = false → ∀ c, e.head? = some c → ¬ SpecDigit c)

/-- Interface names (and error names): ≥ 2 elements, ≤ 255 characters -/
def SpecInterface (s : List Char) : Prop :=
  s.length ≤ 255 ∧ ∃ n, 2 ≤ n ∧ Sep '.' (SpecElem SpecNameChar false) s n

/-- Bus names: unique (`:` prefix, digits may lead) or well-known; ≥ 2 elements; ≤ 255 characters -/
def SpecBusname (s : List Char) : Prop :=
  s.length ≤ 255 ∧
  ((∃ r n, s = ':' :: r ∧ 2 ≤ n ∧ Sep '.' (SpecElem SpecBusChar true) r n) ∨
   (s.head? ≠ some ':' ∧ ∃ n, 2 ≤ n ∧ Sep '.' (SpecElem SpecBusChar false) s n))

/-- Member names: non-empty, ≤ 255, allowed characters, no leading digit, no '.' (implied by the class) -/
def SpecMember (s : List Char) : Prop :=
  s ≠ [] ∧ s.length ≤ 255 ∧ (∀ c ∈ s, SpecNameChar c) ∧ (∀ c, s.head? = some c → ¬ SpecDigit c)

/-- Object paths: "/" or "/" followed by non-empty `[A-Za-z0-9_]` elements separated by single "/" -/
def SpecObjectPath (s : List Char) : Prop :=
  s = ['/'] ∨ ∃ r n, s = '/' :: r ∧ 1 ≤ n ∧
    Sep '/' (fun e => e ≠ [] ∧ ∀ c ∈ e, SpecNameChar c) r n

/-! ### character classes -/

theorem le_iff_toNat (a b : Char) : a ≤ b ↔ a.toNat ≤ b.toNat := by
  rw [Char.le_def]; exact UInt32.le_iff_toNat_le

theorem isDigit_iff (c : Char) : isDigit c = true ↔ SpecDigit c := by
  simp [isDigit, SpecDigit, le_iff_toNat]

theorem eq_iff_toNat (c d : Char) : c = d ↔ c.toNat = d.toNat := by
  constructor
  · intro h; rw [h]
  · intro h; exact Char.ext (UInt32.toNat_inj.mp h)

theorem clsName_iff (c : Char) : clsName c = true ↔ SpecNameChar c := by
  simp only [clsName, isAlnum, SpecNameChar, Bool.or_eq_true, Bool.and_eq_true, decide_eq_true_eq,
    le_iff_toNat, beq_iff_eq, eq_iff_toNat c '_']
  have h1 : 'a'.toNat = 97 := by decide
  have h2 : 'z'.toNat = 122 := by decide
  have h3 : 'A'.toNat = 65 := by decide
  have h4 : 'Z'.toNat = 90 := by decide
  have h5 : '0'.toNat = 48 := by decide
  have h6 : '9'.toNat = 57 := by decide
  have h7 : '_'.toNat = 95 := by decide
  rw [h1, h2, h3, h4, h5, h6, h7]
  constructor <;> intro h <;> omega

theorem clsBus_iff (c : Char) : clsBus c = true ↔ SpecBusChar c := by
  have := clsName_iff c
  simp only [clsBus, clsName, SpecBusChar, Bool.or_eq_true, beq_iff_eq] at *
  rw [this]

theorem clsName_ascii (c : Char) (h : clsName c = true) : c.utf8Size = 1 := by
  have := (clsName_iff c).mp h
  simp only [SpecNameChar] at this
  have hc : c.toNat ≤ 127 := by
    rcases this with h | h | h | h
    · have : 'Z'.toNat = 90 := by decide
      omega
    · have : 'z'.toNat = 122 := by decide
      omega
    · have : '9'.toNat = 57 := by decide
      omega
    · subst h; decide
  simp only [Char.utf8Size, Char.toNat] at *
  split
  · rfl
  · rename_i hh; exfalso; apply hh; exact UInt32.le_iff_toNat_le.mpr (by simpa using hc)

theorem clsBus_ascii (c : Char) (h : clsBus c = true) : c.utf8Size = 1 := by
  simp only [clsBus, Bool.or_eq_true, beq_iff_eq] at h
  rcases h with h | h
  · exact clsName_ascii c (by simp only [clsName, Bool.or_eq_true, beq_iff_eq]; exact h)
  · subst h; decide

/-! ### splitting -/

theorem splitOn_ne_nil (sep : Char) (s : List Char) : splitOn sep s ≠ [] := by
  cases s with
  | nil => simp [splitOn]
  | cons c cs =>
    unfold splitOn
    split
    · simp
    · split <;> simp

theorem splitOn_no_sep (sep : Char) (e : List Char) (h : sep ∉ e) : splitOn sep e = [e] := by
  induction e with
  | nil => simp [splitOn]
  | cons c cs ih =>
    simp only [List.mem_cons, not_or] at h
    unfold splitOn
    rw [if_neg (fun hh => h.1 hh.symm), ih h.2]

theorem splitOn_append (sep : Char) (e rest : List Char) (h : sep ∉ e) :
    splitOn sep (e ++ sep :: rest) = e :: splitOn sep rest := by
  induction e with
  | nil => simp [splitOn]
  | cons c cs ih =>
    simp only [List.mem_cons, not_or] at h
    simp only [List.cons_append, splitOn]
    rw [if_neg (fun hh => h.1 hh.symm), ih h.2]

/-- inversion of `splitOn`: the first piece contains no separator and the string decomposes accordingly -/
theorem splitOn_inv (sep : Char) : ∀ (s : List Char) (e : List Char) (t : List (List Char)),
    splitOn sep s = e :: t →
    sep ∉ e ∧ ((t = [] ∧ s = e) ∨ (∃ rest, s = e ++ sep :: rest ∧ splitOn sep rest = t)) := by
  intro s
  induction s with
  | nil =>
    intro e t h
    simp only [splitOn, List.cons.injEq] at h
    obtain ⟨rfl, rfl⟩ := h
    simp
  | cons c cs ih =>
    intro e t h
    unfold splitOn at h
    by_cases hc : c = sep
    · rw [if_pos hc] at h
      simp only [List.cons.injEq] at h
      obtain ⟨rfl, rfl⟩ := h
      refine ⟨by simp, Or.inr ⟨cs, by simp [hc], rfl⟩⟩
    · rw [if_neg hc] at h
      cases hs : splitOn sep cs with
      | nil => exact absurd hs (splitOn_ne_nil sep cs)
      | cons h' t' =>
        rw [hs] at h
        simp only [List.cons.injEq] at h
        obtain ⟨rfl, rfl⟩ := h
        obtain ⟨hn, hrest⟩ := ih h' t' hs
        refine ⟨by simp only [List.mem_cons, not_or]; exact ⟨fun hh => hc hh.symm, hn⟩, ?_⟩
        rcases hrest with ⟨rfl, rfl⟩ | ⟨rest, rfl, hr⟩
        · left; exact ⟨rfl, rfl⟩
        · right; exact ⟨rest, by simp, hr⟩

/-- The declarative `Sep` and the executable split coincide. -/
theorem sep_iff_split (sep : Char) (ok : List Char → Prop) (s : List Char) (n : Nat) :
    Sep sep ok s n ↔ (splitOn sep s).length = n ∧ ∀ e ∈ splitOn sep s, ok e := by
  constructor
  · intro h
    induction h with
    | single hok hs => rw [splitOn_no_sep _ _ hs]; simp [hok]
    | cons hok hs _ ih =>
      rw [splitOn_append _ _ _ hs]
      simp only [List.length_cons, List.mem_cons, forall_eq_or_imp]
      exact ⟨by omega, hok, ih.2⟩
  · intro ⟨hl, hall⟩
    induction n generalizing s with
    | zero => exact absurd (List.length_eq_zero_iff.mp hl) (splitOn_ne_nil sep s)
    | succ m ih =>
      cases hs : splitOn sep s with
      | nil => exact absurd hs (splitOn_ne_nil sep s)
      | cons e t =>
        rw [hs] at hl hall
        obtain ⟨hne, hdec⟩ := splitOn_inv sep s e t hs
        rcases hdec with ⟨ht, hse⟩ | ⟨rest, rfl, hr⟩
        · subst ht; subst hse
          simp only [List.length_cons, List.length_nil] at hl
          have : m = 0 := by omega
          subst this
          exact Sep.single (hall s (by simp)) hne
        · simp only [List.length_cons] at hl
          refine Sep.cons (hall e (by simp)) hne (ih rest ?_ ?_)
          · rw [hr]; omega
          · rw [hr]; intro e' he'; exact hall e' (by simp [he'])

/-! ### elements and lengths -/

theorem all_iff {α} (p : α → Bool) (P : α → Prop) (hp : ∀ a, p a = true ↔ P a) (l : List α) :
    l.all p = true ↔ ∀ a ∈ l, P a := by
  simp only [List.all_eq_true]; constructor <;> intro h a ha
  · exact (hp a).mp (h a ha)
  · exact (hp a).mpr (h a ha)

theorem elemOk_iff (cls : Char → Bool) (chr : Char → Prop) (hc : ∀ c, cls c = true ↔ chr c)
    (b : Bool) (e : List Char) : elemOk cls b e = true ↔ SpecElem chr b e := by
  cases e with
  | nil => simp [elemOk, SpecElem]
  | cons c cs =>
    simp only [elemOk, SpecElem, Bool.and_eq_true, Bool.or_eq_true, Bool.not_eq_true', ne_eq,
      reduceCtorEq, not_false_eq_true, List.head?_cons, Option.some.injEq, true_and]
    rw [all_iff cls chr hc]
    cases b with
    | true => simp
    | false =>
      simp only [Bool.false_eq_true, false_or, forall_const, forall_eq']
      rw [← isDigit_iff]; simp [and_comm]

theorem utf8Len_eq_length (s : List Char) (h : ∀ c ∈ s, c.utf8Size = 1) : utf8Len s = s.length := by
  induction s with
  | nil => rfl
  | cons c cs ih =>
    simp only [utf8Len, List.map_cons, List.sum_cons, List.length_cons] at *
    rw [h c (by simp), ih (fun c hc => h c (by simp [hc]))]; omega

theorem utf8Len_ge_length (s : List Char) : s.length ≤ utf8Len s := by
  induction s with
  | nil => simp [utf8Len]
  | cons c cs ih =>
    simp only [utf8Len, List.map_cons, List.sum_cons, List.length_cons] at *
    have : 1 ≤ c.utf8Size := Char.utf8Size_pos c
    omega

/-- every character of a string whose pieces all satisfy an ASCII class (separator ASCII too) is ASCII -/
theorem chars_of_split (sep : Char) (s : List Char) (P : Char → Prop) (hsep : P sep)
    (h : ∀ e ∈ splitOn sep s, ∀ c ∈ e, P c) : ∀ c ∈ s, P c := by
  induction s with
  | nil => simp
  | cons c cs ih =>
    unfold splitOn at h
    by_cases hc : c = sep
    · rw [if_pos hc] at h
      intro x hx
      simp only [List.mem_cons] at hx
      rcases hx with rfl | hx
      · rw [hc]; exact hsep
      · exact ih (fun e he => h e (by simp [he])) x hx
    · rw [if_neg hc] at h
      cases hs : splitOn sep cs with
      | nil => exact absurd hs (splitOn_ne_nil sep cs)
      | cons h' t' =>
        rw [hs] at h
        have hc' : P c := h (c :: h') (by simp) c (by simp)
        have : ∀ e ∈ splitOn sep cs, ∀ c ∈ e, P c := by
          rw [hs]; intro e he x hx
          simp only [List.mem_cons] at he
          rcases he with rfl | he
          · exact h (c :: e) (by simp) x (by simp [hx])
          · exact h e (by simp [he]) x hx
        intro x hx
        simp only [List.mem_cons] at hx
        rcases hx with rfl | hx
        · exact hc'
        · exact ih this x hx

end Rustbus.Names
