import RustbusModel.Lemmas.Wire
/-!
C04 lemmas, part 3: the decoder only looks at the bytes below its limit (two buffers that agree there give
the same answer), and the element loops need no more fuel than there are bytes left.
-/
namespace Rustbus.Wire
open Rustbus Rustbus.Bytes

/-! ### reads are confined to `[0, lim)` -/

theorem agree_len {buf buf' : List UInt8} {lim : Nat} (h : buf.take lim = buf'.take lim) :
    lim ≤ buf.length ↔ lim ≤ buf'.length := by
  have := congrArg List.length h
  simp only [List.length_take] at this
  omega

theorem agree_mono {buf buf' : List UInt8} {lim l : Nat} (h : buf.take lim = buf'.take lim) (hl : l ≤ lim) :
    buf.take l = buf'.take l := by
  have := congrArg (List.take l) h
  simpa [List.take_take, Nat.min_eq_left hl] using this

theorem slice_take (buf : List UInt8) (lim off k : Nat) (h : off + k ≤ lim) :
    slice (buf.take lim) off k = slice buf off k := by
  simp only [slice, List.drop_take, List.take_take]
  congr 1; omega

theorem agree_slice {buf buf' : List UInt8} {lim : Nat} (h : buf.take lim = buf'.take lim) (off k : Nat)
    (hk : off + k ≤ lim) : slice buf off k = slice buf' off k := by
  rw [← slice_take buf lim off k hk, h, slice_take buf' lim off k hk]

theorem skipPad_agree {buf buf' : List UInt8} {lim : Nat} (h : buf.take lim = buf'.take lim) (off a : Nat) :
    skipPad buf off lim a = skipPad buf' off lim a := by
  unfold skipPad
  by_cases hc : off + padLen a off ≤ lim
  · rw [agree_slice h off _ hc]
    simp only [agree_len h]
  · simp [hc]

theorem readNum_agree {buf buf' : List UInt8} {lim : Nat} (h : buf.take lim = buf'.take lim) (bo : ByteOrder)
    (off k : Nat) : readNum bo buf off lim k = readNum bo buf' off lim k := by
  unfold readNum
  by_cases hc : off + k ≤ lim
  · rw [agree_slice h off _ hc]
    simp only [agree_len h]
  · simp [hc]

theorem decBase_agree {buf buf' : List UInt8} {lim : Nat} (h : buf.take lim = buf'.take lim) (bo : ByteOrder)
    (nfds : Option Nat) (b : Base) (off : Nat) :
    decBase bo buf nfds b off lim = decBase bo buf' nfds b off lim := by
  unfold decBase
  cases b.fixedSize with
  | some k =>
    simp only []
    rw [skipPad_agree h]
    cases skipPad buf' off lim b.align with
    | none => rfl
    | some o => simp only []; rw [readNum_agree h]
  | none =>
    simp only []
    split
    · rw [readNum_agree h]
      cases readNum bo buf' off lim 1 with
      | none => rfl
      | some len =>
        simp only []
        split
        · rw [agree_slice h (off + 1) len (by omega), agree_slice h (off + 1 + len) 1 (by omega)]
        · rfl
    · rw [skipPad_agree h]
      cases skipPad buf' off lim 4 with
      | none => rfl
      | some o =>
        simp only []
        rw [readNum_agree h]
        cases readNum bo buf' o lim 4 with
        | none => rfl
        | some len =>
          simp only []
          split
          · rw [agree_slice h (o + 4) len (by omega), agree_slice h (o + 4 + len) 1 (by omega)]
          · rfl


/-- at budget `d`, buffers that agree below `lim` are decoded alike -/
def Win (bo : ByteOrder) (nfds : Option Nat) (d : Nat) : Prop :=
  ∀ (buf buf' : List UInt8) (t : Ty) (off lim : Nat), buf.take lim = buf'.take lim →
    dec bo buf nfds d t off lim = dec bo buf' nfds d t off lim

variable {bo : ByteOrder} {nfds : Option Nat} {d : Nat}

theorem decList_agree (hS : Win bo nfds d) {buf buf' : List UInt8} {lim : Nat}
    (h : buf.take lim = buf'.take lim) (e : Ty) (fuel off : Nat) :
    decList bo buf nfds d e off lim fuel = decList bo buf' nfds d e off lim fuel := by
  induction fuel generalizing off with
  | zero => rw [decList_zero, decList_zero]
  | succ fuel ih =>
    rw [decList_succ, decList_succ, hS buf buf' e off lim h]
    split
    · rfl
    · cases dec bo buf' nfds d e off lim with
      | none => rfl
      | some p => obtain ⟨v, o'⟩ := p; simp only []; rw [ih]

theorem decEntries_agree (hS : Win bo nfds d) {buf buf' : List UInt8} {lim : Nat}
    (h : buf.take lim = buf'.take lim) (k : Base) (vt : Ty) (fuel off : Nat) :
    decEntries bo buf nfds d k vt off lim fuel = decEntries bo buf' nfds d k vt off lim fuel := by
  induction fuel generalizing off with
  | zero => rw [decEntries_zero, decEntries_zero]
  | succ fuel ih =>
    rw [decEntries_succ, decEntries_succ, skipPad_agree h]
    split
    · rfl
    · cases skipPad buf' off lim 8 with
      | none => rfl
      | some o =>
        simp only []
        rw [decBase_agree h]
        cases decBase bo buf' nfds k o lim with
        | none => rfl
        | some p =>
          obtain ⟨kv, o1⟩ := p
          simp only []
          rw [hS buf buf' vt o1 lim h]
          cases dec bo buf' nfds d vt o1 lim with
          | none => rfl
          | some q => obtain ⟨vv, o2⟩ := q; simp only []; rw [ih]

theorem decFields_agree (hS : Win bo nfds d) {buf buf' : List UInt8} {lim : Nat}
    (h : buf.take lim = buf'.take lim) (ts : List Ty) (off : Nat) :
    decFields bo buf nfds d ts off lim = decFields bo buf' nfds d ts off lim := by
  induction ts generalizing off with
  | nil => rw [decFields_nil, decFields_nil]
  | cons t ts ih =>
    rw [decFields_cons, decFields_cons, hS buf buf' t off lim h]
    cases dec bo buf' nfds d t off lim with
    | none => rfl
    | some p => obtain ⟨v, o'⟩ := p; simp only []; rw [ih]

theorem win_all (bo : ByteOrder) (nfds : Option Nat) (d : Nat) : Win bo nfds d := by
  induction d using Nat.strongRecOn with
  | _ d ih =>
    intro buf buf' t off lim h
    match t, d with
    | .base b, d => rw [dec_base, dec_base]; exact decBase_agree h bo nfds b off
    | .array e, 0 | .dict _ _, 0 | .struct _, 0 | .variant, 0 =>
      rw [dec_zero _ _ _ _ _ _ (by intro b; simp), dec_zero _ _ _ _ _ _ (by intro b; simp)]
    | .dict _ _, 1 => rw [dec_dict_one, dec_dict_one]
    | .array e, d + 1 =>
      rw [dec_array, dec_array, skipPad_agree h]
      cases skipPad buf' off lim 4 with
      | none => rfl
      | some o =>
        simp only []
        rw [readNum_agree h]
        cases readNum bo buf' o lim 4 with
        | none => rfl
        | some len =>
          simp only []
          split
          · rw [skipPad_agree h]
            cases skipPad buf' (o + 4) lim e.align with
            | none => rfl
            | some o2 =>
              simp only []
              split
              · rename_i hl
                rw [decList_agree (ih d (by omega)) (agree_mono h hl)]
              · rfl
          · rfl
    | .dict k vt, d + 2 =>
      rw [dec_dict, dec_dict, skipPad_agree h]
      cases skipPad buf' off lim 4 with
      | none => rfl
      | some o =>
        simp only []
        rw [readNum_agree h]
        cases readNum bo buf' o lim 4 with
        | none => rfl
        | some len =>
          simp only []
          split
          · rw [skipPad_agree h]
            cases skipPad buf' (o + 4) lim 8 with
            | none => rfl
            | some o2 =>
              simp only []
              split
              · rename_i hl
                rw [decEntries_agree (ih d (by omega)) (agree_mono h hl)]
              · rfl
          · rfl
    | .struct fs, d + 1 =>
      rw [dec_struct, dec_struct, skipPad_agree h]
      split
      · rfl
      · cases skipPad buf' off lim 8 with
        | none => rfl
        | some o => simp only []; rw [decFields_agree (ih d (by omega)) h]
    | .variant, d + 1 =>
      rw [dec_variant, dec_variant, readNum_agree h]
      cases readNum bo buf' off lim 1 with
      | none => rfl
      | some len =>
        simp only []
        split
        · rw [agree_slice h (off + 1) len (by omega), agree_slice h (off + 1 + len) 1 (by omega)]
          split
          · generalize Sig.parseDescription (latin1 (slice buf' (off + 1) len)) = p
            match p with
            | some [t] => simp only []; rw [ih d (by omega) buf buf' t (off + len + 2) lim h]
            | none => rfl
            | some [] => rfl
            | some (_ :: _ :: _) => rfl
          · rfl
        · rfl

/-! ### the loops need no more fuel than bytes are left -/

theorem dec_none_of_lt (bo : ByteOrder) (buf : List UInt8) (nfds : Option Nat) (d : Nat) (t : Ty) (off lim : Nat)
    (h : lim ≤ off) : dec bo buf nfds d t off lim = none := by
  cases hd : dec bo buf nfds d t off lim with
  | none => rfl
  | some p =>
    obtain ⟨v, o'⟩ := p
    have := enc_dec bo buf nfds d t off lim v o' hd
    omega

theorem decList_fuel (bo : ByteOrder) (buf : List UInt8) (nfds : Option Nat) (d : Nat) (e : Ty) (lim : Nat)
    (f1 f2 off : Nat) (h1 : lim - off ≤ f1) (h2 : lim - off ≤ f2) :
    decList bo buf nfds d e off lim f1 = decList bo buf nfds d e off lim f2 := by
  induction f1 generalizing f2 off with
  | zero =>
    cases f2 with
    | zero => rfl
    | succ f2 =>
      rw [decList_zero, decList_succ]
      split
      · rfl
      · rw [dec_none_of_lt _ _ _ _ _ _ _ (by omega)]
  | succ f1 ih =>
    cases f2 with
    | zero =>
      rw [decList_zero, decList_succ]
      split
      · rfl
      · rw [dec_none_of_lt _ _ _ _ _ _ _ (by omega)]
    | succ f2 =>
      rw [decList_succ, decList_succ]
      split
      · rfl
      · cases hd : dec bo buf nfds d e off lim with
        | none => rfl
        | some p =>
          obtain ⟨v, o'⟩ := p
          have := enc_dec bo buf nfds d e off lim v o' hd
          simp only []
          rw [ih f2 o' (by omega) (by omega)]

theorem decEntries_fuel (bo : ByteOrder) (buf : List UInt8) (nfds : Option Nat) (d : Nat) (k : Base) (vt : Ty)
    (lim : Nat) (f1 f2 off : Nat) (h1 : lim - off ≤ f1) (h2 : lim - off ≤ f2) :
    decEntries bo buf nfds d k vt off lim f1 = decEntries bo buf nfds d k vt off lim f2 := by
  induction f1 generalizing f2 off with
  | zero =>
    cases f2 with
    | zero => rfl
    | succ f2 =>
      rw [decEntries_zero, decEntries_succ]
      split
      · rfl
      · rename_i hne
        cases hs : skipPad buf off lim 8 with
        | none => rfl
        | some o =>
          simp only []
          obtain ⟨ho, ho2, _, _⟩ := skipPad_sound _ _ _ _ _ hs
          cases hk : decBase bo buf nfds k o lim with
          | none => rfl
          | some p =>
            obtain ⟨kv, o1⟩ := p
            have := encBase_decBase bo buf nfds k o lim kv o1 hk
            omega
  | succ f1 ih =>
    cases f2 with
    | zero =>
      rw [decEntries_zero, decEntries_succ]
      split
      · rfl
      · rename_i hne
        cases hs : skipPad buf off lim 8 with
        | none => rfl
        | some o =>
          simp only []
          obtain ⟨ho, ho2, _, _⟩ := skipPad_sound _ _ _ _ _ hs
          cases hk : decBase bo buf nfds k o lim with
          | none => rfl
          | some p =>
            obtain ⟨kv, o1⟩ := p
            have := encBase_decBase bo buf nfds k o lim kv o1 hk
            omega
    | succ f2 =>
      rw [decEntries_succ, decEntries_succ]
      split
      · rfl
      · cases hs : skipPad buf off lim 8 with
        | none => rfl
        | some o =>
          simp only []
          obtain ⟨ho, ho2, _, _⟩ := skipPad_sound _ _ _ _ _ hs
          cases hk : decBase bo buf nfds k o lim with
          | none => rfl
          | some p =>
            obtain ⟨kv, o1⟩ := p
            have hk' := encBase_decBase bo buf nfds k o lim kv o1 hk
            simp only []
            cases hd : dec bo buf nfds d vt o1 lim with
            | none => rfl
            | some q =>
              obtain ⟨vv, o2⟩ := q
              have := enc_dec bo buf nfds d vt o1 lim vv o2 hd
              simp only []
              rw [ih f2 o2 (by omega) (by omega)]

end Rustbus.Wire
