import RustbusModel.Lemmas.WireDecEnc
/-!
Wire proofs, part 3: soundness (`sound_all`: whatever the decoder accepts is the encoding of what it
returns, with progress, bounds, nesting depth and descriptor bound), by strong induction on the budget.
-/
namespace Rustbus.Wire
open Rustbus Rustbus.Bytes Rustbus.Spec.Wire

/-- the soundness statement at nesting budget `d` -/
def Sound (bo : ByteOrder) (buf : List UInt8) (nfds : Option Nat) (d : Nat) : Prop :=
  ∀ (t : Ty) (off lim : Nat) (v : Val) (o' : Nat), dec bo buf nfds d t off lim = some (v, o') →
    off < o' ∧ o' ≤ lim ∧ lim ≤ buf.length ∧ enc bo off t v = some (slice buf off (o' - off)) ∧
    depthOf t v ≤ d ∧ (∀ c, nfds = some c → fdsBelow c t v = true)

theorem decList_sound (bo : ByteOrder) (buf : List UInt8) (nfds : Option Nat) (d : Nat)
    (hS : Sound bo buf nfds d) (e : Ty) (fuel off lim : Nat) (vs : List Val)
    (h : decList bo buf nfds d e off lim fuel = some vs) (hb : lim ≤ buf.length) :
    off ≤ lim ∧ encList bo off e vs = some (slice buf off (lim - off)) ∧ depthOfList e vs ≤ d ∧
    (∀ c, nfds = some c → fdsBelowList c e vs = true) := by
  induction fuel generalizing off vs with
  | zero =>
    rw [decList_zero] at h
    split at h
    · rename_i heq; simp only [Option.some.injEq] at h; subst h; subst heq
      simp [encList, slice_zero, depthOfList, fdsBelowList]
    · simp at h
  | succ fuel ih =>
    rw [decList_succ] at h
    split at h
    · rename_i heq; simp only [Option.some.injEq] at h; subst h; subst heq
      simp [encList, slice_zero, depthOfList, fdsBelowList]
    · split at h
      · simp at h
      · rename_i v o' hd
        split at h
        · simp at h
        · rename_i rest hr
          simp only [Option.some.injEq] at h; subst h
          obtain ⟨h1, h2, h3, h4, h5, h6⟩ := hS e off lim v o' hd
          obtain ⟨h7, h8, h9, h10⟩ := ih o' rest hr
          refine ⟨by omega, ?_, ?_, ?_⟩
          · simp only [encList, h4]
            have hl : (slice buf off (o' - off)).length = o' - off := slice_length _ _ _ (by omega)
            have e1 : off + (o' - off) = o' := by omega
            simp only [hl, e1, h8]
            have : lim - off = (o' - off) + (lim - o') := by omega
            rw [this, slice_add, e1]
          · simp only [depthOfList]; omega
          · intro c hc; simp only [fdsBelowList, h6 c hc, h10 c hc, Bool.and_self]

theorem decEntries_sound (bo : ByteOrder) (buf : List UInt8) (nfds : Option Nat) (d : Nat)
    (hS : Sound bo buf nfds d) (k : Base) (vt : Ty) (fuel off lim : Nat) (es : List Val)
    (h : decEntries bo buf nfds d k vt off lim fuel = some es) (hb : lim ≤ buf.length) :
    off ≤ lim ∧ encEntries bo off k vt es = some (slice buf off (lim - off)) ∧ depthOfEntries vt es ≤ d ∧
    (∀ c, nfds = some c → fdsBelowEntries c k vt es = true) := by
  induction fuel generalizing off es with
  | zero =>
    rw [decEntries_zero] at h
    split at h
    · rename_i heq; simp only [Option.some.injEq] at h; subst h; subst heq
      simp [encEntries, slice_zero, depthOfEntries, fdsBelowEntries]
    · simp at h
  | succ fuel ih =>
    rw [decEntries_succ] at h
    split at h
    · rename_i heq; simp only [Option.some.injEq] at h; subst h; subst heq
      simp [encEntries, slice_zero, depthOfEntries, fdsBelowEntries]
    · split at h
      · simp at h
      · rename_i o ho
        split at h
        · simp at h
        · rename_i kv o1 hk
          split at h
          · simp at h
          · rename_i vv o2 hv
            split at h
            · simp at h
            · rename_i rest hr
              simp only [Option.some.injEq] at h; subst h
              obtain ⟨rfl, _, _, hz⟩ := skipPad_sound _ _ _ _ _ ho
              obtain ⟨k1, k2, k3, k4, k6⟩ := encBase_decBase bo buf nfds k _ lim kv o1 hk
              obtain ⟨h1, h2, h3, h4, h5, h6⟩ := hS vt o1 lim vv o2 hv
              obtain ⟨h7, h8, h9, h10⟩ := ih o2 rest hr
              refine ⟨by omega, ?_, ?_, ?_⟩
              · simp only [encEntries, k4]
                have hl : (slice buf (off + padLen 8 off) (o1 - (off + padLen 8 off))).length =
                    o1 - (off + padLen 8 off) := slice_length _ _ _ (by omega)
                have e1 : off + padLen 8 off + (o1 - (off + padLen 8 off)) = o1 := by omega
                simp only [hl, e1, h4]
                have hl2 : (slice buf o1 (o2 - o1)).length = o2 - o1 := slice_length _ _ _ (by omega)
                have e2 : o1 + (o2 - o1) = o2 := by omega
                simp only [hl2, e2, h8]
                have : lim - off = padLen 8 off + ((o1 - (off + padLen 8 off)) + ((o2 - o1) + (lim - o2))) := by
                  omega
                rw [this, slice_add, slice_add, slice_add, hz, e1, e2]
              · simp only [depthOfEntries]; omega
              · intro c hc
                simp only [fdsBelowEntries, k6 c hc, h6 c hc, h10 c hc, Bool.and_self]

theorem decFields_sound (bo : ByteOrder) (buf : List UInt8) (nfds : Option Nat) (d : Nat)
    (hS : Sound bo buf nfds d) (ts : List Ty) (off lim : Nat) (vs : List Val) (o' : Nat)
    (h : decFields bo buf nfds d ts off lim = some (vs, o')) :
    off ≤ o' ∧ (ts ≠ [] → off < o' ∧ o' ≤ lim ∧ lim ≤ buf.length) ∧
    encFields bo off ts vs = some (slice buf off (o' - off)) ∧ depthOfFields ts vs ≤ d ∧
    (∀ c, nfds = some c → fdsBelowFields c ts vs = true) := by
  induction ts generalizing off vs o' with
  | nil =>
    rw [decFields_nil] at h
    simp only [Option.some.injEq, Prod.mk.injEq] at h
    obtain ⟨rfl, rfl⟩ := h
    simp [encFields, slice_zero, depthOfFields, fdsBelowFields]
  | cons t ts ih =>
    rw [decFields_cons] at h
    split at h
    · simp at h
    · rename_i v o1 hd
      split at h
      · simp at h
      · rename_i rest o2 hr
        simp only [Option.some.injEq, Prod.mk.injEq] at h
        obtain ⟨rfl, rfl⟩ := h
        obtain ⟨h1, h2, h3, h4, h5, h6⟩ := hS t off lim v o1 hd
        obtain ⟨h7, h8, h9, h10, h11⟩ := ih o1 rest o2 hr
        have hle : o2 ≤ lim := by
          cases ts with
          | nil =>
            rw [decFields_nil] at hr
            simp only [Option.some.injEq, Prod.mk.injEq] at hr
            omega
          | cons _ _ => exact (h8 (by simp)).2.1
        refine ⟨by omega, fun _ => ⟨by omega, hle, h3⟩, ?_, ?_, ?_⟩
        · simp only [encFields, h4]
          have hl : (slice buf off (o1 - off)).length = o1 - off := slice_length _ _ _ (by omega)
          have e1 : off + (o1 - off) = o1 := by omega
          simp only [hl, e1, h9]
          have : o2 - off = (o1 - off) + (o2 - o1) := by omega
          rw [this, slice_add, e1]
        · simp only [depthOfFields]; omega
        · intro c hc; simp only [fdsBelowFields, h6 c hc, h11 c hc, Bool.and_self]


theorem sound_array (bo : ByteOrder) (buf : List UInt8) (nfds : Option Nat) (d : Nat)
    (hS : Sound bo buf nfds d) (e : Ty) (off lim : Nat) (v : Val) (o' : Nat)
    (h : dec bo buf nfds (d + 1) (.array e) off lim = some (v, o')) :
    off < o' ∧ o' ≤ lim ∧ lim ≤ buf.length ∧ enc bo off (.array e) v = some (slice buf off (o' - off)) ∧
    depthOf (.array e) v ≤ d + 1 ∧ (∀ c, nfds = some c → fdsBelow c (.array e) v = true) := by
  rw [dec_array] at h
  split at h
  · simp at h
  · rename_i o ho
    split at h
    · simp at h
    · rename_i len hn
      split at h
      · rename_i hmax
        split at h
        · simp at h
        · rename_i o2 ho2
          split at h
          · rename_i hle
            split at h
            · simp at h
            · rename_i vs hvs
              simp only [Option.some.injEq, Prod.mk.injEq] at h
              obtain ⟨rfl, rfl⟩ := h
              obtain ⟨rfl, _, hb, hz⟩ := skipPad_sound _ _ _ _ _ ho
              obtain ⟨h1, h2, h3, h4⟩ := readNum_sound _ _ _ _ _ _ hn
              obtain ⟨rfl, _, _, hz2⟩ := skipPad_sound _ _ _ _ _ ho2
              obtain ⟨_, hbody, hdep, hfds⟩ := decList_sound bo buf nfds d hS e len _ _ vs hvs (by omega)
              refine ⟨by omega, by omega, hb, ?_, ?_, ?_⟩
              · simp only [enc]
                have hlen : (slice buf (off + padLen 4 off + 4 + padLen e.align (off + padLen 4 off + 4)) len).length
                    = len := slice_length _ _ _ (by omega)
                have e0 : off + padLen 4 off + 4 + padLen e.align (off + padLen 4 off + 4) + len
                    - (off + padLen 4 off + 4 + padLen e.align (off + padLen 4 off + 4)) = len := by omega
                rw [e0] at hbody
                rw [hbody]
                simp only [hlen, if_pos hmax]
                have : off + padLen 4 off + 4 + padLen e.align (off + padLen 4 off + 4) + len - off
                    = padLen 4 off + (4 + (padLen e.align (off + padLen 4 off + 4) + len)) := by omega
                rw [this, slice_add, slice_add, slice_add, hz, h4, hz2]
              · simp only [depthOf]; omega
              · intro c hc; simp only [fdsBelow]; exact hfds c hc
          · simp at h
      · simp at h

theorem sound_dict (bo : ByteOrder) (buf : List UInt8) (nfds : Option Nat) (d : Nat)
    (hS : Sound bo buf nfds d) (k : Base) (vt : Ty) (off lim : Nat) (v : Val) (o' : Nat)
    (h : dec bo buf nfds (d + 2) (.dict k vt) off lim = some (v, o')) :
    off < o' ∧ o' ≤ lim ∧ lim ≤ buf.length ∧ enc bo off (.dict k vt) v = some (slice buf off (o' - off)) ∧
    depthOf (.dict k vt) v ≤ d + 2 ∧ (∀ c, nfds = some c → fdsBelow c (.dict k vt) v = true) := by
  rw [dec_dict] at h
  split at h
  · simp at h
  · rename_i o ho
    split at h
    · simp at h
    · rename_i len hn
      split at h
      · rename_i hmax
        split at h
        · simp at h
        · rename_i o2 ho2
          split at h
          · rename_i hle
            split at h
            · simp at h
            · rename_i es hes
              simp only [Option.some.injEq, Prod.mk.injEq] at h
              obtain ⟨rfl, rfl⟩ := h
              obtain ⟨rfl, _, hb, hz⟩ := skipPad_sound _ _ _ _ _ ho
              obtain ⟨h1, h2, h3, h4⟩ := readNum_sound _ _ _ _ _ _ hn
              obtain ⟨rfl, _, _, hz2⟩ := skipPad_sound _ _ _ _ _ ho2
              obtain ⟨_, hbody, hdep, hfds⟩ := decEntries_sound bo buf nfds d hS k vt len _ _ es hes (by omega)
              refine ⟨by omega, by omega, hb, ?_, ?_, ?_⟩
              · simp only [enc]
                have hlen : (slice buf (off + padLen 4 off + 4 + padLen 8 (off + padLen 4 off + 4)) len).length
                    = len := slice_length _ _ _ (by omega)
                have e0 : off + padLen 4 off + 4 + padLen 8 (off + padLen 4 off + 4) + len
                    - (off + padLen 4 off + 4 + padLen 8 (off + padLen 4 off + 4)) = len := by omega
                rw [e0] at hbody
                rw [hbody]
                simp only [hlen, if_pos hmax]
                have : off + padLen 4 off + 4 + padLen 8 (off + padLen 4 off + 4) + len - off
                    = padLen 4 off + (4 + (padLen 8 (off + padLen 4 off + 4) + len)) := by omega
                rw [this, slice_add, slice_add, slice_add, hz, h4, hz2]
              · simp only [depthOf]; omega
              · intro c hc; simp only [fdsBelow]; exact hfds c hc
          · simp at h
      · simp at h

theorem sound_struct (bo : ByteOrder) (buf : List UInt8) (nfds : Option Nat) (d : Nat)
    (hS : Sound bo buf nfds d) (fs : List Ty) (off lim : Nat) (v : Val) (o' : Nat)
    (h : dec bo buf nfds (d + 1) (.struct fs) off lim = some (v, o')) :
    off < o' ∧ o' ≤ lim ∧ lim ≤ buf.length ∧ enc bo off (.struct fs) v = some (slice buf off (o' - off)) ∧
    depthOf (.struct fs) v ≤ d + 1 ∧ (∀ c, nfds = some c → fdsBelow c (.struct fs) v = true) := by
  rw [dec_struct] at h
  split at h
  · simp at h
  · rename_i hne
    split at h
    · simp at h
    · rename_i o ho
      split at h
      · simp at h
      · rename_i vs o'' hf
        simp only [Option.some.injEq, Prod.mk.injEq] at h
        obtain ⟨rfl, rfl⟩ := h
        obtain ⟨rfl, _, hb, hz⟩ := skipPad_sound _ _ _ _ _ ho
        obtain ⟨h1, h2, h4, h5, h6⟩ := decFields_sound bo buf nfds d hS fs _ lim vs o'' hf
        have hne' : fs ≠ [] := by intro h0; subst h0; simp at hne
        obtain ⟨h21, h22, h23⟩ := h2 hne'
        refine ⟨by omega, h22, hb, ?_, ?_, ?_⟩
        · simp only [enc, hne, h4]
          have : o'' - off = padLen 8 off + (o'' - (off + padLen 8 off)) := by omega
          rw [this, slice_add, hz]
          simp
        · simp only [depthOf]; omega
        · intro c hc; simp only [fdsBelow]; exact h6 c hc

theorem sound_variant (bo : ByteOrder) (buf : List UInt8) (nfds : Option Nat) (d : Nat)
    (hS : Sound bo buf nfds d) (off lim : Nat) (v : Val) (o' : Nat)
    (h : dec bo buf nfds (d + 1) .variant off lim = some (v, o')) :
    off < o' ∧ o' ≤ lim ∧ lim ≤ buf.length ∧ enc bo off .variant v = some (slice buf off (o' - off)) ∧
    depthOf .variant v ≤ d + 1 ∧ (∀ c, nfds = some c → fdsBelow c .variant v = true) := by
  rw [dec_variant] at h
  split at h
  · simp at h
  · rename_i len hn
    split at h
    · rename_i hle
      split at h
      · rename_i hterm
        split at h
        · rename_i t hparse
          split at h
          · simp at h
          · rename_i w o'' hd
            simp only [Option.some.injEq, Prod.mk.injEq] at h
            obtain ⟨rfl, rfl⟩ := h
            obtain ⟨h1, h2, h3, h4⟩ := readNum_sound _ _ _ _ _ _ hn
            obtain ⟨hsg, hok⟩ := parse_sound _ t hparse
            obtain ⟨s1, s2, s3, s4, s5, s6⟩ := hS t _ lim w o'' hd
            have hsl : (slice buf (off + 1) len).length = len := slice_length _ _ _ (by omega)
            have hsl' : (sigBytes t).length = len := by rw [← hsg]; exact hsl
            refine ⟨by omega, s2, s3, ?_, ?_, ?_⟩
            · simp only [enc, hok, if_true, hsl', s4]
              have : o'' - off = 1 + (len + (1 + (o'' - (off + len + 2)))) := by omega
              rw [this, slice_add, slice_add, slice_add, ← h4, ← hsg, hterm, bytesOf_one bo len (by omega)]
              have e1 : off + 1 + len + 1 = off + len + 2 := by omega
              rw [e1]
              rfl
            · simp only [depthOf]; omega
            · intro c hc; simp only [fdsBelow]; exact s6 c hc
        · simp at h
      · simp at h
    · simp at h

theorem sound_all (bo : ByteOrder) (buf : List UInt8) (nfds : Option Nat) (d : Nat) : Sound bo buf nfds d := by
  induction d using Nat.strongRecOn with
  | _ d ih =>
    intro t off lim v o' h
    match t, d with
    | .base b, d =>
      rw [dec_base] at h
      obtain ⟨h1, h2, h3, h4, h5⟩ := encBase_decBase bo buf nfds b off lim v o' h
      exact ⟨h1, h2, h3, by simp only [enc]; exact h4, by simp only [depthOf]; omega, h5⟩
    | .array e, 0 | .dict _ _, 0 | .struct _, 0 | .variant, 0 =>
      rw [dec_zero _ _ _ _ _ _ (by intro b; simp)] at h; simp at h
    | .dict _ _, 1 => rw [dec_dict_one] at h; simp at h
    | .array e, d + 1 => exact sound_array bo buf nfds d (ih d (by omega)) e off lim v o' h
    | .dict k vt, d + 2 => exact sound_dict bo buf nfds d (ih d (by omega)) k vt off lim v o' h
    | .struct fs, d + 1 => exact sound_struct bo buf nfds d (ih d (by omega)) fs off lim v o' h
    | .variant, d + 1 => exact sound_variant bo buf nfds d (ih d (by omega)) off lim v o' h

end Rustbus.Wire
