import RustbusModel.Lemmas.SigPrint
/-!
`validateNext` / `validateStruct` / `validateLoop` against the printed form.
-/
namespace Rustbus.Sig
open Rustbus Rustbus.Spec.Sig Ty

/-! ### Unfolding lemmas -/

theorem validateNext_nil (f : Nat) (prev : Option Char) (ad bd : Nat) :
    validateNext f prev [] ad bd = none := by
  cases f with
  | zero => simp [validateNext]
  | succ f => simp [validateNext]

theorem vn_plain (f : Nat) (prev : Option Char) (c : Char) (rest : List Char) {ad bd : Nat}
    (hbd : bd ≤ 32) (had : ad ≤ 32) (hc : ((Base.ofChar c).isSome || decide (c = 'v')) = true) :
    validateNext (f + 1) prev (c :: rest) ad bd = some 1 := by
  have h1 : ¬ bd > 32 := by omega
  have h2 : ¬ ad > 32 := by omega
  rw [validateNext.eq_def]
  simp only [h1, h2, if_false, hc, if_true]

theorem vn_arr (f : Nat) (prev : Option Char) (rest : List Char) {ad bd : Nat}
    (hbd : bd ≤ 32) (had : ad ≤ 32) :
    validateNext (f + 1) prev ('a' :: rest) ad bd =
      match validateNext f (some 'a') rest (ad + 1) bd with
      | some n => some (n + 1)
      | none => none := by
  have h1 : ¬ bd > 32 := by omega
  have h2 : ¬ ad > 32 := by omega
  rw [validateNext.eq_def]
  simp [h1, h2, ofChar_paren]
  rfl

theorem vn_open (f : Nat) (prev : Option Char) (rest : List Char) {ad bd : Nat}
    (hbd : bd ≤ 32) (had : ad ≤ 32) :
    validateNext (f + 1) prev ('(' :: rest) ad bd = validateStruct f ('(' :: rest) 1 ad bd := by
  have h1 : ¬ bd > 32 := by omega
  have h2 : ¬ ad > 32 := by omega
  rw [validateNext.eq_def]
  simp [h1, h2, ofChar_paren]

theorem vn_entry (f : Nat) (k : Base) (rest2 : List Char) {ad bd : Nat}
    (hbd : bd ≤ 32) (had : ad ≤ 32) :
    validateNext (f + 1) (some 'a') ('{' :: k.char :: rest2) ad bd =
      match validateNext f (some k.char) rest2 ad bd with
      | some vlen =>
        match rest2.drop vlen with
        | '}' :: _ => some (vlen + 3)
        | _ => none
      | none => none := by
  have h1 : ¬ bd > 32 := by omega
  have h2 : ¬ ad > 32 := by omega
  rw [validateNext.eq_def]
  cases rest2 with
  | nil => simp [h1, h2, ofChar_paren, validateNext_nil]
  | cons x xs =>
    simp [h1, h2, ofChar_paren, ofChar_char]
    cases validateNext f (some k.char) (x :: xs) ad bd with
    | none => rfl
    | some vlen =>
      simp only []
      have : 1 + vlen = vlen + 1 := by omega
      rw [this, List.drop_succ_cons]
      have : vlen + 1 + 2 = vlen + 3 := by omega
      rw [this]
      rfl

theorem vs_close {f : Nat} {s : List Char} {counter : Nat} {tl : List Char} (ad bd : Nat)
    (h : s.drop counter = ')' :: tl) :
    validateStruct (f + 1) s counter ad bd = if counter = 1 then none else some (counter + 1) := by
  rw [validateStruct]; simp [h]

theorem vs_step {f : Nat} {s : List Char} {counter : Nat} {c : Char} {tl : List Char} (ad bd : Nat)
    (h : s.drop counter = c :: tl) (hc : c ≠ ')') :
    validateStruct (f + 1) s counter ad bd =
      match validateNext f ((s.drop (counter - 1)).head?) (c :: tl) ad (bd + 1) with
      | some n => validateStruct f s (counter + n) ad bd
      | none => none := by
  rw [validateStruct]; simp [h, hc]; rfl

/-! ### Completeness: a printed well-formed type within the depth limits is accepted -/

theorem exists_succ' {n fuel : Nat} (h : n < fuel) : ∃ f, fuel = f + 1 := ⟨fuel - 1, by omega⟩

mutual
theorem vn_complete : (t : Ty) → t.wf = true → ∀ (fuel : Nat) (prev : Option Char) (rest : List Char)
    (ad bd : Nat), (toStr t).length < fuel → bd + structDepth t ≤ 32 → ad + arrayDepth t ≤ 32 →
    validateNext fuel prev (toStr t ++ rest) ad bd = some (toStr t).length
  | .base b, _, fuel, prev, rest, ad, bd, hf, hb, ha => by
    obtain ⟨f, rfl⟩ := exists_succ' hf
    simp only [toStr, List.cons_append, List.nil_append, List.length_cons, List.length_nil]
    exact vn_plain f prev _ rest (by omega) (by omega) (by simp [ofChar_char])
  | .variant, _, fuel, prev, rest, ad, bd, hf, hb, ha => by
    obtain ⟨f, rfl⟩ := exists_succ' hf
    simp only [toStr, List.cons_append, List.nil_append, List.length_cons, List.length_nil]
    exact vn_plain f prev _ rest (by omega) (by omega) (by decide)
  | .array e, hw, fuel, prev, rest, ad, bd, hf, hb, ha => by
    obtain ⟨f, rfl⟩ := exists_succ' hf
    simp only [structDepth, arrayDepth] at hb ha
    simp only [toStr, List.cons_append, List.length_cons] at hf ⊢
    have ih := vn_complete e (by simpa [wf] using hw) f (some 'a') rest (ad + 1) bd (by omega)
      hb (by omega)
    rw [vn_arr f prev _ (by omega) (by omega), ih]
  | .dict k v, hw, fuel, prev, rest, ad, bd, hf, hb, ha => by
    obtain ⟨f, rfl⟩ := exists_succ' hf
    simp only [structDepth, arrayDepth] at hb ha
    simp only [toStr, List.cons_append, List.append_assoc, List.nil_append, List.length_cons,
      List.length_append, List.length_nil] at hf ⊢
    obtain ⟨f, rfl⟩ := exists_succ' (n := 0) (fuel := f) (by omega)
    have ih := vn_complete v (by simpa [wf] using hw) f (some k.char) ('}' :: rest) (ad + 1) bd
      (by omega) hb (by omega)
    rw [vn_arr (f + 1) prev _ (by omega) (by omega), vn_entry f k _ (by omega) (by omega), ih]
    simp
  | .struct fs, hw, fuel, prev, rest, ad, bd, hf, hb, ha => by
    obtain ⟨f, rfl⟩ := exists_succ' hf
    simp only [structDepth, arrayDepth] at hb ha
    have hne := wf_struct_ne_nil hw
    simp only [toStr, List.cons_append, List.append_assoc, List.nil_append, List.length_cons,
      List.length_append, List.length_nil] at hf ⊢
    have ih := vs_complete fs (by simp [wf] at hw; exact hw.2) f
      ('(' :: (listToStr fs ++ ')' :: rest)) 1 rest ad bd (by omega) (by omega) rfl
      ⟨'(', _, rfl, by decide⟩ (by omega) ha (fun _ => hne)
    rw [vn_open f prev _ (by omega) (by omega), ih]
    congr 1; omega
theorem vs_complete : (ts : List Ty) → wfList ts = true → ∀ (fuel : Nat) (s : List Char)
    (counter : Nat) (rest : List Char) (ad bd : Nat), (listToStr ts).length + 1 < fuel →
    0 < counter → s.drop counter = listToStr ts ++ ')' :: rest →
    (∃ c tl, s.drop (counter - 1) = c :: tl ∧ c ≠ 'a') →
    bd + 1 + structDepthList ts ≤ 32 → ad + arrayDepthList ts ≤ 32 → (counter = 1 → ts ≠ []) →
    validateStruct fuel s counter ad bd = some (counter + (listToStr ts).length + 1)
  | [], _, fuel, s, counter, rest, ad, bd, hf, hc, hs, hp, hb, ha, h1 => by
    obtain ⟨f, rfl⟩ := exists_succ' hf
    simp only [listToStr, List.nil_append, List.length_nil] at hs ⊢
    rw [vs_close ad bd hs, if_neg (fun h => h1 h rfl)]
  | t :: ts, hw, fuel, s, counter, rest, ad, bd, hf, hc, hs, hp, hb, ha, h1 => by
    obtain ⟨f, rfl⟩ := exists_succ' hf
    have hw' : t.wf = true ∧ wfList ts = true := by simpa [wfList] using hw
    simp only [structDepthList, arrayDepthList] at hb ha
    simp only [listToStr, List.append_assoc, List.length_append] at hf hs ⊢
    have hpos := toStr_length_pos t
    obtain ⟨c, tl, hct, hst⟩ := toStr_start t
    have hcne : c ≠ ')' := (isStart_facts hst).2.2.1
    have h1 := vn_complete t hw'.1 f ((s.drop (counter - 1)).head?) (listToStr ts ++ ')' :: rest) ad
      (bd + 1) (by omega) (by omega) (by omega)
    have h2 := vs_complete ts hw'.2 f s (counter + (toStr t).length) rest ad bd (by omega) (by omega)
      (drop_add_of_append hs) (drop_last_of_append hs) (by omega) (by omega) (by omega)
    rw [hct, List.cons_append] at hs h1
    rw [vs_step ad bd hs hcne, h1]
    simp only []
    rw [← hct, h2]
    congr 1; omega
end

/-! ### Soundness: whatever is accepted is a printed well-formed type within the depth limits -/

theorem vn_depth {f : Nat} {prev : Option Char} {s : List Char} {ad bd n : Nat}
    (h : validateNext f prev s ad bd = some n) : bd ≤ 32 ∧ ad ≤ 32 := by
  cases f with
  | zero => simp [validateNext] at h
  | succ f =>
    rw [validateNext.eq_def] at h
    by_cases h1 : bd > 32
    · simp [h1] at h
    by_cases h2 : ad > 32
    · simp [h2] at h
    omega

theorem vn_other (f : Nat) (prev : Option Char) (c : Char) (rest : List Char) (ad bd : Nat)
    (hp : ((Base.ofChar c).isSome || decide (c = 'v')) = false) (h1 : c ≠ 'a') (h2 : c ≠ '{')
    (h3 : c ≠ '(') : validateNext (f + 1) prev (c :: rest) ad bd = none := by
  rw [validateNext.eq_def]
  simp [hp, h1, h2, h3]

theorem vn_brace {f : Nat} {prev : Option Char} {rest : List Char} {ad bd n : Nat}
    (h : validateNext (f + 1) prev ('{' :: rest) ad bd = some n) :
    prev = some 'a' ∧ ∃ (k : Base) (rest2 : List Char) (vlen : Nat) (tl : List Char),
      rest = k.char :: rest2 ∧ validateNext f (some k.char) rest2 ad bd = some vlen ∧
      rest2.drop vlen = '}' :: tl ∧ n = vlen + 3 := by
  obtain ⟨hbd, had⟩ := vn_depth h
  by_cases hprev : prev = some 'a'
  · subst hprev
    refine ⟨rfl, ?_⟩
    cases rest with
    | nil =>
      rw [validateNext.eq_def] at h
      simp [ofChar_paren] at h
    | cons k' rest2 =>
      cases hk : Base.ofChar k' with
      | none =>
        rw [validateNext.eq_def] at h
        simp [ofChar_paren, hk] at h
      | some k =>
        have := ofChar_eq_some hk
        subst this
        rw [vn_entry f k rest2 hbd had] at h
        cases hv : validateNext f (some k.char) rest2 ad bd with
        | none => simp [hv] at h
        | some vlen =>
          simp only [hv] at h
          match hd : rest2.drop vlen with
          | [] => simp [hd] at h
          | c :: tl =>
            by_cases hc : c = '}'
            · subst hc
              simp [hd] at h
              exact ⟨k, rest2, vlen, tl, rfl, hv, hd, h.symm⟩
            · rw [hd] at h
              simp [hc] at h
  · rw [validateNext.eq_def] at h
    simp [ofChar_paren, hprev] at h

def VSound (f : Nat) : Prop :=
  (∀ prev s ad bd n, validateNext f prev s ad bd = some n →
     (∃ t r, t.wf = true ∧ s = toStr t ++ r ∧ n = (toStr t).length ∧
        bd + structDepth t ≤ 32 ∧ ad + arrayDepth t ≤ 32) ∨
     (prev = some 'a' ∧ ∃ (k : Base) (v : Ty) (r : List Char), v.wf = true ∧
        s = '{' :: k.char :: (toStr v ++ '}' :: r) ∧ n = (toStr v).length + 3 ∧
        bd + structDepth v ≤ 32 ∧ ad + arrayDepth v ≤ 32)) ∧
  (∀ s counter ad bd n, validateStruct f s counter ad bd = some n → 0 < counter →
     (∃ c tl, s.drop (counter - 1) = c :: tl ∧ c ≠ 'a') →
     ∃ ts r, wfList ts = true ∧ s.drop counter = listToStr ts ++ ')' :: r ∧
       n = counter + (listToStr ts).length + 1 ∧ (counter = 1 → ts ≠ []) ∧
       (ts = [] ∨ (bd + 1 + structDepthList ts ≤ 32 ∧ ad + arrayDepthList ts ≤ 32)))

theorem vSound_zero : VSound 0 := by
  refine ⟨?_, ?_⟩
  · intro prev s ad bd n h; simp [validateNext] at h
  · intro s counter ad bd n h; simp [validateStruct] at h

theorem vSound_succ (f : Nat) (ih : VSound f) : VSound (f + 1) := by
  obtain ⟨ihN, ihS⟩ := ih
  refine ⟨?_, ?_⟩
  · intro prev s ad bd n h
    obtain ⟨hbd, had⟩ := vn_depth h
    match s with
    | [] => rw [validateNext_nil] at h; cases h
    | c :: rest =>
      by_cases hp : ((Base.ofChar c).isSome || decide (c = 'v')) = true
      · rw [vn_plain f prev c rest hbd had hp] at h
        cases h
        left
        simp only [Bool.or_eq_true, decide_eq_true_eq] at hp
        rcases hp with hp | rfl
        · obtain ⟨b, rfl⟩ := ofChar_isSome hp
          exact ⟨.base b, rest, rfl, by simp [toStr], by simp [toStr],
            by simp only [structDepth]; omega, by simp only [arrayDepth]; omega⟩
        · exact ⟨.variant, rest, rfl, by simp [toStr], by simp [toStr],
            by simp only [structDepth]; omega, by simp only [arrayDepth]; omega⟩
      by_cases h1 : c = 'a'
      · subst h1
        rw [vn_arr f prev rest hbd had] at h
        cases hv : validateNext f (some 'a') rest (ad + 1) bd with
        | none => simp [hv] at h
        | some m =>
          simp [hv] at h
          subst h
          left
          rcases ihN _ _ _ _ _ hv with ⟨t, r, hw, rfl, rfl, hb, ha⟩ | ⟨-, k, v, r, hw, rfl, rfl, hb, ha⟩
          · exact ⟨.array t, r, by simpa [wf] using hw, by simp [toStr], by simp [toStr],
              by simp only [structDepth]; omega, by simp only [arrayDepth]; omega⟩
          · exact ⟨.dict k v, r, by simpa [wf] using hw, by simp [toStr], by simp [toStr],
              by simp only [structDepth]; omega, by simp only [arrayDepth]; omega⟩
      by_cases h2 : c = '{'
      · subst h2
        obtain ⟨hprev, k, rest2, vlen, tl, rfl, hv, hd, rfl⟩ := vn_brace h
        right
        refine ⟨hprev, ?_⟩
        rcases ihN _ _ _ _ _ hv with ⟨t, r, hw, rfl, rfl, hb, ha⟩ | ⟨hk, -⟩
        · rw [List.drop_left] at hd
          subst hd
          exact ⟨k, t, tl, hw, rfl, rfl, hb, ha⟩
        · exact absurd (Option.some.inj hk) (base_char_facts k).2.2.1
      by_cases h3 : c = '('
      · subst h3
        rw [vn_open f prev rest hbd had] at h
        obtain ⟨ts, r, hw, hs, rfl, hne, hdep⟩ := ihS _ _ _ _ _ h (by omega) ⟨'(', rest, rfl, by decide⟩
        have hne' := hne rfl
        simp only [List.drop_succ_cons, List.drop_zero] at hs
        subst hs
        left
        refine ⟨.struct ts, r, by simp [wf, hw, hne'], by simp [toStr], by simp [toStr]; omega, ?_, ?_⟩
        · rcases hdep with h0 | h0
          · exact absurd h0 hne'
          · simp only [structDepth]; omega
        · rcases hdep with h0 | h0
          · exact absurd h0 hne'
          · simp only [arrayDepth]; omega
      · rw [vn_other f prev c rest ad bd (by simpa using hp) h1 h2 h3] at h
        cases h
  · intro s counter ad bd n h hc hprev
    match hd : s.drop counter with
    | [] => rw [validateStruct] at h; simp [hd] at h
    | c :: tl =>
      by_cases hcl : c = ')'
      · subst hcl
        rw [vs_close ad bd hd] at h
        by_cases h1 : counter = 1
        · simp [h1] at h
        · simp [h1] at h
          exact ⟨[], tl, rfl, by simp [listToStr], by simp [listToStr, h], fun h => absurd h h1,
            Or.inl rfl⟩
      · rw [vs_step ad bd hd hcl] at h
        obtain ⟨c0, tl0, hd0, hc0⟩ := hprev
        cases hv : validateNext f ((s.drop (counter - 1)).head?) (c :: tl) ad (bd + 1) with
        | none => rw [hv] at h; cases h
        | some m =>
          simp only [hv] at h
          rcases ihN _ _ _ _ _ hv with ⟨t, r, hw, hs, rfl, hb, ha⟩ | ⟨hk, -⟩
          · rw [hs] at hd
            have hpos := toStr_length_pos t
            obtain ⟨ts, r', hws, hs', rfl, -, hdep⟩ :=
              ihS _ _ _ _ _ h (by omega) (drop_last_of_append hd)
            rw [drop_add_of_append hd] at hs'
            subst hs'
            refine ⟨t :: ts, r', by simp [wfList, hw, hws],
              by simp only [listToStr, List.append_assoc]; exact hs,
              by simp only [listToStr, List.length_append]; omega, fun _ => by simp, Or.inr ?_⟩
            rcases hdep with rfl | h0
            · simp only [structDepthList, arrayDepthList]; omega
            · simp only [structDepthList, arrayDepthList]; omega
          · rw [hd0] at hk
            exact absurd (Option.some.inj hk) hc0

theorem vSound (f : Nat) : VSound f := by
  induction f with
  | zero => exact vSound_zero
  | succ f ih => exact vSound_succ f ih

/-! ### The outer loop and `validateSignature` -/

theorem validateLoop_succ {f : Nat} {prev : Option Char} {s : List Char} (hs : s ≠ []) :
    validateLoop (f + 1) prev s =
      match validateNext (2 * s.length + 2) prev s 0 0 with
      | some n => validateLoop f ((s.drop (n - 1)).head?) (s.drop n)
      | none => false := by
  cases s with
  | nil => exact absurd rfl hs
  | cons c tl => rfl

theorem validateLoop_complete : (ts : List Ty) → wfList ts = true →
    (∀ t ∈ ts, structDepth t ≤ 32 ∧ arrayDepth t ≤ 32) → ∀ (fuel : Nat) (prev : Option Char),
    (listToStr ts).length < fuel → validateLoop fuel prev (listToStr ts) = true
  | [], _, _, fuel, prev, hf => by
    obtain ⟨f, rfl⟩ := exists_succ' hf
    simp [validateLoop, listToStr]
  | t :: ts, hw, hd, fuel, prev, hf => by
    obtain ⟨f, rfl⟩ := exists_succ' hf
    have hw' : t.wf = true ∧ wfList ts = true := by simpa [wfList] using hw
    simp only [listToStr, List.length_append] at hf ⊢
    have hpos := toStr_length_pos t
    have hne : toStr t ++ listToStr ts ≠ [] := by
      intro h0; have := congrArg List.length h0
      simp only [List.length_append, List.length_nil] at this; omega
    have hdt := hd t (by simp)
    have h1 := vn_complete t hw'.1 (2 * (toStr t ++ listToStr ts).length + 2) prev (listToStr ts) 0 0
      (by simp only [List.length_append]; omega) (by omega) (by omega)
    have ih := validateLoop_complete ts hw'.2 (fun t' ht' => hd t' (by simp [ht'])) f
      (((toStr t ++ listToStr ts).drop ((toStr t).length - 1)).head?) (by omega)
    rw [validateLoop_succ hne, h1]
    simp only [List.drop_left]
    exact ih

theorem validateLoop_sound (fuel : Nat) : ∀ (prev : Option Char) (s : List Char),
    validateLoop fuel prev s = true → prev ≠ some 'a' →
    ∃ ts, s = listToStr ts ∧ wfList ts = true ∧ ∀ t ∈ ts, structDepth t ≤ 32 ∧ arrayDepth t ≤ 32 := by
  induction fuel with
  | zero => intro prev s h; simp [validateLoop] at h
  | succ f ih =>
    intro prev s h hprev
    by_cases hs : s = []
    · subst hs; exact ⟨[], rfl, rfl, by simp⟩
    rw [validateLoop_succ hs] at h
    cases hv : validateNext (2 * s.length + 2) prev s 0 0 with
    | none => rw [hv] at h; cases h
    | some n =>
      simp only [hv] at h
      rcases (vSound _).1 _ _ _ _ _ hv with ⟨t, r, hw, rfl, rfl, hb, ha⟩ | ⟨hk, -⟩
      · have hd : (toStr t ++ r).drop 0 = toStr t ++ r := rfl
        obtain ⟨c, tl, hlast, hc⟩ := drop_last_of_append hd
        rw [Nat.zero_add] at hlast
        rw [hlast, List.drop_left] at h
        obtain ⟨ts, rfl, hws, hdep⟩ := ih _ _ h (by simpa using hc)
        refine ⟨t :: ts, by simp [listToStr], by simp [wfList, hw, hws], ?_⟩
        intro t' ht'
        rcases List.mem_cons.mp ht' with rfl | ht'
        · exact ⟨by omega, by omega⟩
        · exact hdep t' ht'
      · exact absurd hk hprev

theorem validateSignature_iff' (s : List Char) : validateSignature s = true ↔ Valid s := by
  constructor
  · intro h
    unfold validateSignature at h
    by_cases hl : utf8Len s > 255
    · simp [hl] at h
    · rw [if_neg hl] at h
      obtain ⟨ts, rfl, hw, hd⟩ := validateLoop_sound _ _ _ h (by simp)
      have := length_le_utf8Len (listToStr ts)
      refine ⟨ts, by omega, rfl, ?_⟩
      intro t ht
      exact ⟨(wfList_iff _).mp hw t ht, (hd t ht).2, (hd t ht).1⟩
  · rintro ⟨ts, hl, rfl, hv⟩
    have hw : wfList ts = true := (wfList_iff _).mpr (fun t ht => (hv t ht).1)
    unfold validateSignature
    rw [utf8Len_listToStr, if_neg (by omega)]
    exact validateLoop_complete ts hw (fun t ht => ⟨(hv t ht).2.2, (hv t ht).2.1⟩) _ _ (by omega)

end Rustbus.Sig
