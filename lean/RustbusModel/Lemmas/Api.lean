import RustbusModel.Model.HasSig
import RustbusModel.Model.Enums
import RustbusModel.Lemmas.Wire
import RustbusModel.Lemmas.Sig
import RustbusModel.Lemmas.ApiHasSig
/-!
Lemmas for C16 / C04 / C15: `has_sig` is exact and total on valid signatures; generated enum decoders are
the variant decoder restricted to their cases. Statements fixed; helpers may be added above.
-/
namespace Rustbus.HasSig
open Rustbus

/-- `has_sig` of the type `t`, given the printed signature of ANY well-formed single type `t0`, never
    panics and answers exactly whether the two signatures are the same. -/
theorem hasSig_exact (t t0 : Ty) (ht : t.wf = true) (h0 : t0.wf = true) :
    hasSig t t0.toStr = some (decide (t.toStr = t0.toStr)) := by
  have _ := ht; have _ := h0
  exact hasSig_toStr t t0

/-- printing is injective on well-formed types -/
theorem toStr_injective (t t0 : Ty) (ht : t.wf = true) (h0 : t0.wf = true) (h : t.toStr = t0.toStr) :
    t = t0 := by
  have _ := ht; have _ := h0
  exact toStr_inj t t0 h

end Rustbus.HasSig

namespace Rustbus.Enums
open Rustbus Rustbus.Bytes Rustbus.Wire Rustbus.Spec.Wire

theorem readNum_one (bo : ByteOrder) (buf : List UInt8) (off lim : Nat) :
    readNum bo buf off lim 1 = readNum .le buf off lim 1 := by
  unfold readNum
  split
  · rename_i hc
    have hl := slice_length buf off 1 (by omega)
    match hs : slice buf off 1, hl with
    | [x], _ => cases bo <;> rfl
  · rfl

/-- the `.variant` arm of `dec` in terms of `readSig` -/
theorem dec_variant_iff (bo : ByteOrder) (buf : List UInt8) (nfds : Option Nat) (d off lim : Nat)
    (t : Ty) (v : Val) (o' : Nat) :
    dec bo buf nfds (d + 1) .variant off lim = some (.variant t v, o') ↔
      ∃ sg o, readSig buf off lim = some (sg, o) ∧ Sig.parseDescription (latin1 sg) = some [t] ∧
        dec bo buf nfds d t o lim = some (v, o') := by
  rw [dec_variant, readNum_one]
  unfold readSig
  cases readNum .le buf off lim 1 with
  | none => simp
  | some len =>
    simp only []
    by_cases h1 : off + len + 2 ≤ lim
    · simp only [h1, if_true]
      by_cases h2 : slice buf (off + 1 + len) 1 = [0]
      · simp only [h2, if_true, Option.some.injEq, Prod.mk.injEq]
        constructor
        · intro h
          split at h
          · rename_i t' hp
            cases hd : dec bo buf nfds d t' (off + len + 2) lim with
            | none => rw [hd] at h; simp at h
            | some r =>
              obtain ⟨v', o''⟩ := r
              rw [hd] at h
              simp only [Option.some.injEq, Prod.mk.injEq, Val.variant.injEq] at h
              obtain ⟨⟨rfl, rfl⟩, rfl⟩ := h
              exact ⟨_, _, ⟨rfl, rfl⟩, hp, hd⟩
          · simp at h
        · rintro ⟨sg, o, ⟨rfl, rfl⟩, hp, hd⟩
          simp only [hp, hd]
      · simp [h2]
    · simp [h1]

theorem findCase_some {cases : List Ty} {sg : List UInt8} {i : Nat} {t : Ty}
    (h : findCase cases sg = some (i, t)) : t ∈ cases ∧ sigBytes t = sg := by
  induction cases generalizing i with
  | nil => simp [findCase] at h
  | cons c cs ih =>
    unfold findCase at h
    split at h
    · rename_i hc
      simp only [Option.some.injEq, Prod.mk.injEq] at h
      obtain ⟨-, rfl⟩ := h
      exact ⟨List.mem_cons_self, hc⟩
    · cases hf : findCase cs sg with
      | none => rw [hf] at h; simp at h
      | some r =>
        obtain ⟨j, t'⟩ := r
        rw [hf] at h
        simp only [Option.map_some, Option.some.injEq, Prod.mk.injEq] at h
        obtain ⟨-, rfl⟩ := h
        obtain ⟨h1, h2⟩ := ih hf
        exact ⟨List.mem_cons_of_mem _ h1, h2⟩

/-- A derived enum decodes exactly the variants whose signature is one of its cases (the first such
    case), to the payload the generic variant decoder sees, consuming the same bytes; every other
    variant is an error. (`cases` valid variant types with pairwise different signatures are not even
    needed: the FIRST textual match is taken.) -/
theorem decDerive_iff (bo : ByteOrder) (buf : List UInt8) (nfds : Option Nat) (cases : List Ty)
    (hc : ∀ t ∈ cases, variantTypeOk t = true) (off lim : Nat) (i : Nat) (v : Val) (o' : Nat) :
    decDerive bo buf nfds cases off lim = some (i, v, o') ↔
      ∃ t, findCase cases (sigBytes t) = some (i, t) ∧
        dec bo buf nfds maxDepth .variant off lim = some (.variant t v, o') := by
  have hmd : maxDepth = (maxDepth - 1) + 1 := by decide
  rw [hmd]
  constructor
  · intro h
    unfold decDerive at h
    cases hr : readSig buf off lim with
    | none => rw [hr] at h; simp at h
    | some r =>
      obtain ⟨sg, o⟩ := r
      rw [hr] at h
      simp only [] at h
      cases hf : findCase cases sg with
      | none => rw [hf] at h; simp at h
      | some r =>
        obtain ⟨i', t⟩ := r
        rw [hf] at h
        simp only [] at h
        cases hd : dec bo buf nfds (maxDepth - 1) t o lim with
        | none => rw [hd] at h; simp at h
        | some r =>
          obtain ⟨v', o''⟩ := r
          rw [hd] at h
          simp only [Option.some.injEq, Prod.mk.injEq] at h
          obtain ⟨rfl, rfl, rfl⟩ := h
          obtain ⟨hm, hsg⟩ := findCase_some hf
          subst hsg
          exact ⟨t, hf, (dec_variant_iff ..).2 ⟨_, _, hr, parse_sigBytes t (hc t hm), hd⟩⟩
  · rintro ⟨t, hf, hd⟩
    obtain ⟨sg, o, hr, hp, hd'⟩ := (dec_variant_iff ..).1 hd
    obtain ⟨rfl, -⟩ := parse_sound sg t hp
    unfold decDerive
    simp only [hr, hf, hd']

/-- A macro enum facing a case it does not know skips exactly that value: it succeeds with `catchall t`
    at `o'` iff the generic variant decoder accepts a variant of type `t ∉ cases` ending at `o'`. -/
theorem decCatchall_unknown_iff (bo : ByteOrder) (buf : List UInt8) (nfds : Option Nat) (cases : List Ty)
    (off lim : Nat) (t : Ty) (o' : Nat) :
    decCatchall bo buf nfds cases off lim = some (.catchall t, o') ↔
      (findCase cases (sigBytes t) = none ∧
       ∃ v, dec bo buf none maxDepth .variant off lim = some (.variant t v, o')) := by
  have hmd : maxDepth = (maxDepth - 1) + 1 := by decide
  constructor
  · intro h
    unfold decCatchall at h
    cases hr : readSig buf off lim with
    | none => rw [hr] at h; simp at h
    | some r =>
      obtain ⟨sg, o⟩ := r
      rw [hr] at h
      simp only [] at h
      cases hf : findCase cases sg with
      | some r =>
        obtain ⟨i', t'⟩ := r
        rw [hf] at h
        simp only [] at h
        cases hd : dec bo buf nfds (maxDepth - 1) t' o lim with
        | none => rw [hd] at h; simp at h
        | some r => rw [hd] at h; simp at h
      | none =>
        rw [hf] at h
        simp only [] at h
        split at h
        · rename_i t' hp
          cases hd : dec bo buf none (maxDepth - 1) t' o lim with
          | none => rw [hd] at h; simp at h
          | some r =>
            obtain ⟨v', o''⟩ := r
            rw [hd] at h
            simp only [Option.some.injEq, Prod.mk.injEq, Outcome.catchall.injEq] at h
            obtain ⟨rfl, rfl⟩ := h
            obtain ⟨rfl, -⟩ := parse_sound sg t' hp
            refine ⟨hf, v', ?_⟩
            rw [hmd]
            exact (dec_variant_iff ..).2 ⟨_, _, hr, hp, hd⟩
        · simp at h
  · rintro ⟨hf, v, hd⟩
    rw [hmd] at hd
    obtain ⟨sg, o, hr, hp, hd'⟩ := (dec_variant_iff ..).1 hd
    obtain ⟨rfl, -⟩ := parse_sound sg t hp
    unfold decCatchall
    simp only [hr, hf, hp, hd']

end Rustbus.Enums

#print axioms Rustbus.HasSig.hasSig_exact
#print axioms Rustbus.HasSig.toStr_injective
#print axioms Rustbus.Enums.decDerive_iff
#print axioms Rustbus.Enums.decCatchall_unknown_iff
