import RustbusModel.Lemmas.HeaderEntry
/-!
Header proofs, part 2: one header field (`decodeField` is the generic decoder `dec` at the element type
`(yv)` followed by the classification `entryField`), and the loop `decodeFields` against `encList`.
-/
namespace Rustbus.Header
open Rustbus Rustbus.Bytes Rustbus.Wire Rustbus.Spec.Wire Rustbus.Spec.Header

/-- the right-hand side of `decodeField_iff` after the common prefix -/
theorem elem_rhs (bo : ByteOrder) (buf : List UInt8) (code : Nat) (t : Ty) (o2 lim : Nat)
    (f? : Option Field) (o' : Nat) :
    (∃ e : Entry, (match dec bo buf none maxDepth t o2 lim with
        | none => none
        | some (x, o3) => some (Val.struct [.num code, .variant t x], o3)) = some (entryVal e, o') ∧
        entryField e = some f?) ↔
    ∃ x, dec bo buf none maxDepth t o2 lim = some (x, o') ∧ entryField (code, t, x) = some f? := by
  constructor
  · rintro ⟨⟨c, t', x⟩, h, he⟩
    cases hd : dec bo buf none maxDepth t o2 lim with
    | none => simp [hd] at h
    | some r =>
      obtain ⟨x', o3⟩ := r
      simp only [hd, entryVal, Option.some.injEq, Prod.mk.injEq, Val.struct.injEq, List.cons.injEq,
        Val.num.injEq, Val.variant.injEq, and_true] at h
      obtain ⟨⟨rfl, rfl, rfl⟩, rfl⟩ := h
      exact ⟨_, rfl, he⟩
  · rintro ⟨x, hd, he⟩
    exact ⟨(code, t, x), by simp [hd, entryVal], he⟩

theorem decodeField_iff (bo : ByteOrder) (buf : List UInt8) (off lim : Nat) (f? : Option Field) (o' : Nat) :
    decodeField bo buf off lim = some (f?, o') ↔
      ∃ e : Entry, dec bo buf none (maxDepth + 2) elemTy off lim = some (entryVal e, o') ∧
        entryField e = some f? := by
  rw [dec_elem]
  unfold decodeField
  cases skipPad buf off lim 8 with
  | none => simp
  | some o =>
    simp only []
    cases readNum .le buf o lim 1 with
    | none => simp
    | some code =>
      simp only []
      cases readSig buf (o + 1) lim with
      | none => simp
      | some r =>
        obtain ⟨sg, o2⟩ := r
        simp only []
        generalize Sig.parseDescription (latin1 sg) = p
        match p with
        | none => simp
        | some [] => simp
        | some (_ :: _ :: _) => simp
        | some [t] =>
          simp only []
          refine Iff.trans ?_ (elem_rhs bo buf code t o2 lim f? o').symm
          match code with
          | 0 => simp [entryField_zero]
          | 1 =>
            simp only [entryField_path]
            by_cases ht : t = .base .objpath
            · subst ht
              simp only [dec_base]
              cases decBase bo buf none .objpath o2 lim with
              | none => simp
              | some r =>
                obtain ⟨x, o3⟩ := r
                cases x <;> simp
                grind
            · split
              · exact absurd rfl ht
              · simp [ht]
          | 2 =>
            simp only [entryField_interface, readStr]
            by_cases ht : t = .base .string
            · subst ht
              simp only [dec_base]
              cases decBase bo buf none .string o2 lim with
              | none => simp
              | some r =>
                obtain ⟨x, o3⟩ := r
                cases x <;> simp
                grind
            · split
              · exact absurd rfl ht
              · simp [ht]
          | 3 =>
            simp only [entryField_member, readStr]
            by_cases ht : t = .base .string
            · subst ht
              simp only [dec_base]
              cases decBase bo buf none .string o2 lim with
              | none => simp
              | some r =>
                obtain ⟨x, o3⟩ := r
                cases x <;> simp
                grind
            · split
              · exact absurd rfl ht
              · simp [ht]
          | 4 =>
            simp only [entryField_errorName, readStr]
            by_cases ht : t = .base .string
            · subst ht
              simp only [dec_base]
              cases decBase bo buf none .string o2 lim with
              | none => simp
              | some r =>
                obtain ⟨x, o3⟩ := r
                cases x <;> simp
                grind
            · split
              · exact absurd rfl ht
              · simp [ht]
          | 5 =>
            simp only [entryField_replySerial]
            by_cases ht : t = .base .u32
            · subst ht
              simp only [dec_base]
              cases decBase bo buf none .u32 o2 lim with
              | none => simp
              | some r =>
                obtain ⟨x, o3⟩ := r
                cases x <;> simp
                grind
            · split
              · exact absurd rfl ht
              · simp [ht]
          | 6 =>
            simp only [entryField_destination, readStr]
            by_cases ht : t = .base .string
            · subst ht
              simp only [dec_base]
              cases decBase bo buf none .string o2 lim with
              | none => simp
              | some r =>
                obtain ⟨x, o3⟩ := r
                cases x <;> simp
                grind
            · split
              · exact absurd rfl ht
              · simp [ht]
          | 7 =>
            simp only [entryField_sender, readStr]
            by_cases ht : t = .base .string
            · subst ht
              simp only [dec_base]
              cases decBase bo buf none .string o2 lim with
              | none => simp
              | some r =>
                obtain ⟨x, o3⟩ := r
                cases x <;> simp
                grind
            · split
              · exact absurd rfl ht
              · simp [ht]
          | 8 =>
            simp only [entryField_sig]
            by_cases ht : t = .base .signature
            · subst ht
              simp only [dec_base]
              cases decBase bo buf none .signature o2 lim with
              | none => simp
              | some r =>
                obtain ⟨x, o3⟩ := r
                cases x <;> simp
                grind
            · split
              · exact absurd rfl ht
              · simp [ht]
          | 9 =>
            simp only [entryField_unixFds]
            by_cases ht : t = .base .u32
            · subst ht
              simp only [dec_base]
              cases decBase bo buf none .u32 o2 lim with
              | none => simp
              | some r =>
                obtain ⟨x, o3⟩ := r
                cases x <;> simp
                grind
            · split
              · exact absurd rfl ht
              · simp [ht]
          | n + 10 =>
            simp only [entryField_unknown]
            cases hd : dec bo buf none maxDepth t o2 lim with
            | none => simp
            | some r =>
              obtain ⟨x, o3⟩ := r
              have hdep := (enc_dec bo buf none maxDepth t o2 lim x o3 hd).2.2.2.2.1
              simp only [Option.some.injEq, Prod.mk.injEq]
              constructor
              · rintro ⟨rfl, rfl⟩; exact ⟨x, ⟨rfl, rfl⟩, hdep, rfl⟩
              · rintro ⟨x', ⟨rfl, rfl⟩, _, rfl⟩; exact ⟨rfl, rfl⟩

/-! ### one entry against `enc` -/

theorem entryField_depth (c : Nat) (t : Ty) (x : Val) (r : Option Field)
    (h : entryField (c, t, x) = some r) : depthOf t x ≤ maxDepth := by
  match c with
  | 0 => simp [entryField_zero] at h
  | 1 => obtain ⟨s, rfl, _⟩ := (entryField_path _ _ _).1 h; simp [depthOf]
  | 2 => obtain ⟨s, rfl, _⟩ := (entryField_interface _ _ _).1 h; simp [depthOf]
  | 3 => obtain ⟨s, rfl, _⟩ := (entryField_member _ _ _).1 h; simp [depthOf]
  | 4 => obtain ⟨s, rfl, _⟩ := (entryField_errorName _ _ _).1 h; simp [depthOf]
  | 5 => obtain ⟨s, rfl, _⟩ := (entryField_replySerial _ _ _).1 h; simp [depthOf]
  | 6 => obtain ⟨s, rfl, _⟩ := (entryField_destination _ _ _).1 h; simp [depthOf]
  | 7 => obtain ⟨s, rfl, _⟩ := (entryField_sender _ _ _).1 h; simp [depthOf]
  | 8 => obtain ⟨s, rfl, _⟩ := (entryField_sig _ _ _).1 h; simp [depthOf]
  | 9 => obtain ⟨s, rfl, _⟩ := (entryField_unixFds _ _ _).1 h; simp [depthOf]
  | n + 10 => exact ((entryField_unknown _ _ _ _).1 h).1

theorem entryVal_depth (e : Entry) (r : Option Field) (h : entryField e = some r) :
    depthOf elemTy (entryVal e) ≤ maxDepth + 2 := by
  obtain ⟨c, t, x⟩ := e
  have := entryField_depth c t x r h
  simp only [entryVal, depthOf, depthOfFields]
  omega

theorem field_sound (bo : ByteOrder) (buf : List UInt8) (off lim : Nat) (f? : Option Field) (o' : Nat)
    (h : decodeField bo buf off lim = some (f?, o')) :
    ∃ e : Entry, enc bo off elemTy (entryVal e) = some (slice buf off (o' - off)) ∧
      entryField e = some f? ∧ off < o' ∧ o' ≤ lim ∧ lim ≤ buf.length := by
  obtain ⟨e, hd, he⟩ := (decodeField_iff bo buf off lim f? o').1 h
  obtain ⟨h1, h2, h3, h4, _, _⟩ := enc_dec bo buf none _ _ off lim _ o' hd
  exact ⟨e, h4, he, h1, h2, h3⟩

theorem field_complete (bo : ByteOrder) (e : Entry) (f? : Option Field) (pre bs suf : List UInt8) (lim : Nat)
    (h : enc bo pre.length elemTy (entryVal e) = some bs) (he : entryField e = some f?)
    (hl : pre.length + bs.length ≤ lim) (hl2 : lim ≤ pre.length + bs.length + suf.length) :
    decodeField bo (pre ++ (bs ++ suf)) pre.length lim = some (f?, pre.length + bs.length) := by
  rw [decodeField_iff]
  exact ⟨e, dec_enc bo elemTy (entryVal e) pre bs suf none _ lim h (entryVal_depth e f? he) rfl hl hl2, he⟩

/-! ### the loop -/

theorem fields_sound (bo : ByteOrder) (buf : List UInt8) (lim : Nat) (fuel off : Nat) (fs : List Field)
    (h : decodeFields bo buf off lim fuel = some fs) :
    ∃ es : List Entry, encList bo off elemTy (es.map entryVal) = some (slice buf off (lim - off)) ∧
      entriesFields es = some fs ∧ off ≤ lim := by
  induction fuel generalizing off fs with
  | zero =>
    simp only [decodeFields] at h
    split at h
    · rename_i heq; simp only [Option.some.injEq] at h; subst h; subst heq
      exact ⟨[], by simp [encList, slice_zero], rfl, Nat.le_refl _⟩
    · simp at h
  | succ fuel ih =>
    simp only [decodeFields] at h
    split at h
    · rename_i heq; simp only [Option.some.injEq] at h; subst h; subst heq
      exact ⟨[], by simp [encList, slice_zero], rfl, Nat.le_refl _⟩
    · split at h
      · simp at h
      · rename_i f? o' hd
        obtain ⟨e, he, hf, h1, h2, h3⟩ := field_sound bo buf off lim f? o' hd
        split at h
        · simp at h
        · rename_i rest hr
          obtain ⟨es, hes, hfs, h4⟩ := ih o' rest hr
          refine ⟨e :: es, ?_, ?_, by omega⟩
          · simp only [List.map_cons, encList, he]
            have hl : (slice buf off (o' - off)).length = o' - off := slice_length _ _ _ (by omega)
            have e1 : off + (o' - off) = o' := by omega
            simp only [hl, e1, hes]
            have : lim - off = (o' - off) + (lim - o') := by omega
            rw [this, slice_add, e1]
          · simp only [entriesFields, hf, hfs]
            cases f? <;> simpa using h

theorem fields_complete (bo : ByteOrder) (es : List Entry) (fs : List Field) (pre body suf : List UInt8)
    (fuel : Nat)
    (h : encList bo pre.length elemTy (es.map entryVal) = some body)
    (hf : entriesFields es = some fs) (hfuel : body.length ≤ fuel) :
    decodeFields bo (pre ++ (body ++ suf)) pre.length (pre.length + body.length) fuel = some fs := by
  induction es generalizing pre body fs fuel with
  | nil =>
    simp only [List.map_nil, encList, Option.some.injEq] at h; subst h
    simp only [entriesFields, Option.some.injEq] at hf; subst hf
    cases fuel <;> simp [decodeFields]
  | cons e es ih =>
    obtain ⟨b, r, hb, hr, rfl⟩ := encList_cons_some h
    have hpos := enc_pos bo _ _ _ _ hb
    simp only [List.length_append] at hfuel ⊢
    simp only [entriesFields] at hf
    cases hef : entryField e with
    | none => simp [hef] at hf
    | some f? =>
      cases hrest : entriesFields es with
      | none => cases f? <;> simp [hef, hrest] at hf
      | some rest =>
        match fuel with
        | 0 => omega
        | fuel + 1 =>
          simp only [decodeFields]
          rw [if_neg (by omega)]
          have h1 := field_complete bo e f? pre b (r ++ suf) (pre.length + (b.length + r.length)) hb hef
            (by omega) (by simp only [List.length_append]; omega)
          simp only [List.append_assoc] at h1 ⊢
          rw [h1]
          simp only []
          have h2 := ih rest (pre ++ b) r fuel (by simpa using hr) hrest (by omega)
          simp only [List.append_assoc, List.length_append] at h2
          have e2 : pre.length + b.length + r.length = pre.length + (b.length + r.length) := by omega
          rw [e2] at h2
          rw [h2]
          cases f? <;> simpa [hef, hrest] using hf

/-! ### the array around the loop -/

theorem enc_fieldArray (bo : ByteOrder) (vs : List Val) (arr : List UInt8) :
    enc bo 12 fieldArrayTy (.arr vs) = some arr ↔
      ∃ body, encList bo 16 elemTy vs = some body ∧ body.length ≤ maxArrayLen ∧
        arr = bytesOf bo 4 body.length ++ body := by
  have p1 : padLen 4 12 = 0 := by decide
  have p2 : padLen 8 16 = 0 := by decide
  simp only [fieldArrayTy, enc, p1, Ty.align, p2, zeros, List.replicate_zero, List.nil_append]
  cases encList bo 16 elemTy vs with
  | none => simp
  | some body =>
    simp only [Option.some.injEq, exists_eq_left']
    split
    · rename_i h; simp [h, eq_comm]
    · rename_i h; simp [h]

end Rustbus.Header
