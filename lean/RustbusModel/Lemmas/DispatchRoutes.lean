import RustbusModel.Lemmas.DispatchMatch
/-!
C19 helper lemmas, part 2: the route table as a map (`routeOf`), `insert` / merge, lookups under
permutation of the iteration order, and the loop over histories.
-/
namespace Rustbus.Dispatch
open Spec

variable {H : Type}

/-! ### `get_match` -/

theorem getMatch_some {rs : Routes H} {q : List Char} {caps : Caps} {h : H}
    (hg : getMatch rs q = some (caps, h)) : ∃ p, (p, h) ∈ rs ∧ patMatches p q = some caps := by
  induction rs with
  | nil => simp [getMatch] at hg
  | cons e rs ih =>
    obtain ⟨p, g⟩ := e
    simp only [getMatch] at hg
    cases hm : patMatches p q with
    | some c =>
      simp only [hm, Option.some.injEq, Prod.mk.injEq] at hg
      obtain ⟨rfl, rfl⟩ := hg
      exact ⟨p, by simp, hm⟩
    | none =>
      simp only [hm] at hg
      obtain ⟨p', hmem, hp⟩ := ih hg
      exact ⟨p', by simp [hmem], hp⟩

theorem getMatch_none {rs : Routes H} {q : List Char} :
    getMatch rs q = none ↔ ∀ e ∈ rs, patMatches e.1 q = none := by
  induction rs with
  | nil => simp [getMatch]
  | cons e rs ih =>
    obtain ⟨p, g⟩ := e
    simp only [getMatch, List.mem_cons, forall_eq_or_imp]
    cases hm : patMatches p q with
    | some c => simp
    | none => simp [ih]

/-! ### the table as a map -/

theorem routeOf_append (p : Pattern) (l1 l2 : Routes H) :
    routeOf p (l1 ++ l2) = (routeOf p l1).or (routeOf p l2) := by
  induction l1 with
  | nil => simp [routeOf]
  | cons e l ih =>
    obtain ⟨a, b⟩ := e
    simp only [List.cons_append, routeOf]
    split
    · simp
    · exact ih

theorem routeOf_some_mem {p : Pattern} {rs : Routes H} {h : H} (hr : routeOf p rs = some h) :
    (p, h) ∈ rs := by
  induction rs with
  | nil => simp [routeOf] at hr
  | cons e rs ih =>
    obtain ⟨a, b⟩ := e
    simp only [routeOf] at hr
    split at hr
    · rename_i hab
      simp only [Option.some.injEq] at hr
      subst hab; subst hr; simp
    · simp [ih hr]

theorem mem_iff_routeOf {rs : Routes H} (hnd : KeysNodup rs) (p : Pattern) (h : H) :
    (p, h) ∈ rs ↔ routeOf p rs = some h := by
  constructor
  · intro hmem
    induction rs with
    | nil => simp at hmem
    | cons e rs ih =>
      obtain ⟨a, b⟩ := e
      simp only [KeysNodup, List.map_cons, List.nodup_cons, List.mem_map, not_exists, not_and] at hnd
      simp only [List.mem_cons, Prod.mk.injEq] at hmem
      simp only [routeOf]
      rcases hmem with ⟨rfl, rfl⟩ | hmem
      · simp
      · have : ¬ a = p := fun e => hnd.1 (p, h) hmem e.symm
        simp only [this, if_false]
        exact ih hnd.2 hmem
  · exact routeOf_some_mem

theorem keysNodup_perm {rs seen : Routes H} (hp : seen.Perm rs) (hnd : KeysNodup rs) : KeysNodup seen := by
  unfold KeysNodup at *
  exact ((hp.map (fun e : Pattern × H => e.1)).nodup_iff).mpr hnd

theorem routeOf_perm {rs seen : Routes H} (hp : seen.Perm rs) (hnd : KeysNodup rs) (p : Pattern) :
    routeOf p seen = routeOf p rs := by
  have hnd' := keysNodup_perm hp hnd
  apply Option.ext
  intro h
  rw [← mem_iff_routeOf hnd', ← mem_iff_routeOf hnd]
  exact hp.mem_iff

theorem routeOf_insertRoute (rs : Routes H) (pat : Pattern) (h : H) (p : Pattern) :
    routeOf p (insertRoute rs pat h) = if p = pat then some h else routeOf p rs := by
  induction rs with
  | nil =>
    simp only [insertRoute, routeOf]
    by_cases hp : p = pat
    · subst hp; simp
    · have : ¬ pat = p := fun e => hp e.symm
      simp [hp, this]
  | cons e rs ih =>
    obtain ⟨a, g⟩ := e
    simp only [insertRoute]
    by_cases ha : a = pat
    · subst ha
      simp only [if_true, routeOf]
      by_cases hp : a = p
      · subst hp; simp
      · have : ¬ p = a := fun e => hp e.symm
        simp [hp, this]
    · simp only [ha, if_false, routeOf]
      by_cases hp : a = p
      · subst hp; simp [ha]
      · simp only [hp, if_false]
        exact ih

theorem keys_insertRoute (rs : Routes H) (pat : Pattern) (h : H) :
    ∀ k, k ∈ (insertRoute rs pat h).map (·.1) ↔ k = pat ∨ k ∈ rs.map (·.1) := by
  induction rs with
  | nil => intro k; simp [insertRoute]
  | cons e rs ih =>
    obtain ⟨a, g⟩ := e
    intro k
    simp only [insertRoute]
    by_cases ha : a = pat
    · subst ha
      simp only [if_true, List.map_cons, List.mem_cons]
      constructor
      · intro h; exact Or.inr h
      · rintro (h | h)
        · exact Or.inl h
        · exact h
    · simp only [ha, if_false, List.map_cons, List.mem_cons, ih]
      constructor
      · rintro (h | h | h)
        · exact Or.inr (Or.inl h)
        · exact Or.inl h
        · exact Or.inr (Or.inr h)
      · rintro (h | h | h)
        · exact Or.inr (Or.inl h)
        · exact Or.inl h
        · exact Or.inr (Or.inr h)

theorem keysNodup_insertRoute (rs : Routes H) (pat : Pattern) (h : H) (hnd : KeysNodup rs) :
    KeysNodup (insertRoute rs pat h) := by
  induction rs with
  | nil => simp [insertRoute, KeysNodup]
  | cons e rs ih =>
    obtain ⟨a, g⟩ := e
    simp only [KeysNodup, List.map_cons, List.nodup_cons] at hnd
    simp only [insertRoute]
    by_cases ha : a = pat
    · subst ha
      simp only [if_true, KeysNodup, List.map_cons, List.nodup_cons]
      exact hnd
    · simp only [ha, if_false, KeysNodup, List.map_cons, List.nodup_cons]
      refine ⟨?_, ih hnd.2⟩
      rw [keys_insertRoute]
      rintro (h | h)
      · exact ha h
      · exact hnd.1 h

theorem lastAdd_append (a b : Routes H) (p : Pattern) :
    lastAdd (a ++ b) p = (lastAdd b p).or (lastAdd a p) := by
  simp [lastAdd, List.reverse_append, routeOf_append]

theorem lastAdd_cons (e : Pattern × H) (r : Routes H) (p : Pattern) :
    lastAdd (e :: r) p = (lastAdd r p).or (if e.1 = p then some e.2 else none) := by
  have : e :: r = [e] ++ r := rfl
  rw [this, lastAdd_append]
  obtain ⟨a, b⟩ := e
  simp [lastAdd, routeOf]

theorem lastAdd_some_mem {adds : Routes H} {p : Pattern} {h : H} (hl : lastAdd adds p = some h) :
    (p, h) ∈ adds := by
  have := routeOf_some_mem hl
  simpa using this

theorem routeOf_foldl_insert (adds : Routes H) : ∀ (rs : Routes H) (p : Pattern),
    routeOf p (adds.foldl (fun acc e => insertRoute acc e.1 e.2) rs) =
      (lastAdd adds p).or (routeOf p rs) := by
  induction adds with
  | nil => intro rs p; simp [lastAdd, routeOf]
  | cons e r ih =>
    intro rs p
    simp only [List.foldl_cons]
    rw [ih, routeOf_insertRoute, lastAdd_cons]
    by_cases hp : p = e.1
    · subst hp
      cases lastAdd r e.1 <;> simp
    · have : ¬ e.1 = p := fun e => hp e.symm
      cases lastAdd r p <;> simp [hp, this]

theorem keysNodup_foldl_insert (adds : Routes H) : ∀ (rs : Routes H), KeysNodup rs →
    KeysNodup (adds.foldl (fun acc e => insertRoute acc e.1 e.2) rs) := by
  induction adds with
  | nil => intro rs h; exact h
  | cons e r ih => intro rs h; exact ih _ (keysNodup_insertRoute rs e.1 e.2 h)

theorem newDispatches_eq (added : List (List Char × H)) :
    newDispatches added =
      (added.map (fun a => (patternNew a.1, a.2))).foldl (fun acc e => insertRoute acc e.1 e.2) [] := by
  simp [newDispatches, pmInsert, List.foldl_map]

theorem keysNodup_newDispatches (added : List (List Char × H)) : KeysNodup (newDispatches added) := by
  rw [newDispatches_eq]
  exact keysNodup_foldl_insert _ [] (by simp [KeysNodup])

theorem routeOf_newDispatches (added : List (List Char × H)) (p : Pattern) :
    routeOf p (newDispatches added) = lastAdd (added.map (fun a => (patternNew a.1, a.2))) p := by
  rw [newDispatches_eq, routeOf_foldl_insert]
  simp [routeOf]

/-- the merge at the end of a successful iteration, as a map: the handler's registrations (the
    last one per pattern) override the table -/
theorem routeOf_merge (rs : Routes H) (added : List (List Char × H)) (p : Pattern) :
    routeOf p (mergeRoutes rs (newDispatches added)) =
      (lastAdd (added.map (fun a => (patternNew a.1, a.2))) p).or (routeOf p rs) := by
  unfold mergeRoutes
  rw [routeOf_foldl_insert]
  have : lastAdd (newDispatches added) p = routeOf p (newDispatches added) := by
    unfold lastAdd
    exact routeOf_perm (List.reverse_perm _) (keysNodup_newDispatches added) p
  rw [this, routeOf_newDispatches]

theorem keysNodup_merge (rs nd : Routes H) (h : KeysNodup rs) : KeysNodup (mergeRoutes rs nd) :=
  keysNodup_foldl_insert nd rs h

/-! ### one iteration -/

theorem step_invoked (rs : Routes H) (ev : Event H) : (step rs ev).invoked = [select rs ev.msg] := by
  unfold step
  simp only
  split
  · rfl
  · split <;> rfl
  · split <;> rfl

theorem step_replyOk (rs : Routes H) (ev : Event H) : ReplyOk ev (step rs ev) := by
  refine ⟨(select rs ev.msg).1, (select rs ev.msg).2, step_invoked rs ev, ?_⟩
  unfold step
  simp only
  cases hres : (ev.behave (select rs ev.msg).1 (select rs ev.msg).2).result with
  | err => simp
  | reply r =>
    by_cases hs : ev.sendOk = true <;> simp [hs]
  | empty =>
    by_cases hs : ev.sendOk = true
    · simp [hs, Serial.makeResponse]
    · simp [hs]

theorem step_routes (rs : Routes H) (ev : Event H) :
    (step rs ev).routes =
      match (ev.behave (select rs ev.msg).1 (select rs ev.msg).2).result with
      | .err => rs
      | _ => mergeRoutes rs (newDispatches (ev.behave (select rs ev.msg).1 (select rs ev.msg).2).added) := by
  unfold step
  simp only
  cases hres : (ev.behave (select rs ev.msg).1 (select rs ev.msg).2).result with
  | err => simp
  | reply r => by_cases hs : ev.sendOk = true <;> simp [hs]
  | empty => by_cases hs : ev.sendOk = true <;> simp [hs]

theorem routeOf_step (rs : Routes H) (ev : Event H) (p : Pattern) :
    routeOf p (step rs ev).routes = (lastAdd (addsOf ev (step rs ev)) p).or (routeOf p rs) := by
  rw [step_routes]
  simp only [addsOf, step_invoked, List.flatMap_cons, List.flatMap_nil, List.append_nil]
  cases hres : (ev.behave (select rs ev.msg).1 (select rs ev.msg).2).result with
  | err => simp [lastAdd, routeOf]
  | reply r => simp only; exact routeOf_merge _ _ _
  | empty => simp only; exact routeOf_merge _ _ _

theorem keysNodup_step (rs : Routes H) (ev : Event H) (h : KeysNodup rs) : KeysNodup (step rs ev).routes := by
  rw [step_routes]
  split
  · exact h
  · exact keysNodup_merge _ _ h

/-! ### histories -/

theorem runs_forall₂ {rs final : Routes H} {evs : List (Event H)} {outs : List (StepOut H)}
    (h : Runs rs evs outs final) : AllPairs (fun ev out => ∃ seen, out = step seen ev) evs outs := by
  induction h with
  | nil rs => exact AllPairs.nil
  | cons hp _ ih => exact AllPairs.cons ⟨_, rfl⟩ ih

theorem runs_length {rs final : Routes H} {evs : List (Event H)} {outs : List (StepOut H)}
    (h : Runs rs evs outs final) : outs.length = evs.length := by
  induction h with
  | nil rs => rfl
  | cons hp _ ih => simp [ih]

theorem runs_split (pre : List (Event H)) : ∀ {rs final : Routes H} {post : List (Event H)}
    {outs : List (StepOut H)}, Runs rs (pre ++ post) outs final →
    ∃ o1 o2 mid, outs = o1 ++ o2 ∧ o1.length = pre.length ∧ Runs rs pre o1 mid ∧ Runs mid post o2 final := by
  induction pre with
  | nil =>
    intro rs final post outs h
    exact ⟨[], outs, rs, rfl, rfl, Runs.nil rs, h⟩
  | cons ev pre ih =>
    intro rs final post outs h
    cases h with
    | cons hp hrest =>
      obtain ⟨o1, o2, mid, rfl, hl, h1, h2⟩ := ih hrest
      exact ⟨_ :: o1, o2, mid, rfl, by simp [hl], Runs.cons hp h1, h2⟩

/-- the table after a history, as a map: the initial table overridden by the registrations of the
    handlers that returned `Ok`, the most recent one per pattern winning -/
theorem runs_table {rs final : Routes H} {evs : List (Event H)} {outs : List (StepOut H)}
    (h : Runs rs evs outs final) (hnd : KeysNodup rs) :
    KeysNodup final ∧ ∀ p, routeOf p final = (lastAdd (okAdds evs outs) p).or (routeOf p rs) := by
  induction h with
  | nil rs => exact ⟨hnd, fun p => by simp [okAdds, lastAdd, routeOf]⟩
  | @cons rs seen ev evs outs final hp _ ih =>
    have hseen := keysNodup_perm hp hnd
    obtain ⟨h1, h2⟩ := ih (keysNodup_step seen ev hseen)
    refine ⟨h1, fun p => ?_⟩
    rw [h2 p, routeOf_step, routeOf_perm hp hnd]
    simp only [okAdds, lastAdd_append]
    cases lastAdd (okAdds evs outs) p <;> simp

theorem runAll_runs (rs : Routes H) (evs : List (Event H)) :
    Runs rs evs (runAll rs evs).1 (runAll rs evs).2 := by
  induction evs generalizing rs with
  | nil => exact Runs.nil rs
  | cons ev evs ih =>
    simp only [runAll]
    exact Runs.cons (List.Perm.refl rs) (ih _)

end Rustbus.Dispatch
