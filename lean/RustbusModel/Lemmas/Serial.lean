import RustbusModel.Model.Serial
/-!
Helper lemmas for C13 (suspended sends): one-step facts about `step2`, compositionality of `run2`, and the
invariant behind freshness.
-/
namespace Rustbus.Serial

theorem issuedOf_append (a b : List Ev) : issuedOf (a ++ b) = issuedOf a ++ issuedOf b := by
  induction a with
  | nil => rfl
  | cons e a ih => cases e <;> simp [issuedOf, ih]

theorem run2_append (c : Conn2) (xs ys : List Op2) :
    run2 c (xs ++ ys) =
      match run2 c xs with
      | none => none
      | some (es, c1) =>
        match run2 c1 ys with
        | none => none
        | some (es', c2) => some (es ++ es', c2) := by
  induction xs generalizing c with
  | nil =>
    simp only [List.nil_append, run2]
    cases run2 c ys with
    | none => rfl
    | some q => obtain ⟨es, c2⟩ := q; simp
  | cons x xs ih =>
    simp only [List.cons_append, run2]
    cases hs : step2 c x with
    | none => rfl
    | some p =>
      obtain ⟨es0, c0⟩ := p
      simp only [ih c0]
      cases run2 c0 xs with
      | none => rfl
      | some q =>
        obtain ⟨es1, c1⟩ := q
        simp only
        cases run2 c1 ys with
        | none => rfl
        | some r => obtain ⟨es2, c2⟩ := r; simp [List.append_assoc]

/-- what one step does to the counter and which serials it hands out -/
theorem step2_facts (c : Conn2) (op : Op2) (es : List Ev) (c1 : Conn2) (h : step2 c op = some (es, c1)) :
    c.conn.counter ≤ c1.conn.counter ∧
    (∀ i ∈ issuedOf es, i.fresh = true → i.serial = c.conn.counter ∧ c1.conn.counter = c.conn.counter + 1) ∧
    (issuedOf es).length ≤ 1 := by
  cases op with
  | base op =>
    cases op with
    | alloc =>
      simp only [step2, allocSerial] at h
      split at h
      · simp only [Option.map_some, Option.some.injEq, Prod.mk.injEq] at h
        obtain ⟨rfl, rfl⟩ := h
        simp [issuedOf]
      · simp at h
    | send p =>
      simp only [step2] at h
      cases hp : c.pending with
      | some s => simp [hp] at h
      | none =>
        simp only [hp] at h
        cases p with
        | some s =>
          simp only [sendSerial, Option.map_some, Option.some.injEq, Prod.mk.injEq] at h
          obtain ⟨rfl, rfl⟩ := h
          simp [issuedOf]
        | none =>
          simp only [sendSerial, allocSerial] at h
          split at h
          · simp only [Option.map_some, Option.some.injEq, Prod.mk.injEq] at h
            obtain ⟨rfl, rfl⟩ := h
            simp [issuedOf]
          · simp at h
  | begin p =>
    simp only [step2] at h
    cases hp : c.pending with
    | some s => simp [hp] at h
    | none =>
      simp only [hp] at h
      cases p with
      | some s =>
        simp only [sendSerial, Option.map_some, Option.some.injEq, Prod.mk.injEq] at h
        obtain ⟨rfl, rfl⟩ := h
        simp [issuedOf]
      | none =>
        simp only [sendSerial, allocSerial] at h
        split at h
        · simp only [Option.map_some, Option.some.injEq, Prod.mk.injEq] at h
          obtain ⟨rfl, rfl⟩ := h
          simp [issuedOf]
        · simp at h
  | resume =>
    simp only [step2] at h
    cases hp : c.pending with
    | none => simp [hp] at h
    | some s =>
      simp only [hp, Option.some.injEq, Prod.mk.injEq] at h
      obtain ⟨rfl, rfl⟩ := h
      simp [issuedOf]
  | abandon =>
    simp only [step2] at h
    cases hp : c.pending with
    | none => simp [hp] at h
    | some s =>
      simp only [hp, Option.some.injEq, Prod.mk.injEq] at h
      obtain ⟨rfl, rfl⟩ := h
      simp [issuedOf]

theorem run2_inv : ∀ (ops : List Op2) (c : Conn2) (es : List Ev) (c' : Conn2),
    run2 c ops = some (es, c') →
    c.conn.counter ≤ c'.conn.counter ∧
    (∀ i ∈ issuedOf es, i.fresh = true → c.conn.counter ≤ i.serial ∧ i.serial < c'.conn.counter) ∧
    List.Pairwise (fun a b => a.fresh = true → b.fresh = true → a.serial < b.serial) (issuedOf es) := by
  intro ops
  induction ops with
  | nil =>
    intro c es c' h
    simp only [run2, Option.some.injEq, Prod.mk.injEq] at h
    obtain ⟨rfl, rfl⟩ := h
    simp [issuedOf]
  | cons op ops ih =>
    intro c es c' h
    simp only [run2] at h
    cases hs : step2 c op with
    | none => simp [hs] at h
    | some p =>
      obtain ⟨es0, c1⟩ := p
      simp only [hs] at h
      cases hr : run2 c1 ops with
      | none => simp [hr] at h
      | some q =>
        obtain ⟨es1, c2⟩ := q
        simp only [hr, Option.some.injEq, Prod.mk.injEq] at h
        obtain ⟨rfl, rfl⟩ := h
        obtain ⟨h1, h3, h4⟩ := step2_facts c op es0 c1 hs
        obtain ⟨g1, g2, g3⟩ := ih c1 es1 c2 hr
        rw [issuedOf_append]
        refine ⟨by omega, ?_, ?_⟩
        · intro j hj hf
          rw [List.mem_append] at hj
          rcases hj with hj | hj
          · have := h3 j hj hf; omega
          · have := g2 j hj hf; omega
        · rw [List.pairwise_append]
          refine ⟨?_, g3, ?_⟩
          · -- at most one element
            match hl : issuedOf es0, h4 with
            | [], _ => exact List.Pairwise.nil
            | [x], _ => exact List.pairwise_singleton _ _
            | _ :: _ :: _, h4 => simp at h4
          · intro a ha b hb hfa hfb
            have := h3 a ha hfa
            have := g2 b hb hfb
            omega

/-- explicit allocations while a send is suspended leave the suspended serial alone -/
theorem run2_allocs (n : Nat) (c : Conn2) (es : List Ev) (c' : Conn2)
    (h : run2 c (List.replicate n (.base .alloc)) = some (es, c')) :
    c'.pending = c.pending ∧ (∀ e ∈ es, ∃ i, e = .issued i ∧ i.fresh = true) := by
  induction n generalizing c es with
  | zero =>
    simp only [List.replicate, run2, Option.some.injEq, Prod.mk.injEq] at h
    obtain ⟨rfl, rfl⟩ := h
    simp
  | succ n ih =>
    simp only [List.replicate, run2] at h
    cases hs : step2 c (.base .alloc) with
    | none => simp [hs] at h
    | some p =>
      obtain ⟨es0, c1⟩ := p
      simp only [hs] at h
      cases hr : run2 c1 (List.replicate n (.base .alloc)) with
      | none => simp [hr] at h
      | some q =>
        obtain ⟨es1, c2⟩ := q
        simp only [hr, Option.some.injEq, Prod.mk.injEq] at h
        obtain ⟨rfl, rfl⟩ := h
        obtain ⟨k1, k2⟩ := ih c1 es1 hr
        simp only [step2, allocSerial] at hs
        split at hs
        · simp only [Option.map_some, Option.some.injEq, Prod.mk.injEq] at hs
          obtain ⟨rfl, rfl⟩ := hs
          refine ⟨by simpa using k1, ?_⟩
          intro e he
          simp only [List.cons_append, List.nil_append, List.mem_cons] at he
          rcases he with rfl | he
          · exact ⟨_, rfl, rfl⟩
          · exact k2 e he
        · simp at hs

end Rustbus.Serial
