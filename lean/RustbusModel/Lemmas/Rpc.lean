import RustbusModel.Spec.Rpc
/-!
C14 helper lemmas, part 1: the association-list map, and preservation of the abstraction relation
`Refines` by every mechanism of the model (getter, classification, refill, drain, wait loop).
-/
namespace Rustbus.Rpc

/-! ### the map -/

theorem mapInsert_fresh (k : Nat) (m : Msg) (rs : List (Nat × Msg)) (h : ∀ p ∈ rs, p.1 ≠ k) :
    mapInsert k m rs = (k, m) :: rs := by
  unfold mapInsert
  congr 1
  rw [List.filter_eq_self]
  intro p hp
  simpa using h p hp

theorem mapRemove_none {k : Nat} {rs rs' : List (Nat × Msg)} (h : mapRemove k rs = (none, rs')) :
    rs' = rs := by
  unfold mapRemove at h
  split at h
  · simp at h
  · simp only [Prod.mk.injEq, true_and] at h; exact h.symm

/-- removing a key from a map with distinct keys takes out exactly one entry -/
theorem perm_of_find_nodup (k : Nat) : ∀ (rs : List (Nat × Msg)) (p : Nat × Msg),
    (rs.map (·.1)).Nodup → rs.find? (fun q => q.1 == k) = some p →
    p.1 = k ∧ rs.Perm (p :: rs.filter (fun q => q.1 != k)) := by
  intro rs
  induction rs with
  | nil => intro p _ h; simp at h
  | cons q rs ih =>
    intro p hn hf
    rw [List.map_cons, List.nodup_cons] at hn
    rw [List.find?_cons] at hf
    by_cases hq : q.1 = k
    · simp only [hq, beq_self_eq_true, Option.some.injEq] at hf
      subst hf
      refine ⟨hq, ?_⟩
      have hnone : ∀ r ∈ rs, r.1 ≠ k := by
        intro r hr hrk
        apply hn.1
        rw [hq, ← hrk]
        exact List.mem_map_of_mem hr
      have : (q :: rs).filter (fun r => r.1 != k) = rs := by
        rw [List.filter_cons]
        simp only [hq, bne_self_eq_false, Bool.false_eq_true, ↓reduceIte]
        rw [List.filter_eq_self]
        intro r hr
        simpa using hnone r hr
      rw [this]
    · have hqb : (q.1 == k) = false := by simpa using hq
      simp only [hqb] at hf
      obtain ⟨h1, h2⟩ := ih p hn.2 hf
      refine ⟨h1, ?_⟩
      rw [List.filter_cons]
      have : (q.1 != k) = true := by simpa using hq
      simp only [this, ↓reduceIte]
      exact (List.Perm.cons q h2).trans (List.Perm.swap p q _)

theorem mapRemove_some {k : Nat} {rs rs' : List (Nat × Msg)} {m : Msg}
    (hn : (rs.map (·.1)).Nodup) (h : mapRemove k rs = (some m, rs')) :
    rs.Perm ((k, m) :: rs') ∧ rs'.Sublist rs := by
  unfold mapRemove at h
  split at h
  · rename_i p hp
    simp only [Prod.mk.injEq, Option.some.injEq] at h
    obtain ⟨rfl, rfl⟩ := h
    obtain ⟨h1, h2⟩ := perm_of_find_nodup k rs p hn hp
    refine ⟨?_, List.filter_sublist⟩
    have : p = (k, p.2) := by rw [← h1]
    rw [this] at h2
    exact h2
  · simp at h

/-! ### small facts about the vocabulary -/

theorem toConsumer_append (k : Consumer) (a b : List (Consumer × Msg)) :
    toConsumer k (a ++ b) = toConsumer k a ++ toConsumer k b := by
  simp [toConsumer]

theorem toResponders_append (a b : List (Consumer × Msg)) :
    toResponders (a ++ b) = toResponders a ++ toResponders b := by
  simp [toResponders]

theorem sigQueue_append (a b : List Msg) : sigQueue (a ++ b) = sigQueue a ++ sigQueue b := by
  simp [sigQueue]
theorem callQueue_append (a b : List Msg) : callQueue (a ++ b) = callQueue a ++ callQueue b := by
  simp [callQueue]
theorem respSet_append (a b : List Msg) : respSet (a ++ b) = respSet a ++ respSet b := by
  simp [respSet]
theorem owed_append (a b : List Msg) : owed (a ++ b) = owed a ++ owed b := by
  simp [owed]

/-- the ghost event of one getter call -/
def optEvent (k : Consumer) : Option Msg → List (Consumer × Msg)
  | some m => [(k, m)]
  | none => []

/-! ### the getters -/

theorem refines_tryGet {c evs ret st k r st'} (h : Refines c evs ret st)
    (ht : tryGet st k = (r, st')) :
    Refines c (evs ++ optEvent k r) ret st' ∧ st'.wire = st.wire := by
  obtain ⟨hs, hc, hr, hk, hkd, hu, he⟩ := h
  cases k with
  | signal =>
    simp only [tryGet] at ht
    split at ht
    · simp only [Prod.mk.injEq] at ht
      obtain ⟨rfl, rfl⟩ := ht
      exact ⟨by simpa [optEvent] using ⟨hs, hc, hr, hk, hkd, hu, he⟩, rfl⟩
    · rename_i m rest hsig
      simp only [Prod.mk.injEq] at ht
      obtain ⟨rfl, rfl⟩ := ht
      refine ⟨⟨?_, ?_, ?_, hk, hkd, ?_, he⟩, rfl⟩
      · simp [optEvent, hs, hsig, toConsumer]
      · simpa [optEvent, toConsumer_append, toConsumer] using hc
      · simpa [optEvent, toResponders_append, toResponders, isRespConsumer] using hr
      · intro e he' s hes
        simp only [optEvent, List.mem_append, List.mem_singleton] at he'
        rcases he' with he' | rfl
        · exact hu e he' s hes
        · simp at hes
  | call =>
    simp only [tryGet] at ht
    split at ht
    · simp only [Prod.mk.injEq] at ht
      obtain ⟨rfl, rfl⟩ := ht
      exact ⟨by simpa [optEvent] using ⟨hs, hc, hr, hk, hkd, hu, he⟩, rfl⟩
    · rename_i m rest hcall
      simp only [Prod.mk.injEq] at ht
      obtain ⟨rfl, rfl⟩ := ht
      refine ⟨⟨?_, ?_, ?_, hk, hkd, ?_, he⟩, rfl⟩
      · simpa [optEvent, toConsumer_append, toConsumer] using hs
      · simp [optEvent, hc, hcall, toConsumer]
      · simpa [optEvent, toResponders_append, toResponders, isRespConsumer] using hr
      · intro e he' s hes
        simp only [optEvent, List.mem_append, List.mem_singleton] at he'
        rcases he' with he' | rfl
        · exact hu e he' s hes
        · simp at hes
  | response s =>
    simp only [tryGet] at ht
    cases hm : mapRemove s st.responses with
    | mk r0 rs0 =>
      simp only [hm, Prod.mk.injEq] at ht
      obtain ⟨rfl, rfl⟩ := ht
      cases r0 with
      | none =>
        have := mapRemove_none hm
        subst this
        exact ⟨by simpa [optEvent] using ⟨hs, hc, hr, hk, hkd, hu, he⟩, rfl⟩
      | some m =>
        obtain ⟨hp, hsub⟩ := mapRemove_some hk hm
        have hmem : (s, m) ∈ st.responses := hp.mem_iff.mpr (by simp)
        refine ⟨⟨?_, ?_, ?_, ?_, ?_, ?_, he⟩, rfl⟩
        · simpa [optEvent, toConsumer_append, toConsumer] using hs
        · simpa [optEvent, toConsumer_append, toConsumer] using hc
        · simp only [optEvent, toResponders_append]
          have h1 : toResponders [(Consumer.response s, m)] = [m] := by
            simp [toResponders, isRespConsumer]
          rw [h1]
          refine hr.trans ?_
          rw [List.append_assoc]
          apply List.Perm.append_left
          have := hp.map (·.2)
          simpa using this
        · exact (hsub.map (·.1)).nodup hk
        · intro p hp'; exact hkd p (hsub.subset hp')
        · intro e he' s' hes
          simp only [optEvent, List.mem_append, List.mem_singleton] at he'
          rcases he' with he' | rfl
          · exact hu e he' s' hes
          · simp only [Consumer.response.injEq] at hes
            subst hes
            exact hkd _ hmem

/-! ### classification of one message read from the socket -/

/-- the condition under which storing `m` does not overwrite anything: no reply/error consumed
    before answers the same serial -/
def FreshKey (c : List Msg) (m : Msg) : Prop :=
  ∀ m' ∈ c, isResp m' = true → isResp m = true → m'.replySerial ≠ m.replySerial

theorem refines_insertResp {c evs ret st m k} (h : Refines c evs ret st) (hacc : m.accepted = true)
    (hresp : isResp m = true) (hk : m.replySerial = some k) (hf : FreshKey c m) :
    Refines (c ++ [m]) evs ret { st with responses := mapInsert k m st.responses } := by
  obtain ⟨hs, hc, hr, hkeys, hkd, hu, he⟩ := h
  have hnot : ∀ p ∈ st.responses, p.1 ≠ k := by
    intro p hp hpk
    have h1 : p.2 ∈ respSet c := by
      apply hr.mem_iff.mpr
      apply List.mem_append_right
      exact List.mem_map_of_mem hp
    simp only [respSet, List.mem_filter, accResp, Bool.and_eq_true] at h1
    apply hf p.2 h1.1 h1.2.2 hresp
    rw [hkd p hp, hk, hpk]
  rw [mapInsert_fresh k m _ hnot]
  have hns : isSignal m = false := by
    unfold isResp at hresp; unfold isSignal; split at hresp <;> simp_all
  have hnc : isCall m = false := by
    unfold isResp at hresp; unfold isCall; split at hresp <;> simp_all
  refine ⟨?_, ?_, ?_, ?_, ?_, hu, ?_⟩
  · simpa [sigQueue_append, sigQueue, accSignal, hns] using hs
  · simpa [callQueue_append, callQueue, accCall, hnc] using hc
  · rw [respSet_append]
    have : respSet [m] = [m] := by simp [respSet, accResp, hacc, hresp]
    rw [this]
    simp only [List.map_cons]
    exact (List.perm_append_singleton m _).trans ((List.Perm.cons m hr).trans List.perm_middle.symm)
  · simp only [List.map_cons, List.nodup_cons]
    refine ⟨?_, hkeys⟩
    intro hmem
    obtain ⟨p, hp, hpk⟩ := List.mem_map.mp hmem
    exact hnot p hp hpk
  · intro p hp
    simp only [List.mem_cons] at hp
    rcases hp with rfl | hp
    · exact hk
    · exact hkd p hp
  · simpa [owed_append, owed, rejCall, hacc] using he

theorem refines_acceptInto {c evs ret st m st'} (h : Refines c evs ret st) (hacc : m.accepted = true)
    (hf : FreshKey c m) (ha : acceptInto st m = some st') :
    Refines (c ++ [m]) evs ret st' ∧ st'.wire = st.wire := by
  unfold acceptInto at ha
  split at ha
  · rename_i ht
    simp only [Option.some.injEq] at ha
    subst ha
    obtain ⟨hs, hc, hr, hkeys, hkd, hu, he⟩ := h
    refine ⟨⟨?_, ?_, ?_, hkeys, hkd, hu, ?_⟩, rfl⟩
    · simpa [sigQueue_append, sigQueue, accSignal, isSignal, ht] using hs
    · rw [callQueue_append, hc]; simp [callQueue, accCall, isCall, ht, hacc]
    · simpa [respSet_append, respSet, accResp, isResp, ht] using hr
    · simpa [owed_append, owed, rejCall, hacc] using he
  · rename_i ht
    simp only [Option.some.injEq] at ha
    subst ha
    obtain ⟨hs, hc, hr, hkeys, hkd, hu, he⟩ := h
    refine ⟨⟨?_, ?_, ?_, hkeys, hkd, hu, ?_⟩, rfl⟩
    · rw [sigQueue_append, hs]; simp [sigQueue, accSignal, isSignal, ht, hacc]
    · simpa [callQueue_append, callQueue, accCall, isCall, ht] using hc
    · simpa [respSet_append, respSet, accResp, isResp, ht] using hr
    · simpa [owed_append, owed, rejCall, hacc] using he
  · rename_i ht
    split at ha
    · simp at ha
    · rename_i k hk
      simp only [Option.some.injEq] at ha
      subst ha
      exact ⟨refines_insertResp h hacc (by simp [isResp, ht]) hk hf, rfl⟩
  · rename_i ht
    split at ha
    · simp at ha
    · rename_i k hk
      simp only [Option.some.injEq] at ha
      subst ha
      exact ⟨refines_insertResp h hacc (by simp [isResp, ht]) hk hf, rfl⟩

/-- a rejected message that is not a call leaves no trace -/
theorem refines_drop {c evs ret st m} (h : Refines c evs ret st) (hacc : m.accepted = false)
    (hnc : isCall m = false) : Refines (c ++ [m]) evs ret st := by
  obtain ⟨hs, hc, hr, hkeys, hkd, hu, he⟩ := h
  refine ⟨?_, ?_, ?_, hkeys, hkd, hu, ?_⟩
  · simpa [sigQueue_append, sigQueue, accSignal, hacc] using hs
  · simpa [callQueue_append, callQueue, accCall, hacc] using hc
  · simpa [respSet_append, respSet, accResp, hacc] using hr
  · simpa [owed_append, owed, rejCall, hnc] using he

/-- a rejected call read by `insert_message_or_send_error`: one error is written to the peer -/
theorem refines_rejCall_sent {c evs ret st m} (h : Refines c evs ret st) (hacc : m.accepted = false)
    (hcall : isCall m = true) :
    Refines (c ++ [m]) evs ret { st with sent := st.sent ++ [unknownMethod m] } := by
  obtain ⟨hs, hc, hr, hkeys, hkd, hu, he⟩ := h
  refine ⟨?_, ?_, ?_, hkeys, hkd, hu, ?_⟩
  · simpa [sigQueue_append, sigQueue, accSignal, hacc] using hs
  · simpa [callQueue_append, callQueue, accCall, hacc] using hc
  · simpa [respSet_append, respSet, accResp, hacc] using hr
  · have : owed [m] = [unknownMethod m] := by simp [owed, rejCall, hacc, hcall]
    rw [owed_append, this]
    simp only
    have h1 : (owed c ++ [unknownMethod m]).Perm ((st.sent ++ ret) ++ [unknownMethod m]) :=
      he.append_right _
    refine h1.trans ?_
    rw [List.append_assoc, List.append_assoc]
    exact List.Perm.append_left _ List.perm_append_comm

/-- a rejected call read by `refill_all`: one error is added to the returned list -/
theorem refines_rejCall_returned {c evs ret st m} (h : Refines c evs ret st) (hacc : m.accepted = false)
    (hcall : isCall m = true) :
    Refines (c ++ [m]) evs (ret ++ [unknownMethod m]) st := by
  obtain ⟨hs, hc, hr, hkeys, hkd, hu, he⟩ := h
  refine ⟨?_, ?_, ?_, hkeys, hkd, hu, ?_⟩
  · simpa [sigQueue_append, sigQueue, accSignal, hacc] using hs
  · simpa [callQueue_append, callQueue, accCall, hacc] using hc
  · simpa [respSet_append, respSet, accResp, hacc] using hr
  · have : owed [m] = [unknownMethod m] := by simp [owed, rejCall, hacc, hcall]
    rw [owed_append, this, ← List.append_assoc]
    exact he.append_right _

theorem refines_insertOrSendError {c evs ret st m st'} (h : Refines c evs ret st)
    (hf : FreshKey c m) (hi : insertOrSendError st m = some st') :
    Refines (c ++ [m]) evs ret st' ∧ st'.wire = st.wire := by
  unfold insertOrSendError at hi
  split at hi
  · rename_i hacc
    exact refines_acceptInto h hacc hf hi
  · rename_i hacc
    have hacc : m.accepted = false := by simpa using hacc
    split at hi <;> rename_i ht <;> simp only [Option.some.injEq] at hi <;> subst hi
    · exact ⟨refines_rejCall_sent h hacc (by simp [isCall, ht]), rfl⟩
    · exact ⟨refines_drop h hacc (by simp [isCall, ht]), rfl⟩
    · exact ⟨refines_drop h hacc (by simp [isCall, ht]), rfl⟩
    · exact ⟨refines_drop h hacc (by simp [isCall, ht]), rfl⟩

/-- `Refines` does not look at `wire` -/
theorem refines_wire {c evs ret st} (w : List Msg) (h : Refines c evs ret st) :
    Refines c evs ret { st with wire := w } := by
  obtain ⟨hs, hc, hr, hkeys, hkd, hu, he⟩ := h
  exact ⟨hs, hc, hr, hkeys, hkd, hu, he⟩

theorem freshKey_of_distinct {c w : List Msg} {m : Msg} (hd : DistinctReplySerials (c ++ m :: w)) :
    FreshKey c m := by
  intro m' hm' h1 h2
  unfold DistinctReplySerials at hd
  rw [List.pairwise_append] at hd
  exact hd.2.2 m' hm' m (by simp) h1 h2

/-! ### refill_once, refill_all, the wait loops -/

theorem refines_refillOnce {c evs ret st r st'} (h : Refines c evs ret st)
    (hd : DistinctReplySerials (c ++ st.wire)) (hr : refillOnce st = some (r, st')) :
    ∃ c', c ++ st.wire = c' ++ st'.wire ∧ Refines c' evs ret st' := by
  unfold refillOnce at hr
  split at hr
  · simp only [Option.some.injEq, Prod.mk.injEq] at hr
    obtain ⟨_, rfl⟩ := hr
    exact ⟨c, rfl, h⟩
  · rename_i m w hw
    split at hr
    · simp at hr
    · rename_i st1 hi
      simp only [Option.some.injEq, Prod.mk.injEq] at hr
      obtain ⟨_, rfl⟩ := hr
      rw [hw] at hd
      obtain ⟨h1, h2⟩ := refines_insertOrSendError (refines_wire w h) (freshKey_of_distinct hd) hi
      refine ⟨c ++ [m], ?_, h1⟩
      rw [h2, hw]; simp

theorem refines_refillAllLoop : ∀ (w : List Msg) {c evs ret st acc errs st'},
    Refines c evs (ret ++ acc) st → st.wire = w → DistinctReplySerials (c ++ w) →
    refillAllLoop w st acc = some (errs, st') →
    Refines (c ++ w) evs (ret ++ errs) st' ∧ st'.wire = [] := by
  intro w
  induction w with
  | nil =>
    intro c evs ret st acc errs st' h hw _ hl
    simp only [refillAllLoop, Option.some.injEq, Prod.mk.injEq] at hl
    obtain ⟨rfl, rfl⟩ := hl
    exact ⟨by simpa using h, hw⟩
  | cons m w ih =>
    intro c evs ret st acc errs st' h hw hd hl
    have hfk := freshKey_of_distinct hd
    have hd' : DistinctReplySerials ((c ++ [m]) ++ w) := by simpa using hd
    have hcw : c ++ m :: w = (c ++ [m]) ++ w := by simp
    rw [hcw]
    simp only [refillAllLoop] at hl
    split at hl
    · rename_i hacc
      split at hl
      · simp at hl
      · rename_i st1 ha
        obtain ⟨h1, h2⟩ := refines_acceptInto (refines_wire w h) hacc hfk ha
        exact ih h1 (by rw [h2]) hd' hl
    · rename_i hacc
      have hacc : m.accepted = false := by simpa using hacc
      split at hl <;> rename_i ht
      · have := refines_rejCall_returned (refines_wire w h) hacc (by simp [isCall, ht])
        rw [List.append_assoc] at this
        exact ih this rfl hd' hl
      · exact ih (refines_drop (refines_wire w h) hacc (by simp [isCall, ht])) rfl hd' hl
      · exact ih (refines_drop (refines_wire w h) hacc (by simp [isCall, ht])) rfl hd' hl
      · exact ih (refines_drop (refines_wire w h) hacc (by simp [isCall, ht])) rfl hd' hl

theorem refines_refillAll {c evs ret st errs st'} (h : Refines c evs ret st)
    (hd : DistinctReplySerials (c ++ st.wire)) (hr : refillAll st = some (errs, st')) :
    c ++ st.wire = (c ++ st.wire) ++ st'.wire ∧ Refines (c ++ st.wire) evs (ret ++ errs) st' := by
  unfold refillAll at hr
  obtain ⟨h1, h2⟩ := refines_refillAllLoop st.wire (acc := []) (by simpa using h) rfl hd hr
  exact ⟨by simp [h2], h1⟩

theorem refines_waitLoop (k : Consumer) : ∀ (fuel : Nat) {c evs ret st r st'},
    Refines c evs ret st → DistinctReplySerials (c ++ st.wire) →
    waitLoop k fuel st = some (r, st') →
    ∃ c', c ++ st.wire = c' ++ st'.wire ∧ Refines c' (evs ++ optEvent k r) ret st' := by
  intro fuel
  induction fuel with
  | zero =>
    intro c evs ret st r st' h _ hw
    simp only [waitLoop, Option.some.injEq, Prod.mk.injEq] at hw
    obtain ⟨rfl, rfl⟩ := hw
    exact ⟨c, rfl, by simpa [optEvent] using h⟩
  | succ fuel ih =>
    intro c evs ret st r st' h hd hw
    simp only [waitLoop] at hw
    cases ht : tryGet st k with
    | mk r0 st0 =>
      obtain ⟨h1, h2⟩ := refines_tryGet h ht
      rw [ht] at hw
      cases r0 with
      | some m =>
        simp only [Option.some.injEq, Prod.mk.injEq] at hw
        obtain ⟨rfl, rfl⟩ := hw
        exact ⟨c, by rw [h2], h1⟩
      | none =>
        simp only [optEvent, List.append_nil] at h1
        simp only at hw
        cases hro : refillOnce st0 with
        | none => simp [hro] at hw
        | some p =>
          obtain ⟨r1, st1⟩ := p
          obtain ⟨c1, hc1, hr1⟩ := refines_refillOnce h1 (by rw [h2]; exact hd) hro
          rw [hro] at hw
          cases r1 with
          | none =>
            simp only [Option.some.injEq, Prod.mk.injEq] at hw
            obtain ⟨rfl, rfl⟩ := hw
            exact ⟨c1, by rw [← hc1, h2], by simpa [optEvent] using hr1⟩
          | some t =>
            simp only at hw
            obtain ⟨c2, hc2, hr2⟩ := ih hr1 (by rw [← hc1, h2]; exact hd) hw
            exact ⟨c2, by rw [← hc2, ← hc1, h2], hr2⟩

end Rustbus.Rpc
