import RustbusModel.Lemmas.SigPrint
/-!
`SignatureIter` (bracket counting) against the printed form.
-/
namespace Rustbus.Sig
open Rustbus Rustbus.Spec.Sig Ty

/-! ### single steps of the scan -/

theorem iter_a {s : List Char} {p : Nat} {tl : List Char} (f : Nat) (k : Int)
    (h : s.drop p = 'a' :: tl) : iterNextAux (f + 1) s p k = iterNextAux f s (p + 1) k := by
  simp [iterNextAux, h]

theorem iter_open {s : List Char} {p : Nat} {c : Char} {tl : List Char} (f : Nat) (k : Int)
    (h : s.drop p = c :: tl) (hc : c = '(' ∨ c = '{') (hk : 0 ≤ k) :
    iterNextAux (f + 1) s p k = iterNextAux f s (p + 1) (k + 1) := by
  have : k + 1 ≠ 0 := by omega
  rcases hc with rfl | rfl <;> simp [iterNextAux, h, this]

theorem iter_close {s : List Char} {p : Nat} {c : Char} {tl : List Char} (f : Nat) (k : Int)
    (h : s.drop p = c :: tl) (hc : c = ')' ∨ c = '}') :
    iterNextAux (f + 1) s p (k + 1) =
      if k = 0 then some (p + 1) else iterNextAux f s (p + 1) k := by
  rcases hc with rfl | rfl <;> simp [iterNextAux, h]

theorem iter_plain {s : List Char} {p : Nat} {c : Char} {tl : List Char} (f : Nat) (k : Int)
    (h : s.drop p = c :: tl) (h1 : c ≠ 'a') (h2 : c ≠ '(') (h3 : c ≠ '{') (h4 : c ≠ ')')
    (h5 : c ≠ '}') :
    iterNextAux (f + 1) s p k = if k = 0 then some (p + 1) else iterNextAux f s (p + 1) k := by
  simp [iterNextAux, h, h1, h2, h3, h4, h5]

/-! ### scanning a complete type -/

mutual
theorem iter_ty : (t : Ty) → ∀ (s : List Char) (p : Nat) (rest : List Char) (k : Int) (fuel : Nat),
    0 ≤ k → s.drop p = toStr t ++ rest →
    iterNextAux (fuel + (toStr t).length) s p k =
      if k = 0 then some (p + (toStr t).length) else iterNextAux fuel s (p + (toStr t).length) k
  | .base b, s, p, rest, k, fuel, hk, h => by
    obtain ⟨h1, h2, h3, h4, h5, -, -⟩ := base_char_facts b
    simp only [toStr, List.cons_append, List.nil_append, List.length_cons, List.length_nil] at h ⊢
    exact iter_plain fuel k h h3 h1 h4 h2 h5
  | .variant, s, p, rest, k, fuel, hk, h => by
    simp only [toStr, List.cons_append, List.nil_append, List.length_cons, List.length_nil] at h ⊢
    exact iter_plain fuel k h (by decide) (by decide) (by decide) (by decide) (by decide)
  | .array e, s, p, rest, k, fuel, hk, h => by
    simp only [toStr, List.cons_append, List.length_cons] at h ⊢
    have ih := iter_ty e s (p + 1) rest k fuel hk (drop_succ_of_cons h)
    rw [← Nat.add_assoc, iter_a _ _ h, ih]
    have : p + 1 + e.toStr.length = p + (e.toStr.length + 1) := by omega
    rw [this]
  | .dict kb v, s, p, rest, k, fuel, hk, h => by
    simp only [toStr, List.cons_append, List.append_assoc, List.nil_append, List.length_cons,
      List.length_append, List.length_nil] at h ⊢
    have h1 := drop_succ_of_cons h
    have h2 := drop_succ_of_cons h1
    have h3 := drop_succ_of_cons h2
    have h4 := drop_add_of_append h3
    obtain ⟨b1, b2, b3, b4, b5, -, -⟩ := base_char_facts kb
    have e1 : fuel + (v.toStr.length + 0 + 1 + 1 + 1 + 1) = ((fuel + 1) + v.toStr.length) + 1 + 1 + 1 := by
      omega
    have ih := iter_ty v s (p + 1 + 1 + 1) ('}' :: rest) (k + 1) (fuel + 1) (by omega) h3
    rw [e1, iter_a _ _ h, iter_open _ _ h1 (Or.inr rfl) hk,
      iter_plain _ _ h2 b3 b1 b4 b2 b5, if_neg (by omega), ih, if_neg (by omega),
      iter_close _ _ h4 (Or.inr rfl)]
    have : p + 1 + 1 + 1 + v.toStr.length + 1 = p + (v.toStr.length + 0 + 1 + 1 + 1 + 1) := by omega
    rw [this]
  | .struct fs, s, p, rest, k, fuel, hk, h => by
    simp only [toStr, List.cons_append, List.append_assoc, List.nil_append, List.length_cons,
      List.length_append, List.length_nil] at h ⊢
    have h1 := drop_succ_of_cons h
    have h2 := drop_add_of_append h1
    have e1 : fuel + ((listToStr fs).length + 0 + 1 + 1) = ((fuel + 1) + (listToStr fs).length) + 1 := by
      omega
    have ih := iter_list fs s (p + 1) (')' :: rest) (k + 1) (fuel + 1) (by omega) h1
    rw [e1, iter_open _ _ h (Or.inl rfl) hk, ih, iter_close _ _ h2 (Or.inl rfl)]
    have : p + 1 + (listToStr fs).length + 1 = p + ((listToStr fs).length + 0 + 1 + 1) := by omega
    rw [this]
theorem iter_list : (ts : List Ty) → ∀ (s : List Char) (p : Nat) (rest : List Char) (k : Int)
    (fuel : Nat), 0 < k → s.drop p = listToStr ts ++ rest →
    iterNextAux (fuel + (listToStr ts).length) s p k =
      iterNextAux fuel s (p + (listToStr ts).length) k
  | [], s, p, rest, k, fuel, hk, h => by simp [listToStr]
  | t :: ts, s, p, rest, k, fuel, hk, h => by
    simp only [listToStr, List.append_assoc, List.length_append] at h ⊢
    have h1 := iter_ty t s p (listToStr ts ++ rest) k (fuel + (listToStr ts).length) (by omega) h
    have h2 := iter_list ts s (p + t.toStr.length) rest k fuel hk (drop_add_of_append h)
    have e1 : fuel + (t.toStr.length + (listToStr ts).length) =
        fuel + (listToStr ts).length + t.toStr.length := by omega
    rw [e1, h1, if_neg (by omega), h2, Nat.add_assoc]
end

/-! ### one iterator step, the whole iterator -/

theorem iterNext_ty (t : Ty) (rest : List Char) :
    iterNext (toStr t ++ rest) = some (toStr t, rest) := by
  have h := iter_ty t (toStr t ++ rest) 0 rest 0 (rest.length + 1) (by omega) rfl
  unfold iterNext
  have e : (toStr t ++ rest).length + 1 = rest.length + 1 + (toStr t).length := by
    simp only [List.length_append]; omega
  rw [e, h]
  simp

theorem iterAll_succ {f : Nat} {s : List Char} (hs : s ≠ []) :
    iterAll (f + 1) s =
      match iterNext s with
      | some (h, r) => (iterAll f r).map (h :: ·)
      | none => none := by
  cases s with
  | nil => exact absurd rfl hs
  | cons c tl => rfl

theorem iterAll_list : (ts : List Ty) → ∀ fuel, (listToStr ts).length < fuel →
    iterAll fuel (listToStr ts) = some (ts.map toStr)
  | [], fuel, hf => by
    obtain ⟨f, rfl⟩ : ∃ f, fuel = f + 1 := ⟨fuel - 1, by omega⟩
    simp [iterAll, listToStr]
  | t :: ts, fuel, hf => by
    obtain ⟨f, rfl⟩ : ∃ f, fuel = f + 1 := ⟨fuel - 1, by omega⟩
    simp only [listToStr, List.length_append] at hf ⊢
    have hp := toStr_length_pos t
    have hne : toStr t ++ listToStr ts ≠ [] := by
      intro h0; have := congrArg List.length h0
      simp only [List.length_append, List.length_nil] at this; omega
    have ih := iterAll_list ts f (by omega)
    rw [iterAll_succ hne, iterNext_ty]
    simp [ih]

theorem sigIter_of_denotes' (s : List Char) (ts : List Ty) (h : Denotes s ts) :
    sigIter s = some (ts.map Ty.toStr) := by
  obtain ⟨-, rfl, -⟩ := h
  exact iterAll_list ts _ (by omega)

end Rustbus.Sig
