import RustbusModel.Model.Sig
import RustbusModel.Spec.Sig
import RustbusModel.Lemmas.SigPrint
import RustbusModel.Lemmas.SigParse
import RustbusModel.Lemmas.SigValidate
import RustbusModel.Lemmas.SigIter
/-!
Helper lemmas for C07. The three statements at the end are what Props/C07.lean uses.
The proofs live in
* `Lemmas/SigPrint.lean`    — facts about the printed form `Ty.toStr` (first/last character, ASCII,
                              nesting depth vs `depthOk`)
* `Lemmas/SigParse.lean`    — `parseNext`/`parseStruct`/`parseDictEntry`/`parseAll`: completeness
                              (structural induction on `Ty`) and soundness (induction on fuel)
* `Lemmas/SigValidate.lean` — `validateNext`/`validateStruct`/`validateLoop`: the same two directions
* `Lemmas/SigIter.lean`     — bracket counting of `SignatureIter`
-/
namespace Rustbus.Sig
open Rustbus Rustbus.Spec.Sig

theorem parseDescription_iff (s : List Char) (ts : List Ty) :
    parseDescription s = some ts ↔ Denotes s ts :=
  parseDescription_iff' s ts

theorem validateSignature_iff (s : List Char) : validateSignature s = true ↔ Valid s :=
  validateSignature_iff' s

theorem sigIter_of_denotes (s : List Char) (ts : List Ty) (h : Denotes s ts) :
    sigIter s = some (ts.map Ty.toStr) :=
  sigIter_of_denotes' s ts h

end Rustbus.Sig
