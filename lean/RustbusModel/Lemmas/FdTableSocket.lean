import RustbusModel.Lemmas.FdTableFrames
/-!
C11: sending, receiving, unmarshalling — what exactly the operations do (used by `Props/C11.lean`).
-/
namespace Rustbus.FdTable

/-- If the holders (handles, bodies), the caller-owned set and all old cells are the same in two states that
    both satisfy the invariant, the same descriptors are open: whatever was created in between has been
    closed again, and nothing else was closed. -/
theorem open_same_of_holders_same {s s' : State} (hs : Inv s) (hs' : Inv s')
    (hh : s'.handles = s.handles) (hb : s'.bodies = s.bodies) (hu : s'.user = s.user)
    (hc : ∀ (c : Nat) (x : Cell), s.cells[c]? = some x → s'.cells[c]? = some x) :
    ∀ d, d ∈ keys s'.open ↔ d ∈ keys s.open := by
  intro d
  constructor
  · intro hd
    rcases hs'.noLeak d hd with hu' | ⟨c, x, hx, hrefs, htk, hfd⟩
    · rw [hu] at hu'; exact hs.userOpen d hu'
    · by_cases hlt : c < s.cells.length
      · have hx0 : s.cells[c]? = some s.cells[c] := by simp [hlt]
        have := hc c _ hx0
        rw [hx] at this; simp only [Option.some.injEq] at this; subst this
        exact (hs.ownOpen c d ⟨_, hx0, hrefs, htk, hfd⟩).1
      · exfalso
        have h0 := hs'.cnt c x hx
        have hz : refCount s c = 0 := refCount_zero_of_ge hs (Nat.le_of_not_lt hlt)
        simp only [refCount, hb, hh, List.count_nil, Nat.add_zero] at h0
        simp only [refCount] at hz
        omega
  · intro hd
    rcases hs.noLeak d hd with hu' | ⟨c, x, hx, hrefs, htk, hfd⟩
    · exact hs'.userOpen d (by rw [hu]; exact hu')
    · exact (hs'.ownOpen c d ⟨x, hc c x hx, hrefs, htk, hfd⟩).1

/-! ### `refill_buffer`: the descriptors of one message are installed -/

structure Installed (s s1 : State) (fs cs : List Nat) : Prop where
  len : cs.length = fs.length
  each : ∀ (j f : Nat), fs[j]? = some f → ∃ c, cs[j]? = some c ∧
    s1.cells[c]? = some (Cell.mk (s.nextFd + j) false 1) ∧ lookupFd s1.open (s.nextFd + j) = some f ∧
    (s.nextFd + j) ∈ s1.lib
  fresh : ∀ c, c ∈ cs → s.cells.length ≤ c
  cells : ∀ (c : Nat) (x : Cell), s.cells[c]? = some x → s1.cells[c]? = some x
  lookupMono : ∀ d f, lookupFd s.open d = some f → lookupFd s1.open d = some f
  nextFd : s1.nextFd = s.nextFd + fs.length
  handles : s1.handles = s.handles
  bodies : s1.bodies = s.bodies
  raws : s1.raws = s.raws
  takenFds : s1.takenFds = s.takenFds
  libMono : ∀ d, d ∈ s.lib → d ∈ s1.lib

theorem installAll_spec : ∀ (fs : List Nat) (s : State), (∀ d, d ∈ keys s.open → d < s.nextFd) →
    Installed s (installAll s fs).1 fs (installAll s fs).2 ∧
      (∀ d, d ∈ keys (installAll s fs).1.open → d < (installAll s fs).1.nextFd)
  | [], s, hb => by
    refine ⟨⟨rfl, by simp, by simp [installAll], fun _ _ h => h, fun _ _ h => h, rfl, rfl, rfl, rfl, rfl,
      fun _ h => h⟩, hb⟩
  | f :: fs, s, hb => by
    simp only [installAll]
    have hfresh : s.nextFd ∉ keys s.open := fun hm => Nat.lt_irrefl _ (hb _ hm)
    have hb' : ∀ d, d ∈ keys (createOwned s f).1.open → d < (createOwned s f).1.nextFd := by
      intro k hk
      simp only [createOwned_eq, keys_append, List.mem_append] at hk ⊢
      rcases hk with hk | hk
      · have := hb k hk; omega
      · simp [keys] at hk; omega
    obtain ⟨hi, hbnd⟩ := installAll_spec fs (createOwned s f).1 hb'
    have hn' : (createOwned s f).1.nextFd = s.nextFd + 1 := rfl
    have hcl' : (createOwned s f).1.cells.length = s.cells.length + 1 := by simp [createOwned_eq]
    have hnewcell : (createOwned s f).1.cells[s.cells.length]? = some ⟨s.nextFd, false, 1⟩ := by
      simp [createOwned_eq]
    have hcells' : ∀ (c : Nat) (x : Cell), s.cells[c]? = some x → (createOwned s f).1.cells[c]? = some x := by
      intro c x hx
      simp only [createOwned_eq, getElem?_append_single, lt_length_of_getElem? hx, if_true]; exact hx
    have hlook' : ∀ k g, lookupFd s.open k = some g → lookupFd (createOwned s f).1.open k = some g := by
      intro k g hk; simp only [createOwned_eq]; exact lookup_append_left _ hk
    refine ⟨⟨by simp [hi.len], ?_, ?_, ?_, ?_, ?_, hi.handles, hi.bodies, hi.raws, hi.takenFds, ?_⟩, hbnd⟩
    · intro j g hj
      cases j with
      | zero =>
        simp only [List.getElem?_cons_zero, Option.some.injEq] at hj; subst hj
        refine ⟨s.cells.length, rfl, hi.cells _ _ hnewcell, ?_, ?_⟩
        · apply hi.lookupMono; simp only [createOwned_eq, Nat.add_zero]; exact lookup_append_fresh hfresh
        · apply hi.libMono; simp [createOwned_eq]
      | succ n =>
        simp only [List.getElem?_cons_succ] at hj ⊢
        obtain ⟨c, h1, h2, h3, h4⟩ := hi.each n g hj
        rw [hn'] at h2 h3 h4
        have e : s.nextFd + 1 + n = s.nextFd + (n + 1) := by omega
        rw [e] at h2 h3 h4
        exact ⟨c, h1, h2, h3, h4⟩
    · intro c hc
      simp only [List.mem_cons] at hc
      rcases hc with hc | hc
      · subst hc; exact Nat.le_refl _
      · have := hi.fresh c hc; omega
    · intro c x hx; exact hi.cells c x (hcells' c x hx)
    · intro k g hk; exact hi.lookupMono k g (hlook' k g hk)
    · rw [hi.nextFd, hn']; simp only [List.length_cons]; omega
    · intro d hd; apply hi.libMono; simp [createOwned_eq, hd]

/-! ### `get_raw_fds` and SCM_RIGHTS -/

theorem filesOf_spec (s : State) : ∀ (l : List Nat), (∀ d, d ∈ l → d ∈ keys s.open) →
    ∃ fl, filesOf s l = some fl ∧ fl.length = l.length ∧
      ∀ (j d : Nat), l[j]? = some d → ∃ f, fl[j]? = some f ∧ lookupFd s.open d = some f
  | [], _ => ⟨[], rfl, rfl, by simp⟩
  | d :: ds, h => by
    obtain ⟨f, hf⟩ := lookup_of_mem_keys (h d (by simp))
    obtain ⟨fl, h1, h2, h3⟩ := filesOf_spec s ds (fun k hk => h k (by simp [hk]))
    refine ⟨f :: fl, by simp [filesOf, hf, h1], by simp [h2], ?_⟩
    intro j k hj
    cases j with
    | zero => simp only [List.getElem?_cons_zero, Option.some.injEq] at hj; subst hj; exact ⟨f, rfl, hf⟩
    | succ n => simp only [List.getElem?_cons_succ] at hj ⊢; exact h3 n k hj

/-- every number `get_raw_fds` returns is an open descriptor -/
theorem rawFdsOf_open {s : State} (hs : Inv s) {b : Nat} {bd : Body} (hb : s.bodies[b]? = some bd) :
    ∀ d, d ∈ rawFdsOf s bd.fds → d ∈ keys s.open := by
  intro d hd
  simp only [rawFdsOf, List.mem_filterMap] at hd
  obtain ⟨c, hc, hd⟩ := hd
  split at hd
  · next x hx =>
    split at hd
    · simp at hd
    · next htk =>
      simp only [Option.some.injEq] at hd
      have hpos : 0 < refCount s c := by
        have := bcount_ge c hb
        have : 0 < bd.fds.count c := List.count_pos_iff.2 hc
        simp only [refCount]; omega
      have := hs.cnt c x hx
      exact (hs.ownOpen c d ⟨x, hx, by simp at this; omega, by simpa using htk, hd⟩).1
  · simp at hd

/-- when no descriptor of the list has been taken out, `get_raw_fds` returns one number per entry -/
theorem rawFdsOf_untaken (s : State) : ∀ (fds : List Nat),
    (∀ c, c ∈ fds → ∃ x, s.cells[c]? = some x ∧ x.taken = false) →
    (rawFdsOf s fds).length = fds.length ∧
      ∀ (j c : Nat), fds[j]? = some c → ∃ x, s.cells[c]? = some x ∧ (rawFdsOf s fds)[j]? = some x.fd
  | [], _ => by simp [rawFdsOf]
  | c :: cs, h => by
    obtain ⟨x, hx, htk⟩ := h c (by simp)
    obtain ⟨h1, h2⟩ := rawFdsOf_untaken s cs (fun k hk => h k (by simp [hk]))
    have e : rawFdsOf s (c :: cs) = x.fd :: rawFdsOf s cs := by
      simp [rawFdsOf, hx, htk]
    rw [e]
    refine ⟨by simp [h1], ?_⟩
    intro j k hj
    cases j with
    | zero => simp only [List.getElem?_cons_zero, Option.some.injEq] at hj; subst hj; exact ⟨x, hx, rfl⟩
    | succ n => simp only [List.getElem?_cons_succ] at hj ⊢; exact h2 n k hj

end Rustbus.FdTable
