import RustbusModel.Lemmas.RpcRun
/-! C14 availability: helper lemmas (what is stored is what `try_get_*` finds; a blocked wait loop leaves nothing stored) -/
namespace Rustbus.Rpc

/-- what `try_get_*` finds for a consumer in the stored messages (nothing is read from the socket) -/
def stored (st : State) : Consumer → Option Msg
  | .signal => st.signals.head?
  | .call => st.calls.head?
  | .response s => (st.responses.find? (fun p => p.1 == s)).map (·.2)

theorem tryGet_is_stored (st : State) (k : Consumer) : (tryGet st k).1 = stored st k := by
  cases k with
  | signal => cases h : st.signals <;> simp [tryGet, stored, h]
  | call => cases h : st.calls <;> simp [tryGet, stored, h]
  | response s =>
    simp only [tryGet, stored, mapRemove]
    cases st.responses.find? (fun p => p.1 == s) <;> simp

/-- the loop behind `blocked_wait_means_absent` -/
theorem waitLoop_blocked_absent (k : Consumer) : ∀ (fuel : Nat) (st st' : State),
    st.wire.length < fuel → waitLoop k fuel st = some (none, st') → stored st' k = none := by
  intro fuel
  induction fuel with
  | zero => intro st st' h; omega
  | succ fuel ih =>
    intro st st' hlt hw
    simp only [waitLoop] at hw
    cases ht : tryGet st k with
    | mk r0 st0 =>
      rw [ht] at hw
      cases r0 with
      | some m => simp at hw
      | none =>
        simp only at hw
        have hs0 : stored st k = none := by rw [← tryGet_is_stored, ht]
        have hst0 : st0 = st := by
          cases k with
          | signal =>
            simp only [tryGet] at ht
            cases hsg : st.signals with
            | nil => rw [hsg] at ht; simp at ht; exact ht.symm
            | cons a b => rw [hsg] at ht; simp at ht
          | call =>
            simp only [tryGet] at ht
            cases hsg : st.calls with
            | nil => rw [hsg] at ht; simp at ht; exact ht.symm
            | cons a b => rw [hsg] at ht; simp at ht
          | response s =>
            simp only [tryGet, mapRemove] at ht
            cases hf : st.responses.find? (fun p => p.1 == s) with
            | none => rw [hf] at ht; simp at ht; exact ht.symm
            | some p => rw [hf] at ht; simp at ht
        subst hst0
        cases hro : refillOnce st0 with
        | none => simp [hro] at hw
        | some p =>
          obtain ⟨r1, st1⟩ := p
          rw [hro] at hw
          cases r1 with
          | none =>
            simp only [Option.some.injEq, Prod.mk.injEq, true_and] at hw
            subst hw
            unfold refillOnce at hro
            cases hwire : st0.wire with
            | nil => rw [hwire] at hro; simp at hro; rw [← hro]; exact hs0
            | cons a b =>
              rw [hwire] at hro
              simp only at hro
              cases hins : insertOrSendError { st0 with wire := b } a with
              | none => rw [hins] at hro; simp at hro
              | some x => rw [hins] at hro; simp at hro
          | some t =>
            simp only at hw
            rcases refillOnce_wire hro with ⟨_, hr1, _⟩ | ⟨m, hm, _⟩
            · simp at hr1
            · apply ih st1 st' _ hw
              rw [hm] at hlt
              simp only [List.length_cons] at hlt
              omega

end Rustbus.Rpc
