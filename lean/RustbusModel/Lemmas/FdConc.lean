import RustbusModel.Model.FdConc
/-!
C12 helper lemmas, part 1: per-thread measures, what one atomic step does to them (`stepThread_local`).
-/
namespace Rustbus.FdConc

/-- sum of a per-thread measure -/
def sumBy (f : Thread → Nat) : List Thread → Nat
  | [] => 0
  | th :: l => f th + sumBy f l

theorem sumBy_split (f : Thread → Nat) : ∀ (l : List Thread) (i : Nat) (a : Thread), l[i]? = some a →
    ∃ r, sumBy f l = f a + r ∧ ∀ b, sumBy f (l.set i b) = f b + r := by
  intro l
  induction l with
  | nil => intro i a h; simp at h
  | cons x l ih =>
    intro i a h
    cases i with
    | zero =>
      simp only [List.getElem?_cons_zero, Option.some.injEq] at h
      subst h
      exact ⟨sumBy f l, rfl, fun b => rfl⟩
    | succ i =>
      simp only [List.getElem?_cons_succ] at h
      obtain ⟨r, h1, h2⟩ := ih i a h
      refine ⟨f x + r, ?_, ?_⟩
      · simp only [sumBy, h1]; omega
      · intro b; simp only [List.set_cons_succ, sumBy, h2]; omega

theorem sumBy_eq_zero (f : Thread → Nat) : ∀ (l : List Thread), (∀ th ∈ l, f th = 0) → sumBy f l = 0 := by
  intro l
  induction l with
  | nil => intro _; rfl
  | cons x l ih =>
    intro h
    simp only [sumBy, h x (List.mem_cons_self), ih (fun th hth => h th (List.mem_cons_of_mem _ hth))]

/-- handles the thread accounts for in the `Arc` count: the ones it owns plus the one it is consuming -/
def held (th : Thread) : Nat :=
  th.handles + (match th.pc with | .takeLoad | .takeCas _ | .takeDec _ | .dropDec => 1 | _ => 0)

/-- the thread is executing `Drop for UnixFdInner` of the shared cell -/
def inDrop (th : Thread) : Nat :=
  match th.pc with | .innerDrop _ | .dropLoad _ | .dropCas _ _ | .dropClose _ _ => 1 | _ => 0

def atClose (th : Thread) : Nat :=
  match th.pc with | .dropClose _ _ => 1 | _ => 0

/-- a successful take whose result has not been reported yet -/
def pendTake (th : Thread) : Nat :=
  match th.pc with
  | .takeDec (some _) => 1
  | .innerDrop k | .dropLoad k | .dropCas k _ | .dropClose k _ => if k.isTakeSome then 1 else 0
  | _ => 0

def resTakes (th : Thread) : Nat := th.results.countP Res.isTakeSome

def Res.wf (orig : Int) : Res → Prop
  | .takeSome fd => fd = orig
  | _ => True

/-- the values a thread carries around are the original descriptor -/
def Pc.wf (orig : Int) : Pc → Prop
  | .takeCas v => v = orig
  | .takeDec (some v) => v = orig
  | .innerDrop k | .dropLoad k => k.wf orig
  | .dropCas k v | .dropClose k v => v = orig ∧ k.wf orig
  | _ => True

def Thread.wf (orig : Int) (th : Thread) : Prop :=
  th.pc.wf orig ∧ ∀ r ∈ th.results, r.wf orig

def b2n (p : Prop) [Decidable p] : Nat := if p then 1 else 0

/-- everything the global invariant needs to know about one atomic step of one thread -/
structure Local (orig : Int) (sh : Shared) (th : Thread) (sh' : Shared) (th' : Thread) (acts : List Act) : Prop where
  inner' : sh'.inner = orig ∨ sh'.inner = -1
  wf' : th'.wf orig
  heldEq : held th' + sh.strong = held th + sh'.strong
  incHeld : sh.strong < sh'.strong → 1 ≤ held th
  casEq : acts.countP Act.isTook + acts.countP Act.isDropCas + b2n (sh'.inner = orig) = b2n (sh.inner = orig)
  closeEq : acts.countP (Act.isCloseOf orig) + atClose th' = atClose th + acts.countP Act.isDropCas
  takeEq : resTakes th' + pendTake th' = resTakes th + pendTake th + acts.countP Act.isTook
  dcasDrop : acts.countP Act.isDropCas ≤ inDrop th
  dropStrong : inDrop th = 1 → sh'.strong = sh.strong
  enterDrop : inDrop th' ≤ inDrop th ∨ (inDrop th = 0 ∧ inDrop th' = 1 ∧ sh.strong = 1 ∧ sh'.strong = 0)
  lastDec : sh'.strong < sh.strong → sh'.strong = 0 → inDrop th' = 1
  goneStable : sh.inner = -1 → sh'.inner = -1
  leaveDrop : inDrop th = 1 → inDrop th' = 0 → sh'.inner = -1 ∨ atClose th = 1

macro "fdc_close" : tactic => `(tactic|
  (constructor <;>
    (try simp_all [held, inDrop, atClose, pendTake, resTakes, Thread.wf, Thread.finish, Pc.wf, Res.wf, b2n,
      Act.isTook, Act.isDropCas, Act.isCloseOf, Res.isTakeSome, List.countP_cons, List.countP_nil]) <;>
    (try omega) <;>
    (try (intro r hr; rcases hr with hr | rfl <;> simp_all [Res.wf]))))

theorem stepThread_local (orig : Int) (ho : orig ≠ -1) {sh sh' : Shared} {th th' : Thread} {acts : List Act}
    (h : stepThread sh th = some (sh', th', acts)) (hin : sh.inner = orig ∨ sh.inner = -1)
    (hw : th.wf orig) : Local orig sh th sh' th' acts := by
  obtain ⟨prog, handles, pc, results⟩ := th
  obtain ⟨inner, strong, nextDup⟩ := sh
  obtain ⟨hpc, hres⟩ := hw
  simp only at hin hpc hres
  cases pc with
  | idle =>
    cases prog with
    | nil =>
      cases handles with
      | zero => simp [stepThread] at h
      | succ n =>
        simp only [stepThread, Option.some.injEq, Prod.mk.injEq] at h
        obtain ⟨rfl, rfl, rfl⟩ := h
        fdc_close
    | cons op rest =>
      cases handles with
      | zero => simp [stepThread] at h
      | succ n =>
        cases op <;>
        · simp only [stepThread, Option.some.injEq, Prod.mk.injEq] at h
          obtain ⟨rfl, rfl, rfl⟩ := h
          fdc_close
  | takeLoad =>
    simp only [stepThread] at h
    split at h <;>
    · simp only [Option.some.injEq, Prod.mk.injEq] at h
      obtain ⟨rfl, rfl, rfl⟩ := h
      fdc_close
  | takeCas v =>
    simp only [stepThread] at h
    split at h <;>
    · simp only [Option.some.injEq, Prod.mk.injEq] at h
      obtain ⟨rfl, rfl, rfl⟩ := h
      fdc_close
  | takeDec r =>
    simp only [stepThread, decrement] at h
    cases r <;> split at h <;>
    first
    | (simp at h; done)
    | (simp only [Option.some.injEq, Prod.mk.injEq] at h
       obtain ⟨rfl, rfl, rfl⟩ := h
       fdc_close)
  | getLoad =>
    simp only [stepThread, Option.some.injEq, Prod.mk.injEq] at h
    obtain ⟨rfl, rfl, rfl⟩ := h
    by_cases hi : inner = -1 <;> fdc_close
  | dupLoad =>
    simp only [stepThread] at h
    split at h <;>
    · simp only [Option.some.injEq, Prod.mk.injEq] at h
      obtain ⟨rfl, rfl, rfl⟩ := h
      fdc_close
  | dupSys v =>
    simp only [stepThread, Option.some.injEq, Prod.mk.injEq] at h
    obtain ⟨rfl, rfl, rfl⟩ := h
    fdc_close
  | dupClose n =>
    simp only [stepThread, Option.some.injEq, Prod.mk.injEq] at h
    obtain ⟨rfl, rfl, rfl⟩ := h
    fdc_close
  | dupLoadF =>
    simp only [stepThread] at h
    split at h <;>
    · simp only [Option.some.injEq, Prod.mk.injEq] at h
      obtain ⟨rfl, rfl, rfl⟩ := h
      fdc_close
  | dupSysF v =>
    simp only [stepThread, Option.some.injEq, Prod.mk.injEq] at h
    obtain ⟨rfl, rfl, rfl⟩ := h
    fdc_close
  | dropDec =>
    simp only [stepThread, decrement] at h
    split at h <;>
    first
    | (simp at h; done)
    | (simp only [Option.some.injEq, Prod.mk.injEq] at h
       obtain ⟨rfl, rfl, rfl⟩ := h
       fdc_close)
  | innerDrop k =>
    simp only [stepThread, Option.some.injEq, Prod.mk.injEq] at h
    obtain ⟨rfl, rfl, rfl⟩ := h
    fdc_close
  | dropLoad k =>
    simp only [stepThread] at h
    split at h <;>
    · simp only [Option.some.injEq, Prod.mk.injEq] at h
      obtain ⟨rfl, rfl, rfl⟩ := h
      fdc_close
  | dropCas k v =>
    simp only [stepThread] at h
    split at h <;>
    · simp only [Option.some.injEq, Prod.mk.injEq] at h
      obtain ⟨rfl, rfl, rfl⟩ := h
      fdc_close
  | dropClose k v =>
    simp only [stepThread, Option.some.injEq, Prod.mk.injEq] at h
    obtain ⟨rfl, rfl, rfl⟩ := h
    fdc_close

end Rustbus.FdConc
