import RustbusModel.Lemmas.AuthAddr
import RustbusModel.Lemmas.AuthLine
/-
Lemmas for C17 part C, second half: `read_message` as a whole, symbolic execution of `connect_to_bus`
into the relation `Run`, and the simulation between two scripts that carry the same stream.
-/
namespace Rustbus.Auth

/-! ### uid -/

theorem getUidAsHex_eq (uid : Nat) : getUidAsHex uid = some (uidHex uid) := by
  unfold getUidAsHex uidHex
  by_cases h : uid = 0
  · subst h; simp [Nat.toDigits_zero]
  · simp only [h, if_false]
    exact pushDigits_digitsRev uid (by omega)

/-! ### read_message -/

theorem readMessage_ok (st st' : St) (l : List UInt8) (h : readMessage st = (st', .ok l)) :
    ∃ cs extra, LineRead st st' cs l extra ∧ Utf8.valid l = true := by
  unfold readMessage at h
  obtain ⟨cs, hne, hcons, hcase⟩ := readLoop_spec st.script []
  rcases hcase with ⟨B, h1, h2, h3, h4, h5, h6⟩ | ⟨f, stp, h1, _⟩
  · simp only [h1] at h
    obtain ⟨i, hi⟩ := findLineEnding_isSome B h3
    simp only [hi] at h
    obtain ⟨hB, hfirst⟩ := findLineEnding_spec B i hi
    simp only [List.nil_append] at h2
    split at h
    · rename_i hv
      simp only [Prod.mk.injEq, Except.ok.injEq] at h
      obtain ⟨rfl, rfl⟩ := h
      refine ⟨cs, B.drop (i + 2), ⟨hne, h4, ?_, hfirst, by simp [h5], by simp [hcons], rfl, ?_, rfl, rfl⟩, hv⟩
      · rw [← h2]; simpa [crlf] using hB
      · intro cs' a b; simpa using h6 cs' a b
    · simp at h
  · simp [h1] at h

theorem readMessage_err (st st' : St) (e : Fail) (h : readMessage st = (st', .error e)) :
    (e = .invalidData ∧ ∃ cs l extra, LineRead st st' cs l extra ∧ Utf8.valid l = false) ∨
    (∃ cs, StopRead st st' cs e) := by
  unfold readMessage at h
  obtain ⟨cs, hne, hcons, hcase⟩ := readLoop_spec st.script []
  rcases hcase with ⟨B, h1, h2, h3, h4, h5, h6⟩ | ⟨f, stp, h1, hs, h3, h4, h5, h6⟩
  · left
    simp only [h1] at h
    obtain ⟨i, hi⟩ := findLineEnding_isSome B h3
    simp only [hi] at h
    obtain ⟨hB, hfirst⟩ := findLineEnding_spec B i hi
    simp only [List.nil_append] at h2
    split at h
    · simp at h
    · rename_i hv
      simp only [Prod.mk.injEq, Except.error.injEq] at h
      obtain ⟨rfl, rfl⟩ := h
      refine ⟨rfl, cs, B.take i, B.drop (i + 2), ⟨hne, h4, ?_, hfirst, by simp [h5], by simp [hcons], rfl, ?_, rfl, rfl⟩, by simpa using hv⟩
      · rw [← h2]; simpa [crlf] using hB
      · intro cs' a b; simpa using h6 cs' a b
  · right
    simp only [h1, Prod.mk.injEq, Except.error.injEq] at h
    obtain ⟨rfl, rfl⟩ := h
    exact ⟨cs, hne, ⟨stp, hs, h3, h4⟩, by simpa using h6, by simp [h5, Nat.add_assoc], by simp [hcons], rfl, rfl, rfl⟩


theorem readMessage_written (st : St) : (readMessage st).1.written = st.written := by
  unfold readMessage
  dsimp only
  split
  · rfl
  · split
    · rfl
    · split <;> rfl

theorem readMessage_nwrites (st : St) : (readMessage st).1.nwrites = st.nwrites := by
  unfold readMessage
  dsimp only
  split
  · rfl
  · split
    · rfl
    · split <;> rfl

/-! ### symbolic execution of `connect_to_bus` -/

/-- state after the two opening writes -/
def stAuth (script : List Ev) (uid : Nat) : St :=
  { script := script, written := [msgNul, authLine (uidHex uid)], nwrites := 2 }

/-- state after NEGOTIATE_UNIX_FD was written -/
def stNeg (s1 : St) : St := { s1 with written := s1.written ++ [negLine], nwrites := 3 }

/-- all the ways a connection attempt can go -/
inductive Run (wok : Nat → Bool) (uid : Nat) (fd : Bool) (script : List Ev) : St → ConnResult → Prop
  | w0 : wok 0 = false → Run wok uid fd script { script := script, nwrites := 1 } (.fail .ioOther)
  | w1 : wok 0 = true → wok 1 = false →
      Run wok uid fd script { script := script, written := [msgNul], nwrites := 2 } (.fail .ioOther)
  | r1fail (s1 e) : wok 0 = true → wok 1 = true → readMessage (stAuth script uid) = (s1, .error e) →
      Run wok uid fd script s1 (.fail e)
  | rejected1 (s1 l1) : wok 0 = true → wok 1 = true → readMessage (stAuth script uid) = (s1, .ok l1) →
      startsWith okBytes l1 = false → Run wok uid fd script s1 .authFailed
  | w2 (s1 l1) : wok 0 = true → wok 1 = true → readMessage (stAuth script uid) = (s1, .ok l1) →
      startsWith okBytes l1 = true → wok 2 = false →
      Run wok uid fd script { s1 with nwrites := 3 } (.fail .ioOther)
  | okNoFd (s1 l1) : wok 0 = true → wok 1 = true → readMessage (stAuth script uid) = (s1, .ok l1) →
      startsWith okBytes l1 = true → fd = false → wok 2 = true →
      Run wok uid fd script { s1 with written := s1.written ++ [beginLine], nwrites := 3 } .ok
  | r2fail (s1 l1 s2 e) : wok 0 = true → wok 1 = true →
      readMessage (stAuth script uid) = (s1, .ok l1) → startsWith okBytes l1 = true → fd = true →
      wok 2 = true → readMessage (stNeg s1) = (s2, .error e) → Run wok uid fd script s2 (.fail e)
  | rejected2 (s1 l1 s2 l2) : wok 0 = true → wok 1 = true →
      readMessage (stAuth script uid) = (s1, .ok l1) → startsWith okBytes l1 = true → fd = true →
      wok 2 = true → readMessage (stNeg s1) = (s2, .ok l2) → startsWith agreeBytes l2 = false →
      Run wok uid fd script s2 .fdFailed
  | w3 (s1 l1 s2 l2) : wok 0 = true → wok 1 = true →
      readMessage (stAuth script uid) = (s1, .ok l1) → startsWith okBytes l1 = true → fd = true →
      wok 2 = true → readMessage (stNeg s1) = (s2, .ok l2) → startsWith agreeBytes l2 = true →
      wok 3 = false → Run wok uid fd script { s2 with nwrites := 4 } (.fail .ioOther)
  | okFd (s1 l1 s2 l2) : wok 0 = true → wok 1 = true →
      readMessage (stAuth script uid) = (s1, .ok l1) → startsWith okBytes l1 = true → fd = true →
      wok 2 = true → readMessage (stNeg s1) = (s2, .ok l2) → startsWith agreeBytes l2 = true →
      wok 3 = true →
      Run wok uid fd script { s2 with written := s2.written ++ [beginLine], nwrites := 4 } .ok

theorem connect_run (wok : Nat → Bool) (uid : Nat) (fd : Bool) (script : List Ev) :
    Run wok uid fd script (connect wok uid fd script).1 (connect wok uid fd script).2 := by
  unfold connect connectFrom doAuth
  simp only [send, getUidAsHex_eq]
  cases h0 : wok 0 with
  | false => simpa using Run.w0 h0
  | true =>
    simp
    cases h1 : wok 1 with
    | false => simpa using Run.w1 (uid := uid) (fd := fd) (script := script) h0 h1
    | true =>
      simp only [if_true]
      have hst : ({ script := script, written := [msgNul, authLine (uidHex uid)], nwrites := 2 } : St)
          = stAuth script uid := rfl
      rw [hst]
      rcases hr : readMessage (stAuth script uid) with ⟨s1, res⟩
      have hn1 : s1.nwrites = 2 := by
        have := readMessage_nwrites (stAuth script uid); rw [hr] at this; exact this
      cases res with
      | error e => exact Run.r1fail s1 e h0 h1 hr
      | ok l1 =>
        cases hok : startsWith okBytes l1 with
        | false => simpa [hok] using Run.rejected1 (fd := fd) s1 l1 h0 h1 hr hok
        | true =>
          simp only [hok, if_true]
          cases fd with
          | false =>
            simp only [Bool.false_eq_true, if_false, sendBegin, send, hn1]
            cases h2 : wok 2 with
            | false => simpa [h2] using Run.w2 (fd := false) s1 l1 h0 h1 hr hok h2
            | true => simpa [h2] using Run.okNoFd s1 l1 h0 h1 hr hok rfl h2
          | true =>
            simp only [if_true, negotiateUnixFds, send, hn1]
            cases h2 : wok 2 with
            | false => simpa [h2] using Run.w2 (fd := true) s1 l1 h0 h1 hr hok h2
            | true =>
              simp only [if_true]
              have hst2 : ({ s1 with written := s1.written ++ [negLine], nwrites := 2 + 1 } : St) = stNeg s1 := rfl
              rw [hst2]
              rcases hr2 : readMessage (stNeg s1) with ⟨s2, res2⟩
              have hn2 : s2.nwrites = 3 := by
                have := readMessage_nwrites (stNeg s1); rw [hr2] at this; exact this
              cases res2 with
              | error e => exact Run.r2fail s1 l1 s2 e h0 h1 hr hok rfl h2 hr2
              | ok l2 =>
                cases hag : startsWith agreeBytes l2 with
                | false => simpa [hag] using Run.rejected2 s1 l1 s2 l2 h0 h1 hr hok rfl h2 hr2 hag
                | true =>
                  simp only [hag, if_true, sendBegin, send, hn2]
                  cases h3 : wok 3 with
                  | false => simpa [h3] using Run.w3 s1 l1 s2 l2 h0 h1 hr hok rfl h2 hr2 hag h3
                  | true => simpa [h3] using Run.okFd s1 l1 s2 l2 h0 h1 hr hok rfl h2 hr2 hag h3

/-! ### reading a stream of known shape -/

theorem crlf_eq : crlf = [13, 10] := rfl

/-- the stream delivers `l ++ "\r\n"` in the reads `cs` (and possibly more afterwards) -/
theorem readMessage_line (a : St) (cs : List (List UInt8)) (s : List Ev) (l : List UInt8)
    (hs : a.script = cs.map Ev.chunk ++ s) (hb : cs.flatten = l ++ crlf) (hne : ∀ c ∈ cs, c ≠ [])
    (hl : hasLineEnding l = false) :
    readMessage a =
      ({ a with script := s, reads := a.reads + cs.length, consumed := a.consumed + cs.flatten.length,
                replies := a.replies ++ [⟨l, []⟩] },
        if Utf8.valid l then .ok l else .error .invalidData) := by
  have hT : hasLineEnding (l ++ crlf) = true := by
    simpa [crlf_eq] using hasLineEnding_append_crlf l []
  have hloop := readLoop_chunks (l ++ crlf) hT (fun p hp hn => proper_prefix_no_ending l p hl hp hn)
    cs [] s (by simpa using hb) hne
  have hfind : findLineEnding (l ++ crlf) = some l.length := by
    simpa [crlf_eq] using findLineEnding_append_crlf l [] hl
  unfold readMessage
  have hd : List.drop (l.length + 2) (l ++ crlf) = [] := by simp [crlf_eq]
  have ht : List.take l.length (l ++ crlf) = l := by simp
  simp only [hs, hloop, hfind, hd, ht, hb]
  split <;> simp_all

/-- the stream delivers the CRLF-free bytes `p` in the reads `cs` and then stops -/
theorem readMessage_stop (a : St) (cs : List (List UInt8)) (s : List Ev) (p : List UInt8) (f : Fail)
    (hs : a.script = cs.map Ev.chunk ++ s) (hb : cs.flatten = p) (hne : ∀ c ∈ cs, c ≠ [])
    (hp : hasLineEnding p = false) (hst : Stops s f) :
    readMessage a =
      ({ a with script := s.tail, reads := a.reads + (cs.length + 1),
                consumed := a.consumed + cs.flatten.length }, .error f) := by
  have hloop := readLoop_stop p hp cs [] s f (by simpa using hb) hne hst
  unfold readMessage
  simp only [hs, hloop]

/-! ### two scripts carrying the same stream -/

/-- the client states agree in everything the peer can observe and the remaining scripts carry the same
    stream for `n` more lines -/
structure Sim (n : Nat) (a b : St) : Prop where
  written : a.written = b.written
  nwrites : a.nwrites = b.nwrites
  replies : a.replies = b.replies
  stream : SameStream n a.script b.script

theorem Sim.weaken {n : Nat} {a b : St} (h : Sim n a b) : Sim 0 a b :=
  ⟨h.written, h.nwrites, h.replies, .zero _ _⟩

theorem readMessage_sim (n : Nat) (a b : St) (h : Sim (n + 1) a b) :
    (readMessage a).2 = (readMessage b).2 ∧ Sim 0 (readMessage a).1 (readMessage b).1 ∧
    (∀ l, (readMessage a).2 = .ok l → Sim n (readMessage a).1 (readMessage b).1) := by
  obtain ⟨hw, hn, hr, hstream⟩ := h
  generalize hsa : a.script = sa at hstream
  generalize hsb : b.script = sb at hstream
  cases hstream with
  | line _ l ca cb s t hl hca hcb hst =>
    obtain ⟨csa, rfl, hfa, hna⟩ := hca
    obtain ⟨csb, rfl, hfb, hnb⟩ := hcb
    rw [readMessage_line a csa s l hsa hfa hna hl, readMessage_line b csb t l hsb hfb hnb hl]
    refine ⟨rfl, ⟨hw, hn, by simp [hr], .zero _ _⟩, ?_⟩
    intro _ _
    exact ⟨hw, hn, by simp [hr], hst⟩
  | stop _ p ca cb s t f hp hca hcb hsa' hsb' =>
    obtain ⟨csa, rfl, hfa, hna⟩ := hca
    obtain ⟨csb, rfl, hfb, hnb⟩ := hcb
    rw [readMessage_stop a csa s p f hsa hfa hna hp hsa', readMessage_stop b csb t p f hsb hfb hnb hp hsb']
    refine ⟨rfl, ⟨hw, hn, hr, .zero _ _⟩, ?_⟩
    intro l hl
    cases hl

theorem send_sim (wok : Nat → Bool) (n : Nat) (a b : St) (raw : List UInt8) (h : Sim n a b) :
    (send wok a raw).2 = (send wok b raw).2 ∧ Sim n (send wok a raw).1 (send wok b raw).1 := by
  obtain ⟨hw, hn, hr, hs⟩ := h
  unfold send
  rw [hn]
  split
  · exact ⟨rfl, by simp [hw], by simp, hr, hs⟩
  · exact ⟨rfl, hw, by simp, hr, hs⟩

theorem doAuth_sim (wok : Nat → Bool) (uid n : Nat) (a b : St) (h : Sim (n + 1) a b) :
    (doAuth wok uid a).2 = (doAuth wok uid b).2 ∧ Sim 0 (doAuth wok uid a).1 (doAuth wok uid b).1 ∧
    ((doAuth wok uid a).2 = .ok → Sim n (doAuth wok uid a).1 (doAuth wok uid b).1) := by
  unfold doAuth
  obtain ⟨e1, s1⟩ := send_sim wok (n + 1) a b msgNul h
  rcases ha1 : send wok a msgNul with ⟨a1, ra1⟩
  rcases hb1 : send wok b msgNul with ⟨b1, rb1⟩
  rw [ha1, hb1] at e1 s1
  simp only at e1 s1
  subst e1
  cases ra1 with
  | false => exact ⟨rfl, s1.weaken, fun h => by cases h⟩
  | true =>
    simp only [getUidAsHex_eq]
    obtain ⟨e2, s2⟩ := send_sim wok (n + 1) a1 b1 (authLine (uidHex uid)) s1
    rcases ha2 : send wok a1 (authLine (uidHex uid)) with ⟨a2, ra2⟩
    rcases hb2 : send wok b1 (authLine (uidHex uid)) with ⟨b2, rb2⟩
    rw [ha2, hb2] at e2 s2
    simp only at e2 s2
    subst e2
    cases ra2 with
    | false => exact ⟨rfl, s2.weaken, fun h => by cases h⟩
    | true =>
      simp only
      obtain ⟨e3, w3, s3⟩ := readMessage_sim n a2 b2 s2
      rcases ha3 : readMessage a2 with ⟨a3, ra3⟩
      rcases hb3 : readMessage b2 with ⟨b3, rb3⟩
      rw [ha3, hb3] at e3 w3 s3
      simp only at e3 w3 s3
      subst e3
      cases ra3 with
      | error e => exact ⟨rfl, w3, fun h => by cases h⟩
      | ok l => exact ⟨rfl, w3, fun _ => s3 l rfl⟩

theorem negotiate_sim (wok : Nat → Bool) (n : Nat) (a b : St) (h : Sim (n + 1) a b) :
    (negotiateUnixFds wok a).2 = (negotiateUnixFds wok b).2 ∧
    Sim 0 (negotiateUnixFds wok a).1 (negotiateUnixFds wok b).1 := by
  unfold negotiateUnixFds
  obtain ⟨e1, s1⟩ := send_sim wok (n + 1) a b negLine h
  rcases ha1 : send wok a negLine with ⟨a1, ra1⟩
  rcases hb1 : send wok b negLine with ⟨b1, rb1⟩
  rw [ha1, hb1] at e1 s1
  simp only at e1 s1
  subst e1
  cases ra1 with
  | false => exact ⟨rfl, s1.weaken⟩
  | true =>
    simp only
    obtain ⟨e3, w3, _⟩ := readMessage_sim n a1 b1 s1
    rcases ha3 : readMessage a1 with ⟨a3, ra3⟩
    rcases hb3 : readMessage b1 with ⟨b3, rb3⟩
    rw [ha3, hb3] at e3 w3
    simp only at e3 w3
    subst e3
    cases ra3 with
    | error e => exact ⟨rfl, w3⟩
    | ok l => exact ⟨rfl, w3⟩

theorem sendBegin_sim (wok : Nat → Bool) (a b : St) (h : Sim 0 a b) :
    (sendBegin wok a).2 = (sendBegin wok b).2 ∧ Sim 0 (sendBegin wok a).1 (sendBegin wok b).1 := by
  unfold sendBegin
  obtain ⟨e1, s1⟩ := send_sim wok 0 a b beginLine h
  rcases ha1 : send wok a beginLine with ⟨a1, ra1⟩
  rcases hb1 : send wok b beginLine with ⟨b1, rb1⟩
  rw [ha1, hb1] at e1 s1
  simp only at e1 s1
  subst e1
  cases ra1 <;> exact ⟨rfl, s1⟩

theorem connectFrom_sim (wok : Nat → Bool) (uid : Nat) (fd : Bool) (a b : St) (h : Sim 2 a b) :
    (connectFrom wok uid fd a).2 = (connectFrom wok uid fd b).2 ∧
    Sim 0 (connectFrom wok uid fd a).1 (connectFrom wok uid fd b).1 := by
  unfold connectFrom
  obtain ⟨e1, w1, s1⟩ := doAuth_sim wok uid 1 a b h
  rcases ha1 : doAuth wok uid a with ⟨a1, ra1⟩
  rcases hb1 : doAuth wok uid b with ⟨b1, rb1⟩
  rw [ha1, hb1] at e1 w1 s1
  simp only at e1 w1 s1
  subst e1
  cases ra1 with
  | fail f => exact ⟨rfl, w1⟩
  | rejected => exact ⟨rfl, w1⟩
  | ok =>
    have s1' := s1 rfl
    simp only
    have hneg : (if fd = true then negotiateUnixFds wok a1 else (a1, StepRes.ok)).2 =
        (if fd = true then negotiateUnixFds wok b1 else (b1, StepRes.ok)).2 ∧
        Sim 0 (if fd = true then negotiateUnixFds wok a1 else (a1, StepRes.ok)).1
          (if fd = true then negotiateUnixFds wok b1 else (b1, StepRes.ok)).1 := by
      cases fd with
      | true => simpa using negotiate_sim wok 0 a1 b1 s1'
      | false => simpa using s1'.weaken
    obtain ⟨e2, w2⟩ := hneg
    rcases ha2 : (if fd = true then negotiateUnixFds wok a1 else (a1, StepRes.ok)) with ⟨a2, ra2⟩
    rcases hb2 : (if fd = true then negotiateUnixFds wok b1 else (b1, StepRes.ok)) with ⟨b2, rb2⟩
    rw [ha2, hb2] at e2 w2
    simp only at e2 w2
    subst e2
    cases ra2 with
    | fail f => exact ⟨rfl, w2⟩
    | rejected => exact ⟨rfl, w2⟩
    | ok =>
      simp only
      obtain ⟨e3, w3⟩ := sendBegin_sim wok a2 b2 w2
      rcases ha3 : sendBegin wok a2 with ⟨a3, ra3⟩
      rcases hb3 : sendBegin wok b2 with ⟨b3, rb3⟩
      rw [ha3, hb3] at e3 w3
      simp only at e3 w3
      subst e3
      cases ra3 <;> exact ⟨rfl, w3⟩

end Rustbus.Auth
