import RustbusModel.Model.Header
import RustbusModel.Spec.Header
import RustbusModel.Lemmas.Wire
import RustbusModel.Lemmas.WireShape
/-!
Lemmas about the header model. Statements fixed; helper lemmas may be added above / in Lemmas/Header*.lean.
-/
namespace Rustbus.Header
open Rustbus Rustbus.Bytes Rustbus.Wire Rustbus.Spec.Wire Rustbus.Spec.Header

/-- the fixed part is decoded exactly when it is spec valid -/
theorem decodeFixed_iff (buf : List UInt8) (fx : Fixed) :
    decodeFixed buf = some fx ↔ (12 ≤ buf.length ∧ fixedOk fx ∧ slice buf 0 12 = fixedBytes fx) := by
  sorry

/-- Header decoding succeeds exactly on spec-valid headers and returns what the bytes say
    (for field arrays within the 64 MiB array limit, which the receive loop enforces beforehand). -/
theorem decodeHeader_iff (buf : List UInt8) (fx : Fixed) (fs : List Field) (used : Nat) :
    (decodeHeader buf = some (fx, fs, used) ∧ used - 16 ≤ maxArrayLen) ↔ ValidHeader buf fx fs used := by
  sorry

/-- The marshaller emits the fixed part, then exactly the `a(yv)` encoding of the message's entries,
    then zero padding to 8; and it refuses exactly the Invalid type, invalid names / body signature and
    oversized messages. -/
theorem marshalHeader_spec (m : Msg) (serial : Nat) (hr : msgInRange m serial) (out : List UInt8) :
    marshalHeader m serial = some out ↔
      (1 ≤ m.typ ∧ m.typ ≤ 4 ∧
       ∃ arr, enc m.bo 12 fieldArrayTy (.arr ((msgEntries m).map entryVal)) = some arr ∧
         out = padTo 8 (fixedBytes ⟨m.bo, m.typ, m.flags, m.body.length, serial⟩ ++ arr) ∧
         out.length + m.body.length ≤ maxMessageLen ∧
         (∀ e ∈ msgEntries m, e.1 ≠ 5 → e.1 ≠ 9 → ∃ f, entryField e = some (some f))) := by
  sorry

/-- Round trip of whole messages through header marshalling and the decoders. -/
theorem marshal_decode (m : Msg) (serial : Nat) (hr : msgInRange m serial) (hs : 0 < serial)
    (hrs : m.replySerial ≠ some 0) (out : List UInt8)
    (h : marshalHeader m serial = some out) (fs : List Field)
    (hf : entriesFields (msgEntries m) = some fs) (hok : fieldsOk m.typ fs = true) :
    decodeMessage (out ++ m.body) = some (⟨m.bo, m.typ, m.flags, m.body.length, serial⟩, fs, m.body) := by
  sorry

/-- The frame length announced to the receive loop is header + padding + body. -/
theorem bytesNeeded_frame (buf : List UInt8) (fx : Fixed) (fs : List Field) (body : List UInt8)
    (h : decodeMessage buf = some (fx, fs, body)) (hb : fx.bodyLen ≠ 0)
    (hlim : buf.length ≤ maxMessageLen) (hfl : valOf fx.bo (slice buf 12 4) ≤ maxArrayLen) :
    bytesNeeded buf = .bytes buf.length ∧ ∀ k, 16 ≤ k → bytesNeeded (buf.take k) = .bytes buf.length := by
  sorry

/-- the limits are checked on the announced lengths alone -/
theorem bytesNeeded_limits (buf : List UInt8) (n : Nat) (h : bytesNeeded buf = .bytes n) :
    n ≤ maxMessageLen ∨ (buf.length < 16 ∧ n = 16) := by
  sorry

end Rustbus.Header
