import RustbusModel.Model.Header
import RustbusModel.Spec.Header
import RustbusModel.Lemmas.Wire
import RustbusModel.Lemmas.WireShape
import RustbusModel.Lemmas.HeaderField
import RustbusModel.Lemmas.HeaderMarshal
/-!
Lemmas about the header model. Statements fixed; helper lemmas may be added above / in Lemmas/Header*.lean.
-/
namespace Rustbus.Header
open Rustbus Rustbus.Bytes Rustbus.Wire Rustbus.Spec.Wire Rustbus.Spec.Header

/-! ### the fixed part -/

theorem slice_take (buf : List UInt8) (k a b : Nat) (h : a + b ≤ k) :
    slice (buf.take k) a b = slice buf a b := by
  simp only [slice, List.drop_take, List.take_take]
  congr 1; omega

theorem slice_append_left (l r : List UInt8) (a b : Nat) (h : a + b ≤ l.length) :
    slice (l ++ r) a b = slice l a b := by
  simp only [slice]
  rw [List.drop_append_of_le_length (by omega), List.take_append_of_le_length (by simp; omega)]

theorem buf_eq_of_slice (buf : List UInt8) (k : Nat) (l : List UInt8) (h : slice buf 0 k = l) :
    buf = l ++ buf.drop k := by
  subst h; simp [slice]

theorem decodeFixed_fixedBytes (fx : Fixed) (rest : List UInt8) (h : fixedOk fx) :
    decodeFixed (fixedBytes fx ++ rest) = some fx := by
  obtain ⟨h1, h2, h3, h4, h5, h6⟩ := h
  obtain ⟨bo, typ, flags, bodyLen, serial⟩ := fx
  simp only at h1 h2 h3 h4 h5 h6
  have s1 : slice (fixedBytes ⟨bo, typ, flags, bodyLen, serial⟩ ++ rest) 4 4 = bytesOf bo 4 bodyLen := by
    have := slice_mid [if bo = .le then 108 else 66, UInt8.ofNat typ, UInt8.ofNat flags, 1]
      (bytesOf bo 4 bodyLen) (bytesOf bo 4 serial ++ rest) 4 4 rfl (by simp)
    rw [← this]; simp [fixedBytes]
  have s2 : slice (fixedBytes ⟨bo, typ, flags, bodyLen, serial⟩ ++ rest) 8 4 = bytesOf bo 4 serial := by
    have := slice_mid ([if bo = .le then 108 else 66, UInt8.ofNat typ, UInt8.ofNat flags, 1] ++
      bytesOf bo 4 bodyLen) (bytesOf bo 4 serial) rest 8 4 (by simp) (by simp)
    rw [← this]; simp [fixedBytes]
  unfold decodeFixed
  rw [if_neg (by simp [fixedBytes]; omega)]
  rw [s1, s2]
  have h2' : typ < 256 := Nat.lt_of_le_of_lt h2 (by decide)
  have t1 : (UInt8.ofNat typ).toNat = typ := by simp [UInt8.toNat_ofNat']; exact h2'
  have t2 : (UInt8.ofNat flags).toNat = flags := by simp [UInt8.toNat_ofNat']; omega
  cases bo <;> simp [fixedBytes, t1, t2, h1, h2, valOf_bytesOf _ _ _ h4, valOf_bytesOf _ _ _ h6] <;> omega

theorem decodeFixed_sound (buf : List UInt8) (fx : Fixed) (h : decodeFixed buf = some fx) :
    12 ≤ buf.length ∧ fixedOk fx ∧ slice buf 0 12 = fixedBytes fx := by
  unfold decodeFixed at h
  split at h
  · simp at h
  · rename_i hlen
    have hl4 : (slice buf 4 4).length = 4 := slice_length _ _ _ (by omega)
    have hl8 : (slice buf 8 4).length = 4 := slice_length _ _ _ (by omega)
    have v4 := valOf_lt
    have key : slice buf 0 12 = slice buf 0 4 ++ (slice buf 4 4 ++ slice buf 8 4) := by
      have : (12 : Nat) = 4 + (4 + 4) := rfl
      rw [this, slice_add, slice_add]
    split at h
    · rename_i e t f ver rest
      cases hbo : (if e = 108 then some ByteOrder.le else if e = 66 then some ByteOrder.be else none) with
      | none => simp [hbo] at h
      | some bo =>
        have he : (if bo = ByteOrder.le then (108 : UInt8) else 66) = e := by
          split at hbo
          · simp only [Option.some.injEq] at hbo; subst hbo; simp [*]
          · split at hbo
            · simp only [Option.some.injEq] at hbo; subst hbo; simp [*]
            · simp at hbo
        simp only [hbo] at h
        split at h
        · rename_i ht
          split at h
          · rename_i hver
            split at h
            · simp at h
            · rename_i hser
              simp only [Option.some.injEq] at h
              subst h
              refine ⟨by omega, ⟨ht.1, ht.2, f.toNat_lt, ?_, Nat.pos_of_ne_zero hser, ?_⟩, ?_⟩
              · have := valOf_lt bo (slice (e :: t :: f :: ver :: rest) 4 4); rwa [hl4] at this
              · have := valOf_lt bo (slice (e :: t :: f :: ver :: rest) 8 4); rwa [hl8] at this
              · rw [key]
                simp only [fixedBytes]
                have b4 := bytesOf_valOf bo (slice (e :: t :: f :: ver :: rest) 4 4)
                have b8 := bytesOf_valOf bo (slice (e :: t :: f :: ver :: rest) 8 4)
                rw [hl4] at b4; rw [hl8] at b8
                rw [b4, b8]
                congr 1
                subst hver
                simp [slice, he]
          · simp at h
        · simp at h
    · simp at h

/-- the fixed part is decoded exactly when it is spec valid -/
theorem decodeFixed_iff (buf : List UInt8) (fx : Fixed) :
    decodeFixed buf = some fx ↔ (12 ≤ buf.length ∧ fixedOk fx ∧ slice buf 0 12 = fixedBytes fx) := by
  constructor
  · exact decodeFixed_sound buf fx
  · rintro ⟨_, hok, hs⟩
    rw [buf_eq_of_slice buf 12 _ hs]
    exact decodeFixed_fixedBytes fx _ hok

/-! ### the whole header -/

theorem decodeHeader_sound (buf : List UInt8) (fx : Fixed) (fs : List Field) (used : Nat)
    (h : decodeHeader buf = some (fx, fs, used)) :
    ∃ len, decodeFixed buf = some fx ∧ readNum fx.bo buf 12 buf.length 4 = some len ∧
      16 + len ≤ buf.length ∧ decodeFields fx.bo buf 16 (16 + len) len = some fs ∧
      fieldsOk fx.typ fs = true ∧ used = 16 + len := by
  unfold decodeHeader at h
  split at h
  · simp at h
  · rename_i fx' hfx
    split at h
    · simp at h
    · rename_i len hn
      split at h
      · rename_i hle
        split at h
        · simp at h
        · rename_i fs' hfs
          split at h
          · rename_i hok
            simp only [Option.some.injEq, Prod.mk.injEq] at h
            obtain ⟨rfl, rfl, rfl⟩ := h
            exact ⟨len, hfx, hn, hle, hfs, hok, rfl⟩
          · simp at h
      · simp at h

/-- Header decoding succeeds exactly on spec-valid headers and returns what the bytes say
    (for field arrays within the 64 MiB array limit, which the receive loop enforces beforehand). -/
theorem decodeHeader_iff (buf : List UInt8) (fx : Fixed) (fs : List Field) (used : Nat) :
    (decodeHeader buf = some (fx, fs, used) ∧ used - 16 ≤ maxArrayLen) ↔ ValidHeader buf fx fs used := by
  constructor
  · rintro ⟨h, hmax⟩
    obtain ⟨len, hfx, hn, hle, hfs, hok, rfl⟩ := decodeHeader_sound buf fx fs used h
    obtain ⟨_, hfok, hfb⟩ := decodeFixed_sound buf fx hfx
    obtain ⟨_, _, hlt, hby⟩ := readNum_sound _ _ _ _ _ _ hn
    obtain ⟨es, hes, hef, _⟩ := fields_sound fx.bo buf (16 + len) len 16 fs hfs
    refine ⟨hfok, by omega, hle, hfb, es, ?_, hef, hok⟩
    rw [enc_fieldArray]
    have e1 : 16 + len - 16 = len := by omega
    rw [e1] at hes
    have hl : (slice buf 16 len).length = len := slice_length _ _ _ (by omega)
    refine ⟨_, hes, by rw [hl]; omega, ?_⟩
    have e2 : 16 + len - 12 = 4 + len := by omega
    rw [hl, e2, slice_add, hby]
  · rintro ⟨hfok, h16, hub, hfb, es, henc, hef, hok⟩
    obtain ⟨body, hbody, hmax, harr⟩ := (enc_fieldArray _ _ _).1 henc
    have hlen : used - 12 = 4 + body.length := by
      have := congrArg List.length harr
      rw [slice_length _ _ _ (by omega)] at this
      simpa using this
    have e2 : used - 12 = 4 + body.length := hlen
    rw [e2, slice_add] at harr
    obtain ⟨h4, hb⟩ := List.append_inj harr (by rw [slice_length _ _ _ (by omega)]; simp)
    have hfx : decodeFixed buf = some fx := (decodeFixed_iff buf fx).2 ⟨by omega, hfok, hfb⟩
    have hlt : body.length < 256 ^ 4 := Nat.lt_of_le_of_lt hmax maxArrayLen_lt
    have hused : used = 16 + body.length := by omega
    refine ⟨?_, by omega⟩
    unfold decodeHeader
    rw [hfx]
    simp only []
    have hn : readNum fx.bo buf 12 buf.length 4 = some body.length := by
      unfold readNum
      rw [if_pos ⟨by omega, Nat.le_refl _⟩, h4, valOf_bytesOf _ _ _ hlt]
    rw [hn]
    simp only []
    rw [if_pos (by omega)]
    obtain ⟨hdecomp, hpl⟩ := buf_decomp buf 16 body.length (by omega)
    have hfc := fields_complete fx.bo es fs (buf.take 16) body (buf.drop (16 + body.length)) body.length
      (by rw [hpl]; exact hbody) hef (Nat.le_refl _)
    have e3 : (12 : Nat) + 4 = 16 := rfl
    rw [e3] at hb
    rw [hb] at hdecomp
    rw [← hdecomp, hpl] at hfc
    rw [hfc]
    simp [hok, hused]

/-! ### marshalling -/

theorem fixedBytes_length (fx : Fixed) : (fixedBytes fx).length = 12 := by simp [fixedBytes]

/-- decoding a header assembled from its parts (no array limit involved) -/
theorem decodeHeader_build (fx : Fixed) (fs : List Field) (es : List Entry) (body rest : List UInt8)
    (hfx : fixedOk fx) (henc : encList fx.bo 16 elemTy (es.map entryVal) = some body)
    (hlt : body.length < 256 ^ 4) (hef : entriesFields es = some fs) (hok : fieldsOk fx.typ fs = true) :
    decodeHeader (fixedBytes fx ++ (bytesOf fx.bo 4 body.length ++ (body ++ rest))) =
      some (fx, fs, 16 + body.length) := by
  unfold decodeHeader
  rw [decodeFixed_fixedBytes fx _ hfx]
  simp only []
  have hl12 := fixedBytes_length fx
  rw [readNum_ok fx.bo (fixedBytes fx) (body ++ rest) 4 body.length _ 12 hl12.symm hlt
    (by simp [hl12]; omega) (by simp [hl12]; omega)]
  simp only []
  rw [if_pos (by simp [hl12]; omega)]
  have hfc := fields_complete fx.bo es fs (fixedBytes fx ++ bytesOf fx.bo 4 body.length) body rest body.length
    (by simpa [hl12] using henc) hef (Nat.le_refl _)
  simp only [List.append_assoc, List.length_append, hl12, bytesOf_length] at hfc
  rw [hfc]
  simp [hok]

/-- The marshaller emits the fixed part, then exactly the `a(yv)` encoding of the message's entries,
    then zero padding to 8; and it refuses exactly the Invalid type, invalid names / body signature and
    oversized messages. -/
theorem marshalHeader_spec (m : Msg) (serial : Nat) (hr : msgInRange m serial) (out : List UInt8) :
    marshalHeader m serial = some out ↔
      (1 ≤ m.typ ∧ m.typ ≤ 4 ∧
       ∃ arr, enc m.bo 12 fieldArrayTy (.arr ((msgEntries m).map entryVal)) = some arr ∧
         out = padTo 8 (fixedBytes ⟨m.bo, m.typ, m.flags, m.body.length, serial⟩ ++ arr) ∧
         out.length + m.body.length ≤ maxMessageLen ∧
         (∀ e ∈ msgEntries m, e.1 ≠ 5 → e.1 ≠ 9 → ∃ f, entryField e = some (some f))) := by
  rw [marshalHeader_core m serial hr out]
  constructor
  · rintro ⟨h1, h4, body, henc, harr, rfl, hsz, hef⟩
    exact ⟨h1, h4, _, (enc_fieldArray _ _ _).2 ⟨body, henc, harr, rfl⟩, rfl, hsz, hef⟩
  · rintro ⟨h1, h4, arr, harr, rfl, hsz, hef⟩
    obtain ⟨body, henc, hlim, rfl⟩ := (enc_fieldArray _ _ _).1 harr
    exact ⟨h1, h4, body, henc, hlim, rfl, hsz, hef⟩

/-- a direct consequence of `marshalHeader_spec` (→), without `msgInRange`: whatever is marshalled carries
    only valid names and a valid body signature, and stays within the message limit -/
theorem marshalHeader_fields_valid (m : Msg) (serial : Nat) (out : List UInt8)
    (h : marshalHeader m serial = some out) :
    1 ≤ m.typ ∧ m.typ ≤ 4 ∧ out.length + m.body.length ≤ maxMessageLen ∧
      (∀ e ∈ msgEntries m, e.1 ≠ 5 → e.1 ≠ 9 → ∃ f, entryField e = some (some f)) := by
  obtain ⟨h1, h4, hn⟩ := marshalHeader_names m serial out h
  refine ⟨h1, h4, ?_, names_entryField m hn⟩
  rw [marshalHeader_ok m serial h1 h4 hn] at h
  split at h
  · simp at h
  · split at h
    · simp at h
    · simp only [Option.some.injEq] at h; subst h; omega

set_option linter.unusedVariables false in
/-- Round trip of whole messages through header marshalling and the decoders. -/
theorem marshal_decode (m : Msg) (serial : Nat) (hr : msgInRange m serial) (hs : 0 < serial)
    (hrs : m.replySerial ≠ some 0) (out : List UInt8)
    (h : marshalHeader m serial = some out) (fs : List Field)
    (hf : entriesFields (msgEntries m) = some fs) (hok : fieldsOk m.typ fs = true) :
    decodeMessage (out ++ m.body) = some (⟨m.bo, m.typ, m.flags, m.body.length, serial⟩, fs, m.body) := by
  obtain ⟨h1, h4, body, henc, _, rfl, hsz, _⟩ := (marshalHeader_core m serial hr out).1 h
  obtain ⟨hfl, hser, hbl, _, _⟩ := hr
  have hfx : fixedOk ⟨m.bo, m.typ, m.flags, m.body.length, serial⟩ := ⟨h1, h4, hfl, hbl, hs, hser⟩
  have hl12 := fixedBytes_length ⟨m.bo, m.typ, m.flags, m.body.length, serial⟩
  have hmax : maxMessageLen < 256 ^ 4 := by decide
  have hlt : body.length < 256 ^ 4 := by
    simp only [padTo, List.length_append, hl12, bytesOf_length, zeros_length] at hsz
    omega
  generalize hfxdef : (⟨m.bo, m.typ, m.flags, m.body.length, serial⟩ : Fixed) = fx at *
  have hbo : fx.bo = m.bo := by subst hfxdef; rfl
  have hbl' : fx.bodyLen = m.body.length := by subst hfxdef; rfl
  have htyp : fx.typ = m.typ := by subst hfxdef; rfl
  rw [← hbo] at henc ⊢
  have hbuf : padTo 8 (fixedBytes fx ++ (bytesOf fx.bo 4 body.length ++ body)) ++ m.body =
      fixedBytes fx ++ (bytesOf fx.bo 4 body.length ++
        (body ++ (zeros (padLen 8 (16 + body.length)) ++ m.body))) := by
    simp only [padTo, List.length_append, hl12, bytesOf_length, List.append_assoc]
    have : 12 + (4 + body.length) = 16 + body.length := by omega
    rw [this]
  rw [hbuf]
  unfold decodeMessage
  rw [decodeHeader_build fx fs (msgEntries m) body _ hfx henc hlt hf (by rw [htyp]; exact hok)]
  simp only []
  have hsp := skipPad_ok (fixedBytes fx ++ (bytesOf fx.bo 4 body.length ++ body)) m.body 8
    (fixedBytes fx ++ (bytesOf fx.bo 4 body.length ++
        (body ++ (zeros (padLen 8 (16 + body.length)) ++ m.body)))).length (16 + body.length)
    (by simp [hl12]; omega) (by simp [hl12]; omega) (by simp [hl12]; omega)
  simp only [List.append_assoc] at hsp
  rw [hsp]
  simp only []
  by_cases hz : fx.bodyLen = 0
  · rw [if_pos hz]
    have : m.body = [] := List.eq_nil_of_length_eq_zero (by rw [← hbl']; exact hz)
    rw [this]
  · rw [if_neg hz]
    have hlen : (fixedBytes fx ++ (bytesOf fx.bo 4 body.length ++
        (body ++ (zeros (padLen 8 (16 + body.length)) ++ m.body)))).length -
        (16 + body.length + padLen 8 (16 + body.length)) = fx.bodyLen := by
      simp [hl12, hbl']; omega
    rw [if_pos hlen]
    have hdrop : (fixedBytes fx ++ (bytesOf fx.bo 4 body.length ++
        (body ++ (zeros (padLen 8 (16 + body.length)) ++ m.body)))).drop
        (16 + body.length + padLen 8 (16 + body.length)) = m.body := by
      have := List.drop_left' (l₁ := fixedBytes fx ++ (bytesOf fx.bo 4 body.length ++
        (body ++ zeros (padLen 8 (16 + body.length))))) (l₂ := m.body)
        (i := 16 + body.length + padLen 8 (16 + body.length)) (by simp [hl12]; omega)
      simpa [List.append_assoc] using this
    rw [hdrop]

theorem decodeMessage_sound (buf : List UInt8) (fx : Fixed) (fs : List Field) (body : List UInt8)
    (h : decodeMessage buf = some (fx, fs, body)) :
    ∃ used o, decodeHeader buf = some (fx, fs, used) ∧ skipPad buf used buf.length 8 = some o ∧
      (fx.bodyLen ≠ 0 → buf.length - o = fx.bodyLen) := by
  unfold decodeMessage at h
  split at h
  · simp at h
  · rename_i fx' fs' used hh
    split at h
    · simp at h
    · rename_i o hp
      split at h
      · rename_i hz
        simp only [Option.some.injEq, Prod.mk.injEq] at h
        obtain ⟨rfl, rfl, rfl⟩ := h
        exact ⟨used, o, hh, hp, fun hne => absurd hz hne⟩
      · split at h
        · rename_i hbl
          simp only [Option.some.injEq, Prod.mk.injEq] at h
          obtain ⟨rfl, rfl, rfl⟩ := h
          exact ⟨used, o, hh, hp, fun _ => hbl⟩
        · simp at h

/-- The frame length announced to the receive loop is header + padding + body. -/
theorem bytesNeeded_frame (buf : List UInt8) (fx : Fixed) (fs : List Field) (body : List UInt8)
    (h : decodeMessage buf = some (fx, fs, body)) (hb : fx.bodyLen ≠ 0)
    (hlim : buf.length ≤ maxMessageLen) (hfl : valOf fx.bo (slice buf 12 4) ≤ maxArrayLen) :
    bytesNeeded buf = .bytes buf.length ∧ ∀ k, 16 ≤ k → bytesNeeded (buf.take k) = .bytes buf.length := by
  obtain ⟨used, o, hh, hp, hbl⟩ := decodeMessage_sound buf fx fs body h
  obtain ⟨len, hfx, hn, hle, _, _, rfl⟩ := decodeHeader_sound buf fx fs used hh
  obtain ⟨rfl, _, _, _⟩ := skipPad_sound _ _ _ _ _ hp
  have hbl := hbl hb
  have hlen : valOf fx.bo (slice buf 12 4) = len := by
    unfold readNum at hn
    split at hn
    · simpa using hn
    · simp at hn
  have key : ∀ b : List UInt8, 16 ≤ b.length → decodeFixed b = some fx → slice b 12 4 = slice buf 12 4 →
      bytesNeeded b = .bytes buf.length := by
    intro b hb16 hbfx hbs
    unfold bytesNeeded
    rw [if_neg (by omega), hbfx]
    simp only []
    rw [hbs, hlen]
    have e1 : 12 + len + 4 = 16 + len := by omega
    rw [e1, if_neg (by rw [hlen] at hfl; omega)]
    congr 1; omega
  refine ⟨key buf (by omega) hfx rfl, ?_⟩
  intro k hk
  obtain ⟨h12, hok, hs⟩ := (decodeFixed_iff buf fx).1 hfx
  apply key
  · simp only [List.length_take]; omega
  · rw [decodeFixed_iff]
    refine ⟨by simp only [List.length_take]; omega, hok, ?_⟩
    rw [slice_take _ _ _ _ (by omega)]; exact hs
  · exact slice_take _ _ _ _ (by omega)

/-- the limits are checked on the announced lengths alone -/
theorem bytesNeeded_limits (buf : List UInt8) (n : Nat) (h : bytesNeeded buf = .bytes n) :
    n ≤ maxMessageLen ∨ (buf.length < 16 ∧ n = 16) := by
  unfold bytesNeeded at h
  split at h
  · rename_i hl
    simp only [Needed.bytes.injEq] at h
    exact Or.inr ⟨hl, h.symm⟩
  · split at h
    · simp at h
    · simp only [] at h
      split at h
      · simp at h
      · rename_i hc
        simp only [Needed.bytes.injEq] at h
        left; omega

end Rustbus.Header

#print axioms Rustbus.Header.decodeFixed_iff
#print axioms Rustbus.Header.decodeHeader_iff
#print axioms Rustbus.Header.marshalHeader_fields_valid
#print axioms Rustbus.Header.marshalHeader_spec
#print axioms Rustbus.Header.marshal_decode
#print axioms Rustbus.Header.bytesNeeded_frame
#print axioms Rustbus.Header.bytesNeeded_limits
