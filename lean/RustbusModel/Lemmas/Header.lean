import RustbusModel.Model.Header
import RustbusModel.Spec.Header
import RustbusModel.Lemmas.Wire
import RustbusModel.Lemmas.WireShape
import RustbusModel.Lemmas.HeaderField
/-!
Lemmas about the header model. Statements fixed; helper lemmas may be added above / in Lemmas/Header*.lean.
-/
namespace Rustbus.Header
open Rustbus Rustbus.Bytes Rustbus.Wire Rustbus.Spec.Wire Rustbus.Spec.Header

/-! ### the fixed part -/

theorem slice_take (buf : List UInt8) (k a b : Nat) (h : a + b ≤ k) :
    slice (buf.take k) a b = slice buf a b := by
  simp only [slice, List.drop_take, List.take_take]
  congr 1; omega

theorem slice_append_left (l r : List UInt8) (a b : Nat) (h : a + b ≤ l.length) :
    slice (l ++ r) a b = slice l a b := by
  simp only [slice]
  rw [List.drop_append_of_le_length (by omega), List.take_append_of_le_length (by simp; omega)]

theorem buf_eq_of_slice (buf : List UInt8) (k : Nat) (l : List UInt8) (h : slice buf 0 k = l) :
    buf = l ++ buf.drop k := by
  subst h; simp [slice]

theorem decodeFixed_fixedBytes (fx : Fixed) (rest : List UInt8) (h : fixedOk fx) :
    decodeFixed (fixedBytes fx ++ rest) = some fx := by
  obtain ⟨h1, h2, h3, h4, h5, h6⟩ := h
  obtain ⟨bo, typ, flags, bodyLen, serial⟩ := fx
  simp only at h1 h2 h3 h4 h5 h6
  have s1 : slice (fixedBytes ⟨bo, typ, flags, bodyLen, serial⟩ ++ rest) 4 4 = bytesOf bo 4 bodyLen := by
    have := slice_mid [if bo = .le then 108 else 66, UInt8.ofNat typ, UInt8.ofNat flags, 1]
      (bytesOf bo 4 bodyLen) (bytesOf bo 4 serial ++ rest) 4 4 rfl (by simp)
    simpa [fixedBytes] using this
  have s2 : slice (fixedBytes ⟨bo, typ, flags, bodyLen, serial⟩ ++ rest) 8 4 = bytesOf bo 4 serial := by
    have := slice_mid ([if bo = .le then 108 else 66, UInt8.ofNat typ, UInt8.ofNat flags, 1] ++
      bytesOf bo 4 bodyLen) (bytesOf bo 4 serial) rest 8 4 (by simp) (by simp)
    simpa [fixedBytes] using this
  unfold decodeFixed
  rw [if_neg (by simp [fixedBytes])]
  rw [s1, s2, valOf_bytesOf _ _ _ h4, valOf_bytesOf _ _ _ h6]
  have t1 : (UInt8.ofNat typ).toNat = typ := by simp [UInt8.toNat_ofNat']; omega
  have t2 : (UInt8.ofNat flags).toNat = flags := by simp [UInt8.toNat_ofNat']; omega
  cases bo <;> simp [fixedBytes, t1, t2, h1, h2] <;> omega

theorem decodeFixed_sound (buf : List UInt8) (fx : Fixed) (h : decodeFixed buf = some fx) :
    12 ≤ buf.length ∧ fixedOk fx ∧ slice buf 0 12 = fixedBytes fx := by
  unfold decodeFixed at h
  split at h
  · simp at h
  · rename_i hlen
    have hl4 : (slice buf 4 4).length = 4 := slice_length _ _ _ (by omega)
    have hl8 : (slice buf 8 4).length = 4 := slice_length _ _ _ (by omega)
    have v4 := valOf_lt
    have key : slice buf 0 12 = slice buf 0 4 ++ (slice buf 4 4 ++ slice buf 8 4) := by
      have : (12 : Nat) = 4 + (4 + 4) := rfl
      rw [this, slice_add, slice_add]
    split at h
    · rename_i e t f ver rest
      split at h
      · simp at h
      · rename_i bo hbo
        split at h
        · rename_i ht
          split at h
          · rename_i hver
            split at h
            · simp at h
            · rename_i hser
              simp only [Option.some.injEq] at h
              subst h
              refine ⟨by omega, ⟨ht.1, ht.2, f.toNat_lt, ?_, by omega, ?_⟩, ?_⟩
              · have := valOf_lt bo (slice (e :: t :: f :: ver :: rest) 4 4); rwa [hl4] at this
              · have := valOf_lt bo (slice (e :: t :: f :: ver :: rest) 8 4); rwa [hl8] at this
              · rw [key]
                simp only [fixedBytes]
                have b4 := bytesOf_valOf bo (slice (e :: t :: f :: ver :: rest) 4 4)
                have b8 := bytesOf_valOf bo (slice (e :: t :: f :: ver :: rest) 8 4)
                rw [hl4] at b4; rw [hl8] at b8
                rw [b4, b8]
                congr 1
                subst hver
                have he : (if bo = ByteOrder.le then (108 : UInt8) else 66) = e := by
                  split at hbo
                  · simp only [Option.some.injEq] at hbo; subst hbo; simp [*]
                  · split at hbo
                    · simp only [Option.some.injEq] at hbo; subst hbo; simp [*]
                    · simp at hbo
                simp [slice, he]
          · simp at h
        · simp at h
    · simp at h

/-- the fixed part is decoded exactly when it is spec valid -/
theorem decodeFixed_iff (buf : List UInt8) (fx : Fixed) :
    decodeFixed buf = some fx ↔ (12 ≤ buf.length ∧ fixedOk fx ∧ slice buf 0 12 = fixedBytes fx) := by
  constructor
  · exact decodeFixed_sound buf fx
  · rintro ⟨_, hok, hs⟩
    rw [buf_eq_of_slice buf 12 _ hs]
    exact decodeFixed_fixedBytes fx _ hok

/-- Header decoding succeeds exactly on spec-valid headers and returns what the bytes say
    (for field arrays within the 64 MiB array limit, which the receive loop enforces beforehand). -/
theorem decodeHeader_iff (buf : List UInt8) (fx : Fixed) (fs : List Field) (used : Nat) :
    (decodeHeader buf = some (fx, fs, used) ∧ used - 16 ≤ maxArrayLen) ↔ ValidHeader buf fx fs used := by
  sorry

/-- The marshaller emits the fixed part, then exactly the `a(yv)` encoding of the message's entries,
    then zero padding to 8; and it refuses exactly the Invalid type, invalid names / body signature and
    oversized messages. -/
theorem marshalHeader_spec (m : Msg) (serial : Nat) (hr : msgInRange m serial) (out : List UInt8) :
    marshalHeader m serial = some out ↔
      (1 ≤ m.typ ∧ m.typ ≤ 4 ∧
       ∃ arr, enc m.bo 12 fieldArrayTy (.arr ((msgEntries m).map entryVal)) = some arr ∧
         out = padTo 8 (fixedBytes ⟨m.bo, m.typ, m.flags, m.body.length, serial⟩ ++ arr) ∧
         out.length + m.body.length ≤ maxMessageLen ∧
         (∀ e ∈ msgEntries m, e.1 ≠ 5 → e.1 ≠ 9 → ∃ f, entryField e = some (some f))) := by
  sorry

/-- Round trip of whole messages through header marshalling and the decoders. -/
theorem marshal_decode (m : Msg) (serial : Nat) (hr : msgInRange m serial) (hs : 0 < serial)
    (hrs : m.replySerial ≠ some 0) (out : List UInt8)
    (h : marshalHeader m serial = some out) (fs : List Field)
    (hf : entriesFields (msgEntries m) = some fs) (hok : fieldsOk m.typ fs = true) :
    decodeMessage (out ++ m.body) = some (⟨m.bo, m.typ, m.flags, m.body.length, serial⟩, fs, m.body) := by
  sorry

/-- The frame length announced to the receive loop is header + padding + body. -/
theorem bytesNeeded_frame (buf : List UInt8) (fx : Fixed) (fs : List Field) (body : List UInt8)
    (h : decodeMessage buf = some (fx, fs, body)) (hb : fx.bodyLen ≠ 0)
    (hlim : buf.length ≤ maxMessageLen) (hfl : valOf fx.bo (slice buf 12 4) ≤ maxArrayLen) :
    bytesNeeded buf = .bytes buf.length ∧ ∀ k, 16 ≤ k → bytesNeeded (buf.take k) = .bytes buf.length := by
  sorry

/-- the limits are checked on the announced lengths alone -/
theorem bytesNeeded_limits (buf : List UInt8) (n : Nat) (h : bytesNeeded buf = .bytes n) :
    n ≤ maxMessageLen ∨ (buf.length < 16 ∧ n = 16) := by
  sorry

end Rustbus.Header
