import RustbusModel.Lemmas.FdTableSocket
/-!
C11: consequences of the invariant for arbitrary states that satisfy it, and the evolution of the
caller-owned set.
-/
namespace Rustbus.FdTable

theorem sum_map_zero {α : Type} (g : α → Nat) : ∀ (l : List α), (∀ a, a ∈ l → g a = 0) → (l.map g).sum = 0
  | [], _ => rfl
  | a :: t, h => by
    simp only [List.map_cons, List.sum_cons]
    rw [h a (by simp), sum_map_zero g t (fun b hb => h b (by simp [hb]))]

theorem count_eq_one_of_nodup {d : Nat} : ∀ (l : List Nat), l.Nodup → d ∈ l → l.count d = 1
  | [], _, h => by simp at h
  | a :: t, hn, h => by
    simp only [List.nodup_cons] at hn
    by_cases e : a = d
    · subst e
      have : t.count a = 0 := List.count_eq_zero.2 hn.1
      simp [this]
    · have hm : d ∈ t := by
        simp only [List.mem_cons] at h
        rcases h with h | h
        · exact absurd h.symm e
        · exact h
      have hne : (a == d) = false := by simp [e]
      simp [List.count_cons, hne, count_eq_one_of_nodup t hn.2 hm]

theorem refCount_zero_of_allDropped {s : State} (h : AllDropped s) (c : Nat) : refCount s c = 0 := by
  simp only [refCount, hcount, bcount]
  rw [sum_map_zero, sum_map_zero]
  · intro b hb; rw [h.2 b hb]; simp
  · intro o ho; rw [h.1 o ho]; simp

/-- every descriptor the library created is in exactly one of the three states -/
theorem lib_states {s : State} (h : Inv s) {d : Nat} (hd : d ∈ s.lib) :
    (OwnedLive s d ∧ ¬ TakenOut s d ∧ ¬ ClosedOnce s d) ∨
    (¬ OwnedLive s d ∧ TakenOut s d ∧ ¬ ClosedOnce s d) ∨
    (¬ OwnedLive s d ∧ ¬ TakenOut s d ∧ ClosedOnce s d) := by
  by_cases ht : d ∈ s.takenFds
  · obtain ⟨h1, h2, h3, _⟩ := h.takenOk d ht
    refine Or.inr (Or.inl ⟨fun ho => ho.2.2.1 ht, ⟨ht, h1, ⟨h2, h.userOpen d⟩, fun ⟨c, hc⟩ => h3 c hc⟩, fun hc => hc.2.1 ht⟩)
  · by_cases ho : d ∈ keys s.open
    · have hnu : d ∉ s.user := fun hu => ht (h.libUser d hd hu)
      rcases h.noLeak d ho with hu | ⟨c, hc⟩
      · exact absurd hu hnu
      · have hcl : d ∉ s.libClosed := fun hcl => h.closedNotOpen d hcl ho
        have hpos : 0 < refCount s c := by
          obtain ⟨x, hx, hr, _, _⟩ := hc
          have := h.cnt c x hx
          simp at this; omega
        exact Or.inl ⟨⟨ho, hnu, ht, hcl, c, hc, hpos⟩, fun hh => ht hh.1, fun hh => hh.1 ho⟩
    · have hcl : d ∈ s.libClosed := by
        rcases h.libClosedOr d hd ho with h1 | h1
        · exact h1
        · exact absurd h1 ht
      have hno : ¬ ∃ c, Owns s c d := fun ⟨c, hc⟩ => ho (h.ownOpen c d hc).1
      have hnu : d ∉ s.user := fun hu => ho (h.userOpen d hu)
      refine Or.inr (Or.inr ⟨fun hh => ho hh.1, fun hh => ht hh.1, ho, ht, ?_, hnu, hno⟩)
      exact count_eq_one_of_nodup _ h.closedNodup hcl

/-- nothing is left but what the caller owns -/
theorem leak_free_of_inv {s : State} (h : Inv s) (hd : AllDropped s) :
    ∀ d, d ∈ keys s.open ↔ d ∈ s.user := by
  intro d
  constructor
  · intro ho
    rcases h.noLeak d ho with hu | ⟨c, x, hx, hr, _, _⟩
    · exact hu
    · exfalso
      have := h.cnt c x hx
      rw [refCount_zero_of_allDropped hd] at this
      simp at this; omega
  · exact h.userOpen d

/-- a handle the caller holds points to a living cell; unless it was taken, its descriptor is open, not
    caller-owned (the handle will close it) and has not been closed -/
theorem held_handle {s : State} (h : Inv s) {hd c : Nat} (hh : s.handles[hd]? = some (some c)) :
    ∃ x, s.cells[c]? = some x ∧ 0 < x.refs ∧ x.refs = refCount s c ∧
      (x.taken = false → x.fd ∈ keys s.open ∧ x.fd ∉ s.libClosed ∧ x.fd ∉ s.user ∧
        ∃ f, lookupFd s.open x.fd = some f) := by
  have hpos : 0 < refCount s c + ([] : List Nat).count c := by
    have := hcount_pos hh
    simp only [refCount]; omega
  obtain ⟨x, hx, hr⟩ := h.cell_of_pending hpos
  refine ⟨x, hx, by omega, by simpa using hr, ?_⟩
  intro htk
  have hown : Owns s c x.fd := ⟨x, hx, by omega, htk, rfl⟩
  have ho := (h.ownOpen c _ hown).1
  exact ⟨ho, fun hcl => h.closedNotOpen _ hcl ho, (h.ownOpen c _ hown).2, lookup_of_mem_keys ho⟩

/-- the same for the entries of a body's descriptor list -/
theorem body_entry {s : State} (h : Inv s) {b i c : Nat} {bd : Body} (hb : s.bodies[b]? = some bd)
    (hc : bd.fds[i]? = some c) :
    ∃ x, s.cells[c]? = some x ∧ 0 < x.refs ∧
      (x.taken = false → x.fd ∈ keys s.open ∧ x.fd ∉ s.libClosed ∧ x.fd ∉ s.user) := by
  have hpos : 0 < refCount s c + ([] : List Nat).count c := by
    have := bcount_ge c hb
    have := count_pos_of_getElem? hc
    simp only [refCount]; omega
  obtain ⟨x, hx, hr⟩ := h.cell_of_pending hpos
  refine ⟨x, hx, by omega, ?_⟩
  intro htk
  have hown : Owns s c x.fd := ⟨x, hx, by omega, htk, rfl⟩
  have ho := (h.ownOpen c _ hown).1
  exact ⟨ho, fun hcl => h.closedNotOpen _ hcl ho, (h.ownOpen c _ hown).2⟩

/-! ### how the caller-owned set evolves -/

theorem user_userClose (s : State) (r d : Nat) :
    d ∈ (userClose s r).1.user ↔ d ∈ s.user ∧ s.raws[r]? ≠ some d := by
  unfold userClose
  split
  · next d0 hr =>
    split
    · next hu => simp only [List.mem_filter, bne_iff_ne, ne_eq, hr, Option.some.injEq]; exact ⟨fun ⟨a, b⟩ => ⟨a, fun e => b e.symm⟩, fun ⟨a, b⟩ => ⟨a, fun e => b e.symm⟩⟩
    · next hu =>
      simp only [hr, ne_eq, Option.some.injEq]
      exact ⟨fun a => ⟨a, fun e => hu (e ▸ a)⟩, fun a => a.1⟩
  · next hr => simp [hr]

theorem user_wrap (s : State) (r d : Nat) :
    d ∈ (wrap s r).1.user ↔ d ∈ s.user ∧ s.raws[r]? ≠ some d := by
  unfold wrap
  split
  · next d0 hr =>
    split
    · next hu => simp only [newCell, List.mem_filter, bne_iff_ne, ne_eq, hr, Option.some.injEq]; exact ⟨fun ⟨a, b⟩ => ⟨a, fun e => b e.symm⟩, fun ⟨a, b⟩ => ⟨a, fun e => b e.symm⟩⟩
    · next hu =>
      simp only [hr, ne_eq, Option.some.injEq]
      exact ⟨fun a => ⟨a, fun e => hu (e ▸ a)⟩, fun a => a.1⟩
  · next hr => simp [hr]

theorem user_take (s : State) (h d : Nat) :
    d ∈ (take s h).1.user ↔ d ∈ s.user ∨ (take s h).2 = .fd (some d) := by
  unfold take
  split
  · next c hc =>
    simp only
    split
    · simp
    · next x hx =>
      split
      · rw [(same_decr _ _).user]; simp
      · rw [(same_decr _ _).user]
        simp only [List.mem_append, List.mem_cons, List.not_mem_nil, or_false, Res.fd.injEq, Option.some.injEq]
        exact ⟨fun a => a.imp id Eq.symm, fun a => a.imp id Eq.symm⟩
  · simp

/-- The caller-owned set changes only through the caller's own operations and `take_raw_fd`:
    `d` is caller-owned after `op` iff it was before and `op` is not the caller closing it or handing it to
    a `UnixFd`, or `op` is the caller opening it, or `op` is a `take_raw_fd` that returned it. -/
theorem user_step (s : State) (op : Op) (d : Nat) :
    d ∈ (step s op).1.user ↔
      (d ∈ s.user ∧ ¬ ∃ r, (op = .userClose r ∨ op = .wrap r) ∧ s.raws[r]? = some d) ∨
      (∃ f, op = .userOpen f ∧ d = s.nextFd) ∨
      (∃ h, op = .take h ∧ (step s op).2 = .fd (some d)) := by
  cases op with
  | userOpen f => simp [step, userOpen, kInstall]
  | userClose r =>
    simp only [step, user_userClose]
    simp
  | wrap r =>
    simp only [step, user_wrap]
    simp
  | take h =>
    simp only [step, user_take]
    simp
  | newBody => simp [step, newBody]
  | push b items => simp [step, (same_push s b items).user]
  | reset b => simp [step, (same_reset s b).user]
  | dropBody b => simp [step, (same_dropBody s b).user]
  | send b =>
    have : (send s b).1.user = s.user := by
      unfold send; split
      · rfl
      · split
        · rfl
        · split <;> rfl
    simp [step, this]
  | peerSend files idx v => simp [step, peerSend]
  | receive =>
    have : (receive s).1.user = s.user := by
      unfold receive; split
      · rfl
      · next m rest _ =>
        simp only
        split
        · exact (same_installAll _ _).user
        · exact ((same_installAll _ _).of_dropRefs _).user
    simp [step, this]
  | unmarshalFd b j => simp [step, (same_unmarshalFd s b j).user]
  | get h => simp [step, (same_get s h).user]
  | dupHandle h => simp [step, (same_dupHandle s h).user]
  | dupHandleFail h => simp [step, dupHandleFail_state]
  | cloneHandle h => simp [step, (same_cloneHandle s h).user]
  | dropHandle h => simp [step, (same_dropHandle s h).user]

/-! ### operations on bodies leave the caller's handles alone -/

/-- the caller's handles and raw numbers are the same, and no cell lost its descriptor or changed it -/
structure Keep (s s' : State) : Prop where
  handles : s'.handles = s.handles
  raws : s'.raws = s.raws
  cells : ∀ (c : Nat) (x : Cell), s.cells[c]? = some x →
    ∃ x', s'.cells[c]? = some x' ∧ x'.fd = x.fd ∧ x'.taken = x.taken

theorem Keep.refl (s : State) : Keep s s := ⟨rfl, rfl, fun _ x h => ⟨x, h, rfl, rfl⟩⟩

theorem Keep.trans {a b c : State} (h1 : Keep a b) (h2 : Keep b c) : Keep a c :=
  ⟨h2.handles.trans h1.handles, h2.raws.trans h1.raws, fun k x hx => by
    obtain ⟨x1, hx1, e1, e2⟩ := h1.cells k x hx
    obtain ⟨x2, hx2, e3, e4⟩ := h2.cells k x1 hx1
    exact ⟨x2, hx2, e3.trans e1, e4.trans e2⟩⟩

theorem keep_decr (s : State) (c : Nat) : Keep s (decr s c) := by
  obtain ⟨a1, _, _, a4, _⟩ := decr_frame s c
  refine ⟨a1, a4, ?_⟩
  intro k x hx
  by_cases e : k = c
  · subst e
    have hlt := lt_length_of_getElem? hx
    unfold decr libClose
    simp only [hx]
    split
    · exact ⟨x, hx, rfl, rfl⟩
    · split
      · split
        · exact ⟨{ x with refs := 0 }, by simp [hlt], rfl, rfl⟩
        · split <;> exact ⟨{ x with refs := 0 }, by simp [hlt], rfl, rfl⟩
      · exact ⟨{ x with refs := x.refs - 1 }, by simp [hlt], rfl, rfl⟩
  · exact ⟨x, by rw [decr_other s c k e]; exact hx, rfl, rfl⟩

theorem keep_dropRefs : ∀ (l : List Nat) (s : State), Keep s (dropRefs s l)
  | [], s => Keep.refl s
  | c :: cs, s => (keep_decr s c).trans (keep_dropRefs cs (decr s c))

theorem Keep.of_dropRefs {s s2 : State} (h : Keep s s2) (l : List Nat) : Keep s (dropRefs s2 l) :=
  h.trans (keep_dropRefs _ _)

theorem keep_pushLoop (b : Nat) : ∀ (items : List Item) (s : State), Keep s (pushLoop s b items).1
  | [], s => Keep.refl s
  | it :: rest, s => by
    simp only [pushLoop, pushItem_eq]
    cases hsrc : itemSource s it with
    | none => exact Keep.refl s
    | some d =>
      simp only
      cases hdup : dupInto s b d with
      | none => exact Keep.refl s
      | some s' =>
        simp only
        obtain ⟨f, bd0, _, _, hs'⟩ := dupInto_eq hdup
        refine Keep.trans ?_ (keep_pushLoop b rest s')
        rw [hs']
        refine ⟨rfl, rfl, ?_⟩
        intro k x hx
        exact ⟨x, by simp only [getElem?_append_single, lt_length_of_getElem? hx, if_true]; exact hx, rfl, rfl⟩

theorem keep_push (s : State) (b : Nat) (items : List Item) : Keep s (push s b items).1 := by
  unfold push
  split
  · exact Keep.refl s
  · split
    · exact Keep.refl s
    · have hl := keep_pushLoop b items s
      split
      · next s1 hs1 => rw [hs1] at hl; exact hl
      · next s1 hs1 =>
        rw [hs1] at hl
        split
        · exact Keep.trans hl ⟨rfl, rfl, fun _ x h => ⟨x, h, rfl, rfl⟩⟩
        · dsimp only
          refine Keep.of_dropRefs ?_ _
          exact Keep.trans hl ⟨rfl, rfl, fun _ x h => ⟨x, h, rfl, rfl⟩⟩

theorem keep_reset (s : State) (b : Nat) : Keep s (reset s b).1 := by
  unfold reset
  split
  · exact Keep.refl s
  · split
    · exact Keep.refl s
    · dsimp only
      refine Keep.of_dropRefs ?_ _
      exact ⟨rfl, rfl, fun _ x h => ⟨x, h, rfl, rfl⟩⟩

theorem keep_dropBody (s : State) (b : Nat) : Keep s (dropBody s b).1 := by
  unfold dropBody
  split
  · exact Keep.refl s
  · split
    · exact Keep.refl s
    · dsimp only
      refine Keep.of_dropRefs ?_ _
      exact ⟨rfl, rfl, fun _ x h => ⟨x, h, rfl, rfl⟩⟩

theorem keep_send (s : State) (b : Nat) : Keep s (send s b).1 := by
  unfold send
  split
  · exact Keep.refl s
  · split
    · exact Keep.refl s
    · split
      · exact Keep.refl s
      · exact ⟨rfl, rfl, fun _ x h => ⟨x, h, rfl, rfl⟩⟩

end Rustbus.FdTable
