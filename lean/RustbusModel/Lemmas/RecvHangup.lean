import RustbusModel.Lemmas.RecvRun
/-!
C09, the peer hangs up: everything it wrote has ARRIVED in the receiver's socket (`w.rest.length ≤ w.avail`) and nothing
more will come. While unread bytes are queued a `recvmsg` cannot block; these lemmas show that a blocking
`get_next_message` then returns the next frame, whatever (positive) amounts the kernel hands over per call.
-/
namespace Rustbus.Recv
open Rustbus Rustbus.Bytes Rustbus.Header

variable {p : Frame → Nat}

/-- everything the peer wrote has arrived -/
def AllArrived (w : World) : Prop := w.rest.length ≤ w.avail

theorem recvmsg_all_arrived (w : World) (req k : Nat) (hav : AllArrived w) (hk : 0 < k) (hreq : 0 < req)
    (hne : w.rest ≠ []) :
    ∃ bs fds w', recvmsg w req k = (.data bs fds, w') ∧ AllArrived w' := by
  unfold AllArrived at hav
  have hlen : 0 < w.rest.length := List.length_pos_iff.mpr hne
  simp only [recvmsg]
  have h1 : ¬ (min w.avail w.rest.length = 0 ∨ k = 0) := by omega
  have h2 : ¬ req = 0 := by omega
  rw [if_neg h1, if_neg h2]
  refine ⟨_, _, _, rfl, ?_⟩
  simp only [AllArrived, List.length_drop]
  omega

/-- one `refill_buffer` after the hang-up, inside an incomplete frame: it reads at least one byte -/
theorem refill_progress {todo : List Frame} {st : State} {w : World} {nd k : Nat}
    (hI : Inv p todo st w) (hok : FramesOk p todo) (_hne : todo ≠ [])
    (hnd : nd ≤ max 16 (hd todo).bytes.length) (hlt : st.buf.length < nd)
    (hinc : st.buf.length < (hd todo).bytes.length) (hk : 0 < k) (hav : AllArrived w) :
    ∃ st' w', refill st w nd k = (.readOk, st', w') ∧ st.buf.length < st'.buf.length ∧
      Inv p todo st' w' ∧ AllArrived w' := by
  have hfull : ¬ nd ≤ st.buf.length := by omega
  have hreq := refill_request_pos st nd hfull
  have hrest : w.rest ≠ [] := by
    intro h0
    have := hI.rest
    rw [h0] at this
    have h1 : (cells p (hd todo)).drop st.buf.length = [] := (List.append_eq_nil_iff.mp this.symm).1
    rw [List.drop_eq_nil_iff, cells_length] at h1
    omega
  obtain ⟨bs, fds, w1, hr, hav1⟩ := recvmsg_all_arrived w ((reserve st nd).cap - st.buf.length) k hav hk hreq hrest
  have hbne : bs ≠ [] := recvmsg_data_ne_nil _ _ _ _ _ _ hreq hr
  have hie : bs.isEmpty = false := by
    cases bs with
    | nil => exact absurd rfl hbne
    | cons _ _ => rfl
  have hrf : refill st w nd k =
      (.readOk, { reserve st nd with buf := st.buf ++ bs, fds := st.fds ++ fds }, w1) := by
    rw [refill_read hfull, hr]
    simp only [hie, Bool.false_eq_true, if_false]
  obtain ⟨_, hI', _, _⟩ := refill_inv hI hok hnd hrf
  refine ⟨_, _, hrf, ?_, hI', hav1⟩
  simp only [List.length_append]
  have : 0 < bs.length := List.length_pos_iff.mpr hbne
  omega

/-- `read_whole_message` after the hang-up: with positive kernel answers, at most one per missing byte, it completes
    the current frame -/
theorem readWhole_all_arrived {todo : List Frame} (hok : FramesOk p todo) (hne : todo ≠ []) :
    ∀ (ks : List Nat) (st : State) (w : World), Inv p todo st w → AllArrived w → (∀ k ∈ ks, 0 < k) →
      (hd todo).bytes.length - st.buf.length ≤ ks.length →
      ∃ st' w', readWhole st w (ks.map Ev.deliver) = (.readOk, st', w') ∧ check st' = .whole ∧
        Inv p todo st' w' ∧ AllArrived w' := by
  intro ks
  induction ks with
  | nil =>
    intro st w hI hav _ hlen
    have hc := check_of_inv hI hok
    have hle := hI.le
    simp only [List.length_nil] at hlen
    have heq : st.buf.length = (hd todo).bytes.length := by omega
    rw [if_pos ⟨heq, hne⟩] at hc
    refine ⟨st, w, ?_, hc, hI, hav⟩
    simp only [List.map_nil, readWhole, hc]
  | cons k ks ih =>
    intro st w hI hav hpos hlen
    have hc := check_of_inv hI hok
    have hle := hI.le
    by_cases heq : st.buf.length = (hd todo).bytes.length
    · rw [if_pos ⟨heq, hne⟩] at hc
      refine ⟨st, w, ?_, hc, hI, hav⟩
      simp only [List.map_cons, readWhole, hc]
    · rw [if_neg (by intro hh; exact heq hh.1)] at hc
      have hinc : st.buf.length < (hd todo).bytes.length := by omega
      have h16 := (hd_ok hok hne).1
      have hk : 0 < k := hpos k (by simp)
      obtain ⟨st1, w1, hrf, hprog, hI1, hav1⟩ :=
        refill_progress (nd := if st.buf.length < 16 then 16 else (hd todo).bytes.length) hI hok hne
          (by split <;> omega) (by split <;> omega) hinc hk hav
      have hlen1 : (hd todo).bytes.length - st1.buf.length ≤ ks.length := by
        simp only [List.length_cons] at hlen
        omega
      obtain ⟨st2, w2, hrw, hc2, hI2, hav2⟩ := ih st1 w1 hI1 hav1 (fun k' hk' => hpos k' (by simp [hk'])) hlen1
      refine ⟨st2, w2, ?_, hc2, hI2, hav2⟩
      simp only [List.map_cons, readWhole, hc, hrf]
      exact hrw

end Rustbus.Recv

namespace Rustbus.Recv
open Rustbus Rustbus.Bytes Rustbus.Header

variable {p : Frame → Nat}

/-- `get_next_message` after the hang-up returns the next frame whole, with its descriptors, and what is left of the
    stream has still all arrived -/
theorem getNext_all_arrived {todo : List Frame} {st : State} {w : World}
    (hI : Inv p todo st w) (hok : FramesOk p todo) (hne : todo ≠ []) (hav : AllArrived w)
    (ks : List Nat) (hpos : ∀ k ∈ ks, 0 < k) (hlen : (hd todo).bytes.length - st.buf.length ≤ ks.length) :
    ∃ w', getNext st w (ks.map Ev.deliver) = (.msg (hd todo).bytes (hd todo).fds, State.empty, w') ∧
      Inv p todo.tail State.empty w' ∧ FramesOk p todo.tail ∧ AllArrived w' := by
  obtain ⟨st1, w1, hrw, hc, hI1, hav1⟩ := readWhole_all_arrived hok hne ks st w hI hav hpos hlen
  cases hg : getNext st w (ks.map Ev.deliver) with
  | mk r rest =>
    cases rest with
    | mk st2 w2 =>
      obtain ⟨todo', hI2, hok2, htodo, hgood⟩ := getNext_inv hI hok hg
      have hshape : w2 = w1 ∧ ((r = .malformed) ∨ (r = .msg st1.buf st1.fds ∧ st2 = State.empty)) := by
        simp only [getNext, hrw] at hg
        cases hh : decodeHeader st1.buf with
        | none =>
          rw [hh] at hg
          simp only [Prod.mk.injEq] at hg
          exact ⟨hg.2.2.symm, Or.inl hg.1.symm⟩
        | some x =>
          rw [hh] at hg
          cases hm : decodeMessage st1.buf with
          | none =>
            rw [hm] at hg
            simp only [Prod.mk.injEq] at hg
            exact ⟨hg.2.2.symm, Or.inl hg.1.symm⟩
          | some y =>
            rw [hm] at hg
            simp only [Prod.mk.injEq] at hg
            exact ⟨hg.2.2.symm, Or.inr ⟨hg.1.symm, hg.2.1.symm⟩⟩
      obtain ⟨rfl, hr | ⟨rfl, rfl⟩⟩ := hshape
      · rw [hr] at hgood; simp [Res.good] at hgood
      · simp only [msgs, List.cons_append, List.nil_append] at htodo
        subst htodo
        refine ⟨w2, rfl, hI2, hok2, hav1⟩

/-- a stream that ended: nothing buffered, nothing queued — the next `recvmsg` sees end of file -/
theorem nothing_left {st : State} {w : World} (hI : Inv p [] st w) : st.buf = [] ∧ st.fds = [] ∧ w.rest = [] := by
  have hle := hI.le
  have hr := hI.rest
  have hf := hI.fds
  have h0 : st.buf.length = 0 := by
    simp only [hd, List.headD_nil, List.length_nil] at hle
    omega
  have hb : st.buf = [] := List.eq_nil_of_length_eq_zero h0
  refine ⟨hb, ?_, ?_⟩
  · rw [h0, if_pos (Nat.zero_le _)] at hf
    exact hf
  · rw [hr]
    simp [hd, cells, cellsFrom, stream]

end Rustbus.Recv

namespace Rustbus.Recv
open Rustbus Rustbus.Bytes Rustbus.Header

variable {p : Frame → Nat}

theorem run_append : ∀ (a b : List Action) (st : State) (w : World),
    run st w (a ++ b) =
      ((run st w a).1 ++ (run (run st w a).2.1 (run st w a).2.2 b).1,
        (run (run st w a).2.1 (run st w a).2.2 b).2) := by
  intro a
  induction a with
  | nil => intro b st w; simp [run]
  | cons x a ih =>
    intro b st w
    cases x with
    | arrive n => simp only [List.cons_append, run]; exact ih b st _
    | call c evs =>
      simp only [List.cons_append, run]
      cases hs : step c st w evs with
      | mk r rest =>
        cases rest with
        | mk st1 w1 =>
          simp only
          rw [ih b st1 w1]

/-- the blocking calls the caller makes after the hang-up: one `get_next_message` per list of kernel answers -/
def drainCalls (kss : List (List Nat)) : List Action := kss.map (fun ks => Action.call .getNext (ks.map Ev.deliver))

/-- enough kernel answers for every remaining frame: per frame a list of POSITIVE amounts, at least one per byte of the
    frame (the worst case: the kernel hands over one byte per `recvmsg`) -/
def Enough : List Frame → List (List Nat) → Prop
  | [], [] => True
  | f :: fs, ks :: kss => (∀ k ∈ ks, 0 < k) ∧ f.bytes.length ≤ ks.length ∧ Enough fs kss
  | _, _ => False

theorem drain_all_arrived : ∀ (todo : List Frame) (kss : List (List Nat)) (st : State) (w : World),
    Inv p todo st w → FramesOk p todo → AllArrived w → Enough todo kss →
    ∃ st' w', run st w (drainCalls kss) = (todo.map (fun f => Res.msg f.bytes f.fds), st', w') ∧
      Inv p [] st' w' := by
  intro todo
  induction todo with
  | nil =>
    intro kss st w hI _ _ hen
    cases kss with
    | nil => exact ⟨st, w, by simp [drainCalls, run], hI⟩
    | cons _ _ => simp [Enough] at hen
  | cons f fs ih =>
    intro kss st w hI hok hav hen
    cases kss with
    | nil => simp [Enough] at hen
    | cons ks kss =>
      obtain ⟨hpos, hlen, hen'⟩ := hen
      obtain ⟨w1, hg, hI1, hok1, hav1⟩ := getNext_all_arrived hI hok (by simp) hav ks hpos
        (by simp only [hd, List.headD_cons]; omega)
      simp only [hd, List.headD_cons, List.tail_cons] at hg hI1 hok1
      obtain ⟨st2, w2, hr, hI2⟩ := ih kss State.empty w1 hI1 hok1 hav1 hen'
      refine ⟨st2, w2, ?_, hI2⟩
      simp only [drainCalls, List.map_cons, run, step, hg]
      simp only [drainCalls] at hr
      rw [hr]

theorem msgs_map_msg (fs : List Frame) : msgs (fs.map (fun f => Res.msg f.bytes f.fds)) = fs := by
  induction fs with
  | nil => rfl
  | cons f fs ih => simp [msgs, ih]

theorem msgs_append (a b : List Res) : msgs (a ++ b) = msgs a ++ msgs b := by
  induction a with
  | nil => rfl
  | cons r a ih => cases r <;> simp [msgs, ih]

end Rustbus.Recv
