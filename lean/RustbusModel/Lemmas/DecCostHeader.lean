import RustbusModel.Lemmas.DecCostWindow
import RustbusModel.Lemmas.HeaderField
/-!
C04 lemmas, part 5: the header decoder depends only on the bytes of the header.
-/
namespace Rustbus.Header
open Rustbus Rustbus.Bytes Rustbus.Wire

theorem readSig_agree {buf buf' : List UInt8} {lim : Nat} (h : buf.take lim = buf'.take lim) (off : Nat) :
    readSig buf off lim = readSig buf' off lim := by
  unfold readSig
  rw [readNum_agree h]
  cases readNum .le buf' off lim 1 with
  | none => rfl
  | some len =>
    simp only []
    split
    · rw [agree_slice h (off + 1) len (by omega), agree_slice h (off + 1 + len) 1 (by omega)]
    · rfl

theorem decodeField_agree {buf buf' : List UInt8} {lim : Nat} (h : buf.take lim = buf'.take lim)
    (bo : ByteOrder) (off : Nat) :
    decodeField bo buf off lim = decodeField bo buf' off lim := by
  have e1 : ∀ off a, skipPad buf off lim a = skipPad buf' off lim a := fun _ _ => skipPad_agree h _ _
  have e2 : ∀ bo off k, readNum bo buf off lim k = readNum bo buf' off lim k := fun _ _ _ => readNum_agree h _ _ _
  have e3 : ∀ off, readSig buf off lim = readSig buf' off lim := fun _ => readSig_agree h _
  have e4 : ∀ bo nfds b off, decBase bo buf nfds b off lim = decBase bo buf' nfds b off lim :=
    fun _ _ _ _ => decBase_agree h _ _ _ _
  have e5 : ∀ bo nfds d t off, dec bo buf nfds d t off lim = dec bo buf' nfds d t off lim :=
    fun bo nfds d t off => win_all bo nfds d buf buf' t off lim h
  unfold decodeField readStr
  simp only [e1, e2, e3, e4, e5]

theorem decodeFields_agree {buf buf' : List UInt8} {lim : Nat} (h : buf.take lim = buf'.take lim)
    (bo : ByteOrder) (fuel off : Nat) :
    decodeFields bo buf off lim fuel = decodeFields bo buf' off lim fuel := by
  induction fuel generalizing off with
  | zero => simp only [decodeFields]
  | succ f ih => simp only [decodeFields, decodeField_agree h, ih]

theorem decodeFixed_reads_12 (buf buf' : List UInt8) (h : buf.take 12 = buf'.take 12) :
    decodeFixed buf = decodeFixed buf' := by
  have hl : buf.length < 12 ↔ buf'.length < 12 := by
    have := congrArg List.length h
    simp only [List.length_take] at this
    omega
  have hs : ∀ o k, o + k ≤ 12 → slice buf o k = slice buf' o k := fun o k hk => agree_slice h o k hk
  unfold decodeFixed
  by_cases hc : buf.length < 12
  · simp [hc, hl.mp hc]
  · have hc' : ¬ buf'.length < 12 := fun x => hc (hl.mpr x)
    simp only [hc, hc', if_false]
    match buf, buf', hc, hc', h, hs with
    | e :: t :: f :: ver :: r, e' :: t' :: f' :: ver' :: r', _, _, h, hs =>
      simp only [List.take_succ_cons, List.cons.injEq] at h
      obtain ⟨rfl, rfl, rfl, rfl, _⟩ := h
      simp only [hs 4 4 (by omega), hs 8 4 (by omega)]
    | [], _, hc, _, _, _ => simp at hc
    | [_], _, hc, _, _, _ => simp at hc
    | [_, _], _, hc, _, _, _ => simp at hc
    | [_, _, _], _, hc, _, _, _ => simp at hc
    | _ :: _ :: _ :: _ :: _, [], _, hc', _, _ => simp at hc'
    | _ :: _ :: _ :: _ :: _, [_], _, hc', _, _ => simp at hc'
    | _ :: _ :: _ :: _ :: _, [_, _], _, hc', _, _ => simp at hc'
    | _ :: _ :: _ :: _ :: _, [_, _, _], _, hc', _, _ => simp at hc'

/-- header decoding depends only on the bytes of the header itself -/
theorem decodeHeader_agree (buf buf' : List UInt8) (fx : Fixed) (fs : List Field) (used : Nat)
    (hd : decodeHeader buf = some (fx, fs, used)) (h : buf.take used = buf'.take used)
    (hlen : used ≤ buf'.length) :
    decodeHeader buf' = some (fx, fs, used) := by
  unfold decodeHeader at hd ⊢
  cases h1 : decodeFixed buf with
  | none => simp [h1] at hd
  | some fx' =>
    simp only [h1] at hd
    cases h2 : readNum fx'.bo buf 12 buf.length 4 with
    | none => simp [h2] at hd
    | some len =>
      simp only [h2] at hd
      split at hd
      · rename_i hl
        cases h3 : decodeFields fx'.bo buf 16 (16 + len) len with
        | none => simp [h3] at hd
        | some fs' =>
          simp only [h3] at hd
          split at hd
          · rename_i hok
            simp only [Option.some.injEq, Prod.mk.injEq] at hd
            obtain ⟨rfl, rfl, rfl⟩ := hd
            have h12 : buf.take 12 = buf'.take 12 := agree_mono h (by omega)
            have hfix : decodeFixed buf' = some fx' := by
              rw [← h1]; exact (decodeFixed_reads_12 buf buf' h12).symm
            have hnum : readNum fx'.bo buf' 12 buf'.length 4 = some len := by
              unfold readNum at h2 ⊢
              split at h2
              · simp only [Option.some.injEq] at h2
                rw [← agree_slice h 12 4 (by omega), h2]
                simp; omega
              · simp at h2
            have hfields : decodeFields fx'.bo buf' 16 (16 + len) len = some fs' := by
              rw [← decodeFields_agree h]; exact h3
            simp only [hfix, hnum, hfields, hok, if_true]
            rw [if_pos (by omega)]
          · simp at hd
      · simp at hd


/-! ### the header field loop needs no more fuel than bytes are left -/

theorem decodeField_progress (bo : ByteOrder) (buf : List UInt8) (off lim : Nat) (f? : Option Field) (o' : Nat)
    (h : decodeField bo buf off lim = some (f?, o')) : off < o' ∧ o' ≤ lim := by
  obtain ⟨e, hd, _⟩ := (decodeField_iff bo buf off lim f? o').mp h
  obtain ⟨h1, h2, _⟩ := enc_dec _ _ _ _ _ _ _ _ _ hd
  exact ⟨h1, h2⟩

theorem decodeFields_fuel (bo : ByteOrder) (buf : List UInt8) (lim : Nat) (f1 f2 off : Nat)
    (h1 : lim - off ≤ f1) (h2 : lim - off ≤ f2) :
    decodeFields bo buf off lim f1 = decodeFields bo buf off lim f2 := by
  have stuck : ∀ off, lim ≤ off → decodeField bo buf off lim = none := by
    intro off hl
    cases hd : decodeField bo buf off lim with
    | none => rfl
    | some p => obtain ⟨f?, o'⟩ := p; have := decodeField_progress bo buf off lim f? o' hd; omega
  induction f1 generalizing f2 off with
  | zero =>
    cases f2 with
    | zero => rfl
    | succ f2 =>
      simp only [decodeFields]
      split
      · rfl
      · rw [stuck off (by omega)]
  | succ f1 ih =>
    cases f2 with
    | zero =>
      simp only [decodeFields]
      split
      · rfl
      · rw [stuck off (by omega)]
    | succ f2 =>
      simp only [decodeFields]
      split
      · rfl
      · cases hd : decodeField bo buf off lim with
        | none => rfl
        | some p =>
          obtain ⟨f?, o'⟩ := p
          have := decodeField_progress bo buf off lim f? o' hd
          simp only []
          rw [ih f2 o' (by omega) (by omega)]

end Rustbus.Header
