import RustbusModel.Spec.FdTable
/-!
Helper lemmas for C11: the descriptor table as a list, reference counting over the holders, the
invariant `InvP` (parametrised by the references an operation currently holds on its stack) and its
preservation by the micro-steps the operations are composed of.
-/
namespace Rustbus.FdTable

/-! ### the table -/

theorem mem_keys_of_lookup {l : List (Nat × Nat)} {d f : Nat} (h : lookupFd l d = some f) :
    (d, f) ∈ l := by
  induction l with
  | nil => simp [lookupFd] at h
  | cons p r ih =>
    obtain ⟨k, g⟩ := p
    simp only [lookupFd] at h
    split at h
    · next hk => simp only [Option.some.injEq] at h; subst hk; subst h; simp
    · exact List.mem_cons_of_mem _ (ih h)

theorem lookup_of_mem_keys {l : List (Nat × Nat)} {d : Nat} (h : d ∈ keys l) :
    ∃ f, lookupFd l d = some f := by
  induction l with
  | nil => simp [keys] at h
  | cons p r ih =>
    obtain ⟨k, g⟩ := p
    simp only [lookupFd]
    split
    · exact ⟨g, rfl⟩
    · next hk =>
      simp only [keys, List.map_cons, List.mem_cons] at h
      rcases h with h | h
      · exact absurd h.symm hk
      · exact ih h

theorem lookup_none_of_not_mem {l : List (Nat × Nat)} {d : Nat} (h : d ∉ keys l) :
    lookupFd l d = none := by
  cases hl : lookupFd l d with
  | none => rfl
  | some f =>
    have := mem_keys_of_lookup hl
    exact absurd (List.mem_map_of_mem (f := (·.1)) this) h

theorem mem_keys_of_lookup' {l : List (Nat × Nat)} {d f : Nat} (h : lookupFd l d = some f) :
    d ∈ keys l :=
  List.mem_map_of_mem (f := (·.1)) (mem_keys_of_lookup h)

theorem lookup_append_left {l : List (Nat × Nat)} {d f : Nat} (r : List (Nat × Nat))
    (h : lookupFd l d = some f) : lookupFd (l ++ r) d = some f := by
  induction l with
  | nil => simp [lookupFd] at h
  | cons p t ih =>
    obtain ⟨k, g⟩ := p
    simp only [lookupFd, List.cons_append] at h ⊢
    split
    · next hk => simpa [hk] using h
    · next hk => simp only [hk, if_false] at h; exact ih h

theorem lookup_append_fresh {l : List (Nat × Nat)} {d f : Nat} (h : d ∉ keys l) :
    lookupFd (l ++ [(d, f)]) d = some f := by
  induction l with
  | nil => simp [lookupFd]
  | cons p t ih =>
    obtain ⟨k, g⟩ := p
    simp only [keys, List.map_cons, List.mem_cons, not_or] at h
    simp only [lookupFd, List.cons_append]
    rw [if_neg (fun e => h.1 e.symm)]
    exact ih h.2

theorem keys_append (l r : List (Nat × Nat)) : keys (l ++ r) = keys l ++ keys r := by
  simp [keys]

theorem mem_keys_removeFd {l : List (Nat × Nat)} {d k : Nat} :
    k ∈ keys (removeFd l d) ↔ k ∈ keys l ∧ k ≠ d := by
  simp only [keys, removeFd, List.mem_map, List.mem_filter, bne_iff_ne, ne_eq]
  constructor
  · rintro ⟨p, ⟨hp, hne⟩, rfl⟩; exact ⟨⟨p, hp, rfl⟩, hne⟩
  · rintro ⟨⟨p, hp, rfl⟩, hne⟩; exact ⟨p, ⟨hp, hne⟩, rfl⟩

theorem nodup_keys_removeFd {l : List (Nat × Nat)} (d : Nat) (h : (keys l).Nodup) :
    (keys (removeFd l d)).Nodup := by
  induction l with
  | nil => simp [keys, removeFd]
  | cons p t ih =>
    simp only [keys, List.map_cons, List.nodup_cons] at h
    simp only [removeFd, List.filter_cons]
    split
    · simp only [keys, List.map_cons, List.nodup_cons]
      refine ⟨?_, ih h.2⟩
      intro hm
      have := (mem_keys_removeFd (l := t) (d := d) (k := p.1)).1 hm
      exact h.1 this.1
    · exact ih h.2

theorem mem_removeFd {l : List (Nat × Nat)} {d : Nat} {p : Nat × Nat} :
    p ∈ removeFd l d ↔ p ∈ l ∧ p.1 ≠ d := by
  simp [removeFd]

/-! ### counting references -/

theorem sum_map_set {α : Type} (g : α → Nat) :
    ∀ (l : List α) (i : Nat) (a b : α), l[i]? = some a →
      ((l.set i b).map g).sum + g a = (l.map g).sum + g b := by
  intro l
  induction l with
  | nil => intro i a b h; simp at h
  | cons x t ih =>
    intro i a b h
    cases i with
    | zero =>
      simp only [List.getElem?_cons_zero, Option.some.injEq] at h
      subst h
      simp only [List.set_cons_zero, List.map_cons, List.sum_cons]; omega
    | succ n =>
      simp only [List.getElem?_cons_succ] at h
      have := ih n a b h
      simp only [List.set_cons_succ, List.map_cons, List.sum_cons]; omega

theorem sum_map_append {α : Type} (g : α → Nat) (l r : List α) :
    ((l ++ r).map g).sum = (l.map g).sum + (r.map g).sum := by
  simp [List.sum_append]

theorem sum_map_ge {α : Type} (g : α → Nat) :
    ∀ (l : List α) (i : Nat) (a : α), l[i]? = some a → g a ≤ (l.map g).sum := by
  intro l
  induction l with
  | nil => intro i a h; simp at h
  | cons x t ih =>
    intro i a h
    cases i with
    | zero =>
      simp only [List.getElem?_cons_zero, Option.some.injEq] at h
      subst h; simp only [List.map_cons, List.sum_cons]; omega
    | succ n =>
      simp only [List.getElem?_cons_succ] at h
      have := ih n a h
      simp only [List.map_cons, List.sum_cons]; omega

theorem hcount_append (hs : List (Option Nat)) (o : Option Nat) (c : Nat) :
    hcount (hs ++ [o]) c = hcount hs c + (if o = some c then 1 else 0) := by
  simp [hcount, List.sum_append]

theorem hcount_set {hs : List (Option Nat)} {h : Nat} {o o' : Option Nat} (c : Nat)
    (hh : hs[h]? = some o) :
    hcount (hs.set h o') c + (if o = some c then 1 else 0)
      = hcount hs c + (if o' = some c then 1 else 0) :=
  sum_map_set (fun o => if o = some c then 1 else 0) hs h o o' hh

theorem hcount_pos {hs : List (Option Nat)} {h c : Nat} (hh : hs[h]? = some (some c)) :
    0 < hcount hs c := by
  have := sum_map_ge (fun o => if o = some c then 1 else 0) hs h (some c) hh
  simp only [if_true] at this
  exact this

theorem bcount_append (bs : List Body) (b : Body) (c : Nat) :
    bcount (bs ++ [b]) c = bcount bs c + b.fds.count c := by
  simp [bcount, List.sum_append]

theorem bcount_set {bs : List Body} {b : Nat} {bd bd' : Body} (c : Nat) (hb : bs[b]? = some bd) :
    bcount (bs.set b bd') c + bd.fds.count c = bcount bs c + bd'.fds.count c :=
  sum_map_set (fun b => b.fds.count c) bs b bd bd' hb

theorem bcount_ge {bs : List Body} {b : Nat} {bd : Body} (c : Nat) (hb : bs[b]? = some bd) :
    bd.fds.count c ≤ bcount bs c :=
  sum_map_ge (fun b => b.fds.count c) bs b bd hb

/-! ### list cells -/

theorem getElem?_set_of_some {α : Type} {l : List α} {c : Nat} {x : α} (y : α) (c' : Nat)
    (h : l[c]? = some x) : (l.set c y)[c']? = if c' = c then some y else l[c']? := by
  have hc : c < l.length := by
    rcases Nat.lt_or_ge c l.length with h' | h'
    · exact h'
    · rw [List.getElem?_eq_none h'] at h; simp at h
  rw [List.getElem?_set]
  by_cases e : c = c'
  · subst e; simp [hc]
  · have e' : ¬ c' = c := fun h => e h.symm
    simp [e, e']

theorem lt_length_of_getElem? {α : Type} {l : List α} {c : Nat} {x : α} (h : l[c]? = some x) :
    c < l.length := by
  rcases Nat.lt_or_ge c l.length with h' | h'
  · exact h'
  · rw [List.getElem?_eq_none h'] at h; simp at h

theorem getElem?_append_single {α : Type} (l : List α) (y : α) (c : Nat) :
    (l ++ [y])[c]? = if c < l.length then l[c]? else if c = l.length then some y else none := by
  by_cases h : c < l.length
  · simp [h, List.getElem?_append_left h]
  · have hge : l.length ≤ c := Nat.le_of_not_lt h
    rw [List.getElem?_append_right hge]
    simp only [h, if_false]
    by_cases e : c = l.length
    · simp [e]
    · have : c - l.length ≠ 0 := by omega
      simp only [e, if_false]
      cases hk : c - l.length with
      | zero => exact absurd hk this
      | succ n => simp

/-! ### the invariant -/

/-- The invariant, for a state in the middle of an operation that itself holds the references `p`
    (local variables: the `UnixFd`s just created, the vector cut off by `truncate`, `fds_in`, …). -/
structure InvP (p : List Nat) (s : State) : Prop where
  noErr : s.err = false
  cnt : ∀ (c : Nat) (x : Cell), s.cells[c]? = some x → x.refs = refCount s c + p.count c
  valid : ∀ c, s.cells.length ≤ c → refCount s c + p.count c = 0
  nodup : (keys s.open).Nodup
  bound : ∀ d, d ∈ keys s.open → d < s.nextFd
  cellBound : ∀ (c : Nat) (x : Cell), s.cells[c]? = some x → x.fd < s.nextFd
  userOpen : ∀ d, d ∈ s.user → d ∈ keys s.open
  ownOpen : ∀ c d, Owns s c d → d ∈ keys s.open ∧ d ∉ s.user
  ownInj : ∀ c c' d, Owns s c d → Owns s c' d → c = c'
  noLeak : ∀ d, d ∈ keys s.open → d ∈ s.user ∨ ∃ c, Owns s c d
  closedNodup : s.libClosed.Nodup
  closedNotOpen : ∀ d, d ∈ s.libClosed → d ∉ keys s.open
  closedBound : ∀ d, d ∈ s.libClosed → d < s.nextFd
  takenOk : ∀ d, d ∈ s.takenFds →
    d ∉ s.libClosed ∧ (d ∈ keys s.open → d ∈ s.user) ∧ (∀ c, ¬ Owns s c d) ∧ d < s.nextFd
  libUser : ∀ d, d ∈ s.lib → d ∈ s.user → d ∈ s.takenFds
  libClosedOr : ∀ d, d ∈ s.lib → d ∉ keys s.open → d ∈ s.libClosed ∨ d ∈ s.takenFds
  libBound : ∀ d, d ∈ s.lib → d < s.nextFd

/-- the invariant between operations -/
abbrev Inv (s : State) : Prop := InvP [] s

theorem inv_init : Inv State.init := by
  constructor <;> simp [State.init, keys, refCount, hcount, bcount, Owns]

/-- only the holders (and fields the invariant does not mention) changed, and every reference that
    left a holder is now held by the operation (or the other way round) -/
theorem InvP.frame {p p' : List Nat} {s s' : State} (h : InvP p s)
    (ho : s'.open = s.open) (hn : s'.nextFd = s.nextFd) (hc : s'.cells = s.cells)
    (hu : s'.user = s.user) (hl : s'.lib = s.lib) (ht : s'.takenFds = s.takenFds)
    (hlc : s'.libClosed = s.libClosed) (he : s'.err = s.err)
    (hcnt : ∀ c, refCount s' c + p'.count c = refCount s c + p.count c) : InvP p' s' := by
  have hown : ∀ c d, Owns s' c d ↔ Owns s c d := by intro c d; simp [Owns, hc]
  constructor
  · rw [he]; exact h.noErr
  · intro c x hx; rw [hc] at hx; rw [hcnt]; exact h.cnt c x hx
  · intro c hx; rw [hc] at hx; rw [hcnt]; exact h.valid c hx
  · rw [ho]; exact h.nodup
  · rw [ho, hn]; exact h.bound
  · rw [hc, hn]; exact h.cellBound
  · rw [hu, ho]; exact h.userOpen
  · intro c d hd; rw [ho, hu]; exact h.ownOpen c d ((hown c d).1 hd)
  · intro c c' d h1 h2; exact h.ownInj c c' d ((hown c d).1 h1) ((hown c' d).1 h2)
  · intro d hd; rw [ho] at hd; rw [hu]
    rcases h.noLeak d hd with h1 | ⟨c, h1⟩
    · exact Or.inl h1
    · exact Or.inr ⟨c, (hown c d).2 h1⟩
  · rw [hlc]; exact h.closedNodup
  · rw [hlc, ho]; exact h.closedNotOpen
  · rw [hlc, hn]; exact h.closedBound
  · intro d hd; rw [ht] at hd
    obtain ⟨h1, h2, h3, h4⟩ := h.takenOk d hd
    rw [hlc, ho, hu, hn]
    exact ⟨h1, h2, fun c hc' => h3 c ((hown c d).1 hc'), h4⟩
  · rw [hl, hu, ht]; exact h.libUser
  · rw [hl, ho, hlc, ht]; exact h.libClosedOr
  · rw [hl, hn]; exact h.libBound

/-! ### micro-steps -/

theorem owns_append_cell {s s' : State} {y : Cell} (hc : s'.cells = s.cells ++ [y]) {c d : Nat} :
    Owns s' c d ↔
      Owns s c d ∨ (c = s.cells.length ∧ 0 < y.refs ∧ y.taken = false ∧ y.fd = d) := by
  simp only [Owns, hc, getElem?_append_single]
  constructor
  · rintro ⟨x, hx, h1, h2, h3⟩
    split at hx
    · exact Or.inl ⟨x, hx, h1, h2, h3⟩
    · split at hx
      · next e => simp only [Option.some.injEq] at hx; subst hx; exact Or.inr ⟨e, h1, h2, h3⟩
      · simp at hx
  · rintro (⟨x, hx, h1, h2, h3⟩ | ⟨e, h1, h2, h3⟩)
    · exact ⟨x, by rw [if_pos (lt_length_of_getElem? hx)]; exact hx, h1, h2, h3⟩
    · exact ⟨y, by subst e; simp, h1, h2, h3⟩

theorem refCount_congr {s s' : State} (hh : s'.handles = s.handles) (hb : s'.bodies = s.bodies) (c : Nat) :
    refCount s' c = refCount s c := by simp [refCount, hh, hb]

/-- a new descriptor for file `f`, wrapped into a new cell that the operation holds -/
theorem InvP.addOwned {p : List Nat} {s s' : State} (h : InvP p s) (f : Nat)
    (ho : s'.open = s.open ++ [(s.nextFd, f)]) (hn : s'.nextFd = s.nextFd + 1)
    (hc : s'.cells = s.cells ++ [⟨s.nextFd, false, 1⟩]) (hl : s'.lib = s.lib ++ [s.nextFd])
    (hu : s'.user = s.user) (ht : s'.takenFds = s.takenFds) (hlc : s'.libClosed = s.libClosed)
    (he : s'.err = s.err) (hh : s'.handles = s.handles) (hb : s'.bodies = s.bodies) :
    InvP (s.cells.length :: p) s' := by
  have hfresh : s.nextFd ∉ keys s.open := fun hm => Nat.lt_irrefl _ (h.bound _ hm)
  have hrc : ∀ c, refCount s' c = refCount s c := refCount_congr hh hb
  have hk : ∀ d, d ∈ keys s'.open ↔ d ∈ keys s.open ∨ d = s.nextFd := by
    intro d; rw [ho, keys_append]; simp [keys]
  constructor
  · rw [he]; exact h.noErr
  · intro c x hx
    rw [hc] at hx
    simp only [getElem?_append_single] at hx
    rw [hrc, List.count_cons]
    split at hx
    · next hlt =>
      have := h.cnt c x hx
      have hne : (s.cells.length == c) = false := by simp; omega
      simp only [hne]; simpa using this
    · split at hx
      · next e =>
        simp only [Option.some.injEq] at hx; subst hx; subst e
        have := h.valid s.cells.length (Nat.le_refl _)
        simp; omega
      · simp at hx
  · intro c hcl
    rw [hc] at hcl
    simp only [List.length_append, List.length_cons, List.length_nil] at hcl
    rw [hrc, List.count_cons]
    have := h.valid c (by omega)
    have hne : (s.cells.length == c) = false := by simp; omega
    simp only [hne]; simpa using this
  · rw [ho, keys_append, List.nodup_append]
    refine ⟨h.nodup, by simp [keys], ?_⟩
    intro a ha b hb
    simp only [keys, List.map_cons, List.map_nil, List.mem_cons, List.not_mem_nil, or_false] at hb
    subst hb; intro e; subst e; exact hfresh ha
  · intro d hd
    rw [hk] at hd; rw [hn]
    rcases hd with hd | hd
    · have := h.bound d hd; omega
    · omega
  · intro c x hx
    rw [hc] at hx; rw [hn]
    simp only [getElem?_append_single] at hx
    split at hx
    · have := h.cellBound c x hx; omega
    · split at hx
      · simp only [Option.some.injEq] at hx; subst hx; simp
      · simp at hx
  · intro d hd
    rw [hu] at hd; rw [hk]
    exact Or.inl (h.userOpen d hd)
  · intro c d hd
    rw [owns_append_cell hc] at hd
    rw [hk, hu]
    rcases hd with hd | ⟨_, _, _, hd⟩
    · exact ⟨Or.inl (h.ownOpen c d hd).1, (h.ownOpen c d hd).2⟩
    · simp only at hd; subst hd
      exact ⟨Or.inr rfl, fun hu' => hfresh (h.userOpen _ hu')⟩
  · intro c c' d h1 h2
    rw [owns_append_cell hc] at h1 h2
    rcases h1 with h1 | ⟨e1, _, _, hd1⟩ <;> rcases h2 with h2 | ⟨e2, _, _, hd2⟩
    · exact h.ownInj c c' d h1 h2
    · simp only at hd2; subst hd2; exact absurd (h.ownOpen c _ h1).1 hfresh
    · simp only at hd1; subst hd1; exact absurd (h.ownOpen c' _ h2).1 hfresh
    · omega
  · intro d hd
    rw [hk] at hd; rw [hu]
    rcases hd with hd | hd
    · rcases h.noLeak d hd with h1 | ⟨c, h1⟩
      · exact Or.inl h1
      · exact Or.inr ⟨c, (owns_append_cell hc).2 (Or.inl h1)⟩
    · subst hd
      exact Or.inr ⟨s.cells.length, (owns_append_cell hc).2 (Or.inr ⟨rfl, by simp, rfl, rfl⟩)⟩
  · rw [hlc]; exact h.closedNodup
  · intro d hd
    rw [hlc] at hd; rw [hk]
    intro hd'
    rcases hd' with hd' | hd'
    · exact h.closedNotOpen d hd hd'
    · have := h.closedBound d hd; omega
  · intro d hd; rw [hlc] at hd; have := h.closedBound d hd; rw [hn]; omega
  · intro d hd
    rw [ht] at hd
    obtain ⟨h1, h2, h3, h4⟩ := h.takenOk d hd
    rw [hlc, hk, hu, hn]
    refine ⟨h1, ?_, ?_, by omega⟩
    · intro ho'
      rcases ho' with ho' | ho'
      · exact h2 ho'
      · omega
    · intro c hc'
      rw [owns_append_cell hc] at hc'
      rcases hc' with hc' | ⟨_, _, _, hc'⟩
      · exact h3 c hc'
      · simp only at hc'; omega
  · intro d hd hu'
    rw [hl] at hd; rw [hu] at hu'; rw [ht]
    simp only [List.mem_append, List.mem_cons, List.not_mem_nil, or_false] at hd
    rcases hd with hd | hd
    · exact h.libUser d hd hu'
    · subst hd; exact absurd (h.userOpen _ hu') hfresh
  · intro d hd ho'
    rw [hl] at hd; rw [hk] at ho'; rw [hlc, ht]
    simp only [List.mem_append, List.mem_cons, List.not_mem_nil, or_false] at hd
    rcases hd with hd | hd
    · exact h.libClosedOr d hd (fun x => ho' (Or.inl x))
    · exact absurd (Or.inr hd) ho'
  · intro d hd
    rw [hl] at hd; rw [hn]
    simp only [List.mem_append, List.mem_cons, List.not_mem_nil, or_false] at hd
    rcases hd with hd | hd
    · have := h.libBound d hd; omega
    · omega

theorem InvP.createOwned {p : List Nat} {s : State} (h : InvP p s) (f : Nat) :
    InvP ((createOwned s f).2 :: p) (createOwned s f).1 :=
  h.addOwned f rfl rfl rfl rfl rfl rfl rfl rfl rfl rfl

theorem owns_set_cell {s s' : State} {c : Nat} {x y : Cell} (hx : s.cells[c]? = some x)
    (hc : s'.cells = s.cells.set c y) {c' d : Nat} :
    Owns s' c' d ↔ (c' ≠ c ∧ Owns s c' d) ∨ (c' = c ∧ 0 < y.refs ∧ y.taken = false ∧ y.fd = d) := by
  simp only [Owns, hc, getElem?_set_of_some y c' hx]
  by_cases e : c' = c
  · simp [e]
  · simp [e]

/-- one cell changes in a way that does not change whether it owns its descriptor -/
theorem InvP.setCell {p p' : List Nat} {s s' : State} {c : Nat} {x y : Cell} (h : InvP p s)
    (hx : s.cells[c]? = some x) (hc : s'.cells = s.cells.set c y) (hfd : y.fd = x.fd)
    (hown : (0 < y.refs ∧ y.taken = false) ↔ (0 < x.refs ∧ x.taken = false))
    (ho : s'.open = s.open) (hn : s'.nextFd = s.nextFd)
    (hu : s'.user = s.user) (hl : s'.lib = s.lib) (ht : s'.takenFds = s.takenFds)
    (hlc : s'.libClosed = s.libClosed) (he : s'.err = s.err)
    (hcntc : y.refs = refCount s' c + p'.count c)
    (hcnt : ∀ c', c' ≠ c → refCount s' c' + p'.count c' = refCount s c' + p.count c') : InvP p' s' := by
  have hown' : ∀ c' d, Owns s' c' d ↔ Owns s c' d := by
    intro c' d
    rw [owns_set_cell hx hc]
    by_cases e : c' = c
    · subst e
      simp only [ne_eq, not_true_eq_false, false_and, true_and, false_or]
      constructor
      · rintro ⟨h1, h2, h3⟩
        have := hown.1 ⟨h1, h2⟩
        exact ⟨x, hx, this.1, this.2, by rw [← hfd]; exact h3⟩
      · rintro ⟨x', hx', h1, h2, h3⟩
        rw [hx] at hx'; simp only [Option.some.injEq] at hx'; subst hx'
        have := hown.2 ⟨h1, h2⟩
        exact ⟨this.1, this.2, by rw [hfd]; exact h3⟩
    · simp [e]
  have hlen : s'.cells.length = s.cells.length := by rw [hc]; simp
  constructor
  · rw [he]; exact h.noErr
  · intro c' x' hx'
    rw [hc, getElem?_set_of_some y c' hx] at hx'
    by_cases e : c' = c
    · subst e; simp only [if_true, Option.some.injEq] at hx'; subst hx'; exact hcntc
    · simp only [e, if_false] at hx'; rw [hcnt c' e]; exact h.cnt c' x' hx'
  · intro c' hc'
    rw [hlen] at hc'
    have hne : c' ≠ c := by have := lt_length_of_getElem? hx; omega
    rw [hcnt c' hne]; exact h.valid c' hc'
  · rw [ho]; exact h.nodup
  · rw [ho, hn]; exact h.bound
  · intro c' x' hx'
    rw [hc, getElem?_set_of_some y c' hx] at hx'
    rw [hn]
    by_cases e : c' = c
    · subst e; simp only [if_true, Option.some.injEq] at hx'; subst hx'; rw [hfd]; exact h.cellBound _ x hx
    · simp only [e, if_false] at hx'; exact h.cellBound c' x' hx'
  · rw [hu, ho]; exact h.userOpen
  · intro c' d hd; rw [ho, hu]; exact h.ownOpen c' d ((hown' c' d).1 hd)
  · intro c1 c2 d h1 h2; exact h.ownInj c1 c2 d ((hown' c1 d).1 h1) ((hown' c2 d).1 h2)
  · intro d hd; rw [ho] at hd; rw [hu]
    rcases h.noLeak d hd with h1 | ⟨c', h1⟩
    · exact Or.inl h1
    · exact Or.inr ⟨c', (hown' c' d).2 h1⟩
  · rw [hlc]; exact h.closedNodup
  · rw [hlc, ho]; exact h.closedNotOpen
  · rw [hlc, hn]; exact h.closedBound
  · intro d hd; rw [ht] at hd
    obtain ⟨h1, h2, h3, h4⟩ := h.takenOk d hd
    rw [hlc, ho, hu, hn]
    exact ⟨h1, h2, fun c' hc' => h3 c' ((hown' c' d).1 hc'), h4⟩
  · rw [hl, hu, ht]; exact h.libUser
  · rw [hl, ho, hlc, ht]; exact h.libClosedOr
  · rw [hl, hn]; exact h.libBound

/-- the reference the operation holds on `c` proves that the cell exists and is alive -/
theorem InvP.cell_of_pending {p : List Nat} {s : State} {c : Nat} (h : InvP p s)
    (hp : 0 < refCount s c + p.count c) : ∃ x, s.cells[c]? = some x ∧ x.refs = refCount s c + p.count c := by
  have hlt : c < s.cells.length := by
    rcases Nat.lt_or_ge c s.cells.length with h' | h'
    · exact h'
    · have := h.valid c h'; omega
  refine ⟨s.cells[c], by simp [hlt], ?_⟩
  exact h.cnt c _ (by simp [hlt])

/-- `Arc::clone` of a cell somebody holds -/
theorem InvP.incr {p : List Nat} {s : State} {c : Nat} (h : InvP p s)
    (hp : 0 < refCount s c + p.count c) : InvP (c :: p) (incr s c) := by
  obtain ⟨x, hx, hr⟩ := h.cell_of_pending hp
  have hne : x.refs ≠ 0 := by omega
  simp only [FdTable.incr, hx, hne, if_false]
  refine h.setCell hx rfl rfl ?_ rfl rfl rfl rfl rfl rfl rfl ?_ ?_
  · simp; omega
  · simp only [List.count_cons, BEq.rfl, if_true]
    show x.refs + 1 = refCount s c + (p.count c + 1)
    omega
  · intro c' hc'
    have : (c == c') = false := by simp; exact fun e => hc' e.symm
    simp only [List.count_cons, this]
    show refCount s c' + (p.count c' + 0) = _
    omega

/-- the last reference to a cell that still has its descriptor goes away: `close` -/
theorem InvP.closeLast {p p' : List Nat} {s s' : State} {c : Nat} {x : Cell} (h : InvP p s)
    (hx : s.cells[c]? = some x) (hr : 0 < x.refs) (htk : x.taken = false)
    {y : Cell} (hy0 : y.refs = 0) (hyfd : y.fd = x.fd) (hc : s'.cells = s.cells.set c y)
    (ho : s'.open = removeFd s.open x.fd) (hlc : s'.libClosed = s.libClosed ++ [x.fd])
    (hn : s'.nextFd = s.nextFd) (hu : s'.user = s.user) (hl : s'.lib = s.lib)
    (ht : s'.takenFds = s.takenFds) (he : s'.err = s.err)
    (hcntc : 0 = refCount s' c + p'.count c)
    (hcnt : ∀ c', c' ≠ c → refCount s' c' + p'.count c' = refCount s c' + p.count c') : InvP p' s' := by
  have hD : Owns s c x.fd := ⟨x, hx, hr, htk, rfl⟩
  have hDopen := (h.ownOpen c _ hD).1
  have hDuser := (h.ownOpen c _ hD).2
  have hown' : ∀ c' d, Owns s' c' d ↔ (c' ≠ c ∧ Owns s c' d) := by
    intro c' d
    rw [owns_set_cell hx hc]
    simp [hy0]
  have hk : ∀ d, d ∈ keys s'.open ↔ d ∈ keys s.open ∧ d ≠ x.fd := by
    intro d; rw [ho]; exact mem_keys_removeFd
  have hlen : s'.cells.length = s.cells.length := by rw [hc]; simp
  constructor
  · rw [he]; exact h.noErr
  · intro c' x' hx'
    rw [hc, getElem?_set_of_some _ c' hx] at hx'
    by_cases e : c' = c
    · subst e; simp only [if_true, Option.some.injEq] at hx'; subst hx'; rw [hy0]; exact hcntc
    · simp only [e, if_false] at hx'; rw [hcnt c' e]; exact h.cnt c' x' hx'
  · intro c' hc'
    rw [hlen] at hc'
    have hne : c' ≠ c := by have := lt_length_of_getElem? hx; omega
    rw [hcnt c' hne]; exact h.valid c' hc'
  · rw [ho]; exact nodup_keys_removeFd _ h.nodup
  · intro d hd; rw [hk] at hd; rw [hn]; exact h.bound d hd.1
  · intro c' x' hx'
    rw [hc, getElem?_set_of_some _ c' hx] at hx'
    rw [hn]
    by_cases e : c' = c
    · subst e; simp only [if_true, Option.some.injEq] at hx'; subst hx'; rw [hyfd]; exact h.cellBound _ x hx
    · simp only [e, if_false] at hx'; exact h.cellBound c' x' hx'
  · intro d hd; rw [hu] at hd; rw [hk]
    exact ⟨h.userOpen d hd, fun e => hDuser (e ▸ hd)⟩
  · intro c' d hd
    rw [hown'] at hd
    rw [hk, hu]
    refine ⟨⟨(h.ownOpen c' d hd.2).1, ?_⟩, (h.ownOpen c' d hd.2).2⟩
    intro e; subst e
    exact hd.1 (h.ownInj c' c _ hd.2 hD)
  · intro c1 c2 d h1 h2
    rw [hown'] at h1 h2
    exact h.ownInj c1 c2 d h1.2 h2.2
  · intro d hd
    rw [hk] at hd; rw [hu]
    rcases h.noLeak d hd.1 with h1 | ⟨c', h1⟩
    · exact Or.inl h1
    · refine Or.inr ⟨c', (hown' c' d).2 ⟨?_, h1⟩⟩
      intro e; subst e
      obtain ⟨x', hx', _, _, hfd⟩ := h1
      rw [hx] at hx'; simp only [Option.some.injEq] at hx'; subst hx'
      exact hd.2 hfd.symm
  · rw [hlc, List.nodup_append]
    refine ⟨h.closedNodup, by simp, ?_⟩
    intro a ha b hb
    simp only [List.mem_cons, List.not_mem_nil, or_false] at hb
    subst hb; intro e; subst e
    exact h.closedNotOpen _ ha hDopen
  · intro d hd
    rw [hlc] at hd; rw [hk]
    simp only [List.mem_append, List.mem_cons, List.not_mem_nil, or_false] at hd
    rcases hd with hd | hd
    · exact fun hh => h.closedNotOpen d hd hh.1
    · exact fun hh => hh.2 hd
  · intro d hd
    rw [hlc] at hd; rw [hn]
    simp only [List.mem_append, List.mem_cons, List.not_mem_nil, or_false] at hd
    rcases hd with hd | hd
    · exact h.closedBound d hd
    · subst hd; exact h.bound _ hDopen
  · intro d hd; rw [ht] at hd
    obtain ⟨h1, h2, h3, h4⟩ := h.takenOk d hd
    have hne : d ≠ x.fd := fun e => h3 c (e ▸ hD)
    rw [hlc, hk, hu, hn]
    refine ⟨?_, fun hh => h2 hh.1, fun c' hc' => h3 c' ((hown' c' d).1 hc').2, h4⟩
    simp only [List.mem_append, List.mem_cons, List.not_mem_nil, or_false, not_or]
    exact ⟨h1, hne⟩
  · rw [hl, hu, ht]; exact h.libUser
  · intro d hd ho'
    rw [hl] at hd; rw [hk] at ho'; rw [hlc, ht]
    by_cases e : d = x.fd
    · exact Or.inl (by simp [e])
    · have : d ∉ keys s.open := fun hh => ho' ⟨hh, e⟩
      rcases h.libClosedOr d hd this with h1 | h1
      · exact Or.inl (by simp [h1])
      · exact Or.inr h1
  · rw [hl, hn]; exact h.libBound

theorem count_cons_self_ne {c c' : Nat} (p : List Nat) (h : c' ≠ c) : (c :: p).count c' = p.count c' := by
  have : (c == c') = false := by simp; exact fun e => h e.symm
  simp [List.count_cons, this]

/-- dropping a reference the operation holds -/
theorem InvP.decr {p : List Nat} {s : State} {c : Nat} (h : InvP (c :: p) s) : InvP p (decr s c) := by
  have hp : 0 < refCount s c + (c :: p).count c := by rw [List.count_cons_self]; omega
  obtain ⟨x, hx, hr⟩ := h.cell_of_pending hp
  have hr' : x.refs = refCount s c + p.count c + 1 := by simpa [List.count_cons, Nat.add_assoc] using hr
  have hne : x.refs ≠ 0 := by omega
  simp only [FdTable.decr, hx, hne, if_false]
  by_cases h1 : x.refs = 1
  · simp only [h1, if_true]
    by_cases htk : x.taken = true
    · simp only [htk, if_true]
      refine h.setCell hx rfl rfl ?_ rfl rfl rfl rfl rfl rfl rfl ?_ ?_
      · simp [htk]
      · show 0 = refCount s c + p.count c; omega
      · intro c' hc'; rw [count_cons_self_ne p hc']; rfl
    · have htk' : x.taken = false := by simpa using htk
      have hD : Owns s c x.fd := ⟨x, hx, by omega, htk', rfl⟩
      obtain ⟨f, hf⟩ := lookup_of_mem_keys (h.ownOpen c _ hD).1
      simp only [htk', Bool.false_eq_true, if_false, libClose, hf]
      refine h.closeLast (y := ⟨x.fd, false, 0⟩) hx (by omega) htk' rfl rfl rfl rfl rfl rfl rfl rfl rfl rfl ?_ ?_
      · show 0 = refCount s c + p.count c; omega
      · intro c' hc'; rw [count_cons_self_ne p hc']; rfl
  · simp only [h1, if_false]
    refine h.setCell hx rfl rfl ?_ rfl rfl rfl rfl rfl rfl rfl ?_ ?_
    · simp; omega
    · show x.refs - 1 = refCount s c + p.count c; omega
    · intro c' hc'; rw [count_cons_self_ne p hc']; rfl

theorem InvP.dropRefs {p : List Nat} : ∀ (l : List Nat) {s : State}, InvP (l ++ p) s → InvP p (dropRefs s l)
  | [], _, h => h
  | c :: cs, _, h => InvP.dropRefs cs (InvP.decr (by simpa using h))

/-! what `decr` / `dropRefs` do not touch -/

theorem decr_frame (s : State) (c : Nat) :
    (decr s c).handles = s.handles ∧ (decr s c).bodies = s.bodies ∧ (decr s c).wire = s.wire ∧
    (decr s c).raws = s.raws ∧ (decr s c).user = s.user ∧ (decr s c).lib = s.lib ∧
    (decr s c).takenFds = s.takenFds ∧ (decr s c).enq = s.enq ∧ (decr s c).deq = s.deq ∧
    (decr s c).nextFd = s.nextFd ∧ (decr s c).cells.length = s.cells.length := by
  unfold decr libClose
  split
  · simp
  · split
    · simp
    · split
      · dsimp only
        split
        · simp
        · split <;> simp
      · simp

theorem dropRefs_frame : ∀ (l : List Nat) (s : State),
    (dropRefs s l).handles = s.handles ∧ (dropRefs s l).bodies = s.bodies ∧ (dropRefs s l).wire = s.wire ∧
    (dropRefs s l).raws = s.raws ∧ (dropRefs s l).user = s.user ∧ (dropRefs s l).lib = s.lib ∧
    (dropRefs s l).takenFds = s.takenFds ∧ (dropRefs s l).enq = s.enq ∧ (dropRefs s l).deq = s.deq ∧
    (dropRefs s l).nextFd = s.nextFd ∧ (dropRefs s l).cells.length = s.cells.length
  | [], s => by simp [dropRefs]
  | c :: cs, s => by
    have h1 := decr_frame s c
    have h2 := dropRefs_frame cs (decr s c)
    simp only [dropRefs]
    obtain ⟨a1, a2, a3, a4, a5, a6, a7, a8, a9, a10, a11⟩ := h1
    obtain ⟨b1, b2, b3, b4, b5, b6, b7, b8, b9, b10, b11⟩ := h2
    exact ⟨b1.trans a1, b2.trans a2, b3.trans a3, b4.trans a4, b5.trans a5, b6.trans a6, b7.trans a7,
      b8.trans a8, b9.trans a9, b10.trans a10, b11.trans a11⟩

/-- `take_raw_fd` on a cell that still has its descriptor: ownership goes to the caller -/
theorem InvP.takeCell {p : List Nat} {s s' : State} {c : Nat} {x : Cell} (h : InvP p s)
    (hx : s.cells[c]? = some x) (hr : 0 < x.refs) (htk : x.taken = false)
    (hc : s'.cells = s.cells.set c { x with taken := true })
    (hu : s'.user = s.user ++ [x.fd]) (ht : s'.takenFds = s.takenFds ++ [x.fd])
    (ho : s'.open = s.open) (hn : s'.nextFd = s.nextFd) (hl : s'.lib = s.lib)
    (hlc : s'.libClosed = s.libClosed) (he : s'.err = s.err)
    (hh : s'.handles = s.handles) (hb : s'.bodies = s.bodies) : InvP p s' := by
  have hD : Owns s c x.fd := ⟨x, hx, hr, htk, rfl⟩
  have hDopen := (h.ownOpen c _ hD).1
  have hDuser := (h.ownOpen c _ hD).2
  have hown' : ∀ c' d, Owns s' c' d ↔ (c' ≠ c ∧ Owns s c' d) := by
    intro c' d
    rw [owns_set_cell hx hc]
    simp
  have hrc : ∀ c, refCount s' c = refCount s c := refCount_congr hh hb
  have hlen : s'.cells.length = s.cells.length := by rw [hc]; simp
  constructor
  · rw [he]; exact h.noErr
  · intro c' x' hx'
    rw [hc, getElem?_set_of_some _ c' hx] at hx'
    rw [hrc]
    by_cases e : c' = c
    · subst e; simp only [if_true, Option.some.injEq] at hx'; subst hx'; exact h.cnt _ x hx
    · simp only [e, if_false] at hx'; exact h.cnt c' x' hx'
  · intro c' hc'; rw [hlen] at hc'; rw [hrc]; exact h.valid c' hc'
  · rw [ho]; exact h.nodup
  · rw [ho, hn]; exact h.bound
  · intro c' x' hx'
    rw [hc, getElem?_set_of_some _ c' hx] at hx'
    rw [hn]
    by_cases e : c' = c
    · subst e; simp only [if_true, Option.some.injEq] at hx'; subst hx'; exact h.cellBound _ x hx
    · simp only [e, if_false] at hx'; exact h.cellBound c' x' hx'
  · intro d hd
    rw [hu] at hd; rw [ho]
    simp only [List.mem_append, List.mem_cons, List.not_mem_nil, or_false] at hd
    rcases hd with hd | hd
    · exact h.userOpen d hd
    · subst hd; exact hDopen
  · intro c' d hd
    rw [hown'] at hd
    rw [ho, hu]
    refine ⟨(h.ownOpen c' d hd.2).1, ?_⟩
    simp only [List.mem_append, List.mem_cons, List.not_mem_nil, or_false, not_or]
    refine ⟨(h.ownOpen c' d hd.2).2, ?_⟩
    intro e; subst e
    exact hd.1 (h.ownInj c' c _ hd.2 hD)
  · intro c1 c2 d h1 h2
    rw [hown'] at h1 h2
    exact h.ownInj c1 c2 d h1.2 h2.2
  · intro d hd
    rw [ho] at hd; rw [hu]
    rcases h.noLeak d hd with h1 | ⟨c', h1⟩
    · exact Or.inl (by simp [h1])
    · by_cases e : c' = c
      · subst e
        obtain ⟨x', hx', _, _, hfd⟩ := h1
        rw [hx] at hx'; simp only [Option.some.injEq] at hx'; subst hx'
        exact Or.inl (by simp [hfd])
      · exact Or.inr ⟨c', (hown' c' d).2 ⟨e, h1⟩⟩
  · rw [hlc]; exact h.closedNodup
  · rw [hlc, ho]; exact h.closedNotOpen
  · rw [hlc, hn]; exact h.closedBound
  · intro d hd
    rw [ht] at hd
    rw [hlc, ho, hu, hn]
    simp only [List.mem_append, List.mem_cons, List.not_mem_nil, or_false] at hd
    rcases hd with hd | hd
    · obtain ⟨h1, h2, h3, h4⟩ := h.takenOk d hd
      exact ⟨h1, fun hh' => by simp [h2 hh'], fun c' hc' => h3 c' ((hown' c' d).1 hc').2, h4⟩
    · subst hd
      refine ⟨fun hh' => h.closedNotOpen _ hh' hDopen, fun _ => by simp, ?_, h.bound _ hDopen⟩
      intro c' hc'
      have := (hown' c' _).1 hc'
      exact this.1 (h.ownInj c' c _ this.2 hD)
  · intro d hd hu'
    rw [hl] at hd; rw [hu] at hu'; rw [ht]
    simp only [List.mem_append, List.mem_cons, List.not_mem_nil, or_false] at hu' ⊢
    rcases hu' with hu' | hu'
    · exact Or.inl (h.libUser d hd hu')
    · exact Or.inr hu'
  · intro d hd ho'
    rw [hl] at hd; rw [ho] at ho'; rw [hlc, ht]
    rcases h.libClosedOr d hd ho' with h1 | h1
    · exact Or.inl h1
    · exact Or.inr (by simp [h1])
  · rw [hl, hn]; exact h.libBound

/-- the caller opens a file of its own -/
theorem InvP.openByUser {p : List Nat} {s s' : State} (h : InvP p s) (f : Nat)
    (ho : s'.open = s.open ++ [(s.nextFd, f)]) (hn : s'.nextFd = s.nextFd + 1)
    (hu : s'.user = s.user ++ [s.nextFd]) (hc : s'.cells = s.cells) (hl : s'.lib = s.lib)
    (ht : s'.takenFds = s.takenFds) (hlc : s'.libClosed = s.libClosed)
    (he : s'.err = s.err) (hh : s'.handles = s.handles) (hb : s'.bodies = s.bodies) : InvP p s' := by
  have hfresh : s.nextFd ∉ keys s.open := fun hm => Nat.lt_irrefl _ (h.bound _ hm)
  have hrc : ∀ c, refCount s' c = refCount s c := refCount_congr hh hb
  have hk : ∀ d, d ∈ keys s'.open ↔ d ∈ keys s.open ∨ d = s.nextFd := by
    intro d; rw [ho, keys_append]; simp [keys]
  have hown : ∀ c d, Owns s' c d ↔ Owns s c d := fun c d => by simp [Owns, hc]
  constructor
  · rw [he]; exact h.noErr
  · intro c x hx; rw [hc] at hx; rw [hrc]; exact h.cnt c x hx
  · intro c hx; rw [hc] at hx; rw [hrc]; exact h.valid c hx
  · rw [ho, keys_append, List.nodup_append]
    refine ⟨h.nodup, by simp [keys], ?_⟩
    intro a ha b hb
    simp only [keys, List.map_cons, List.map_nil, List.mem_cons, List.not_mem_nil, or_false] at hb
    subst hb; intro e; subst e; exact hfresh ha
  · intro d hd
    rw [hk] at hd; rw [hn]
    rcases hd with hd | hd
    · have := h.bound d hd; omega
    · omega
  · intro c x hx; rw [hc] at hx; rw [hn]; have := h.cellBound c x hx; omega
  · intro d hd
    rw [hu] at hd; rw [hk]
    simp only [List.mem_append, List.mem_cons, List.not_mem_nil, or_false] at hd
    rcases hd with hd | hd
    · exact Or.inl (h.userOpen d hd)
    · exact Or.inr hd
  · intro c d hd
    rw [hown] at hd; rw [hk, hu]
    refine ⟨Or.inl (h.ownOpen c d hd).1, ?_⟩
    simp only [List.mem_append, List.mem_cons, List.not_mem_nil, or_false, not_or]
    refine ⟨(h.ownOpen c d hd).2, ?_⟩
    intro e; subst e; exact hfresh (h.ownOpen c _ hd).1
  · intro c c' d h1 h2; exact h.ownInj c c' d ((hown c d).1 h1) ((hown c' d).1 h2)
  · intro d hd
    rw [hk] at hd; rw [hu]
    rcases hd with hd | hd
    · rcases h.noLeak d hd with h1 | ⟨c, h1⟩
      · exact Or.inl (by simp [h1])
      · exact Or.inr ⟨c, (hown c d).2 h1⟩
    · exact Or.inl (by simp [hd])
  · rw [hlc]; exact h.closedNodup
  · intro d hd
    rw [hlc] at hd; rw [hk]
    intro hd'
    rcases hd' with hd' | hd'
    · exact h.closedNotOpen d hd hd'
    · have := h.closedBound d hd; omega
  · intro d hd; rw [hlc] at hd; have := h.closedBound d hd; rw [hn]; omega
  · intro d hd
    rw [ht] at hd
    obtain ⟨h1, h2, h3, h4⟩ := h.takenOk d hd
    rw [hlc, hk, hu, hn]
    refine ⟨h1, ?_, fun c hc' => h3 c ((hown c d).1 hc'), by omega⟩
    intro ho'
    rcases ho' with ho' | ho'
    · simp [h2 ho']
    · omega
  · intro d hd hu'
    rw [hl] at hd; rw [hu] at hu'; rw [ht]
    simp only [List.mem_append, List.mem_cons, List.not_mem_nil, or_false] at hu'
    rcases hu' with hu' | hu'
    · exact h.libUser d hd hu'
    · have := h.libBound d hd; omega
  · intro d hd ho'
    rw [hl] at hd; rw [hk] at ho'; rw [hlc, ht]
    exact h.libClosedOr d hd (fun x => ho' (Or.inl x))
  · intro d hd; rw [hl] at hd; rw [hn]; have := h.libBound d hd; omega

/-- the caller closes a descriptor it owns -/
theorem InvP.closeByUser {p : List Nat} {s s' : State} (h : InvP p s) {d : Nat} (hd : d ∈ s.user)
    (ho : s'.open = removeFd s.open d) (hu : s'.user = s.user.filter (· != d))
    (hn : s'.nextFd = s.nextFd) (hc : s'.cells = s.cells) (hl : s'.lib = s.lib)
    (ht : s'.takenFds = s.takenFds) (hlc : s'.libClosed = s.libClosed)
    (he : s'.err = s.err) (hh : s'.handles = s.handles) (hb : s'.bodies = s.bodies) : InvP p s' := by
  have hrc : ∀ c, refCount s' c = refCount s c := refCount_congr hh hb
  have hk : ∀ k, k ∈ keys s'.open ↔ k ∈ keys s.open ∧ k ≠ d := by
    intro k; rw [ho]; exact mem_keys_removeFd
  have hum : ∀ k, k ∈ s'.user ↔ k ∈ s.user ∧ k ≠ d := by
    intro k; rw [hu]; simp
  have hown : ∀ c k, Owns s' c k ↔ Owns s c k := fun c d => by simp [Owns, hc]
  constructor
  · rw [he]; exact h.noErr
  · intro c x hx; rw [hc] at hx; rw [hrc]; exact h.cnt c x hx
  · intro c hx; rw [hc] at hx; rw [hrc]; exact h.valid c hx
  · rw [ho]; exact nodup_keys_removeFd _ h.nodup
  · intro k hk'; rw [hk] at hk'; rw [hn]; exact h.bound k hk'.1
  · rw [hc, hn]; exact h.cellBound
  · intro k hk'; rw [hum] at hk'; rw [hk]; exact ⟨h.userOpen k hk'.1, hk'.2⟩
  · intro c k hk'
    rw [hown] at hk'; rw [hk, hum]
    have := h.ownOpen c k hk'
    refine ⟨⟨this.1, ?_⟩, fun hh' => this.2 hh'.1⟩
    intro e; subst e; exact this.2 hd
  · intro c c' k h1 h2; exact h.ownInj c c' k ((hown c k).1 h1) ((hown c' k).1 h2)
  · intro k hk'
    rw [hk] at hk'; rw [hum]
    rcases h.noLeak k hk'.1 with h1 | ⟨c, h1⟩
    · exact Or.inl ⟨h1, hk'.2⟩
    · exact Or.inr ⟨c, (hown c k).2 h1⟩
  · rw [hlc]; exact h.closedNodup
  · intro k hk'; rw [hlc] at hk'; rw [hk]; exact fun hh' => h.closedNotOpen k hk' hh'.1
  · rw [hlc, hn]; exact h.closedBound
  · intro k hk'
    rw [ht] at hk'
    obtain ⟨h1, h2, h3, h4⟩ := h.takenOk k hk'
    rw [hlc, hk, hum, hn]
    exact ⟨h1, fun hh' => ⟨h2 hh'.1, hh'.2⟩, fun c hc' => h3 c ((hown c k).1 hc'), h4⟩
  · intro k hk' hu'
    rw [hl] at hk'; rw [hum] at hu'; rw [ht]
    exact h.libUser k hk' hu'.1
  · intro k hk' ho'
    rw [hl] at hk'; rw [hk] at ho'; rw [hlc, ht]
    by_cases e : k = d
    · subst e; exact Or.inr (h.libUser k hk' hd)
    · exact h.libClosedOr k hk' (fun x => ho' ⟨x, e⟩)
  · rw [hl, hn]; exact h.libBound

/-- `UnixFd::new(d)` on a descriptor the caller owns -/
theorem InvP.wrapByUser {p : List Nat} {s s' : State} (h : InvP p s) {d : Nat} (hd : d ∈ s.user)
    (hc : s'.cells = s.cells ++ [⟨d, false, 1⟩]) (hu : s'.user = s.user.filter (· != d))
    (ht : s'.takenFds = s.takenFds.filter (· != d))
    (ho : s'.open = s.open) (hn : s'.nextFd = s.nextFd) (hl : s'.lib = s.lib)
    (hlc : s'.libClosed = s.libClosed)
    (he : s'.err = s.err) (hh : s'.handles = s.handles) (hb : s'.bodies = s.bodies) :
    InvP (s.cells.length :: p) s' := by
  have hrc : ∀ c, refCount s' c = refCount s c := refCount_congr hh hb
  have hum : ∀ k, k ∈ s'.user ↔ k ∈ s.user ∧ k ≠ d := by
    intro k; rw [hu]; simp
  have htm : ∀ k, k ∈ s'.takenFds ↔ k ∈ s.takenFds ∧ k ≠ d := by
    intro k; rw [ht]; simp
  have hdopen := h.userOpen d hd
  have hnoown : ∀ c, ¬ Owns s c d := fun c hc' => (h.ownOpen c d hc').2 hd
  constructor
  · rw [he]; exact h.noErr
  · intro c x hx
    rw [hc] at hx
    simp only [getElem?_append_single] at hx
    rw [hrc, List.count_cons]
    split at hx
    · next hlt =>
      have := h.cnt c x hx
      have hne : (s.cells.length == c) = false := by simp; omega
      simp only [hne]; simpa using this
    · split at hx
      · next e =>
        simp only [Option.some.injEq] at hx; subst hx; subst e
        have := h.valid s.cells.length (Nat.le_refl _)
        simp; omega
      · simp at hx
  · intro c hcl
    rw [hc] at hcl
    simp only [List.length_append, List.length_cons, List.length_nil] at hcl
    rw [hrc, List.count_cons]
    have := h.valid c (by omega)
    have hne : (s.cells.length == c) = false := by simp; omega
    simp only [hne]; simpa using this
  · rw [ho]; exact h.nodup
  · rw [ho, hn]; exact h.bound
  · intro c x hx
    rw [hc] at hx; rw [hn]
    simp only [getElem?_append_single] at hx
    split at hx
    · exact h.cellBound c x hx
    · split at hx
      · simp only [Option.some.injEq] at hx; subst hx; exact h.bound _ hdopen
      · simp at hx
  · intro k hk; rw [hum] at hk; rw [ho]; exact h.userOpen k hk.1
  · intro c k hk
    rw [owns_append_cell hc] at hk
    rw [ho, hum]
    rcases hk with hk | ⟨_, _, _, hk⟩
    · exact ⟨(h.ownOpen c k hk).1, fun hh' => (h.ownOpen c k hk).2 hh'.1⟩
    · simp only at hk; subst hk
      exact ⟨hdopen, fun hh' => hh'.2 rfl⟩
  · intro c c' k h1 h2
    rw [owns_append_cell hc] at h1 h2
    rcases h1 with h1 | ⟨e1, _, _, hd1⟩ <;> rcases h2 with h2 | ⟨e2, _, _, hd2⟩
    · exact h.ownInj c c' k h1 h2
    · simp only at hd2; subst hd2; exact absurd h1 (hnoown c)
    · simp only at hd1; subst hd1; exact absurd h2 (hnoown c')
    · omega
  · intro k hk
    rw [ho] at hk; rw [hum]
    by_cases e : k = d
    · subst e
      exact Or.inr ⟨s.cells.length, (owns_append_cell hc).2 (Or.inr ⟨rfl, by simp, rfl, rfl⟩)⟩
    · rcases h.noLeak k hk with h1 | ⟨c, h1⟩
      · exact Or.inl ⟨h1, e⟩
      · exact Or.inr ⟨c, (owns_append_cell hc).2 (Or.inl h1)⟩
  · rw [hlc]; exact h.closedNodup
  · rw [hlc, ho]; exact h.closedNotOpen
  · rw [hlc, hn]; exact h.closedBound
  · intro k hk
    rw [htm] at hk
    obtain ⟨h1, h2, h3, h4⟩ := h.takenOk k hk.1
    rw [hlc, ho, hum, hn]
    refine ⟨h1, fun hh' => ⟨h2 hh', hk.2⟩, ?_, h4⟩
    intro c hc'
    rw [owns_append_cell hc] at hc'
    rcases hc' with hc' | ⟨_, _, _, hc'⟩
    · exact h3 c hc'
    · simp only at hc'; exact hk.2 hc'.symm
  · intro k hk hu'
    rw [hl] at hk; rw [hum] at hu'; rw [htm]
    exact ⟨h.libUser k hk hu'.1, hu'.2⟩
  · intro k hk ho'
    rw [hl] at hk; rw [ho] at ho'; rw [hlc, htm]
    rcases h.libClosedOr k hk ho' with h1 | h1
    · exact Or.inl h1
    · refine Or.inr ⟨h1, ?_⟩
      intro e; subst e; exact ho' hdopen
  · rw [hl, hn]; exact h.libBound

theorem dupHandleFail_state (s : State) (h : Nat) : (dupHandleFail s h).1 = s := by
  unfold dupHandleFail; split <;> rfl

end Rustbus.FdTable
