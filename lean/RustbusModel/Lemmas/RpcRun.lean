import RustbusModel.Lemmas.Rpc
/-!
C14 helper lemmas, part 2: step commutation and the induction over histories; partition facts used
to derive the trace-level corollaries; absence of the `unwrap` panic for well-formed arrivals; the
fuel of the wait loop is sufficient.
-/
namespace Rustbus.Rpc

theorem arrivals_cons (op : Op) (ops : List Op) : arrivals (op :: ops) = arrivals [op] ++ arrivals ops := by
  cases op <;> simp [arrivals]

theorem arrivals_append (a b : List Op) : arrivals (a ++ b) = arrivals a ++ arrivals b := by
  induction a with
  | nil => simp [arrivals]
  | cons op a ih => rw [List.cons_append, arrivals_cons, arrivals_cons op a, ih, List.append_assoc]

theorem deliveredOf_try (op : Op) (k : Consumer) (r : Option Msg) (h : consumerOf op = some k) :
    deliveredOf (op, .tried r) = optEvent k r := by
  cases r <;> simp [deliveredOf, h, msgOf, optEvent]

theorem deliveredOf_wait (op : Op) (k : Consumer) (r : Option Msg) (h : consumerOf op = some k) :
    deliveredOf (op, waitObs r) = optEvent k r := by
  cases r <;> simp [deliveredOf, h, msgOf, optEvent, waitObs]

theorem returnedOf_wait (op : Op) (r : Option Msg) : returnedOf (op, waitObs r) = [] := by
  cases r <;> simp [returnedOf, waitObs]

/-- Step commutation: one operation of the model corresponds to one move of the abstract queues —
    some arrivals move from "in the socket" to "consumed", the deliveries / returned errors of the
    step are appended, and the new concrete state represents the new abstract queues. -/
theorem refines_step {c evs ret st op obs st'} (h : Refines c evs ret st)
    (hd : DistinctReplySerials (c ++ st.wire ++ arrivals [op]))
    (hs : step st op = some (obs, st')) :
    ∃ c', c ++ st.wire ++ arrivals [op] = c' ++ st'.wire ∧
      Refines c' (evs ++ deliveredOf (op, obs)) (ret ++ returnedOf (op, obs)) st' := by
  cases op with
  | arrive m =>
    simp only [step, Option.some.injEq, Prod.mk.injEq] at hs
    obtain ⟨rfl, rfl⟩ := hs
    refine ⟨c, by simp [arrivals], ?_⟩
    simpa [deliveredOf, consumerOf, returnedOf] using refines_wire (st.wire ++ [m]) h
  | tryResponse s =>
    simp only [step] at hs
    cases ht : tryGet st (.response s) with
    | mk r st0 =>
      simp only [ht, Option.some.injEq, Prod.mk.injEq] at hs
      obtain ⟨rfl, rfl⟩ := hs
      obtain ⟨h1, h2⟩ := refines_tryGet h ht
      refine ⟨c, by simp [arrivals, h2], ?_⟩
      rw [deliveredOf_try _ (.response s) r rfl]
      simpa [returnedOf] using h1
  | trySignal =>
    simp only [step] at hs
    cases ht : tryGet st .signal with
    | mk r st0 =>
      simp only [ht, Option.some.injEq, Prod.mk.injEq] at hs
      obtain ⟨rfl, rfl⟩ := hs
      obtain ⟨h1, h2⟩ := refines_tryGet h ht
      refine ⟨c, by simp [arrivals, h2], ?_⟩
      rw [deliveredOf_try _ .signal r rfl]
      simpa [returnedOf] using h1
  | tryCall =>
    simp only [step] at hs
    cases ht : tryGet st .call with
    | mk r st0 =>
      simp only [ht, Option.some.injEq, Prod.mk.injEq] at hs
      obtain ⟨rfl, rfl⟩ := hs
      obtain ⟨h1, h2⟩ := refines_tryGet h ht
      refine ⟨c, by simp [arrivals, h2], ?_⟩
      rw [deliveredOf_try _ .call r rfl]
      simpa [returnedOf] using h1
  | refillOnce =>
    simp only [arrivals, List.append_nil] at hd ⊢
    simp only [step] at hs
    cases hr : refillOnce st with
    | none => simp [hr] at hs
    | some p =>
      obtain ⟨r, st1⟩ := p
      obtain ⟨c1, hc1, hr1⟩ := refines_refillOnce h hd hr
      rw [hr] at hs
      cases r with
      | none =>
        simp only [Option.some.injEq, Prod.mk.injEq] at hs
        obtain ⟨rfl, rfl⟩ := hs
        exact ⟨c1, hc1, by simpa [deliveredOf, consumerOf, returnedOf] using hr1⟩
      | some t =>
        simp only [Option.some.injEq, Prod.mk.injEq] at hs
        obtain ⟨rfl, rfl⟩ := hs
        exact ⟨c1, hc1, by simpa [deliveredOf, consumerOf, returnedOf] using hr1⟩
  | refillAll =>
    simp only [arrivals, List.append_nil] at hd ⊢
    simp only [step] at hs
    cases hr : refillAll st with
    | none => simp [hr] at hs
    | some p =>
      obtain ⟨errs, st1⟩ := p
      simp only [hr, Option.some.injEq, Prod.mk.injEq] at hs
      obtain ⟨rfl, rfl⟩ := hs
      obtain ⟨h1, h2⟩ := refines_refillAll h hd hr
      exact ⟨c ++ st.wire, h1, by simpa [deliveredOf, consumerOf, returnedOf] using h2⟩
  | waitResponse s =>
    simp only [arrivals, List.append_nil] at hd ⊢
    simp only [step] at hs
    cases hw : wait st (.response s) with
    | none => simp [hw] at hs
    | some p =>
      obtain ⟨r, st1⟩ := p
      simp only [hw, Option.some.injEq, Prod.mk.injEq] at hs
      obtain ⟨rfl, rfl⟩ := hs
      obtain ⟨c1, hc1, hr1⟩ := refines_waitLoop _ _ h hd hw
      refine ⟨c1, hc1, ?_⟩
      rw [deliveredOf_wait _ (.response s) r rfl, returnedOf_wait]
      simpa using hr1
  | waitSignal =>
    simp only [arrivals, List.append_nil] at hd ⊢
    simp only [step] at hs
    cases hw : wait st .signal with
    | none => simp [hw] at hs
    | some p =>
      obtain ⟨r, st1⟩ := p
      simp only [hw, Option.some.injEq, Prod.mk.injEq] at hs
      obtain ⟨rfl, rfl⟩ := hs
      obtain ⟨c1, hc1, hr1⟩ := refines_waitLoop _ _ h hd hw
      refine ⟨c1, hc1, ?_⟩
      rw [deliveredOf_wait _ .signal r rfl, returnedOf_wait]
      simpa using hr1
  | waitCall =>
    simp only [arrivals, List.append_nil] at hd ⊢
    simp only [step] at hs
    cases hw : wait st .call with
    | none => simp [hw] at hs
    | some p =>
      obtain ⟨r, st1⟩ := p
      simp only [hw, Option.some.injEq, Prod.mk.injEq] at hs
      obtain ⟨rfl, rfl⟩ := hs
      obtain ⟨c1, hc1, hr1⟩ := refines_waitLoop _ _ h hd hw
      refine ⟨c1, hc1, ?_⟩
      rw [deliveredOf_wait _ .call r rfl, returnedOf_wait]
      simpa using hr1

theorem distinct_prefix {a b : List Msg} (h : DistinctReplySerials (a ++ b)) : DistinctReplySerials a := by
  unfold DistinctReplySerials at *
  exact (List.pairwise_append.mp h).1

theorem refines_run : ∀ (ops : List Op) {c evs ret st tr st'}, Refines c evs ret st →
    DistinctReplySerials (c ++ st.wire ++ arrivals ops) → run st ops = some (tr, st') →
    ∃ c', c ++ st.wire ++ arrivals ops = c' ++ st'.wire ∧
      Refines c' (evs ++ events tr) (ret ++ returned tr) st' := by
  intro ops
  induction ops with
  | nil =>
    intro c evs ret st tr st' h _ hr
    simp only [run, Option.some.injEq, Prod.mk.injEq] at hr
    obtain ⟨rfl, rfl⟩ := hr
    exact ⟨c, by simp [arrivals], by simpa [events, returned] using h⟩
  | cons op ops ih =>
    intro c evs ret st tr st' h hd hr
    rw [arrivals_cons, ← List.append_assoc] at hd ⊢
    simp only [run] at hr
    cases hs : step st op with
    | none => simp [hs] at hr
    | some p =>
      obtain ⟨o, st1⟩ := p
      rw [hs] at hr
      cases hr2 : run st1 ops with
      | none => simp [hr2] at hr
      | some q =>
        obtain ⟨tr1, st2⟩ := q
        simp only [hr2, Option.some.injEq, Prod.mk.injEq] at hr
        obtain ⟨rfl, rfl⟩ := hr
        obtain ⟨c1, hc1, h1⟩ := refines_step h (distinct_prefix hd) hs
        rw [hc1] at hd ⊢
        obtain ⟨c2, hc2, h2⟩ := ih h1 hd hr2
        refine ⟨c2, hc2, ?_⟩
        simpa [events, returned, List.append_assoc] using h2

theorem refines_init : Refines [] [] [] State.init := by
  refine ⟨rfl, rfl, ?_, ?_, ?_, ?_, ?_⟩ <;> simp [State.init, respSet, toResponders, owed]

/-! ### partitions -/

theorem handed_partition (evs : List (Consumer × Msg)) :
    (evs.map (·.2)).Perm (toConsumer .signal evs ++ toConsumer .call evs ++ toResponders evs) := by
  induction evs with
  | nil => simp [toConsumer, toResponders]
  | cons e evs ih =>
    obtain ⟨k, m⟩ := e
    cases k with
    | signal =>
      simpa [toConsumer, toResponders, isRespConsumer] using ih
    | call =>
      have : (m :: evs.map (·.2)).Perm
          (m :: (toConsumer .signal evs ++ (toConsumer .call evs ++ toResponders evs))) := by
        simpa using ih
      simpa [toConsumer, toResponders, isRespConsumer] using this.trans List.perm_middle.symm
    | response s =>
      have : (m :: evs.map (·.2)).Perm
          (m :: ((toConsumer .signal evs ++ toConsumer .call evs) ++ toResponders evs)) := by
        simpa using ih
      simpa [toConsumer, toResponders, isRespConsumer] using this.trans List.perm_middle.symm

theorem accepted_partition (c : List Msg) :
    (c.filter (·.accepted)).Perm (sigQueue c ++ callQueue c ++ respSet c) := by
  induction c with
  | nil => simp [sigQueue, callQueue, respSet]
  | cons m c ih =>
    cases hacc : m.accepted with
    | false => simpa [sigQueue, callQueue, respSet, accSignal, accCall, accResp, hacc] using ih
    | true =>
      have h0 : (m :: c.filter (·.accepted)).Perm (m :: (sigQueue c ++ callQueue c ++ respSet c)) :=
        List.Perm.cons m ih
      cases ht : m.typ with
      | signal =>
        simpa [sigQueue, callQueue, respSet, accSignal, accCall, accResp, hacc, isSignal, isCall,
          isResp, ht] using h0
      | call =>
        have : (m :: c.filter (·.accepted)).Perm
            (sigQueue c ++ m :: (callQueue c ++ respSet c)) := by
          rw [List.append_assoc] at h0
          exact h0.trans List.perm_middle.symm
        simpa [sigQueue, callQueue, respSet, accSignal, accCall, accResp, hacc, isSignal, isCall,
          isResp, ht] using this
      | reply =>
        have := h0.trans (List.perm_middle (l₁ := sigQueue c ++ callQueue c) (l₂ := respSet c)).symm
        simpa [sigQueue, callQueue, respSet, accSignal, accCall, accResp, hacc, isSignal, isCall,
          isResp, ht] using this
      | error =>
        have := h0.trans (List.perm_middle (l₁ := sigQueue c ++ callQueue c) (l₂ := respSet c)).symm
        simpa [sigQueue, callQueue, respSet, accSignal, accCall, accResp, hacc, isSignal, isCall,
          isResp, ht] using this

/-- from the abstraction relation: delivered ++ stored = the accepted arrivals consumed (as multisets) -/
theorem refines_conservation {c evs ret st} (h : Refines c evs ret st) :
    (c.filter (·.accepted)).Perm (evs.map (·.2) ++ queued st) := by
  refine (accepted_partition c).trans ?_
  obtain ⟨hs, hc, hr, _, _, _, _⟩ := h
  rw [hs, hc]
  have hp := handed_partition evs
  unfold queued
  generalize toConsumer .signal evs = S at *
  generalize toConsumer .call evs = C at *
  generalize toResponders evs = R at *
  generalize st.responses.map (·.2) = V at *
  -- (S ++ sig) ++ (C ++ calls) ++ respSet ~ handed ++ (sig ++ calls ++ V)
  have h1 : ((S ++ st.signals) ++ (C ++ st.calls) ++ respSet c).Perm
      ((S ++ st.signals) ++ (C ++ st.calls) ++ (R ++ V)) := List.Perm.append_left _ hr
  refine h1.trans ?_
  have h2 : ((S ++ C ++ R) ++ (st.signals ++ st.calls ++ V)).Perm
      (evs.map (·.2) ++ (st.signals ++ st.calls ++ V)) := List.Perm.append_right _ hp.symm
  refine List.Perm.trans ?_ h2
  -- pure rearrangement
  apply List.perm_iff_count.mpr
  intro a
  simp only [List.count_append]
  omega

/-- a reply/error found by its serial is THE one, given distinct reply serials -/
theorem respMap_of_mem : ∀ (l : List Msg) (m : Msg) (s : Nat), DistinctReplySerials l → m ∈ l →
    accResp m = true → m.replySerial = some s → respMap l s = some m := by
  intro l
  induction l with
  | nil => intro m s _ hm; simp at hm
  | cons x l ih =>
    intro m s hd hm ha hs
    unfold DistinctReplySerials at hd
    rw [List.pairwise_cons] at hd
    simp only [respMap, List.find?_cons]
    rcases List.mem_cons.mp hm with rfl | hm'
    · simp [ha, hs]
    · have hrm : isResp m = true := by simp only [accResp, Bool.and_eq_true] at ha; exact ha.2
      have hx : (accResp x && x.replySerial == some s) = false := by
        cases hxa : accResp x with
        | false => simp
        | true =>
          have hrx : isResp x = true := by simp only [accResp, Bool.and_eq_true] at hxa; exact hxa.2
          have := hd.1 m hm' hrx hrm
          rw [hs] at this
          simpa using this
      rw [hx]
      exact ih m s hd.2 hm' ha hs

/-! ### no panic for well-formed arrivals -/

theorem acceptInto_isSome (st : State) (m : Msg) (hw : isResp m = true → m.replySerial ≠ none) :
    ∃ st', acceptInto st m = some st' ∧ st'.wire = st.wire := by
  unfold acceptInto
  split
  · exact ⟨_, rfl, rfl⟩
  · exact ⟨_, rfl, rfl⟩
  · rename_i ht
    cases hk : m.replySerial with
    | none => exact absurd hk (hw (by simp [isResp, ht]))
    | some k => exact ⟨_, rfl, rfl⟩
  · rename_i ht
    cases hk : m.replySerial with
    | none => exact absurd hk (hw (by simp [isResp, ht]))
    | some k => exact ⟨_, rfl, rfl⟩

theorem insertOrSendError_isSome (st : State) (m : Msg) (hw : isResp m = true → m.replySerial ≠ none) :
    ∃ st', insertOrSendError st m = some st' ∧ st'.wire = st.wire := by
  unfold insertOrSendError
  split
  · exact acceptInto_isSome st m hw
  · split <;> exact ⟨_, rfl, rfl⟩

theorem tryGet_wire (st : State) (k : Consumer) : (tryGet st k).2.wire = st.wire := by
  cases k with
  | signal => simp only [tryGet]; split <;> rfl
  | call => simp only [tryGet]; split <;> rfl
  | response s => simp only [tryGet]

/-- `refill_once` on a well-formed socket content does not panic; it consumes the head if any -/
theorem refillOnce_isSome (st : State) (hw : WellFormed st.wire) :
    ∃ r st', refillOnce st = some (r, st') ∧
      ((st.wire = [] ∧ r = none ∧ st' = st) ∨ (∃ m, st.wire = m :: st'.wire ∧ r = some m.typ)) := by
  unfold refillOnce
  split
  · rename_i h; exact ⟨none, st, rfl, Or.inl ⟨h, rfl, rfl⟩⟩
  · rename_i m w h
    obtain ⟨st1, h1, h2⟩ := insertOrSendError_isSome { st with wire := w } m
      (hw m (by rw [h]; simp))
    rw [h1]
    exact ⟨some m.typ, st1, rfl, Or.inr ⟨m, by rw [h2]; exact h, rfl⟩⟩

theorem refillAllLoop_isSome : ∀ (w : List Msg) (st : State) (acc : List ErrReply),
    WellFormed w → st.wire = w → ∃ errs st', refillAllLoop w st acc = some (errs, st') ∧ st'.wire = [] := by
  intro w
  induction w with
  | nil => intro st acc _ h; exact ⟨acc, st, rfl, h⟩
  | cons m w ih =>
    intro st acc hw _
    have hwm := hw m (by simp)
    have hww : WellFormed w := fun x hx => hw x (by simp [hx])
    simp only [refillAllLoop]
    split
    · obtain ⟨st1, h1, h2⟩ := acceptInto_isSome { st with wire := w } m hwm
      rw [h1]
      exact ih st1 acc hww h2
    · split <;> exact ih _ _ hww rfl

theorem waitLoop_isSome (k : Consumer) : ∀ (fuel : Nat) (st : State), WellFormed st.wire →
    ∃ r st', waitLoop k fuel st = some (r, st') ∧ ∃ pre, st.wire = pre ++ st'.wire := by
  intro fuel
  induction fuel with
  | zero => intro st _; exact ⟨none, st, rfl, [], rfl⟩
  | succ fuel ih =>
    intro st hw
    simp only [waitLoop]
    have htw := tryGet_wire st k
    cases ht : tryGet st k with
    | mk r0 st0 =>
      rw [ht] at htw
      simp only at htw
      cases r0 with
      | some m => exact ⟨some m, st0, rfl, [], by simp [htw]⟩
      | none =>
        simp only
        obtain ⟨r1, st1, h1, h2⟩ := refillOnce_isSome st0 (by rw [htw]; exact hw)
        rw [h1]
        rcases h2 with ⟨_, rfl, rfl⟩ | ⟨m, hm, rfl⟩
        · exact ⟨none, _, rfl, [], by simp [htw]⟩
        · simp only
          have hw1 : WellFormed st1.wire := by
            intro x hx
            apply hw x
            rw [← htw, hm]
            simp [hx]
          obtain ⟨r2, st2, h3, pre, h4⟩ := ih st1 hw1
          exact ⟨r2, st2, h3, m :: pre, by rw [← htw, hm, h4]; simp⟩

theorem step_isSome (st : State) (op : Op) (hw : WellFormed (st.wire ++ arrivals [op])) :
    ∃ o st', step st op = some (o, st') ∧ ∃ pre, st.wire ++ arrivals [op] = pre ++ st'.wire := by
  have hw0 : WellFormed st.wire := fun x hx => hw x (by simp [hx])
  cases op with
  | arrive m => exact ⟨_, _, rfl, [], by simp [arrivals]⟩
  | tryResponse s =>
    have := tryGet_wire st (.response s)
    cases ht : tryGet st (.response s) with
    | mk r st0 =>
      rw [ht] at this
      simp only at this
      simp only [step, ht]
      exact ⟨_, _, rfl, [], by simp [arrivals, this]⟩
  | trySignal =>
    have := tryGet_wire st .signal
    cases ht : tryGet st .signal with
    | mk r st0 =>
      rw [ht] at this
      simp only at this
      simp only [step, ht]
      exact ⟨_, _, rfl, [], by simp [arrivals, this]⟩
  | tryCall =>
    have := tryGet_wire st .call
    cases ht : tryGet st .call with
    | mk r st0 =>
      rw [ht] at this
      simp only at this
      simp only [step, ht]
      exact ⟨_, _, rfl, [], by simp [arrivals, this]⟩
  | refillOnce =>
    obtain ⟨r, st1, h1, h2⟩ := refillOnce_isSome st hw0
    simp only [step, h1]
    rcases h2 with ⟨_, rfl, rfl⟩ | ⟨m, hm, rfl⟩
    · exact ⟨_, _, rfl, [], by simp [arrivals]⟩
    · exact ⟨_, _, rfl, [m], by simp [arrivals, hm]⟩
  | refillAll =>
    obtain ⟨errs, st1, h1, h2⟩ := refillAllLoop_isSome st.wire st [] hw0 rfl
    simp only [step, refillAll, h1]
    exact ⟨_, _, rfl, st.wire, by simp [arrivals, h2]⟩
  | waitResponse s =>
    obtain ⟨r, st1, h1, pre, h2⟩ := waitLoop_isSome (.response s) (st.wire.length + 1) st hw0
    simp only [step, wait, h1]
    exact ⟨_, _, rfl, pre, by simp [arrivals, h2]⟩
  | waitSignal =>
    obtain ⟨r, st1, h1, pre, h2⟩ := waitLoop_isSome .signal (st.wire.length + 1) st hw0
    simp only [step, wait, h1]
    exact ⟨_, _, rfl, pre, by simp [arrivals, h2]⟩
  | waitCall =>
    obtain ⟨r, st1, h1, pre, h2⟩ := waitLoop_isSome .call (st.wire.length + 1) st hw0
    simp only [step, wait, h1]
    exact ⟨_, _, rfl, pre, by simp [arrivals, h2]⟩

theorem run_isSome : ∀ (ops : List Op) (st : State), WellFormed (st.wire ++ arrivals ops) →
    (run st ops).isSome = true := by
  intro ops
  induction ops with
  | nil => intro st _; simp [run]
  | cons op ops ih =>
    intro st hw
    rw [arrivals_cons, ← List.append_assoc] at hw
    obtain ⟨o, st1, h1, pre, h2⟩ := step_isSome st op (fun x hx => hw x (by simp at hx ⊢; rcases hx with h | h <;> simp [h]))
    have hw1 : WellFormed (st1.wire ++ arrivals ops) := by
      intro x hx
      apply hw x
      rw [h2]
      simp at hx ⊢
      rcases hx with h | h <;> simp [h]
    have := ih st1 hw1
    simp only [run, h1]
    cases hr : run st1 ops with
    | none => simp [hr] at this
    | some q => simp

/-! ### the fuel of the wait loop suffices -/

theorem insertOrSendError_wire {st st' : State} {m : Msg} (hi : insertOrSendError st m = some st') :
    st'.wire = st.wire := by
  unfold insertOrSendError at hi
  split at hi
  · unfold acceptInto at hi
    split at hi
    · simp only [Option.some.injEq] at hi; subst hi; rfl
    · simp only [Option.some.injEq] at hi; subst hi; rfl
    · split at hi
      · simp at hi
      · simp only [Option.some.injEq] at hi; subst hi; rfl
    · split at hi
      · simp at hi
      · simp only [Option.some.injEq] at hi; subst hi; rfl
  · split at hi <;> simp only [Option.some.injEq] at hi <;> subst hi <;> rfl

theorem refillOnce_wire {st st' : State} {r : Option Typ} (h : refillOnce st = some (r, st')) :
    (st.wire = [] ∧ r = none ∧ st' = st) ∨ (∃ m, st.wire = m :: st'.wire ∧ r = some m.typ) := by
  unfold refillOnce at h
  split at h
  · rename_i hnil
    simp only [Option.some.injEq, Prod.mk.injEq] at h
    exact Or.inl ⟨hnil, h.1.symm, h.2.symm⟩
  · rename_i m w hmw
    split at h
    · simp at h
    · rename_i st1 hi
      simp only [Option.some.injEq, Prod.mk.injEq] at h
      obtain ⟨rfl, rfl⟩ := h
      have := insertOrSendError_wire hi
      exact Or.inr ⟨m, by rw [this]; exact hmw, rfl⟩

/-- with more iterations available than messages in the socket, a wait only gives up (`none` =
    would block / `TimedOut`) when the socket has been drained completely -/
theorem waitLoop_blocked_drained (k : Consumer) : ∀ (fuel : Nat) (st st' : State),
    st.wire.length < fuel → waitLoop k fuel st = some (none, st') → st'.wire = [] := by
  intro fuel
  induction fuel with
  | zero => intro st st' h; omega
  | succ fuel ih =>
    intro st st' hlt hw
    simp only [waitLoop] at hw
    have htw := tryGet_wire st k
    cases ht : tryGet st k with
    | mk r0 st0 =>
      rw [ht] at htw hw
      simp only at htw
      cases r0 with
      | some m => simp at hw
      | none =>
        simp only at hw
        cases hro : refillOnce st0 with
        | none => simp [hro] at hw
        | some p =>
          obtain ⟨r1, st1⟩ := p
          rw [hro] at hw
          rcases refillOnce_wire hro with ⟨hnil, hr1, hst⟩ | ⟨m, hm, hr1⟩
          · subst hr1
            simp only [Option.some.injEq, Prod.mk.injEq, true_and] at hw
            rw [← hw, hst]; exact hnil
          · subst hr1
            simp only at hw
            apply ih st1 st' _ hw
            rw [← htw, hm] at hlt
            simp at hlt
            omega

end Rustbus.Rpc
