import RustbusModel.Model.Marshal
import RustbusModel.Lemmas.Wire
/-!
The mechanism-level marshaller computes exactly `Wire.enc`. Statements fixed; helpers may be added above.
-/
namespace Rustbus.Marshal
open Rustbus Rustbus.Bytes Rustbus.Wire

/-- Appending with padding from the buffer length, placeholders and back-patching produce exactly the
    encoding at the absolute offset `buf.length`, and fail exactly when there is no encoding. -/
theorem marshalM_eq_enc (bo : ByteOrder) (t : Ty) (v : Val) (buf : List UInt8) :
    marshalM bo t v buf = (enc bo buf.length t v).map (buf ++ ·) := by
  sorry

/-- The fast path for slices of fixed-size elements equals the element-wise encoding of the array. -/
theorem marshalSliceFastM_eq_enc (bo : ByteOrder) (b : Base) (k : Nat) (ns : List Nat) (buf : List UInt8)
    (hb : fastElem b = true) (hk : b.fixedSize = some k) (hn : ∀ n ∈ ns, n < 256 ^ k) :
    marshalSliceFastM bo b k ns buf =
      (enc bo buf.length (.array (.base b)) (.arr (ns.map Val.num))).map (buf ++ ·) := by
  sorry

end Rustbus.Marshal
