import RustbusModel.Model.Marshal
import RustbusModel.Lemmas.Wire
import RustbusModel.Lemmas.WireShapeInduct
/-!
The mechanism-level marshaller computes exactly `Wire.enc`. Statements fixed; helpers may be added above.
-/
namespace Rustbus.Marshal
open Rustbus Rustbus.Bytes Rustbus.Wire

/-! ### buffer primitives -/

theorem padTo_eq (a : Nat) (buf : List UInt8) : padTo a buf = buf ++ zeros (padLen a buf.length) := rfl

@[simp] theorem padTo_length (a : Nat) (buf : List UInt8) :
    (padTo a buf).length = buf.length + padLen a buf.length := by
  simp [padTo]

/-- back-patching the four placeholder bytes right after `pre` -/
theorem insertU32_at (bo : ByteOrder) (val pos : Nat) (pre four rest : List UInt8)
    (hpos : pos = pre.length) (h4 : four.length = 4) :
    insertU32 bo val pos (pre ++ (four ++ rest)) = pre ++ (bytesOf bo 4 val ++ rest) := by
  subst hpos
  unfold insertU32
  have h1 : (pre ++ (four ++ rest)).take pre.length = pre := by simp
  have h2 : (pre ++ (four ++ rest)).drop (pre.length + 4) = rest := by
    rw [← List.drop_drop]
    simp [← h4]
  rw [h1, h2]

/-! ### basic types -/

theorem marshalBaseM_eq_encBase (bo : ByteOrder) (b : Base) (v : Val) (buf : List UInt8) :
    marshalBaseM bo b v buf = (encBase bo buf.length b v).map (buf ++ ·) := by
  cases b <;> cases v <;> simp only [marshalBaseM, encBase, Base.fixedSize, padTo_eq, Option.map_none] <;>
    repeat' split <;> simp

/-! ### catch-all arms -/

theorem marshalM_bad (bo : ByteOrder) (t : Ty) (v : Val) (buf : List UInt8) (h : shapeOk t v = false) :
    marshalM bo t v buf = none := by
  cases t <;> cases v <;> simp [shapeOk] at h <;> simp [marshalM]

theorem marshalEntriesM_bad (bo : ByteOrder) (k : Base) (vt : Ty) (h : Val) (tl : List Val)
    (buf : List UInt8) (hh : ∀ kv vv, h ≠ .struct [kv, vv]) :
    marshalEntriesM bo k vt (h :: tl) buf = none := by
  unfold marshalEntriesM
  split
  · rename_i heq; cases heq
  · rename_i heq; cases heq; exact (hh _ _ rfl).elim
  · rfl

/-! ### the mutual family -/

/-- the shared tail of the array and dict arms: content appended after placeholder and padding, then
    the back-patch -/
theorem backpatch_eq (bo : ByteOrder) (buf : List UInt8) (a : Nat) (r : Option (List UInt8)) :
    (match Option.map (fun x => padTo a (padTo 4 buf ++ [0, 0, 0, 0]) ++ x) r with
      | none => none
      | some buf4 =>
        if buf4.length - (padTo a (padTo 4 buf ++ [0, 0, 0, 0])).length ≤ maxArrayLen then
          some (insertU32 bo (buf4.length - (padTo a (padTo 4 buf ++ [0, 0, 0, 0])).length)
            (padTo 4 buf).length buf4)
        else none) =
    Option.map (fun x => buf ++ x)
      (match r with
      | none => none
      | some body =>
        if body.length ≤ maxArrayLen then
          some (zeros (padLen 4 buf.length) ++ (bytesOf bo 4 body.length ++
            (zeros (padLen a (buf.length + padLen 4 buf.length + 4)) ++ body)))
        else none) := by
  cases r with
  | none => rfl
  | some body =>
    simp only [Option.map_some]
    have hl : (padTo a (padTo 4 buf ++ [0, 0, 0, 0]) ++ body).length -
        (padTo a (padTo 4 buf ++ [0, 0, 0, 0])).length = body.length := by
      simp only [List.length_append]; omega
    rw [hl]
    split
    · simp only [Option.map_some, Option.some.injEq]
      have e : padTo a (padTo 4 buf ++ [0, 0, 0, 0]) ++ body =
          padTo 4 buf ++ ([0, 0, 0, 0] ++
            (zeros (padLen a (buf.length + padLen 4 buf.length + 4)) ++ body)) := by
        simp [padTo_eq, List.append_assoc, Nat.add_assoc]
      rw [e, insertU32_at bo _ _ (padTo 4 buf) [0, 0, 0, 0] _ rfl rfl]
      simp [padTo_eq, List.append_assoc]
    · rfl

theorem marshalM_eq_enc_all :
    (∀ t v, ∀ bo buf, marshalM bo t v buf = (enc bo buf.length t v).map (buf ++ ·)) ∧
    (∀ e vs, ∀ bo buf, marshalListM bo e vs buf = (encList bo buf.length e vs).map (buf ++ ·)) ∧
    (∀ k vt es, ∀ bo buf,
      marshalEntriesM bo k vt es buf = (encEntries bo buf.length k vt es).map (buf ++ ·)) ∧
    (∀ fs vs, ∀ bo buf, marshalFieldsM bo fs vs buf = (encFields bo buf.length fs vs).map (buf ++ ·)) := by
  apply enc_induct
  case hbase =>
    intro b v bo buf
    simp only [marshalM, enc]
    exact marshalBaseM_eq_encBase bo b v buf
  case harr =>
    intro e vs ih bo buf
    simp only [marshalM, enc]
    rw [ih]
    have hl : (padTo e.align (padTo 4 buf ++ [0, 0, 0, 0])).length =
        buf.length + padLen 4 buf.length + 4 + padLen e.align (buf.length + padLen 4 buf.length + 4) := by
      simp
    rw [← hl]
    exact backpatch_eq bo buf e.align _
  case hdict =>
    intro k vt es ih bo buf
    simp only [marshalM, enc]
    rw [ih]
    have hl : (padTo 8 (padTo 4 buf ++ [0, 0, 0, 0])).length =
        buf.length + padLen 4 buf.length + 4 + padLen 8 (buf.length + padLen 4 buf.length + 4) := by
      simp
    rw [← hl]
    exact backpatch_eq bo buf 8 _
  case hstruct =>
    intro fs vs ih bo buf
    simp only [marshalM, enc]
    split
    · rfl
    · rw [ih, padTo_length]
      cases encFields bo (buf.length + padLen 8 buf.length) fs vs with
      | none => rfl
      | some body => simp [padTo_eq]
  case hvar =>
    intro t v ih bo buf
    simp only [marshalM, enc]
    split
    · rw [ih]
      have hl : (buf ++ UInt8.ofNat (sigBytes t).length :: (sigBytes t ++ [0])).length =
          buf.length + (sigBytes t).length + 2 := by
        simp; omega
      rw [hl]
      cases enc bo (buf.length + (sigBytes t).length + 2) t v with
      | none => rfl
      | some body => simp
    · rfl
  case hbad =>
    intro t v hs bo buf
    rw [marshalM_bad bo t v buf hs, enc_bad bo _ t v hs]; rfl
  case hLnil => intros; simp [marshalListM, encList]
  case hLcons =>
    intro e v vs ih1 ih2 bo buf
    simp only [marshalListM, encList]
    rw [ih1]
    cases enc bo buf.length e v with
    | none => rfl
    | some b =>
      simp only [Option.map_some]
      rw [ih2, List.length_append]
      cases encList bo (buf.length + b.length) e vs with
      | none => rfl
      | some r => simp
  case hEnil => intros; simp [marshalEntriesM, encEntries]
  case hEcons =>
    intro k vt kv vv rest ih1 ih2 bo buf
    simp only [marshalEntriesM, encEntries]
    rw [marshalBaseM_eq_encBase, padTo_length]
    cases encBase bo (buf.length + padLen 8 buf.length) k kv with
    | none => rfl
    | some kb =>
      simp only [Option.map_some]
      rw [ih1]
      have hl : (padTo 8 buf ++ kb).length = buf.length + padLen 8 buf.length + kb.length := by simp
      rw [hl]
      cases enc bo (buf.length + padLen 8 buf.length + kb.length) vt vv with
      | none => rfl
      | some vb =>
        simp only [Option.map_some]
        rw [ih2]
        have hl2 : (padTo 8 buf ++ kb ++ vb).length =
            buf.length + padLen 8 buf.length + kb.length + vb.length := by simp; omega
        rw [hl2]
        cases encEntries bo (buf.length + padLen 8 buf.length + kb.length + vb.length) k vt rest with
        | none => rfl
        | some rb => simp [padTo_eq]
  case hEbad =>
    intro k vt hd tl hh bo buf
    rw [marshalEntriesM_bad bo k vt hd tl buf hh, encEntries_bad bo _ k vt hd tl hh]; rfl
  case hFnil => intros; simp [marshalFieldsM, encFields]
  case hFcons =>
    intro t ts v vs ih1 ih2 bo buf
    simp only [marshalFieldsM, encFields]
    rw [ih1]
    cases enc bo buf.length t v with
    | none => rfl
    | some b =>
      simp only [Option.map_some]
      rw [ih2, List.length_append]
      cases encFields bo (buf.length + b.length) ts vs with
      | none => rfl
      | some r => simp
  case hFbad1 => intros; simp [marshalFieldsM, encFields]
  case hFbad2 => intros; simp [marshalFieldsM, encFields]

/-- Appending with padding from the buffer length, placeholders and back-patching produce exactly the
    encoding at the absolute offset `buf.length`, and fail exactly when there is no encoding. -/
theorem marshalM_eq_enc (bo : ByteOrder) (t : Ty) (v : Val) (buf : List UInt8) :
    marshalM bo t v buf = (enc bo buf.length t v).map (buf ++ ·) :=
  marshalM_eq_enc_all.1 t v bo buf

/-! ### the slice fast path -/

theorem fast_facts {b : Base} {k : Nat} (hb : fastElem b = true) (hk : b.fixedSize = some k) :
    b.align = k ∧ b.bound = 256 ^ k ∧ (k = 1 ∨ k = 2 ∨ k = 4 ∨ k = 8) := by
  cases b <;> simp [fastElem] at hb <;> simp [Base.fixedSize] at hk <;> subst hk <;>
    simp [Base.align, Base.bound, Base.fixedSize]

theorem padLen_add_mod {a : Nat} (ha : a = 1 ∨ a = 2 ∨ a = 4 ∨ a = 8) (o : Nat) :
    (o + padLen a o) % a = 0 := by
  rcases ha with rfl | rfl | rfl | rfl <;> simp only [padLen] <;> omega

theorem flatten_bytesOf_length (bo : ByteOrder) (k : Nat) (ns : List Nat) :
    ((ns.map (bytesOf bo k)).flatten).length = k * ns.length := by
  induction ns with
  | nil => simp
  | cons n ns ih => simp [ih, Nat.mul_succ]; omega

/-- aligned fixed-size elements are laid out back to back without padding -/
theorem encList_fast (bo : ByteOrder) (b : Base) (k : Nat) (hb : fastElem b = true)
    (hk : b.fixedSize = some k) (ns : List Nat) (o : Nat) (ho : o % k = 0)
    (hn : ∀ n ∈ ns, n < 256 ^ k) :
    encList bo o (.base b) (ns.map Val.num) = some ((ns.map (bytesOf bo k)).flatten) := by
  obtain ⟨ha, hbd, _⟩ := fast_facts hb hk
  induction ns generalizing o with
  | nil => simp [encList]
  | cons n ns ih =>
    have h1 : encBase bo o b (.num n) = some (bytesOf bo k n) := by
      refine (encBase_fixed hk).2 ⟨n, rfl, ?_, ?_⟩
      · rw [hbd]; exact hn n (by simp)
      · rw [ha, padLen_zero_of_mod ho]; simp [zeros]
    simp only [List.map_cons, encList, enc, h1, bytesOf_length, List.flatten_cons]
    rw [ih (o + k) (by rw [Nat.add_mod_right]; exact ho) (fun m hm => hn m (by simp [hm]))]

/-- The fast path for slices of fixed-size elements equals the element-wise encoding of the array. -/
theorem marshalSliceFastM_eq_enc (bo : ByteOrder) (b : Base) (k : Nat) (ns : List Nat) (buf : List UInt8)
    (hb : fastElem b = true) (hk : b.fixedSize = some k) (hn : ∀ n ∈ ns, n < 256 ^ k) :
    marshalSliceFastM bo b k ns buf =
      (enc bo buf.length (.array (.base b)) (.arr (ns.map Val.num))).map (buf ++ ·) := by
  obtain ⟨ha, _, hk4⟩ := fast_facts hb hk
  have hal : (Ty.base b).align = k := ha
  unfold marshalSliceFastM
  simp only [enc, hal]
  rw [encList_fast bo b k hb hk ns _ (padLen_add_mod hk4 _) hn]
  simp only [flatten_bytesOf_length]
  split
  · simp [padTo_eq, List.append_assoc, Nat.add_assoc]
  · rfl

end Rustbus.Marshal

#print axioms Rustbus.Marshal.marshalM_eq_enc
#print axioms Rustbus.Marshal.marshalSliceFastM_eq_enc
