import RustbusModel.Lemmas.Recv
/-!
Lemmas for C09, part 2: whole histories (`run`), conservation, the end of the stream, and the
one-byte-at-a-time history.
-/
namespace Rustbus.Recv
open Rustbus Rustbus.Bytes Rustbus.Header

theorem msgs_cons (r : Res) (tr : List Res) : msgs (r :: tr) = msgs [r] ++ msgs tr := by
  cases r <;> simp [msgs]

theorem run_inv : ∀ (acts : List Action) (todo : List Frame) (st : State) (w : World),
    Inv p todo st w → FramesOk p todo → ∀ tr st' w', run st w acts = (tr, st', w') →
    ∃ todo', Inv p todo' st' w' ∧ FramesOk p todo' ∧ todo = msgs tr ++ todo' ∧ ∀ r ∈ tr, r.good = true := by
  intro acts
  induction acts with
  | nil =>
    intro todo st w hI hok tr st' w' h
    simp only [run, Prod.mk.injEq] at h
    obtain ⟨rfl, rfl, rfl⟩ := h
    exact ⟨todo, hI, hok, by simp [msgs], by simp⟩
  | cons a acts ih =>
    intro todo st w hI hok tr st' w' h
    cases a with
    | arrive n =>
      simp only [run] at h
      exact ih todo st (w.arrive n) (arrive_inv hI n) hok tr st' w' h
    | call c evs =>
      simp only [run] at h
      cases hs : step c st w evs with
      | mk r p =>
        cases p with
        | mk st1 w1 =>
          rw [hs] at h
          cases hr : run st1 w1 acts with
          | mk tr1 q =>
            cases q with
            | mk st2 w2 =>
              rw [hr] at h
              simp only [Prod.mk.injEq] at h
              obtain ⟨rfl, rfl, rfl⟩ := h
              obtain ⟨todo1, hI1, hok1, ht1, hg1⟩ := step_inv hI hok hs
              obtain ⟨todo2, hI2, hok2, ht2, hg2⟩ := ih todo1 st1 w1 hI1 hok1 tr1 _ _ hr
              refine ⟨todo2, hI2, hok2, ?_, ?_⟩
              · rw [msgs_cons, ht1, ht2, List.append_assoc]
              · intro x hx
                simp only [List.mem_cons] at hx
                rcases hx with rfl | hx
                · exact hg1
                · exact hg2 x hx

/-- no call of any history reports `ConnectionClosed`: ANY start state, ANY stream p (also malformed frames) -/
theorem run_ne_closed : ∀ (acts : List Action) (st : State) (w : World), Res.closed ∉ (run st w acts).1 := by
  intro acts
  induction acts with
  | nil => intro st w; simp [run]
  | cons a acts ih =>
    intro st w
    cases a with
    | arrive n => simp only [run]; exact ih st _
    | call c evs =>
      simp only [run]
      have hs := step_ne_closed c st w evs
      cases hx : step c st w evs with
      | mk r p =>
        cases p with
        | mk st1 w1 =>
          rw [hx] at hs
          have := ih st1 w1
          cases hr : run st1 w1 acts with
          | mk tr1 q =>
            cases q with
            | mk st2 w2 =>
              rw [hr] at this
              intro hm
              simp only [List.mem_cons] at hm
              rcases hm with hm | hm
              · exact hs hm.symm
              · exact this hm

/-! ### conservation: every byte and descriptor of the remaining frames is in the buffer or still unread -/

theorem inv_conservation {todo : List Frame} {st : State} {w : World} (hI : Inv p todo st w) :
    (stream p todo).map Prod.fst = st.buf ++ w.rest.map Prod.fst ∧
    (stream p todo).flatMap Prod.snd = st.fds ++ w.rest.flatMap Prod.snd := by
  constructor
  · rw [stream_hd_tail, hI.rest, List.map_append, List.map_append, List.map_drop, cells_map_fst,
      ← List.append_assoc]
    congr 1
    have h := hI.buf
    generalize st.buf.length = n at h ⊢
    rw [h]; exact (List.take_append_drop _ _).symm
  · rw [stream_hd_tail, hI.rest, List.flatMap_append, List.flatMap_append, ← List.append_assoc]
    congr 1
    rw [hI.fds]
    have hsplit : (cells p (hd todo)).flatMap Prod.snd =
        ((cells p (hd todo)).take st.buf.length).flatMap Prod.snd ++
          ((cells p (hd todo)).drop st.buf.length).flatMap Prod.snd := by
      rw [← List.flatMap_append, List.take_append_drop]
    rw [hsplit]
    congr 1
    have := cells_fds_slice p (hd todo) 0 st.buf.length
    rw [List.drop_zero] at this
    rw [this]
    have hle := hI.le
    by_cases hz : st.buf.length ≤ p (hd todo)
    · rw [if_pos hz, if_neg]; omega
    · rw [if_neg hz, if_pos]; omega

/-- nothing unread and no complete message waiting: every frame has been handed out -/
theorem inv_rest_nil {todo : List Frame} {st : State} {w : World} (hI : Inv p todo st w)
    (hok : FramesOk p todo) (hr : w.rest = []) (hw : check st ≠ .whole) : todo = [] := by
  cases todo with
  | nil => rfl
  | cons cur more =>
    exfalso
    have hrest := hI.rest
    rw [hr] at hrest
    have hcur : hd (cur :: more) = cur := rfl
    rw [hcur] at hrest
    have h1 : (cells p cur).drop st.buf.length = [] := (List.append_eq_nil_iff.mp hrest.symm).1
    rw [List.drop_eq_nil_iff, cells_length] at h1
    have h2 := hI.le
    rw [hcur] at h2
    apply hw
    rw [check_of_inv hI hok, if_pos]
    exact ⟨by rw [hcur]; omega, by simp⟩

/-! ### one byte at a time -/

/-- the peer's bytes arrive one at a time and after each the client calls `get_next_message`, whose single
    `recvmsg` returns that one byte -/
def oneByte : Nat → List Action
  | 0 => []
  | n + 1 => .arrive 1 :: .call .getNext [.deliver 1] :: oneByte n

theorem getNext_not_whole {todo : List Frame} {st st' : State} {w w' : World} {evs : List Ev} {r : Res}
    (hI : Inv p todo st w) (hok : FramesOk p todo) (h : getNext st w evs = (r, st', w')) :
    check st' ≠ .whole := by
  obtain ⟨todo', hI', hok', _, hg⟩ := getNext_inv hI hok h
  simp only [getNext] at h
  cases hrw : readWhole st w evs with
  | mk r1 p =>
    cases p with
    | mk st1 w1 =>
      rw [hrw] at h
      obtain ⟨_, _, hcls, hnw⟩ := readWhole_inv hok evs st w hI r1 st1 w1 hrw
      rcases hcls with rfl | rfl
      · simp only at h
        -- whatever the decoders say, the state afterwards is `st1` with an error or the empty state
        cases hh : decodeHeader st1.buf with
        | none =>
          rw [hh] at h
          simp only [Prod.mk.injEq] at h
          obtain ⟨rfl, _, _⟩ := h
          simp [Res.good] at hg
        | some x =>
          rw [hh] at h
          have hst : st' = State.empty := by
            cases hm : decodeMessage st1.buf with
            | none => rw [hm] at h; simp only [Prod.mk.injEq] at h; exact h.2.1.symm
            | some y => rw [hm] at h; simp only [Prod.mk.injEq] at h; exact h.2.1.symm
          subst hst
          rw [check_of_inv hI' hok', if_neg]
          · simp
          · rintro ⟨h1, h2⟩
            have := (hd_ok hok' h2).1
            simp [State.empty] at h1
            omega
      · simp only [Prod.mk.injEq] at h
        obtain ⟨_, rfl, _⟩ := h
        exact hnw rfl

/-- decoding and handing over the message does not touch the socket -/
theorem getNext_world {st st' st1 : State} {w w' w1 : World} {evs : List Ev} {r r1 : Res}
    (h : getNext st w evs = (r, st', w')) (hrw : readWhole st w evs = (r1, st1, w1)) : w' = w1 := by
  simp only [getNext, hrw] at h
  cases r1 <;> try (simp only [Prod.mk.injEq] at h; exact h.2.2.symm)
  dsimp only at h
  cases hh : decodeHeader st1.buf with
  | none => rw [hh] at h; simp only [Prod.mk.injEq] at h; exact h.2.2.symm
  | some x =>
    rw [hh] at h
    cases hm : decodeMessage st1.buf with
    | none => rw [hm] at h; simp only [Prod.mk.injEq] at h; exact h.2.2.symm
    | some y => rw [hm] at h; simp only [Prod.mk.injEq] at h; exact h.2.2.symm

theorem readWhole_nil_world {st st' : State} {w w' : World} {r : Res}
    (h : readWhole st w [] = (r, st', w')) : w' = w := by
  simp only [readWhole] at h
  cases hc : check st with
  | whole => rw [hc] at h; simp only [Prod.mk.injEq] at h; exact h.2.2.symm
  | err e => rw [hc] at h; simp only [Prod.mk.injEq] at h; exact h.2.2.symm
  | need n => rw [hc] at h; simp only [refill_k0 (check_need_lt hc), Prod.mk.injEq] at h; exact h.2.2.symm

/-- with something queued, a `recvmsg` answered with one byte takes exactly one byte -/
theorem getNext_one {todo : List Frame} {st : State} {w : World}
    (hI : Inv p todo st w) (hok : FramesOk p todo) (hw : check st ≠ .whole) (hr : w.rest ≠ []) :
    ∀ r st' w', getNext st (w.arrive 1) [.deliver 1] = (r, st', w') → w'.rest.length + 1 = w.rest.length := by
  intro r st' w' h
  have hc := check_of_inv hI hok
  by_cases hwh : st.buf.length = (hd todo).bytes.length ∧ todo ≠ []
  · rw [if_pos hwh] at hc; exact absurd hc hw
  · rw [if_neg hwh] at hc
    have hlt := check_need_lt hc
    generalize hnd : (if st.buf.length < 16 then 16 else (hd todo).bytes.length) = nd at hc hlt
    -- the one recvmsg
    have hreq : 0 < (reserve st nd).cap - st.buf.length := by
      simp only [reserve, maxGrowth]; omega
    have hlen : 0 < w.rest.length := by
      cases hh : w.rest with
      | nil => exact absurd hh hr
      | cons _ _ => simp
    have hrecv : recvmsg (w.arrive 1) ((reserve st nd).cap - st.buf.length) 1 =
        (.data ((w.rest.take 1).map Prod.fst) (((w.rest.take 1).flatMap Prod.snd).take cmsgCap),
          { rest := w.rest.drop 1, avail := min (w.avail + 1) w.rest.length - 1 }) := by
      simp only [recvmsg, World.arrive]
      have h1 : ¬ (min (w.avail + 1) w.rest.length = 0 ∨ 1 = 0) := by omega
      have h2 : ¬ ((reserve st nd).cap - st.buf.length = 0) := by omega
      have h3 : min 1 (min ((reserve st nd).cap - st.buf.length) (min (w.avail + 1) w.rest.length)) = 1 := by
        omega
      split
      · rename_i hh; exact absurd hh h1
      · rw [h3]
    have hne1 : ((w.rest.take 1).map Prod.fst).isEmpty = false := by
      cases hh : w.rest with
      | nil => exact absurd hh hr
      | cons _ _ => simp
    have hrf : ∃ st1, refill st (w.arrive 1) nd 1 =
        (.readOk, st1, { rest := w.rest.drop 1, avail := min (w.avail + 1) w.rest.length - 1 }) := by
      rw [refill_read (by omega)]
      simp only [hrecv, hne1]
      exact ⟨_, rfl⟩
    obtain ⟨st1, hrf⟩ := hrf
    have hfin : w'.rest = w.rest.drop 1 := by
      have hrw : readWhole st (w.arrive 1) [.deliver 1] =
          readWhole st1 { rest := w.rest.drop 1, avail := min (w.avail + 1) w.rest.length - 1 } [] := by
        simp only [readWhole, hc, hrf]
      cases hx : readWhole st1 { rest := w.rest.drop 1, avail := min (w.avail + 1) w.rest.length - 1 } [] with
      | mk r1 p =>
        cases p with
        | mk st2 w2 =>
          rw [hx] at hrw
          rw [getNext_world h hrw, readWhole_nil_world hx]
    rw [hfin, List.length_drop]; omega

theorem oneByte_run : ∀ (n : Nat) (todo : List Frame) (st : State) (w : World),
    Inv p todo st w → FramesOk p todo → check st ≠ .whole → w.rest.length = n →
    ∀ tr st' w', run st w (oneByte n) = (tr, st', w') → msgs tr = todo ∧ st'.buf = [] ∧ w'.rest = [] := by
  intro n
  induction n with
  | zero =>
    intro todo st w hI hok hw hn tr st' w' h
    simp only [oneByte, run, Prod.mk.injEq] at h
    obtain ⟨rfl, rfl, rfl⟩ := h
    have hr : w.rest = [] := List.length_eq_zero_iff.mp hn
    have ht := inv_rest_nil hI hok hr hw
    subst ht
    refine ⟨by simp [msgs], ?_, hr⟩
    have := hI.le
    rw [hd_nil_len] at this
    exact List.length_eq_zero_iff.mp (by omega)
  | succ n ih =>
    intro todo st w hI hok hw hn tr st' w' h
    simp only [oneByte, run, step] at h
    cases hs : getNext st (w.arrive 1) [.deliver 1] with
    | mk r p =>
      cases p with
      | mk st1 w1 =>
        rw [hs] at h
        cases hr : run st1 w1 (oneByte n) with
        | mk tr1 q =>
          cases q with
          | mk st2 w2 =>
            rw [hr] at h
            simp only [Prod.mk.injEq] at h
            obtain ⟨rfl, rfl, rfl⟩ := h
            have hrne : w.rest ≠ [] := by
              intro h0; rw [h0] at hn; simp at hn
            have hlen := getNext_one hI hok hw hrne r st1 w1 hs
            obtain ⟨todo1, hI1, hok1, ht1, _⟩ := getNext_inv (arrive_inv hI 1) hok hs
            have hnw := getNext_not_whole (arrive_inv hI 1) hok hs
            obtain ⟨hm, hb, hrr⟩ := ih todo1 st1 w1 hI1 hok1 hnw (by omega) tr1 _ _ hr
            exact ⟨by rw [msgs_cons, hm, ht1], hb, hrr⟩

def totalLen : List Frame → Nat
  | [] => 0
  | f :: fs => f.bytes.length + totalLen fs

theorem stream_length (p : Frame → Nat) (fs : List Frame) : (stream p fs).length = totalLen fs := by
  induction fs with
  | nil => rfl
  | cons f fs ih => simp [stream, totalLen, cells_length, ih]


/-! ### timeouts (no assumption on the state or the stream) -/

theorem reserve_idem (st : State) (nd : Nat) : reserve (reserve st nd) nd = reserve st nd := by
  simp only [reserve]
  congr 1
  generalize maxGrowth = G
  omega

theorem refill_timedOut {st st' : State} {w w' : World} {nd k : Nat}
    (h : refill st w nd k = (.timedOut, st', w')) : st' = reserve st nd ∧ w' = w := by
  by_cases hfull : nd ≤ st.buf.length
  · rw [refill_full hfull] at h; simp at h
  rw [refill_read hfull] at h
  cases hr : recvmsg w ((reserve st nd).cap - st.buf.length) k with
  | mk ans w1 =>
    rw [hr] at h
    cases ans with
    | eagain =>
      simp only [Prod.mk.injEq, true_and] at h
      have := recvmsg_eagain _ _ _ _ hr
      exact ⟨h.1.symm, by rw [← h.2, this]⟩
    | data bs fds =>
      dsimp only at h
      split at h <;> simp at h

theorem refill_after_timeout {st : State} {nd : Nat} (hlt : st.buf.length < nd) (w : World) (k : Nat) :
    refill (reserve st nd) w nd k = refill st w nd k := by
  have hb : (reserve st nd).buf = st.buf := rfl
  have hfull : ¬ nd ≤ st.buf.length := by omega
  rw [refill_read (by rw [hb]; exact hfull), refill_read hfull, reserve_idem, hb]
  rfl

theorem check_need_bytes {st : State} {nd : Nat} (h : check st = .need nd) :
    bytesNeeded st.buf = .bytes nd := by
  unfold check at h
  by_cases h16 : st.buf.length < 16
  · rw [if_pos h16] at h
    simp only [Check.need.injEq] at h
    subst h
    unfold bytesNeeded; rw [if_pos h16]
  · rw [if_neg h16] at h
    cases hb : bytesNeeded st.buf with
    | bytes n =>
      rw [hb] at h
      dsimp only at h
      split at h
      · simp at h
      · simp only [Check.need.injEq] at h; rw [h]
    | tooLong => rw [hb] at h; simp at h
    | invalid => rw [hb] at h; simp at h

theorem readWhole_reserve {nd : Nat} : ∀ (evs : List Ev) (st : State) (w : World), check st = .need nd →
    readWhole (reserve st nd) w evs = readWhole st w evs := by
  intro evs
  induction evs with
  | nil =>
    intro st w hc
    simp only [readWhole, check_reserve, hc, refill_after_timeout (check_need_lt hc)]
  | cons e evs ih =>
    intro st w hc
    cases e with
    | arrive a => simp only [readWhole, check_reserve, hc]; exact ih st _ hc
    | wouldBlock => simp only [readWhole, check_reserve, hc, refill_after_timeout (check_need_lt hc)]
    | deliver k => simp only [readWhole, check_reserve, hc, refill_after_timeout (check_need_lt hc)]

theorem recvWith_reserve {nd : Nat} : ∀ (evs : List Ev) (st : State) (w : World), st.buf.length < nd →
    recvWith (reserve st nd) w nd evs = recvWith st w nd evs := by
  intro evs
  induction evs with
  | nil => intro st w hlt; simp only [recvWith, refill_after_timeout hlt]
  | cons e evs ih =>
    intro st w hlt
    cases e with
    | arrive a => simp only [recvWith]; exact ih st _ hlt
    | wouldBlock => simp only [recvWith, refill_after_timeout hlt]
    | deliver k => simp only [recvWith, refill_after_timeout hlt]

theorem step_reserve {st : State} {nd : Nat} (hc : check st = .need nd) (c : Call) (w : World)
    (evs : List Ev) : step c (reserve st nd) w evs = step c st w evs := by
  have hb := check_need_bytes hc
  have hb' : bytesNeeded (reserve st nd).buf = .bytes nd := hb
  cases c with
  | getNext => simp only [step, getNext, readWhole_reserve evs st w hc]
  | readOnce => simp only [step, readOnce, hb, hb', recvWith_reserve evs st w (check_need_lt hc)]
  | readMore =>
    simp only [step, readMore, check_reserve, hc, readOnce, hb, hb', recvWith_reserve evs st w (check_need_lt hc)]

theorem step_nil_timedOut {st : State} {nd : Nat} (hc : check st = .need nd) (c : Call) (w : World) :
    step c st w [] = (.timedOut, reserve st nd, w) := by
  have hb := check_need_bytes hc
  have hlt := check_need_lt hc
  cases c with
  | getNext => simp only [step, getNext, readWhole, hc, refill_k0 hlt]
  | readOnce => simp only [step, readOnce, hb, recvWith, refill_k0 hlt]
  | readMore => simp only [step, readMore, hc, readOnce, hb, recvWith, refill_k0 hlt]

theorem run_reserve_trace {nd : Nat} : ∀ (acts : List Action) (st : State) (w : World), check st = .need nd →
    (run (reserve st nd) w acts).1 = (run st w acts).1 := by
  intro acts
  induction acts with
  | nil => intro st w _; simp [run]
  | cons a acts ih =>
    intro st w hc
    cases a with
    | arrive n => simp only [run]; exact ih st _ hc
    | call c evs => simp only [run, step_reserve hc]

/-! ### `read_once` on a complete buffer (no assumption on the state or the stream) -/

theorem check_whole_bytes {st : State} (h : check st = .whole) :
    ∃ n, bytesNeeded st.buf = .bytes n ∧ n ≤ st.buf.length := by
  unfold check at h
  by_cases h16 : st.buf.length < 16
  · rw [if_pos h16] at h; simp at h
  · rw [if_neg h16] at h
    cases hb : bytesNeeded st.buf with
    | bytes n =>
      rw [hb] at h
      dsimp only at h
      split at h
      · exact ⟨n, rfl, by assumption⟩
      · simp at h
    | tooLong => rw [hb] at h; simp at h
    | invalid => rw [hb] at h; simp at h

/-- `read_once` although the buffer holds a complete message: `Ok(())`, the state is untouched, nothing is
    taken from the socket (the only change of the world is what the peer makes arrive meanwhile) -/
theorem readOnce_whole {st : State} (h : check st = .whole) (w : World) (evs : List Ev) :
    readOnce st w evs = (.readOk, st, w.arrive (arrivals evs)) := by
  obtain ⟨n, hb, hn⟩ := check_whole_bytes h
  simp only [readOnce, hb]
  exact recvWith_full evs st w hn

/-! ### refused announcements -/

theorem readWhole_err {st : State} {e : Res} (hc : check st = .err e) (w : World) (evs : List Ev) :
    readWhole st w evs = (e, st, w) := by
  cases evs with
  | nil => simp only [readWhole, hc]
  | cons ev evs => cases ev <;> simp only [readWhole, hc]

theorem invalid_len {buf : List UInt8} (h : bytesNeeded buf = .invalid ∨ bytesNeeded buf = .tooLong) :
    ¬ buf.length < 16 := by
  intro hl
  unfold bytesNeeded at h
  rw [if_pos hl] at h
  rcases h with h | h <;> simp at h

theorem step_invalid {st : State} (h : bytesNeeded st.buf = .invalid) (c : Call) (w : World)
    (evs : List Ev) : step c st w evs = (.invalid, st, w) := by
  have hl := invalid_len (Or.inl h)
  have hc : check st = .err .invalid := by unfold check; rw [if_neg hl, h]
  cases c with
  | getNext => simp only [step, getNext, readWhole_err hc]
  | readOnce => simp only [step, readOnce, h]
  | readMore => simp only [step, readMore, hc]

theorem step_tooLong {st : State} (h : bytesNeeded st.buf = .tooLong) (c : Call) (w : World)
    (evs : List Ev) : step c st w evs = (.tooLong, st, w) := by
  have hl := invalid_len (Or.inr h)
  have hc : check st = .err .tooLong := by unfold check; rw [if_neg hl, h]
  cases c with
  | getNext => simp only [step, getNext, readWhole_err hc]
  | readOnce => simp only [step, readOnce, h]
  | readMore => simp only [step, readMore, hc]

end Rustbus.Recv
