import RustbusModel.Model.Recv
/-!
Lemmas for C09 (receive path), part 1: the announced frame size depends on the first 16 bytes only; the
cells of a frame; what one `recvmsg` returns; the invariant of the receive loop and its preservation by
`refill`, `readWhole`, `getNext`, `readOnce`, `readMore`.
-/
namespace Rustbus.Recv
open Rustbus Rustbus.Bytes Rustbus.Header

/-! ### `bytesNeeded` looks at the first 16 bytes only -/

theorem slice_take (buf : List UInt8) (m off k : Nat) (h : off + k ≤ m) :
    slice (buf.take m) off k = slice buf off k := by
  unfold slice
  rw [List.drop_take, List.take_take]
  congr 1; omega

theorem decodeFixed_take16 (buf : List UInt8) (h : 16 ≤ buf.length) :
    decodeFixed (buf.take 16) = decodeFixed buf := by
  unfold decodeFixed
  rw [slice_take buf 16 4 4 (by omega), slice_take buf 16 8 4 (by omega)]
  have h1 : (buf.take 16).length = 16 := by simp [List.length_take]; omega
  rw [h1]
  have h2 : ¬ buf.length < 12 := by omega
  simp only [h2, if_false, show ¬ (16 < 12) by omega]
  match buf, h with
  | e :: t :: f :: ver :: tl, _ => simp [List.take]
  | [], h => simp at h
  | [_], h => simp at h
  | [_, _], h => simp at h
  | [_, _, _], h => simp at h

theorem bytesNeeded_take16 (buf : List UInt8) (h : 16 ≤ buf.length) :
    bytesNeeded (buf.take 16) = bytesNeeded buf := by
  unfold bytesNeeded
  rw [decodeFixed_take16 buf h, slice_take buf 16 12 4 (by omega)]
  have h1 : (buf.take 16).length = 16 := by simp [List.length_take]; omega
  rw [h1]
  have h2 : ¬ buf.length < 16 := by omega
  simp only [h2, if_false, show ¬ (16 < 16) by omega]
theorem cellsFrom_map_fst (fds : List Nat) (pos : Nat) : ∀ (bs : List UInt8) (i : Nat),
    (cellsFrom fds pos i bs).map Prod.fst = bs
  | [], _ => rfl
  | b :: bs, i => by simp [cellsFrom, cellsFrom_map_fst fds pos bs (i + 1)]

theorem cells_map_fst (p : Frame → Nat) (f : Frame) : (cells p f).map Prod.fst = f.bytes :=
  cellsFrom_map_fst _ _ _ _

theorem cells_length (p : Frame → Nat) (f : Frame) : (cells p f).length = f.bytes.length := by
  rw [← cells_map_fst p f, List.length_map]

theorem flatMap_snd_nil (l : List (UInt8 × List Nat)) (h : ∀ x ∈ l, x.2 = []) :
    l.flatMap Prod.snd = [] := by
  rw [List.flatMap_eq_nil_iff]; exact h

/-- descriptors ride on one cell only: a slice carries them exactly if it contains that cell -/
theorem cellsFrom_fds_slice (fds : List Nat) (pos : Nat) : ∀ (bs : List UInt8) (i n m : Nat),
    (((cellsFrom fds pos i bs).drop n).take m).flatMap Prod.snd =
      if i + n ≤ pos ∧ pos < i + n + m ∧ pos < i + bs.length then fds else []
  | [], i, n, m => by
    simp only [cellsFrom, List.drop_nil, List.take_nil, List.flatMap_nil, List.length_nil]
    rw [if_neg]; omega
  | b :: bs, i, n, m => by
    cases n with
    | succ n =>
      simp only [cellsFrom, List.drop_succ_cons]
      rw [cellsFrom_fds_slice fds pos bs (i + 1) n m]
      simp only [List.length_cons]
      by_cases h : i + 1 + n ≤ pos ∧ pos < i + 1 + n + m ∧ pos < i + 1 + bs.length
      · rw [if_pos h, if_pos]; omega
      · rw [if_neg h, if_neg]; omega
    | zero =>
      cases m with
      | zero =>
        simp only [List.take_zero, List.flatMap_nil]
        rw [if_neg]; omega
      | succ m =>
        simp only [cellsFrom, List.drop_zero, List.take_succ_cons, List.flatMap_cons]
        have ih := cellsFrom_fds_slice fds pos bs (i + 1) 0 m
        simp only [List.drop_zero] at ih
        rw [ih]
        simp only [List.length_cons]
        by_cases hi : i = pos
        · subst hi
          rw [if_pos rfl, if_neg (by omega), List.append_nil, if_pos]; omega
        · rw [if_neg hi, List.nil_append]
          by_cases h : i + 1 + 0 ≤ pos ∧ pos < i + 1 + 0 + m ∧ pos < i + 1 + bs.length
          · rw [if_pos h, if_pos]; omega
          · rw [if_neg h, if_neg]; omega

theorem cells_fds_slice (p : Frame → Nat) (f : Frame) (n m : Nat) :
    (((cells p f).drop n).take m).flatMap Prod.snd =
      if n ≤ p f ∧ p f < n + m ∧ p f < f.bytes.length then f.fds else [] := by
  have := cellsFrom_fds_slice f.fds (p f) f.bytes 0 n m
  simpa [cells] using this

theorem recvmsg_eagain (w w' : World) (req k : Nat) (h : recvmsg w req k = (.eagain, w')) : w' = w := by
  simp only [recvmsg] at h
  by_cases h1 : min w.avail w.rest.length = 0 ∨ k = 0
  · rw [if_pos h1] at h
    simp only [Prod.mk.injEq, true_and] at h; exact h.symm
  · rw [if_neg h1] at h
    by_cases h2 : req = 0
    · rw [if_pos h2] at h
      split at h
      · simp only [Prod.mk.injEq, true_and] at h; exact h.symm
      · simp at h
    · rw [if_neg h2] at h; simp at h

theorem recvmsg_zero (w w' : World) (k : Nat) (bs : List UInt8) (fds : List Nat)
    (h : recvmsg w 0 k = (.data bs fds, w')) : bs = [] := by
  simp only [recvmsg] at h
  by_cases h1 : min w.avail w.rest.length = 0 ∨ k = 0
  · rw [if_pos h1] at h; simp at h
  · rw [if_neg h1] at h
    simp only [if_true] at h
    split at h
    · simp at h
    · simp only [Prod.mk.injEq, RecvMsg.data.injEq] at h; exact h.1.1.symm

theorem recvmsg_data (w w' : World) (req k : Nat) (bs : List UInt8) (fds : List Nat)
    (hreq : 0 < req) (h : recvmsg w req k = (.data bs fds, w')) :
    ∃ m, 0 < m ∧ m ≤ req ∧ m ≤ w.rest.length ∧ bs = (w.rest.take m).map Prod.fst ∧
      fds = ((w.rest.take m).flatMap Prod.snd).take cmsgCap ∧ w'.rest = w.rest.drop m := by
  simp only [recvmsg] at h
  by_cases h1 : min w.avail w.rest.length = 0 ∨ k = 0
  · rw [if_pos h1] at h; simp at h
  · have hr : ¬ req = 0 := by omega
    rw [if_neg h1, if_neg hr] at h
    simp only [Prod.mk.injEq, RecvMsg.data.injEq] at h
    obtain ⟨⟨h1', h2⟩, h3⟩ := h
    refine ⟨min k (min req (min w.avail w.rest.length)), ?_, ?_, ?_, h1'.symm, h2.symm, ?_⟩
    · omega
    · omega
    · omega
    · rw [← h3]

/-- a `recvmsg` into a buffer of at least one byte that returns data returns at least one byte -/
theorem recvmsg_data_ne_nil (w w' : World) (req k : Nat) (bs : List UInt8) (fds : List Nat)
    (hreq : 0 < req) (h : recvmsg w req k = (.data bs fds, w')) : bs ≠ [] := by
  obtain ⟨m, hm0, _, hmrest, hbs, _, _⟩ := recvmsg_data w w' req k bs fds hreq h
  intro h0
  have := congrArg List.length (hbs.symm.trans h0)
  simp only [List.length_map, List.length_take, List.length_nil] at this
  omega

/-! ### `refill`: the early return, and no zero-length `recvmsg` -/

/-- the buffer already holds everything it may hold: `Ok(())`, nothing reserved, nothing read -/
theorem refill_full {st : State} {nd : Nat} (h : nd ≤ st.buf.length) (w : World) (k : Nat) :
    refill st w nd k = (.readOk, st, w) := by
  simp only [refill, if_pos h]

/-- otherwise exactly one `recvmsg`, into `buf[filled..]` after the reservation -/
theorem refill_read {st : State} {nd : Nat} (h : ¬ nd ≤ st.buf.length) (w : World) (k : Nat) :
    refill st w nd k =
      match recvmsg w ((reserve st nd).cap - st.buf.length) k with
      | (.eagain, w') => (.timedOut, reserve st nd, w')
      | (.data bytes fds, w') =>
        if bytes.isEmpty then (.closed, reserve st nd, w')
        else (.readOk, { reserve st nd with buf := st.buf ++ bytes, fds := st.fds ++ fds }, w') := by
  simp only [refill, if_neg h]
  rfl

/-- every `recvmsg` issued by `refill` is handed a buffer of at least one byte (ANY state) -/
theorem refill_request_pos (st : State) (nd : Nat) (h : ¬ nd ≤ st.buf.length) :
    0 < (reserve st nd).cap - st.buf.length := by
  simp only [reserve, maxGrowth]; omega

/-- `refill` never reports `ConnectionClosed` (ANY state, ANY stream: the peer of the model does not hang up,
    and a 0-byte answer needs a zero-length request) -/
theorem refill_ne_closed (st : State) (w : World) (nd k : Nat) : (refill st w nd k).1 ≠ .closed := by
  by_cases hfull : nd ≤ st.buf.length
  · rw [refill_full hfull]; simp
  · rw [refill_read hfull]
    have hreq := refill_request_pos st nd hfull
    cases hr : recvmsg w ((reserve st nd).cap - st.buf.length) k with
    | mk ans w1 =>
      cases ans with
      | eagain => simp
      | data bs fds =>
        have hne := recvmsg_data_ne_nil _ _ _ _ _ _ hreq hr
        cases bs with
        | nil => exact absurd rfl hne
        | cons _ _ => simp

/-! ### the invariant -/

/-- the frame being assembled (a dummy empty frame when the peer has nothing more to say) -/
def hd (todo : List Frame) : Frame := todo.headD ⟨[], []⟩

variable {p : Frame → Nat}

def FramesOk (p : Frame → Nat) (todo : List Frame) : Prop := ∀ f ∈ todo, FrameOk f ∧ p f < f.bytes.length

/-- `todo` = the frames not yet handed out; the buffer holds a prefix of the first of them, the
    descriptors are those of that frame (once its first byte is in), the unread stream is the rest of
    it followed by the other frames, and the reservation stays within the frame and the growth step -/
structure Inv (p : Frame → Nat) (todo : List Frame) (st : State) (w : World) : Prop where
  le : st.buf.length ≤ (hd todo).bytes.length
  buf : st.buf = (hd todo).bytes.take st.buf.length
  fds : st.fds = if st.buf.length ≤ p (hd todo) then [] else (hd todo).fds
  rest : w.rest = (cells p (hd todo)).drop st.buf.length ++ stream p todo.tail
  cap : st.cap ≤ max 16 (hd todo).bytes.length
  lenCap : st.buf.length ≤ st.cap
  grow : st.cap ≤ max 16 (st.buf.length + maxGrowth)

theorem hd_ok {todo : List Frame} (hok : FramesOk p todo) (hne : todo ≠ []) : FrameOk (hd todo) := by
  cases todo with
  | nil => exact absurd rfl hne
  | cons f fs => exact (hok f (by simp)).1

theorem hd_pos {todo : List Frame} (hok : FramesOk p todo) (hne : todo ≠ []) : p (hd todo) < (hd todo).bytes.length := by
  cases todo with
  | nil => exact absurd rfl hne
  | cons f fs => exact (hok f (by simp)).2

theorem hd_nil_len : (hd []).bytes.length = 0 := rfl

theorem inv_init (frames : List Frame) : Inv p frames State.empty (World.init p frames) := by
  refine ⟨by simp [State.empty], by simp [State.empty], by simp [State.empty], ?_, by simp [State.empty],
    by simp [State.empty], by simp [State.empty]⟩
  cases frames with
  | nil => simp [World.init, State.empty, hd, stream, cells, cellsFrom]
  | cons f fs => simp [World.init, State.empty, hd, stream]

theorem needed_of_inv {todo : List Frame} {st : State} {w : World} (hI : Inv p todo st w)
    (hok : FramesOk p todo) :
    bytesNeeded st.buf = .bytes (if st.buf.length < 16 then 16 else (hd todo).bytes.length) := by
  by_cases h : st.buf.length < 16
  · rw [if_pos h]; unfold bytesNeeded; rw [if_pos h]
  · rw [if_neg h]
    have hne : todo ≠ [] := by
      intro h0; subst h0; have := hI.le; rw [hd_nil_len] at this; omega
    obtain ⟨_, h2, _, _⟩ := hd_ok hok hne
    rw [← bytesNeeded_take16 st.buf (by omega)]
    have : st.buf.take 16 = (hd todo).bytes.take 16 := by
      conv => lhs; rw [hI.buf]
      rw [List.take_take]; congr 1; omega
    rw [this, h2]

theorem check_of_inv {todo : List Frame} {st : State} {w : World} (hI : Inv p todo st w)
    (hok : FramesOk p todo) :
    check st = if st.buf.length = (hd todo).bytes.length ∧ todo ≠ [] then .whole
      else .need (if st.buf.length < 16 then 16 else (hd todo).bytes.length) := by
  unfold check
  by_cases h : st.buf.length < 16
  · rw [if_pos h, if_pos h, if_neg]
    rintro ⟨h1, h2⟩
    have := (hd_ok hok h2).1; omega
  · rw [if_neg h, needed_of_inv hI hok, if_neg h]
    have hne : todo ≠ [] := by
      intro h0; subst h0; have := hI.le; rw [hd_nil_len] at this; omega
    have hle := hI.le
    by_cases h3 : st.buf.length = (hd todo).bytes.length
    · rw [if_pos ⟨h3, hne⟩]; simp only; rw [if_pos (by omega)]
    · rw [if_neg (by intro hh; exact h3 hh.1)]; simp only; rw [if_neg (by omega)]

/-- one `refill_buffer` with a request bound that stays within the frame -/
theorem refill_inv {todo : List Frame} {st st' : State} {w w' : World} {nd k : Nat} {r : Res}
    (hI : Inv p todo st w) (hok : FramesOk p todo) (hnd : nd ≤ max 16 (hd todo).bytes.length)
    (h : refill st w nd k = (r, st', w')) :
    (r = .timedOut ∨ r = .readOk) ∧
    Inv p todo st' w' ∧
    (r = .timedOut → st'.buf = st.buf ∧ st'.fds = st.fds ∧ w' = w) ∧
    (r = .readOk → st.buf.length < st'.buf.length ∨ (nd ≤ st.buf.length ∧ st' = st ∧ w' = w)) := by
  by_cases hfull : nd ≤ st.buf.length
  · rw [refill_full hfull, Prod.mk.injEq, Prod.mk.injEq] at h
    obtain ⟨rfl, rfl, rfl⟩ := h
    exact ⟨Or.inr rfl, hI, by simp, fun _ => Or.inr ⟨hfull, rfl, rfl⟩⟩
  have hreq := refill_request_pos st nd hfull
  have hcap' : (reserve st nd).cap ≤ max 16 (hd todo).bytes.length := by
    have := hI.cap; simp only [reserve]; omega
  have hlen' : st.buf.length ≤ (reserve st nd).cap := by
    have := hI.lenCap; simp only [reserve]; omega
  have hgrow' : (reserve st nd).cap ≤ max 16 (st.buf.length + maxGrowth) := by
    have := hI.grow; simp only [reserve]; omega
  have hbuf' : (reserve st nd).buf = st.buf := rfl
  have hfds' : (reserve st nd).fds = st.fds := rfl
  have hI1 : Inv p todo (reserve st nd) w :=
    ⟨hI.le, hI.buf, hI.fds, hI.rest, hcap', hlen', hgrow'⟩
  rw [refill_read hfull] at h
  cases hr : recvmsg w ((reserve st nd).cap - st.buf.length) k with
  | mk ans w1 =>
    rw [hr] at h
    cases ans with
    | eagain =>
      simp only [Prod.mk.injEq] at h
      obtain ⟨rfl, rfl, rfl⟩ := h
      have := recvmsg_eagain _ _ _ _ hr
      subst this
      exact ⟨Or.inl rfl, hI1, fun _ => ⟨rfl, rfl, rfl⟩, by simp⟩
    | data bs fds =>
      dsimp only at h
      obtain ⟨m, hm0, hmreq, hmrest, hbs, hfds, hw1⟩ := recvmsg_data _ _ _ _ _ _ hreq hr
      have hne : todo ≠ [] := by
        intro h0; subst h0
        have := hI.rest
        simp [hd, cells, cellsFrom, stream] at this
        rw [this] at hmrest; simp at hmrest; omega
      have hfo := hd_ok hok hne
      obtain ⟨h16, _, _, hfdl⟩ := hfo
      have hnm : st.buf.length + m ≤ (hd todo).bytes.length := by omega
      have hbsne : bs ≠ [] := recvmsg_data_ne_nil _ _ _ _ _ _ hreq hr
      have hie : bs.isEmpty = false := by
        cases bs with
        | nil => exact absurd rfl hbsne
        | cons _ _ => rfl
      rw [hie] at h
      simp only [Bool.false_eq_true, if_false, Prod.mk.injEq] at h
      obtain ⟨rfl, rfl, rfl⟩ := h
      -- what was read is a slice of the current frame
      have htake : w.rest.take m = ((cells p (hd todo)).drop st.buf.length).take m := by
        rw [hI.rest, List.take_append_of_le_length]
        rw [List.length_drop, cells_length]; omega
      have hbytes : bs = ((hd todo).bytes.drop st.buf.length).take m := by
        rw [hbs, htake, List.map_take, List.map_drop, cells_map_fst]
      have hlen : (st.buf ++ bs).length = st.buf.length + m := by
        rw [List.length_append, hbytes, List.length_take, List.length_drop]; omega
      have hnew : st.buf ++ bs = (hd todo).bytes.take (st.buf.length + m) := by
        rw [List.take_add, hbytes]; congr 1; exact hI.buf
      refine ⟨Or.inr rfl, ?_, by simp, fun _ => Or.inl ?_⟩
      · refine ⟨?_, ?_, ?_, ?_, hcap', ?_, ?_⟩
        · simp only [hlen]; exact hnm
        · simp only [hlen]; exact hnew
        · simp only [hlen]
          have hpos := hd_pos hok hne
          rw [hfds, htake, cells_fds_slice, hI.fds]
          by_cases ha : st.buf.length + m ≤ p (hd todo)
          · rw [if_pos ha, if_pos (by omega), if_neg (by omega)]; simp
          · rw [if_neg ha]
            by_cases hb : st.buf.length ≤ p (hd todo)
            · rw [if_pos hb, if_pos ⟨hb, by omega, hpos⟩]
              simp only [List.nil_append]
              exact List.take_of_length_le hfdl
            · rw [if_neg hb, if_neg (by intro hh; exact hb hh.1)]; simp
        · simp only [hlen]
          rw [hw1, hI.rest, List.drop_append_of_le_length, List.drop_drop]
          rw [List.length_drop, cells_length]; omega
        · simp only [hlen]; omega
        · simp only [hlen]; generalize maxGrowth = G at hgrow' ⊢; omega
      · simp only [hlen]; omega

theorem check_buf_eq {st st' : State} (h : st'.buf = st.buf) : check st' = check st := by
  unfold check; rw [h]

theorem check_reserve (st : State) (nd : Nat) : check (reserve st nd) = check st :=
  check_buf_eq rfl

theorem arrive_inv {todo : List Frame} {st : State} {w : World} (hI : Inv p todo st w) (n : Nat) :
    Inv p todo st (w.arrive n) :=
  ⟨hI.le, hI.buf, hI.fds, hI.rest, hI.cap, hI.lenCap, hI.grow⟩

/-- nothing happens during the call: EAGAIN - unless the buffer is already full for this request -/
theorem refill_k0 {st : State} {nd : Nat} (h : st.buf.length < nd) (w : World) :
    refill st w nd 0 = (.timedOut, reserve st nd, w) := by
  rw [refill_read (by omega)]
  simp [recvmsg]

/-- `check` asks for more only when the buffer is shorter than what it asks for (ANY state) -/
theorem check_need_lt {st : State} {nd : Nat} (h : check st = .need nd) : st.buf.length < nd := by
  unfold check at h
  by_cases h16 : st.buf.length < 16
  · rw [if_pos h16] at h
    simp only [Check.need.injEq] at h
    omega
  · rw [if_neg h16] at h
    cases hb : bytesNeeded st.buf with
    | bytes n =>
      rw [hb] at h
      dsimp only at h
      split at h
      · simp at h
      · simp only [Check.need.injEq] at h; omega
    | tooLong => rw [hb] at h; simp at h
    | invalid => rw [hb] at h; simp at h

theorem stream_hd_tail (l : List Frame) : stream p l = cells p (hd l) ++ stream p l.tail := by
  cases l with
  | nil => simp [stream, hd, cells, cellsFrom]
  | cons f fs => simp [stream, hd]

theorem decodeMessage_header (b : List UInt8) (h : (decodeMessage b).isSome = true) :
    (decodeHeader b).isSome = true := by
  unfold decodeMessage at h
  cases hh : decodeHeader b with
  | none => rw [hh] at h; simp at h
  | some _ => rfl

/-- the results a healthy connection produces -/
def Res.good : Res → Bool
  | .readOk | .skipped | .timedOut | .msg _ _ => true
  | _ => false

/-- the request bound computed from a buffer inside its frame stays inside the frame -/
theorem need_le (todo : List Frame) (st : State) :
    (if st.buf.length < 16 then 16 else (hd todo).bytes.length) ≤ max 16 (hd todo).bytes.length := by
  split <;> omega

theorem readWhole_inv {todo : List Frame} (hok : FramesOk p todo) :
    ∀ (evs : List Ev) (st : State) (w : World), Inv p todo st w →
    ∀ r st' w', readWhole st w evs = (r, st', w') →
      Inv p todo st' w' ∧ (r = .readOk → check st' = .whole) ∧ (r = .readOk ∨ r = .timedOut) ∧
      (r = .timedOut → check st' ≠ .whole) := by
  intro evs
  induction evs with
  | nil =>
    intro st w hI r st' w' h
    simp only [readWhole] at h
    have hc := check_of_inv hI hok
    by_cases hw : st.buf.length = (hd todo).bytes.length ∧ todo ≠ []
    · rw [if_pos hw] at hc
      rw [hc] at h
      simp only [Prod.mk.injEq] at h
      obtain ⟨rfl, rfl, rfl⟩ := h
      exact ⟨hI, fun _ => hc, Or.inl rfl, by simp⟩
    · rw [if_neg hw] at hc
      have hlt := check_need_lt hc
      rw [hc] at h
      simp only [refill_k0 hlt, Prod.mk.injEq] at h
      obtain ⟨rfl, rfl, rfl⟩ := h
      have := refill_inv hI hok (need_le todo st) (refill_k0 hlt w)
      exact ⟨this.2.1, by simp, Or.inr rfl, fun _ => by rw [check_reserve, hc]; simp⟩
  | cons e evs ih =>
    intro st w hI r st' w' h
    have hc := check_of_inv hI hok
    by_cases hw : st.buf.length = (hd todo).bytes.length ∧ todo ≠ []
    · rw [if_pos hw] at hc
      cases e <;>
      · simp only [readWhole, hc, Prod.mk.injEq] at h
        obtain ⟨rfl, rfl, rfl⟩ := h
        exact ⟨hI, fun _ => hc, Or.inl rfl, by simp⟩
    · rw [if_neg hw] at hc
      have hlt := check_need_lt hc
      cases e with
      | arrive a =>
        simp only [readWhole, hc] at h
        exact ih st (w.arrive a) (arrive_inv hI a) r st' w' h
      | wouldBlock =>
        simp only [readWhole, hc, refill_k0 hlt, Prod.mk.injEq] at h
        obtain ⟨rfl, rfl, rfl⟩ := h
        have := refill_inv hI hok (need_le todo st) (refill_k0 hlt w)
        exact ⟨this.2.1, by simp, Or.inr rfl, fun _ => by rw [check_reserve, hc]; simp⟩
      | deliver k =>
        simp only [readWhole, hc] at h
        cases hrf : refill st w (if st.buf.length < 16 then 16 else (hd todo).bytes.length) k with
        | mk r1 p =>
          cases p with
          | mk st1 w1 =>
            rw [hrf] at h
            obtain ⟨hcls, hinv, hto, _⟩ := refill_inv hI hok (need_le todo st) hrf
            rcases hcls with rfl | rfl
            · simp only [Prod.mk.injEq] at h
              obtain ⟨rfl, rfl, rfl⟩ := h
              refine ⟨hinv, by simp, Or.inr rfl, fun _ => ?_⟩
              rw [check_buf_eq (hto rfl).1, hc]; simp
            · simp only at h
              exact ih st1 w1 hinv r st' w' h

theorem getNext_inv {todo : List Frame} {st st' : State} {w w' : World} {evs : List Ev} {r : Res}
    (hI : Inv p todo st w) (hok : FramesOk p todo) (h : getNext st w evs = (r, st', w')) :
    ∃ todo', Inv p todo' st' w' ∧ FramesOk p todo' ∧ todo = msgs [r] ++ todo' ∧ r.good = true := by
  simp only [getNext] at h
  cases hrw : readWhole st w evs with
  | mk r1 p =>
    cases p with
    | mk st1 w1 =>
      rw [hrw] at h
      obtain ⟨hI1, hwh, hcls, _⟩ := readWhole_inv hok evs st w hI r1 st1 w1 hrw
      rcases hcls with rfl | rfl
      · simp only at h
        have hc := check_of_inv hI1 hok
        rw [hwh rfl] at hc
        by_cases hw : st1.buf.length = (hd todo).bytes.length ∧ todo ≠ []
        · obtain ⟨hlen, hne⟩ := hw
          cases todo with
          | nil => exact absurd rfl hne
          | cons cur more =>
            have hcur : hd (cur :: more) = cur := rfl
            rw [hcur] at hlen
            obtain ⟨⟨h16, _, hdec, _⟩, hpc⟩ := hok cur (by simp)
            have hbuf : st1.buf = cur.bytes := by
              have := hI1.buf
              rw [hcur, hlen, List.take_length] at this
              exact this
            have hfds : st1.fds = cur.fds := by
              have := hI1.fds
              rw [hcur, if_neg (by omega)] at this
              exact this
            rw [hbuf] at h
            have hdh := decodeMessage_header _ hdec
            cases hh : decodeHeader cur.bytes with
            | none => rw [hh] at hdh; simp at hdh
            | some x =>
              cases hm : decodeMessage cur.bytes with
              | none => rw [hm] at hdec; simp at hdec
              | some y =>
                rw [hh, hm] at h
                simp only [Prod.mk.injEq] at h
                obtain ⟨rfl, rfl, rfl⟩ := h
                refine ⟨more, ?_, fun f hf => hok f (by simp [hf]), ?_, rfl⟩
                · refine ⟨by simp [State.empty], by simp [State.empty], by simp [State.empty], ?_,
                    by simp [State.empty], by simp [State.empty], by simp [State.empty]⟩
                  have := hI1.rest
                  rw [hcur, hlen, List.drop_of_length_le (by rw [cells_length]; omega)] at this
                  simp only [List.nil_append, List.tail_cons] at this
                  rw [this]
                  simp only [State.empty, List.length_nil, List.drop_zero]
                  exact stream_hd_tail more
                · rw [hfds]; simp [msgs]
        · rw [if_neg hw] at hc; simp at hc
      · simp only [Prod.mk.injEq] at h
        obtain ⟨rfl, rfl, rfl⟩ := h
        exact ⟨todo, hI1, hok, by simp [msgs], rfl⟩

/-- what the peer makes arrive during one `recvmsg` of `read_once` before the kernel answers -/
def arrivals : List Ev → Nat
  | [] => 0
  | .arrive n :: evs => n + arrivals evs
  | .wouldBlock :: _ => 0
  | .deliver _ :: _ => 0

theorem arrive_arrive (w : World) (a b : Nat) : (w.arrive a).arrive b = w.arrive (a + b) := by
  simp only [World.arrive, Nat.add_assoc]

theorem arrive_zero (w : World) : w.arrive 0 = w := by
  simp only [World.arrive, Nat.add_zero]

/-- `refill_buffer` on a buffer that is already full for the request: whatever happens meanwhile, nothing
    is read and nothing changes (ANY state, ANY stream) -/
theorem recvWith_full {nd : Nat} : ∀ (evs : List Ev) (st : State) (w : World), nd ≤ st.buf.length →
    recvWith st w nd evs = (.readOk, st, w.arrive (arrivals evs)) := by
  intro evs
  induction evs with
  | nil => intro st w h; simp only [recvWith, refill_full h, arrivals, arrive_zero]
  | cons e evs ih =>
    intro st w h
    cases e with
    | arrive a => simp only [recvWith, arrivals]; rw [ih st _ h, arrive_arrive]
    | wouldBlock => simp only [recvWith, refill_full h, arrivals, arrive_zero]
    | deliver k => simp only [recvWith, refill_full h, arrivals, arrive_zero]

theorem recvWith_ne_closed {nd : Nat} : ∀ (evs : List Ev) (st : State) (w : World),
    (recvWith st w nd evs).1 ≠ .closed := by
  intro evs
  induction evs with
  | nil => intro st w; simp only [recvWith]; exact refill_ne_closed _ _ _ _
  | cons e evs ih =>
    intro st w
    cases e with
    | arrive a => simp only [recvWith]; exact ih st _
    | wouldBlock => simp only [recvWith]; exact refill_ne_closed _ _ _ _
    | deliver k => simp only [recvWith]; exact refill_ne_closed _ _ _ _

theorem recvWith_inv {todo : List Frame} (hok : FramesOk p todo) {nd : Nat}
    (hnd : nd ≤ max 16 (hd todo).bytes.length) :
    ∀ (evs : List Ev) (st : State) (w : World), Inv p todo st w →
    ∀ r st' w', recvWith st w nd evs = (r, st', w') →
      (r = .timedOut ∨ r = .readOk) ∧ Inv p todo st' w' := by
  intro evs
  induction evs with
  | nil =>
    intro st w hI r st' w' h
    simp only [recvWith] at h
    obtain ⟨h1, h2, _, _⟩ := refill_inv hI hok hnd h
    exact ⟨h1, h2⟩
  | cons e evs ih =>
    intro st w hI r st' w' h
    cases e with
    | arrive a =>
      simp only [recvWith] at h
      exact ih st (w.arrive a) (arrive_inv hI a) r st' w' h
    | wouldBlock =>
      simp only [recvWith] at h
      obtain ⟨h1, h2, _, _⟩ := refill_inv hI hok hnd h
      exact ⟨h1, h2⟩
    | deliver k =>
      simp only [recvWith] at h
      obtain ⟨h1, h2, _, _⟩ := refill_inv hI hok hnd h
      exact ⟨h1, h2⟩

theorem readOnce_inv {todo : List Frame} {st st' : State} {w w' : World} {evs : List Ev} {r : Res}
    (hI : Inv p todo st w) (hok : FramesOk p todo) (h : readOnce st w evs = (r, st', w')) :
    (r = .timedOut ∨ r = .readOk) ∧ Inv p todo st' w' := by
  simp only [readOnce, needed_of_inv hI hok] at h
  exact recvWith_inv hok (need_le todo st) evs st w hI r st' w' h

/-- every call keeps the invariant and produces a good result: no call can fail - in particular none can
    report `ConnectionClosed` - on a stream of well-formed frames -/
theorem step_inv {todo : List Frame} {st st' : State} {w w' : World} {c : Call} {evs : List Ev} {r : Res}
    (hI : Inv p todo st w) (hok : FramesOk p todo) (h : step c st w evs = (r, st', w')) :
    ∃ todo', Inv p todo' st' w' ∧ FramesOk p todo' ∧ todo = msgs [r] ++ todo' ∧ r.good = true := by
  cases c with
  | getNext => exact getNext_inv hI hok h
  | readOnce =>
    obtain ⟨h1, h2⟩ := readOnce_inv hI hok h
    refine ⟨todo, h2, hok, ?_, ?_⟩
    · rcases h1 with rfl | rfl <;> simp [msgs]
    · rcases h1 with rfl | rfl <;> rfl
  | readMore =>
    simp only [step, readMore] at h
    cases hc : check st with
    | whole =>
      rw [hc] at h
      simp only [Prod.mk.injEq] at h
      obtain ⟨rfl, rfl, rfl⟩ := h
      exact ⟨todo, hI, hok, by simp [msgs], rfl⟩
    | err e =>
      have := check_of_inv hI hok
      rw [hc] at this
      split at this <;> simp at this
    | need n =>
      rw [hc] at h
      simp only at h
      obtain ⟨h1, h2⟩ := readOnce_inv hI hok h
      refine ⟨todo, h2, hok, ?_, ?_⟩
      · rcases h1 with rfl | rfl <;> simp [msgs]
      · rcases h1 with rfl | rfl <;> rfl

/-! ### `ConnectionClosed` is never reported (ANY state, ANY stream - also malformed ones) -/

theorem check_err {st : State} {e : Res} (h : check st = .err e) : e = .tooLong ∨ e = .invalid := by
  unfold check at h
  split at h
  · simp at h
  · split at h
    · split at h <;> simp at h
    · simp only [Check.err.injEq] at h; exact Or.inl h.symm
    · simp only [Check.err.injEq] at h; exact Or.inr h.symm

theorem readWhole_ne_closed : ∀ (evs : List Ev) (st : State) (w : World),
    (readWhole st w evs).1 ≠ .closed := by
  intro evs
  induction evs with
  | nil =>
    intro st w
    simp only [readWhole]
    cases hc : check st with
    | whole => simp
    | err e => rcases check_err hc with rfl | rfl <;> simp
    | need n => exact refill_ne_closed _ _ _ _
  | cons e evs ih =>
    intro st w
    cases hc : check st with
    | whole => cases e <;> simp [readWhole, hc]
    | err x => rcases check_err hc with rfl | rfl <;> cases e <;> simp [readWhole, hc]
    | need n =>
      cases e with
      | arrive a => simp only [readWhole, hc]; exact ih st _
      | wouldBlock => simp only [readWhole, hc]; exact refill_ne_closed _ _ _ _
      | deliver k =>
        simp only [readWhole, hc]
        have hrf := refill_ne_closed st w n k
        cases hx : refill st w n k with
        | mk r1 p =>
          cases p with
          | mk st1 w1 =>
            rw [hx] at hrf
            cases r1 with
            | readOk => exact ih st1 w1
            | closed => exact absurd rfl hrf
            | _ => simp

theorem step_ne_closed (c : Call) (st : State) (w : World) (evs : List Ev) :
    (step c st w evs).1 ≠ .closed := by
  cases c with
  | readOnce =>
    simp only [step, readOnce]
    cases hb : bytesNeeded st.buf with
    | bytes n => exact recvWith_ne_closed evs st w
    | tooLong => simp
    | invalid => simp
  | readMore =>
    simp only [step, readMore]
    cases hc : check st with
    | whole => simp
    | err e => rcases check_err hc with rfl | rfl <;> simp
    | need n =>
      simp only [readOnce]
      cases hb : bytesNeeded st.buf with
      | bytes n => exact recvWith_ne_closed evs st w
      | tooLong => simp
      | invalid => simp
  | getNext =>
    simp only [step, getNext]
    have hrw := readWhole_ne_closed evs st w
    cases hx : readWhole st w evs with
    | mk r1 p =>
      cases p with
      | mk st1 w1 =>
        rw [hx] at hrw
        cases r1 with
        | closed => exact absurd rfl hrw
        | readOk =>
          dsimp only
          cases decodeHeader st1.buf with
          | none => simp
          | some _ =>
            dsimp only
            cases decodeMessage st1.buf with
            | none => simp
            | some _ => simp
        | _ => simp
end Rustbus.Recv
