import RustbusModel.Spec.Auth
/-
Lemmas for C17 part A (address parser) and part B (`get_uid_as_hex`).
-/
namespace Rustbus.Auth

/-! ### splitOnce -/

theorem splitOnce_none_iff (c : Char) (s : List Char) : splitOnce c s = none ↔ c ∉ s := by
  induction s with
  | nil => simp [splitOnce]
  | cons x xs ih =>
    simp only [splitOnce]
    by_cases h : x = c
    · simp [h]
    · simp only [h, if_false]
      cases hs : splitOnce c xs with
      | none =>
        have := ih.mp hs
        simp [this, Ne.symm h]
      | some p =>
        have : ¬ c ∉ xs := fun hn => by rw [ih.mpr hn] at hs; cases hs
        simp only [reduceCtorEq, List.mem_cons, not_or, false_iff, not_and]
        intro _; exact this

theorem splitOnce_some_iff (c : Char) (s a b : List Char) :
    splitOnce c s = some (a, b) ↔ s = a ++ c :: b ∧ c ∉ a := by
  induction s generalizing a with
  | nil => simp [splitOnce]
  | cons x xs ih =>
    simp only [splitOnce]
    by_cases h : x = c
    · subst h
      simp only [if_true, Option.some.injEq, Prod.mk.injEq]
      constructor
      · rintro ⟨rfl, rfl⟩; simp
      · rintro ⟨h1, h2⟩
        cases a with
        | nil => simp at h1; exact ⟨rfl, h1⟩
        | cons y ys =>
          simp only [List.cons_append, List.cons.injEq] at h1
          exact absurd (by simp [h1.1]) h2
    · simp only [h, if_false]
      cases hs : splitOnce c xs with
      | none =>
        simp only [reduceCtorEq, false_iff, not_and]
        intro h1 h2
        have hmem : c ∈ xs := by
          cases a with
          | nil => simp at h1; exact absurd h1.1 h
          | cons y ys =>
            simp only [List.cons_append, List.cons.injEq] at h1
            rw [h1.2]; simp
        exact ((splitOnce_none_iff c xs).mp hs) hmem
      | some p =>
        obtain ⟨a', b'⟩ := p
        have ih' := (ih a').mp
        simp only [Option.some.injEq, Prod.mk.injEq]
        constructor
        · rintro ⟨rfl, rfl⟩
          have := (ih a').mp (by rw [hs])
          refine ⟨by rw [this.1]; simp, ?_⟩
          simp only [List.mem_cons, not_or]
          exact ⟨Ne.symm h, this.2⟩
        · rintro ⟨h1, h2⟩
          cases a with
          | nil => simp at h1; exact absurd h1.1 h
          | cons y ys =>
            simp only [List.cons_append, List.cons.injEq] at h1
            simp only [List.mem_cons, not_or] at h2
            have := (ih ys).mpr ⟨h1.2, h2.2⟩
            rw [hs] at this
            simp only [Option.some.injEq, Prod.mk.injEq] at this
            exact ⟨by rw [h1.1, this.1], this.2⟩

theorem splitOnce_append (c : Char) (a b : List Char) (h : c ∉ a) :
    splitOnce c (a ++ c :: b) = some (a, b) :=
  (splitOnce_some_iff c _ a b).mpr ⟨rfl, h⟩

/-! ### splitAll / pieces / joinWith -/

theorem pieces_nil (c : Char) : pieces c [] = [[]] := rfl

theorem pieces_cons_sep (c : Char) (xs : List Char) : pieces c (c :: xs) = [] :: pieces c xs := by
  simp [pieces, splitAll]

theorem pieces_cons_other (c x : Char) (xs : List Char) (h : x ≠ c) :
    pieces c (x :: xs) = (x :: (splitAll c xs).1) :: (splitAll c xs).2 := by
  simp [pieces, splitAll, h]

theorem pieces_of_not_mem (c : Char) (a : List Char) (h : c ∉ a) : pieces c a = [a] := by
  induction a with
  | nil => rfl
  | cons x xs ih =>
    simp only [List.mem_cons, not_or] at h
    rw [pieces_cons_other c x xs (Ne.symm h.1)]
    have := ih h.2
    simp only [pieces, List.cons.injEq] at this
    simp [this.1, this.2]

theorem pieces_append (c : Char) (a b : List Char) (h : c ∉ a) :
    pieces c (a ++ c :: b) = a :: pieces c b := by
  induction a with
  | nil => simpa using pieces_cons_sep c b
  | cons x xs ih =>
    simp only [List.mem_cons, not_or] at h
    rw [List.cons_append, pieces_cons_other c x _ (Ne.symm h.1)]
    have := ih h.2
    simp only [pieces, List.cons.injEq] at this
    simp [this.1, this.2, pieces]

theorem joinWith_cons_cons (c x : Char) (h : List Char) (t : List (List Char)) :
    joinWith c ((x :: h) :: t) = x :: joinWith c (h :: t) := by
  cases t <;> simp [joinWith]

theorem joinWith_pieces (c : Char) (s : List Char) : joinWith c (pieces c s) = s := by
  induction s with
  | nil => rfl
  | cons x xs ih =>
    by_cases h : x = c
    · subst h
      rw [pieces_cons_sep]
      simp only [pieces] at ih ⊢
      simp [joinWith, ih]
    · rw [pieces_cons_other c x xs h, joinWith_cons_cons]
      simp only [pieces] at ih
      rw [ih]

theorem pieces_no_sep (c : Char) (s : List Char) : ∀ p ∈ pieces c s, c ∉ p := by
  induction s with
  | nil => simp [pieces, splitAll]
  | cons x xs ih =>
    by_cases h : x = c
    · subst h
      rw [pieces_cons_sep]
      intro p hp
      simp only [List.mem_cons] at hp
      rcases hp with rfl | hp
      · simp
      · exact ih p hp
    · rw [pieces_cons_other c x xs h]
      intro p hp
      simp only [pieces, List.mem_cons] at ih hp
      rcases hp with rfl | hp
      · simp only [List.mem_cons, not_or]
        exact ⟨Ne.symm h, ih _ (Or.inl rfl)⟩
      · exact ih p (Or.inr hp)

theorem pieces_joinWith (c : Char) (ps : List (List Char)) (hne : ps ≠ [])
    (h : ∀ p ∈ ps, c ∉ p) : pieces c (joinWith c ps) = ps := by
  induction ps with
  | nil => exact absurd rfl hne
  | cons p qs ih =>
    cases qs with
    | nil => simpa [joinWith] using pieces_of_not_mem c p (h p (by simp))
    | cons q r =>
      simp only [joinWith]
      rw [pieces_append c p _ (h p (by simp)), ih (by simp) (fun x hx => h x (by simp [hx]))]

/-! ### the loop -/

theorem scanPairs_append_some (ex : List Char → Bool) (pre : List (List Char)) (q : List Char)
    (post : List (List Char)) (r : AddrResult) (hpre : ∀ p ∈ pre, pairStep ex p = none)
    (hq : pairStep ex q = some r) : scanPairs ex (pre ++ q :: post) = r := by
  induction pre with
  | nil => simp [scanPairs, hq]
  | cons p ps ih =>
    simp only [List.cons_append, scanPairs, hpre p (by simp)]
    exact ih (fun x hx => hpre x (by simp [hx]))

theorem scanPairs_all_none (ex : List Char → Bool) (ps : List (List Char))
    (h : ∀ p ∈ ps, pairStep ex p = none) : scanPairs ex ps = .errNotSupported := by
  induction ps with
  | nil => rfl
  | cons p ps ih =>
    simp only [scanPairs, h p (by simp)]
    exact ih (fun x hx => h x (by simp [hx]))

theorem scanPairs_cases (ex : List Char → Bool) (ps : List (List Char)) :
    (∃ pre q post r, ps = pre ++ q :: post ∧ (∀ p ∈ pre, pairStep ex p = none) ∧
      pairStep ex q = some r ∧ scanPairs ex ps = r) ∨
    ((∀ p ∈ ps, pairStep ex p = none) ∧ scanPairs ex ps = .errNotSupported) := by
  induction ps with
  | nil => right; simp [scanPairs]
  | cons p ps ih =>
    cases hp : pairStep ex p with
    | some r =>
      left
      exact ⟨[], p, ps, r, rfl, by simp, hp, by simp [scanPairs, hp]⟩
    | none =>
      rcases ih with ⟨pre, q, post, r, h1, h2, h3, h4⟩ | ⟨h1, h2⟩
      · left
        refine ⟨p :: pre, q, post, r, by simp [h1], ?_, h3, by simp [scanPairs, hp, h4]⟩
        intro x hx
        simp only [List.mem_cons] at hx
        rcases hx with rfl | hx
        · exact hp
        · exact h2 x hx
      · right
        refine ⟨?_, by simp [scanPairs, hp, h2]⟩
        intro x hx
        simp only [List.mem_cons] at hx
        rcases hx with rfl | hx
        · exact hp
        · exact h1 x hx

theorem eq_not_mem_kPath : '=' ∉ kPath := by decide
theorem eq_not_mem_kAbstract : '=' ∉ kAbstract := by decide
theorem colon_not_mem_kUnix : ':' ∉ kUnix := by decide
theorem kPath_ne_kAbstract : kPath ≠ kAbstract := by decide

theorem pairStep_none_iff (ex : List Char → Bool) (q : List Char) :
    pairStep ex q = none ↔ Skipped q := by
  unfold pairStep Skipped
  cases hs : splitOnce '=' q with
  | none =>
    simp only [reduceCtorEq, false_iff, not_exists, not_and]
    intro k v hq _
    have := (splitOnce_none_iff '=' q).mp hs
    rw [hq] at this
    simp at this
  | some kv =>
    obtain ⟨k, v⟩ := kv
    have hkv := (splitOnce_some_iff '=' q k v).mp hs
    simp only
    constructor
    · intro h
      refine ⟨k, v, hkv.1, hkv.2, ?_, ?_⟩
      · intro hk
        subst hk
        simp only [if_true] at h
        cases he : ex v <;> cases ho : unixAddrNewOk v <;> simp [he, ho] at h
      · intro hk
        subst hk
        simp only [Ne.symm kPath_ne_kAbstract, if_false, if_true] at h
        cases ho : unixAddrAbstractOk v <;> simp [ho] at h
    · rintro ⟨k', v', hq, hk', h1, h2⟩
      have := (splitOnce_some_iff '=' q k' v').mpr ⟨hq, hk'⟩
      rw [hs] at this
      simp only [Option.some.injEq, Prod.mk.injEq] at this
      obtain ⟨rfl, rfl⟩ := this
      simp [h1, h2]

theorem pairStep_some_iff (ex : List Char → Bool) (q : List Char) (r : AddrResult) :
    pairStep ex q = some r ↔ Decides ex q r := by
  constructor
  · intro h
    unfold pairStep at h
    cases hs : splitOnce '=' q with
    | none =>
      simp only [hs, Option.some.injEq] at h
      subst h
      exact .noEq q ((splitOnce_none_iff '=' q).mp hs)
    | some kv =>
      obtain ⟨k, v⟩ := kv
      have hkv := (splitOnce_some_iff '=' q k v).mp hs
      simp only [hs] at h
      by_cases hk1 : k = kPath
      · subst hk1
        simp only [if_true] at h
        rw [hkv.1]
        cases he : ex v with
        | true =>
          simp only [he, if_true] at h
          cases ho : unixAddrNewOk v with
          | true => simp only [ho, if_true, Option.some.injEq] at h; subst h; exact .path v he ho
          | false =>
            simp only [ho, Bool.false_eq_true, if_false, Option.some.injEq] at h; subst h
            exact .pathIo v he ho
        | false =>
          simp only [he, Bool.false_eq_true, if_false, Option.some.injEq] at h; subst h
          exact .pathMissing v he
      · simp only [hk1, if_false] at h
        by_cases hk2 : k = kAbstract
        · subst hk2
          simp only [if_true] at h
          rw [hkv.1]
          cases ho : unixAddrAbstractOk v with
          | true => simp only [ho, if_true, Option.some.injEq] at h; subst h; exact .abstract v ho
          | false =>
            simp only [ho, Bool.false_eq_true, if_false, Option.some.injEq] at h; subst h
            exact .abstractIo v ho
        · simp [hk2] at h
  · intro h
    cases h with
    | path p he ho =>
      simp [pairStep, splitOnce_append '=' kPath p eq_not_mem_kPath, he, ho]
    | pathMissing p he =>
      simp [pairStep, splitOnce_append '=' kPath p eq_not_mem_kPath, he]
    | pathIo p he ho =>
      simp [pairStep, splitOnce_append '=' kPath p eq_not_mem_kPath, he, ho]
    | abstract a ho =>
      simp [pairStep, splitOnce_append '=' kAbstract a eq_not_mem_kAbstract, ho,
        Ne.symm kPath_ne_kAbstract]
    | abstractIo a ho =>
      simp [pairStep, splitOnce_append '=' kAbstract a eq_not_mem_kAbstract, ho,
        Ne.symm kPath_ne_kAbstract]
    | noEq q hq =>
      simp [pairStep, (splitOnce_none_iff '=' q).mpr hq]

theorem parseAddr_unix (ex : List Char → Bool) (rest : List Char) :
    parseAddr ex (kUnix ++ ':' :: rest) = scanPairs ex (pieces ',' rest) := by
  simp [parseAddr, splitOnce_append ':' kUnix rest colon_not_mem_kUnix]

/-- the model computes exactly the declarative resolution relation -/
theorem parseAddr_iff_resolves (ex : List Char → Bool) (s : List Char) (r : AddrResult) :
    parseAddr ex s = r ↔ Resolves ex s r := by
  constructor
  · intro h
    cases hs : splitOnce ':' s with
    | none =>
      simp only [parseAddr, hs] at h
      subst h
      exact .noColon s ((splitOnce_none_iff ':' s).mp hs)
    | some p =>
      obtain ⟨sys, rest⟩ := p
      have hsr := (splitOnce_some_iff ':' s sys rest).mp hs
      by_cases hu : sys = kUnix
      · subst hu
        rw [hsr.1, parseAddr_unix] at h
        rw [hsr.1]
        have hj := joinWith_pieces ',' rest
        have hn := pieces_no_sep ',' rest
        rcases scanPairs_cases ex (pieces ',' rest) with ⟨pre, q, post, r', h1, h2, h3, h4⟩ | ⟨h1, h2⟩
        · rw [h4] at h; subst h
          rw [← hj, h1]
          refine .decided pre q post r' ?_ (by rw [← h1]; exact hn) ((pairStep_some_iff ex q r').mp h3)
          intro x hx
          exact (pairStep_none_iff ex x).mp (h2 x hx)
        · rw [h2] at h; subst h
          rw [← hj]
          refine .nothing _ (by simp [pieces]) ?_
          intro x hx
          exact ⟨(pairStep_none_iff ex x).mp (h1 x hx), hn x hx⟩
      · simp only [parseAddr, hs, hu, if_false] at h
        subst h
        rw [hsr.1]
        exact .otherSystem sys rest hsr.2 hu
  · intro h
    cases h with
    | noColon s hs => simp [parseAddr, (splitOnce_none_iff ':' s).mpr hs]
    | otherSystem sys rest h1 h2 => simp [parseAddr, splitOnce_append ':' sys rest h1, h2]
    | decided pre q post r h1 h2 h3 =>
      rw [parseAddr_unix, pieces_joinWith ',' _ (by simp) h2]
      exact scanPairs_append_some ex pre q post r
        (fun x hx => (pairStep_none_iff ex x).mpr (h1 x hx)) ((pairStep_some_iff ex q r).mpr h3)
    | nothing ps h1 h2 =>
      rw [parseAddr_unix, pieces_joinWith ',' _ h1 (fun x hx => (h2 x hx).2)]
      exact scanPairs_all_none ex ps (fun x hx => (pairStep_none_iff ex x).mpr (h2 x hx).1)

/-! ### B. uid -/

theorem digitsRevAux_fuel (f n : Nat) (h : n ≤ f) :
    digitsRevAux f n = if n = 0 then [] else (n % 10) :: digitsRevAux (n / 10) (n / 10) := by
  induction f using Nat.strongRecOn generalizing n with
  | _ f ih =>
    cases f with
    | zero =>
      have : n = 0 := by omega
      simp [digitsRevAux, this]
    | succ f =>
      simp only [digitsRevAux]
      by_cases hn : n = 0
      · simp [hn]
      · simp only [hn, if_false, List.cons.injEq, true_and]
        have h1 : n / 10 ≤ f := by omega
        rw [ih f (by omega) (n / 10) h1]
        by_cases hz : n / 10 = 0
        · simp [hz, digitsRevAux]
        · have h2 : n / 10 < f + 1 := by omega
          rw [ih (n / 10) h2 (n / 10) (Nat.le_refl _)]

theorem digitsRev_eq (n : Nat) :
    digitsRev n = if n = 0 then [] else (n % 10) :: digitsRev (n / 10) := by
  unfold digitsRev
  exact digitsRevAux_fuel n n (Nat.le_refl n)

theorem hexOfDigit_lt (d : Nat) (h : d < 10) : hexOfDigit d = some ['3', Nat.digitChar d] := by
  have : d = 0 ∨ d = 1 ∨ d = 2 ∨ d = 3 ∨ d = 4 ∨ d = 5 ∨ d = 6 ∨ d = 7 ∨ d = 8 ∨ d = 9 := by omega
  rcases this with rfl | rfl | rfl | rfl | rfl | rfl | rfl | rfl | rfl | rfl <;> rfl

theorem pushDigits_append (a b : List Nat) (x y : List Char) (ha : pushDigits a = some x)
    (hb : pushDigits b = some y) : pushDigits (a ++ b) = some (x ++ y) := by
  induction a generalizing x with
  | nil => simp only [pushDigits, Option.some.injEq] at ha; subst ha; simpa using hb
  | cons d ds ih =>
    simp only [pushDigits] at ha
    cases hd : hexOfDigit d with
    | none => simp [hd] at ha
    | some h =>
      cases hr : pushDigits ds with
      | none => simp [hd, hr] at ha
      | some r =>
        simp only [hd, hr, Option.some.injEq] at ha
        subst ha
        simp [pushDigits, hd, ih r hr]

/-- most significant digit first, each decimal digit `d` as '3' followed by `d` -/
theorem pushDigits_digitsRev (n : Nat) (h : 0 < n) :
    pushDigits (digitsRev n).reverse = some ((Nat.toDigits 10 n).flatMap (fun c => ['3', c])) := by
  induction n using Nat.strongRecOn with
  | _ n ih =>
    rw [digitsRev_eq n]
    have hn : n ≠ 0 := by omega
    simp only [hn, if_false, List.reverse_cons]
    rw [Nat.toDigits_eq_if (by omega : 1 < 10)]
    by_cases hlt : n < 10
    · have hz : n / 10 = 0 := by omega
      rw [digitsRev_eq (n / 10)]
      simp only [hz, if_true, List.reverse_nil, List.nil_append, hlt]
      have hm : n % 10 = n := by omega
      simp [pushDigits, hm, hexOfDigit_lt n hlt]
    · simp only [hlt, if_false, List.flatMap_append]
      have h1 := ih (n / 10) (by omega) (by omega)
      have h2 : pushDigits [n % 10] = some ['3', Nat.digitChar (n % 10)] := by
        simp [pushDigits, hexOfDigit_lt (n % 10) (by omega)]
      rw [pushDigits_append _ _ _ _ h1 h2]
      simp

/-! ### hex encoding of the decimal digits -/

theorem digit_cases (c : Char) (h : c.isDigit = true) :
    c = '0' ∨ c = '1' ∨ c = '2' ∨ c = '3' ∨ c = '4' ∨ c = '5' ∨ c = '6' ∨ c = '7' ∨ c = '8' ∨
      c = '9' := by
  have h1 : 48 ≤ c.toNat ∧ c.toNat ≤ 57 := by
    simp only [Char.isDigit, Bool.and_eq_true, decide_eq_true_eq] at h
    exact ⟨UInt32.le_iff_toNat_le.mp h.1, UInt32.le_iff_toNat_le.mp h.2⟩
  have h2 : c = Char.ofNat c.toNat := (Char.ofNat_toNat c).symm
  have h3 : c.toNat = 48 ∨ c.toNat = 49 ∨ c.toNat = 50 ∨ c.toNat = 51 ∨ c.toNat = 52 ∨ c.toNat = 53 ∨
      c.toNat = 54 ∨ c.toNat = 55 ∨ c.toNat = 56 ∨ c.toNat = 57 := by omega
  rcases h3 with e | e | e | e | e | e | e | e | e | e <;> rw [e] at h2 <;> simp [h2]

theorem hexEncode_digits (ds : List Char) (h : ∀ c ∈ ds, c.isDigit = true) :
    hexEncode (asciiBytes ds) = ds.flatMap (fun c => ['3', c]) := by
  induction ds with
  | nil => rfl
  | cons c cs ih =>
    have hc := digit_cases c (h c (by simp))
    have ih' := ih (fun x hx => h x (by simp [hx]))
    simp only [asciiBytes, hexEncode, List.map_cons, List.flatMap_cons] at ih' ⊢
    rw [ih']
    rcases hc with rfl | rfl | rfl | rfl | rfl | rfl | rfl | rfl | rfl | rfl <;> rfl

theorem hexDecode_digits (ds : List Char) (h : ∀ c ∈ ds, c.isDigit = true) :
    hexDecode (ds.flatMap (fun c => ['3', c])) = some (asciiBytes ds) := by
  induction ds with
  | nil => rfl
  | cons c cs ih =>
    have hc := digit_cases c (h c (by simp))
    have ih' := ih (fun x hx => h x (by simp [hx]))
    simp only [List.flatMap_cons, List.cons_append, List.nil_append, hexDecode, ih', asciiBytes,
      List.map_cons]
    rcases hc with rfl | rfl | rfl | rfl | rfl | rfl | rfl | rfl | rfl | rfl <;> rfl

theorem toDigits_isDigit (n : Nat) : ∀ c ∈ Nat.toDigits 10 n, c.isDigit = true :=
  fun _ hc => Nat.isDigit_of_mem_toDigits (by omega) (by omega) hc

end Rustbus.Auth
