import RustbusModel.Lemmas.FdTable
/-!
C11: every operation of the model preserves the invariant `Inv`.
-/
namespace Rustbus.FdTable

theorem InvP.perm {p p' : List Nat} {s : State} (h : InvP p s) (hc : ∀ c, p'.count c = p.count c) :
    InvP p' s :=
  h.frame rfl rfl rfl rfl rfl rfl rfl rfl (fun c => by rw [hc])

theorem count_singleton (a c : Nat) : [a].count c = if a = c then 1 else 0 := by
  by_cases e : a = c <;> simp [List.count_cons, e]

theorem if_some_eq (a c : Nat) : (if some a = some c then 1 else 0 : Nat) = if a = c then 1 else 0 := by
  by_cases e : a = c <;> simp [e]

/-- the operation hands a reference it holds to the caller as a new handle -/
theorem InvP.toHandle {p : List Nat} {s : State} {c : Nat} (h : InvP (c :: p) s) :
    InvP p { s with handles := s.handles ++ [some c] } := by
  refine h.frame rfl rfl rfl rfl rfl rfl rfl rfl ?_
  intro c'
  simp only [refCount, hcount_append, if_some_eq, List.count_cons]
  by_cases e : c = c' <;> simp [e] <;> omega

/-- the caller's handle `hd` is consumed by the operation -/
theorem InvP.fromHandle {p : List Nat} {s : State} {hd c : Nat} (h : InvP p s)
    (hh : s.handles[hd]? = some (some c)) :
    InvP (c :: p) { s with handles := s.handles.set hd none } := by
  refine h.frame rfl rfl rfl rfl rfl rfl rfl rfl ?_
  intro c'
  have := hcount_set (o' := none) c' hh
  simp only [refCount, List.count_cons]
  simp only [if_some_eq] at this
  by_cases e : c = c' <;> simp [e] at this ⊢ <;> omega

theorem inv_userOpen {s : State} (h : Inv s) (f : Nat) : Inv (userOpen s f).1 :=
  InvP.openByUser h f rfl rfl rfl rfl rfl rfl rfl rfl rfl rfl

theorem inv_userClose {s : State} (h : Inv s) (r : Nat) : Inv (userClose s r).1 := by
  unfold userClose
  split
  · split
    · next d _ hd => exact InvP.closeByUser h hd rfl rfl rfl rfl rfl rfl rfl rfl rfl rfl
    · exact h
  · exact h

theorem inv_wrap {s : State} (h : Inv s) (r : Nat) : Inv (wrap s r).1 := by
  unfold wrap
  split
  · split
    · next d _ hd =>
      simp only [newCell]
      have h1 := InvP.wrapByUser (s' := { s with cells := s.cells ++ [⟨d, false, 1⟩], user := s.user.filter (· != d), takenFds := s.takenFds.filter (· != d) }) h hd rfl rfl rfl rfl rfl rfl rfl rfl rfl rfl
      exact h1.toHandle
    · exact h
  · exact h

theorem inv_newBody {s : State} (h : Inv s) : Inv (newBody s).1 := by
  refine h.frame rfl rfl rfl rfl rfl rfl rfl rfl ?_
  intro c
  simp [newBody, refCount, bcount_append]

/-- the operation puts references it holds into a new body -/
theorem InvP.toNewBody {p : List Nat} {s : State} (l : List Nat) (h : InvP (l ++ p) s) (ix : List Nat) (lv : Bool) :
    InvP p { s with bodies := s.bodies ++ [⟨l, ix, lv⟩] } := by
  refine h.frame rfl rfl rfl rfl rfl rfl rfl rfl ?_
  intro c
  simp only [refCount, bcount_append, List.count_append]
  omega

/-- the descriptor list of body `b` is replaced; what is cut off is now held by the operation -/
theorem InvP.setBodyFds {p : List Nat} {s : State} {b : Nat} {bd bd' : Body} (h : InvP p s)
    (hb : s.bodies[b]? = some bd) (l : List Nat)
    (hl : ∀ c, bd'.fds.count c + l.count c = bd.fds.count c) :
    InvP (l ++ p) { s with bodies := s.bodies.set b bd' } := by
  refine h.frame rfl rfl rfl rfl rfl rfl rfl rfl ?_
  intro c
  have := bcount_set (bd' := bd') c hb
  have := hl c
  simp only [refCount, List.count_append]
  omega

/-- a reference the operation holds is appended to the descriptor list of body `b` -/
theorem InvP.pushToBody {p : List Nat} {s : State} {b c : Nat} {bd bd' : Body} (h : InvP (c :: p) s)
    (hb : s.bodies[b]? = some bd) (hfds : bd'.fds = bd.fds ++ [c]) :
    InvP p { s with bodies := s.bodies.set b bd' } := by
  refine h.frame rfl rfl rfl rfl rfl rfl rfl rfl ?_
  intro c'
  have := bcount_set (bd' := bd') c' hb
  rw [hfds, List.count_append, count_singleton] at this
  simp only [refCount, List.count_cons]
  by_cases e : c = c' <;> simp [e] at this ⊢ <;> omega

theorem createOwned_eq (s : State) (f : Nat) : createOwned s f = ({ s with «open» := s.open ++ [(s.nextFd, f)], nextFd := s.nextFd + 1, lib := s.lib ++ [s.nextFd], cells := s.cells ++ [⟨s.nextFd, false, 1⟩] }, s.cells.length) := rfl

/-- `dupInto` written out -/
theorem dupInto_eq {s s1 : State} {b d : Nat} (hd : dupInto s b d = some s1) :
    ∃ f bd, lookupFd s.open d = some f ∧ s.bodies[b]? = some bd ∧
      s1 = { s with «open» := s.open ++ [(s.nextFd, f)], nextFd := s.nextFd + 1, lib := s.lib ++ [s.nextFd], cells := s.cells ++ [⟨s.nextFd, false, 1⟩], bodies := s.bodies.set b ⟨bd.fds ++ [s.cells.length], bd.idx ++ [bd.fds.length], bd.live⟩ } := by
  unfold dupInto at hd
  split at hd
  · simp at hd
  · next f hf =>
    simp only [createOwned_eq] at hd
    split at hd
    · simp at hd
    · next bd hbd =>
      simp only [Option.some.injEq] at hd
      exact ⟨f, bd, hf, hbd, hd.symm⟩

/-- the descriptor behind an element that is marshalled -/
def itemSource (s : State) : Item → Option Nat
  | .bad => none
  | .raw r => s.raws[r]?
  | .handle h =>
    match s.handles[h]? with
    | some (some c) =>
      match s.cells[c]? with
      | some x => if x.taken then none else some x.fd
      | none => none
    | _ => none

theorem pushItem_eq (s : State) (b : Nat) (it : Item) :
    pushItem s b it = match itemSource s it with | some d => dupInto s b d | none => none := by
  cases it with
  | bad => rfl
  | raw r => simp only [pushItem, itemSource]; split <;> simp_all
  | handle h =>
    simp only [pushItem, itemSource]
    split
    · split
      · split <;> simp_all
      · simp_all
    · simp_all

theorem lookup_append_ne {l : List (Nat × Nat)} {d n f : Nat} (h : d ≠ n) :
    lookupFd (l ++ [(n, f)]) d = lookupFd l d := by
  induction l with
  | nil => simp only [lookupFd, List.nil_append]; rw [if_neg (fun e => h e.symm)]
  | cons p t ih =>
    obtain ⟨k, g⟩ := p
    simp only [lookupFd, List.cons_append]
    split
    · rfl
    · exact ih

/-- what the elements of one push call (or a prefix of them) did to the state: body `b` grew by the
    cells `news`, everything else the caller can see is as before, the table only grew -/
structure PushExt (b : Nat) (bd : Body) (s s1 : State) (news : List Nat) : Prop where
  body : s1.bodies[b]? = some ⟨bd.fds ++ news, bd.idx ++ List.range' bd.fds.length news.length, bd.live⟩
  others : ∀ b', b' ≠ b → s1.bodies[b']? = s.bodies[b']?
  blen : s1.bodies.length = s.bodies.length
  handles : s1.handles = s.handles
  raws : s1.raws = s.raws
  user : s1.user = s.user
  wire : s1.wire = s.wire
  takenFds : s1.takenFds = s.takenFds
  libClosed : s1.libClosed = s.libClosed
  enq : s1.enq = s.enq
  deq : s1.deq = s.deq
  cells : ∀ (c : Nat) (x : Cell), s.cells[c]? = some x → s1.cells[c]? = some x
  lookupMono : ∀ d f, lookupFd s.open d = some f → lookupFd s1.open d = some f
  nextFd : s.nextFd ≤ s1.nextFd
  clen : s.cells.length ≤ s1.cells.length
  newCells : ∀ c, c ∈ news → s.cells.length ≤ c ∧ c < s1.cells.length
  newFresh : ∀ (c : Nat) (x : Cell), c ∈ news → s1.cells[c]? = some x → s.nextFd ≤ x.fd ∧ x.fd < s1.nextFd

theorem itemSource_mono {s s1 : State} (hh : s1.handles = s.handles) (hr : s1.raws = s.raws)
    (hc : ∀ (c : Nat) (x : Cell), s.cells[c]? = some x → s1.cells[c]? = some x) {it : Item} {d : Nat}
    (h : itemSource s it = some d) : itemSource s1 it = some d := by
  cases it with
  | bad => simp [itemSource] at h
  | raw r => simpa [itemSource, hr] using h
  | handle hd =>
    simp only [itemSource, hh] at h ⊢
    split at h
    · next c hc' =>
      split at h
      · next x hx => rw [hc c x hx]; exact h
      · simp at h
    · simp at h

theorem pushLoop_ext (b : Nat) : ∀ (items : List Item) (s : State) (bd : Body),
    s.bodies[b]? = some bd → (∀ d, d ∈ keys s.open → d < s.nextFd) →
    ∃ news, PushExt b bd s (pushLoop s b items).1 news ∧
      ((pushLoop s b items).2 = true → news.length = items.length) ∧
      (∀ d, d ∈ keys (pushLoop s b items).1.open → d < (pushLoop s b items).1.nextFd) ∧
      (∀ (j c : Nat), news[j]? = some c → ∃ (it : Item) (d f fd : Nat), items[j]? = some it ∧
        itemSource (pushLoop s b items).1 it = some d ∧ lookupFd (pushLoop s b items).1.open d = some f ∧
        (pushLoop s b items).1.cells[c]? = some (Cell.mk fd false 1) ∧
        lookupFd (pushLoop s b items).1.open fd = some f)
  | [], s, bd, hb, hbound => by
    refine ⟨[], ⟨by simpa [pushLoop] using hb, fun _ _ => rfl, rfl, rfl, rfl, rfl, rfl, rfl, rfl, rfl, rfl,
      fun _ _ h => h, fun _ _ h => h, Nat.le_refl _, Nat.le_refl _, by simp, by simp⟩, by simp, hbound, by intro j c hj; simp at hj⟩
  | it :: rest, s, bd, hb, hbound => by
    simp only [pushLoop, pushItem_eq]
    cases hsrc : itemSource s it with
    | none =>
      refine ⟨[], ⟨by simpa using hb, fun _ _ => rfl, rfl, rfl, rfl, rfl, rfl, rfl, rfl, rfl, rfl,
        fun _ _ h => h, fun _ _ h => h, Nat.le_refl _, Nat.le_refl _, by simp, by simp⟩, by simp, hbound, by intro j c hj; simp at hj⟩
    | some d =>
      simp only
      cases hdup : dupInto s b d with
      | none =>
        refine ⟨[], ⟨by simpa using hb, fun _ _ => rfl, rfl, rfl, rfl, rfl, rfl, rfl, rfl, rfl, rfl,
          fun _ _ h => h, fun _ _ h => h, Nat.le_refl _, Nat.le_refl _, by simp, by simp⟩, by simp, hbound, by intro j c hj; simp at hj⟩
      | some s' =>
        simp only
        obtain ⟨f, bd0, hf, hbd0, hs'⟩ := dupInto_eq hdup
        rw [hb] at hbd0; simp only [Option.some.injEq] at hbd0; subst hbd0
        have hblt : b < s.bodies.length := lt_length_of_getElem? hb
        have hfresh : s.nextFd ∉ keys s.open := fun hm => Nat.lt_irrefl _ (hbound _ hm)
        have hb' : s'.bodies[b]? = some ⟨bd.fds ++ [s.cells.length], bd.idx ++ [bd.fds.length], bd.live⟩ := by
          rw [hs']; simp [hblt]
        have hbound' : ∀ d, d ∈ keys s'.open → d < s'.nextFd := by
          intro k hk; rw [hs'] at hk ⊢
          simp only [keys_append, List.mem_append] at hk
          rcases hk with hk | hk
          · have := hbound k hk; simp only; omega
          · simp [keys] at hk; simp only; omega
        obtain ⟨news, hext, hlen, hbnd, hsrcs⟩ := pushLoop_ext b rest s' _ hb' hbound'
        have hcells' : ∀ (c : Nat) (x : Cell), s.cells[c]? = some x → s'.cells[c]? = some x := by
          intro c x hx; rw [hs']
          simp only [getElem?_append_single, lt_length_of_getElem? hx, if_true]; exact hx
        have hlook' : ∀ k g, lookupFd s.open k = some g → lookupFd s'.open k = some g := by
          intro k g hk; rw [hs']; exact lookup_append_left _ hk
        have hnewcell : s'.cells[s.cells.length]? = some ⟨s.nextFd, false, 1⟩ := by rw [hs']; simp
        have hn' : s'.nextFd = s.nextFd + 1 := by rw [hs']
        have hcl' : s'.cells.length = s.cells.length + 1 := by rw [hs']; simp
        refine ⟨s.cells.length :: news, ⟨?_, ?_, ?_, ?_, ?_, ?_, ?_, ?_, ?_, ?_, ?_, ?_, ?_, ?_, ?_, ?_, ?_⟩, ?_, hbnd, ?_⟩
        · have := hext.body
          simp only [List.length_append, List.length_cons, List.length_nil, List.append_assoc,
            List.singleton_append] at this
          simp only [List.length_cons, List.range'_succ]
          exact this
        · intro b' hne
          rw [hext.others b' hne, hs']
          simp [List.getElem?_set_ne (fun e => hne e.symm)]
        · rw [hext.blen, hs']; simp
        · rw [hext.handles, hs']
        · rw [hext.raws, hs']
        · rw [hext.user, hs']
        · rw [hext.wire, hs']
        · rw [hext.takenFds, hs']
        · rw [hext.libClosed, hs']
        · rw [hext.enq, hs']
        · rw [hext.deq, hs']
        · intro c x hx; exact hext.cells c x (hcells' c x hx)
        · intro k g hk; exact hext.lookupMono k g (hlook' k g hk)
        · have := hext.nextFd; omega
        · have := hext.clen; omega
        · intro c hc
          simp only [List.mem_cons] at hc
          have hcl := hext.clen
          rcases hc with hc | hc
          · subst hc; exact ⟨Nat.le_refl _, by omega⟩
          · have := hext.newCells c hc; omega
        · intro c x hc hx
          simp only [List.mem_cons] at hc
          rcases hc with hc | hc
          · subst hc
            have := hext.cells _ _ hnewcell
            rw [this] at hx; simp only [Option.some.injEq] at hx; subst hx
            have := hext.nextFd; simp only; omega
          · have := hext.newFresh c x hc hx; omega
        · intro hok; simp [hlen hok]
        · intro j c hj
          cases j with
          | zero =>
            simp only [List.getElem?_cons_zero, Option.some.injEq] at hj; subst hj
            refine ⟨it, d, f, s.nextFd, rfl, ?_, hext.lookupMono _ _ (hlook' _ _ hf), hext.cells _ _ hnewcell, ?_⟩
            · refine itemSource_mono hext.handles hext.raws hext.cells ?_
              exact itemSource_mono (by rw [hs']) (by rw [hs']) hcells' hsrc
            · apply hext.lookupMono; rw [hs']; exact lookup_append_fresh hfresh
          | succ n =>
            simp only [List.getElem?_cons_succ] at hj ⊢
            exact hsrcs n c hj

theorem inv_dupInto {s s1 : State} (h : Inv s) {b d : Nat} (hd : dupInto s b d = some s1) : Inv s1 := by
  unfold dupInto at hd
  split at hd
  · simp at hd
  · next f hf =>
    simp only [createOwned_eq] at hd
    split at hd
    · simp at hd
    · next bd hbd =>
      simp only [Option.some.injEq] at hd
      subst hd
      have h1 := InvP.createOwned h f
      rw [createOwned_eq] at h1
      exact h1.pushToBody hbd rfl

theorem inv_pushItem {s s1 : State} (h : Inv s) {b : Nat} {it : Item} (hd : pushItem s b it = some s1) :
    Inv s1 := by
  cases it with
  | bad => simp [pushItem] at hd
  | raw r =>
    simp only [pushItem] at hd
    split at hd
    · exact inv_dupInto h hd
    · simp at hd
  | handle hh =>
    simp only [pushItem] at hd
    split at hd
    · split at hd
      · split at hd
        · simp at hd
        · exact inv_dupInto h hd
      · simp at hd
    · simp at hd

theorem inv_pushLoop : ∀ (items : List Item) {s : State} (b : Nat), Inv s → Inv (pushLoop s b items).1
  | [], _, _, h => h
  | it :: rest, s, b, h => by
    simp only [pushLoop]
    split
    · exact h
    · next s1 hs1 => exact inv_pushLoop rest b (inv_pushItem h hs1)

theorem inv_push {s : State} (h : Inv s) (b : Nat) (items : List Item) : Inv (push s b items).1 := by
  unfold push
  split
  · exact h
  · next bd hbd =>
    split
    · exact h
    · have hl := inv_pushLoop items b h
      split
      · next s1 hs1 => rw [hs1] at hl; exact hl
      · next s1 hs1 =>
        rw [hs1] at hl
        split
        · next hb1 =>
          -- body `b` cannot have disappeared; this branch sets the error flag, so it must be shown unreachable
          exfalso
          obtain ⟨news, hext, _⟩ := pushLoop_ext b items s bd hbd h.bound
          rw [hs1] at hext
          have := hext.body
          simp only [hb1] at this
          exact absurd this (by simp)
        · next bd1 hbd1 =>
          have hcount : ∀ c, (bd1.fds.take bd.fds.length).count c + (bd1.fds.drop bd.fds.length).count c = bd1.fds.count c := by
            intro c; rw [← List.count_append, List.take_append_drop]
          have h2 := InvP.setBodyFds (p := []) (bd' := ⟨bd1.fds.take bd.fds.length, bd1.idx.take bd.idx.length, bd1.live⟩) hl hbd1 (bd1.fds.drop bd.fds.length) hcount
          exact InvP.dropRefs _ h2

theorem inv_reset {s : State} (h : Inv s) (b : Nat) : Inv (reset s b).1 := by
  unfold reset
  split
  · exact h
  · next bd hbd =>
    split
    · exact h
    · have h2 := InvP.setBodyFds (p := []) (bd' := ⟨[], [], bd.live⟩) h hbd bd.fds (by intro c; simp)
      exact InvP.dropRefs _ h2

theorem inv_dropBody {s : State} (h : Inv s) (b : Nat) : Inv (dropBody s b).1 := by
  unfold dropBody
  split
  · exact h
  · next bd hbd =>
    split
    · exact h
    · have h2 := InvP.setBodyFds (p := []) (bd' := ⟨[], [], false⟩) h hbd bd.fds (by intro c; simp)
      exact InvP.dropRefs _ h2

theorem inv_send {s : State} (h : Inv s) (b : Nat) : Inv (send s b).1 := by
  unfold send
  split
  · exact h
  · split
    · exact h
    · split
      · exact h
      · exact h.frame rfl rfl rfl rfl rfl rfl rfl rfl (fun _ => rfl)

theorem inv_peerSend {s : State} (h : Inv s) (files idx : List Nat) (v : Bool) :
    Inv (peerSend s files idx v).1 :=
  h.frame rfl rfl rfl rfl rfl rfl rfl rfl (fun _ => rfl)

theorem installAll_inv : ∀ (fs : List Nat) {p : List Nat} {s : State}, InvP p s →
    InvP ((installAll s fs).2 ++ p) (installAll s fs).1
  | [], _, _, h => by simpa [installAll] using h
  | f :: fs, p, s, h => by
    simp only [installAll]
    have h1 := InvP.createOwned h f
    have h2 := installAll_inv fs h1
    refine h2.perm ?_
    intro c
    simp only [List.count_append, List.count_cons]
    omega

theorem inv_receive {s : State} (h : Inv s) : Inv (receive s).1 := by
  unfold receive
  split
  · exact h
  · next m rest hw =>
    have h0 : InvP [] { s with wire := rest, deq := s.deq ++ [m.files.take maxRecvFds] } :=
      h.frame rfl rfl rfl rfl rfl rfl rfl rfl (fun _ => rfl)
    have h1 := installAll_inv (m.files.take maxRecvFds) h0
    simp only
    split
    · exact InvP.toNewBody _ h1 _ _
    · exact InvP.dropRefs _ h1

theorem count_pos_of_getElem? {l : List Nat} {i c : Nat} (h : l[i]? = some c) : 0 < l.count c := by
  rw [List.count_pos_iff]
  exact List.mem_of_getElem? h

theorem inv_unmarshalFd {s : State} (h : Inv s) (b j : Nat) : Inv (unmarshalFd s b j).1 := by
  unfold unmarshalFd
  split
  · exact h
  · next bd hbd =>
    split
    · exact h
    · split
      · exact h
      · split
        · exact h
        · next c hc =>
          have hpos : 0 < refCount s c + ([] : List Nat).count c := by
            have := bcount_ge c hbd
            have := count_pos_of_getElem? hc
            simp only [refCount]; omega
          exact (InvP.incr h hpos).toHandle

theorem inv_cloneHandle {s : State} (h : Inv s) (hd : Nat) : Inv (cloneHandle s hd).1 := by
  unfold cloneHandle
  split
  · next c hc =>
    have hpos : 0 < refCount s c + ([] : List Nat).count c := by
      have := hcount_pos hc
      simp only [refCount]; omega
    exact (InvP.incr h hpos).toHandle
  · exact h

theorem inv_dropHandle {s : State} (h : Inv s) (hd : Nat) : Inv (dropHandle s hd).1 := by
  unfold dropHandle
  split
  · next c hc => exact InvP.decr (h.fromHandle hc)
  · exact h

theorem inv_get {s : State} (h : Inv s) (hd : Nat) : Inv (get s hd).1 := by
  unfold get
  split
  · next c hc =>
    split
    · next hx =>
      exfalso
      have hpos : 0 < refCount s c + ([] : List Nat).count c := by
        have := hcount_pos hc
        simp only [refCount]; omega
      obtain ⟨x, hx', _⟩ := h.cell_of_pending hpos
      rw [hx] at hx'; simp at hx'
    · split
      · exact h
      · exact h.frame rfl rfl rfl rfl rfl rfl rfl rfl (fun _ => rfl)
  · exact h

theorem inv_dupHandle {s : State} (h : Inv s) (hd : Nat) : Inv (dupHandle s hd).1 := by
  unfold dupHandle
  split
  · next c hc =>
    split
    · next hx =>
      exfalso
      have hpos : 0 < refCount s c + ([] : List Nat).count c := by
        have := hcount_pos hc
        simp only [refCount]; omega
      obtain ⟨x, hx', _⟩ := h.cell_of_pending hpos
      rw [hx] at hx'; simp at hx'
    · split
      · exact h
      · split
        · exact h
        · next f hf => exact (InvP.createOwned h f).toHandle
  · exact h

theorem inv_take {s : State} (h : Inv s) (hd : Nat) : Inv (take s hd).1 := by
  unfold take
  split
  · next c hc =>
    have h0 := h.fromHandle hc
    have hpos : 0 < refCount { s with handles := s.handles.set hd none } c + [c].count c := by simp
    obtain ⟨x, hx, hr⟩ := h0.cell_of_pending hpos
    simp only at hx
    simp only [hx]
    split
    · exact InvP.decr h0
    · next htk =>
      have htk' : x.taken = false := by simpa using htk
      have hr' : 0 < x.refs := by rw [hr]; simp
      have h1 := InvP.takeCell (s' := { s with handles := s.handles.set hd none, cells := s.cells.set c { x with taken := true }, user := s.user ++ [x.fd], takenFds := s.takenFds ++ [x.fd], raws := s.raws ++ [x.fd] }) h0 hx hr' htk' rfl rfl rfl rfl rfl rfl rfl rfl rfl rfl
      exact InvP.decr h1
  · exact h

theorem inv_step {s : State} (h : Inv s) (op : Op) : Inv (step s op).1 := by
  cases op with
  | userOpen f => exact inv_userOpen h f
  | userClose r => exact inv_userClose h r
  | wrap r => exact inv_wrap h r
  | newBody => exact inv_newBody h
  | push b items => exact inv_push h b items
  | reset b => exact inv_reset h b
  | dropBody b => exact inv_dropBody h b
  | send b => exact inv_send h b
  | peerSend files idx v => exact inv_peerSend h files idx v
  | receive => exact inv_receive h
  | unmarshalFd b j => exact inv_unmarshalFd h b j
  | take hd => exact inv_take h hd
  | get hd => exact inv_get h hd
  | dupHandle hd => exact inv_dupHandle h hd
  | dupHandleFail hd => simp only [step, dupHandleFail_state]; exact h
  | cloneHandle hd => exact inv_cloneHandle h hd
  | dropHandle hd => exact inv_dropHandle h hd

theorem inv_run : ∀ (ops : List Op) {s : State}, Inv s → Inv (run s ops)
  | [], _, h => h
  | op :: ops, _, h => inv_run ops (inv_step h op)

end Rustbus.FdTable
