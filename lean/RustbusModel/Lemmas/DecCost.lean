import RustbusModel.Model.DecCost
import RustbusModel.Lemmas.Wire
/-!
C04 lemmas, part 1: one-step unfoldings of the instrumented decoder `decW`, and `same_all`:
(a) `decW` returns what `dec` returns, (b) its `depth` counter never exceeds the budget —
by strong induction on the budget, for all types, offsets, limits, buffers.
-/
namespace Rustbus.Wire
open Rustbus Rustbus.Bytes

section unfold
variable (bo : ByteOrder) (buf : List UInt8) (nfds : Option Nat)

theorem decW_base (d : Nat) (b : Base) (off lim : Nat) :
    decW bo buf nfds d (.base b) off lim = ⟨decBase bo buf nfds b off lim, decBaseWork bo buf b off lim, 0⟩ := by
  simp only [decW]

theorem decW_zero (t : Ty) (off lim : Nat) (ht : ∀ b, t ≠ .base b) :
    decW bo buf nfds 0 t off lim = ⟨none, 1, 0⟩ := by
  cases t <;> first | exact absurd rfl (ht _) | simp only [decW]

theorem decW_array (d : Nat) (e : Ty) (off lim : Nat) :
    decW bo buf nfds (d + 1) (.array e) off lim =
    match skipPad buf off lim 4 with
    | none => ⟨none, 1, 1⟩
    | some o =>
      match readNum bo buf o lim 4 with
      | none => ⟨none, 1, 1⟩
      | some len =>
        if len ≤ maxArrayLen then
          match skipPad buf (o + 4) lim e.align with
          | none => ⟨none, 1, 1⟩
          | some o2 =>
            if o2 + len ≤ lim then
              match decListW bo buf nfds d e o2 (o2 + len) len with
              | ⟨none, w, dp⟩ => ⟨none, 1 + w, 1 + dp⟩
              | ⟨some vs, w, dp⟩ => ⟨some (.arr vs, o2 + len), 1 + w, 1 + dp⟩
            else ⟨none, 1, 1⟩
        else ⟨none, 1, 1⟩ := by
  simp only [decW]; rfl

theorem decW_dict_one (k : Base) (v : Ty) (off lim : Nat) :
    decW bo buf nfds 1 (.dict k v) off lim = ⟨none, 1, 1⟩ := by
  simp only [decW]

theorem decW_dict (d' : Nat) (k : Base) (v : Ty) (off lim : Nat) :
    decW bo buf nfds (d' + 2) (.dict k v) off lim =
      match skipPad buf off lim 4 with
      | none => ⟨none, 1, 2⟩
      | some o =>
        match readNum bo buf o lim 4 with
        | none => ⟨none, 1, 2⟩
        | some len =>
          if len ≤ maxArrayLen then
            match skipPad buf (o + 4) lim 8 with
            | none => ⟨none, 1, 2⟩
            | some o2 =>
              if o2 + len ≤ lim then
                match decEntriesW bo buf nfds d' k v o2 (o2 + len) len with
                | ⟨none, w, dp⟩ => ⟨none, 1 + w, 2 + dp⟩
                | ⟨some es, w, dp⟩ => ⟨some (.arr es, o2 + len), 1 + w, 2 + dp⟩
              else ⟨none, 1, 2⟩
          else ⟨none, 1, 2⟩ := by
  simp only [decW]; rfl

theorem decW_struct (d : Nat) (fs : List Ty) (off lim : Nat) :
    decW bo buf nfds (d + 1) (.struct fs) off lim =
    if fs.isEmpty then ⟨none, 1, 1⟩
    else
      match skipPad buf off lim 8 with
      | none => ⟨none, 1, 1⟩
      | some o =>
        match decFieldsW bo buf nfds d fs o lim with
        | ⟨none, w, dp⟩ => ⟨none, 1 + w, 1 + dp⟩
        | ⟨some (vs, o'), w, dp⟩ => ⟨some (.struct vs, o'), 1 + w, 1 + dp⟩ := by
  simp only [decW]; rfl

theorem decW_variant (d : Nat) (off lim : Nat) :
    decW bo buf nfds (d + 1) .variant off lim =
    match readNum bo buf off lim 1 with
    | none => ⟨none, 1, 1⟩
    | some len =>
      if off + len + 2 ≤ lim then
        if slice buf (off + 1 + len) 1 = [0] then
          match Sig.parseDescription (latin1 (slice buf (off + 1) len)) with
          | some [t] =>
            match decW bo buf nfds d t (off + len + 2) lim with
            | ⟨none, w, dp⟩ => ⟨none, 1 + len + w, 1 + dp⟩
            | ⟨some (v, o'), w, dp⟩ => ⟨some (.variant t v, o'), 1 + len + w, 1 + dp⟩
          | _ => ⟨none, 1 + len, 1⟩
        else ⟨none, 1, 1⟩
      else ⟨none, 1, 1⟩ := by
  simp only [decW]; rfl

theorem decListW_zero (d : Nat) (e : Ty) (off lim : Nat) :
    decListW bo buf nfds d e off lim 0 = ⟨if off = lim then some [] else none, 1, 0⟩ := by
  simp only [decListW]

theorem decListW_succ (d : Nat) (e : Ty) (off lim fuel : Nat) :
    decListW bo buf nfds d e off lim (fuel + 1) =
    if off = lim then ⟨some [], 1, 0⟩
    else
      match decW bo buf nfds d e off lim with
      | ⟨none, w, dp⟩ => ⟨none, 1 + w, dp⟩
      | ⟨some (v, o'), w, dp⟩ =>
        match decListW bo buf nfds d e o' lim fuel with
        | ⟨none, w', dp'⟩ => ⟨none, 1 + w + w', max dp dp'⟩
        | ⟨some vs, w', dp'⟩ => ⟨some (v :: vs), 1 + w + w', max dp dp'⟩ := by
  simp only [decListW]; rfl

theorem decEntriesW_zero (d : Nat) (k : Base) (vt : Ty) (off lim : Nat) :
    decEntriesW bo buf nfds d k vt off lim 0 = ⟨if off = lim then some [] else none, 1, 0⟩ := by
  simp only [decEntriesW]

theorem decEntriesW_succ (d : Nat) (k : Base) (vt : Ty) (off lim fuel : Nat) :
    decEntriesW bo buf nfds d k vt off lim (fuel + 1) =
    if off = lim then ⟨some [], 1, 0⟩
    else
      match skipPad buf off lim 8 with
      | none => ⟨none, 1, 0⟩
      | some o =>
        match decBase bo buf nfds k o lim with
        | none => ⟨none, 1 + decBaseWork bo buf k o lim, 0⟩
        | some (kv, o1) =>
          match decW bo buf nfds d vt o1 lim with
          | ⟨none, w, dp⟩ => ⟨none, 1 + decBaseWork bo buf k o lim + w, dp⟩
          | ⟨some (vv, o2), w, dp⟩ =>
            match decEntriesW bo buf nfds d k vt o2 lim fuel with
            | ⟨none, w', dp'⟩ => ⟨none, 1 + decBaseWork bo buf k o lim + w + w', max dp dp'⟩
            | ⟨some es, w', dp'⟩ =>
              ⟨some (.struct [kv, vv] :: es), 1 + decBaseWork bo buf k o lim + w + w', max dp dp'⟩ := by
  simp only [decEntriesW]; rfl

theorem decFieldsW_nil (d : Nat) (off lim : Nat) :
    decFieldsW bo buf nfds d [] off lim = ⟨some ([], off), 0, 0⟩ := by
  simp only [decFieldsW]

theorem decFieldsW_cons (d : Nat) (t : Ty) (ts : List Ty) (off lim : Nat) :
    decFieldsW bo buf nfds d (t :: ts) off lim =
    match decW bo buf nfds d t off lim with
    | ⟨none, w, dp⟩ => ⟨none, w, dp⟩
    | ⟨some (v, o'), w, dp⟩ =>
      match decFieldsW bo buf nfds d ts o' lim with
      | ⟨none, w', dp'⟩ => ⟨none, w + w', max dp dp'⟩
      | ⟨some (vs, o''), w', dp'⟩ => ⟨some (v :: vs, o''), w + w', max dp dp'⟩ := by
  simp only [decFieldsW]; rfl
end unfold

/-! ### (a) same result, (b) depth within budget -/

/-- at budget `d` the instrumented decoder returns what `dec` returns and stays within the budget -/
def Same (bo : ByteOrder) (buf : List UInt8) (nfds : Option Nat) (d : Nat) : Prop :=
  ∀ (t : Ty) (off lim : Nat),
    (decW bo buf nfds d t off lim).res = dec bo buf nfds d t off lim ∧ (decW bo buf nfds d t off lim).depth ≤ d

variable {bo : ByteOrder} {buf : List UInt8} {nfds : Option Nat} {d : Nat}

theorem decListW_same (hS : Same bo buf nfds d) (e : Ty) (lim fuel off : Nat) :
    (decListW bo buf nfds d e off lim fuel).res = decList bo buf nfds d e off lim fuel ∧
    (decListW bo buf nfds d e off lim fuel).depth ≤ d := by
  induction fuel generalizing off with
  | zero => rw [decListW_zero, decList_zero]; simp
  | succ fuel ih =>
    rw [decListW_succ, decList_succ]
    split
    · simp
    · obtain ⟨h1, h2⟩ := hS e off lim
      rcases hw : decW bo buf nfds d e off lim with ⟨r, w, dp⟩
      rw [hw] at h1 h2
      simp only at h1 h2
      rw [← h1]
      cases r with
      | none => simp; exact h2
      | some p =>
        obtain ⟨v, o'⟩ := p
        simp only []
        obtain ⟨h3, h4⟩ := ih o'
        rcases hw' : decListW bo buf nfds d e o' lim fuel with ⟨r', w', dp'⟩
        rw [hw'] at h3 h4
        simp only at h3 h4
        rw [← h3]
        cases r' <;> simp <;> omega

theorem decEntriesW_same (hS : Same bo buf nfds d) (k : Base) (vt : Ty) (lim fuel off : Nat) :
    (decEntriesW bo buf nfds d k vt off lim fuel).res = decEntries bo buf nfds d k vt off lim fuel ∧
    (decEntriesW bo buf nfds d k vt off lim fuel).depth ≤ d := by
  induction fuel generalizing off with
  | zero => rw [decEntriesW_zero, decEntries_zero]; simp
  | succ fuel ih =>
    rw [decEntriesW_succ, decEntries_succ]
    split
    · simp
    · cases skipPad buf off lim 8 with
      | none => simp
      | some o =>
        simp only []
        cases decBase bo buf nfds k o lim with
        | none => simp
        | some p =>
          obtain ⟨kv, o1⟩ := p
          simp only []
          obtain ⟨h1, h2⟩ := hS vt o1 lim
          rcases hw : decW bo buf nfds d vt o1 lim with ⟨r, w, dp⟩
          rw [hw] at h1 h2
          simp only at h1 h2
          rw [← h1]
          cases r with
          | none => simp; exact h2
          | some p =>
            obtain ⟨vv, o2⟩ := p
            simp only []
            obtain ⟨h3, h4⟩ := ih o2
            rcases hw' : decEntriesW bo buf nfds d k vt o2 lim fuel with ⟨r', w', dp'⟩
            rw [hw'] at h3 h4
            simp only at h3 h4
            rw [← h3]
            cases r' <;> simp <;> omega

theorem decFieldsW_same (hS : Same bo buf nfds d) (ts : List Ty) (lim off : Nat) :
    (decFieldsW bo buf nfds d ts off lim).res = decFields bo buf nfds d ts off lim ∧
    (decFieldsW bo buf nfds d ts off lim).depth ≤ d := by
  induction ts generalizing off with
  | nil => rw [decFieldsW_nil, decFields_nil]; simp
  | cons t ts ih =>
    rw [decFieldsW_cons, decFields_cons]
    obtain ⟨h1, h2⟩ := hS t off lim
    rcases hw : decW bo buf nfds d t off lim with ⟨r, w, dp⟩
    rw [hw] at h1 h2
    simp only at h1 h2
    rw [← h1]
    cases r with
    | none => simp; exact h2
    | some p =>
      obtain ⟨v, o'⟩ := p
      simp only []
      obtain ⟨h3, h4⟩ := ih o'
      rcases hw' : decFieldsW bo buf nfds d ts o' lim with ⟨r', w', dp'⟩
      rw [hw'] at h3 h4
      simp only at h3 h4
      rw [← h3]
      cases r' with
      | none => simp; omega
      | some q => obtain ⟨vs, o''⟩ := q; simp; omega

theorem same_array (hS : Same bo buf nfds d) (e : Ty) (off lim : Nat) :
    (decW bo buf nfds (d + 1) (.array e) off lim).res = dec bo buf nfds (d + 1) (.array e) off lim ∧
    (decW bo buf nfds (d + 1) (.array e) off lim).depth ≤ d + 1 := by
  rw [decW_array, dec_array]
  cases skipPad buf off lim 4 with
  | none => simp
  | some o =>
    simp only []
    cases readNum bo buf o lim 4 with
    | none => simp
    | some len =>
      simp only []
      split
      · cases skipPad buf (o + 4) lim e.align with
        | none => simp
        | some o2 =>
          simp only []
          split
          · obtain ⟨h3, h4⟩ := decListW_same hS e (o2 + len) len o2
            rcases hw' : decListW bo buf nfds d e o2 (o2 + len) len with ⟨r', w', dp'⟩
            rw [hw'] at h3 h4
            simp only at h3 h4
            rw [← h3]
            cases r' <;> simp <;> omega
          · simp
      · simp

theorem same_dict (hS : Same bo buf nfds d) (k : Base) (vt : Ty) (off lim : Nat) :
    (decW bo buf nfds (d + 2) (.dict k vt) off lim).res = dec bo buf nfds (d + 2) (.dict k vt) off lim ∧
    (decW bo buf nfds (d + 2) (.dict k vt) off lim).depth ≤ d + 2 := by
  rw [decW_dict, dec_dict]
  cases skipPad buf off lim 4 with
  | none => simp
  | some o =>
    simp only []
    cases readNum bo buf o lim 4 with
    | none => simp
    | some len =>
      simp only []
      split
      · cases skipPad buf (o + 4) lim 8 with
        | none => simp
        | some o2 =>
          simp only []
          split
          · obtain ⟨h3, h4⟩ := decEntriesW_same hS k vt (o2 + len) len o2
            rcases hw' : decEntriesW bo buf nfds d k vt o2 (o2 + len) len with ⟨r', w', dp'⟩
            rw [hw'] at h3 h4
            simp only at h3 h4
            rw [← h3]
            cases r' <;> simp <;> omega
          · simp
      · simp

theorem same_struct (hS : Same bo buf nfds d) (fs : List Ty) (off lim : Nat) :
    (decW bo buf nfds (d + 1) (.struct fs) off lim).res = dec bo buf nfds (d + 1) (.struct fs) off lim ∧
    (decW bo buf nfds (d + 1) (.struct fs) off lim).depth ≤ d + 1 := by
  rw [decW_struct, dec_struct]
  split
  · simp
  · cases skipPad buf off lim 8 with
    | none => simp
    | some o =>
      simp only []
      obtain ⟨h3, h4⟩ := decFieldsW_same hS fs lim o
      rcases hw' : decFieldsW bo buf nfds d fs o lim with ⟨r', w', dp'⟩
      rw [hw'] at h3 h4
      simp only at h3 h4
      rw [← h3]
      cases r' with
      | none => simp; omega
      | some q => obtain ⟨vs, o''⟩ := q; simp; omega

theorem same_variant (hS : Same bo buf nfds d) (off lim : Nat) :
    (decW bo buf nfds (d + 1) .variant off lim).res = dec bo buf nfds (d + 1) .variant off lim ∧
    (decW bo buf nfds (d + 1) .variant off lim).depth ≤ d + 1 := by
  rw [decW_variant, dec_variant]
  cases readNum bo buf off lim 1 with
  | none => simp
  | some len =>
    simp only []
    split
    · split
      · generalize Sig.parseDescription (latin1 (slice buf (off + 1) len)) = p
        match p with
        | some [t] =>
          simp only []
          obtain ⟨h1, h2⟩ := hS t (off + len + 2) lim
          rcases hw : decW bo buf nfds d t (off + len + 2) lim with ⟨r, w, dp⟩
          rw [hw] at h1 h2
          simp only at h1 h2
          rw [← h1]
          cases r with
          | none => simp; omega
          | some q => obtain ⟨v, o'⟩ := q; simp; omega
        | none => simp
        | some [] => simp
        | some (_ :: _ :: _) => simp
      · simp
    · simp

/-- (a) + (b) for every budget, type, offset, limit, buffer, byte order and descriptor count -/
theorem same_all (bo : ByteOrder) (buf : List UInt8) (nfds : Option Nat) (d : Nat) : Same bo buf nfds d := by
  induction d using Nat.strongRecOn with
  | _ d ih =>
    intro t off lim
    match t, d with
    | .base b, d => rw [decW_base, dec_base]; simp
    | .array e, 0 | .dict _ _, 0 | .struct _, 0 | .variant, 0 =>
      rw [decW_zero _ _ _ _ _ _ (by intro b; simp), dec_zero _ _ _ _ _ _ (by intro b; simp)]; simp
    | .dict _ _, 1 => rw [decW_dict_one, dec_dict_one]; simp
    | .array e, d + 1 => exact same_array (ih d (by omega)) e off lim
    | .dict k vt, d + 2 => exact same_dict (ih d (by omega)) k vt off lim
    | .struct fs, d + 1 => exact same_struct (ih d (by omega)) fs off lim
    | .variant, d + 1 => exact same_variant (ih d (by omega)) off lim

end Rustbus.Wire
