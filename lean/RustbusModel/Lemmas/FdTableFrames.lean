import RustbusModel.Lemmas.FdTableOps
/-!
C11: what each operation leaves alone (the caller-owned set, the socket), the FIFO invariant of the
socket, and the consequences of the invariant that `Props/C11.lean` states.
-/
namespace Rustbus.FdTable

/-- the parts of the state that only the caller's own operations / only the socket operations change -/
structure Same (s s' : State) : Prop where
  user : s'.user = s.user
  wire : s'.wire = s.wire
  enq : s'.enq = s.enq
  deq : s'.deq = s.deq

theorem Same.refl (s : State) : Same s s := ⟨rfl, rfl, rfl, rfl⟩

theorem Same.trans {a b c : State} (h1 : Same a b) (h2 : Same b c) : Same a c :=
  ⟨h2.user.trans h1.user, h2.wire.trans h1.wire, h2.enq.trans h1.enq, h2.deq.trans h1.deq⟩

theorem same_decr (s : State) (c : Nat) : Same s (decr s c) := by
  obtain ⟨_, _, a3, _, a5, _, _, a8, a9, _, _⟩ := decr_frame s c
  exact ⟨a5, a3, a8, a9⟩

theorem same_dropRefs (s : State) (l : List Nat) : Same s (dropRefs s l) := by
  obtain ⟨_, _, a3, _, a5, _, _, a8, a9, _, _⟩ := dropRefs_frame l s
  exact ⟨a5, a3, a8, a9⟩

theorem Same.of_dropRefs {s s2 : State} (h : Same s s2) (l : List Nat) : Same s (dropRefs s2 l) :=
  h.trans (same_dropRefs _ _)

theorem Same.of_decr {s s2 : State} (h : Same s s2) (c : Nat) : Same s (decr s2 c) :=
  h.trans (same_decr _ _)

theorem same_incr (s : State) (c : Nat) : Same s (incr s c) := by
  unfold incr
  split
  · split <;> exact ⟨rfl, rfl, rfl, rfl⟩
  · exact ⟨rfl, rfl, rfl, rfl⟩

theorem incr_handles (s : State) (c : Nat) : (incr s c).handles = s.handles ∧ (incr s c).raws = s.raws := by
  unfold incr
  split
  · split <;> exact ⟨rfl, rfl⟩
  · exact ⟨rfl, rfl⟩

theorem same_installAll : ∀ (fs : List Nat) (s : State), Same s (installAll s fs).1
  | [], s => Same.refl s
  | f :: fs, s => by
    simp only [installAll]
    exact Same.trans (b := (createOwned s f).1) ⟨rfl, rfl, rfl, rfl⟩ (same_installAll fs (createOwned s f).1)

theorem same_pushLoop (b : Nat) : ∀ (items : List Item) (s : State), Same s (pushLoop s b items).1
  | [], s => Same.refl s
  | it :: rest, s => by
    simp only [pushLoop, pushItem_eq]
    cases hsrc : itemSource s it with
    | none => exact Same.refl s
    | some d =>
      simp only
      cases hdup : dupInto s b d with
      | none => exact Same.refl s
      | some s' =>
        simp only
        obtain ⟨f, bd0, _, _, hs'⟩ := dupInto_eq hdup
        refine Same.trans ?_ (same_pushLoop b rest s')
        rw [hs']; exact ⟨rfl, rfl, rfl, rfl⟩

theorem same_push (s : State) (b : Nat) (items : List Item) : Same s (push s b items).1 := by
  unfold push
  split
  · exact Same.refl s
  · split
    · exact Same.refl s
    · have hl := same_pushLoop b items s
      split
      · next s1 hs1 => rw [hs1] at hl; exact hl
      · next s1 hs1 =>
        rw [hs1] at hl
        split
        · exact Same.trans hl ⟨rfl, rfl, rfl, rfl⟩
        · dsimp only
          refine Same.of_dropRefs ?_ _
          exact Same.trans hl ⟨rfl, rfl, rfl, rfl⟩

theorem same_reset (s : State) (b : Nat) : Same s (reset s b).1 := by
  unfold reset
  split
  · exact Same.refl s
  · split
    · exact Same.refl s
    · dsimp only
      refine Same.of_dropRefs ?_ _
      exact ⟨rfl, rfl, rfl, rfl⟩

theorem same_dropBody (s : State) (b : Nat) : Same s (dropBody s b).1 := by
  unfold dropBody
  split
  · exact Same.refl s
  · split
    · exact Same.refl s
    · dsimp only
      refine Same.of_dropRefs ?_ _
      exact ⟨rfl, rfl, rfl, rfl⟩

theorem same_unmarshalFd (s : State) (b j : Nat) : Same s (unmarshalFd s b j).1 := by
  unfold unmarshalFd
  split
  · exact Same.refl s
  · split
    · exact Same.refl s
    · split
      · exact Same.refl s
      · split
        · exact Same.refl s
        · exact Same.trans (same_incr _ _) ⟨rfl, rfl, rfl, rfl⟩

theorem same_get (s : State) (h : Nat) : Same s (get s h).1 := by
  unfold get
  split
  · split
    · exact ⟨rfl, rfl, rfl, rfl⟩
    · split <;> exact ⟨rfl, rfl, rfl, rfl⟩
  · exact Same.refl s

theorem same_dupHandle (s : State) (h : Nat) : Same s (dupHandle s h).1 := by
  unfold dupHandle
  split
  · split
    · exact ⟨rfl, rfl, rfl, rfl⟩
    · split
      · exact Same.refl s
      · split
        · exact Same.refl s
        · exact ⟨rfl, rfl, rfl, rfl⟩
  · exact Same.refl s

theorem same_cloneHandle (s : State) (h : Nat) : Same s (cloneHandle s h).1 := by
  unfold cloneHandle
  split
  · exact Same.trans (same_incr _ _) ⟨rfl, rfl, rfl, rfl⟩
  · exact Same.refl s

theorem same_dropHandle (s : State) (h : Nat) : Same s (dropHandle s h).1 := by
  unfold dropHandle
  split
  · dsimp only
    refine Same.of_decr ?_ _
    exact ⟨rfl, rfl, rfl, rfl⟩
  · exact Same.refl s

/-- the socket state after `take` -/
theorem take_socket (s : State) (h : Nat) :
    (take s h).1.wire = s.wire ∧ (take s h).1.enq = s.enq ∧ (take s h).1.deq = s.deq := by
  unfold take
  split
  · simp only
    split
    · exact ⟨rfl, rfl, rfl⟩
    · split
      · have := same_decr { s with handles := s.handles.set h none } ‹Nat›
        exact ⟨this.wire, this.enq, this.deq⟩
      · next x _ _ =>
        have := same_decr { s with handles := s.handles.set h none, cells := s.cells.set ‹Nat› { x with taken := true }, user := s.user ++ [x.fd], takenFds := s.takenFds ++ [x.fd], raws := s.raws ++ [x.fd] } ‹Nat›
        exact ⟨this.wire, this.enq, this.deq⟩
  · exact ⟨rfl, rfl, rfl⟩

theorem userClose_socket (s : State) (r : Nat) :
    (userClose s r).1.wire = s.wire ∧ (userClose s r).1.enq = s.enq ∧ (userClose s r).1.deq = s.deq := by
  unfold userClose
  split
  · split <;> exact ⟨rfl, rfl, rfl⟩
  · exact ⟨rfl, rfl, rfl⟩

theorem wrap_socket (s : State) (r : Nat) :
    (wrap s r).1.wire = s.wire ∧ (wrap s r).1.enq = s.enq ∧ (wrap s r).1.deq = s.deq := by
  unfold wrap
  split
  · split <;> exact ⟨rfl, rfl, rfl⟩
  · exact ⟨rfl, rfl, rfl⟩

/-! ### the socket is a FIFO of whole messages -/

/-- what is still in the socket are the messages put in and not yet taken out, in order; the `k`-th message
    taken out carried (up to the limit of the receive buffer) the files of the `k`-th message put in -/
structure Fifo (s : State) : Prop where
  wire : s.wire.map (·.files) = s.enq.drop s.deq.length
  deq : s.deq = (s.enq.take s.deq.length).map (·.take maxRecvFds)

theorem fifo_init : Fifo State.init := ⟨rfl, rfl⟩

theorem Fifo.same {s s' : State} (h : Fifo s) (hs : Same s s') : Fifo s' :=
  ⟨by rw [hs.wire, hs.enq, hs.deq]; exact h.wire, by rw [hs.enq, hs.deq]; exact h.deq⟩

theorem Fifo.socket {s s' : State} (h : Fifo s) (hw : s'.wire = s.wire) (he : s'.enq = s.enq)
    (hd : s'.deq = s.deq) : Fifo s' :=
  ⟨by rw [hw, he, hd]; exact h.wire, by rw [he, hd]; exact h.deq⟩

theorem deq_le_enq {s : State} (h : Fifo s) : s.deq.length ≤ s.enq.length := by
  have := congrArg List.length h.deq
  simp only [List.length_map, List.length_take] at this
  omega

theorem Fifo.enqueue {s s' : State} (h : Fifo s) (m : Flight) (hw : s'.wire = s.wire ++ [m])
    (he : s'.enq = s.enq ++ [m.files]) (hd : s'.deq = s.deq) : Fifo s' := by
  have hle := deq_le_enq h
  constructor
  · rw [hw, he, hd, List.map_append, h.wire, List.drop_append_of_le_length hle]; rfl
  · rw [he, hd, List.take_append_of_le_length hle]; exact h.deq

theorem Fifo.dequeue {s s' : State} (h : Fifo s) (m : Flight) (rest : List Flight)
    (hw0 : s.wire = m :: rest) (hw : s'.wire = rest) (he : s'.enq = s.enq)
    (hd : s'.deq = s.deq ++ [m.files.take maxRecvFds]) : Fifo s' := by
  have h1 := h.wire
  rw [hw0] at h1
  simp only [List.map_cons] at h1
  have hlt : s.deq.length < s.enq.length := by
    rcases Nat.lt_or_ge s.deq.length s.enq.length with h' | h'
    · exact h'
    · rw [List.drop_eq_nil_of_le h'] at h1; simp at h1
  have hget : s.enq[s.deq.length]? = some m.files := by
    have := congrArg (fun l => l[0]?) h1
    simp only [List.getElem?_cons_zero, List.getElem?_drop, Nat.add_zero] at this
    exact this.symm
  constructor
  · rw [hw, he, hd]
    have := congrArg List.tail h1
    simp only [List.tail_cons, List.tail_drop] at this
    simpa using this
  · rw [he, hd]
    simp only [List.length_append, List.length_cons, List.length_nil]
    rw [List.take_add_one, hget]
    simp only [Option.toList_some, List.map_append, List.map_cons, List.map_nil]
    rw [← h.deq]

theorem fifo_receive {s : State} (h : Fifo s) : Fifo (receive s).1 := by
  unfold receive
  split
  · exact h
  · next m rest hw =>
    have hs := same_installAll (m.files.take maxRecvFds) { s with wire := rest, deq := s.deq ++ [m.files.take maxRecvFds] }
    simp only
    split
    · exact h.dequeue m rest hw hs.wire hs.enq hs.deq
    · have hd := same_dropRefs (installAll { s with wire := rest, deq := s.deq ++ [m.files.take maxRecvFds] } (m.files.take maxRecvFds)).1 (installAll { s with wire := rest, deq := s.deq ++ [m.files.take maxRecvFds] } (m.files.take maxRecvFds)).2
      exact h.dequeue m rest hw (hd.wire.trans hs.wire) (hd.enq.trans hs.enq) (hd.deq.trans hs.deq)

theorem fifo_send {s : State} (h : Fifo s) (b : Nat) : Fifo (send s b).1 := by
  unfold send
  split
  · exact h
  · split
    · exact h
    · split
      · exact h
      · next fl _ => exact h.enqueue ⟨fl, _, _, true⟩ rfl rfl rfl

theorem fifo_step {s : State} (h : Fifo s) (op : Op) : Fifo (step s op).1 := by
  cases op with
  | userOpen f => exact h.socket rfl rfl rfl
  | userClose r => obtain ⟨a, b, c⟩ := userClose_socket s r; exact h.socket a b c
  | wrap r => obtain ⟨a, b, c⟩ := wrap_socket s r; exact h.socket a b c
  | newBody => exact h.socket rfl rfl rfl
  | push b items => exact h.same (same_push s b items)
  | reset b => exact h.same (same_reset s b)
  | dropBody b => exact h.same (same_dropBody s b)
  | send b => exact fifo_send h b
  | peerSend files idx v => exact h.enqueue ⟨files, files.length, idx, v⟩ rfl rfl rfl
  | receive => exact fifo_receive h
  | unmarshalFd b j => exact h.same (same_unmarshalFd s b j)
  | take hd => obtain ⟨a, b, c⟩ := take_socket s hd; exact h.socket a b c
  | get hd => exact h.same (same_get s hd)
  | dupHandle hd => exact h.same (same_dupHandle s hd)
  | dupHandleFail hd => simp only [step, dupHandleFail_state]; exact h
  | cloneHandle hd => exact h.same (same_cloneHandle s hd)
  | dropHandle hd => exact h.same (same_dropHandle s hd)

theorem fifo_run : ∀ (ops : List Op) {s : State}, Fifo s → Fifo (run s ops)
  | [], _, h => h
  | op :: ops, _, h => fifo_run ops (fifo_step h op)

/-! ### a failed push -/

theorem decr_other (s : State) (c c' : Nat) (h : c' ≠ c) : (decr s c).cells[c']? = s.cells[c']? := by
  unfold decr libClose
  split
  · rfl
  · next x hx =>
    split
    · rfl
    · split
      · dsimp only
        split
        · simp [getElem?_set_of_some _ c' hx, h]
        · split <;> simp [getElem?_set_of_some _ c' hx, h]
      · simp [getElem?_set_of_some _ c' hx, h]

theorem dropRefs_other : ∀ (l : List Nat) (s : State) (c' : Nat), c' ∉ l →
    (dropRefs s l).cells[c']? = s.cells[c']?
  | [], _, _, _ => rfl
  | c :: cs, s, c', h => by
    simp only [List.mem_cons, not_or] at h
    simp only [dropRefs]
    rw [dropRefs_other cs (decr s c) c' h.2, decr_other s c c' h.1]

theorem refCount_zero_of_ge {s : State} (h : Inv s) {c : Nat} (hc : s.cells.length ≤ c) : refCount s c = 0 := by
  have := h.valid c hc
  simpa using this

/-- A push call that fails leaves the body, the caller's handles and descriptors, and the SET of open
    descriptors exactly as they were: every duplicate made before the failing element has been closed. -/
theorem push_err_restores {s : State} (hs : Inv s) (b : Nat) (items : List Item)
    (hr : (push s b items).2 = .err) :
    (push s b items).1.bodies = s.bodies ∧ (push s b items).1.handles = s.handles ∧
    (push s b items).1.raws = s.raws ∧ (push s b items).1.user = s.user ∧
    (push s b items).1.takenFds = s.takenFds ∧
    (∀ d, d ∈ keys (push s b items).1.open ↔ d ∈ keys s.open) ∧
    (∀ (c : Nat) (x : Cell), s.cells[c]? = some x → (push s b items).1.cells[c]? = some x) := by
  have hinv' := inv_push hs b items
  have key : ∀ r, push s b items = r → r.2 = .err → Inv r.1 →
      r.1.bodies = s.bodies ∧ r.1.handles = s.handles ∧ r.1.raws = s.raws ∧ r.1.user = s.user ∧
      r.1.takenFds = s.takenFds ∧
      (∀ d, d ∈ keys r.1.open ↔ d ∈ keys s.open) ∧
      (∀ (c : Nat) (x : Cell), s.cells[c]? = some x → r.1.cells[c]? = some x) := by
    intro r hp hr hinv
    unfold push at hp
    split at hp
    · subst hp; simp at hr
    · next bd hbd =>
      split at hp
      · subst hp; simp at hr
      · obtain ⟨news, hext, _, _, _⟩ := pushLoop_ext b items s bd hbd hs.bound
        split at hp
        · subst hp; simp at hr
        · next s1 hs1 =>
          rw [hs1] at hext
          simp only at hext
          split at hp
          · next hb1 => have := hext.body; rw [hb1] at this; simp at this
          · next bd1 hbd1 =>
            have hbody := hext.body
            rw [hbd1] at hbody
            simp only [Option.some.injEq] at hbody
            subst hbody
            subst hp
            simp only [List.take_left', List.drop_left', List.length_append] at hinv ⊢
            obtain ⟨f1, f2, _, f4, f5, _, f7, _, _, _, _⟩ := dropRefs_frame news { s1 with bodies := s1.bodies.set b ⟨bd.fds, bd.idx, bd.live⟩ }
            have hbodies : (dropRefs { s1 with bodies := s1.bodies.set b ⟨bd.fds, bd.idx, bd.live⟩ } news).bodies = s.bodies := by
              rw [f2]
              apply List.ext_getElem?
              intro k
              by_cases e : k = b
              · subst e
                have hlt : k < s1.bodies.length := by rw [hext.blen]; exact lt_length_of_getElem? hbd
                simp [hlt, hbd]
              · simp only [List.getElem?_set_ne (fun e' => e e'.symm)]
                exact hext.others k e
            have hhandles := f1.trans hext.handles
            have hcellsOld : ∀ (c : Nat) (x : Cell), s.cells[c]? = some x →
                (dropRefs { s1 with bodies := s1.bodies.set b ⟨bd.fds, bd.idx, bd.live⟩ } news).cells[c]? = some x := by
              intro c x hx
              rw [dropRefs_other]
              · exact hext.cells c x hx
              · intro hm
                have := (hext.newCells c hm).1
                have := lt_length_of_getElem? hx
                omega
            refine ⟨hbodies, hhandles, f4.trans hext.raws, f5.trans hext.user, f7.trans hext.takenFds, ?_, hcellsOld⟩
            intro d
            constructor
            · intro hd
              rcases hinv.noLeak d hd with hu | ⟨c, x, hx, hrefs, htk, hfd⟩
              · rw [f5, hext.user] at hu; exact hs.userOpen d hu
              · by_cases hlt : c < s.cells.length
                · have hx0 : s.cells[c]? = some s.cells[c] := by simp [hlt]
                  have := hcellsOld c _ hx0
                  rw [hx] at this; simp only [Option.some.injEq] at this; subst this
                  exact (hs.ownOpen c d ⟨_, hx0, hrefs, htk, hfd⟩).1
                · exfalso
                  have h0 := hinv.cnt c x hx
                  have hz : refCount s c = 0 := refCount_zero_of_ge hs (Nat.le_of_not_lt hlt)
                  simp only [refCount, hbodies, hhandles, List.count_nil, Nat.add_zero] at h0
                  simp only [refCount] at hz
                  omega
            · intro hd
              rcases hs.noLeak d hd with hu | ⟨c, x, hx, hrefs, htk, hfd⟩
              · exact hinv.userOpen d (by rw [f5, hext.user]; exact hu)
              · exact (hinv.ownOpen c d ⟨x, hcellsOld c x hx, hrefs, htk, hfd⟩).1
  exact key _ rfl hr hinv'

end Rustbus.FdTable
