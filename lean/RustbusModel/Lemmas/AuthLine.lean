import RustbusModel.Spec.Auth
/-
Lemmas for C17 part C, first half: `has_line_ending` / `find_line_ending`, the read loop, `read_message`.
-/
namespace Rustbus.Auth

/-! ### line endings -/

theorem hasLineEnding_cons (x : UInt8) (t : List UInt8) :
    hasLineEnding (x :: t) = ((x == 13 && t.head? == some 10) || hasLineEnding t) := by
  cases t with
  | nil => simp [hasLineEnding]
  | cons b rest => simp [hasLineEnding]

theorem findLineEnding_cons (x : UInt8) (t : List UInt8) :
    findLineEnding (x :: t) =
      if (x == 13 && t.head? == some 10) then some 0 else (findLineEnding t).map (· + 1) := by
  cases t with
  | nil => simp [findLineEnding]
  | cons b rest =>
    have e : (some b == some (10 : UInt8)) = (b == 10) := by simp
    simp only [findLineEnding, List.head?_cons, e]
    split
    · rfl
    · cases findLineEnding (b :: rest) <;> rfl

theorem hasLineEnding_nil : hasLineEnding [] = false := rfl

/-- a line ending stays when bytes are appended -/
theorem hasLineEnding_append_left (a b : List UInt8) (h : hasLineEnding a = true) :
    hasLineEnding (a ++ b) = true := by
  induction a with
  | nil => simp [hasLineEnding] at h
  | cons x t ih =>
    rw [List.cons_append, hasLineEnding_cons]
    rw [hasLineEnding_cons] at h
    simp only [Bool.or_eq_true, Bool.and_eq_true] at h ⊢
    rcases h with ⟨h1, h2⟩ | h
    · left
      refine ⟨h1, ?_⟩
      cases t with
      | nil => simp at h2
      | cons y ys => simpa using h2
    · right; exact ih h

theorem hasLineEnding_prefix_false (p T : List UInt8) (hp : p <+: T) (h : hasLineEnding T = false) :
    hasLineEnding p = false := by
  obtain ⟨q, rfl⟩ := hp
  cases hh : hasLineEnding p with
  | false => rfl
  | true => rw [hasLineEnding_append_left p q hh] at h; cases h

theorem hasLineEnding_append_crlf (l e : List UInt8) : hasLineEnding (l ++ 13 :: 10 :: e) = true := by
  induction l with
  | nil => simp [hasLineEnding]
  | cons x t ih => rw [List.cons_append, hasLineEnding_cons, ih]; simp

theorem hasLineEnding_append_cr (l : List UInt8) (h : hasLineEnding l = false) :
    hasLineEnding (l ++ [13]) = false := by
  induction l with
  | nil => simp [hasLineEnding]
  | cons x t ih =>
    rw [hasLineEnding_cons] at h
    simp only [Bool.or_eq_false_iff] at h
    rw [List.cons_append, hasLineEnding_cons, ih h.2]
    cases t with
    | nil => simp
    | cons y ys => simpa using h.1

/-- every proper prefix of `l ++ "\r\n"` is free of line endings when `l` is -/
theorem proper_prefix_no_ending (l p : List UInt8) (hl : hasLineEnding l = false)
    (hp : p <+: l ++ crlf) (hne : p ≠ l ++ crlf) : hasLineEnding p = false := by
  apply hasLineEnding_prefix_false p (l ++ [13]) ?_ (hasLineEnding_append_cr l hl)
  have hcr : l ++ crlf = (l ++ [13]) ++ [10] := by simp [crlf]
  rw [hcr] at hp hne
  rcases List.prefix_concat_iff.mp hp with h | h
  · exact absurd h hne
  · exact h

theorem findLineEnding_isSome (b : List UInt8) (h : hasLineEnding b = true) :
    ∃ i, findLineEnding b = some i := by
  induction b with
  | nil => simp [hasLineEnding] at h
  | cons x t ih =>
    rw [hasLineEnding_cons] at h
    rw [findLineEnding_cons]
    by_cases hc : (x == 13 && t.head? == some 10) = true
    · exact ⟨0, by simp [hc]⟩
    · simp only [Bool.not_eq_true] at hc
      simp only [hc, Bool.false_or] at h
      obtain ⟨i, hi⟩ := ih h
      exact ⟨i + 1, by simp [hc, hi]⟩

/-- `find_line_ending` returns the position of the FIRST "\r\n" -/
theorem findLineEnding_spec (b : List UInt8) (i : Nat) (h : findLineEnding b = some i) :
    b = b.take i ++ 13 :: 10 :: b.drop (i + 2) ∧ hasLineEnding (b.take i ++ [13]) = false := by
  induction b generalizing i with
  | nil => simp [findLineEnding] at h
  | cons x t ih =>
    rw [findLineEnding_cons] at h
    by_cases hc : (x == 13 && t.head? == some 10) = true
    · simp only [hc, if_true, Option.some.injEq] at h
      subst h
      simp only [Bool.and_eq_true, beq_iff_eq] at hc
      obtain ⟨rfl, h2⟩ := hc
      cases t with
      | nil => simp at h2
      | cons y ys =>
        simp only [List.head?_cons, Option.some.injEq] at h2
        subst h2
        simp [hasLineEnding]
    · simp only [Bool.not_eq_true] at hc
      simp only [hc, Bool.false_eq_true, if_false] at h
      cases hf : findLineEnding t with
      | none => simp [hf] at h
      | some j =>
        simp only [hf, Option.map_some, Option.some.injEq] at h
        subst h
        obtain ⟨h1, h2⟩ := ih j hf
        refine ⟨?_, ?_⟩
        · simp only [List.take_succ_cons, List.cons_append, List.drop_succ_cons, List.cons.injEq,
            true_and]
          exact h1
        · simp only [List.take_succ_cons, List.cons_append]
          rw [hasLineEnding_cons, h2, Bool.or_false]
          -- the pair (x, next) is not "\r\n"
          have hhead : (t.take j ++ [13]).head? = some 10 → t.head? = some 10 := by
            intro hh
            cases j with
            | zero =>
              -- then t starts with 13, 10
              rw [h1]; simp at hh
            | succ k =>
              cases t with
              | nil => simp [findLineEnding] at hf
              | cons y ys => simpa using hh
          cases hx : (x == 13) with
          | false => simp
          | true =>
            simp only [hx, Bool.true_and] at hc ⊢
            cases hh : ((t.take j ++ [13]).head? == some 10) with
            | false => rfl
            | true =>
              have := hhead (by simpa using hh)
              simp [this] at hc

theorem findLineEnding_append_crlf (l e : List UInt8) (hl : hasLineEnding l = false) :
    findLineEnding (l ++ 13 :: 10 :: e) = some l.length := by
  induction l with
  | nil => simp [findLineEnding]
  | cons x t ih =>
    rw [hasLineEnding_cons] at hl
    simp only [Bool.or_eq_false_iff] at hl
    rw [List.cons_append, findLineEnding_cons, ih hl.2]
    have : (x == 13 && (t ++ 13 :: 10 :: e).head? == some 10) = false := by
      cases t with
      | nil => simp
      | cons y ys => simpa using hl.1
    simp only [this, Bool.false_eq_true, if_false, Option.map_some, List.length_cons]

/-! ### the read loop -/

theorem readLoop_done (buf : List UInt8) (s : List Ev) (h : hasLineEnding buf = true) :
    readLoop buf s = ⟨.ok buf, s, 0, 0⟩ := by
  cases s <;> simp [readLoop, h]

theorem readLoop_chunk (buf bs : List UInt8) (s : List Ev) (h : hasLineEnding buf = false)
    (hb : bs ≠ []) :
    readLoop buf (.chunk bs :: s) =
      ⟨(readLoop (buf ++ bs) s).buf, (readLoop (buf ++ bs) s).rest, (readLoop (buf ++ bs) s).reads + 1,
        (readLoop (buf ++ bs) s).consumed + bs.length⟩ := by
  simp [readLoop, h, hb]

theorem readLoop_stops (buf : List UInt8) (s : List Ev) (f : Fail) (h : hasLineEnding buf = false)
    (hs : Stops s f) : readLoop buf s = ⟨.error f, s.tail, 1, 0⟩ := by
  cases hs <;> simp [readLoop, h]

/-- reading a stream that delivers exactly `T` (whose first line ending is at its very end) -/
theorem readLoop_chunks (T : List UInt8) (hT : hasLineEnding T = true)
    (hpre : ∀ p, p <+: T → p ≠ T → hasLineEnding p = false) :
    ∀ (cs : List (List UInt8)) (buf : List UInt8) (rest : List Ev), buf ++ cs.flatten = T →
      (∀ c ∈ cs, c ≠ []) →
      readLoop buf (cs.map Ev.chunk ++ rest) = ⟨.ok T, rest, cs.length, cs.flatten.length⟩ := by
  intro cs
  induction cs with
  | nil =>
    intro buf rest h _
    simp only [List.flatten_nil, List.append_nil] at h
    subst h
    simpa using readLoop_done buf rest hT
  | cons c cs ih =>
    intro buf rest h hne
    have hc : c ≠ [] := hne c (by simp)
    have hbuf : hasLineEnding buf = false := by
      apply hpre buf ⟨(c :: cs).flatten, h⟩
      intro hb
      have := congrArg List.length h
      rw [hb] at this
      simp only [List.flatten_cons, List.length_append] at this
      have : c.length = 0 := by omega
      exact hc (List.length_eq_zero_iff.mp this)
    simp only [List.map_cons, List.cons_append]
    rw [readLoop_chunk buf c _ hbuf hc,
      ih (buf ++ c) rest (by simpa [List.append_assoc] using h) (fun x hx => hne x (by simp [hx]))]
    simp only [List.length_cons, List.flatten_cons, List.length_append, LoopOut.mk.injEq, true_and]
    omega

/-- reading a stream that stops after the CRLF-free bytes `P` -/
theorem readLoop_stop (P : List UInt8) (hP : hasLineEnding P = false) :
    ∀ (cs : List (List UInt8)) (buf : List UInt8) (s : List Ev) (f : Fail), buf ++ cs.flatten = P →
      (∀ c ∈ cs, c ≠ []) → Stops s f →
      readLoop buf (cs.map Ev.chunk ++ s) = ⟨.error f, s.tail, cs.length + 1, cs.flatten.length⟩ := by
  intro cs
  induction cs with
  | nil =>
    intro buf s f h _ hs
    simp only [List.flatten_nil, List.append_nil] at h
    subst h
    simpa using readLoop_stops buf s f hP hs
  | cons c cs ih =>
    intro buf s f h hne hs
    have hc : c ≠ [] := hne c (by simp)
    have hbuf : hasLineEnding buf = false :=
      hasLineEnding_prefix_false buf P ⟨(c :: cs).flatten, h⟩ hP
    simp only [List.map_cons, List.cons_append]
    rw [readLoop_chunk buf c _ hbuf hc,
      ih (buf ++ c) s f (by simpa [List.append_assoc] using h) (fun x hx => hne x (by simp [hx])) hs]
    simp only [List.length_cons, List.flatten_cons, List.length_append, LoopOut.mk.injEq, true_and]
    omega

/-- complete description of one run of the read loop -/
theorem readLoop_spec : ∀ (s : List Ev) (buf : List UInt8),
    ∃ cs : List (List UInt8), (∀ c ∈ cs, c ≠ []) ∧ (readLoop buf s).consumed = cs.flatten.length ∧
      ((∃ B, (readLoop buf s).buf = .ok B ∧ B = buf ++ cs.flatten ∧ hasLineEnding B = true ∧
          s = cs.map Ev.chunk ++ (readLoop buf s).rest ∧ (readLoop buf s).reads = cs.length ∧
          (∀ cs', cs' <+: cs → cs' ≠ cs → hasLineEnding (buf ++ cs'.flatten) = false)) ∨
       (∃ f st, (readLoop buf s).buf = .error f ∧ Stops st f ∧ s = cs.map Ev.chunk ++ st ∧
          (readLoop buf s).rest = st.tail ∧ (readLoop buf s).reads = cs.length + 1 ∧
          hasLineEnding (buf ++ cs.flatten) = false)) := by
  intro s
  induction s with
  | nil =>
    intro buf
    by_cases h : hasLineEnding buf = true
    · refine ⟨[], by simp, by simp [readLoop, h], Or.inl ⟨buf, by simp [readLoop, h], by simp, h,
        by simp [readLoop, h], by simp [readLoop, h], ?_⟩⟩
      intro cs' h1 h2
      exact absurd (List.prefix_nil.mp h1) h2
    · simp only [Bool.not_eq_true] at h
      exact ⟨[], by simp, by simp [readLoop, h], Or.inr ⟨.eof, [], by simp [readLoop, h], .exhausted,
        by simp, by simp [readLoop, h], by simp [readLoop, h], by simpa using h⟩⟩
  | cons ev s ih =>
    intro buf
    by_cases h : hasLineEnding buf = true
    · rw [readLoop_done buf _ h]
      refine ⟨[], by simp, by simp, Or.inl ⟨buf, rfl, by simp, h, by simp, by simp, ?_⟩⟩
      intro cs' h1 h2
      exact absurd (List.prefix_nil.mp h1) h2
    · simp only [Bool.not_eq_true] at h
      cases ev with
      | eof =>
        rw [readLoop_stops buf _ .eof h (.eof s)]
        exact ⟨[], by simp, by simp, Or.inr ⟨.eof, .eof :: s, rfl, .eof s, by simp, by simp, by simp,
          by simpa using h⟩⟩
      | err =>
        rw [readLoop_stops buf _ .ioOther h (.err s)]
        exact ⟨[], by simp, by simp, Or.inr ⟨.ioOther, .err :: s, rfl, .err s, by simp, by simp,
          by simp, by simpa using h⟩⟩
      | chunk bs =>
        by_cases hb : bs = []
        · subst hb
          rw [readLoop_stops buf _ .eof h (.empty s)]
          exact ⟨[], by simp, by simp, Or.inr ⟨.eof, .chunk [] :: s, rfl, .empty s, by simp, by simp,
            by simp, by simpa using h⟩⟩
        · rw [readLoop_chunk buf bs s h hb]
          obtain ⟨cs, hne, hcons, hcase⟩ := ih (buf ++ bs)
          refine ⟨bs :: cs, ?_, ?_, ?_⟩
          · intro c hc
            simp only [List.mem_cons] at hc
            rcases hc with rfl | hc
            · exact hb
            · exact hne c hc
          · simp only [hcons, List.flatten_cons, List.length_append]; omega
          · rcases hcase with ⟨B, h1, h2, h3, h4, h5, h6⟩ | ⟨f, st, h1, h2, h3, h4, h5, h6⟩
            · left
              refine ⟨B, h1, by simp [h2, List.append_assoc], h3, ?_, by simp [h5], ?_⟩
              · simp only [List.map_cons, List.cons_append, List.cons.injEq, true_and]
                exact h4
              · intro cs' hp hn
                cases cs' with
                | nil => simpa using h
                | cons d ds =>
                  have hd := List.cons_prefix_cons.mp hp
                  obtain ⟨rfl, hds⟩ := hd
                  have := h6 ds hds (fun e => hn (by rw [e]))
                  simpa [List.append_assoc] using this
            · right
              refine ⟨f, st, h1, h2, ?_, h4, by simp [h5], by simpa [List.append_assoc] using h6⟩
              simp only [List.map_cons, List.cons_append, List.cons.injEq, true_and]
              exact h3

end Rustbus.Auth
