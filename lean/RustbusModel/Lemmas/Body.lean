import RustbusModel.Model.Body
import RustbusModel.Lemmas.Marshal
import RustbusModel.Lemmas.Wire
import RustbusModel.Lemmas.Sig
/-!
Lemmas about the body builder / parser model. Statements fixed; helper lemmas may be added above.
-/
namespace Rustbus.Body
open Rustbus Rustbus.Bytes Rustbus.Wire Rustbus.Marshal Rustbus.Spec.Wire

def itemsTypes : List (Ty × Val) → List Ty := List.map Prod.fst
def itemsVals : List (Ty × Val) → List Val := List.map Prod.snd
def plainItems (ps : List (Ty × Val)) : List Item := ps.map (fun p => Item.plain p.1 p.2)


/-! ### helpers -/

theorem pushAll_plain_aux : ∀ (ps : List (Ty × Val)) (b0 b : Body),
    pushAll b0 (plainItems ps) = some b ↔
      ∃ bs, encFields b0.bo b0.buf.length (itemsTypes ps) (itemsVals ps) = some bs ∧
        b.buf = b0.buf ++ bs ∧ b.sig = b0.sig ++ Ty.listToStr (itemsTypes ps) ∧
        b.nfds = b0.nfds ∧ b.bo = b0.bo := by
  intro ps
  induction ps with
  | nil =>
    intro b0 b
    obtain ⟨bo0, buf0, sig0, n0⟩ := b0
    obtain ⟨bo1, buf1, sig1, n1⟩ := b
    simp only [plainItems, itemsTypes, itemsVals, List.map_nil, pushAll, encFields, Ty.listToStr,
      Option.some.injEq, Body.mk.injEq, List.append_nil]
    constructor
    · rintro ⟨rfl, rfl, rfl, rfl⟩
      exact ⟨[], rfl, by simp, rfl, rfl, rfl⟩
    · rintro ⟨bs, rfl, h1, h2, h3, h4⟩
      simp only [List.append_nil] at h1
      exact ⟨h4.symm, h1.symm, h2.symm, h3.symm⟩
  | cons p ps ih =>
    intro b0 b
    obtain ⟨t, v⟩ := p
    have e1 : plainItems ((t, v) :: ps) = Item.plain t v :: plainItems ps := rfl
    have e2 : itemsTypes ((t, v) :: ps) = t :: itemsTypes ps := rfl
    have e3 : itemsVals ((t, v) :: ps) = v :: itemsVals ps := rfl
    rw [e1, e2, e3]
    simp only [pushAll, pushItem, encFields, Ty.listToStr, marshalM_eq_enc]
    cases hx : enc b0.bo b0.buf.length t v with
    | none => simp
    | some x =>
      simp only [Option.map_some]
      rw [ih]
      simp only [List.length_append, List.append_assoc]
      constructor
      · rintro ⟨bs, h1, h2, h3, h4, h5⟩
        refine ⟨x ++ bs, ?_, h2, h3, h4, h5⟩
        rw [h1]
      · rintro ⟨bs, h1, h2, h3, h4, h5⟩
        cases hr : encFields b0.bo (b0.buf.length + x.length) (itemsTypes ps) (itemsVals ps) with
        | none => simp [hr] at h1
        | some bs' =>
          simp only [hr, Option.some.injEq] at h1
          subst h1
          exact ⟨bs', rfl, h2, h3, h4, h5⟩

/-- Pushing plain values one after the other produces exactly the concatenated encodings (each at the
    absolute offset where the previous one ended) and the concatenated signatures. -/
theorem pushAll_plain_eq (bo : ByteOrder) (ps : List (Ty × Val)) (b : Body) :
    pushAll (Body.empty bo) (plainItems ps) = some b ↔
      (encFields bo 0 (itemsTypes ps) (itemsVals ps) = some b.buf ∧ b.sig = Ty.listToStr (itemsTypes ps) ∧
       b.nfds = 0 ∧ b.bo = bo) := by
  rw [pushAll_plain_aux]
  simp only [Body.empty, List.length_nil, List.nil_append]
  constructor
  · rintro ⟨bs, h1, h2, h3, h4, h5⟩
    exact ⟨h2 ▸ h1, h3, h4, h5⟩
  · rintro ⟨h1, h2, h3, h4⟩
    exact ⟨b.buf, h1, rfl, h2, h3, h4⟩

/-- the parser standing at the start of a complete type sees exactly that type -/
theorem nextSig_at (b : Body) (p : Parser) (spre rest : List Char) (t : Ty)
    (hs : b.sig = spre ++ (t.toStr ++ rest)) (hp : p.sigIdx = spre.length) :
    nextSig b p = some t.toStr := by
  have hpos := Sig.toStr_length_pos t
  have hlt : ¬ (p.sigIdx ≥ b.sig.length) := by
    rw [hs, hp]; simp only [List.length_append]; omega
  have hdrop : b.sig.drop p.sigIdx = t.toStr ++ rest := by
    rw [hs, hp, List.drop_left]
  have hne : (t.toStr ++ rest).isEmpty = false := by
    cases h : t.toStr with
    | nil => rw [h] at hpos; simp at hpos
    | cons c tl => rfl
  unfold nextSig
  simp only [if_neg hlt, hdrop, hne, Sig.iterNext_ty]
  rfl

theorem getAll_aux (b : Body) : ∀ (ps : List (Ty × Val)) (pre bs suf : List UInt8)
    (spre ssuf : List Char),
    encFields b.bo pre.length (itemsTypes ps) (itemsVals ps) = some bs →
    b.buf = pre ++ (bs ++ suf) →
    b.sig = spre ++ (Ty.listToStr (itemsTypes ps) ++ ssuf) →
    (∀ p ∈ ps, depthOf p.1 p.2 ≤ maxDepth ∧ fdsBelow b.nfds p.1 p.2 = true) →
    getAll b ⟨pre.length, spre.length⟩ (itemsTypes ps) =
      .ok (itemsVals ps, ⟨pre.length + bs.length,
        spre.length + (Ty.listToStr (itemsTypes ps)).length⟩) := by
  intro ps
  induction ps with
  | nil =>
    intro pre bs suf spre ssuf h _ _ _
    simp only [itemsTypes, itemsVals, List.map_nil, encFields, Option.some.injEq] at h
    subst h
    simp [itemsTypes, itemsVals, getAll, Ty.listToStr]
  | cons q ps ih =>
    intro pre bs suf spre ssuf h hbuf hsig hall
    obtain ⟨t, v⟩ := q
    have e2 : itemsTypes ((t, v) :: ps) = t :: itemsTypes ps := rfl
    have e3 : itemsVals ((t, v) :: ps) = v :: itemsVals ps := rfl
    rw [e2, e3] at h ⊢
    rw [e2] at hsig
    simp only [encFields] at h
    cases hx : enc b.bo pre.length t v with
    | none => simp [hx] at h
    | some x =>
      simp only [hx] at h
      cases hr : encFields b.bo (pre.length + x.length) (itemsTypes ps) (itemsVals ps) with
      | none => simp [hr] at h
      | some bs' =>
        simp only [hr, Option.some.injEq] at h
        subst h
        have hq := hall (t, v) (by simp)
        simp only [Ty.listToStr, List.append_assoc] at hsig
        have hns := nextSig_at b ⟨pre.length, spre.length⟩ spre _ t hsig rfl
        have hbuf' : b.buf = pre ++ (x ++ (bs' ++ suf)) := by
          rw [hbuf]; simp only [List.append_assoc]
        have hdec := dec_enc b.bo t v pre x (bs' ++ suf) (some b.nfds) maxDepth b.buf.length hx hq.1
          (by simpa [fdsOk] using hq.2)
          (by rw [hbuf']; simp only [List.length_append]; omega)
          (by rw [hbuf']; simp only [List.length_append]; omega)
        rw [← hbuf'] at hdec
        have hih := ih (pre ++ x) bs' suf (spre ++ t.toStr) ssuf
          (by simpa [List.length_append] using hr)
          (by rw [hbuf']; simp only [List.append_assoc])
          (by rw [hsig]; simp only [List.append_assoc])
          (fun p hp => hall p (List.mem_cons_of_mem _ hp))
        simp only [List.length_append] at hih
        simp only [getAll, get, hns, ne_eq, not_true_eq_false, if_false, hdec, hih,
          Ty.listToStr, List.length_append, Nat.add_assoc]


/-- A parser over a body built from plain values returns exactly those values, in order, and ends at the
    end of both the bytes and the signature. -/
theorem parser_roundtrip (bo : ByteOrder) (ps : List (Ty × Val)) (b : Body)
    (hb : pushAll (Body.empty bo) (plainItems ps) = some b)
    (hsig : Spec.Sig.Denotes b.sig (itemsTypes ps))
    (hd : ∀ p ∈ ps, depthOf p.1 p.2 ≤ maxDepth ∧ fdsBelow 0 p.1 p.2 = true) :
    getAll b ⟨0, 0⟩ (itemsTypes ps) = .ok (itemsVals ps, ⟨b.buf.length, b.sig.length⟩) := by
  have _ := hsig  -- not needed: the signature is determined by `hb`
  obtain ⟨h1, h2, h3, h4⟩ := (pushAll_plain_eq bo ps b).mp hb
  have := getAll_aux b ps [] b.buf [] [] [] (by simpa [h4] using h1) (by simp) (by simp [h2])
    (fun p hp => by rw [h3]; exact hd p hp)
  simpa [← h2] using this

/-- Asking for a type other than the next one in the signature is an error, never a misread
    (for a valid body signature `listToStr ts` and a parser standing at the start of its `i`-th type). -/
theorem get_mismatch (b : Body) (ts₁ ts₂ : List Ty) (t t' : Ty)
    (hsig : Spec.Sig.Denotes b.sig (ts₁ ++ t :: ts₂)) (p : Parser)
    (hp : p.sigIdx = (Ty.listToStr ts₁).length) (hne : t'.toStr ≠ t.toStr) :
    get b p t' = .error .wrongSignature := by
  obtain ⟨-, hs, -⟩ := hsig
  rw [Sig.listToStr_append] at hs
  have hns := nextSig_at b p (Ty.listToStr ts₁) (Ty.listToStr ts₂) t hs hp
  unfold get
  simp only [hns]
  rw [if_pos (fun h => hne h.symm)]

end Rustbus.Body

#print axioms Rustbus.Body.pushAll_plain_eq
#print axioms Rustbus.Body.parser_roundtrip
#print axioms Rustbus.Body.get_mismatch
