import RustbusModel.Model.HasSig
import RustbusModel.Lemmas.SigIter
/-!
Helpers for `Lemmas/Api.lean`: printed types are prefix-free and injective; `has_sig` against the printed form.
-/
namespace Rustbus.HasSig
open Rustbus Rustbus.Sig Ty

/-! ### printing: prefix-freeness and injectivity -/

theorem toStr_append_inj {t t0 : Ty} {r r0 : List Char} (h : toStr t ++ r = toStr t0 ++ r0) :
    toStr t = toStr t0 ∧ r = r0 := by
  have h1 := iterNext_ty t r
  rw [h, iterNext_ty] at h1
  simp only [Option.some.injEq, Prod.mk.injEq] at h1
  exact ⟨h1.1.symm, h1.2.symm⟩

theorem base_char_inj {b b0 : Base} (h : b.char = b0.char) : b = b0 := by
  have := ofChar_char b
  rw [h, ofChar_char] at this
  exact (Option.some.inj this).symm

theorem toStr_head_ne_brace (t : Ty) (tl : List Char) : toStr t ≠ '{' :: tl := by
  obtain ⟨c, tl', h, hs⟩ := toStr_start t
  intro h'
  rw [h] at h'
  have := (isStart_facts hs).2.1
  simp only [List.cons.injEq] at h'
  exact this h'.1

mutual
theorem toStr_inj : (t t0 : Ty) → toStr t = toStr t0 → t = t0
  | .base b, t0, h => by
    obtain ⟨h1, h2, h3, h4, h5, h6, -⟩ := base_char_facts b
    cases t0 with
    | base b0 =>
      simp only [toStr, List.cons.injEq, and_true] at h
      rw [base_char_inj h]
    | array e0 => simp only [toStr, List.cons.injEq] at h; exact absurd h.1 h3
    | dict k0 v0 => simp only [toStr, List.cons.injEq] at h; exact absurd h.1 h3
    | struct fs0 => simp only [toStr, List.cons.injEq] at h; exact absurd h.1 h1
    | variant => simp only [toStr, List.cons.injEq] at h; exact absurd h.1 h6
  | .variant, t0, h => by
    cases t0 with
    | base b0 =>
      simp only [toStr, List.cons.injEq] at h
      exact absurd h.1.symm (base_char_facts b0).2.2.2.2.2.1
    | array e0 => simp [toStr] at h
    | dict k0 v0 => simp [toStr] at h
    | struct fs0 => simp [toStr] at h
    | variant => rfl
  | .array e, t0, h => by
    cases t0 with
    | base b0 =>
      simp only [toStr, List.cons.injEq] at h
      exact absurd h.1.symm (base_char_facts b0).2.2.1
    | array e0 =>
      simp only [toStr, List.cons.injEq, true_and] at h
      rw [toStr_inj e e0 h]
    | dict k0 v0 =>
      simp only [toStr, List.cons.injEq, true_and] at h
      exact absurd h (toStr_head_ne_brace e _)
    | struct fs0 => simp [toStr] at h
    | variant => simp [toStr] at h
  | .dict k v, t0, h => by
    cases t0 with
    | base b0 =>
      simp only [toStr, List.cons.injEq] at h
      exact absurd h.1.symm (base_char_facts b0).2.2.1
    | array e0 =>
      simp only [toStr, List.cons.injEq, true_and] at h
      exact absurd h.symm (toStr_head_ne_brace e0 _)
    | dict k0 v0 =>
      simp only [toStr, List.cons.injEq, true_and] at h
      have h2 := List.append_cancel_right h.2
      rw [base_char_inj h.1, toStr_inj v v0 h2]
    | struct fs0 => simp [toStr] at h
    | variant => simp [toStr] at h
  | .struct fs, t0, h => by
    cases t0 with
    | base b0 =>
      simp only [toStr, List.cons.injEq] at h
      exact absurd h.1.symm (base_char_facts b0).1
    | array e0 => simp [toStr] at h
    | dict k0 v0 => simp [toStr] at h
    | struct fs0 =>
      simp only [toStr, List.cons.injEq, true_and] at h
      have h2 := List.append_cancel_right h
      rw [listToStr_inj fs fs0 h2]
    | variant => simp [toStr] at h
theorem listToStr_inj : (ts ts0 : List Ty) → listToStr ts = listToStr ts0 → ts = ts0
  | [], [], _ => rfl
  | [], t0 :: ts0, h => by
    simp only [listToStr] at h
    have := toStr_length_pos t0
    have h' := congrArg List.length h
    simp only [List.length_nil, List.length_append] at h'
    omega
  | t :: ts, [], h => by
    simp only [listToStr] at h
    have := toStr_length_pos t
    have h' := congrArg List.length h
    simp only [List.length_nil, List.length_append] at h'
    omega
  | t :: ts, t0 :: ts0, h => by
    simp only [listToStr] at h
    obtain ⟨h1, h2⟩ := toStr_append_inj h
    rw [toStr_inj t t0 h1, listToStr_inj ts ts0 h2]
end

end Rustbus.HasSig

namespace Rustbus.HasSig
open Rustbus Rustbus.Sig Ty

/-! ### the iterator on the strings `has_sig` hands to it -/

theorem iterHead_nil : iterHead [] = some none := rfl

theorem iterHead_ty (t : Ty) (rest : List Char) :
    iterHead (toStr t ++ rest) = some (some (toStr t, rest)) := by
  obtain ⟨c, tl, h, -⟩ := toStr_start t
  unfold iterHead
  rw [iterNext_ty]
  simp [h]

theorem iterHead_ty' (t : Ty) : iterHead (toStr t) = some (some (toStr t, [])) := by
  have := iterHead_ty t []
  rwa [List.append_nil] at this

theorem iterHead_base (k : Base) (rest : List Char) :
    iterHead ([k.char] ++ rest) = some (some ([k.char], rest)) := by
  have := iterHead_ty (.base k) rest
  simpa only [toStr] using this

/-- the inside of a dict seen from an array: one `{…}` piece -/
theorem iterNext_entry (k : Base) (v : Ty) (rest : List Char) :
    iterNext ('{' :: k.char :: (toStr v ++ '}' :: rest)) =
      some ('{' :: k.char :: (toStr v ++ ['}']), rest) := by
  obtain ⟨b1, b2, b3, b4, b5, -, -⟩ := base_char_facts k
  unfold iterNext
  generalize hs : '{' :: k.char :: (toStr v ++ '}' :: rest) = s
  have h0 : s.drop 0 = '{' :: k.char :: (toStr v ++ '}' :: rest) := by rw [← hs]; rfl
  have h1 := drop_succ_of_cons h0
  have h2 := drop_succ_of_cons h1
  have h3 := drop_add_of_append h2
  have e : s.length + 1 = ((rest.length + 1 + 1) + (toStr v).length) + 1 + 1 := by
    rw [← hs]; simp only [List.length_cons, List.length_append]; omega
  have ih := iter_ty v s (0 + 1 + 1) ('}' :: rest) (0 + 1) (rest.length + 1 + 1) (by omega) h2
  rw [e, iter_open _ _ h0 (Or.inr rfl) (by omega), iter_plain _ _ h1 b3 b1 b4 b2 b5,
    if_neg (by omega), ih, if_neg (by omega), iter_close _ _ h3 (Or.inr rfl), if_pos rfl]
  have e2 : 0 + 1 + 1 + (toStr v).length + 1 = ('{' :: k.char :: (toStr v ++ ['}'])).length := by
    simp only [List.length_cons, List.length_append, List.length_nil]; omega
  have e3 : s = ('{' :: k.char :: (toStr v ++ ['}'])) ++ rest := by
    rw [← hs]; simp
  simp only [e2]
  rw [e3, List.take_left, List.drop_left]

theorem iterHead_entry (k : Base) (v : Ty) :
    iterHead ('{' :: k.char :: (toStr v ++ ['}'])) =
      some (some ('{' :: k.char :: (toStr v ++ ['}']), [])) := by
  unfold iterHead
  rw [iterNext_entry]
  simp

/-! ### `has_sig` -/

/-- no type accepts a piece starting with `{` -/
theorem hasSig_brace (t : Ty) (tl : List Char) : hasSig t ('{' :: tl) = some false := by
  cases t with
  | base b =>
    have := (base_char_facts b).2.2.2.1
    simp only [hasSig, List.head?_cons]
    congr 1
    simp only [beq_eq_false_iff_ne, ne_eq, Option.some.injEq]
    exact fun h => this h.symm
  | variant => simp [hasSig]
  | array e => simp [hasSig]
  | dict k v => simp [hasSig]
  | struct fs => simp [hasSig]

end Rustbus.HasSig

namespace Rustbus.HasSig
open Rustbus Rustbus.Sig Ty

theorem hasSig_array_ne (e : Ty) {c : Char} (tl : List Char) (h : c ≠ 'a') :
    hasSig (.array e) (c :: tl) = some false := by
  simp only [hasSig]
  split
  · rename_i heq; simp only [List.cons.injEq] at heq; exact absurd heq.1 h
  · rfl

theorem hasSig_dict_ne (k : Base) (v : Ty) {c : Char} (tl : List Char) (h : c ≠ 'a') :
    hasSig (.dict k v) (c :: tl) = some false := by
  simp only [hasSig]
  split
  · rename_i heq; simp only [List.cons.injEq] at heq; exact absurd heq.1 h
  · rfl

theorem hasSig_dict_ne2 (k : Base) (v : Ty) {c : Char} (tl : List Char) (h : c ≠ '{') :
    hasSig (.dict k v) ('a' :: c :: tl) = some false := by
  simp only [hasSig]
  split
  · rename_i heq; simp only [List.cons.injEq] at heq; exact absurd heq.2.1 h
  · rfl

theorem hasSig_struct_ne (fs : List Ty) {c : Char} (tl : List Char) (h : c ≠ '(') :
    hasSig (.struct fs) (c :: tl) = some false := by
  simp only [hasSig]
  split
  · rename_i heq; simp only [List.cons.injEq] at heq; exact absurd heq.1 h
  · rfl

theorem eq_some_decide {x : Option Bool} {b : Bool} {p : Prop} [Decidable p] (h1 : x = some b)
    (h2 : b = true ↔ p) : x = some (decide p) := by
  subst h1; congr 1
  cases b <;> simp_all

theorem eq_some_false {x : Option Bool} {p : Prop} [Decidable p] (h1 : x = some false)
    (h2 : ¬p) : x = some (decide p) := by
  subst h1; simp [h2]

mutual
theorem hasSig_toStr : (t t0 : Ty) → hasSig t (toStr t0) = some (decide (toStr t = toStr t0))
  | .base b, t0 => by
    obtain ⟨h1, h2, h3, h4, h5, h6, -⟩ := base_char_facts b
    refine eq_some_decide (by simp only [hasSig]; rfl) ?_
    cases t0 with
    | base b0 =>
      simp only [toStr, List.head?_cons, beq_iff_eq, Option.some.injEq, List.cons.injEq, and_true]
      exact eq_comm
    | array e0 => simp [toStr, h3, Ne.symm h3]
    | dict k0 v0 => simp [toStr, h3, Ne.symm h3]
    | struct fs0 => simp [toStr, h1, Ne.symm h1]
    | variant => simp [toStr, h6, Ne.symm h6]
  | .variant, t0 => by
    refine eq_some_decide (by simp only [hasSig]; rfl) ?_
    cases t0 with
    | base b0 =>
      have := (base_char_facts b0).2.2.2.2.2.1
      simp [toStr, this, Ne.symm this]
    | array e0 => simp [toStr]
    | dict k0 v0 => simp [toStr]
    | struct fs0 => simp [toStr]
    | variant => simp [toStr]
  | .array e, t0 => by
    cases t0 with
    | base b0 =>
      have := (base_char_facts b0).2.2.1
      refine eq_some_false (by simp only [toStr]; exact hasSig_array_ne _ _ this) ?_
      simp [toStr, Ne.symm this]
    | array e0 =>
      refine eq_some_decide (by simp only [toStr, hasSig, iterHead_ty']; exact hasSig_toStr e e0) ?_
      simp [toStr]
    | dict k0 v0 =>
      refine eq_some_false (by simp only [toStr, hasSig, iterHead_entry, hasSig_brace]) ?_
      have := toStr_head_ne_brace e (k0.char :: (toStr v0 ++ ['}']))
      simp [toStr, this]
    | struct fs0 =>
      refine eq_some_false (by simp only [toStr]; exact hasSig_array_ne _ _ (by decide)) ?_
      simp [toStr]
    | variant =>
      refine eq_some_false (by simp only [toStr]; exact hasSig_array_ne _ _ (by decide)) ?_
      simp [toStr]
  | .dict k v, t0 => by
    cases t0 with
    | base b0 =>
      have := (base_char_facts b0).2.2.1
      refine eq_some_false (by simp only [toStr]; exact hasSig_dict_ne _ _ _ this) ?_
      simp [toStr, Ne.symm this]
    | array e0 =>
      obtain ⟨c, tl, hc, hs⟩ := toStr_start e0
      have hne := (isStart_facts hs).2.1
      refine eq_some_false (by simp only [toStr, hc]; exact hasSig_dict_ne2 _ _ _ hne) ?_
      simp [toStr, hc, Ne.symm hne]
    | dict k0 v0 =>
      have e1 : (k0.char :: (toStr v0 ++ ['}'])).dropLast = [k0.char] ++ toStr v0 := by
        rw [← List.cons_append, List.dropLast_concat]; rfl
      refine eq_some_decide
        (by simp only [toStr, hasSig, e1, iterHead_base, iterHead_ty', hasSig_toStr v v0]; rfl) ?_
      simp only [List.head?_cons, toStr, List.cons.injEq, true_and, List.append_cancel_right_eq,
        Bool.and_eq_true, decide_eq_true_eq, beq_iff_eq, Option.some.injEq]
      exact ⟨fun h => ⟨h.1.symm, h.2⟩, fun h => ⟨h.1.symm, h.2⟩⟩
    | struct fs0 =>
      refine eq_some_false (by simp only [toStr]; exact hasSig_dict_ne _ _ _ (by decide)) ?_
      simp [toStr]
    | variant =>
      refine eq_some_false (by simp only [toStr]; exact hasSig_dict_ne _ _ _ (by decide)) ?_
      simp [toStr]
  | .struct fs, t0 => by
    cases t0 with
    | base b0 =>
      have := (base_char_facts b0).1
      refine eq_some_false (by simp only [toStr]; exact hasSig_struct_ne _ _ this) ?_
      simp [toStr, Ne.symm this]
    | array e0 =>
      refine eq_some_false (by simp only [toStr]; exact hasSig_struct_ne _ _ (by decide)) ?_
      simp [toStr]
    | dict k0 v0 =>
      refine eq_some_false (by simp only [toStr]; exact hasSig_struct_ne _ _ (by decide)) ?_
      simp [toStr]
    | struct fs0 =>
      refine eq_some_decide
        (by simp only [toStr, hasSig, List.getLast?_concat, List.dropLast_concat, beq_self_eq_true, if_true]
            exact hasSigFields_toStr fs fs0) ?_
      simp [toStr]
    | variant =>
      refine eq_some_false (by simp only [toStr]; exact hasSig_struct_ne _ _ (by decide)) ?_
      simp [toStr]
theorem hasSigFields_toStr : (ts ts0 : List Ty) →
    hasSigFields ts (listToStr ts0) = some (decide (listToStr ts = listToStr ts0))
  | [], [] => by
    refine eq_some_decide (by simp only [hasSigFields, listToStr, iterHead_nil]; rfl) ?_
    simp
  | [], t0 :: ts0 => by
    have := toStr_ne_nil t0
    refine eq_some_false (by simp only [hasSigFields, listToStr, iterHead_ty]) ?_
    simp [listToStr, this]
  | t :: ts, [] => by
    have := toStr_ne_nil t
    refine eq_some_false (by simp only [hasSigFields, listToStr, iterHead_nil]) ?_
    simp [listToStr, this]
  | t :: ts, t0 :: ts0 => by
    by_cases h : toStr t = toStr t0
    · refine eq_some_decide
        (by simp only [hasSigFields, listToStr, iterHead_ty, hasSig_toStr t t0, h, decide_true]
            exact hasSigFields_toStr ts ts0) ?_
      simp [listToStr, h]
    · refine eq_some_false
        (by simp only [hasSigFields, listToStr, iterHead_ty, hasSig_toStr t t0, h, decide_false]) ?_
      exact fun h' => h (toStr_append_inj h').1
end

end Rustbus.HasSig
