import RustbusModel.Model.Header
import RustbusModel.Lemmas.Names
import RustbusModel.Lemmas.WireBase
/-!
Header proofs, part 3: a valid interface / member / error / bus name is plain ASCII without NUL, hence a
valid D-Bus string (`strOk .string`): what `write_string` emits for it is what `enc` emits.
-/
namespace Rustbus.Header
open Rustbus Rustbus.Bytes Rustbus.Wire Rustbus.Names

/-- printable 7-bit: the only property of the name character classes needed here -/
def Ascii (c : Char) : Prop := 0 < c.toNat ∧ c.toNat < 128

theorem ascii_clsName (c : Char) (h : clsName c = true) : Ascii c := by
  have := (clsName_iff c).mp h
  simp only [SpecNameChar] at this
  have h1 : 'a'.toNat = 97 := by decide
  have h2 : 'z'.toNat = 122 := by decide
  have h3 : 'A'.toNat = 65 := by decide
  have h4 : 'Z'.toNat = 90 := by decide
  have h5 : '0'.toNat = 48 := by decide
  have h6 : '9'.toNat = 57 := by decide
  rcases this with h | h | h | h
  · constructor <;> omega
  · constructor <;> omega
  · constructor <;> omega
  · subst h; constructor <;> decide

theorem ascii_clsBus (c : Char) (h : clsBus c = true) : Ascii c := by
  simp only [clsBus, Bool.or_eq_true, beq_iff_eq] at h
  rcases h with h | h
  · exact ascii_clsName c (by simp only [clsName, Bool.or_eq_true, beq_iff_eq]; exact h)
  · subst h; constructor <;> decide

theorem ascii_of_elems (cls : Char → Bool) (hcls : ∀ c, cls c = true → Ascii c) (d : Bool)
    (s : List Char) (h : (splitOn '.' s).all (elemOk cls d) = true) : ∀ c ∈ s, Ascii c := by
  apply chars_of_split '.' s Ascii (by constructor <;> decide)
  intro e he c hc
  rw [List.all_eq_true] at h
  have := h e he
  unfold elemOk at this
  split at this
  · simp at hc
  · simp only [Bool.and_eq_true, List.all_eq_true] at this
    exact hcls c (this.2 c hc)

theorem ascii_interface (s : List Char) (h : validateInterface s = true) : ∀ c ∈ s, Ascii c := by
  unfold validateInterface at h
  split at h
  · simp at h
  · simp only [Bool.and_eq_true] at h
    exact ascii_of_elems clsName ascii_clsName false s h.1

theorem ascii_busname (s : List Char) (h : validateBusname s = true) : ∀ c ∈ s, Ascii c := by
  unfold validateBusname at h
  split at h
  · simp at h
  · split at h
    rename_i unique rest heq
    simp only [Bool.and_eq_true] at h
    have hr := ascii_of_elems clsBus ascii_clsBus unique rest h.1
    split at heq
    · rename_i r
      simp only [Prod.mk.injEq] at heq
      obtain ⟨_, rfl⟩ := heq
      intro c hc
      simp only [List.mem_cons] at hc
      rcases hc with rfl | hc
      · constructor <;> decide
      · exact hr c hc
    · simp only [Prod.mk.injEq] at heq
      obtain ⟨_, rfl⟩ := heq
      exact hr

theorem ascii_member (s : List Char) (h : validateMembername s = true) : ∀ c ∈ s, Ascii c := by
  unfold validateMembername at h
  split at h
  · simp at h
  · split at h
    · simp at h
    · simp only [Bool.and_eq_true, List.all_eq_true] at h
      intro c hc
      exact ascii_clsName c (h.2 c hc)

theorem utf8_of_ascii (bs : List UInt8) (h : ∀ b ∈ bs, b < 0x80) : Utf8.valid bs = true := by
  induction bs with
  | nil => rfl
  | cons b bs ih =>
    unfold Utf8.valid
    have hb := h b (by simp)
    simp only [hb, if_true]
    exact ih (fun x hx => h x (by simp [hx]))

theorem strOk_of_ascii (bs : List UInt8) (h : ∀ c ∈ latin1 bs, Ascii c) : strOk .string bs = true := by
  have hb : ∀ b ∈ bs, 0 < b.toNat ∧ b.toNat < 128 := by
    intro b hb
    have := h (Char.ofNat b.toNat) (by simp only [latin1, List.mem_map]; exact ⟨b, hb, rfl⟩)
    unfold Ascii at this
    rwa [char_toNat_ofNat _ b.toNat_lt] at this
  simp only [strOk, Bool.and_eq_true, Bool.not_eq_true']
  constructor
  · apply utf8_of_ascii
    intro b hbm
    have := (hb b hbm).2
    exact UInt8.lt_iff_toNat_lt.mpr (by simpa using this)
  · rw [Bool.eq_false_iff]
    intro hc
    simp only [List.contains_iff_mem] at hc
    have := (hb 0 hc).1
    simp at this

/-- the name-valued header fields written by `write_string` are valid strings -/
theorem nameOk_strOk (code : Nat) (s : List UInt8) (hc : code ≠ 1) (h : nameOk code s = true) :
    strOk .string s = true := by
  apply strOk_of_ascii
  unfold nameOk at h
  split at h
  · exact absurd rfl hc
  · exact ascii_interface _ h
  · exact ascii_member _ h
  · exact ascii_interface _ h
  · exact ascii_busname _ h
  · exact ascii_busname _ h
  · simp at h

theorem nameOk_path (s : List UInt8) : nameOk 1 s = strOk .objpath s := rfl

end Rustbus.Header
