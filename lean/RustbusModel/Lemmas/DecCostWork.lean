import RustbusModel.Lemmas.DecCost
/-!
C04 lemmas, part 2: (c) the work bound `work_all`: with `B ≥ 256` and `B ≥ size t`,
`work ≤ size t + B·(d+1)·(bytes charged)`, bytes charged = consumed bytes on success, window on failure.
Per element of an array the constant overhead `1 + size e ≤ B` is charged to the ≥ 1 byte the element
consumes, which costs one extra `B` per nesting level; a variant's inner type has at most 255 nodes.
Products of variables are atoms for `omega`; the distributivity instances it needs are supplied by hand.
-/
namespace Rustbus.Wire
open Rustbus Rustbus.Bytes

theorem decBaseWork_success (bo : ByteOrder) (buf : List UInt8) (nfds : Option Nat) (b : Base) (off lim : Nat)
    (v : Val) (o' : Nat) (h : decBase bo buf nfds b off lim = some (v, o')) :
    decBaseWork bo buf b off lim ≤ o' - off := by
  have hp := (encBase_decBase bo buf nfds b off lim v o' h).1
  unfold decBaseWork
  unfold decBase at h
  cases hk : b.fixedSize with
  | some k => simp only []; omega
  | none =>
    rw [hk] at h
    simp only [] at h ⊢
    cases b <;> simp [Base.fixedSize] at hk
    all_goals
      simp only [] at h ⊢
    case signature =>
      cases h2 : readNum bo buf off lim 1 with
      | none => simp [h2] at h
      | some len =>
        simp only [h2] at h ⊢
        split at h
        · rename_i hl
          split at h
          · simp only [Option.some.injEq, Prod.mk.injEq] at h
            obtain ⟨_, rfl⟩ := h
            simp only [if_pos hl]; omega
          · simp at h
        · simp at h
    all_goals
      cases h1 : skipPad buf off lim 4 with
      | none => simp [h1] at h
      | some o =>
        simp only [h1] at h ⊢
        have ho := (skipPad_sound _ _ _ _ _ h1).1
        cases h2 : readNum bo buf o lim 4 with
        | none => simp [h2] at h
        | some len =>
          simp only [h2] at h ⊢
          split at h
          · rename_i hl
            split at h
            · simp only [Option.some.injEq, Prod.mk.injEq] at h
              obtain ⟨_, rfl⟩ := h
              simp only [if_pos hl]; omega
            · simp at h
          · simp at h

theorem decBaseWork_le (bo : ByteOrder) (buf : List UInt8) (b : Base) (off lim : Nat) :
    decBaseWork bo buf b off lim ≤ 1 + (lim - off) := by
  unfold decBaseWork
  cases hk : b.fixedSize with
  | some k => simp only []; omega
  | none =>
    simp only []
    cases b <;> simp [Base.fixedSize] at hk
    all_goals
      simp only []
    case signature =>
      cases h2 : readNum bo buf off lim 1 with
      | none => simp
      | some len => simp only []; split <;> omega
    all_goals
      cases h1 : skipPad buf off lim 4 with
      | none => simp
      | some o =>
        simp only []
        have ho := (skipPad_sound _ _ _ _ _ h1).1
        cases h2 : readNum bo buf o lim 4 with
        | none => simp
        | some len => simp only []; split <;> omega

theorem decBaseWork_pos (bo : ByteOrder) (buf : List UInt8) (b : Base) (off lim : Nat) :
    1 ≤ decBaseWork bo buf b off lim := by
  unfold decBaseWork
  repeat' split
  all_goals omega


/-! ### the size of a type is at most the length of its signature -/
mutual
theorem size_le_toStr : (t : Ty) → t.size ≤ t.toStr.length
  | .base _ => by simp [Ty.size, Ty.toStr]
  | .array e => by have := size_le_toStr e; simp [Ty.size, Ty.toStr]; omega
  | .dict _ v => by have := size_le_toStr v; simp [Ty.size, Ty.toStr]; omega
  | .struct fs => by have := sizeList_le_toStr fs; simp [Ty.size, Ty.toStr]; omega
  | .variant => by simp [Ty.size, Ty.toStr]
theorem sizeList_le_toStr : (ts : List Ty) → Ty.sizeList ts ≤ (Ty.listToStr ts).length
  | [] => by simp [Ty.sizeList, Ty.listToStr]
  | t :: ts => by
    have := size_le_toStr t; have := sizeList_le_toStr ts
    simp [Ty.sizeList, Ty.listToStr]; omega
end

theorem size_pos (t : Ty) : 1 ≤ t.size := by cases t <;> simp [Ty.size] <;> omega

/-- the type a variant announces has at most 255 nodes -/
theorem parse_size (sg : List UInt8) (t : Ty) (h : Sig.parseDescription (latin1 sg) = some [t]) :
    t.size ≤ 255 := by
  have h2 := (parse_sound sg t h).2
  simp only [variantTypeOk, Bool.and_eq_true, decide_eq_true_eq, sigBytes_length] at h2
  have := size_le_toStr t
  omega

/-! ### (c) the work bound -/

/-- bytes a decode is charged for: what it consumed if it succeeded, the whole window if it failed -/
def span {α : Type} (r : Option (α × Nat)) (off lim : Nat) : Nat :=
  match r with
  | some (_, o') => o' - off
  | none => lim - off

/-- the work bound at budget `d` with constant `B` -/
def WorkOk (bo : ByteOrder) (buf : List UInt8) (nfds : Option Nat) (B d : Nat) : Prop :=
  ∀ (t : Ty) (off lim : Nat), t.size ≤ B →
    (decW bo buf nfds d t off lim).work ≤ t.size + B * (d + 1) * span (dec bo buf nfds d t off lim) off lim

theorem span_le {bo : ByteOrder} {buf : List UInt8} {nfds : Option Nat} {d : Nat} (t : Ty) (off lim : Nat) :
    span (dec bo buf nfds d t off lim) off lim ≤ lim - off := by
  cases h : dec bo buf nfds d t off lim with
  | none => simp [span]
  | some p =>
    obtain ⟨v, o'⟩ := p
    have := enc_dec bo buf nfds d t off lim v o' h
    simp only [span]; omega

variable {bo : ByteOrder} {buf : List UInt8} {nfds : Option Nat} {B d : Nat}

theorem decListW_work (hS : WorkOk bo buf nfds B d) (e : Ty) (hB : 1 + e.size ≤ B) (lim fuel off : Nat)
    (hle : off ≤ lim) :
    (decListW bo buf nfds d e off lim fuel).work ≤ 1 + e.size + (B * (d + 1) + B) * (lim - off) := by
  generalize hc : B * (d + 1) = c
  induction fuel generalizing off with
  | zero => rw [decListW_zero]; simp only []; omega
  | succ fuel ih =>
    rw [decListW_succ]
    split
    · simp only []; omega
    · have ha := hS e off lim (by omega)
      have hsame := (same_all bo buf nfds d e off lim).1
      rw [hc] at ha
      rcases hw : decW bo buf nfds d e off lim with ⟨r, w, dp⟩
      rw [hw] at ha hsame
      simp only at ha hsame
      rw [← hsame] at ha
      cases r with
      | none =>
        simp only [span] at ha ⊢
        have := Nat.add_mul c B (lim - off)
        omega
      | some p =>
        obtain ⟨v, o'⟩ := p
        simp only [span] at ha ⊢
        obtain ⟨k1, k2, _⟩ := enc_dec bo buf nfds d e off lim v o' hsame.symm
        have hi := ih o' k2
        rcases hw' : decListW bo buf nfds d e o' lim fuel with ⟨r', w', dp'⟩
        rw [hw'] at hi
        simp only at hi
        have e1 : (c + B) * (lim - off) = (c + B) * (o' - off) + (c + B) * (lim - o') := by
          rw [← Nat.mul_add]; congr 1; omega
        have e2 := Nat.add_mul c B (o' - off)
        have e3 : B ≤ B * (o' - off) := Nat.le_mul_of_pos_right _ (by omega)
        cases r' <;> simp only [] <;> omega


theorem decEntriesW_work (hS : WorkOk bo buf nfds B d) (k : Base) (vt : Ty) (hB : 1 + vt.size ≤ B)
    (lim fuel off : Nat) (hle : off ≤ lim) :
    (decEntriesW bo buf nfds d k vt off lim fuel).work ≤ 2 + vt.size + (B * (d + 1) + B) * (lim - off) := by
  generalize hc : B * (d + 1) = c
  induction fuel generalizing off with
  | zero => rw [decEntriesW_zero]; simp only []; omega
  | succ fuel ih =>
    rw [decEntriesW_succ]
    split
    · simp only []; omega
    · cases h1 : skipPad buf off lim 8 with
      | none => simp only []; omega
      | some o =>
        simp only []
        obtain ⟨ho, ho2, _, _⟩ := skipPad_sound _ _ _ _ _ h1
        have eB : B * (lim - off) ≥ lim - off := Nat.le_mul_of_pos_left _ (by omega)
        have eF := Nat.add_mul c B (lim - off)
        cases hk : decBase bo buf nfds k o lim with
        | none =>
          simp only []
          have := decBaseWork_le bo buf k o lim
          omega
        | some p =>
          obtain ⟨kv, o1⟩ := p
          simp only []
          have hkw := decBaseWork_success bo buf nfds k o lim kv o1 hk
          obtain ⟨q1, q2, _⟩ := encBase_decBase bo buf nfds k o lim kv o1 hk
          have ha := hS vt o1 lim (by omega)
          have hsame := (same_all bo buf nfds d vt o1 lim).1
          rw [hc] at ha
          rcases hw : decW bo buf nfds d vt o1 lim with ⟨r, w, dp⟩
          rw [hw] at ha hsame
          simp only at ha hsame
          rw [← hsame] at ha
          cases r with
          | none =>
            simp only [span] at ha ⊢
            have e1 : (c + B) * (lim - off) ≥ (c + B) * (o1 - o) + (c + B) * (lim - o1) := by
              rw [← Nat.mul_add]; exact Nat.mul_le_mul_left _ (by omega)
            have e2 := Nat.add_mul c B (o1 - o)
            have e3 := Nat.add_mul c B (lim - o1)
            have e4 : o1 - o ≤ B * (o1 - o) := Nat.le_mul_of_pos_left _ (by omega)
            omega
          | some p =>
            obtain ⟨vv, o2⟩ := p
            simp only [span] at ha ⊢
            obtain ⟨k1, k2, _⟩ := enc_dec bo buf nfds d vt o1 lim vv o2 hsame.symm
            have hi := ih o2 k2
            rcases hw' : decEntriesW bo buf nfds d k vt o2 lim fuel with ⟨r', w', dp'⟩
            rw [hw'] at hi
            simp only at hi
            have e1 : (c + B) * (lim - off) ≥ (c + B) * (o1 - o) + (c + B) * (o2 - o1) + (c + B) * (lim - o2) := by
              rw [← Nat.mul_add, ← Nat.mul_add]; exact Nat.mul_le_mul_left _ (by omega)
            have e2 := Nat.add_mul c B (o1 - o)
            have e3 := Nat.add_mul c B (o2 - o1)
            have e4 : o1 - o ≤ B * (o1 - o) := Nat.le_mul_of_pos_left _ (by omega)
            have e5 : B ≤ B * (o2 - o1) := Nat.le_mul_of_pos_right _ (by omega)
            cases r' <;> simp only [] <;> omega

theorem decFieldsW_work (hS : WorkOk bo buf nfds B d) (ts : List Ty) (hB : Ty.sizeList ts ≤ B)
    (lim off : Nat) (hle : off ≤ lim) :
    (decFieldsW bo buf nfds d ts off lim).work ≤
      Ty.sizeList ts + B * (d + 1) * span (decFields bo buf nfds d ts off lim) off lim := by
  generalize hc : B * (d + 1) = c
  induction ts generalizing off with
  | nil => rw [decFieldsW_nil]; simp
  | cons t ts ih =>
    rw [decFieldsW_cons, decFields_cons]
    simp only [Ty.sizeList] at hB ⊢
    have ha := hS t off lim (by omega)
    have hsame := (same_all bo buf nfds d t off lim).1
    rw [hc] at ha
    rcases hw : decW bo buf nfds d t off lim with ⟨r, w, dp⟩
    rw [hw] at ha hsame
    simp only at ha hsame
    rw [← hsame] at ha ⊢
    cases r with
    | none => simp only [span] at ha ⊢; omega
    | some p =>
      obtain ⟨v, o'⟩ := p
      simp only [span] at ha ⊢
      obtain ⟨k1, k2, _⟩ := enc_dec bo buf nfds d t off lim v o' hsame.symm
      have hi := ih (by omega) o' k2
      have hsame' := (decFieldsW_same (same_all bo buf nfds d) ts lim o').1
      rcases hw' : decFieldsW bo buf nfds d ts o' lim with ⟨r', w', dp'⟩
      rw [hw'] at hi hsame'
      simp only at hi hsame'
      rw [← hsame'] at hi ⊢
      cases r' with
      | none =>
        simp only [span] at hi ⊢
        have e1 : c * (lim - off) = c * (o' - off) + c * (lim - o') := by
          rw [← Nat.mul_add]; congr 1; omega
        omega
      | some q =>
        obtain ⟨vs, o''⟩ := q
        simp only [span] at hi ⊢
        have hge : o' ≤ o'' := (decFields_sound bo buf nfds d (sound_all bo buf nfds d) ts o' lim vs o'' hsame'.symm).1
        have e1 : c * (o'' - off) = c * (o' - off) + c * (o'' - o') := by
          rw [← Nat.mul_add]; congr 1; omega
        omega


theorem work_array (hS : WorkOk bo buf nfds B d) (e : Ty) (off lim : Nat) (hB : (Ty.array e).size ≤ B) :
    (decW bo buf nfds (d + 1) (.array e) off lim).work ≤
      (Ty.array e).size + B * (d + 1 + 1) * span (dec bo buf nfds (d + 1) (.array e) off lim) off lim := by
  rw [Nat.mul_succ B (d + 1)]
  generalize hc : B * (d + 1) = c
  simp only [Ty.size] at hB ⊢
  rw [decW_array, dec_array]
  cases h1 : skipPad buf off lim 4 with
  | none => simp only []; omega
  | some o =>
    simp only []
    cases h2 : readNum bo buf o lim 4 with
    | none => simp only []; omega
    | some len =>
      simp only []
      split
      · cases h3 : skipPad buf (o + 4) lim e.align with
        | none => simp only []; omega
        | some o2 =>
          simp only []
          split
          · rename_i hl
            obtain ⟨ho, _, _, _⟩ := skipPad_sound _ _ _ _ _ h1
            obtain ⟨ho2, _, _, _⟩ := skipPad_sound _ _ _ _ _ h3
            have hi := decListW_work hS e hB (o2 + len) len o2 (by omega)
            rw [hc] at hi
            have hsame := (decListW_same (same_all bo buf nfds d) e (o2 + len) len o2).1
            rcases hw' : decListW bo buf nfds d e o2 (o2 + len) len with ⟨r', w', dp'⟩
            rw [hw'] at hi hsame
            simp only at hi hsame
            rw [← hsame]
            have e0 : o2 + len - o2 = len := by omega
            rw [e0] at hi
            have e1 : (c + B) * (o2 + len - off) ≥ (c + B) * len + (c + B) * 1 := by
              rw [← Nat.mul_add]; exact Nat.mul_le_mul_left _ (by omega)
            have e2 : (c + B) * (lim - off) ≥ (c + B) * (o2 + len - off) := Nat.mul_le_mul_left _ (by omega)
            cases r' <;> simp only [span] <;> omega
          · simp only []; omega
      · simp only []; omega

theorem work_dict (hS : WorkOk bo buf nfds B d) (k : Base) (vt : Ty) (off lim : Nat)
    (hB : (Ty.dict k vt).size ≤ B) :
    (decW bo buf nfds (d + 2) (.dict k vt) off lim).work ≤
      (Ty.dict k vt).size + B * (d + 2 + 1) * span (dec bo buf nfds (d + 2) (.dict k vt) off lim) off lim := by
  rw [Nat.mul_succ B (d + 2), Nat.mul_succ B (d + 1)]
  generalize hc : B * (d + 1) = c
  simp only [Ty.size] at hB ⊢
  rw [decW_dict, dec_dict]
  cases h1 : skipPad buf off lim 4 with
  | none => simp only []; omega
  | some o =>
    simp only []
    cases h2 : readNum bo buf o lim 4 with
    | none => simp only []; omega
    | some len =>
      simp only []
      split
      · cases h3 : skipPad buf (o + 4) lim 8 with
        | none => simp only []; omega
        | some o2 =>
          simp only []
          split
          · rename_i hl
            obtain ⟨ho, _, _, _⟩ := skipPad_sound _ _ _ _ _ h1
            obtain ⟨ho2, _, _, _⟩ := skipPad_sound _ _ _ _ _ h3
            have hi := decEntriesW_work hS k vt (by omega) (o2 + len) len o2 (by omega)
            rw [hc] at hi
            have hsame := (decEntriesW_same (same_all bo buf nfds d) k vt (o2 + len) len o2).1
            rcases hw' : decEntriesW bo buf nfds d k vt o2 (o2 + len) len with ⟨r', w', dp'⟩
            rw [hw'] at hi hsame
            simp only at hi hsame
            rw [← hsame]
            have e0 : o2 + len - o2 = len := by omega
            rw [e0] at hi
            have e1 : (c + B + B) * (o2 + len - off) ≥ (c + B + B) * len + (c + B + B) * 1 := by
              rw [← Nat.mul_add]; exact Nat.mul_le_mul_left _ (by omega)
            have e2 : (c + B + B) * (lim - off) ≥ (c + B + B) * (o2 + len - off) :=
              Nat.mul_le_mul_left _ (by omega)
            have e3 := Nat.add_mul (c + B) B len
            cases r' <;> simp only [span] <;> omega
          · simp only []; omega
      · simp only []; omega

theorem work_struct (hS : WorkOk bo buf nfds B d) (fs : List Ty) (off lim : Nat)
    (hB : (Ty.struct fs).size ≤ B) :
    (decW bo buf nfds (d + 1) (.struct fs) off lim).work ≤
      (Ty.struct fs).size + B * (d + 1 + 1) * span (dec bo buf nfds (d + 1) (.struct fs) off lim) off lim := by
  rw [Nat.mul_succ B (d + 1)]
  simp only [Ty.size] at hB ⊢
  rw [decW_struct, dec_struct]
  split
  · simp only []; omega
  · cases h1 : skipPad buf off lim 8 with
    | none => simp only []; omega
    | some o =>
      simp only []
      obtain ⟨ho, ho2, _, _⟩ := skipPad_sound _ _ _ _ _ h1
      have hi := decFieldsW_work hS fs (by omega) lim o ho2
      have hsame := (decFieldsW_same (same_all bo buf nfds d) fs lim o).1
      generalize hc : B * (d + 1) = c at hi ⊢
      rcases hw' : decFieldsW bo buf nfds d fs o lim with ⟨r', w', dp'⟩
      rw [hw'] at hi hsame
      simp only at hi hsame
      rw [← hsame] at hi ⊢
      cases r' with
      | none =>
        simp only [span] at hi ⊢
        have e1 : (c + B) * (lim - off) ≥ c * (lim - o) := by
          rw [Nat.add_mul]; exact Nat.le_trans (Nat.mul_le_mul_left _ (by omega)) (Nat.le_add_right _ _)
        omega
      | some q =>
        obtain ⟨vs, o''⟩ := q
        simp only [span] at hi ⊢
        have e1 : (c + B) * (o'' - off) ≥ c * (o'' - o) := by
          rw [Nat.add_mul]; exact Nat.le_trans (Nat.mul_le_mul_left _ (by omega)) (Nat.le_add_right _ _)
        omega

theorem work_variant (hS : WorkOk bo buf nfds B d) (hB256 : 256 ≤ B) (off lim : Nat) :
    (decW bo buf nfds (d + 1) .variant off lim).work ≤
      Ty.variant.size + B * (d + 1 + 1) * span (dec bo buf nfds (d + 1) .variant off lim) off lim := by
  rw [Nat.mul_succ B (d + 1)]
  simp only [Ty.size]
  rw [decW_variant, dec_variant]
  cases h1 : readNum bo buf off lim 1 with
  | none => simp only []; omega
  | some len =>
    simp only []
    split
    · rename_i hl
      have eL : (B * (d + 1) + B) * (lim - off) ≥ (B * (d + 1) + B) * (len + 2) :=
        Nat.mul_le_mul_left _ (by omega)
      have eL2 := Nat.add_mul (B * (d + 1)) B (len + 2)
      have eL3 := Nat.mul_add B len 2
      have eL4 : len ≤ B * len := Nat.le_mul_of_pos_left _ (by omega)
      split
      · generalize hp : Sig.parseDescription (latin1 (slice buf (off + 1) len)) = p
        match p with
        | some [t] =>
          simp only []
          have hsz := parse_size _ t hp
          have ha := hS t (off + len + 2) lim (by omega)
          have hsame := (same_all bo buf nfds d t (off + len + 2) lim).1
          generalize hc : B * (d + 1) = c at *
          rcases hw : decW bo buf nfds d t (off + len + 2) lim with ⟨r, w, dp⟩
          rw [hw] at ha hsame
          simp only at ha hsame
          rw [← hsame] at ha ⊢
          cases r with
          | none =>
            simp only [span] at ha ⊢
            have e1 : (c + B) * (lim - off) ≥ (c + B) * (lim - (off + len + 2)) + (c + B) * (len + 2) := by
              rw [← Nat.mul_add]; exact Nat.mul_le_mul_left _ (by omega)
            have e2 := Nat.add_mul c B (lim - (off + len + 2))
            omega
          | some q =>
            obtain ⟨v, o'⟩ := q
            simp only [span] at ha ⊢
            obtain ⟨k1, k2, _⟩ := enc_dec bo buf nfds d t (off + len + 2) lim v o' hsame.symm
            have e1 : (c + B) * (o' - off) ≥ (c + B) * (o' - (off + len + 2)) + (c + B) * (len + 2) := by
              rw [← Nat.mul_add]; exact Nat.mul_le_mul_left _ (by omega)
            have e2 := Nat.add_mul c B (o' - (off + len + 2))
            omega
        | none => simp only [span]; omega
        | some [] => simp only [span]; omega
        | some (_ :: _ :: _) => simp only [span]; omega
      · simp only []; omega
    · simp only []; omega

/-- (c): for every budget the work is at most `size t + B·(d+1)·(bytes charged)` as soon as `B ≥ size t, 256` -/
theorem work_all (bo : ByteOrder) (buf : List UInt8) (nfds : Option Nat) (B : Nat) (hB : 256 ≤ B) (d : Nat) :
    WorkOk bo buf nfds B d := by
  induction d using Nat.strongRecOn with
  | _ d ih =>
    intro t off lim hsz
    match t, d with
    | .base b, d =>
      rw [decW_base, dec_base]
      simp only [Ty.size]
      have eB : ∀ n, n ≤ B * (d + 1) * n := fun n =>
        Nat.le_mul_of_pos_left _ (Nat.mul_pos (by omega) (by omega))
      cases h : decBase bo buf nfds b off lim with
      | none =>
        simp only [span]
        have := decBaseWork_le bo buf b off lim
        have := eB (lim - off)
        omega
      | some p =>
        obtain ⟨v, o'⟩ := p
        simp only [span]
        have := decBaseWork_success bo buf nfds b off lim v o' h
        have := eB (o' - off)
        omega
    | .array e, 0 | .dict _ _, 0 | .struct _, 0 | .variant, 0 =>
      rw [decW_zero _ _ _ _ _ _ (by intro b; simp)]
      have := size_pos
      simp only []
      first
        | (have := size_pos (.array e); omega)
        | (rename_i k v; have := size_pos (.dict k v); omega)
        | (rename_i fs; have := size_pos (.struct fs); omega)
        | (have := size_pos .variant; omega)
    | .dict k v, 1 =>
      rw [decW_dict_one]
      have := size_pos (.dict k v)
      simp only []; omega
    | .array e, d + 1 => exact work_array (ih d (by omega)) e off lim hsz
    | .dict k vt, d + 2 => exact work_dict (ih d (by omega)) k vt off lim hsz
    | .struct fs, d + 1 => exact work_struct (ih d (by omega)) fs off lim hsz
    | .variant, d + 1 => exact work_variant (ih d (by omega)) hB off lim


/-! ### a whole body -/

theorem decBody_eq_fields (bo : ByteOrder) (buf : List UInt8) (nfds : Option Nat) (ts : List Ty) (off : Nat) :
    decBody bo buf nfds ts off =
      match decFields bo buf nfds maxDepth ts off buf.length with
      | none => none
      | some (vs, o) => if o = buf.length then some vs else none := by
  induction ts generalizing off with
  | nil => simp only [decBody, decFields_nil]
  | cons t ts ih =>
    simp only [decBody, decFields_cons]
    cases dec bo buf nfds maxDepth t off buf.length with
    | none => rfl
    | some p =>
      obtain ⟨v, o'⟩ := p
      simp only [ih]
      cases decFields bo buf nfds maxDepth ts o' buf.length with
      | none => rfl
      | some q =>
        obtain ⟨vs, o⟩ := q
        simp only []
        by_cases ho : o = buf.length <;> simp [ho]

theorem decBodyW_all (bo : ByteOrder) (buf : List UInt8) (nfds : Option Nat) (ts : List Ty) (off : Nat)
    (B : Nat) (hB : 256 ≤ B) (hs : Ty.sizeList ts ≤ B) (hoff : off ≤ buf.length) :
    (decBodyW bo buf nfds ts off).res = decBody bo buf nfds ts off ∧
    (decBodyW bo buf nfds ts off).depth ≤ maxDepth ∧
    (decBodyW bo buf nfds ts off).work ≤ Ty.sizeList ts + B * (maxDepth + 1) * (buf.length - off) := by
  have hsame := decFieldsW_same (same_all bo buf nfds maxDepth) ts buf.length off
  have hwork := decFieldsW_work (work_all bo buf nfds B hB maxDepth) ts hs buf.length off hoff
  have hspan : span (decFields bo buf nfds maxDepth ts off buf.length) off buf.length ≤ buf.length - off := by
    cases hf : decFields bo buf nfds maxDepth ts off buf.length with
    | none => simp [span]
    | some q =>
      obtain ⟨vs, o⟩ := q
      obtain ⟨h1, h2, _⟩ := decFields_sound bo buf nfds maxDepth (sound_all bo buf nfds maxDepth) ts off
        buf.length vs o hf
      simp only [span]
      cases ts with
      | nil =>
        rw [decFields_nil] at hf
        simp only [Option.some.injEq, Prod.mk.injEq] at hf
        omega
      | cons t ts => have := (h2 (by simp)).2.1; omega
  have hm := Nat.mul_le_mul_left (B * (maxDepth + 1)) hspan
  rw [decBody_eq_fields]
  unfold decBodyW
  rcases hw : decFieldsW bo buf nfds maxDepth ts off buf.length with ⟨r, w, dp⟩
  rw [hw] at hsame hwork
  simp only at hsame hwork
  obtain ⟨hr, hd⟩ := hsame
  rw [← hr]
  cases r with
  | none => exact ⟨rfl, hd, by simp only []; omega⟩
  | some q => obtain ⟨vs, o⟩ := q; exact ⟨rfl, hd, by simp only []; omega⟩

end Rustbus.Wire
