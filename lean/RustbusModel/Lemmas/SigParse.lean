import RustbusModel.Lemmas.SigPrint
/-!
`parseNext` / `parseStruct` / `parseDictEntry` / `parseAll` against the printed form.
-/
namespace Rustbus.Sig
open Rustbus Rustbus.Spec.Sig Ty

/-! ### Unfolding lemmas, one per leading character class -/

theorem parseNext_base (f : Nat) (d : Bool) (b : Base) (rest : List Char) :
    parseNext (f + 1) d (b.char :: rest) = some (some (.base b), rest) := by
  have := base_char_facts b
  simp [parseNext, this, ofChar_char]

theorem parseNext_variant (f : Nat) (d : Bool) (rest : List Char) :
    parseNext (f + 1) d ('v' :: rest) = some (some .variant, rest) := by
  simp [parseNext, ofChar_paren]

theorem parseNext_close (f : Nat) (rest : List Char) :
    parseNext (f + 1) true (')' :: rest) = some (none, rest) := by
  simp [parseNext]

theorem parseNext_open (f : Nat) (d : Bool) (rest : List Char) :
    parseNext (f + 1) d ('(' :: rest) =
      match parseStruct f rest with
      | some (ts, rest') => if ts.isEmpty then none else some (some (.struct ts), rest')
      | none => none := by
  simp [parseNext]; rfl

theorem parseNext_arr (f : Nat) (d : Bool) (n : Char) (rest2 : List Char) :
    parseNext (f + 1) d ('a' :: n :: rest2) =
      if !isTokenChar n then none
      else if n = '{' then parseDictEntry f rest2
      else
        match parseNext f false (n :: rest2) with
        | some (some e, r) => some (some (.array e), r)
        | _ => none := by
  simp [parseNext]; rfl

theorem parseDictEntry_ok {f : Nat} {k : Base} {rest r' : List Char} {v : Ty}
    (h : parseNext f false rest = some (some v, '}' :: r')) :
    parseDictEntry (f + 1) (k.char :: rest) = some (some (.dict k v), r') := by
  simp [parseDictEntry, ofChar_char, h]

theorem parseStruct_cons_ok {f : Nat} {s r r' : List Char} {t : Ty} {ts : List Ty}
    (h1 : parseNext f true s = some (some t, r)) (h2 : parseStruct f r = some (ts, r')) :
    parseStruct (f + 1) s = some (t :: ts, r') := by
  simp [parseStruct, h1, h2]

theorem parseStruct_nil_ok {f : Nat} {s r : List Char}
    (h1 : parseNext f true s = some (none, r)) :
    parseStruct (f + 1) s = some ([], r) := by
  simp [parseStruct, h1]

/-! ### Completeness: a printed well-formed type is parsed back -/

theorem exists_succ {n fuel : Nat} (h : n < fuel) : ∃ f, fuel = f + 1 := ⟨fuel - 1, by omega⟩

mutual
theorem parseNext_complete : (t : Ty) → t.wf = true → ∀ (fuel : Nat) (delim : Bool) (rest : List Char),
    (toStr t).length < fuel → parseNext fuel delim (toStr t ++ rest) = some (some t, rest)
  | .base b, _, fuel, d, rest, hf => by
    obtain ⟨f, rfl⟩ := exists_succ hf
    simp only [toStr, List.cons_append, List.nil_append]; exact parseNext_base ..
  | .variant, _, fuel, d, rest, hf => by
    obtain ⟨f, rfl⟩ := exists_succ hf
    simp only [toStr, List.cons_append, List.nil_append]; exact parseNext_variant ..
  | .array e, hw, fuel, d, rest, hf => by
    obtain ⟨f, rfl⟩ := exists_succ hf
    obtain ⟨c, tl, hc, hs⟩ := toStr_start e
    have ih := parseNext_complete e (by simpa [wf] using hw) f false rest
      (by simp only [toStr, List.length_cons] at hf; omega)
    obtain ⟨h1, h2, -, -⟩ := isStart_facts hs
    simp only [toStr, List.cons_append]
    rw [hc] at ih ⊢
    rw [List.cons_append] at ih ⊢
    rw [parseNext_arr, ih]
    simp [h1, h2]
  | .dict k v, hw, fuel, d, rest, hf => by
    obtain ⟨f, rfl⟩ := exists_succ hf
    simp only [toStr, List.length_cons, List.length_append, List.length_nil] at hf
    obtain ⟨f, rfl⟩ := exists_succ (n := 0) (fuel := f) (by omega)
    have ih := parseNext_complete v (by simpa [wf] using hw) f false ('}' :: rest) (by omega)
    simp only [toStr, List.cons_append, List.append_assoc, List.nil_append]
    rw [parseNext_arr, parseDictEntry_ok ih]
    simp [isTokenChar]
  | .struct fs, hw, fuel, d, rest, hf => by
    obtain ⟨f, rfl⟩ := exists_succ hf
    simp only [toStr, List.length_cons, List.length_append, List.length_nil] at hf
    have hne := wf_struct_ne_nil hw
    have ih := parseStruct_complete fs (by simp [wf] at hw; exact hw.2) f rest (by omega)
    simp only [toStr, List.cons_append, List.append_assoc, List.nil_append]
    rw [parseNext_open, ih]
    simp [hne]
theorem parseStruct_complete : (ts : List Ty) → wfList ts = true → ∀ (fuel : Nat) (rest : List Char),
    (listToStr ts).length + 1 < fuel →
    parseStruct fuel (listToStr ts ++ ')' :: rest) = some (ts, rest)
  | [], _, fuel, rest, hf => by
    obtain ⟨f, rfl⟩ := exists_succ hf
    obtain ⟨f, rfl⟩ := exists_succ (n := 0) (fuel := f) (by simp [listToStr] at hf; omega)
    simp only [listToStr, List.nil_append]
    exact parseStruct_nil_ok (parseNext_close ..)
  | t :: ts, hw, fuel, rest, hf => by
    obtain ⟨f, rfl⟩ := exists_succ hf
    have hw' : t.wf = true ∧ wfList ts = true := by simpa [wfList] using hw
    simp only [listToStr, List.length_append] at hf
    have hp := toStr_length_pos t
    have h1 := parseNext_complete t hw'.1 f true (listToStr ts ++ ')' :: rest) (by omega)
    have h2 := parseStruct_complete ts hw'.2 f rest (by omega)
    simp only [listToStr, List.append_assoc]
    exact parseStruct_cons_ok h1 h2
end

/-! ### Soundness: whatever is parsed is the printed form of a well-formed type -/

theorem parseNext_other (f : Nat) (d : Bool) (c : Char) (rest : List Char)
    (h1 : c ≠ '(') (h2 : c ≠ ')') (h3 : c ≠ 'a') :
    parseNext (f + 1) d (c :: rest) =
      match Base.ofChar c with
      | some b => some (some (.base b), rest)
      | none => if c = 'v' then some (some .variant, rest) else none := by
  simp [parseNext, h1, h2, h3]; rfl

def ParseSound (f : Nat) : Prop :=
  (∀ d s o r, parseNext f d s = some (o, r) →
     match o with
     | some t => s = toStr t ++ r ∧ t.wf = true
     | none => (d = true ∧ s = ')' :: r) ∨ (d = false ∧ s = [] ∧ r = [])) ∧
  (∀ s ts r, parseStruct f s = some (ts, r) → s = listToStr ts ++ ')' :: r ∧ wfList ts = true) ∧
  (∀ s o r, parseDictEntry f s = some (o, r) →
     ∃ k v, o = some (.dict k v) ∧ s = k.char :: (toStr v ++ '}' :: r) ∧ v.wf = true)

theorem parseSound_zero : ParseSound 0 := by
  refine ⟨?_, ?_, ?_⟩
  · intro d s o r h; simp [parseNext] at h
  · intro s ts r h; simp [parseStruct] at h
  · intro s o r h; simp [parseDictEntry] at h

theorem parseSound_succ (f : Nat) (ih : ParseSound f) : ParseSound (f + 1) := by
  obtain ⟨ihN, ihS, ihD⟩ := ih
  refine ⟨?_, ?_, ?_⟩
  · intro d s o r h
    match s with
    | [] =>
      simp [parseNext] at h
      obtain ⟨hd, rfl, rfl⟩ := h
      simp [hd]
    | c :: rest =>
      by_cases h1 : c = '('
      · subst h1
        rw [parseNext_open] at h
        cases hs : parseStruct f rest with
        | none => simp [hs] at h
        | some p =>
          obtain ⟨ts, r'⟩ := p
          simp [hs] at h
          obtain ⟨hne, rfl, rfl⟩ := h
          have := ihS _ _ _ hs
          simp [toStr, this, wf, hne]
      by_cases h2 : c = ')'
      · subst h2
        simp [parseNext] at h
        obtain ⟨hd, rfl, rfl⟩ := h
        simp [hd]
      by_cases h3 : c = 'a'
      · subst h3
        match rest with
        | [] => simp [parseNext] at h
        | n :: rest2 =>
          rw [parseNext_arr] at h
          by_cases ht : isTokenChar n = true
          · by_cases hn : n = '{'
            · subst hn
              simp [ht] at h
              obtain ⟨k, v, rfl, rfl, hv⟩ := ihD _ _ _ h
              simp [toStr, wf, hv]
            · simp [ht, hn] at h
              cases hp : parseNext f false (n :: rest2) with
              | none => simp [hp] at h
              | some p =>
                obtain ⟨o', r'⟩ := p
                cases o' with
                | none => simp [hp] at h
                | some e =>
                  simp [hp] at h
                  obtain ⟨rfl, rfl⟩ := h
                  have := ihN _ _ _ _ hp
                  simp only at this
                  simp [toStr, wf, this.1, this.2]
          · simp [ht] at h
      · rw [parseNext_other _ _ _ _ h1 h2 h3] at h
        cases hb : Base.ofChar c with
        | some b =>
          simp [hb] at h
          obtain ⟨rfl, rfl⟩ := h
          simp [toStr, wf, ofChar_eq_some hb]
        | none =>
          simp [hb] at h
          obtain ⟨rfl, rfl, rfl⟩ := h
          simp [toStr, wf]
  · intro s ts r h
    rw [parseStruct] at h
    cases hp : parseNext f true s with
    | none => simp [hp] at h
    | some p =>
      obtain ⟨o', r'⟩ := p
      have hN := ihN _ _ _ _ hp
      cases o' with
      | none =>
        simp [hp] at h
        obtain ⟨rfl, rfl⟩ := h
        simp at hN
        simp [listToStr, wfList, hN]
      | some t =>
        simp only at hN
        cases hq : parseStruct f r' with
        | none => simp [hp, hq] at h
        | some q =>
          obtain ⟨ts', r''⟩ := q
          simp [hp, hq] at h
          obtain ⟨rfl, rfl⟩ := h
          have hS := ihS _ _ _ hq
          rw [hN.1, hS.1]
          simp [listToStr, wfList, hN.2, hS.2]
  · intro s o r h
    match s with
    | [] => simp [parseDictEntry] at h
    | k :: rest =>
      rw [parseDictEntry] at h
      cases hb : Base.ofChar k with
      | none => simp [hb] at h
      | some kb =>
        cases hp : parseNext f false rest with
        | none => simp [hb, hp] at h
        | some p =>
          obtain ⟨o', r'⟩ := p
          cases o' with
          | none => simp [hb, hp] at h
          | some v =>
            have hN := ihN _ _ _ _ hp
            simp only at hN
            match r' with
            | [] => simp [hb, hp] at h
            | c :: r'' =>
              by_cases hc : c = '}'
              · subst hc
                simp [hb, hp] at h
                obtain ⟨rfl, rfl⟩ := h
                exact ⟨kb, v, rfl, by rw [ofChar_eq_some hb, hN.1], hN.2⟩
              · simp [hb, hp, hc] at h

theorem parseSound (f : Nat) : ParseSound f := by
  induction f with
  | zero => exact parseSound_zero
  | succ f ih => exact parseSound_succ f ih

/-! ### The top-level loop and `parseDescription` -/

theorem parseAll_sound (fuel : Nat) : ∀ (s : List Char) (ts : List Ty),
    parseAll fuel s = some ts → s = listToStr ts ∧ wfList ts = true := by
  induction fuel with
  | zero => intro s ts h; simp [parseAll] at h
  | succ f ih =>
    intro s ts h
    rw [parseAll] at h
    cases hp : parseNext (2 * s.length + 2) false s with
    | none => simp [hp] at h
    | some p =>
      obtain ⟨o, r⟩ := p
      have hN := (parseSound _).1 _ _ _ _ hp
      cases o with
      | none =>
        simp [hp] at h
        subst h
        simp at hN
        simp [listToStr, wfList, hN]
      | some t =>
        simp only at hN
        cases hq : parseAll f r with
        | none => simp [hp, hq] at h
        | some ts' =>
          simp [hp, hq] at h
          subst h
          have := ih _ _ hq
          rw [hN.1, this.1]
          simp [listToStr, wfList, hN.2, this.2]

theorem parseAll_complete : (ts : List Ty) → wfList ts = true → ∀ fuel,
    (listToStr ts).length < fuel → parseAll fuel (listToStr ts) = some ts
  | [], _, fuel, hf => by
    obtain ⟨f, rfl⟩ := exists_succ hf
    simp [parseAll, listToStr, parseNext]
  | t :: ts, hw, fuel, hf => by
    obtain ⟨f, rfl⟩ := exists_succ hf
    have hw' : t.wf = true ∧ wfList ts = true := by simpa [wfList] using hw
    simp only [listToStr, List.length_append] at hf
    have hp := toStr_length_pos t
    have h1 := parseNext_complete t hw'.1 (2 * (listToStr (t :: ts)).length + 2) false (listToStr ts)
      (by simp only [listToStr, List.length_append]; omega)
    have h2 := parseAll_complete ts hw'.2 f (by omega)
    rw [parseAll]
    simp only [listToStr, List.length_append] at h1 ⊢
    simp [h1, h2]

theorem parseDescription_iff' (s : List Char) (ts : List Ty) :
    parseDescription s = some ts ↔ Denotes s ts := by
  constructor
  · intro h
    unfold parseDescription at h
    by_cases hl : utf8Len s > 255
    · simp [hl] at h
    · rw [if_neg hl] at h
      cases hp : parseAll (s.length + 1) s with
      | none => simp [hp] at h
      | some ts' =>
        simp [hp] at h
        obtain ⟨hd, rfl⟩ := h
        obtain ⟨hs, hw⟩ := parseAll_sound _ _ _ hp
        have := length_le_utf8Len s
        refine ⟨by omega, hs, ?_⟩
        intro t ht
        have hwt := (wfList_iff _).mp hw t ht
        have := (depthOk_iff t hwt 0 0).mp (hd t ht)
        exact ⟨hwt, by omega, by omega⟩
  · rintro ⟨hl, rfl, hv⟩
    have hw : wfList ts = true := (wfList_iff _).mpr (fun t ht => (hv t ht).1)
    unfold parseDescription
    rw [utf8Len_listToStr, if_neg (by omega), parseAll_complete ts hw _ (by omega)]
    have : (ts.all fun t => t.depthOk 0 0) = true := by
      rw [List.all_eq_true]
      intro t ht
      obtain ⟨h1, h2, h3⟩ := hv t ht
      exact (depthOk_iff t h1 0 0).mpr ⟨by omega, by omega⟩
    simp [this]

end Rustbus.Sig
