import RustbusModel.Lemmas.Wire
import RustbusModel.Lemmas.WireShapeInduct
/-!
Shape facts about `enc` (what makes it recognisably *the* D-Bus encoding) and the typing predicate.
Statements fixed; helpers may be added above them.
-/
namespace Rustbus.Wire
open Rustbus Rustbus.Bytes Rustbus.Spec.Wire

/-! ### alignment -/

theorem encBase_aligned (bo : ByteOrder) (off : Nat) (b : Base) (v : Val) (bs : List UInt8)
    (h : encBase bo off b v = some bs) :
    ∃ r, bs = zeros (padLen b.align off) ++ r ∧ 0 < r.length := by
  cases hk : b.fixedSize with
  | some k =>
    obtain ⟨n, rfl, hn, rfl⟩ := (encBase_fixed hk).1 h
    have := (fixedSize_facts hk).1
    exact ⟨_, rfl, by simp only [bytesOf_length]; omega⟩
  | none =>
    cases b <;> simp [Base.fixedSize] at hk
    · obtain ⟨s, rfl, hs, hn, rfl⟩ := (encBase_str (Or.inl rfl)).1 h
      exact ⟨_, rfl, by simp; omega⟩
    · obtain ⟨s, rfl, hs, hn, rfl⟩ := (encBase_str (Or.inr rfl)).1 h
      exact ⟨_, rfl, by simp; omega⟩
    · obtain ⟨s, rfl, hs, rfl⟩ := encBase_sig.1 h
      exact ⟨_, by simp [Base.align, padLen_one, zeros]; rfl, by simp⟩

/-- every encoding starts with the zero padding that aligns its type relative to the start of the body -/
theorem enc_aligned (bo : ByteOrder) (off : Nat) (t : Ty) (v : Val) (bs : List UInt8)
    (h : enc bo off t v = some bs) : ∃ r, bs = zeros (padLen t.align off) ++ r ∧ 0 < r.length := by
  by_cases hs : shapeOk t v = false
  · rw [enc_bad bo off t v hs] at h; cases h
  cases t with
  | base b =>
    simp only [enc] at h
    exact encBase_aligned bo off b v bs h
  | array e =>
    cases v <;> simp [shapeOk] at hs
    obtain ⟨body, _, _, rfl⟩ := enc_array_some h
    exact ⟨_, rfl, by simp; omega⟩
  | dict k vt =>
    cases v <;> simp [shapeOk] at hs
    obtain ⟨body, _, _, rfl⟩ := enc_dict_some h
    exact ⟨_, rfl, by simp; omega⟩
  | struct fs =>
    cases v <;> simp [shapeOk] at hs
    rename_i vs
    obtain ⟨hne, body, hb, rfl⟩ := enc_struct_some h
    refine ⟨body, rfl, ?_⟩
    cases fs with
    | nil => exact (hne rfl).elim
    | cons t ts =>
      cases vs with
      | nil => simp [encFields] at hb
      | cons v vs =>
        obtain ⟨b, r, h1, _, rfl⟩ := encFields_cons_some hb
        have := enc_pos bo _ t v b h1
        simp only [List.length_append]; omega
  | variant =>
    cases v <;> simp [shapeOk] at hs
    obtain ⟨_, body, _, rfl⟩ := enc_variant_some h
    exact ⟨_, by simp [Ty.align, padLen_one, zeros]; rfl, by simp⟩

/-! ### typing -/

theorem encBase_some_wellTyped (bo : ByteOrder) (off : Nat) (b : Base) (v : Val) (bs : List UInt8)
    (h : encBase bo off b v = some bs) : wellTyped (.base b) v = true := by
  cases hk : b.fixedSize with
  | some k =>
    obtain ⟨n, rfl, hn, rfl⟩ := (encBase_fixed hk).1 h
    simp [wellTyped, hk, hn]
  | none =>
    cases b <;> simp [Base.fixedSize] at hk
    · obtain ⟨s, rfl, hs, hn, rfl⟩ := (encBase_str (Or.inl rfl)).1 h
      simp [wellTyped, Base.fixedSize, hs, hn]
    · obtain ⟨s, rfl, hs, hn, rfl⟩ := (encBase_str (Or.inr rfl)).1 h
      simp [wellTyped, Base.fixedSize, hs, hn]
    · obtain ⟨s, rfl, hs, rfl⟩ := encBase_sig.1 h
      have := strOk_signature_length s hs
      have h2 : s.length < 256 ^ 4 := by omega
      simp [wellTyped, Base.fixedSize, hs, h2]

theorem enc_some_wellTyped_all :
    (∀ t v, ∀ bo off bs, enc bo off t v = some bs → wellTyped t v = true) ∧
    (∀ e vs, ∀ bo off bs, encList bo off e vs = some bs → wellTypedList e vs = true) ∧
    (∀ k vt es, ∀ bo off bs, encEntries bo off k vt es = some bs → wellTypedEntries k vt es = true) ∧
    (∀ fs vs, ∀ bo off bs, encFields bo off fs vs = some bs → wellTypedFields fs vs = true) := by
  apply enc_induct
  case hbase =>
    intro b v bo off bs h
    simp only [enc] at h
    exact encBase_some_wellTyped bo off b v bs h
  case harr =>
    intro e vs ih bo off bs h
    obtain ⟨body, hb, _, _⟩ := enc_array_some h
    simp only [wellTyped]
    exact ih _ _ _ hb
  case hdict =>
    intro k vt es ih bo off bs h
    obtain ⟨body, hb, _, _⟩ := enc_dict_some h
    simp only [wellTyped]
    exact ih _ _ _ hb
  case hstruct =>
    intro fs vs ih bo off bs h
    obtain ⟨hne, body, hb, _⟩ := enc_struct_some h
    simp only [wellTyped, ih _ _ _ hb, Bool.and_true]
    cases fs with
    | nil => exact (hne rfl).elim
    | cons t ts => rfl
  case hvar =>
    intro t v ih bo off bs h
    obtain ⟨hok, body, hb, _⟩ := enc_variant_some h
    simp only [wellTyped, hok, ih _ _ _ hb, Bool.and_true]
  case hbad =>
    intro t v hs bo off bs h
    rw [enc_bad bo off t v hs] at h; cases h
  case hLnil => intros; simp [wellTypedList]
  case hLcons =>
    intro e v vs ih1 ih2 bo off bs h
    obtain ⟨b, r, h1, h2, _⟩ := encList_cons_some h
    simp only [wellTypedList, ih1 _ _ _ h1, ih2 _ _ _ h2, Bool.and_true]
  case hEnil => intros; simp [wellTypedEntries]
  case hEcons =>
    intro k vt kv vv rest ih1 ih2 bo off bs h
    obtain ⟨kb, vb, rb, h1, h2, h3, _⟩ := encEntries_cons_some h
    simp only [wellTypedEntries, encBase_some_wellTyped _ _ _ _ _ h1, ih1 _ _ _ h2, ih2 _ _ _ h3,
      Bool.and_true]
  case hEbad =>
    intro k vt hd tl hh bo off bs h
    rw [encEntries_bad bo off k vt hd tl hh] at h; cases h
  case hFnil => intros; simp [wellTypedFields]
  case hFcons =>
    intro t ts v vs ih1 ih2 bo off bs h
    obtain ⟨b, r, h1, h2, _⟩ := encFields_cons_some h
    simp only [wellTypedFields, ih1 _ _ _ h1, ih2 _ _ _ h2, Bool.and_true]
  case hFbad1 => intro v vs bo off bs h; simp [encFields] at h
  case hFbad2 => intro t ts bo off bs h; simp [encFields] at h

/-- only well-typed values have an encoding: nothing unencodable is ever emitted -/
theorem enc_some_wellTyped (bo : ByteOrder) (off : Nat) (t : Ty) (v : Val) (bs : List UInt8)
    (h : enc bo off t v = some bs) : wellTyped t v = true :=
  enc_some_wellTyped_all.1 t v bo off bs h

/-- a well-typed value is refused only because some array in it would exceed 64 MiB: if the value is
    well typed and every encoding of a sub-array stays within the limit the encoding exists. Stated via
    a uniform bound: a well-typed value whose encoding function never hits the size test has an encoding;
    concretely, well-typed values without arrays/dicts always encode. -/
theorem wellTyped_enc_some_noarray (bo : ByteOrder) (off : Nat) (b : Base) (v : Val)
    (h : wellTyped (.base b) v = true) : (enc bo off (.base b) v).isSome = true := by
  cases v with
  | num n =>
    simp only [wellTyped, Bool.and_eq_true, decide_eq_true_eq] at h
    obtain ⟨h1, h2⟩ := h
    cases hk : b.fixedSize with
    | none => simp [hk] at h1
    | some k => simp [enc, encBase, hk, h2]
  | str s =>
    simp only [wellTyped, Bool.and_eq_true, decide_eq_true_eq] at h
    obtain ⟨⟨h1, h2⟩, h3⟩ := h
    cases hk : b.fixedSize with
    | some k => simp [hk] at h1
    | none =>
      cases b <;> simp [Base.fixedSize] at hk <;> simp [enc, encBase, Base.fixedSize, h2, h3]
  | arr vs => simp [wellTyped] at h
  | struct vs => simp [wellTyped] at h
  | variant t v => simp [wellTyped] at h

/-! ### the length does not depend on the byte order -/

theorem encBase_length_bo (off : Nat) (b : Base) (v : Val) (bs bs' : List UInt8)
    (h : encBase .le off b v = some bs) (h' : encBase .be off b v = some bs') :
    bs.length = bs'.length := by
  cases hk : b.fixedSize with
  | some k =>
    obtain ⟨n, rfl, hn, rfl⟩ := (encBase_fixed hk).1 h
    obtain ⟨n', hv, hn', rfl⟩ := (encBase_fixed hk).1 h'
    simp
  | none =>
    cases b <;> simp [Base.fixedSize] at hk
    · obtain ⟨s, rfl, hs, hn, rfl⟩ := (encBase_str (Or.inl rfl)).1 h
      obtain ⟨s', hv, hs', hn', rfl⟩ := (encBase_str (Or.inl rfl)).1 h'
      cases hv; simp
    · obtain ⟨s, rfl, hs, hn, rfl⟩ := (encBase_str (Or.inr rfl)).1 h
      obtain ⟨s', hv, hs', hn', rfl⟩ := (encBase_str (Or.inr rfl)).1 h'
      cases hv; simp
    · obtain ⟨s, rfl, hs, rfl⟩ := encBase_sig.1 h
      obtain ⟨s', hv, hs', rfl⟩ := encBase_sig.1 h'
      cases hv; simp

theorem enc_length_bo_all :
    (∀ t v, ∀ off bs bs', enc .le off t v = some bs → enc .be off t v = some bs' →
      bs.length = bs'.length) ∧
    (∀ e vs, ∀ off bs bs', encList .le off e vs = some bs → encList .be off e vs = some bs' →
      bs.length = bs'.length) ∧
    (∀ k vt es, ∀ off bs bs', encEntries .le off k vt es = some bs →
      encEntries .be off k vt es = some bs' → bs.length = bs'.length) ∧
    (∀ fs vs, ∀ off bs bs', encFields .le off fs vs = some bs → encFields .be off fs vs = some bs' →
      bs.length = bs'.length) := by
  apply enc_induct
  case hbase =>
    intro b v off bs bs' h h'
    simp only [enc] at h h'
    exact encBase_length_bo off b v bs bs' h h'
  case harr =>
    intro e vs ih off bs bs' h h'
    obtain ⟨body, hb, _, rfl⟩ := enc_array_some h
    obtain ⟨body', hb', _, rfl⟩ := enc_array_some h'
    have := ih _ _ _ hb hb'
    simp only [List.length_append, zeros_length, bytesOf_length, this]
  case hdict =>
    intro k vt es ih off bs bs' h h'
    obtain ⟨body, hb, _, rfl⟩ := enc_dict_some h
    obtain ⟨body', hb', _, rfl⟩ := enc_dict_some h'
    have := ih _ _ _ hb hb'
    simp only [List.length_append, zeros_length, bytesOf_length, this]
  case hstruct =>
    intro fs vs ih off bs bs' h h'
    obtain ⟨_, body, hb, rfl⟩ := enc_struct_some h
    obtain ⟨_, body', hb', rfl⟩ := enc_struct_some h'
    have := ih _ _ _ hb hb'
    simp only [List.length_append, zeros_length, this]
  case hvar =>
    intro t v ih off bs bs' h h'
    obtain ⟨_, body, hb, rfl⟩ := enc_variant_some h
    obtain ⟨_, body', hb', rfl⟩ := enc_variant_some h'
    have := ih _ _ _ hb hb'
    simp only [List.length_append, List.length_cons, this]
  case hbad =>
    intro t v hs off bs bs' h
    rw [enc_bad _ off t v hs] at h; cases h
  case hLnil =>
    intro e off bs bs' h h'
    simp only [encList, Option.some.injEq] at h h'
    subst h h'; rfl
  case hLcons =>
    intro e v vs ih1 ih2 off bs bs' h h'
    obtain ⟨b, r, h1, h2, rfl⟩ := encList_cons_some h
    obtain ⟨b', r', h1', h2', rfl⟩ := encList_cons_some h'
    have e1 := ih1 _ _ _ h1 h1'
    rw [← e1] at h2'
    have e2 := ih2 _ _ _ h2 h2'
    simp only [List.length_append, e1, e2]
  case hEnil =>
    intro k vt off bs bs' h h'
    simp only [encEntries, Option.some.injEq] at h h'
    subst h h'; rfl
  case hEcons =>
    intro k vt kv vv rest ih1 ih2 off bs bs' h h'
    obtain ⟨kb, vb, rb, h1, h2, h3, rfl⟩ := encEntries_cons_some h
    obtain ⟨kb', vb', rb', h1', h2', h3', rfl⟩ := encEntries_cons_some h'
    have e0 := encBase_length_bo _ _ _ _ _ h1 h1'
    rw [← e0] at h2' h3'
    have e1 := ih1 _ _ _ h2 h2'
    rw [← e1] at h3'
    have e2 := ih2 _ _ _ h3 h3'
    simp only [List.length_append, zeros_length, e0, e1, e2]
  case hEbad =>
    intro k vt hd tl hh off bs bs' h
    rw [encEntries_bad _ off k vt hd tl hh] at h; cases h
  case hFnil =>
    intro off bs bs' h h'
    simp only [encFields, Option.some.injEq] at h h'
    subst h h'; rfl
  case hFcons =>
    intro t ts v vs ih1 ih2 off bs bs' h h'
    obtain ⟨b, r, h1, h2, rfl⟩ := encFields_cons_some h
    obtain ⟨b', r', h1', h2', rfl⟩ := encFields_cons_some h'
    have e1 := ih1 _ _ _ h1 h1'
    rw [← e1] at h2'
    have e2 := ih2 _ _ _ h2 h2'
    simp only [List.length_append, e1, e2]
  case hFbad1 => intro v vs off bs bs' h; simp [encFields] at h
  case hFbad2 => intro t ts off bs bs' h; simp [encFields] at h

/-- the length of an encoding does not depend on the byte order -/
theorem enc_length_bo (off : Nat) (t : Ty) (v : Val) (bs bs' : List UInt8)
    (h : enc .le off t v = some bs) (h' : enc .be off t v = some bs') : bs.length = bs'.length :=
  enc_length_bo_all.1 t v off bs bs' h h'

/-! ### only the offset modulo 8 matters -/

theorem encBase_offset_mod8 (bo : ByteOrder) (off off' : Nat) (b : Base) (v : Val)
    (hm : off % 8 = off' % 8) : encBase bo off b v = encBase bo off' b v := by
  unfold encBase
  rw [padLen_congr (base_align_cases b) hm,
    padLen_congr (a := 4) (by simp) hm]

theorem enc_offset_mod8_all :
    (∀ t v, ∀ bo off off', off % 8 = off' % 8 → enc bo off t v = enc bo off' t v) ∧
    (∀ e vs, ∀ bo off off', off % 8 = off' % 8 → encList bo off e vs = encList bo off' e vs) ∧
    (∀ k vt es, ∀ bo off off', off % 8 = off' % 8 →
      encEntries bo off k vt es = encEntries bo off' k vt es) ∧
    (∀ fs vs, ∀ bo off off', off % 8 = off' % 8 → encFields bo off fs vs = encFields bo off' fs vs) := by
  apply enc_induct
  case hbase =>
    intro b v bo off off' hm
    simp only [enc]
    exact encBase_offset_mod8 bo off off' b v hm
  case harr =>
    intro e vs ih bo off off' hm
    have p1 : padLen 4 off = padLen 4 off' := padLen_congr (by simp) hm
    have hm1 : (off + padLen 4 off + 4) % 8 = (off' + padLen 4 off' + 4) % 8 := by
      rw [p1]; omega
    have p2 := padLen_congr (ty_align_cases e) hm1
    have hm2 : (off + padLen 4 off + 4 + padLen e.align (off + padLen 4 off + 4)) % 8 =
        (off' + padLen 4 off' + 4 + padLen e.align (off' + padLen 4 off' + 4)) % 8 := by
      rw [p2]; omega
    simp only [enc]
    rw [ih bo _ _ hm2, p2, p1]
  case hdict =>
    intro k vt es ih bo off off' hm
    have p1 : padLen 4 off = padLen 4 off' := padLen_congr (by simp) hm
    have hm1 : (off + padLen 4 off + 4) % 8 = (off' + padLen 4 off' + 4) % 8 := by
      rw [p1]; omega
    have p2 : padLen 8 (off + padLen 4 off + 4) = padLen 8 (off' + padLen 4 off' + 4) :=
      padLen_congr (by simp) hm1
    have hm2 : (off + padLen 4 off + 4 + padLen 8 (off + padLen 4 off + 4)) % 8 =
        (off' + padLen 4 off' + 4 + padLen 8 (off' + padLen 4 off' + 4)) % 8 := by
      rw [p2]; omega
    simp only [enc]
    rw [ih bo _ _ hm2, p2, p1]
  case hstruct =>
    intro fs vs ih bo off off' hm
    have p1 : padLen 8 off = padLen 8 off' := padLen_congr (by simp) hm
    have hm1 : (off + padLen 8 off) % 8 = (off' + padLen 8 off') % 8 := by rw [p1]; omega
    simp only [enc]
    rw [ih bo _ _ hm1, p1]
  case hvar =>
    intro t v ih bo off off' hm
    simp only [enc]
    rw [ih bo (off + (sigBytes t).length + 2) (off' + (sigBytes t).length + 2) (by omega)]
  case hbad =>
    intro t v hs bo off off' _
    rw [enc_bad bo off t v hs, enc_bad bo off' t v hs]
  case hLnil => intros; simp [encList]
  case hLcons =>
    intro e v vs ih1 ih2 bo off off' hm
    simp only [encList]
    rw [ih1 bo off off' hm]
    cases enc bo off' e v with
    | none => rfl
    | some b =>
      simp only
      rw [ih2 bo (off + b.length) (off' + b.length) (by omega)]
  case hEnil => intros; simp [encEntries]
  case hEcons =>
    intro k vt kv vv rest ih1 ih2 bo off off' hm
    have p1 : padLen 8 off = padLen 8 off' := padLen_congr (by simp) hm
    have hm1 : (off + padLen 8 off) % 8 = (off' + padLen 8 off') % 8 := by rw [p1]; omega
    simp only [encEntries]
    rw [encBase_offset_mod8 bo _ _ k kv hm1]
    cases encBase bo (off' + padLen 8 off') k kv with
    | none => rfl
    | some kb =>
      simp only
      rw [ih1 bo (off + padLen 8 off + kb.length) (off' + padLen 8 off' + kb.length) (by omega)]
      cases enc bo (off' + padLen 8 off' + kb.length) vt vv with
      | none => rfl
      | some vb =>
        simp only
        rw [ih2 bo (off + padLen 8 off + kb.length + vb.length)
          (off' + padLen 8 off' + kb.length + vb.length) (by omega), p1]
  case hEbad =>
    intro k vt hd tl hh bo off off' _
    rw [encEntries_bad bo off k vt hd tl hh, encEntries_bad bo off' k vt hd tl hh]
  case hFnil => intros; simp [encFields]
  case hFcons =>
    intro t ts v vs ih1 ih2 bo off off' hm
    simp only [encFields]
    rw [ih1 bo off off' hm]
    cases enc bo off' t v with
    | none => rfl
    | some b =>
      simp only
      rw [ih2 bo (off + b.length) (off' + b.length) (by omega)]
  case hFbad1 => intros; simp [encFields]
  case hFbad2 => intros; simp [encFields]

/-- the encoding only depends on the offset modulo 8 -/
theorem enc_offset_mod8 (bo : ByteOrder) (off off' : Nat) (t : Ty) (v : Val) (hm : off % 8 = off' % 8) :
    enc bo off t v = enc bo off' t v :=
  enc_offset_mod8_all.1 t v bo off off' hm

end Rustbus.Wire

#print axioms Rustbus.Wire.enc_aligned
#print axioms Rustbus.Wire.enc_some_wellTyped
#print axioms Rustbus.Wire.wellTyped_enc_some_noarray
#print axioms Rustbus.Wire.enc_length_bo
#print axioms Rustbus.Wire.enc_offset_mod8
