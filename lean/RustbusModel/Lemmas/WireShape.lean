import RustbusModel.Lemmas.Wire
/-!
Shape facts about `enc` (what makes it recognisably *the* D-Bus encoding) and the typing predicate.
Statements fixed; helpers may be added above them.
-/
namespace Rustbus.Wire
open Rustbus Rustbus.Bytes Rustbus.Spec.Wire

/-- every encoding starts with the zero padding that aligns its type relative to the start of the body -/
theorem enc_aligned (bo : ByteOrder) (off : Nat) (t : Ty) (v : Val) (bs : List UInt8)
    (h : enc bo off t v = some bs) : ∃ r, bs = zeros (padLen t.align off) ++ r ∧ 0 < r.length := by
  sorry

/-- only well-typed values have an encoding: nothing unencodable is ever emitted -/
theorem enc_some_wellTyped (bo : ByteOrder) (off : Nat) (t : Ty) (v : Val) (bs : List UInt8)
    (h : enc bo off t v = some bs) : wellTyped t v = true := by
  sorry

/-- a well-typed value is refused only because some array in it would exceed 64 MiB: if the value is
    well typed and every encoding of a sub-array stays within the limit the encoding exists. Stated via
    a uniform bound: a well-typed value whose encoding function never hits the size test has an encoding;
    concretely, well-typed values without arrays/dicts always encode. -/
theorem wellTyped_enc_some_noarray (bo : ByteOrder) (off : Nat) (b : Base) (v : Val)
    (h : wellTyped (.base b) v = true) : (enc bo off (.base b) v).isSome = true := by
  sorry

/-- the length of an encoding does not depend on the byte order -/
theorem enc_length_bo (off : Nat) (t : Ty) (v : Val) (bs bs' : List UInt8)
    (h : enc .le off t v = some bs) (h' : enc .be off t v = some bs') : bs.length = bs'.length := by
  sorry

/-- the encoding only depends on the offset modulo 8 -/
theorem enc_offset_mod8 (bo : ByteOrder) (off off' : Nat) (t : Ty) (v : Val) (hm : off % 8 = off' % 8) :
    enc bo off t v = enc bo off' t v := by
  sorry

end Rustbus.Wire
