import RustbusModel.Model.Send
import RustbusModel.Lemmas.WireBytes
/-!
C10, the header side: the serial given to `marshal::marshal` sits at bytes 8..12 of its output in the
message's byte order. Proved directly from the definition of `Header.marshalHeader` (every later
step only appends to the buffer or rewrites bytes 12..16).
-/
namespace Rustbus.Send
open Rustbus Rustbus.Bytes Rustbus.Header

theorem take_of_prefix {α : Type} (a b : List α) (n : Nat) (h : a <+: b) (hn : n ≤ a.length) :
    b.take n = a.take n := by
  obtain ⟨t, rfl⟩ := h
  exact List.take_append_of_le_length hn

theorem padTo_prefix (a : Nat) (buf : List UInt8) : buf <+: padTo a buf :=
  ⟨_, rfl⟩

theorem fieldStart_prefix (code : Nat) (c : UInt8) (buf : List UInt8) : buf <+: fieldStart code c buf := by
  unfold fieldStart
  exact List.IsPrefix.trans (List.IsPrefix.trans (padTo_prefix 8 buf) (List.prefix_append _ _))
    (padTo_prefix 4 _)

theorem putStrField_prefix (bo : ByteOrder) (code : Nat) (c : UInt8) (s : Option (List UInt8))
    (buf r : List UInt8) (h : putStrField bo code c s buf = some r) : buf <+: r := by
  unfold putStrField at h
  split at h
  · simp only [Option.some.injEq] at h; subst h; exact List.prefix_refl _
  · split at h
    · simp only [Option.some.injEq] at h; subst h
      exact List.IsPrefix.trans (fieldStart_prefix _ _ _) (List.prefix_append _ _)
    · simp at h

theorem putU32Field_prefix (bo : ByteOrder) (code : Nat) (n : Option Nat) (buf : List UInt8) :
    buf <+: putU32Field bo code n buf := by
  unfold putU32Field
  split
  · exact List.prefix_refl _
  · exact List.IsPrefix.trans (fieldStart_prefix _ _ _) (List.prefix_append _ _)

/-- the first twelve bytes `marshal` writes -/
def fixed12 (m : Header.Msg) (serial : Nat) : List UInt8 :=
  [if m.bo = .le then 108 else 66, UInt8.ofNat m.typ, UInt8.ofNat m.flags, 1] ++
    (bytesOf m.bo 4 m.body.length ++ bytesOf m.bo 4 serial)

/-- the marshalled header starts with endianness, type, flags, version, body length and the serial -/
theorem marshalHeader_fixed12 (m : Header.Msg) (serial : Nat) (out : List UInt8)
    (h : marshalHeader m serial = some out) : out.take 12 = fixed12 m serial := by
  unfold marshalHeader at h
  split at h
  · simp at h
  · generalize hstart : ([if m.bo = .le then (108 : UInt8) else 66, UInt8.ofNat m.typ, UInt8.ofNat m.flags, 1] ++
        (bytesOf m.bo 4 m.body.length ++ (bytesOf m.bo 4 serial ++ [0, 0, 0, 0]))) = start at h
    have hlen : start.length = 16 := by subst hstart; simp
    have h12 : start.take 12 = fixed12 m serial := by
      subst hstart
      unfold fixed12
      have e : ([if m.bo = .le then (108 : UInt8) else 66, UInt8.ofNat m.typ, UInt8.ofNat m.flags, 1] ++
          (bytesOf m.bo 4 m.body.length ++ (bytesOf m.bo 4 serial ++ [0, 0, 0, 0]))) =
          ([if m.bo = .le then (108 : UInt8) else 66, UInt8.ofNat m.typ, UInt8.ofNat m.flags, 1] ++
          (bytesOf m.bo 4 m.body.length ++ bytesOf m.bo 4 serial)) ++ [0, 0, 0, 0] := by
        simp
      rw [e, List.take_append_of_le_length (by simp)]
      exact List.take_of_length_le (by simp)
    have p1 := putU32Field_prefix m.bo 5 m.replySerial start
    simp only at h
    split at h; · simp at h
    rename_i b2 h2
    split at h; · simp at h
    rename_i b3 h3
    split at h; · simp at h
    rename_i b4 h4
    split at h; · simp at h
    rename_i b5 h5
    split at h; · simp at h
    rename_i b6 h6
    split at h; · simp at h
    rename_i b7 h7
    have p7 : start <+: b7 :=
      (((((p1.trans (putStrField_prefix _ _ _ _ _ _ h2)).trans (putStrField_prefix _ _ _ _ _ _ h3)).trans
        (putStrField_prefix _ _ _ _ _ _ h4)).trans (putStrField_prefix _ _ _ _ _ _ h5)).trans
        (putStrField_prefix _ _ _ _ _ _ h6)).trans (putStrField_prefix _ _ _ _ _ _ h7)
    split at h; · simp at h
    rename_i b8 h8
    have p8 : start <+: b8 := by
      split at h8
      · simp only [Option.some.injEq] at h8; subst h8; exact p7
      · split at h8
        · simp only [Option.some.injEq] at h8; subst h8
          exact p7.trans ((fieldStart_prefix _ _ _).trans (List.prefix_append _ _))
        · simp at h8
    have p9 : start <+: (if m.nfds = 0 then b8 else putU32Field m.bo 9 (some m.nfds) b8) := by
      split
      · exact p8
      · exact p8.trans (putU32Field_prefix _ _ _ _)
    generalize (if m.nfds = 0 then b8 else putU32Field m.bo 9 (some m.nfds) b8) = b9 at p9 h
    have hout : out = padTo 8 (b9.take 12 ++ (bytesOf m.bo 4 (b9.length - 16) ++ b9.drop 16)) := by
      repeat' (split at h)
      all_goals first
        | (simp at h; done)
        | (simp only [Option.some.injEq] at h; exact h.symm)
    subst hout
    have hb9 : b9.take 12 = start.take 12 := take_of_prefix start b9 12 p9 (by omega)
    have hl9 : 16 ≤ b9.length := by
      obtain ⟨t, rfl⟩ := p9
      simp; omega
    unfold padTo
    rw [List.append_assoc, List.take_append_of_le_length (by simp; omega)]
    rw [List.take_of_length_le (by simp; omega), hb9, h12]

/-- **the serial is in the header**: bytes 8..12 of what `marshal` produced, read in the message's
    byte order, are the serial that was passed in -/
theorem serial_in_header (m : Header.Msg) (serial : Nat) (out : List UInt8)
    (h : marshalHeader m serial = some out) (hs : serial < 256 ^ 4) :
    valOf m.bo (slice out 8 4) = serial := by
  have h12 := marshalHeader_fixed12 m serial out h
  have e : slice out 8 4 = slice (out.take 12) 8 4 := by
    simp only [slice, List.drop_take]
    rw [List.take_take]
    simp
  rw [e, h12]
  unfold fixed12
  have := slice_mid ([if m.bo = .le then (108 : UInt8) else 66, UInt8.ofNat m.typ, UInt8.ofNat m.flags, 1] ++
      bytesOf m.bo 4 m.body.length) (bytesOf m.bo 4 serial) [] 8 4 (by simp) (by simp)
  simp only [List.append_nil, List.append_assoc] at this
  rw [this]
  exact valOf_bytesOf m.bo 4 serial hs

/-- the same, for any byte string that starts with the marshalled header (the transmitted message) -/
theorem serial_in_frame (m : Header.Msg) (serial : Nat) (out rest : List UInt8)
    (h : marshalHeader m serial = some out) (hs : serial < 256 ^ 4) :
    valOf m.bo (slice (out ++ rest) 8 4) = serial := by
  have hl : 12 ≤ out.length := by
    have := congrArg List.length (marshalHeader_fixed12 m serial out h)
    simp [fixed12] at this
    omega
  have e : slice (out ++ rest) 8 4 = slice out 8 4 := by
    simp only [slice]
    rw [List.drop_append_of_le_length (by omega), List.take_append_of_le_length (by simp; omega)]
  rw [e]
  exact serial_in_header m serial out h hs

end Rustbus.Send
