import RustbusModel.Model.Header
import RustbusModel.Spec.Header
import RustbusModel.Lemmas.Wire
import RustbusModel.Lemmas.WireShapeInduct
/-!
Header proofs, part 1: `dec` at the element type `(yv)` unfolded, and `entryField` code by code.
-/
namespace Rustbus.Header
open Rustbus Rustbus.Bytes Rustbus.Wire Rustbus.Spec.Wire Rustbus.Spec.Header

/-- the element type of the field array -/
abbrev elemTy : Ty := .struct [.base .byte, .variant]

theorem valOf_one (bo : ByteOrder) (l : List UInt8) (h : l.length ≤ 1) : valOf bo l = valOf .le l := by
  cases bo with
  | le => rfl
  | be =>
    match l, h with
    | [], _ => rfl
    | [x], _ => rfl

theorem readNum_one (bo : ByteOrder) (buf : List UInt8) (off lim : Nat) :
    readNum bo buf off lim 1 = readNum .le buf off lim 1 := by
  unfold readNum
  split
  · rw [valOf_one]; simp [slice]; omega
  · rfl

/-- `dec` at `(yv)`, unfolded down to the variant's payload -/
theorem dec_elem (bo : ByteOrder) (buf : List UInt8) (d off lim : Nat) :
    dec bo buf none (d + 2) elemTy off lim =
      match skipPad buf off lim 8 with
      | none => none
      | some o =>
        match readNum .le buf o lim 1 with
        | none => none
        | some code =>
          match readSig buf (o + 1) lim with
          | none => none
          | some (sg, o2) =>
            match Sig.parseDescription (latin1 sg) with
            | some [t] =>
              match dec bo buf none d t o2 lim with
              | none => none
              | some (x, o3) => some (.struct [.num code, .variant t x], o3)
            | _ => none := by
  rw [dec_struct]
  simp only [List.isEmpty_cons, Bool.false_eq_true, if_false]
  cases hp : skipPad buf off lim 8 with
  | none => rfl
  | some o =>
    simp only []
    obtain ⟨_, hol, hlb, _⟩ := skipPad_sound _ _ _ _ _ hp
    rw [decFields_cons, dec_base, decBase_fixed_eq bo buf none .byte 1 o lim rfl]
    have hp1 : skipPad buf o lim Base.byte.align = some o := by
      simp [skipPad, Base.align, padLen_one, slice_zero, allZero, hol, hlb]
    rw [hp1]
    simp only []
    rw [readNum_one]
    cases hn : readNum .le buf o lim 1 with
    | none => rfl
    | some code =>
      simp only []
      obtain ⟨_, _, hc, _⟩ := readNum_sound _ _ _ _ _ _ hn
      have hb : code < Base.byte.bound := by simpa [Base.bound, Base.fixedSize] using hc
      rw [if_pos hb]
      simp only []
      rw [decFields_cons, dec_variant, readSig, readNum_one]
      cases hn2 : readNum .le buf (o + 1) lim 1 with
      | none => rfl
      | some len =>
        simp only []
        by_cases hle : o + 1 + len + 2 ≤ lim
        · rw [if_pos hle, if_pos hle]
          by_cases hz : slice buf (o + 1 + 1 + len) 1 = [0]
          · rw [if_pos hz, if_pos hz]
            simp only []
            generalize Sig.parseDescription (latin1 (slice buf (o + 1 + 1) len)) = p
            match p with
            | none => rfl
            | some [] => rfl
            | some (_ :: _ :: _) => rfl
            | some [t] =>
              simp only []
              cases dec bo buf none d t (o + 1 + len + 2) lim with
              | none => rfl
              | some r => obtain ⟨x, o3⟩ := r; simp [decFields_nil]
          · rw [if_neg hz, if_neg hz]
        · rw [if_neg hle, if_neg hle]

/-! ### `entryField` by code -/

theorem entryField_zero (t : Ty) (x : Val) : entryField (0, t, x) = none := by
  cases t with
  | base b => cases b <;> cases x <;> simp [entryField]
  | _ => cases x <;> simp [entryField]

theorem entryField_path (t : Ty) (x : Val) (r : Option Field) :
    entryField (1, t, x) = some r ↔ ∃ s, t = .base .objpath ∧ x = .str s ∧ r = some (.path s) := by
  cases t with
  | base b => cases b <;> cases x <;> simp [entryField, @eq_comm _ r]
  | _ => cases x <;> simp [entryField, @eq_comm _ r]

theorem entryField_sig (t : Ty) (x : Val) (r : Option Field) :
    entryField (8, t, x) = some r ↔ ∃ s, t = .base .signature ∧ x = .str s ∧ r = some (.signature s) := by
  cases t with
  | base b => cases b <;> cases x <;> simp [entryField, @eq_comm _ r]
  | _ => cases x <;> simp [entryField, @eq_comm _ r]

theorem entryField_interface (t : Ty) (x : Val) (r : Option Field) :
    entryField (2, t, x) = some r ↔
      ∃ s, t = .base .string ∧ x = .str s ∧ nameOk 2 s = true ∧ r = some (.interface s) := by
  cases t with
  | base b => cases b <;> cases x <;> simp [entryField, @eq_comm _ r]
  | _ => cases x <;> simp [entryField, @eq_comm _ r]

theorem entryField_member (t : Ty) (x : Val) (r : Option Field) :
    entryField (3, t, x) = some r ↔
      ∃ s, t = .base .string ∧ x = .str s ∧ nameOk 3 s = true ∧ r = some (.member s) := by
  cases t with
  | base b => cases b <;> cases x <;> simp [entryField, @eq_comm _ r]
  | _ => cases x <;> simp [entryField, @eq_comm _ r]

theorem entryField_errorName (t : Ty) (x : Val) (r : Option Field) :
    entryField (4, t, x) = some r ↔
      ∃ s, t = .base .string ∧ x = .str s ∧ nameOk 4 s = true ∧ r = some (.errorName s) := by
  cases t with
  | base b => cases b <;> cases x <;> simp [entryField, @eq_comm _ r]
  | _ => cases x <;> simp [entryField, @eq_comm _ r]

theorem entryField_destination (t : Ty) (x : Val) (r : Option Field) :
    entryField (6, t, x) = some r ↔
      ∃ s, t = .base .string ∧ x = .str s ∧ nameOk 6 s = true ∧ r = some (.destination s) := by
  cases t with
  | base b => cases b <;> cases x <;> simp [entryField, @eq_comm _ r]
  | _ => cases x <;> simp [entryField, @eq_comm _ r]

theorem entryField_sender (t : Ty) (x : Val) (r : Option Field) :
    entryField (7, t, x) = some r ↔
      ∃ s, t = .base .string ∧ x = .str s ∧ nameOk 7 s = true ∧ r = some (.sender s) := by
  cases t with
  | base b => cases b <;> cases x <;> simp [entryField, @eq_comm _ r]
  | _ => cases x <;> simp [entryField, @eq_comm _ r]

theorem entryField_replySerial (t : Ty) (x : Val) (r : Option Field) :
    entryField (5, t, x) = some r ↔
      ∃ n, t = .base .u32 ∧ x = .num n ∧ n ≠ 0 ∧ r = some (.replySerial n) := by
  cases t with
  | base b => cases b <;> cases x <;> simp [entryField, @eq_comm _ r]
  | _ => cases x <;> simp [entryField, @eq_comm _ r]

theorem entryField_unixFds (t : Ty) (x : Val) (r : Option Field) :
    entryField (9, t, x) = some r ↔ ∃ n, t = .base .u32 ∧ x = .num n ∧ r = some (.unixFds n) := by
  cases t with
  | base b => cases b <;> cases x <;> simp [entryField, @eq_comm _ r]
  | _ => cases x <;> simp [entryField, @eq_comm _ r]

theorem entryField_unknown (n : Nat) (t : Ty) (x : Val) (r : Option Field) :
    entryField (n + 10, t, x) = some r ↔ depthOf t x ≤ maxDepth ∧ r = none := by
  cases t with
  | base b => cases b <;> cases x <;> simp [entryField, @eq_comm _ r]
  | _ => cases x <;> simp [entryField, @eq_comm _ r]

end Rustbus.Header
