import RustbusModel.Model.Bytes
/-!
Byte-level lemmas for the wire proofs: fixed-width integers in both byte orders, slices, padding,
and the two directions (`_ok`: reading back what was written; `_sound`: what a successful read implies)
of `skipPad` and `readNum`.
-/
namespace Rustbus.Bytes

/-! ### little endian digits -/

@[simp] theorem leBytes_length (k n : Nat) : (leBytes k n).length = k := by
  induction k generalizing n with
  | zero => rfl
  | succ k ih => simp [leBytes, ih]

theorem leVal_leBytes (k n : Nat) (h : n < 256 ^ k) : leVal (leBytes k n) = n := by
  induction k generalizing n with
  | zero => simp [leBytes, leVal]; omega
  | succ k ih =>
    simp only [leBytes, leVal]
    have h2 : n / 256 < 256 ^ k := by
      rw [Nat.pow_succ] at h
      exact Nat.div_lt_of_lt_mul (by omega)
    rw [ih _ h2]
    have : (UInt8.ofNat (n % 256)).toNat = n % 256 := by
      simp [UInt8.toNat_ofNat']
    omega

theorem leBytes_leVal (bs : List UInt8) : leBytes bs.length (leVal bs) = bs := by
  induction bs with
  | nil => simp [leBytes]
  | cons b bs ih =>
    simp only [List.length_cons, leBytes, leVal]
    have hb : b.toNat < 256 := b.toNat_lt
    have h1 : (b.toNat + 256 * leVal bs) % 256 = b.toNat := by omega
    have h2 : (b.toNat + 256 * leVal bs) / 256 = leVal bs := by omega
    rw [h1, h2, ih]
    simp

theorem leVal_lt (bs : List UInt8) : leVal bs < 256 ^ bs.length := by
  induction bs with
  | nil => simp [leVal]
  | cons b bs ih =>
    simp only [leVal, List.length_cons, Nat.pow_succ]
    have hb : b.toNat < 256 := b.toNat_lt
    omega

/-! ### both byte orders -/

@[simp] theorem bytesOf_length (bo : ByteOrder) (k n : Nat) : (bytesOf bo k n).length = k := by
  cases bo <;> simp [bytesOf]

theorem valOf_bytesOf (bo : ByteOrder) (k n : Nat) (h : n < 256 ^ k) :
    valOf bo (bytesOf bo k n) = n := by
  cases bo <;> simp [bytesOf, valOf, leVal_leBytes k n h]

theorem bytesOf_valOf (bo : ByteOrder) (bs : List UInt8) :
    bytesOf bo bs.length (valOf bo bs) = bs := by
  cases bo with
  | le => simp [bytesOf, valOf, leBytes_leVal]
  | be =>
    simp only [bytesOf, valOf]
    have := leBytes_leVal bs.reverse
    rw [List.length_reverse] at this
    rw [this, List.reverse_reverse]

theorem valOf_lt (bo : ByteOrder) (bs : List UInt8) : valOf bo bs < 256 ^ bs.length := by
  cases bo with
  | le => exact leVal_lt bs
  | be =>
    have := leVal_lt bs.reverse
    rw [List.length_reverse] at this
    exact this

theorem bytesOf_one (bo : ByteOrder) (n : Nat) (h : n < 256) : bytesOf bo 1 n = [UInt8.ofNat n] := by
  have : n % 256 = n := Nat.mod_eq_of_lt h
  cases bo <;> simp [bytesOf, leBytes, this]

/-! ### zeros, slices -/

@[simp] theorem zeros_length (n : Nat) : (zeros n).length = n := by simp [zeros]

theorem allZero_zeros (n : Nat) : allZero (zeros n) = true := by
  simp [allZero, zeros]

theorem allZero_eq_zeros (l : List UInt8) (h : allZero l = true) : l = zeros l.length := by
  induction l with
  | nil => simp [zeros]
  | cons x xs ih =>
    simp [allZero] at h
    simp [zeros, List.replicate_succ, h.1]
    have := ih (by simp [allZero]; exact h.2)
    simpa [zeros] using this

theorem slice_mid (pre mid suf : List UInt8) (off k : Nat) (h1 : off = pre.length)
    (h2 : k = mid.length) : slice (pre ++ (mid ++ suf)) off k = mid := by
  subst h1 h2; simp [slice]

theorem slice_length (buf : List UInt8) (off k : Nat) (h : off + k ≤ buf.length) :
    (slice buf off k).length = k := by
  simp [slice]; omega

theorem slice_add (buf : List UInt8) (off a b : Nat) :
    slice buf off (a + b) = slice buf off a ++ slice buf (off + a) b := by
  simp only [slice]
  rw [List.take_add, List.drop_drop]

theorem slice_zero (buf : List UInt8) (off : Nat) : slice buf off 0 = [] := by
  simp [slice]

/-- cutting a buffer around a window -/
theorem buf_decomp (buf : List UInt8) (off k : Nat) (h : off + k ≤ buf.length) :
    buf = buf.take off ++ (slice buf off k ++ buf.drop (off + k)) ∧ (buf.take off).length = off := by
  constructor
  · simp only [slice]
    rw [← List.drop_drop, List.take_append_drop, List.take_append_drop]
  · simp; omega

/-! ### padding and fixed-width reads -/

theorem skipPad_ok (pre suf : List UInt8) (a lim off : Nat) (ho : off = pre.length)
    (hl : off + padLen a off ≤ lim) (hl2 : lim ≤ pre.length + padLen a off + suf.length) :
    skipPad (pre ++ (zeros (padLen a off) ++ suf)) off lim a = some (off + padLen a off) := by
  subst ho
  unfold skipPad
  rw [slice_mid pre _ suf _ _ rfl (by simp)]
  simp [allZero_zeros, hl]
  omega

theorem readNum_ok (bo : ByteOrder) (pre suf : List UInt8) (k n lim off : Nat) (ho : off = pre.length)
    (hn : n < 256 ^ k) (hl : off + k ≤ lim) (hl2 : lim ≤ pre.length + k + suf.length) :
    readNum bo (pre ++ (bytesOf bo k n ++ suf)) off lim k = some n := by
  subst ho
  unfold readNum
  rw [slice_mid pre _ suf _ _ rfl (by simp)]
  simp [hl, valOf_bytesOf bo k n hn]
  omega

theorem skipPad_sound (buf : List UInt8) (off lim a o : Nat) (h : skipPad buf off lim a = some o) :
    o = off + padLen a off ∧ o ≤ lim ∧ lim ≤ buf.length ∧
      slice buf off (padLen a off) = zeros (padLen a off) := by
  unfold skipPad at h
  split at h
  · rename_i hc
    simp at h
    obtain ⟨h1, h2, h3⟩ := hc
    refine ⟨h.symm, by omega, h2, ?_⟩
    have := allZero_eq_zeros _ h3
    rw [slice_length _ _ _ (by omega)] at this
    exact this
  · simp at h

theorem readNum_sound (bo : ByteOrder) (buf : List UInt8) (off lim k n : Nat)
    (h : readNum bo buf off lim k = some n) :
    off + k ≤ lim ∧ lim ≤ buf.length ∧ n < 256 ^ k ∧ bytesOf bo k n = slice buf off k := by
  unfold readNum at h
  split at h
  · rename_i hc
    simp at h; subst h
    have hl := slice_length buf off k (by omega)
    refine ⟨hc.1, hc.2, ?_, ?_⟩
    · have := valOf_lt bo (slice buf off k); rwa [hl] at this
    · have := bytesOf_valOf bo (slice buf off k); rwa [hl] at this
  · simp at h

/-- the terminator test of the string-likes -/
theorem slice_one_ok (pre suf : List UInt8) (x : UInt8) (off : Nat) (ho : off = pre.length) :
    slice (pre ++ (x :: suf)) off 1 = [x] := by
  subst ho; simp [slice]

end Rustbus.Bytes
