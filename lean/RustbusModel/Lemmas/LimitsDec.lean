import RustbusModel.Lemmas.LimitsDecT
import RustbusModel.Lemmas.WireShapeInduct
import RustbusModel.Lemmas.WireShape
/-!
C18, decode side: the array limit is checked on the length word alone (`dec_array_big`, `dec_dict_big`: the
result is `none` on EVERY buffer that agrees up to and including the length word), a rejected component
rejects the whole value, and the size of an accepted value (nodes, string bytes) is bounded by the bytes
it occupies (`enc_size_all`, `dec_size`).
-/
namespace Rustbus.Limits
open Rustbus Rustbus.Bytes Rustbus.Wire Rustbus.Spec.Wire

/-! ### the array limit is checked before the element region is touched (extensional form) -/

theorem slice_of_take_eq (buf buf' : List UInt8) (n off k : Nat) (h : buf'.take n = buf.take n)
    (hk : off + k ≤ n) : slice buf' off k = slice buf off k := by
  have e1 : slice buf' off k = slice (buf'.take n) off k := by
    unfold slice; rw [List.drop_take, List.take_take]; congr 1; omega
  have e2 : slice buf off k = slice (buf.take n) off k := by
    unfold slice; rw [List.drop_take, List.take_take]; congr 1; omega
  rw [e1, e2, h]

/-- the position of the length word of an array/dict that starts at `off` -/
def lenPos (off : Nat) : Nat := off + padLen 4 off

theorem skipPad_some_eq {buf : List UInt8} {off lim a o : Nat} (h : skipPad buf off lim a = some o) :
    o = off + padLen a off := by
  unfold skipPad at h
  split at h
  · simp only [Option.some.injEq] at h; exact h.symm
  · cases h

theorem readNum_some_eq {bo : ByteOrder} {buf : List UInt8} {off lim k n : Nat}
    (h : readNum bo buf off lim k = some n) : n = valOf bo (slice buf off k) := by
  unfold readNum at h
  split at h
  · simp only [Option.some.injEq] at h; exact h.symm
  · cases h

/-- the common head of arrays and dicts: an oversized length word makes the rest irrelevant -/
theorem head_big {α : Type} (bo : ByteOrder) (buf : List UInt8) (off : Nat)
    (hbig : maxArrayLen < valOf bo (slice buf (lenPos off) 4))
    (buf' : List UInt8) (hpre : buf'.take (lenPos off + 4) = buf.take (lenPos off + 4)) (lim : Nat)
    (f : Nat → Nat → Option α) :
    (match skipPad buf' off lim 4 with
      | none => none
      | some o =>
        match readNum bo buf' o lim 4 with
        | none => none
        | some len => if len ≤ maxArrayLen then f o len else none) = none := by
  cases hs : skipPad buf' off lim 4 with
  | none => rfl
  | some o =>
    dsimp only
    cases hr : readNum bo buf' o lim 4 with
    | none => rfl
    | some len =>
      dsimp only
      have ho := skipPad_some_eq hs
      have hl := readNum_some_eq hr
      have : slice buf' o 4 = slice buf (lenPos off) 4 := by
        rw [ho]
        exact slice_of_take_eq buf buf' _ _ _ hpre (by unfold lenPos; omega)
      rw [this] at hl
      rw [if_neg (by omega)]

theorem dec_array_big (bo : ByteOrder) (buf : List UInt8) (off : Nat) (e : Ty)
    (hbig : maxArrayLen < valOf bo (slice buf (lenPos off) 4))
    (buf' : List UInt8) (hpre : buf'.take (lenPos off + 4) = buf.take (lenPos off + 4))
    (nfds : Option Nat) (d lim : Nat) :
    dec bo buf' nfds d (.array e) off lim = none := by
  cases d with
  | zero => exact dec_zero _ _ _ _ _ _ (by intro b; simp)
  | succ d =>
    rw [dec_array]
    exact head_big bo buf off hbig buf' hpre lim _

theorem dec_dict_big (bo : ByteOrder) (buf : List UInt8) (off : Nat) (k : Base) (vt : Ty)
    (hbig : maxArrayLen < valOf bo (slice buf (lenPos off) 4))
    (buf' : List UInt8) (hpre : buf'.take (lenPos off + 4) = buf.take (lenPos off + 4))
    (nfds : Option Nat) (d lim : Nat) :
    dec bo buf' nfds d (.dict k vt) off lim = none := by
  cases d with
  | zero => exact dec_zero _ _ _ _ _ _ (by intro b; simp)
  | succ d =>
    cases d with
    | zero => exact dec_dict_one _ _ _ _ _ _ _
    | succ d =>
      rw [dec_dict]
      exact head_big bo buf off hbig buf' hpre lim _

/-! ### rejection of a component rejects the whole (every nesting level) -/

theorem dec_variant_inner_none (bo : ByteOrder) (buf : List UInt8) (nfds : Option Nat) (d off lim : Nat)
    (h : ∀ t len, readNum bo buf off lim 1 = some len →
      Sig.parseDescription (latin1 (slice buf (off + 1) len)) = some [t] →
      dec bo buf nfds d t (off + len + 2) lim = none) :
    dec bo buf nfds (d + 1) .variant off lim = none := by
  rw [dec_variant]
  cases hr : readNum bo buf off lim 1 with
  | none => rfl
  | some len =>
    dsimp only
    split
    · split
      · split
        · rename_i t hp
          rw [h t len hr hp]
        · rfl
      · rfl
    · rfl

theorem decFields_none_of_field (bo : ByteOrder) (buf : List UInt8) (nfds : Option Nat) (d lim : Nat)
    (pre : List Ty) (t : Ty) (post : List Ty) (off : Nat) (vs : List Val) (o1 : Nat)
    (hpre : decFields bo buf nfds d pre off lim = some (vs, o1))
    (h : dec bo buf nfds d t o1 lim = none) :
    decFields bo buf nfds d (pre ++ t :: post) off lim = none := by
  induction pre generalizing off vs with
  | nil =>
    rw [decFields_nil] at hpre
    simp only [Option.some.injEq, Prod.mk.injEq] at hpre
    obtain ⟨_, rfl⟩ := hpre
    rw [List.nil_append, decFields_cons, h]
  | cons p ps ih =>
    rw [decFields_cons] at hpre
    rw [List.cons_append, decFields_cons]
    cases hd : dec bo buf nfds d p off lim with
    | none => rfl
    | some r =>
      obtain ⟨v, o'⟩ := r
      rw [hd] at hpre
      dsimp only at hpre ⊢
      cases hr : decFields bo buf nfds d ps o' lim with
      | none => rw [hr] at hpre; cases hpre
      | some r2 =>
        obtain ⟨vs2, o2⟩ := r2
        rw [hr] at hpre
        simp only [Option.some.injEq, Prod.mk.injEq] at hpre
        obtain ⟨_, rfl⟩ := hpre
        rw [ih o' vs2 hr]

/-! ### size of an encoded value -/

theorem size_combine {a b x y z m n : Nat} (ha : a ≤ (x + 1) * m) (hb : b ≤ (y + 1) * n)
    (hx : x ≤ z) (hy : y ≤ z) : a + b ≤ (z + 1) * (m + n) := by
  have h1 : (x + 1) * m ≤ (z + 1) * m := Nat.mul_le_mul_right m (by omega)
  have h2 : (y + 1) * n ≤ (z + 1) * n := Nat.mul_le_mul_right n (by omega)
  rw [Nat.mul_add]
  omega

theorem size_level {a x z m c : Nat} (ha : a ≤ (x + 1) * m) (hz : x + 1 ≤ z) (hpos : 1 ≤ m + c) :
    1 + a ≤ (z + 1) * (m + c) := by
  have h1 : (x + 1) * m ≤ (x + 1) * (m + c) := Nat.mul_le_mul_left _ (by omega)
  have h2 : (x + 2) * (m + c) ≤ (z + 1) * (m + c) := Nat.mul_le_mul_right _ (by omega)
  have h3 : (x + 2) * (m + c) = (x + 1) * (m + c) + (m + c) := by
    rw [show x + 2 = (x + 1) + 1 by omega, Nat.add_mul, Nat.one_mul]
  omega

theorem encBase_size (bo : ByteOrder) (off : Nat) (b : Base) (v : Val) (bs : List UInt8)
    (h : encBase bo off b v = some bs) : nodes v = 1 ∧ strBytes v ≤ bs.length ∧ 1 ≤ bs.length := by
  cases hk : b.fixedSize with
  | some k =>
    obtain ⟨n, rfl, hn, rfl⟩ := (encBase_fixed hk).1 h
    have := (fixedSize_facts hk)
    refine ⟨rfl, by simp [strBytes], ?_⟩
    simp only [List.length_append, bytesOf_length]
    cases b <;> simp [Base.fixedSize] at hk <;> omega
  | none =>
    cases b <;> simp [Base.fixedSize] at hk
    · obtain ⟨s, rfl, hs, hn, rfl⟩ := (encBase_str (Or.inl rfl)).1 h
      refine ⟨rfl, ?_, ?_⟩ <;> simp [strBytes] <;> omega
    · obtain ⟨s, rfl, hs, hn, rfl⟩ := (encBase_str (Or.inr rfl)).1 h
      refine ⟨rfl, ?_, ?_⟩ <;> simp [strBytes] <;> omega
    · obtain ⟨s, rfl, hs, rfl⟩ := encBase_sig.1 h
      refine ⟨rfl, ?_, ?_⟩ <;> simp [strBytes] <;> omega


theorem enc_size_all (bo : ByteOrder) :
    (∀ t v, ∀ off bs, enc bo off t v = some bs →
      nodes v ≤ (depthOf t v + 1) * bs.length ∧ strBytes v ≤ bs.length ∧ 1 ≤ bs.length) ∧
    (∀ e vs, ∀ off bs, encList bo off e vs = some bs →
      nodesList vs ≤ (depthOfList e vs + 1) * bs.length ∧ strBytesList vs ≤ bs.length) ∧
    (∀ k vt es, ∀ off bs, encEntries bo off k vt es = some bs →
      nodesList es ≤ (depthOfEntries vt es + 3) * bs.length ∧ strBytesList es ≤ bs.length) ∧
    (∀ fs vs, ∀ off bs, encFields bo off fs vs = some bs →
      nodesList vs ≤ (depthOfFields fs vs + 1) * bs.length ∧ strBytesList vs ≤ bs.length ∧
      (fs ≠ [] → 1 ≤ bs.length)) := by
  apply enc_induct
  case hbase =>
    intro b v off bs h
    simp only [enc] at h
    obtain ⟨h1, h2, h3⟩ := encBase_size bo off b v bs h
    refine ⟨?_, h2, h3⟩
    rw [h1]; simp only [depthOf]; omega
  case harr =>
    intro e vs ih off bs h
    obtain ⟨body, hb, _, rfl⟩ := enc_array_some h
    obtain ⟨i1, i2⟩ := ih _ _ hb
    simp only [nodes, strBytes, depthOf, List.length_append, zeros_length, bytesOf_length]
    refine ⟨?_, by omega, by omega⟩
    have := size_level (c := padLen 4 off + 4 + padLen e.align (off + padLen 4 off + 4)) i1
      (Nat.le_refl _) (by omega)
    have e1 : 1 + depthOfList e vs + 1 = depthOfList e vs + 1 + 1 := by omega
    have e2 : padLen 4 off + (4 + (padLen e.align (off + padLen 4 off + 4) + body.length)) =
        body.length + (padLen 4 off + 4 + padLen e.align (off + padLen 4 off + 4)) := by omega
    rw [e1, e2]; exact this
  case hdict =>
    intro k vt es ih off bs h
    obtain ⟨body, hb, _, rfl⟩ := enc_dict_some h
    obtain ⟨i1, i2⟩ := ih _ _ hb
    simp only [nodes, strBytes, depthOf, List.length_append, zeros_length, bytesOf_length]
    refine ⟨?_, by omega, by omega⟩
    have h1 : (depthOfEntries vt es + 3) * body.length ≤
        (depthOfEntries vt es + 3) * (body.length + (padLen 4 off + 3 + padLen 8 (off + padLen 4 off + 4))) :=
      Nat.mul_le_mul_left _ (by omega)
    have e1 : 2 + depthOfEntries vt es + 1 = depthOfEntries vt es + 3 := by omega
    have e2 : padLen 4 off + (4 + (padLen 8 (off + padLen 4 off + 4) + body.length)) =
        (body.length + (padLen 4 off + 3 + padLen 8 (off + padLen 4 off + 4))) + 1 := by omega
    rw [e1, e2, Nat.mul_add, Nat.mul_one]
    omega
  case hstruct =>
    intro fs vs ih off bs h
    obtain ⟨hne, body, hb, rfl⟩ := enc_struct_some h
    obtain ⟨i1, i2, i3⟩ := ih _ _ hb
    have hpos := i3 hne
    simp only [nodes, strBytes, depthOf, List.length_append, zeros_length]
    refine ⟨?_, by omega, by omega⟩
    have := size_level (c := padLen 8 off) i1 (Nat.le_refl _) (by omega)
    have e1 : 1 + depthOfFields fs vs + 1 = depthOfFields fs vs + 1 + 1 := by omega
    have e2 : padLen 8 off + body.length = body.length + padLen 8 off := by omega
    rw [e1, e2]; exact this
  case hvar =>
    intro t v ih off bs h
    obtain ⟨_, body, hb, rfl⟩ := enc_variant_some h
    obtain ⟨i1, i2, i3⟩ := ih _ _ hb
    simp only [nodes, strBytes, depthOf, List.length_append, List.length_cons]
    refine ⟨?_, by omega, by omega⟩
    have := size_level (c := (sigBytes t).length + 2) i1 (Nat.le_refl _) (by omega)
    have e1 : 1 + depthOf t v + 1 = depthOf t v + 1 + 1 := by omega
    have e2 : (sigBytes t).length + (body.length + 1) + 1 = body.length + ((sigBytes t).length + 2) := by omega
    rw [e1, e2]; exact this
  case hbad =>
    intro t v hs off bs h
    rw [enc_bad _ off t v hs] at h; cases h
  case hLnil =>
    intro e off bs h
    simp only [encList, Option.some.injEq] at h
    subst h; simp [nodesList, strBytesList]
  case hLcons =>
    intro e v vs ih1 ih2 off bs h
    obtain ⟨b, r, h1, h2, rfl⟩ := encList_cons_some h
    obtain ⟨a1, a2, _⟩ := ih1 _ _ h1
    obtain ⟨b1, b2⟩ := ih2 _ _ h2
    simp only [nodesList, strBytesList, depthOfList, List.length_append]
    exact ⟨size_combine a1 b1 (by omega) (by omega), by omega⟩
  case hEnil =>
    intro k vt off bs h
    simp only [encEntries, Option.some.injEq] at h
    subst h; simp [nodesList, strBytesList]
  case hEcons =>
    intro k vt kv vv rest ih1 ih2 off bs h
    obtain ⟨kb, vb, rb, h1, h2, h3, rfl⟩ := encEntries_cons_some h
    obtain ⟨k1, k2, k3⟩ := encBase_size bo _ k kv kb h1
    obtain ⟨a1, a2, _⟩ := ih1 _ _ h2
    obtain ⟨b1, b2⟩ := ih2 _ _ h3
    simp only [nodesList, nodes, strBytesList, strBytes, depthOfEntries, List.length_append, zeros_length, k1]
    refine ⟨?_, by omega⟩
    -- the entry: 2 + nodes vv ≤ (D + 3) * (kb + vb)
    have hz1 : depthOf vt vv ≤ max (depthOf vt vv) (depthOfEntries vt rest) := by omega
    have hz2 : depthOfEntries vt rest ≤ max (depthOf vt vv) (depthOfEntries vt rest) := by omega
    generalize max (depthOf vt vv) (depthOfEntries vt rest) = z at hz1 hz2 ⊢
    have c1 : (depthOf vt vv + 1) * vb.length ≤ (z + 3) * vb.length := Nat.mul_le_mul_right _ (by omega)
    have c2 : (depthOfEntries vt rest + 3) * rb.length ≤ (z + 3) * rb.length :=
      Nat.mul_le_mul_right _ (by omega)
    have c3 : (z + 3) * 1 ≤ (z + 3) * kb.length := Nat.mul_le_mul_left _ k3
    have c4 : (z + 3) * (padLen 8 off + (kb.length + (vb.length + rb.length))) =
        (z + 3) * padLen 8 off + ((z + 3) * kb.length + ((z + 3) * vb.length + (z + 3) * rb.length)) := by
      simp only [Nat.mul_add]
    rw [c4]
    omega
  case hEbad =>
    intro k vt hd tl hh off bs h
    rw [encEntries_bad _ off k vt hd tl hh] at h; cases h
  case hFnil =>
    intro off bs h
    simp only [encFields, Option.some.injEq] at h
    subst h; simp [nodesList, strBytesList]
  case hFcons =>
    intro t ts v vs ih1 ih2 off bs h
    obtain ⟨b, r, h1, h2, rfl⟩ := encFields_cons_some h
    obtain ⟨a1, a2, a3⟩ := ih1 _ _ h1
    obtain ⟨b1, b2, _⟩ := ih2 _ _ h2
    simp only [nodesList, strBytesList, depthOfFields, List.length_append]
    exact ⟨size_combine a1 b1 (by omega) (by omega), by omega, fun _ => by omega⟩
  case hFbad1 => intro v vs off bs h; simp [encFields] at h
  case hFbad2 => intro t ts off bs h; simp [encFields] at h


/-! ### arrays and dict entries: a rejected element rejects the array -/

theorem decList_none_of_head (bo : ByteOrder) (buf : List UInt8) (nfds : Option Nat) (d : Nat) (e : Ty)
    (off lim fuel : Nat) (hne : off ≠ lim) (h : dec bo buf nfds d e off lim = none) :
    decList bo buf nfds d e off lim fuel = none := by
  cases fuel with
  | zero => rw [decList_zero, if_neg hne]
  | succ fuel => rw [decList_succ, if_neg hne, h]

theorem decList_cons_of_head (bo : ByteOrder) (buf : List UInt8) (nfds : Option Nat) (d : Nat) (e : Ty)
    (off lim fuel : Nat) (v : Val) (o' : Nat) (hne : off ≠ lim)
    (h : dec bo buf nfds d e off lim = some (v, o')) :
    decList bo buf nfds d e off lim (fuel + 1) = (decList bo buf nfds d e o' lim fuel).map (v :: ·) := by
  rw [decList_succ, if_neg hne, h]
  dsimp only
  cases hr : decList bo buf nfds d e o' lim fuel <;> rfl

theorem decEntries_none_of_value (bo : ByteOrder) (buf : List UInt8) (nfds : Option Nat) (d : Nat)
    (k : Base) (vt : Ty) (off lim fuel o o1 : Nat) (kv : Val) (hne : off ≠ lim)
    (hp : skipPad buf off lim 8 = some o) (hk : decBase bo buf nfds k o lim = some (kv, o1))
    (h : dec bo buf nfds d vt o1 lim = none) :
    decEntries bo buf nfds d k vt off lim fuel = none := by
  cases fuel with
  | zero => rw [decEntries_zero, if_neg hne]
  | succ fuel => rw [decEntries_succ, if_neg hne, hp]; dsimp only; rw [hk]; dsimp only; rw [h]

theorem dec_struct_none_of_field (bo : ByteOrder) (buf : List UInt8) (nfds : Option Nat) (d lim : Nat)
    (pre : List Ty) (t : Ty) (post : List Ty) (off o : Nat) (vs : List Val) (o1 : Nat)
    (hp : skipPad buf off lim 8 = some o)
    (hpre : decFields bo buf nfds d pre o lim = some (vs, o1))
    (h : dec bo buf nfds d t o1 lim = none) :
    dec bo buf nfds (d + 1) (.struct (pre ++ t :: post)) off lim = none := by
  rw [dec_struct]
  split
  · rfl
  · rw [hp]; dsimp only
    rw [decFields_none_of_field bo buf nfds d lim pre t post o vs o1 hpre h]

/-! ### size of a decoded value -/

/-- whatever the decoder accepts has at most `(d + 1)` nodes per byte it occupies (`d` = nesting budget)
    and no more string bytes than it occupies -/
theorem dec_size (bo : ByteOrder) (buf : List UInt8) (nfds : Option Nat) (d : Nat) (t : Ty)
    (off lim : Nat) (v : Val) (o' : Nat) (h : dec bo buf nfds d t off lim = some (v, o')) :
    nodes v ≤ (d + 1) * (o' - off) ∧ strBytes v ≤ o' - off ∧ off < o' := by
  obtain ⟨h1, h2, h3, h4, h5, _⟩ := enc_dec bo buf nfds d t off lim v o' h
  obtain ⟨a, b, _⟩ := (enc_size_all bo).1 t v off _ h4
  rw [slice_length _ _ _ (by omega)] at a b
  exact ⟨Nat.le_trans a (Nat.mul_le_mul_right _ (by omega)), b, h1⟩

end Rustbus.Limits
