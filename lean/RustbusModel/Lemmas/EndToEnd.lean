import RustbusModel.Lemmas.RecvRun
import RustbusModel.Lemmas.LimitsRecv
import RustbusModel.Lemmas.LimitsSend
import RustbusModel.Lemmas.Body
/-!
Glue between the models: what the send side emits for a message (Header.marshalHeader ++ body, C05/C10/C18) is a
well-formed frame for the receive loop (Recv.FrameOk, C09).
-/
namespace Rustbus.Recv
open Rustbus Rustbus.Bytes Rustbus.Header Rustbus.Spec.Header

/-- every message the send side marshals is a frame the receive loop accepts -/
theorem marshalled_frameOk (m : Msg) (serial : Nat) (hr : msgInRange m serial) (hs : 0 < serial)
    (hrs : m.replySerial ≠ some 0) (hdr : List UInt8) (hm : marshalHeader m serial = some hdr)
    (fs : List Field) (hf : entriesFields (msgEntries m) = some fs) (hok : fieldsOk m.typ fs = true)
    (fds : List Nat) (hfd : fds.length ≤ cmsgCap) :
    FrameOk ⟨hdr ++ m.body, fds⟩ := by
  have hn := Rustbus.Limits.send_within_recv m serial hr hs hdr hm
  have h16 : 16 ≤ (hdr ++ m.body).length := by
    have := Rustbus.Limits.bytesNeeded_ge16 _ _ hn
    simpa [List.length_append] using this
  refine ⟨h16, ?_, ?_, hfd⟩
  · show bytesNeeded ((hdr ++ m.body).take 16) = .bytes (hdr ++ m.body).length
    rw [bytesNeeded_take16 _ h16, hn, List.length_append]
  · show (decodeMessage (hdr ++ m.body)).isSome = true
    rw [marshal_decode m serial hr hs hrs hdr hm fs hf hok]; rfl

end Rustbus.Recv
