import RustbusModel.Model.Limits
import RustbusModel.Lemmas.Wire
/-!
C18, instrumented decoder: one-step unfoldings of `decT`, `resEq_all` (the instrumented decoder returns
exactly what `Wire.dec` returns) and `hwOk_all` (what the high-water mark and the oversize marker guarantee),
by strong induction on the nesting budget.
-/
namespace Rustbus.Limits
open Rustbus Rustbus.Bytes Rustbus.Wire

section unfold
variable (bo : ByteOrder) (buf : List UInt8) (nfds : Option Nat)

theorem decT_base (d : Nat) (b : Base) (off lim : Nat) :
    decT bo buf nfds d (.base b) off lim = decBaseT bo buf nfds b off lim := by
  simp only [decT] <;> rfl

theorem decT_zero (t : Ty) (off lim : Nat) (ht : ∀ b, t ≠ .base b) :
    decT bo buf nfds 0 t off lim = ⟨none, off, none⟩ := by
  cases t <;> first | exact absurd rfl (ht _) | simp only [decT]

theorem decT_array (d : Nat) (e : Ty) (off lim : Nat) :
    decT bo buf nfds (d + 1) (.array e) off lim =
    match skipPadT buf off lim 4 with
    | (none, h) => ⟨none, h, none⟩
    | (some o, h) =>
      match readNumT bo buf o lim 4 with
      | (none, h2) => ⟨none, max h h2, none⟩
      | (some len, h2) =>
        if len ≤ maxArrayLen then
          match skipPadT buf (o + 4) lim e.align with
          | (none, h3) => ⟨none, max (max h h2) h3, none⟩
          | (some o2, h3) =>
            if o2 + len ≤ lim then
              match decListT bo buf nfds d e o2 (o2 + len) len with
              | ⟨none, h4, b⟩ => ⟨none, max (max (max h h2) h3) h4, b⟩
              | ⟨some vs, h4, b⟩ => ⟨some (.arr vs, o2 + len), max (max (max h h2) h3) h4, b⟩
            else ⟨none, max (max h h2) h3, none⟩
        else ⟨none, max h h2, some o⟩ := by
  simp only [decT] <;> rfl

theorem decT_dict_one (k : Base) (v : Ty) (off lim : Nat) :
    decT bo buf nfds 1 (.dict k v) off lim = ⟨none, off, none⟩ := by
  simp only [decT] <;> rfl

theorem decT_dict (d' : Nat) (k : Base) (v : Ty) (off lim : Nat) :
    decT bo buf nfds (d' + 2) (.dict k v) off lim =
      match skipPadT buf off lim 4 with
      | (none, h) => ⟨none, h, none⟩
      | (some o, h) =>
        match readNumT bo buf o lim 4 with
        | (none, h2) => ⟨none, max h h2, none⟩
        | (some len, h2) =>
          if len ≤ maxArrayLen then
            match skipPadT buf (o + 4) lim 8 with
            | (none, h3) => ⟨none, max (max h h2) h3, none⟩
            | (some o2, h3) =>
              if o2 + len ≤ lim then
                match decEntriesT bo buf nfds d' k v o2 (o2 + len) len with
                | ⟨none, h4, b⟩ => ⟨none, max (max (max h h2) h3) h4, b⟩
                | ⟨some es, h4, b⟩ => ⟨some (.arr es, o2 + len), max (max (max h h2) h3) h4, b⟩
              else ⟨none, max (max h h2) h3, none⟩
          else ⟨none, max h h2, some o⟩ := by
  simp only [decT] <;> rfl

theorem decT_struct (d : Nat) (fs : List Ty) (off lim : Nat) :
    decT bo buf nfds (d + 1) (.struct fs) off lim =
    if fs.isEmpty then ⟨none, off, none⟩
    else
      match skipPadT buf off lim 8 with
      | (none, h) => ⟨none, h, none⟩
      | (some o, h) =>
        match decFieldsT bo buf nfds d fs o lim with
        | ⟨none, h2, b⟩ => ⟨none, max h h2, b⟩
        | ⟨some (vs, o'), h2, b⟩ => ⟨some (.struct vs, o'), max h h2, b⟩ := by
  simp only [decT] <;> rfl

theorem decT_variant (d : Nat) (off lim : Nat) :
    decT bo buf nfds (d + 1) .variant off lim =
    match readNumT bo buf off lim 1 with
    | (none, h) => ⟨none, h, none⟩
    | (some len, h) =>
      if off + len + 2 ≤ lim then
        if slice buf (off + 1 + len) 1 = [0] then
          match Sig.parseDescription (latin1 (slice buf (off + 1) len)) with
          | some [t] =>
            match decT bo buf nfds d t (off + len + 2) lim with
            | ⟨none, h2, b⟩ => ⟨none, max (max h (off + len + 2)) h2, b⟩
            | ⟨some (v, o'), h2, b⟩ => ⟨some (.variant t v, o'), max (max h (off + len + 2)) h2, b⟩
          | _ => ⟨none, max h (off + len + 2), none⟩
        else ⟨none, max h (off + len + 2), none⟩
      else ⟨none, h, none⟩ := by
  simp only [decT] <;> rfl

theorem decListT_zero (d : Nat) (e : Ty) (off lim : Nat) :
    decListT bo buf nfds d e off lim 0 = ⟨if off = lim then some [] else none, off, none⟩ := by
  simp only [decListT] <;> rfl

theorem decListT_succ (d : Nat) (e : Ty) (off lim fuel : Nat) :
    decListT bo buf nfds d e off lim (fuel + 1) =
    if off = lim then ⟨some [], off, none⟩
    else
      match decT bo buf nfds d e off lim with
      | ⟨none, h, b⟩ => ⟨none, h, b⟩
      | ⟨some (v, o'), h, _⟩ =>
        match decListT bo buf nfds d e o' lim fuel with
        | ⟨none, h2, b2⟩ => ⟨none, max h h2, b2⟩
        | ⟨some vs, h2, b2⟩ => ⟨some (v :: vs), max h h2, b2⟩ := by
  simp only [decListT] <;> rfl

theorem decEntriesT_zero (d : Nat) (k : Base) (vt : Ty) (off lim : Nat) :
    decEntriesT bo buf nfds d k vt off lim 0 = ⟨if off = lim then some [] else none, off, none⟩ := by
  simp only [decEntriesT] <;> rfl

theorem decEntriesT_succ (d : Nat) (k : Base) (vt : Ty) (off lim fuel : Nat) :
    decEntriesT bo buf nfds d k vt off lim (fuel + 1) =
    if off = lim then ⟨some [], off, none⟩
    else
      match skipPadT buf off lim 8 with
      | (none, h) => ⟨none, h, none⟩
      | (some o, h) =>
        match decBaseT bo buf nfds k o lim with
        | ⟨none, h1, _⟩ => ⟨none, max h h1, none⟩
        | ⟨some (kv, o1), h1, _⟩ =>
          match decT bo buf nfds d vt o1 lim with
          | ⟨none, h2, b⟩ => ⟨none, max (max h h1) h2, b⟩
          | ⟨some (vv, o2), h2, _⟩ =>
            match decEntriesT bo buf nfds d k vt o2 lim fuel with
            | ⟨none, h3, b3⟩ => ⟨none, max (max (max h h1) h2) h3, b3⟩
            | ⟨some es, h3, b3⟩ => ⟨some (.struct [kv, vv] :: es), max (max (max h h1) h2) h3, b3⟩ := by
  simp only [decEntriesT] <;> rfl

theorem decFieldsT_nil (d : Nat) (off lim : Nat) :
    decFieldsT bo buf nfds d [] off lim = ⟨some ([], off), off, none⟩ := by
  simp only [decFieldsT] <;> rfl

theorem decFieldsT_cons (d : Nat) (t : Ty) (ts : List Ty) (off lim : Nat) :
    decFieldsT bo buf nfds d (t :: ts) off lim =
    match decT bo buf nfds d t off lim with
    | ⟨none, h, b⟩ => ⟨none, h, b⟩
    | ⟨some (v, o'), h, _⟩ =>
      match decFieldsT bo buf nfds d ts o' lim with
      | ⟨none, h2, b2⟩ => ⟨none, max h h2, b2⟩
      | ⟨some (vs, o''), h2, b2⟩ => ⟨some (v :: vs, o''), max h h2, b2⟩ := by
  simp only [decFieldsT] <;> rfl
end unfold

section res
variable (bo : ByteOrder) (buf : List UInt8) (nfds : Option Nat)

theorem decBaseT_res (b : Base) (off lim : Nat) :
    (decBaseT bo buf nfds b off lim).res = decBase bo buf nfds b off lim := by
  unfold decBaseT decBase skipPadT readNumT
  cases hk : b.fixedSize with
  | some k =>
    simp only []
    cases skipPad buf off lim b.align with
    | none => rfl
    | some o =>
      simp only []
      cases readNum bo buf o lim k with
      | none => rfl
      | some n => rfl
  | none =>
    simp only []
    cases b <;> simp [Base.fixedSize] at hk <;> simp only []
    · cases skipPad buf off lim 4 with
      | none => rfl
      | some o =>
        simp only []
        cases readNum bo buf o lim 4 with
        | none => rfl
        | some len => simp only []; split <;> rfl
    · cases skipPad buf off lim 4 with
      | none => rfl
      | some o =>
        simp only []
        cases readNum bo buf o lim 4 with
        | none => rfl
        | some len => simp only []; split <;> rfl
    · cases readNum bo buf off lim 1 with
      | none => rfl
      | some len => simp only []; split <;> rfl

/-- the instrumented decoder returns what the plain decoder returns, at budget `d` -/
def ResEq (d : Nat) : Prop :=
  ∀ (t : Ty) (off lim : Nat), (decT bo buf nfds d t off lim).res = dec bo buf nfds d t off lim

theorem decListT_res (d : Nat) (h : ResEq bo buf nfds d) (e : Ty) (lim fuel off : Nat) :
    (decListT bo buf nfds d e off lim fuel).res = decList bo buf nfds d e off lim fuel := by
  induction fuel generalizing off with
  | zero => rw [decListT_zero, decList_zero]
  | succ fuel ih =>
    rw [decListT_succ, decList_succ]
    split
    · rfl
    · have h1 := h e off lim
      rw [← h1]
      rcases decT bo buf nfds d e off lim with ⟨_ | ⟨v, o'⟩, hw, b⟩
      · rfl
      · simp only []
        have h2 := ih o'
        rw [← h2]
        rcases decListT bo buf nfds d e o' lim fuel with ⟨_ | vs, hw2, b2⟩ <;> rfl

theorem decEntriesT_res (d : Nat) (h : ResEq bo buf nfds d) (k : Base) (vt : Ty) (lim fuel off : Nat) :
    (decEntriesT bo buf nfds d k vt off lim fuel).res = decEntries bo buf nfds d k vt off lim fuel := by
  induction fuel generalizing off with
  | zero => rw [decEntriesT_zero, decEntries_zero]
  | succ fuel ih =>
    rw [decEntriesT_succ, decEntries_succ]
    split
    · rfl
    · simp only [skipPadT]
      cases skipPad buf off lim 8 with
      | none => rfl
      | some o =>
        simp only []
        rw [← decBaseT_res]
        rcases decBaseT bo buf nfds k o lim with ⟨_ | ⟨kv, o1⟩, hw1, b1⟩
        · rfl
        · simp only []
          rw [← h vt o1 lim]
          rcases decT bo buf nfds d vt o1 lim with ⟨_ | ⟨vv, o2⟩, hw2, b2⟩
          · rfl
          · simp only []
            rw [← ih o2]
            rcases decEntriesT bo buf nfds d k vt o2 lim fuel with ⟨_ | es, hw3, b3⟩ <;> rfl

theorem decFieldsT_res (d : Nat) (h : ResEq bo buf nfds d) (fs : List Ty) (lim off : Nat) :
    (decFieldsT bo buf nfds d fs off lim).res = decFields bo buf nfds d fs off lim := by
  induction fs generalizing off with
  | nil => rw [decFieldsT_nil, decFields_nil]
  | cons t ts ih =>
    rw [decFieldsT_cons, decFields_cons, ← h t off lim]
    rcases decT bo buf nfds d t off lim with ⟨_ | ⟨v, o'⟩, hw, b⟩
    · rfl
    · simp only []
      rw [← ih o']
      rcases decFieldsT bo buf nfds d ts o' lim with ⟨_ | ⟨vs, o''⟩, hw2, b2⟩ <;> rfl

theorem resEq_all (d : Nat) : ResEq bo buf nfds d := by
  induction d using Nat.strongRecOn with
  | _ d ih =>
    intro t off lim
    cases t with
    | base b => rw [decT_base, dec_base, decBaseT_res]
    | array e =>
      cases d with
      | zero => rw [decT_zero _ _ _ _ _ _ (by intro b; simp), dec_zero _ _ _ _ _ _ (by intro b; simp)]
      | succ d =>
        rw [decT_array, dec_array]
        simp only [skipPadT, readNumT]
        cases skipPad buf off lim 4 with
        | none => rfl
        | some o =>
          simp only []
          cases readNum bo buf o lim 4 with
          | none => rfl
          | some len =>
            simp only []
            split
            · cases skipPad buf (o + 4) lim e.align with
              | none => rfl
              | some o2 =>
                simp only []
                split
                · rw [← decListT_res bo buf nfds d (ih d (by omega))]
                  rcases decListT bo buf nfds d e o2 (o2 + len) len with ⟨_ | vs, hw, b⟩ <;> rfl
                · rfl
            · rfl
    | dict k v =>
      cases d with
      | zero => rw [decT_zero _ _ _ _ _ _ (by intro b; simp), dec_zero _ _ _ _ _ _ (by intro b; simp)]
      | succ d =>
        cases d with
        | zero => rw [decT_dict_one, dec_dict_one]
        | succ d' =>
          rw [decT_dict, dec_dict]
          simp only [skipPadT, readNumT]
          cases skipPad buf off lim 4 with
          | none => rfl
          | some o =>
            simp only []
            cases readNum bo buf o lim 4 with
            | none => rfl
            | some len =>
              simp only []
              split
              · cases skipPad buf (o + 4) lim 8 with
                | none => rfl
                | some o2 =>
                  simp only []
                  split
                  · rw [← decEntriesT_res bo buf nfds d' (ih d' (by omega))]
                    rcases decEntriesT bo buf nfds d' k v o2 (o2 + len) len with ⟨_ | vs, hw, b⟩ <;> rfl
                  · rfl
              · rfl
    | struct fs =>
      cases d with
      | zero => rw [decT_zero _ _ _ _ _ _ (by intro b; simp), dec_zero _ _ _ _ _ _ (by intro b; simp)]
      | succ d =>
        rw [decT_struct, dec_struct]
        split
        · rfl
        · simp only [skipPadT]
          cases skipPad buf off lim 8 with
          | none => rfl
          | some o =>
            simp only []
            rw [← decFieldsT_res bo buf nfds d (ih d (by omega))]
            rcases decFieldsT bo buf nfds d fs o lim with ⟨_ | ⟨vs, o'⟩, hw, b⟩ <;> rfl
    | variant =>
      cases d with
      | zero => rw [decT_zero _ _ _ _ _ _ (by intro b; simp), dec_zero _ _ _ _ _ _ (by intro b; simp)]
      | succ d =>
        rw [decT_variant, dec_variant]
        simp only [readNumT]
        cases readNum bo buf off lim 1 with
        | none => rfl
        | some len =>
          simp only []
          split
          · split
            · split
              · rename_i t hp
                rw [hp]
                simp only []
                rw [← ih d (by omega) t (off + len + 2) lim]
                rcases decT bo buf nfds d t (off + len + 2) lim with ⟨_ | ⟨v, o'⟩, hw, b⟩ <;> rfl
              · rename_i hno
                show none = _
                split
                · rename_i t hp; exact (hno t hp).elim
                · rfl
            · rfl
          · rfl
end res

section hw
variable (bo : ByteOrder) (buf : List UInt8) (nfds : Option Nat)

/-- what the instrumentation guarantees for a step that starts at `off` and is clipped at `lim`:
    the high-water mark is at least `off` and at most `max off lim` (nothing at or beyond the limit is
    looked at); on success the step has looked exactly up to the end of what it consumed and met no
    oversized length; if it met an oversized length word at `p` it failed and that word (bytes `p .. p+3`)
    is the last thing it looked at -/
def TrOk {α : Type} (off lim : Nat) (endOf : α → Nat) (r : Tr α) : Prop :=
  off ≤ r.hw ∧ r.hw ≤ max off lim ∧ (∀ x, r.res = some x → r.hw = endOf x ∧ r.big = none) ∧
  (∀ p, r.big = some p → r.res = none ∧ r.hw = p + 4 ∧ off ≤ p ∧ maxArrayLen < valOf bo (slice buf p 4))

theorem trOk_fail {α : Type} (off lim h : Nat) (endOf : α → Nat) (h1 : off ≤ h) (h2 : h ≤ max off lim) :
    TrOk bo buf off lim endOf ⟨none, h, none⟩ := by
  unfold TrOk
  refine ⟨h1, h2, ?_, ?_⟩
  · intro x hx; cases hx
  · intro p hp; cases hp

theorem skipPadT_cases (off lim a : Nat) :
    (∃ h, skipPadT buf off lim a = (none, h) ∧ off ≤ h ∧ h ≤ max off lim) ∨
    (∃ o, skipPadT buf off lim a = (some o, o) ∧ off ≤ o ∧ o ≤ lim) := by
  unfold skipPadT skipPad
  by_cases h1 : off + padLen a off ≤ lim ∧ lim ≤ buf.length
  · rw [if_pos h1]
    by_cases h2 : allZero (slice buf off (padLen a off)) = true
    · right; exact ⟨_, by rw [if_pos ⟨h1.1, h1.2, h2⟩], by omega, h1.1⟩
    · left; exact ⟨_, by rw [if_neg (by intro hc; exact h2 hc.2.2)], by omega, by omega⟩
  · rw [if_neg h1]
    left; exact ⟨_, by rw [if_neg (by intro hc; exact h1 ⟨hc.1, hc.2.1⟩)], by omega, by omega⟩

theorem readNumT_cases (off lim k : Nat) :
    (∃ h, readNumT bo buf off lim k = (none, h) ∧ off ≤ h ∧ h ≤ max off lim) ∨
    (readNumT bo buf off lim k = (some (valOf bo (slice buf off k)), off + k) ∧ off + k ≤ lim) := by
  unfold readNumT readNum
  by_cases h1 : off + k ≤ lim ∧ lim ≤ buf.length
  · rw [if_pos h1, if_pos h1]; right; exact ⟨rfl, h1.1⟩
  · rw [if_neg h1, if_neg h1]; left; exact ⟨_, rfl, by omega, by omega⟩

theorem decBaseT_ok (b : Base) (off lim : Nat) :
    TrOk bo buf off lim Prod.snd (decBaseT bo buf nfds b off lim) := by
  unfold decBaseT
  cases hk : b.fixedSize with
  | some k =>
    simp only []
    rcases skipPadT_cases buf off lim b.align with ⟨h, hsp, a1, a2⟩ | ⟨o, hsp, a1, a2⟩ <;> rw [hsp] <;>
      simp only []
    · exact trOk_fail bo buf off lim h _ a1 a2
    · rcases readNumT_cases bo buf o lim k with ⟨h2, hrn, b1, b2⟩ | ⟨hrn, b1⟩ <;> rw [hrn] <;> simp only []
      · exact trOk_fail bo buf off lim _ _ (by omega) (by omega)
      · refine ⟨by simp only []; omega, by simp only []; omega, ?_, by intro p hp; cases hp⟩
        intro x hx
        refine ⟨?_, rfl⟩
        simp only [] at hx ⊢
        have : x.2 = o + k := by
          split at hx
          · split at hx
            · split at hx
              · simp only [Option.some.injEq] at hx; rw [← hx]
              · cases hx
            · simp only [Option.some.injEq] at hx; rw [← hx]
          · cases hx
        omega
  | none =>
    simp only []
    have str : ∀ bb : Base,
        TrOk bo buf off lim Prod.snd
          (match skipPadT buf off lim 4 with
          | (none, h) => ⟨none, h, none⟩
          | (some o, h) =>
            match readNumT bo buf o lim 4 with
            | (none, h2) => ⟨none, max h h2, none⟩
            | (some len, h2) =>
              if o + len + 5 ≤ lim then
                let bs := slice buf (o + 4) len
                ⟨if slice buf (o + 4 + len) 1 = [0] && strOk bb bs then some (Val.str bs, o + len + 5) else none,
                  max (max h h2) (o + len + 5), none⟩
              else ⟨none, max h h2, none⟩) := by
      intro bb
      rcases skipPadT_cases buf off lim 4 with ⟨h, hsp, a1, a2⟩ | ⟨o, hsp, a1, a2⟩ <;> rw [hsp] <;>
        simp only []
      · exact trOk_fail bo buf off lim h _ a1 a2
      · rcases readNumT_cases bo buf o lim 4 with ⟨h2, hrn, b1, b2⟩ | ⟨hrn, b1⟩ <;> rw [hrn] <;> simp only []
        · exact trOk_fail bo buf off lim _ _ (by omega) (by omega)
        · split
          · refine ⟨by simp only []; omega, by simp only []; omega, ?_, by intro p hp; cases hp⟩
            intro x hx
            refine ⟨?_, rfl⟩
            simp only [] at hx ⊢
            split at hx
            · simp only [Option.some.injEq] at hx; rw [← hx]; simp only []; omega
            · cases hx
          · exact trOk_fail bo buf off lim _ _ (by omega) (by omega)
    cases b <;> simp [Base.fixedSize] at hk <;> simp only []
    · exact str .string
    · exact str .objpath
    · rcases readNumT_cases bo buf off lim 1 with ⟨h2, hrn, b1, b2⟩ | ⟨hrn, b1⟩ <;> rw [hrn] <;> simp only []
      · exact trOk_fail bo buf off lim _ _ (by omega) (by omega)
      · split
        · refine ⟨by simp only []; omega, by simp only []; omega, ?_, by intro p hp; cases hp⟩
          intro x hx
          refine ⟨?_, rfl⟩
          simp only [] at hx ⊢
          split at hx
          · simp only [Option.some.injEq] at hx; rw [← hx]; simp only []; omega
          · cases hx
        · exact trOk_fail bo buf off lim _ _ (by omega) (by omega)


/-- the instrumentation guarantee at budget `d` -/
def HwOk (d : Nat) : Prop :=
  ∀ (t : Ty) (off lim : Nat), TrOk bo buf off lim Prod.snd (decT bo buf nfds d t off lim)

theorem decListT_ok (d : Nat) (h : HwOk bo buf nfds d) (e : Ty) (lim fuel off : Nat) :
    TrOk bo buf off lim (fun _ => lim) (decListT bo buf nfds d e off lim fuel) := by
  induction fuel generalizing off with
  | zero =>
    rw [decListT_zero]
    refine ⟨Nat.le_refl _, (by dsimp only; omega), ?_, by intro p hp; cases hp⟩
    intro x hx
    dsimp only at hx ⊢
    split at hx
    · exact ⟨by omega, rfl⟩
    · cases hx
  | succ fuel ih =>
    rw [decListT_succ]
    split
    · rename_i heq
      exact ⟨Nat.le_refl _, (by dsimp only; omega), by intro x _; exact ⟨heq, rfl⟩, by intro p hp; cases hp⟩
    · obtain ⟨c1, c2, c3, c4⟩ := h e off lim
      rcases hr : decT bo buf nfds d e off lim with ⟨_ | ⟨v, o'⟩, hw, b⟩ <;> rw [hr] at c1 c2 c3 c4 <;>
        dsimp only at c1 c2 c3 c4 ⊢
      · exact ⟨c1, c2, (by intro x hx; cases hx), fun p hp => ⟨rfl, (c4 p hp).2⟩⟩
      · obtain ⟨e1, e2⟩ := c3 (v, o') rfl
        dsimp only at e1
        obtain ⟨g1, g2, g3, g4⟩ := ih o'
        rcases hr2 : decListT bo buf nfds d e o' lim fuel with ⟨_ | vs, hw2, b2⟩ <;>
          rw [hr2] at g1 g2 g3 g4 <;> dsimp only at g1 g2 g3 g4 ⊢
        · refine ⟨(by dsimp only; omega), (by dsimp only; omega), (by intro x hx; cases hx), ?_⟩
          intro p hp
          obtain ⟨_, q2, q3, q4⟩ := g4 p hp
          exact ⟨rfl, (by dsimp only; omega), by omega, q4⟩
        · refine ⟨(by dsimp only; omega), (by dsimp only; omega), ?_, ?_⟩
          · intro x _
            obtain ⟨r1, r2⟩ := g3 vs rfl
            exact ⟨(by dsimp only; omega), r2⟩
          · intro p hp
            exact absurd (g4 p hp).1 (by simp)

theorem decFieldsT_ok (d : Nat) (h : HwOk bo buf nfds d) (fs : List Ty) (lim off : Nat) :
    TrOk bo buf off lim Prod.snd (decFieldsT bo buf nfds d fs off lim) := by
  induction fs generalizing off with
  | nil =>
    rw [decFieldsT_nil]
    refine ⟨Nat.le_refl _, (by dsimp only; omega), ?_, by intro p hp; cases hp⟩
    intro x hx
    simp only [Option.some.injEq] at hx
    rw [← hx]; exact ⟨rfl, rfl⟩
  | cons t ts ih =>
    rw [decFieldsT_cons]
    obtain ⟨c1, c2, c3, c4⟩ := h t off lim
    rcases hr : decT bo buf nfds d t off lim with ⟨_ | ⟨v, o'⟩, hw, b⟩ <;> rw [hr] at c1 c2 c3 c4 <;>
      dsimp only at c1 c2 c3 c4 ⊢
    · exact ⟨c1, c2, (by intro x hx; cases hx), fun p hp => ⟨rfl, (c4 p hp).2⟩⟩
    · obtain ⟨e1, e2⟩ := c3 (v, o') rfl
      dsimp only at e1
      obtain ⟨g1, g2, g3, g4⟩ := ih o'
      rcases hr2 : decFieldsT bo buf nfds d ts o' lim with ⟨_ | ⟨vs, o''⟩, hw2, b2⟩ <;>
        rw [hr2] at g1 g2 g3 g4 <;> dsimp only at g1 g2 g3 g4 ⊢
      · refine ⟨(by dsimp only; omega), (by dsimp only; omega), (by intro x hx; cases hx), ?_⟩
        intro p hp
        obtain ⟨_, q2, q3, q4⟩ := g4 p hp
        exact ⟨rfl, (by dsimp only; omega), by omega, q4⟩
      · refine ⟨(by dsimp only; omega), (by dsimp only; omega), ?_, ?_⟩
        · intro x hx
          obtain ⟨r1, r2⟩ := g3 (vs, o'') rfl
          simp only [Option.some.injEq] at hx
          rw [← hx]
          exact ⟨by simp only [] at r1 ⊢; omega, r2⟩
        · intro p hp
          exact absurd (g4 p hp).1 (by simp)


theorem decEntriesT_ok (d : Nat) (h : HwOk bo buf nfds d) (k : Base) (vt : Ty) (lim fuel off : Nat) :
    TrOk bo buf off lim (fun _ => lim) (decEntriesT bo buf nfds d k vt off lim fuel) := by
  induction fuel generalizing off with
  | zero =>
    rw [decEntriesT_zero]
    refine ⟨Nat.le_refl _, (by dsimp only; omega), ?_, by intro p hp; cases hp⟩
    intro x hx
    dsimp only at hx ⊢
    split at hx
    · exact ⟨by omega, rfl⟩
    · cases hx
  | succ fuel ih =>
    rw [decEntriesT_succ]
    split
    · rename_i heq
      exact ⟨Nat.le_refl _, (by dsimp only; omega), (by intro x _; exact ⟨heq, rfl⟩), by intro p hp; cases hp⟩
    · rcases skipPadT_cases buf off lim 8 with ⟨h0, hsp, a1, a2⟩ | ⟨o, hsp, a1, a2⟩ <;> rw [hsp] <;>
        dsimp only
      · exact trOk_fail bo buf off lim h0 _ a1 a2
      · obtain ⟨k1, k2, k3, _⟩ := decBaseT_ok bo buf nfds k o lim
        rcases hrk : decBaseT bo buf nfds k o lim with ⟨_ | ⟨kv, o1⟩, hwk, bk⟩ <;> rw [hrk] at k1 k2 k3 <;>
          dsimp only at k1 k2 k3 ⊢
        · exact trOk_fail bo buf off lim _ _ (by omega) (by omega)
        · obtain ⟨k4, _⟩ := k3 (kv, o1) rfl
          dsimp only at k4
          obtain ⟨c1, c2, c3, c4⟩ := h vt o1 lim
          rcases hr : decT bo buf nfds d vt o1 lim with ⟨_ | ⟨vv, o2⟩, hw, b⟩ <;> rw [hr] at c1 c2 c3 c4 <;>
            dsimp only at c1 c2 c3 c4 ⊢
          · refine ⟨(by dsimp only; omega), (by dsimp only; omega), (by intro x hx; cases hx), ?_⟩
            intro p hp
            obtain ⟨_, q2, q3, q4⟩ := c4 p hp
            exact ⟨rfl, (by dsimp only; omega), by omega, q4⟩
          · obtain ⟨e1, e2⟩ := c3 (vv, o2) rfl
            dsimp only at e1
            obtain ⟨g1, g2, g3, g4⟩ := ih o2
            rcases hr2 : decEntriesT bo buf nfds d k vt o2 lim fuel with ⟨_ | es, hw2, b2⟩ <;>
              rw [hr2] at g1 g2 g3 g4 <;> dsimp only at g1 g2 g3 g4 ⊢
            · refine ⟨(by dsimp only; omega), (by dsimp only; omega), (by intro x hx; cases hx), ?_⟩
              intro p hp
              obtain ⟨_, q2, q3, q4⟩ := g4 p hp
              exact ⟨rfl, (by dsimp only; omega), by omega, q4⟩
            · refine ⟨(by dsimp only; omega), (by dsimp only; omega), ?_, ?_⟩
              · intro x _
                obtain ⟨r1, r2⟩ := g3 es rfl
                exact ⟨(by dsimp only; omega), r2⟩
              · intro p hp
                exact absurd (g4 p hp).1 (by simp)

theorem hwOk_all (d : Nat) : HwOk bo buf nfds d := by
  induction d using Nat.strongRecOn with
  | _ d ih =>
    intro t off lim
    have hzero : ∀ t : Ty, (∀ b, t ≠ .base b) →
        TrOk bo buf off lim Prod.snd (decT bo buf nfds 0 t off lim) := by
      intro t ht
      rw [decT_zero _ _ _ _ _ _ ht]
      exact trOk_fail bo buf off lim off _ (Nat.le_refl _) (by omega)
    -- the common head of arrays and dicts
    have coll : ∀ (a : Nat) (inner : Nat → Nat → Tr (List Val)),
        (∀ o2 len, TrOk bo buf o2 (o2 + len) (fun _ => o2 + len) (inner o2 len)) →
        TrOk bo buf off lim Prod.snd
          (match skipPadT buf off lim 4 with
          | (none, h) => ⟨none, h, none⟩
          | (some o, h) =>
            match readNumT bo buf o lim 4 with
            | (none, h2) => ⟨none, max h h2, none⟩
            | (some len, h2) =>
              if len ≤ maxArrayLen then
                match skipPadT buf (o + 4) lim a with
                | (none, h3) => ⟨none, max (max h h2) h3, none⟩
                | (some o2, h3) =>
                  if o2 + len ≤ lim then
                    match inner o2 len with
                    | ⟨none, h4, b⟩ => ⟨none, max (max (max h h2) h3) h4, b⟩
                    | ⟨some vs, h4, b⟩ => ⟨some (Val.arr vs, o2 + len), max (max (max h h2) h3) h4, b⟩
                  else ⟨none, max (max h h2) h3, none⟩
              else ⟨none, max h h2, some o⟩) := by
      intro a inner hin
      rcases skipPadT_cases buf off lim 4 with ⟨h0, hsp, a1, a2⟩ | ⟨o, hsp, a1, a2⟩ <;> rw [hsp] <;>
        dsimp only
      · exact trOk_fail bo buf off lim h0 _ a1 a2
      · rcases readNumT_cases bo buf o lim 4 with ⟨h2, hrn, b1, b2⟩ | ⟨hrn, b1⟩ <;> rw [hrn] <;> dsimp only
        · exact trOk_fail bo buf off lim _ _ (by omega) (by omega)
        · split
          · rcases skipPadT_cases buf (o + 4) lim a with ⟨h3, hsp2, d1, d2⟩ | ⟨o2, hsp2, d1, d2⟩ <;>
              rw [hsp2] <;> dsimp only
            · exact trOk_fail bo buf off lim _ _ (by omega) (by omega)
            · split
              · obtain ⟨g1, g2, g3, g4⟩ := hin o2 (valOf bo (slice buf o 4))
                rcases hr2 : inner o2 (valOf bo (slice buf o 4)) with ⟨_ | vs, hw2, b2⟩ <;>
                  rw [hr2] at g1 g2 g3 g4 <;> dsimp only at g1 g2 g3 g4 ⊢
                · refine ⟨(by dsimp only; omega), (by dsimp only; omega), (by intro x hx; cases hx), ?_⟩
                  intro p hp
                  obtain ⟨_, q2, q3, q4⟩ := g4 p hp
                  exact ⟨rfl, (by dsimp only; omega), by omega, q4⟩
                · refine ⟨(by dsimp only; omega), (by dsimp only; omega), ?_, ?_⟩
                  · intro x hx
                    obtain ⟨r1, r2⟩ := g3 vs rfl
                    simp only [Option.some.injEq] at hx
                    rw [← hx]
                    exact ⟨(by dsimp only; omega), r2⟩
                  · intro p hp
                    exact absurd (g4 p hp).1 (by simp)
              · exact trOk_fail bo buf off lim _ _ (by omega) (by omega)
          · rename_i hbig
            refine ⟨(by dsimp only; omega), (by dsimp only; omega), (by intro x hx; cases hx), ?_⟩
            intro p hp
            simp only [Option.some.injEq] at hp
            subst hp
            exact ⟨rfl, (by dsimp only; omega), by omega, by omega⟩
    cases t with
    | base b => rw [decT_base]; exact decBaseT_ok bo buf nfds b off lim
    | array e =>
      cases d with
      | zero => exact hzero _ (by intro b; simp)
      | succ d =>
        rw [decT_array]
        exact coll e.align (fun o2 len => decListT bo buf nfds d e o2 (o2 + len) len)
          (fun o2 len => decListT_ok bo buf nfds d (ih d (by omega)) e (o2 + len) len o2)
    | dict k v =>
      cases d with
      | zero => exact hzero _ (by intro b; simp)
      | succ d =>
        cases d with
        | zero =>
          rw [decT_dict_one]
          exact trOk_fail bo buf off lim off _ (Nat.le_refl _) (by omega)
        | succ d' =>
          rw [decT_dict]
          exact coll 8 (fun o2 len => decEntriesT bo buf nfds d' k v o2 (o2 + len) len)
            (fun o2 len => decEntriesT_ok bo buf nfds d' (ih d' (by omega)) k v (o2 + len) len o2)
    | struct fs =>
      cases d with
      | zero => exact hzero _ (by intro b; simp)
      | succ d =>
        rw [decT_struct]
        split
        · exact trOk_fail bo buf off lim off _ (Nat.le_refl _) (by omega)
        · rcases skipPadT_cases buf off lim 8 with ⟨h0, hsp, a1, a2⟩ | ⟨o, hsp, a1, a2⟩ <;> rw [hsp] <;>
            dsimp only
          · exact trOk_fail bo buf off lim h0 _ a1 a2
          · obtain ⟨g1, g2, g3, g4⟩ := decFieldsT_ok bo buf nfds d (ih d (by omega)) fs lim o
            rcases hr2 : decFieldsT bo buf nfds d fs o lim with ⟨_ | ⟨vs, o'⟩, hw2, b2⟩ <;>
              rw [hr2] at g1 g2 g3 g4 <;> dsimp only at g1 g2 g3 g4 ⊢
            · refine ⟨(by dsimp only; omega), (by dsimp only; omega), (by intro x hx; cases hx), ?_⟩
              intro p hp
              obtain ⟨_, q2, q3, q4⟩ := g4 p hp
              exact ⟨rfl, (by dsimp only; omega), by omega, q4⟩
            · refine ⟨(by dsimp only; omega), (by dsimp only; omega), ?_, ?_⟩
              · intro x hx
                obtain ⟨r1, r2⟩ := g3 (vs, o') rfl
                simp only [Option.some.injEq] at hx
                rw [← hx]
                exact ⟨(by dsimp only at r1 ⊢; omega), r2⟩
              · intro p hp
                exact absurd (g4 p hp).1 (by simp)
    | variant =>
      cases d with
      | zero => exact hzero _ (by intro b; simp)
      | succ d =>
        rw [decT_variant]
        rcases readNumT_cases bo buf off lim 1 with ⟨h2, hrn, b1, b2⟩ | ⟨hrn, b1⟩ <;> rw [hrn] <;> dsimp only
        · exact trOk_fail bo buf off lim _ _ b1 b2
        · split
          · split
            · split
              · rename_i t hp
                obtain ⟨g1, g2, g3, g4⟩ := ih d (by omega) t (off + valOf bo (slice buf off 1) + 2) lim
                rcases hr2 : decT bo buf nfds d t (off + valOf bo (slice buf off 1) + 2) lim with
                  ⟨_ | ⟨v, o'⟩, hw2, b2⟩ <;> rw [hr2] at g1 g2 g3 g4 <;> dsimp only at g1 g2 g3 g4 ⊢
                · refine ⟨(by dsimp only; omega), (by dsimp only; omega), (by intro x hx; cases hx), ?_⟩
                  intro p hp
                  obtain ⟨_, q2, q3, q4⟩ := g4 p hp
                  exact ⟨rfl, (by dsimp only; omega), by omega, q4⟩
                · refine ⟨(by dsimp only; omega), (by dsimp only; omega), ?_, ?_⟩
                  · intro x hx
                    obtain ⟨r1, r2⟩ := g3 (v, o') rfl
                    simp only [Option.some.injEq] at hx
                    rw [← hx]
                    exact ⟨(by dsimp only at r1 ⊢; omega), r2⟩
                  · intro p hp
                    exact absurd (g4 p hp).1 (by simp)
              · exact trOk_fail bo buf off lim _ _ (by omega) (by omega)
            · exact trOk_fail bo buf off lim _ _ (by omega) (by omega)
          · exact trOk_fail bo buf off lim _ _ (by omega) (by omega)

end hw
end Rustbus.Limits
