import RustbusModel.Lemmas.HeaderField
import RustbusModel.Lemmas.HeaderNames
/-!
Header proofs, part 4: the marshaller `marshalHeader` writes the `(yv)` encodings of `msgEntries`.
-/
namespace Rustbus.Header
open Rustbus Rustbus.Bytes Rustbus.Wire Rustbus.Spec.Wire Rustbus.Spec.Header

/-- encoding of one `(yv)` element, down to the payload -/
theorem enc_entry (bo : ByteOrder) (off c : Nat) (t : Ty) (v : Val) (bs : List UInt8) :
    enc bo off elemTy (entryVal (c, t, v)) = some bs ↔
      c < 256 ∧ variantTypeOk t = true ∧
      ∃ body, enc bo (off + padLen 8 off + 1 + (sigBytes t).length + 2) t v = some body ∧
        bs = zeros (padLen 8 off) ++
          (UInt8.ofNat c :: UInt8.ofNat (sigBytes t).length :: (sigBytes t ++ 0 :: body)) := by
  simp only [entryVal, enc, List.isEmpty_cons, Bool.false_eq_true, if_false, encFields, encBase,
    Base.fixedSize, Base.bound, Base.align, padLen_one]
  by_cases hc : c < 256
  · by_cases ht : variantTypeOk t = true
    · simp only [hc, ht, if_true, true_and, Nat.pow_one]
      have e1 : (zeros 0 ++ bytesOf bo 1 c).length = 1 := by simp
      rw [e1, bytesOf_one bo c hc]
      cases enc bo (off + padLen 8 off + 1 + (sigBytes t).length + 2) t v with
      | none => simp
      | some body => simp [zeros, eq_comm]
    · simp [hc, ht]
  · simp [hc]

/-! ### raw bytes of the entries the marshaller writes -/

/-- padding to 8, field code, the one-character signature of a basic type -/
def hdr8 (off code : Nat) (ch : UInt8) : List UInt8 :=
  zeros (padLen 8 off) ++ [UInt8.ofNat code, 1, ch, 0]

theorem hdr8_length (off code : Nat) (ch : UInt8) : (hdr8 off code ch).length = padLen 8 off + 4 := by
  simp [hdr8]

theorem fieldStart_eq (code : Nat) (ch : UInt8) (buf : List UInt8) :
    fieldStart code ch buf = buf ++ hdr8 buf.length code ch := by
  have : padLen 4 (padTo 8 buf ++ [UInt8.ofNat code, 1, ch, 0]).length = 0 := by
    simp only [padTo, List.length_append, zeros_length, List.length_cons, List.length_nil, padLen]
    omega
  simp only [fieldStart]
  rw [padTo, this]
  simp [padTo, hdr8, zeros]

theorem variantTypeOk_base (b : Base) : variantTypeOk (.base b) = true := by
  cases b <;> decide

theorem sigBytes_base (b : Base) : sigBytes (.base b) = [UInt8.ofNat b.char.toNat] := by
  simp [sigBytes, Ty.toStr]

/-- the entries `marshal` writes: a u32, a string-like, or a signature in the variant -/
inductive Simple : Entry → Prop
  | u32 (c n : Nat) : Simple (c, .base .u32, .num n)
  | str (c : Nat) (s : List UInt8) : Simple (c, .base .string, .str s)
  | path (c : Nat) (s : List UInt8) : Simple (c, .base .objpath, .str s)
  | sig (c : Nat) (s : List UInt8) : Simple (c, .base .signature, .str s)

def rawEntry (bo : ByteOrder) (off : Nat) : Entry → List UInt8
  | (c, .base .u32, .num n) => hdr8 off c 117 ++ bytesOf bo 4 n
  | (c, .base .string, .str s) => hdr8 off c 115 ++ (bytesOf bo 4 s.length ++ (s ++ [0]))
  | (c, .base .objpath, .str s) => hdr8 off c 111 ++ (bytesOf bo 4 s.length ++ (s ++ [0]))
  | (c, .base .signature, .str s) => hdr8 off c 103 ++ (UInt8.ofNat s.length :: (s ++ [0]))
  | _ => []

def encOk : Entry → Prop
  | (c, .base .u32, .num n) => c < 256 ∧ n < 256 ^ 4
  | (c, .base .string, .str s) => c < 256 ∧ strOk .string s = true ∧ s.length < 256 ^ 4
  | (c, .base .objpath, .str s) => c < 256 ∧ strOk .objpath s = true ∧ s.length < 256 ^ 4
  | (c, .base .signature, .str s) => c < 256 ∧ strOk .signature s = true
  | _ => False

theorem padLen4_after (off : Nat) : padLen 4 (off + padLen 8 off + 1 + 1 + 2) = 0 := by
  simp only [padLen]; omega

theorem enc_simple (bo : ByteOrder) (off : Nat) (e : Entry) (bs : List UInt8) (h : Simple e) :
    enc bo off elemTy (entryVal e) = some bs ↔ encOk e ∧ bs = rawEntry bo off e := by
  cases h with
  | u32 c n =>
    rw [enc_entry]
    simp only [variantTypeOk_base, sigBytes_base, List.length_singleton, enc, true_and, encOk, rawEntry]
    have hch : UInt8.ofNat Base.u32.char.toNat = 117 := by decide
    simp only [encBase_fixed (show Base.u32.fixedSize = some 4 from rfl), Base.align, padLen4_after, hch,
      hdr8, zeros, List.replicate_zero, List.nil_append, Base.bound, Base.fixedSize]
    constructor
    · rintro ⟨hc, body, ⟨n', hn', hlt, rfl⟩, rfl⟩
      cases hn'
      exact ⟨⟨hc, hlt⟩, by simp⟩
    · rintro ⟨⟨hc, hlt⟩, rfl⟩
      exact ⟨hc, _, ⟨n, rfl, hlt, rfl⟩, by simp⟩
  | str c s =>
    rw [enc_entry]
    simp only [variantTypeOk_base, sigBytes_base, List.length_singleton, enc, true_and, encOk, rawEntry]
    have hch : UInt8.ofNat Base.string.char.toNat = 115 := by decide
    simp only [encBase_str (Or.inl rfl), padLen4_after, hch,
      hdr8, zeros, List.replicate_zero, List.nil_append]
    constructor
    · rintro ⟨hc, body, ⟨s', hs', hok, hlt, rfl⟩, rfl⟩
      cases hs'
      exact ⟨⟨hc, hok, hlt⟩, by simp⟩
    · rintro ⟨⟨hc, hok, hlt⟩, rfl⟩
      exact ⟨hc, _, ⟨s, rfl, hok, hlt, rfl⟩, by simp⟩
  | path c s =>
    rw [enc_entry]
    simp only [variantTypeOk_base, sigBytes_base, List.length_singleton, enc, true_and, encOk, rawEntry]
    have hch : UInt8.ofNat Base.objpath.char.toNat = 111 := by decide
    simp only [encBase_str (Or.inr rfl), padLen4_after, hch,
      hdr8, zeros, List.replicate_zero, List.nil_append]
    constructor
    · rintro ⟨hc, body, ⟨s', hs', hok, hlt, rfl⟩, rfl⟩
      cases hs'
      exact ⟨⟨hc, hok, hlt⟩, by simp⟩
    · rintro ⟨⟨hc, hok, hlt⟩, rfl⟩
      exact ⟨hc, _, ⟨s, rfl, hok, hlt, rfl⟩, by simp⟩
  | sig c s =>
    rw [enc_entry]
    simp only [variantTypeOk_base, sigBytes_base, List.length_singleton, enc, true_and, encOk, rawEntry]
    have hch : UInt8.ofNat Base.signature.char.toNat = 103 := by decide
    simp only [encBase_sig, hch, hdr8]
    constructor
    · rintro ⟨hc, body, ⟨s', hs', hok, rfl⟩, rfl⟩
      cases hs'
      exact ⟨⟨hc, hok⟩, by simp⟩
    · rintro ⟨⟨hc, hok⟩, rfl⟩
      exact ⟨hc, _, ⟨s, rfl, hok, rfl⟩, by simp⟩

def rawList (bo : ByteOrder) (off : Nat) : List Entry → List UInt8
  | [] => []
  | e :: es => rawEntry bo off e ++ rawList bo (off + (rawEntry bo off e).length) es

theorem encList_simple (bo : ByteOrder) (es : List Entry) (off : Nat) (body : List UInt8)
    (h : ∀ e ∈ es, Simple e) :
    encList bo off elemTy (es.map entryVal) = some body ↔
      (∀ e ∈ es, encOk e) ∧ body = rawList bo off es := by
  induction es generalizing off body with
  | nil => simp [encList, rawList, eq_comm]
  | cons e es ih =>
    have he := h e (by simp)
    have hes : ∀ e ∈ es, Simple e := fun x hx => h x (by simp [hx])
    simp only [List.map_cons, List.mem_cons, forall_eq_or_imp, rawList]
    constructor
    · intro henc
      obtain ⟨b, r, hb, hr, rfl⟩ := encList_cons_some henc
      obtain ⟨hok, rfl⟩ := (enc_simple bo off e b he).1 hb
      obtain ⟨hoks, rfl⟩ := (ih _ r hes).1 hr
      exact ⟨⟨hok, hoks⟩, rfl⟩
    · rintro ⟨⟨hok, hoks⟩, rfl⟩
      have hb := (enc_simple bo off e _ he).2 ⟨hok, rfl⟩
      have hr := (ih (off + (rawEntry bo off e).length) _ hes).2 ⟨hoks, rfl⟩
      simp only [encList, hb, hr]

theorem rawList_append (bo : ByteOrder) (a b : List Entry) (off : Nat) :
    rawList bo off (a ++ b) = rawList bo off a ++ rawList bo (off + (rawList bo off a).length) b := by
  induction a generalizing off with
  | nil => simp [rawList]
  | cons e es ih =>
    simp only [List.cons_append, rawList, ih, List.append_assoc, List.length_append, Nat.add_assoc]

/-- appending the raw bytes of further entries to a buffer that starts with 16 bytes followed by entries -/
theorem raw_step (bo : ByteOrder) (start : List UInt8) (es1 es2 : List Entry) (h : start.length = 16) :
    (start ++ rawList bo 16 es1) ++ rawList bo (start ++ rawList bo 16 es1).length es2 =
      start ++ rawList bo 16 (es1 ++ es2) := by
  rw [rawList_append, List.length_append, h, List.append_assoc]

/-- length of the string carried by an entry -/
def entryStrLen : Entry → Nat
  | (_, _, .str s) => s.length
  | _ => 0

theorem rawEntry_strLen (bo : ByteOrder) (off : Nat) (e : Entry) (h : Simple e) :
    entryStrLen e ≤ (rawEntry bo off e).length := by
  cases h <;> simp [entryStrLen, rawEntry] <;> omega

theorem rawList_strLen (bo : ByteOrder) (es : List Entry) (off : Nat) (h : ∀ e ∈ es, Simple e)
    (e : Entry) (he : e ∈ es) : entryStrLen e ≤ (rawList bo off es).length := by
  induction es generalizing off with
  | nil => simp at he
  | cons x xs ih =>
    simp only [rawList, List.length_append]
    rcases List.mem_cons.1 he with rfl | hx
    · have := rawEntry_strLen bo off e (h e (by simp)); omega
    · have := ih (off + (rawEntry bo off x).length) (fun y hy => h y (by simp [hy])) hx; omega

/-! ### the steps of `marshalHeader` -/

def optU32 (c : Nat) (n? : Option Nat) : List Entry :=
  match n? with | some n => [(c, .base .u32, .num n)] | none => []
def optStr (c : Nat) (s? : Option (List UInt8)) : List Entry :=
  match s? with | some s => [(c, .base .string, .str s)] | none => []
def optPath (s? : Option (List UInt8)) : List Entry :=
  match s? with | some s => [(1, .base .objpath, .str s)] | none => []
def optSig (m : Msg) : List Entry :=
  if m.body.isEmpty then [] else [(8, .base .signature, .str m.bodySig)]
def optFds (m : Msg) : List Entry :=
  if m.nfds = 0 then [] else [(9, .base .u32, .num m.nfds)]

theorem msgEntries_eq (m : Msg) :
    msgEntries m = optU32 5 m.replySerial ++ optStr 2 m.interface ++ optStr 6 m.destination ++
      optStr 7 m.sender ++ optStr 3 m.member ++ optPath m.path ++ optStr 4 m.errorName ++
      optSig m ++ optFds m := rfl

theorem chain_u32 (bo : ByteOrder) (c : Nat) (n? : Option Nat) (start : List UInt8) (es : List Entry)
    (h : start.length = 16) :
    putU32Field bo c n? (start ++ rawList bo 16 es) = start ++ rawList bo 16 (es ++ optU32 c n?) := by
  rw [← raw_step bo start es _ h]
  cases n? with
  | none => simp [putU32Field, optU32, rawList]
  | some n => simp [putU32Field, optU32, rawList, rawEntry, fieldStart_eq]

theorem chain_str (bo : ByteOrder) (c : Nat) (s? : Option (List UInt8)) (start : List UInt8)
    (es : List Entry) (h : start.length = 16) :
    putStrField bo c 115 s? (start ++ rawList bo 16 es) =
      if ∀ s, s? = some s → nameOk c s = true then some (start ++ rawList bo 16 (es ++ optStr c s?))
      else none := by
  rw [← raw_step bo start es _ h]
  cases s? with
  | none => simp [putStrField, optStr, rawList]
  | some s =>
    by_cases hn : nameOk c s = true
    · simp [putStrField, optStr, rawList, rawEntry, fieldStart_eq, hn]
    · simp [putStrField, hn]

theorem chain_path (bo : ByteOrder) (s? : Option (List UInt8)) (start : List UInt8)
    (es : List Entry) (h : start.length = 16) :
    putStrField bo 1 111 s? (start ++ rawList bo 16 es) =
      if ∀ s, s? = some s → nameOk 1 s = true then some (start ++ rawList bo 16 (es ++ optPath s?))
      else none := by
  rw [← raw_step bo start es _ h]
  cases s? with
  | none => simp [putStrField, optPath, rawList]
  | some s =>
    by_cases hn : nameOk 1 s = true
    · simp [putStrField, optPath, rawList, rawEntry, fieldStart_eq, hn]
    · simp [putStrField, hn]

theorem chain_sig (m : Msg) (start : List UInt8) (es : List Entry) (h : start.length = 16) :
    (if m.body.isEmpty then some (start ++ rawList m.bo 16 es)
      else if Sig.validateSignature (latin1 m.bodySig) then
        some (fieldStart 8 103 (start ++ rawList m.bo 16 es) ++
          (UInt8.ofNat m.bodySig.length :: (m.bodySig ++ [0])))
      else none) =
      if m.body.isEmpty = false → Sig.validateSignature (latin1 m.bodySig) = true then
        some (start ++ rawList m.bo 16 (es ++ optSig m))
      else none := by
  rw [← raw_step m.bo start es _ h]
  by_cases hb : m.body.isEmpty = true
  · simp [hb, optSig, rawList]
  · by_cases hv : Sig.validateSignature (latin1 m.bodySig) = true
    · simp [hb, hv, optSig, rawList, rawEntry, fieldStart_eq]
    · simp [hb, hv]

theorem chain_fds (m : Msg) (start : List UInt8) (es : List Entry) (h : start.length = 16) :
    (if m.nfds = 0 then start ++ rawList m.bo 16 es
      else putU32Field m.bo 9 (some m.nfds) (start ++ rawList m.bo 16 es)) =
      start ++ rawList m.bo 16 (es ++ optFds m) := by
  by_cases hn : m.nfds = 0
  · simp [hn, optFds]
  · rw [if_neg hn, chain_u32 _ _ _ _ _ h]; simp [optFds, optU32, hn]

/-! ### `marshalHeader` in closed form -/

/-- everything `marshal` validates before writing -/
def NamesOk (m : Msg) : Prop :=
  (∀ s, m.interface = some s → nameOk 2 s = true) ∧ (∀ s, m.destination = some s → nameOk 6 s = true) ∧
  (∀ s, m.sender = some s → nameOk 7 s = true) ∧ (∀ s, m.member = some s → nameOk 3 s = true) ∧
  (∀ s, m.path = some s → nameOk 1 s = true) ∧ (∀ s, m.errorName = some s → nameOk 4 s = true) ∧
  (m.body.isEmpty = false → Sig.validateSignature (latin1 m.bodySig) = true)

/-- the bytes `marshal` produces when it does not refuse -/
def marshalOut (m : Msg) (serial : Nat) : List UInt8 :=
  padTo 8 (fixedBytes ⟨m.bo, m.typ, m.flags, m.body.length, serial⟩ ++
    (bytesOf m.bo 4 (rawList m.bo 16 (msgEntries m)).length ++ rawList m.bo 16 (msgEntries m)))

theorem putStrField_some (bo : ByteOrder) (c : Nat) (ch : UInt8) (s? : Option (List UInt8))
    (buf b : List UInt8) (h : putStrField bo c ch s? buf = some b) :
    ∀ s, s? = some s → nameOk c s = true := by
  intro s hs; subst hs
  unfold putStrField at h
  simp only at h
  split at h
  · assumption
  · simp at h

theorem marshalHeader_names (m : Msg) (serial : Nat) (out : List UInt8)
    (h : marshalHeader m serial = some out) : 1 ≤ m.typ ∧ m.typ ≤ 4 ∧ NamesOk m := by
  unfold marshalHeader at h
  split at h
  · simp at h
  · rename_i ht
    simp only [] at h
    split at h
    · simp at h
    · rename_i b2 h2
      split at h
      · simp at h
      · rename_i b3 h3
        split at h
        · simp at h
        · rename_i b4 h4
          split at h
          · simp at h
          · rename_i b5 h5
            split at h
            · simp at h
            · rename_i b6 h6
              split at h
              · simp at h
              · rename_i b7 h7
                split at h
                · simp at h
                · rename_i b8 h8
                  refine ⟨Nat.pos_of_ne_zero (fun h => ht (Or.inl h)), Nat.le_of_not_lt (fun h => ht (Or.inr h)),
                    putStrField_some _ _ _ _ _ _ h2, putStrField_some _ _ _ _ _ _ h3,
                    putStrField_some _ _ _ _ _ _ h4, putStrField_some _ _ _ _ _ _ h5,
                    putStrField_some _ _ _ _ _ _ h6, putStrField_some _ _ _ _ _ _ h7, ?_⟩
                  intro hb
                  rw [if_neg (by simp [hb])] at h8
                  split at h8
                  · assumption
                  · simp at h8

theorem marshalHeader_ok (m : Msg) (serial : Nat) (h1 : 1 ≤ m.typ) (h4 : m.typ ≤ 4) (hn : NamesOk m) :
    marshalHeader m serial =
      if (rawList m.bo 16 (msgEntries m)).length > maxArrayLen then none
      else if (marshalOut m serial).length + m.body.length > maxMessageLen then none
      else some (marshalOut m serial) := by
  obtain ⟨n2, n6, n7, n3, n1, n4, n8⟩ := hn
  unfold marshalHeader
  have htyp : ¬(m.typ = 0 ∨ 4 < m.typ) := by
    rintro (h | h)
    · rw [h] at h1; exact absurd h1 (by decide)
    · exact absurd h4 (Nat.not_le_of_lt h)
  rw [if_neg htyp]
  simp only []
  generalize hstart : ([if m.bo = ByteOrder.le then (108 : UInt8) else 66, UInt8.ofNat m.typ,
    UInt8.ofNat m.flags, 1] ++ (bytesOf m.bo 4 m.body.length ++ (bytesOf m.bo 4 serial ++ [0, 0, 0, 0]))) = start
  have hl : start.length = 16 := by subst hstart; simp
  have h0 : start = start ++ rawList m.bo 16 [] := by simp [rawList]
  rw [h0, chain_u32 _ _ _ _ _ hl, chain_str _ _ _ _ _ hl, if_pos n2]
  simp only []
  rw [chain_str _ _ _ _ _ hl, if_pos n6]
  simp only []
  rw [chain_str _ _ _ _ _ hl, if_pos n7]
  simp only []
  rw [chain_str _ _ _ _ _ hl, if_pos n3]
  simp only []
  rw [chain_path _ _ _ _ hl, if_pos n1]
  simp only []
  rw [chain_str _ _ _ _ _ hl, if_pos n4]
  simp only []
  rw [chain_sig _ _ _ hl, if_pos n8]
  simp only []
  rw [chain_fds _ _ _ hl]
  simp only [List.nil_append, ← msgEntries_eq]
  have hfix : start = fixedBytes ⟨m.bo, m.typ, m.flags, m.body.length, serial⟩ ++ [0, 0, 0, 0] := by
    subst hstart; simp [fixedBytes]
  have ht : (start ++ rawList m.bo 16 (msgEntries m)).take 12 =
      fixedBytes ⟨m.bo, m.typ, m.flags, m.body.length, serial⟩ := by
    rw [hfix, List.append_assoc]
    exact List.take_left' (by simp [fixedBytes])
  have hd : (start ++ rawList m.bo 16 (msgEntries m)).drop 16 = rawList m.bo 16 (msgEntries m) :=
    List.drop_left' hl
  have hlen : (start ++ rawList m.bo 16 (msgEntries m)).length - 16 = (rawList m.bo 16 (msgEntries m)).length := by
    simp [hl]
  simp only [ht, hd, hlen]
  rfl

/-! ### the validity conditions on both sides -/

theorem mem_optU32 (c : Nat) (n? : Option Nat) (e : Entry) :
    e ∈ optU32 c n? ↔ ∃ n, n? = some n ∧ e = (c, .base .u32, .num n) := by
  cases n? <;> simp [optU32]
theorem mem_optStr (c : Nat) (s? : Option (List UInt8)) (e : Entry) :
    e ∈ optStr c s? ↔ ∃ s, s? = some s ∧ e = (c, .base .string, .str s) := by
  cases s? <;> simp [optStr]
theorem mem_optPath (s? : Option (List UInt8)) (e : Entry) :
    e ∈ optPath s? ↔ ∃ s, s? = some s ∧ e = (1, .base .objpath, .str s) := by
  cases s? <;> simp [optPath]
theorem mem_optSig (m : Msg) (e : Entry) :
    e ∈ optSig m ↔ m.body.isEmpty = false ∧ e = (8, .base .signature, .str m.bodySig) := by
  by_cases h : m.body.isEmpty = true <;> simp [optSig, h]
theorem mem_optFds (m : Msg) (e : Entry) :
    e ∈ optFds m ↔ m.nfds ≠ 0 ∧ e = (9, .base .u32, .num m.nfds) := by
  by_cases h : m.nfds = 0 <;> simp [optFds, h]

theorem mem_msgEntries (m : Msg) (e : Entry) :
    e ∈ msgEntries m ↔
      (∃ n, m.replySerial = some n ∧ e = (5, .base .u32, .num n)) ∨
      (∃ s, m.interface = some s ∧ e = (2, .base .string, .str s)) ∨
      (∃ s, m.destination = some s ∧ e = (6, .base .string, .str s)) ∨
      (∃ s, m.sender = some s ∧ e = (7, .base .string, .str s)) ∨
      (∃ s, m.member = some s ∧ e = (3, .base .string, .str s)) ∨
      (∃ s, m.path = some s ∧ e = (1, .base .objpath, .str s)) ∨
      (∃ s, m.errorName = some s ∧ e = (4, .base .string, .str s)) ∨
      (m.body.isEmpty = false ∧ e = (8, .base .signature, .str m.bodySig)) ∨
      (m.nfds ≠ 0 ∧ e = (9, .base .u32, .num m.nfds)) := by
  rw [msgEntries_eq]
  simp only [List.mem_append, mem_optU32, mem_optStr, mem_optPath, mem_optSig, mem_optFds, or_assoc]

theorem msgEntries_simple (m : Msg) : ∀ e ∈ msgEntries m, Simple e := by
  intro e he
  rw [mem_msgEntries] at he
  rcases he with ⟨n, _, rfl⟩ | ⟨s, _, rfl⟩ | ⟨s, _, rfl⟩ | ⟨s, _, rfl⟩ | ⟨s, _, rfl⟩ | ⟨s, _, rfl⟩ |
    ⟨s, _, rfl⟩ | ⟨_, rfl⟩ | ⟨_, rfl⟩ <;> constructor

theorem names_entryField (m : Msg) (hn : NamesOk m) :
    ∀ e ∈ msgEntries m, e.1 ≠ 5 → e.1 ≠ 9 → ∃ f, entryField e = some (some f) := by
  obtain ⟨n2, n6, n7, n3, n1, n4, n8⟩ := hn
  intro e he h5 h9
  rw [mem_msgEntries] at he
  rcases he with ⟨n, _, rfl⟩ | ⟨s, hs, rfl⟩ | ⟨s, hs, rfl⟩ | ⟨s, hs, rfl⟩ | ⟨s, hs, rfl⟩ | ⟨s, hs, rfl⟩ |
    ⟨s, hs, rfl⟩ | ⟨_, rfl⟩ | ⟨_, rfl⟩
  · exact absurd rfl h5
  · exact ⟨_, (entryField_interface _ _ _).2 ⟨s, rfl, rfl, n2 s hs, rfl⟩⟩
  · exact ⟨_, (entryField_destination _ _ _).2 ⟨s, rfl, rfl, n6 s hs, rfl⟩⟩
  · exact ⟨_, (entryField_sender _ _ _).2 ⟨s, rfl, rfl, n7 s hs, rfl⟩⟩
  · exact ⟨_, (entryField_member _ _ _).2 ⟨s, rfl, rfl, n3 s hs, rfl⟩⟩
  · exact ⟨_, (entryField_path _ _ _).2 ⟨s, rfl, rfl, rfl⟩⟩
  · exact ⟨_, (entryField_errorName _ _ _).2 ⟨s, rfl, rfl, n4 s hs, rfl⟩⟩
  · exact ⟨_, (entryField_sig _ _ _).2 ⟨_, rfl, rfl, rfl⟩⟩
  · exact absurd rfl h9

theorem names_encOk (m : Msg) (serial : Nat) (hr : msgInRange m serial) (hn : NamesOk m)
    (hsz : ∀ e ∈ msgEntries m, entryStrLen e < 256 ^ 4) : ∀ e ∈ msgEntries m, encOk e := by
  obtain ⟨n2, n6, n7, n3, n1, n4, n8⟩ := hn
  obtain ⟨_, _, _, hfds, hrs⟩ := hr
  intro e he
  have hlen := hsz e he
  rw [mem_msgEntries] at he
  rcases he with ⟨n, hs, rfl⟩ | ⟨s, hs, rfl⟩ | ⟨s, hs, rfl⟩ | ⟨s, hs, rfl⟩ | ⟨s, hs, rfl⟩ | ⟨s, hs, rfl⟩ |
    ⟨s, hs, rfl⟩ | ⟨hb, rfl⟩ | ⟨_, rfl⟩
  · exact ⟨by decide, hrs n hs⟩
  · exact ⟨by decide, nameOk_strOk 2 s (by decide) (n2 s hs), hlen⟩
  · exact ⟨by decide, nameOk_strOk 6 s (by decide) (n6 s hs), hlen⟩
  · exact ⟨by decide, nameOk_strOk 7 s (by decide) (n7 s hs), hlen⟩
  · exact ⟨by decide, nameOk_strOk 3 s (by decide) (n3 s hs), hlen⟩
  · exact ⟨by decide, n1 s hs, hlen⟩
  · exact ⟨by decide, nameOk_strOk 4 s (by decide) (n4 s hs), hlen⟩
  · exact ⟨by decide, n8 hb⟩
  · exact ⟨by decide, hfds⟩

theorem encOk_names (m : Msg) (hok : ∀ e ∈ msgEntries m, encOk e)
    (hef : ∀ e ∈ msgEntries m, e.1 ≠ 5 → e.1 ≠ 9 → ∃ f, entryField e = some (some f)) : NamesOk m := by
  refine ⟨?_, ?_, ?_, ?_, ?_, ?_, ?_⟩
  · intro s hs
    have hm : ((2, .base .string, .str s) : Entry) ∈ msgEntries m := by rw [mem_msgEntries]; simp [hs]
    obtain ⟨f, hf⟩ := hef _ hm (by simp) (by simp)
    obtain ⟨s', _, hs', hn, _⟩ := (entryField_interface _ _ _).1 hf
    cases hs'; exact hn
  · intro s hs
    have hm : ((6, .base .string, .str s) : Entry) ∈ msgEntries m := by rw [mem_msgEntries]; simp [hs]
    obtain ⟨f, hf⟩ := hef _ hm (by simp) (by simp)
    obtain ⟨s', _, hs', hn, _⟩ := (entryField_destination _ _ _).1 hf
    cases hs'; exact hn
  · intro s hs
    have hm : ((7, .base .string, .str s) : Entry) ∈ msgEntries m := by rw [mem_msgEntries]; simp [hs]
    obtain ⟨f, hf⟩ := hef _ hm (by simp) (by simp)
    obtain ⟨s', _, hs', hn, _⟩ := (entryField_sender _ _ _).1 hf
    cases hs'; exact hn
  · intro s hs
    have hm : ((3, .base .string, .str s) : Entry) ∈ msgEntries m := by rw [mem_msgEntries]; simp [hs]
    obtain ⟨f, hf⟩ := hef _ hm (by simp) (by simp)
    obtain ⟨s', _, hs', hn, _⟩ := (entryField_member _ _ _).1 hf
    cases hs'; exact hn
  · intro s hs
    have hm : ((1, .base .objpath, .str s) : Entry) ∈ msgEntries m := by rw [mem_msgEntries]; simp [hs]
    exact (hok _ hm).2.1
  · intro s hs
    have hm : ((4, .base .string, .str s) : Entry) ∈ msgEntries m := by rw [mem_msgEntries]; simp [hs]
    obtain ⟨f, hf⟩ := hef _ hm (by simp) (by simp)
    obtain ⟨s', _, hs', hn, _⟩ := (entryField_errorName _ _ _).1 hf
    cases hs'; exact hn
  · intro hb
    have hm : ((8, .base .signature, .str m.bodySig) : Entry) ∈ msgEntries m := by
      rw [mem_msgEntries]; simp [hb]
    exact (hok _ hm).2

/-! ### the marshaller against `encList` -/

theorem marshalOut_length (m : Msg) (serial : Nat) :
    (marshalOut m serial).length = 16 + (rawList m.bo 16 (msgEntries m)).length +
      padLen 8 (16 + (rawList m.bo 16 (msgEntries m)).length) := by
  simp only [marshalOut, padTo, fixedBytes, List.length_append, bytesOf_length, zeros_length,
    List.length_cons, List.length_nil]
  have : 0 + 1 + 1 + 1 + 1 + (4 + 4) + (4 + (rawList m.bo 16 (msgEntries m)).length) =
      16 + (rawList m.bo 16 (msgEntries m)).length := by omega
  rw [this]

theorem marshalHeader_core (m : Msg) (serial : Nat) (hr : msgInRange m serial) (out : List UInt8) :
    marshalHeader m serial = some out ↔
      (1 ≤ m.typ ∧ m.typ ≤ 4 ∧
       ∃ body, encList m.bo 16 elemTy ((msgEntries m).map entryVal) = some body ∧
         body.length ≤ maxArrayLen ∧
         out = padTo 8 (fixedBytes ⟨m.bo, m.typ, m.flags, m.body.length, serial⟩ ++
                 (bytesOf m.bo 4 body.length ++ body)) ∧
         out.length + m.body.length ≤ maxMessageLen ∧
         (∀ e ∈ msgEntries m, e.1 ≠ 5 → e.1 ≠ 9 → ∃ f, entryField e = some (some f))) := by
  constructor
  · intro h
    obtain ⟨h1, h4, hn⟩ := marshalHeader_names m serial out h
    rw [marshalHeader_ok m serial h1 h4 hn] at h
    split at h
    · simp at h
    · rename_i harr
      split at h
      · simp at h
      · rename_i hsz
        simp only [Option.some.injEq] at h
        subst h
        have hlen := marshalOut_length m serial
        have hstr : ∀ e ∈ msgEntries m, entryStrLen e < 256 ^ 4 := by
          intro e he
          have := rawList_strLen m.bo (msgEntries m) 16 (msgEntries_simple m) e he
          have hmax : maxMessageLen < 256 ^ 4 := by decide
          omega
        have hok := names_encOk m serial hr hn hstr
        refine ⟨h1, h4, rawList m.bo 16 (msgEntries m),
          (encList_simple m.bo _ 16 _ (msgEntries_simple m)).2 ⟨hok, rfl⟩, by omega, rfl, by omega,
          names_entryField m hn⟩
  · rintro ⟨h1, h4, body, henc, harr, rfl, hsz, hef⟩
    obtain ⟨hok, rfl⟩ := (encList_simple m.bo _ 16 _ (msgEntries_simple m)).1 henc
    have hn := encOk_names m hok hef
    rw [marshalHeader_ok m serial h1 h4 hn]
    change (marshalOut m serial).length + m.body.length ≤ maxMessageLen at hsz
    rw [if_neg (by omega), if_neg (by omega)]
    rfl

/-- `marshal` refuses a header field array above the 64 MiB array limit -/
theorem marshalHeader_array_limit (m : Msg) (serial : Nat) (out : List UInt8)
    (h : marshalHeader m serial = some out) : (rawList m.bo 16 (msgEntries m)).length ≤ maxArrayLen := by
  obtain ⟨h1, h4, hn⟩ := marshalHeader_names m serial out h
  rw [marshalHeader_ok m serial h1 h4 hn] at h
  split at h
  · simp at h
  · omega

end Rustbus.Header
