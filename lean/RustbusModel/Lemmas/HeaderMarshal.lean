import RustbusModel.Lemmas.HeaderField
import RustbusModel.Lemmas.HeaderNames
/-!
Header proofs, part 4: the marshaller `marshalHeader` writes the `(yv)` encodings of `msgEntries`.
-/
namespace Rustbus.Header
open Rustbus Rustbus.Bytes Rustbus.Wire Rustbus.Spec.Wire Rustbus.Spec.Header

/-- encoding of one `(yv)` element, down to the payload -/
theorem enc_entry (bo : ByteOrder) (off c : Nat) (t : Ty) (v : Val) (bs : List UInt8) :
    enc bo off elemTy (entryVal (c, t, v)) = some bs ↔
      c < 256 ∧ variantTypeOk t = true ∧
      ∃ body, enc bo (off + padLen 8 off + 1 + (sigBytes t).length + 2) t v = some body ∧
        bs = zeros (padLen 8 off) ++
          (UInt8.ofNat c :: UInt8.ofNat (sigBytes t).length :: (sigBytes t ++ 0 :: body)) := by
  simp only [entryVal, enc, List.isEmpty_cons, Bool.false_eq_true, if_false, encFields, encBase,
    Base.fixedSize, Base.bound, Base.align, padLen_one]
  by_cases hc : c < 256
  · by_cases ht : variantTypeOk t = true
    · simp only [hc, ht, if_true, true_and, pow_one]
      trace_state
      sorry
    · simp [hc, ht]
  · simp [hc]

end Rustbus.Header
