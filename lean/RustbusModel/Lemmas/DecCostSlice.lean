import RustbusModel.Model.Slice
import RustbusModel.Lemmas.Wire
/-!
C04 lemmas, part 4: the slice fast path (`Model/Slice.lean`): its unsafe sites meet their contracts and it
computes what the generic decoder computes.
-/
namespace Rustbus.Slice
open Rustbus Rustbus.Bytes Rustbus.Wire

/-- what `valid_slice` guarantees about the element type -/
theorem validSlice_facts {native bo : ByteOrder} {b : Base} (h : validSlice native bo b = true) :
    memSize b = some b.align ∧ b.fixedSize = some b.align ∧
    (b.align = 1 ∨ b.align = 2 ∨ b.align = 4 ∨ b.align = 8) ∧
    b.bound = 256 ^ b.align ∧ b ≠ .unixfd ∧ ((b = .byte ∧ b.align = 1) ∨ bo = native) := by
  cases b <;> simp [validSlice] at h <;> simp [memSize, Base.fixedSize, Base.align, Base.bound, h]

theorem sliceBytes_sound {bo : ByteOrder} {buf : List UInt8} {b : Base} {off lim start len : Nat}
    (h : sliceBytes bo buf b off lim = some (start, len)) :
    ∃ o, skipPad buf off lim 4 = some o ∧ readNum bo buf o lim 4 = some len ∧ len ≤ maxArrayLen ∧
      skipPad buf (o + 4) lim b.align = some start ∧ len % b.align = 0 ∧ start + len ≤ lim ∧
      lim ≤ buf.length := by
  unfold sliceBytes at h
  cases h1 : skipPad buf off lim 4 with
  | none => simp [h1] at h
  | some o =>
    simp only [h1] at h
    cases h2 : readNum bo buf o lim 4 with
    | none => simp [h2] at h
    | some n =>
      simp only [h2] at h
      split at h
      · rename_i hm
        cases h3 : skipPad buf (o + 4) lim b.align with
        | none => simp [h3] at h
        | some o2 =>
          simp only [h3] at h
          split at h
          · simp at h
          · rename_i hmod
            split at h
            · rename_i hl
              simp only [Option.some.injEq, Prod.mk.injEq] at h
              obtain ⟨rfl, rfl⟩ := h
              exact ⟨o, rfl, h2, hm, h3, by omega, hl, (skipPad_sound _ _ _ _ _ h1).2.2.1⟩
            · simp at h
      · simp at h

theorem skipPad_aligned {buf : List UInt8} {off lim a o : Nat} (ha : a = 1 ∨ a = 2 ∨ a = 4 ∨ a = 8)
    (h : skipPad buf off lim a = some o) : o % a = 0 := by
  obtain ⟨rfl, _⟩ := skipPad_sound _ _ _ _ _ h
  rcases ha with rfl | rfl | rfl | rfl <;> simp only [padLen] <;> omega

/-- one fixed-size element at an aligned offset: no padding, the `k` bytes read in the message's order -/
theorem decBase_aligned (bo : ByteOrder) (buf : List UInt8) (nfds : Option Nat) (b : Base) (off lim : Nat)
    (hk : b.fixedSize = some b.align) (hb : b.bound = 256 ^ b.align) (hfd : b ≠ .unixfd)
    (hal : off % b.align = 0) (h1 : off + b.align ≤ lim) (h2 : lim ≤ buf.length) :
    decBase bo buf nfds b off lim = some (.num (valOf bo (slice buf off b.align)), off + b.align) := by
  rw [decBase_fixed_eq bo buf nfds b b.align off lim hk]
  have hp : padLen b.align off = 0 := by simp [padLen, hal]
  have hs : skipPad buf off lim b.align = some off := by
    unfold skipPad
    rw [hp]
    simp [slice_zero, allZero, h2]; omega
  have hr : readNum bo buf off lim b.align = some (valOf bo (slice buf off b.align)) := by
    unfold readNum; simp [h1, h2]
  have hlt : valOf bo (slice buf off b.align) < b.bound := by
    rw [hb]
    have := valOf_lt bo (slice buf off b.align)
    rwa [slice_length _ _ _ (by omega)] at this
  simp only [hs, hr, hlt, if_true]
  cases b <;> first | exact absurd rfl hfd | rfl

/-- the element loop of the generic decoder over `cnt` aligned fixed-size elements -/
theorem decList_aligned (bo : ByteOrder) (buf : List UInt8) (nfds : Option Nat) (d : Nat) (b : Base) (lim : Nat)
    (hk : b.fixedSize = some b.align) (hb : b.bound = 256 ^ b.align) (hfd : b ≠ .unixfd)
    (hpos : 0 < b.align) (h2 : lim ≤ buf.length) (cnt fuel start : Nat)
    (hal : start % b.align = 0) (hend : start + cnt * b.align = lim) (hf : cnt ≤ fuel) :
    decList bo buf nfds d (.base b) start lim fuel = some (elems bo buf b.align start cnt) := by
  induction cnt generalizing fuel start with
  | zero =>
    have : start = lim := by omega
    cases fuel with
    | zero => rw [decList_zero]; simp [this, elems]
    | succ f => rw [decList_succ]; simp [this, elems]
  | succ cnt ih =>
    cases fuel with
    | zero => omega
    | succ f =>
      have hmul : (cnt + 1) * b.align = cnt * b.align + b.align := Nat.succ_mul _ _
      have hne : start ≠ lim := by omega
      rw [decList_succ, if_neg hne, dec_base,
        decBase_aligned bo buf nfds b start lim hk hb hfd hal (by omega) h2]
      simp only []
      rw [ih f (start + b.align) (by rw [Nat.add_mod_right]; exact hal) (by omega) (by omega)]
      simp [elems]

/-- a single byte reads the same in both orders; otherwise the orders coincide -/
theorem elems_order (native bo : ByteOrder) (buf : List UInt8) (k : Nat)
    (h : k = 1 ∨ bo = native) (start cnt : Nat) :
    elems native buf k start cnt = elems bo buf k start cnt := by
  rcases h with rfl | rfl
  · induction cnt generalizing start with
    | zero => rfl
    | succ cnt ih =>
      simp only [elems, ih]
      have hl : (slice buf start 1).length ≤ 1 := by simp [slice]; omega
      have : ∀ l : List UInt8, l.length ≤ 1 → valOf native l = valOf bo l := by
        intro l hl
        match l, hl with
        | [], _ => cases native <;> cases bo <;> rfl
        | [x], _ => cases native <;> cases bo <;> rfl
      rw [this _ hl]
  · rfl

/-- the fast path's element bytes, decoded by the generic array decoder -/
theorem dec_array_of_sliceBytes {native bo : ByteOrder} {buf : List UInt8} (nfds : Option Nat) (d : Nat) {b : Base}
    {off lim start len : Nat} (hv : validSlice native bo b = true)
    (h : sliceBytes bo buf b off lim = some (start, len)) :
    dec bo buf nfds (d + 1) (.array (.base b)) off lim =
      some (.arr (elems native buf b.align start (len / b.align)), start + len) := by
  obtain ⟨_, hk, hcases, hb, hfd, hord⟩ := validSlice_facts hv
  obtain ⟨o, h1, h2, hm, h3, hmod, hl, hbl⟩ := sliceBytes_sound h
  have hpos : 0 < b.align := by rcases hcases with h | h | h | h <;> omega
  have hal := skipPad_aligned hcases h3
  have hcnt : len / b.align * b.align = len := Nat.div_mul_cancel (Nat.dvd_of_mod_eq_zero hmod)
  have hcl : len / b.align ≤ len := Nat.div_le_self _ _
  rw [dec_array]
  simp only [h1, h2, hm, if_true, Ty.align, h3, hl]
  rw [decList_aligned bo buf nfds d b (start + len) hk hb hfd hpos (by omega) (len / b.align) len start hal
    (by omega) hcl]
  simp only []
  rw [elems_order native bo buf b.align (by rcases hord with ⟨_, h⟩ | h; exact Or.inl h; exact Or.inr h)]

/-- if the fast path rejects, so does the generic decoder -/
theorem dec_array_none_of_sliceBytes {native bo : ByteOrder} {buf : List UInt8} (nfds : Option Nat) (d : Nat)
    {b : Base} {off lim : Nat} (hv : validSlice native bo b = true)
    (h : sliceBytes bo buf b off lim = none) :
    dec bo buf nfds (d + 1) (.array (.base b)) off lim = none := by
  obtain ⟨_, hk, hcases, hb, hfd, hord⟩ := validSlice_facts hv
  have hpos : 0 < b.align := by rcases hcases with h | h | h | h <;> omega
  cases hd : dec bo buf nfds (d + 1) (.array (.base b)) off lim with
  | none => rfl
  | some p =>
    exfalso
    obtain ⟨v, o'⟩ := p
    rw [dec_array] at hd
    unfold sliceBytes at h
    cases h1 : skipPad buf off lim 4 with
    | none => simp [h1] at hd
    | some o =>
      simp only [h1] at hd h
      cases h2 : readNum bo buf o lim 4 with
      | none => simp [h2] at hd
      | some len =>
        simp only [h2] at hd h
        split at hd
        · rename_i hm
          simp only [if_pos hm, Ty.align] at h hd
          cases h3 : skipPad buf (o + 4) lim b.align with
          | none => simp [h3] at hd
          | some o2 =>
            simp only [h3] at hd h
            split at hd
            · rename_i hl
              simp only [if_pos hl] at h
              -- the only way left for the fast path to reject: a partial element
              split at h
              · rename_i hmod
                -- but then the generic loop cannot end exactly at the limit
                cases hL : decList bo buf nfds d (.base b) o2 (o2 + len) len with
                | none => simp [hL] at hd
                | some vs =>
                  have hal := skipPad_aligned hcases h3
                  have key : ∀ (fuel start : Nat) (vs : List Val), start % b.align = 0 → start ≤ o2 + len →
                      decList bo buf nfds d (.base b) start (o2 + len) fuel = some vs →
                      (o2 + len - start) % b.align = 0 := by
                    intro fuel
                    induction fuel with
                    | zero =>
                      intro start vs _ _ hz
                      rw [decList_zero] at hz
                      split at hz
                      · rename_i he; rw [he]; simp
                      · simp at hz
                    | succ f ih =>
                      intro start vs hs hle hz
                      rw [decList_succ] at hz
                      split at hz
                      · rename_i he; rw [he]; simp
                      · cases hq : dec bo buf nfds d (.base b) start (o2 + len) with
                        | none => simp [hq] at hz
                        | some q =>
                          obtain ⟨w, o3⟩ := q
                          simp only [hq] at hz
                          cases hq2 : decList bo buf nfds d (.base b) o3 (o2 + len) f with
                          | none => simp [hq2] at hz
                          | some ws =>
                            rw [dec_base, decBase_fixed_eq bo buf nfds b b.align start _ hk] at hq
                            cases hs1 : skipPad buf start (o2 + len) b.align with
                            | none => simp [hs1] at hq
                            | some s1 =>
                              simp only [hs1] at hq
                              obtain ⟨hs1e, _, _, _⟩ := skipPad_sound _ _ _ _ _ hs1
                              have hp : padLen b.align start = 0 := by simp [padLen, hs]
                              cases hr : readNum bo buf s1 (o2 + len) b.align with
                              | none => simp [hr] at hq
                              | some n =>
                                simp only [hr] at hq
                                have hrs := (readNum_sound _ _ _ _ _ _ hr).1
                                have ho3 : o3 = start + b.align := by
                                  split at hq
                                  · split at hq
                                    · split at hq
                                      · simp only [Option.some.injEq, Prod.mk.injEq] at hq; omega
                                      · simp at hq
                                    · simp only [Option.some.injEq, Prod.mk.injEq] at hq; omega
                                  · simp at hq
                                subst ho3
                                have := ih (start + b.align) ws (by rw [Nat.add_mod_right]; exact hs) (by omega) hq2
                                have e : o2 + len - start = (o2 + len - (start + b.align)) + b.align := by omega
                                rw [e, Nat.add_mod_right]; exact this
                  have := key len o2 vs hal (by omega) hL
                  have e : o2 + len - o2 = len := by omega
                  rw [e] at this
                  exact hmod this
              · simp at h
            · simp at hd
        · simp at hd

end Rustbus.Slice
