import RustbusModel.Model.Sig
import RustbusModel.Spec.Sig
/-!
Facts about the printed form `Ty.toStr` and the token classes used by all three signature models.
-/
namespace Rustbus.Sig
open Rustbus Rustbus.Spec.Sig

/-! ### Base type codes -/

theorem ofChar_char (b : Base) : Base.ofChar b.char = some b := by
  cases b <;> rfl

theorem ofChar_eq_some {c : Char} {b : Base} (h : Base.ofChar c = some b) : c = b.char := by
  grind (splits := 20) [Base.ofChar, Base.char]

theorem ofChar_isSome {c : Char} (h : (Base.ofChar c).isSome = true) : ∃ b : Base, c = b.char := by
  cases hb : Base.ofChar c with
  | none => rw [hb] at h; cases h
  | some b => exact ⟨b, ofChar_eq_some hb⟩

theorem base_char_facts (b : Base) :
    b.char ≠ '(' ∧ b.char ≠ ')' ∧ b.char ≠ 'a' ∧ b.char ≠ '{' ∧ b.char ≠ '}' ∧ b.char ≠ 'v' ∧
    b.char.utf8Size = 1 := by
  cases b <;> decide

theorem ofChar_paren : Base.ofChar '(' = none ∧ Base.ofChar ')' = none ∧ Base.ofChar 'a' = none ∧
    Base.ofChar '{' = none ∧ Base.ofChar '}' = none ∧ Base.ofChar 'v' = none := by decide

/-- the characters that can start a single complete type -/
def isStart (c : Char) : Bool :=
  (Base.ofChar c).isSome || c = 'v' || c = 'a' || c = '('

theorem isStart_base (b : Base) : isStart b.char = true := by
  simp [isStart, ofChar_char]

theorem isStart_facts {c : Char} (h : isStart c = true) :
    isTokenChar c = true ∧ c ≠ '{' ∧ c ≠ ')' ∧ c ≠ '}' := by
  simp only [isStart, Bool.or_eq_true, decide_eq_true_eq] at h
  rcases h with ((h | h) | h) | h
  · obtain ⟨b, rfl⟩ := ofChar_isSome h
    have := base_char_facts b
    simp [isTokenChar, ofChar_char, this]
  · subst h; decide
  · subst h; decide
  · subst h; decide

/-! ### Positions in a fixed string (`s.drop p` = the part not yet consumed) -/

theorem drop_add_of_append {s : List Char} {p : Nat} {x rest : List Char}
    (h : s.drop p = x ++ rest) : s.drop (p + x.length) = rest := by
  rw [← List.drop_drop, h, List.drop_left]

theorem drop_succ_of_cons {s : List Char} {p : Nat} {c : Char} {tl : List Char}
    (h : s.drop p = c :: tl) : s.drop (p + 1) = tl :=
  drop_add_of_append (x := [c]) h

/-! ### Printed forms -/

open Ty

theorem toStr_start : (t : Ty) → ∃ c tl, toStr t = c :: tl ∧ isStart c = true
  | .base b => ⟨b.char, [], by simp [toStr], isStart_base b⟩
  | .array e => ⟨'a', toStr e, by simp [toStr], by decide⟩
  | .dict k v => ⟨'a', '{' :: k.char :: (toStr v ++ ['}']), by simp only [toStr], by decide⟩
  | .struct fs => ⟨'(', listToStr fs ++ [')'], by simp only [toStr], by decide⟩
  | .variant => ⟨'v', [], by simp [toStr], by decide⟩

theorem toStr_ne_nil (t : Ty) : toStr t ≠ [] := by
  obtain ⟨c, tl, h, -⟩ := toStr_start t
  simp [h]

theorem toStr_length_pos (t : Ty) : 0 < (toStr t).length := by
  obtain ⟨c, tl, h, -⟩ := toStr_start t
  simp [h]

/-- a complete type never ends in `a` -/
theorem toStr_last : (t : Ty) → ∃ l c, toStr t = l ++ [c] ∧ c ≠ 'a'
  | .base b => ⟨[], b.char, by simp [toStr], (base_char_facts b).2.2.1⟩
  | .array e => by
    obtain ⟨l, c, h, hc⟩ := toStr_last e
    exact ⟨'a' :: l, c, by simp [toStr, h], hc⟩
  | .dict k v => ⟨'a' :: '{' :: k.char :: toStr v, '}', by simp [toStr], by decide⟩
  | .struct fs => ⟨'(' :: listToStr fs, ')', by simp [toStr], by decide⟩
  | .variant => ⟨[], 'v', by simp [toStr], by decide⟩

theorem listToStr_append (xs ys : List Ty) :
    listToStr (xs ++ ys) = listToStr xs ++ listToStr ys := by
  induction xs with
  | nil => simp [listToStr]
  | cons x xs ih => simp [listToStr, ih]

/-- the look-behind character after consuming a complete type is not `a` -/
theorem drop_last_of_append {s : List Char} {p : Nat} {t : Ty} {rest : List Char}
    (h : s.drop p = toStr t ++ rest) :
    ∃ c tl, s.drop (p + (toStr t).length - 1) = c :: tl ∧ c ≠ 'a' := by
  obtain ⟨l, c, hl, hc⟩ := toStr_last t
  rw [hl, List.append_assoc] at h
  have := drop_add_of_append h
  refine ⟨c, rest, ?_, hc⟩
  rw [hl, List.length_append, List.length_singleton, ← Nat.add_assoc, Nat.add_sub_cancel]
  exact this

theorem wfList_iff (ts : List Ty) : wfList ts = true ↔ ∀ t ∈ ts, t.wf = true := by
  induction ts with
  | nil => simp [wfList]
  | cons t ts ih => simp [wfList, ih]

/-! ### UTF-8 length -/

theorem utf8Len_nil : utf8Len [] = 0 := rfl
theorem utf8Len_cons (c : Char) (s : List Char) : utf8Len (c :: s) = c.utf8Size + utf8Len s := by
  simp [utf8Len]
theorem utf8Len_append (s t : List Char) : utf8Len (s ++ t) = utf8Len s + utf8Len t := by
  simp [utf8Len]

theorem length_le_utf8Len (s : List Char) : s.length ≤ utf8Len s := by
  induction s with
  | nil => simp [utf8Len]
  | cons c s ih =>
    have := Char.utf8Size_pos c
    rw [utf8Len_cons]; simp only [List.length_cons]; omega

mutual
theorem utf8Len_toStr : (t : Ty) → utf8Len (toStr t) = (toStr t).length
  | .base b => by simp [toStr, utf8Len, (base_char_facts b).2.2.2.2.2.2]
  | .array e => by
    have := utf8Len_toStr e
    have h1 : Char.utf8Size 'a' = 1 := by decide
    simp only [toStr, utf8Len_cons, List.length_cons, this, h1]; omega
  | .dict k v => by
    have := utf8Len_toStr v
    have hk := (base_char_facts k).2.2.2.2.2.2
    simp only [toStr, utf8Len_cons, utf8Len_append, List.length_cons, List.length_append, this, hk,
      utf8Len_nil, List.length_nil]
    have h1 : Char.utf8Size 'a' = 1 := by decide
    have h2 : Char.utf8Size '{' = 1 := by decide
    have h3 : Char.utf8Size '}' = 1 := by decide
    omega
  | .struct fs => by
    have := utf8Len_listToStr fs
    simp only [toStr, utf8Len_cons, utf8Len_append, List.length_cons, List.length_append, this,
      utf8Len_nil, List.length_nil]
    have h2 : Char.utf8Size '(' = 1 := by decide
    have h3 : Char.utf8Size ')' = 1 := by decide
    omega
  | .variant => by decide
theorem utf8Len_listToStr : (ts : List Ty) → utf8Len (listToStr ts) = (listToStr ts).length
  | [] => by simp [listToStr, utf8Len]
  | t :: ts => by
    simp only [listToStr, utf8Len_append, List.length_append, utf8Len_toStr t, utf8Len_listToStr ts]
end

/-! ### Nesting depth -/

theorem wf_struct_ne_nil {fs : List Ty} (h : (Ty.struct fs).wf = true) : fs ≠ [] := by
  intro h0; subst h0; simp [wf] at h

mutual
theorem depthOk_iff : (t : Ty) → t.wf = true → ∀ sd ad,
    (t.depthOk sd ad = true ↔ sd + structDepth t ≤ 32 ∧ ad + arrayDepth t ≤ 32)
  | .base _, _, sd, ad => by simp [depthOk, structDepth, arrayDepth]
  | .variant, _, sd, ad => by simp [depthOk, structDepth, arrayDepth]
  | .array e, h, sd, ad => by
    have := depthOk_iff e (by simpa [wf] using h) sd (ad + 1)
    simp only [depthOk, structDepth, arrayDepth, Bool.and_eq_true, decide_eq_true_eq, this]; omega
  | .dict _ v, h, sd, ad => by
    have := depthOk_iff v (by simpa [wf] using h) sd (ad + 1)
    simp only [depthOk, structDepth, arrayDepth, Bool.and_eq_true, decide_eq_true_eq, this]; omega
  | .struct fs, h, sd, ad => by
    have hne := wf_struct_ne_nil h
    have := depthOkList_iff fs (by simp [wf] at h; exact h.2) hne (sd + 1) ad
    simp only [depthOk, structDepth, arrayDepth, Bool.and_eq_true, decide_eq_true_eq, this]; omega
theorem depthOkList_iff : (ts : List Ty) → wfList ts = true → ts ≠ [] → ∀ sd ad,
    (depthOkList ts sd ad = true ↔ sd + structDepthList ts ≤ 32 ∧ ad + arrayDepthList ts ≤ 32)
  | [], _, h, _, _ => absurd rfl h
  | [t], hw, _, sd, ad => by
    have := depthOk_iff t (by simp [wfList] at hw; exact hw) sd ad
    simp only [depthOkList, structDepthList, arrayDepthList, Bool.and_true, this]; omega
  | t :: t' :: ts, hw, _, sd, ad => by
    have hw' : t.wf = true ∧ wfList (t' :: ts) = true := by simpa [wfList] using hw
    have h1 := depthOk_iff t hw'.1 sd ad
    have h2 := depthOkList_iff (t' :: ts) hw'.2 (by simp) sd ad
    rw [depthOkList, structDepthList, arrayDepthList, Bool.and_eq_true, h1, h2]; omega
end

end Rustbus.Sig
