import RustbusModel.Model.Wire
import RustbusModel.Spec.Wire
import RustbusModel.Lemmas.Sig
import RustbusModel.Lemmas.WireBytes
import RustbusModel.Lemmas.WireBase
import RustbusModel.Lemmas.WireDecEnc
import RustbusModel.Lemmas.WireEncDec
/-!
Core lemmas about the wire model (used by Props/C01, C02, C03, C04, C18).
The statements below are fixed; helper lemmas may be added above them or in Lemmas/Wire*.lean.
The proofs live in
* `Lemmas/WireBytes.lean`  — integers in both byte orders, slices, padding (`skipPad`/`readNum`, both directions)
* `Lemmas/WireBase.lean`   — signatures as bytes (variant case); `encBase`/`decBase`, both directions
* `Lemmas/WireDecEnc.lean` — one-step unfoldings of `dec`, `enc_pos'`, completeness `complete_all`
* `Lemmas/WireEncDec.lean` — soundness `sound_all`
-/
namespace Rustbus.Wire
open Rustbus Rustbus.Bytes Rustbus.Spec.Wire

/-- A successful decode can be replayed with any descriptor count and nesting budget that still
    cover the value (soundness, then completeness on the buffer cut around the consumed window). -/
theorem dec_transfer (bo : ByteOrder) (buf : List UInt8) (nfds nfds' : Option Nat) (d d' : Nat) (t : Ty)
    (off lim : Nat) (v : Val) (o' : Nat)
    (h : dec bo buf nfds d t off lim = some (v, o'))
    (hd : depthOf t v ≤ d → depthOf t v ≤ d')
    (hfd : ∀ c, nfds' = some c → fdsBelow c t v = true) :
    dec bo buf nfds' d' t off lim = some (v, o') := by
  obtain ⟨h1, h2, h3, h4, h5, _⟩ := sound_all bo buf nfds d t off lim v o' h
  obtain ⟨hdecomp, hlen⟩ := buf_decomp buf off (o' - off) (by omega)
  have hsl : (slice buf off (o' - off)).length = o' - off := slice_length _ _ _ (by omega)
  have key := complete_all bo nfds' d' t v off (buf.take off) (slice buf off (o' - off))
    (buf.drop (off + (o' - off))) lim hlen.symm h4 (hd h5) hfd (by omega)
    (by simp only [hlen, hsl, List.length_drop]; omega)
  rw [← hdecomp, hsl] at key
  rw [key]
  have : off + (o' - off) = o' := by omega
  rw [this]

/-- every encoding has at least one byte (loop progress) -/
theorem enc_pos (bo : ByteOrder) (off : Nat) (t : Ty) (v : Val) (bs : List UInt8)
    (h : enc bo off t v = some bs) : 0 < bs.length :=
  enc_pos' bo t off v bs h

/-- Decoding inverts encoding: whatever `enc` produces, placed at its offset between an arbitrary
    prefix and suffix, is decoded to the same value, consuming exactly the encoding, for every byte
    order, nesting budget that covers the value, clipping limit at or after the end, and descriptor
    count that covers the indices. -/
theorem dec_enc (bo : ByteOrder) (t : Ty) (v : Val) (pre bs suf : List UInt8) (nfds : Option Nat)
    (d lim : Nat)
    (h : enc bo pre.length t v = some bs)
    (hd : depthOf t v ≤ d)
    (hfd : fdsOk nfds t v = true)
    (hl : pre.length + bs.length ≤ lim) (hl2 : lim ≤ pre.length + bs.length + suf.length) :
    dec bo (pre ++ (bs ++ suf)) nfds d t pre.length lim = some (v, pre.length + bs.length) :=
  complete_all bo nfds d t v pre.length pre bs suf lim rfl h hd ((fdsOk_iff nfds t v).1 hfd) hl hl2

/-- Encoding inverts decoding: whatever the decoder accepts, on **any** byte string, is exactly the
    encoding (at that offset) of the value it returns; it stays inside its limit, every array is
    within the 64 MiB bound, the value fits the nesting budget and respects the descriptor count. -/
theorem enc_dec (bo : ByteOrder) (buf : List UInt8) (nfds : Option Nat) (d : Nat) (t : Ty)
    (off lim : Nat) (v : Val) (o' : Nat)
    (h : dec bo buf nfds d t off lim = some (v, o')) :
    off < o' ∧ o' ≤ lim ∧ lim ≤ buf.length ∧
    enc bo off t v = some (slice buf off (o' - off)) ∧
    depthOf t v ≤ d ∧ fdsOk nfds t v = true := by
  obtain ⟨h1, h2, h3, h4, h5, h6⟩ := sound_all bo buf nfds d t off lim v o' h
  exact ⟨h1, h2, h3, h4, h5, (fdsOk_iff nfds t v).2 h6⟩

/-- the descriptor check is the only difference between validating and unmarshalling -/
theorem dec_nfds (bo : ByteOrder) (buf : List UInt8) (c d : Nat) (t : Ty) (off lim : Nat)
    (v : Val) (o' : Nat) :
    dec bo buf (some c) d t off lim = some (v, o') ↔
      (dec bo buf none d t off lim = some (v, o') ∧ fdsBelow c t v = true) := by
  constructor
  · intro h
    refine ⟨dec_transfer bo buf (some c) none d d t off lim v o' h id (fun c hc => by cases hc), ?_⟩
    exact (sound_all bo buf (some c) d t off lim v o' h).2.2.2.2.2 c rfl
  · rintro ⟨h, hf⟩
    exact dec_transfer bo buf none (some c) d d t off lim v o' h id
      (fun c' hc => by cases hc; exact hf)

/-- a larger nesting budget never changes a successful result -/
theorem dec_mono (bo : ByteOrder) (buf : List UInt8) (nfds : Option Nat) (d d' : Nat) (t : Ty)
    (off lim : Nat) (r : Val × Nat) (hdd : d ≤ d')
    (h : dec bo buf nfds d t off lim = some r) : dec bo buf nfds d' t off lim = some r := by
  obtain ⟨v, o'⟩ := r
  exact dec_transfer bo buf nfds nfds d d' t off lim v o' h (fun hd => Nat.le_trans hd hdd)
    (sound_all bo buf nfds d t off lim v o' h).2.2.2.2.2

end Rustbus.Wire

#print axioms Rustbus.Wire.enc_pos
#print axioms Rustbus.Wire.dec_enc
#print axioms Rustbus.Wire.enc_dec
#print axioms Rustbus.Wire.dec_nfds
#print axioms Rustbus.Wire.dec_mono
