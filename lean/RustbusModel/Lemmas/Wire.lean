import RustbusModel.Model.Wire
import RustbusModel.Spec.Wire
import RustbusModel.Lemmas.Sig
/-!
Core lemmas about the wire model (used by Props/C01, C02, C03, C04, C18).
The statements below are fixed; helper lemmas may be added above them or in Lemmas/Wire*.lean.
-/
namespace Rustbus.Wire
open Rustbus Rustbus.Bytes Rustbus.Spec.Wire

/-- every encoding has at least one byte (loop progress) -/
theorem enc_pos (bo : ByteOrder) (off : Nat) (t : Ty) (v : Val) (bs : List UInt8)
    (h : enc bo off t v = some bs) : 0 < bs.length := by
  sorry

/-- Decoding inverts encoding: whatever `enc` produces, placed at its offset between an arbitrary
    prefix and suffix, is decoded to the same value, consuming exactly the encoding, for every byte
    order, nesting budget that covers the value, clipping limit at or after the end, and descriptor
    count that covers the indices. -/
theorem dec_enc (bo : ByteOrder) (t : Ty) (v : Val) (pre bs suf : List UInt8) (nfds : Option Nat)
    (d lim : Nat)
    (h : enc bo pre.length t v = some bs)
    (hd : depthOf t v ≤ d)
    (hfd : fdsOk nfds t v = true)
    (hl : pre.length + bs.length ≤ lim) (hl2 : lim ≤ pre.length + bs.length + suf.length) :
    dec bo (pre ++ (bs ++ suf)) nfds d t pre.length lim = some (v, pre.length + bs.length) := by
  sorry

/-- Encoding inverts decoding: whatever the decoder accepts, on **any** byte string, is exactly the
    encoding (at that offset) of the value it returns; it stays inside its limit, every array is
    within the 64 MiB bound, the value fits the nesting budget and respects the descriptor count. -/
theorem enc_dec (bo : ByteOrder) (buf : List UInt8) (nfds : Option Nat) (d : Nat) (t : Ty)
    (off lim : Nat) (v : Val) (o' : Nat)
    (h : dec bo buf nfds d t off lim = some (v, o')) :
    off < o' ∧ o' ≤ lim ∧ lim ≤ buf.length ∧
    enc bo off t v = some (slice buf off (o' - off)) ∧
    depthOf t v ≤ d ∧ fdsOk nfds t v = true := by
  sorry

/-- the descriptor check is the only difference between validating and unmarshalling -/
theorem dec_nfds (bo : ByteOrder) (buf : List UInt8) (c d : Nat) (t : Ty) (off lim : Nat)
    (v : Val) (o' : Nat) :
    dec bo buf (some c) d t off lim = some (v, o') ↔
      (dec bo buf none d t off lim = some (v, o') ∧ fdsBelow c t v = true) := by
  sorry

/-- a larger nesting budget never changes a successful result -/
theorem dec_mono (bo : ByteOrder) (buf : List UInt8) (nfds : Option Nat) (d d' : Nat) (t : Ty)
    (off lim : Nat) (r : Val × Nat) (hdd : d ≤ d')
    (h : dec bo buf nfds d t off lim = some r) : dec bo buf nfds d' t off lim = some r := by
  sorry

end Rustbus.Wire
