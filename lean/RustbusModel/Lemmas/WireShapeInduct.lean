import RustbusModel.Lemmas.Wire
/-!
An offset-free induction principle following the recursion of `enc` (value-directed, the type is
arbitrary at every level), and the "shape mismatch" facts for the catch-all arms.
Used by `Lemmas/WireShape.lean` and `Lemmas/Marshal.lean`.
-/
namespace Rustbus.Wire
open Rustbus Rustbus.Bytes Rustbus.Spec.Wire

/-- the (type, value) pairs handled by a proper arm of `enc` -/
def shapeOk : Ty → Val → Bool
  | .base _, _ => true
  | .array _, .arr _ => true
  | .dict _ _, .arr _ => true
  | .struct _, .struct _ => true
  | .variant, .variant _ _ => true
  | _, _ => false

theorem enc_induct
    {P : Ty → Val → Prop} {PL : Ty → List Val → Prop} {PE : Base → Ty → List Val → Prop}
    {PF : List Ty → List Val → Prop}
    (hbase : ∀ b v, P (.base b) v)
    (harr : ∀ e vs, PL e vs → P (.array e) (.arr vs))
    (hdict : ∀ k vt es, PE k vt es → P (.dict k vt) (.arr es))
    (hstruct : ∀ fs vs, PF fs vs → P (.struct fs) (.struct vs))
    (hvar : ∀ t v, P t v → P .variant (.variant t v))
    (hbad : ∀ t v, shapeOk t v = false → P t v)
    (hLnil : ∀ e, PL e [])
    (hLcons : ∀ e v vs, P e v → PL e vs → PL e (v :: vs))
    (hEnil : ∀ k vt, PE k vt [])
    (hEcons : ∀ k vt kv vv rest, P vt vv → PE k vt rest → PE k vt (.struct [kv, vv] :: rest))
    (hEbad : ∀ k vt h tl, (∀ kv vv, h ≠ .struct [kv, vv]) → PE k vt (h :: tl))
    (hFnil : PF [] [])
    (hFcons : ∀ t ts v vs, P t v → PF ts vs → PF (t :: ts) (v :: vs))
    (hFbad1 : ∀ v vs, PF [] (v :: vs))
    (hFbad2 : ∀ t ts, PF (t :: ts) []) :
    (∀ t v, P t v) ∧ (∀ e vs, PL e vs) ∧ (∀ k vt es, PE k vt es) ∧ (∀ fs vs, PF fs vs) := by
  have key : ∀ v : Val, (∀ t, P t v) ∧ (∀ kv vv, v = .struct [kv, vv] → ∀ t, P t vv) := by
    intro v
    refine Val.rec
      (motive_1 := fun v => (∀ t, P t v) ∧ (∀ kv vv, v = .struct [kv, vv] → ∀ t, P t vv))
      (motive_2 := fun vs => (∀ v ∈ vs, ∀ t, P t v) ∧ (∀ e, PL e vs) ∧ (∀ k vt, PE k vt vs) ∧
        (∀ fs, PF fs vs))
      ?num ?str ?arr ?struct ?variant ?nil ?cons v
    case num =>
      intro n
      refine ⟨fun t => ?_, fun _ _ h => by cases h⟩
      cases t with
      | base b => exact hbase _ _
      | _ => exact hbad _ _ rfl
    case str =>
      intro s
      refine ⟨fun t => ?_, fun _ _ h => by cases h⟩
      cases t with
      | base b => exact hbase _ _
      | _ => exact hbad _ _ rfl
    case arr =>
      intro vs ih
      refine ⟨fun t => ?_, fun _ _ h => by cases h⟩
      cases t with
      | base b => exact hbase _ _
      | array e => exact harr _ _ (ih.2.1 e)
      | dict k vt => exact hdict _ _ _ (ih.2.2.1 k vt)
      | _ => exact hbad _ _ rfl
    case struct =>
      intro vs ih
      refine ⟨fun t => ?_, fun kv vv h => ?_⟩
      · cases t with
        | base b => exact hbase _ _
        | struct fs => exact hstruct _ _ (ih.2.2.2 fs)
        | _ => exact hbad _ _ rfl
      · cases h
        exact ih.1 vv (by simp)
    case variant =>
      intro t' v ih
      refine ⟨fun t => ?_, fun _ _ h => by cases h⟩
      cases t with
      | base b => exact hbase _ _
      | variant => exact hvar _ _ (ih.1 t')
      | _ => exact hbad _ _ rfl
    case nil =>
      refine ⟨fun _ h => (by cases h), hLnil, hEnil, fun fs => ?_⟩
      cases fs with
      | nil => exact hFnil
      | cons t ts => exact hFbad2 t ts
    case cons =>
      intro h tl ih1 ih2
      refine ⟨?_, fun e => hLcons e h tl (ih1.1 e) (ih2.2.1 e), fun k vt => ?_, fun fs => ?_⟩
      · intro v hv t
        rcases List.mem_cons.1 hv with rfl | hv
        · exact ih1.1 t
        · exact ih2.1 v hv t
      · by_cases hh : ∃ kv vv, h = .struct [kv, vv]
        · obtain ⟨kv, vv, rfl⟩ := hh
          exact hEcons k vt kv vv tl (ih1.2 kv vv rfl vt) (ih2.2.2.1 k vt)
        · exact hEbad k vt h tl (fun kv vv e => hh ⟨kv, vv, e⟩)
      · cases fs with
        | nil => exact hFbad1 h tl
        | cons t ts => exact hFcons t ts h tl (ih1.1 t) (ih2.2.2.2 ts)
  have keyL : ∀ vs : List Val, (∀ e, PL e vs) ∧ (∀ k vt, PE k vt vs) ∧ (∀ fs, PF fs vs) := by
    intro vs
    induction vs with
    | nil =>
      refine ⟨hLnil, hEnil, fun fs => ?_⟩
      cases fs with
      | nil => exact hFnil
      | cons t ts => exact hFbad2 t ts
    | cons h tl ih =>
      refine ⟨fun e => hLcons e h tl ((key h).1 e) (ih.1 e), fun k vt => ?_, fun fs => ?_⟩
      · by_cases hh : ∃ kv vv, h = .struct [kv, vv]
        · obtain ⟨kv, vv, rfl⟩ := hh
          exact hEcons k vt kv vv tl ((key _).2 kv vv rfl vt) (ih.2.1 k vt)
        · exact hEbad k vt h tl (fun kv vv e => hh ⟨kv, vv, e⟩)
      · cases fs with
        | nil => exact hFbad1 h tl
        | cons t ts => exact hFcons t ts h tl ((key h).1 t) (ih.2.2 ts)
  exact ⟨fun t v => (key v).1 t, fun e vs => (keyL vs).1 e, fun k vt es => (keyL es).2.1 k vt,
    fun fs vs => (keyL vs).2.2 fs⟩


/-! ### catch-all arms -/

theorem enc_bad (bo : ByteOrder) (off : Nat) (t : Ty) (v : Val) (h : shapeOk t v = false) :
    enc bo off t v = none := by
  cases t <;> cases v <;> simp [shapeOk] at h <;> simp [enc]

theorem wellTyped_bad (t : Ty) (v : Val) (h : shapeOk t v = false) : wellTyped t v = false := by
  cases t <;> cases v <;> simp [shapeOk] at h <;> simp [wellTyped]

theorem encEntries_bad (bo : ByteOrder) (off : Nat) (k : Base) (vt : Ty) (h : Val) (tl : List Val)
    (hh : ∀ kv vv, h ≠ .struct [kv, vv]) : encEntries bo off k vt (h :: tl) = none := by
  unfold encEntries
  split
  · rename_i heq; cases heq
  · rename_i heq; cases heq; exact (hh _ _ rfl).elim
  · rfl

theorem wellTypedEntries_bad (k : Base) (vt : Ty) (h : Val) (tl : List Val)
    (hh : ∀ kv vv, h ≠ .struct [kv, vv]) : wellTypedEntries k vt (h :: tl) = false := by
  unfold wellTypedEntries
  split
  · rename_i heq; cases heq
  · rename_i heq; cases heq; exact (hh _ _ rfl).elim
  · rfl

/-! ### inversion of the successful arms -/

theorem enc_array_some {bo : ByteOrder} {off : Nat} {e : Ty} {vs : List Val} {bs : List UInt8}
    (h : enc bo off (.array e) (.arr vs) = some bs) :
    ∃ body, encList bo (off + padLen 4 off + 4 + padLen e.align (off + padLen 4 off + 4)) e vs = some body ∧
      body.length ≤ maxArrayLen ∧
      bs = zeros (padLen 4 off) ++ (bytesOf bo 4 body.length ++
            (zeros (padLen e.align (off + padLen 4 off + 4)) ++ body)) := by
  simp only [enc] at h
  split at h
  · cases h
  · rename_i body hb
    split at h
    · simp only [Option.some.injEq] at h
      exact ⟨body, hb, by assumption, h.symm⟩
    · cases h

theorem enc_dict_some {bo : ByteOrder} {off : Nat} {k : Base} {vt : Ty} {es : List Val} {bs : List UInt8}
    (h : enc bo off (.dict k vt) (.arr es) = some bs) :
    ∃ body, encEntries bo (off + padLen 4 off + 4 + padLen 8 (off + padLen 4 off + 4)) k vt es = some body ∧
      body.length ≤ maxArrayLen ∧
      bs = zeros (padLen 4 off) ++ (bytesOf bo 4 body.length ++
            (zeros (padLen 8 (off + padLen 4 off + 4)) ++ body)) := by
  simp only [enc] at h
  split at h
  · cases h
  · rename_i body hb
    split at h
    · simp only [Option.some.injEq] at h
      exact ⟨body, hb, by assumption, h.symm⟩
    · cases h

theorem enc_struct_some {bo : ByteOrder} {off : Nat} {fs : List Ty} {vs : List Val} {bs : List UInt8}
    (h : enc bo off (.struct fs) (.struct vs) = some bs) :
    fs ≠ [] ∧ ∃ body, encFields bo (off + padLen 8 off) fs vs = some body ∧
      bs = zeros (padLen 8 off) ++ body := by
  simp only [enc] at h
  split at h
  · cases h
  · rename_i hne
    split at h
    · cases h
    · rename_i body hb
      simp only [Option.some.injEq] at h
      exact ⟨by simpa using hne, body, hb, h.symm⟩

theorem enc_variant_some {bo : ByteOrder} {off : Nat} {t : Ty} {v : Val} {bs : List UInt8}
    (h : enc bo off .variant (.variant t v) = some bs) :
    variantTypeOk t = true ∧
    ∃ body, enc bo (off + (sigBytes t).length + 2) t v = some body ∧
      bs = UInt8.ofNat (sigBytes t).length :: (sigBytes t ++ (0 :: body)) := by
  simp only [enc] at h
  split at h
  · rename_i hok
    split at h
    · cases h
    · rename_i body hb
      simp only [Option.some.injEq] at h
      exact ⟨hok, body, hb, h.symm⟩
  · cases h

theorem encList_cons_some {bo : ByteOrder} {off : Nat} {e : Ty} {v : Val} {vs : List Val} {bs : List UInt8}
    (h : encList bo off e (v :: vs) = some bs) :
    ∃ b r, enc bo off e v = some b ∧ encList bo (off + b.length) e vs = some r ∧ bs = b ++ r := by
  simp only [encList] at h
  split at h
  · cases h
  · rename_i b hb
    split at h
    · cases h
    · rename_i r hr
      simp only [Option.some.injEq] at h
      exact ⟨b, r, hb, hr, h.symm⟩

theorem encFields_cons_some {bo : ByteOrder} {off : Nat} {t : Ty} {ts : List Ty} {v : Val} {vs : List Val}
    {bs : List UInt8} (h : encFields bo off (t :: ts) (v :: vs) = some bs) :
    ∃ b r, enc bo off t v = some b ∧ encFields bo (off + b.length) ts vs = some r ∧ bs = b ++ r := by
  simp only [encFields] at h
  split at h
  · cases h
  · rename_i b hb
    split at h
    · cases h
    · rename_i r hr
      simp only [Option.some.injEq] at h
      exact ⟨b, r, hb, hr, h.symm⟩

theorem encEntries_cons_some {bo : ByteOrder} {off : Nat} {k : Base} {vt : Ty} {kv vv : Val}
    {rest : List Val} {bs : List UInt8}
    (h : encEntries bo off k vt (.struct [kv, vv] :: rest) = some bs) :
    ∃ kb vb rb, encBase bo (off + padLen 8 off) k kv = some kb ∧
      enc bo (off + padLen 8 off + kb.length) vt vv = some vb ∧
      encEntries bo (off + padLen 8 off + kb.length + vb.length) k vt rest = some rb ∧
      bs = zeros (padLen 8 off) ++ (kb ++ (vb ++ rb)) := by
  simp only [encEntries] at h
  split at h
  · cases h
  · rename_i kb hk
    split at h
    · cases h
    · rename_i vb hv
      split at h
      · cases h
      · rename_i rb hr
        simp only [Option.some.injEq] at h
        exact ⟨kb, vb, rb, hk, hv, hr, h.symm⟩

/-! ### padding only sees the offset modulo 8 -/

theorem base_align_cases (b : Base) : b.align = 1 ∨ b.align = 2 ∨ b.align = 4 ∨ b.align = 8 := by
  cases b <;> simp [Base.align]

theorem ty_align_cases (t : Ty) : t.align = 1 ∨ t.align = 2 ∨ t.align = 4 ∨ t.align = 8 := by
  cases t with
  | base b => exact base_align_cases b
  | _ => simp [Ty.align]

theorem padLen_congr {a off off' : Nat} (ha : a = 1 ∨ a = 2 ∨ a = 4 ∨ a = 8)
    (hm : off % 8 = off' % 8) : padLen a off = padLen a off' := by
  rcases ha with rfl | rfl | rfl | rfl <;> simp only [padLen] <;> omega

theorem padLen_one (off : Nat) : padLen 1 off = 0 := by simp [padLen, Nat.mod_one]

theorem padLen_zero_of_mod {a off : Nat} (h : off % a = 0) : padLen a off = 0 := by
  simp [padLen, h]

end Rustbus.Wire
#print axioms Rustbus.Wire.enc_induct
