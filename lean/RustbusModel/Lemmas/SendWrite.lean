import RustbusModel.Lemmas.Send
/-!
Lemmas for C10 about `write` (the loop), the sum of the returned counts, and completion.
-/
namespace Rustbus.Send

theorem dropPanics_of_allWritten (m : Msg) (st : State) (h : allWritten m st = true) :
    dropPanics m st = false := by
  simp [dropPanics, h]

theorem allWritten_iff (m : Msg) (st : State) : allWritten m st = true ↔ st.bytesSent = m.total := by
  simp [allWritten]

/-- unfolding `write` on a successful `write_once` that completes the message -/
theorem write_io_done (m : Msg) (st st' : State) (w w' : Wire) (ev : Ev) (n : Nat) (rest : List WEv)
    (h : writeOnce m st w ev = some (st', w', .ok n)) (ha : allWritten m st' = true) :
    write m st w (.io ev :: rest) = (.done st'.serial, st', w', 1) := by
  simp only [write, h, ha, if_true, exitPanics, Exit.runsDrop, dropPanics_of_allWritten m st' ha,
    Bool.and_false]
  rfl

/-- unfolding `write` on a successful `write_once` that leaves something to send -/
theorem write_io_more (m : Msg) (st st' : State) (w w' : Wire) (ev : Ev) (n : Nat) (rest : List WEv)
    (h : writeOnce m st w ev = some (st', w', .ok n)) (ha : allWritten m st' = false) :
    write m st w (.io ev :: rest) =
      ((write m st' w' rest).1, (write m st' w' rest).2.1, (write m st' w' rest).2.2.1,
       (write m st' w' rest).2.2.2 + 1) := by
  simp only [write, h, ha]
  rfl

/-- what `write` guarantees from any state satisfying the invariant -/
theorem write_inv (m : Msg) (evs : List WEv) : ∀ (st : State) (w : Wire), Inv m st w →
    Inv m (write m st w evs).2.1 (write m st w evs).2.2.1 ∧
    (write m st w evs).2.1.serial = st.serial ∧
    (write m st w evs).2.2.2 ≤ evs.length ∧
    (write m st w evs).1 ≠ .panic ∧
    (∀ s, (write m st w evs).1 = .done s →
      s = st.serial ∧ (write m st w evs).2.1.bytesSent = m.total) := by
  induction evs with
  | nil => intro st w h; exact ⟨h, rfl, Nat.le_refl _, by simp [write], by simp [write]⟩
  | cons e rest ih =>
    intro st w h
    cases e with
    | timeUp => exact ⟨h, rfl, by simp [write], by simp [write], by simp [write]⟩
    | io ev =>
      obtain ⟨st', w', r, h1, h2, h3, _, h5⟩ := writeOnce_inv m st w ev h
      cases r with
      | ok n =>
        cases ha : allWritten m st' with
        | true =>
          rw [write_io_done m st st' w w' ev n rest h1 ha]
          refine ⟨h2, h3, by simp, by simp, ?_⟩
          intro s hs
          simp only [WriteRes.done.injEq] at hs
          exact ⟨by rw [← hs, h3], (allWritten_iff m st').1 ha⟩
        | false =>
          rw [write_io_more m st st' w w' ev n rest h1 ha]
          obtain ⟨g1, g2, g3, g4, g5⟩ := ih st' w' h2
          refine ⟨g1, by rw [g2, h3], by simp only [List.length_cons]; omega, g4, ?_⟩
          intro s hs
          obtain ⟨k1, k2⟩ := g5 s hs
          exact ⟨by rw [k1, h3], k2⟩
      | wouldBlock =>
        obtain ⟨_, rfl, rfl⟩ := h5
        simp only [write, h1]
        refine ⟨h, ?_, ?_, ?_, ?_⟩ <;> simp
      | error =>
        obtain ⟨_, rfl, rfl⟩ := h5
        simp only [write, h1]
        refine ⟨h, ?_, ?_, ?_, ?_⟩ <;> simp

/-- `write` terminates: when every `sendmsg` takes at least one byte, the loop ends with `Ok(serial)`
    after at most `max 1 rest` calls -/
theorem write_progress (m : Msg) (evs : List WEv) : ∀ (st : State) (w : Wire), Inv m st w →
    (∀ e ∈ evs, ∃ k, e = .io (.accept k) ∧ 1 ≤ k) →
    max 1 (m.total - st.bytesSent) ≤ evs.length →
    (write m st w evs).1 = .done st.serial ∧
    (write m st w evs).2.2.2 ≤ max 1 (m.total - st.bytesSent) ∧
    1 ≤ (write m st w evs).2.2.2 := by
  induction evs with
  | nil => intro st w _ _ hl; simp only [List.length_nil] at hl; omega
  | cons e rest ih =>
    intro st w h hall hl
    obtain ⟨k, rfl, hk⟩ := hall e (List.mem_cons_self ..)
    obtain ⟨w', h1, h2⟩ := writeOnce_accept m st w k h
    generalize hst' : ({ st with bytesSent := st.bytesSent + min k (m.total - st.bytesSent) } : State) = st' at h1 h2
    have hb : st'.bytesSent = st.bytesSent + min k (m.total - st.bytesSent) := by subst hst'; rfl
    have hser : st'.serial = st.serial := by subst hst'; rfl
    have hle := h.le
    cases ha : allWritten m st' with
    | true =>
      rw [write_io_done m st st' w w' _ _ rest h1 ha]
      exact ⟨by rw [hser], by simp only; omega, Nat.le_refl _⟩
    | false =>
      rw [write_io_more m st st' w w' _ _ rest h1 ha]
      have hne : st'.bytesSent ≠ m.total := by
        intro hc
        have := (allWritten_iff m st').2 hc
        rw [ha] at this; cases this
      have hle' := h2.le
      simp only [List.length_cons] at hl
      obtain ⟨g1, g2, g3⟩ := ih st' w' h2 (fun e he => hall e (List.mem_cons_of_mem _ he)) (by omega)
      exact ⟨by rw [g1, hser], by simp only; omega, by simp only; omega⟩

/-- the corner `write` has: a kernel that keeps answering "0 bytes taken" to a non-empty offer keeps
    the loop spinning for ever (no `write_once` result ends it) -/
theorem write_zero_spins (m : Msg) (n : Nat) : ∀ (st : State) (w : Wire), Inv m st w →
    st.bytesSent < m.total →
    write m st w (List.replicate n (.io (.accept 0))) = (.running, st, w, n) := by
  induction n with
  | zero => intro st w _ _; rfl
  | succ n ih =>
    intro st w h hlt
    obtain ⟨w', h1, _⟩ := writeOnce_accept m st w 0 h
    have h0 : min 0 (m.total - st.bytesSent) = 0 := by omega
    rw [h0] at h1
    have hw : w' = w := by
      have : writeOnce m st w (.accept 0) = some (st, w, .ok 0) := by
        obtain ⟨o, ho, _, _, _, _, hlen⟩ := offer_of_le m st h.le
        simp only [writeOnce, ho, kernel, Nat.zero_min, if_true]
        rfl
      rw [this] at h1
      simp only [Option.some.injEq, Prod.mk.injEq] at h1
      exact h1.2.1.symm
    rw [hw] at h1
    have ha : allWritten m st = false := by
      cases hh : allWritten m st with
      | false => rfl
      | true => have := (allWritten_iff m st).1 hh; omega
    rw [List.replicate_succ, write_io_more m st st w w _ 0 _ h1 ha, ih st w h hlt]

/-- the counter is the sum of the counts `write_once` reported -/
theorem run_sum (steps : List Step) : ∀ (c c' : Ctx) (w w' : Wire) (rs : List Res),
    run c w steps = some (c', w', rs) → c'.st.bytesSent = c.st.bytesSent + sumCounts rs := by
  induction steps with
  | nil =>
    intro c c' w w' rs h
    simp only [run, Option.some.injEq, Prod.mk.injEq] at h
    obtain ⟨rfl, _, rfl⟩ := h
    simp [sumCounts]
  | cons s ss ih =>
    intro c c' w w' rs h
    simp only [run] at h
    cases hs : step c w s with
    | none => simp [hs] at h
    | some p =>
      obtain ⟨c1, w1, r⟩ := p
      simp only [hs] at h
      cases hr : run c1 w1 ss with
      | none => simp [hr] at h
      | some q =>
        obtain ⟨c2, w2, rs2⟩ := q
        simp only [hr, Option.some.injEq, Prod.mk.injEq] at h
        obtain ⟨rfl, rfl, rfl⟩ := h
        have g := ih c1 c2 w1 w2 rs2 hr
        have g1 : c1.st.bytesSent = c.st.bytesSent + sumCounts r := by
          cases s with
          | suspend =>
            simp only [step, Option.some.injEq, Prod.mk.injEq] at hs
            obtain ⟨rfl, _, rfl⟩ := hs
            simp [sumCounts, resume, intoProgress]
          | call ev =>
            simp only [step] at hs
            cases hw : writeOnce c.msg c.st w ev with
            | none => simp [hw] at hs
            | some t =>
              obtain ⟨st', w'', r'⟩ := t
              simp only [hw, Option.some.injEq, Prod.mk.injEq] at hs
              obtain ⟨rfl, _, rfl⟩ := hs
              simp only [writeOnce] at hw
              cases ho : offer c.msg c.st with
              | none => simp [ho] at hw
              | some o =>
                simp only [ho] at hw
                cases hk : kernel o w ev with
                | mk wk rk =>
                  cases rk with
                  | ok n =>
                    simp only [hk, Option.some.injEq, Prod.mk.injEq] at hw
                    obtain ⟨rfl, _, rfl⟩ := hw
                    simp [sumCounts, Res.count]
                  | wouldBlock =>
                    simp only [hk, Option.some.injEq, Prod.mk.injEq] at hw
                    obtain ⟨rfl, _, rfl⟩ := hw
                    simp [sumCounts, Res.count]
                  | error =>
                    simp only [hk, Option.some.injEq, Prod.mk.injEq] at hw
                    obtain ⟨rfl, _, rfl⟩ := hw
                    simp [sumCounts, Res.count]
        rw [g, g1]
        simp [sumCounts, Nat.add_assoc]

end Rustbus.Send
