import RustbusModel.Spec.Dispatch
/-!
C19 helper lemmas, part 1: splitting at slashes, reading a pattern segment, the capture map, and
`ObjectPathPattern::matches` (index based `try_fold`) against the relation `Spec.Matches`.
-/
namespace Rustbus.Dispatch
open Spec

/-! ### `split('/')` -/

theorem splitAux_ne_nil (cur : Seg) (s : List Char) : splitAux cur s ≠ [] := by
  induction s generalizing cur with
  | nil => simp [splitAux]
  | cons c cs ih =>
    simp only [splitAux]
    split
    · simp
    · exact ih _

theorem joinSlash_cons (a : Seg) (l : List Seg) (h : l ≠ []) :
    joinSlash (a :: l) = a ++ '/' :: joinSlash l := by
  cases l with
  | nil => contradiction
  | cons b r => rfl

theorem joinSlash_splitAux (cur : Seg) (s : List Char) : joinSlash (splitAux cur s) = cur ++ s := by
  induction s generalizing cur with
  | nil => simp [splitAux, joinSlash]
  | cons c cs ih =>
    simp only [splitAux]
    split
    · rename_i h
      subst h
      rw [joinSlash_cons _ _ (splitAux_ne_nil _ _), ih]
      simp
    · rw [ih]; simp

theorem splitAux_noslash (cur : Seg) (s : List Char) (hc : '/' ∉ cur) :
    ∀ g ∈ splitAux cur s, '/' ∉ g := by
  induction s generalizing cur with
  | nil => intro g hg; simp [splitAux] at hg; subst hg; exact hc
  | cons c cs ih =>
    simp only [splitAux]
    split
    · intro g hg
      simp only [List.mem_cons] at hg
      rcases hg with rfl | hg
      · exact hc
      · exact ih [] (by simp) g hg
    · rename_i h
      apply ih
      simp only [List.mem_append, List.mem_singleton, not_or]
      exact ⟨hc, fun e => h e.symm⟩

theorem joinSlash_cons_cons (c : Char) (g : Seg) (gs : List Seg) :
    joinSlash ((c :: g) :: gs) = c :: joinSlash (g :: gs) := by
  cases gs with
  | nil => rfl
  | cons b r => rfl

theorem splitAux_joinSlash (gs : List Seg) : ∀ (g cur : Seg), '/' ∉ g → (∀ x ∈ gs, '/' ∉ x) →
    splitAux cur (joinSlash (g :: gs)) = (cur ++ g) :: gs := by
  induction gs with
  | nil =>
    intro g
    induction g with
    | nil => intro cur _ _; simp [joinSlash, splitAux]
    | cons c g ih =>
      intro cur hg hgs
      have hc : c ≠ '/' := fun e => hg (by simp [e])
      have hg' : '/' ∉ g := fun e => hg (by simp [e])
      rw [joinSlash_cons_cons]
      simp only [splitAux, if_neg hc]
      rw [ih _ hg' hgs]
      simp
  | cons b r ihr =>
    intro g
    induction g with
    | nil =>
      intro cur _ hgs
      have hb : '/' ∉ b := hgs b (by simp)
      have hr : ∀ x ∈ r, '/' ∉ x := fun x hx => hgs x (by simp [hx])
      rw [joinSlash_cons _ _ (by simp)]
      simp only [List.nil_append, splitAux, if_true]
      rw [ihr b [] hb hr]
      simp
    | cons c g ih =>
      intro cur hg hgs
      have hc : c ≠ '/' := fun e => hg (by simp [e])
      have hg' : '/' ∉ g := fun e => hg (by simp [e])
      rw [joinSlash_cons_cons]
      simp only [splitAux, if_neg hc]
      rw [ih _ hg' hgs]
      simp

/-- `splitSlash` computes exactly the segments of the specification -/
theorem segments_iff (s : List Char) (segs : List Seg) : Segments s segs ↔ segs = splitSlash s := by
  constructor
  · rintro ⟨hne, hns, hj⟩
    cases segs with
    | nil => contradiction
    | cons g gs =>
      subst hj
      have := splitAux_joinSlash gs g [] (hns g (by simp)) (fun x hx => hns x (by simp [hx]))
      simpa [splitSlash] using this.symm
  · rintro rfl
    refine ⟨splitAux_ne_nil _ _, splitAux_noslash [] s (by simp), ?_⟩
    simpa [splitSlash] using joinSlash_splitAux [] s

theorem splitSlash_ne_nil (s : List Char) : splitSlash s ≠ [] := splitAux_ne_nil _ _

/-! ### reading a pattern segment -/

theorem classify_iff (seg : Seg) (part : PathPart) : PartOf seg part ↔ classify seg = part := by
  constructor
  · intro h
    cases h with
    | named r => simp [classify]
    | wild => simp [classify]
    | literal s h1 h2 => simp [classify, h1, h2]
  · intro h
    subst h
    unfold classify
    split
    · rename_i h
      cases seg with
      | nil => simp at h
      | cons c r =>
        simp only [List.head?_cons, Option.some.injEq] at h
        subst h
        exact PartOf.named r
    · split
      · rename_i h; subst h; exact PartOf.wild
      · rename_i h1 h2; exact PartOf.literal seg h1 h2

theorem patternNew_ne_nil (p : List Char) : patternNew p ≠ [] := by
  simp [patternNew, splitSlash_ne_nil]

/-! ### the capture map -/

/-- apply captures from left to right -/
def applyBinds (c : Caps) (b : List (Seg × Seg)) : Caps :=
  b.foldl (fun m kv => capsInsert m kv.1 kv.2) c

theorem assocGet_filter_ne (k k' : Seg) (m : Caps) :
    assocGet k' (m.filter (fun e => decide (e.1 ≠ k))) = if k' = k then none else assocGet k' m := by
  induction m with
  | nil => simp [assocGet]
  | cons e m ih =>
    obtain ⟨a, b⟩ := e
    by_cases hak : a = k
    · subst hak
      simp only [ne_eq, not_true_eq_false, decide_false, Bool.false_eq_true, not_false_eq_true,
        List.filter_cons_of_neg]
      rw [ih]
      by_cases h : k' = a
      · simp [h]
      · have : ¬ a = k' := fun e => h e.symm
        simp [h, assocGet, this]
    · simp only [ne_eq, hak, not_false_eq_true, decide_true, List.filter_cons_of_pos, assocGet]
      rw [ih]
      by_cases h : k' = k
      · subst h; simp [hak]
      · simp [h]

theorem assocGet_capsInsert (m : Caps) (k v k' : Seg) :
    assocGet k' (capsInsert m k v) = if k' = k then some v else assocGet k' m := by
  simp only [capsInsert, assocGet, assocGet_filter_ne]
  by_cases h : k' = k
  · subst h; simp
  · have : ¬ k = k' := fun e => h e.symm
    simp [h, this]

theorem assocGet_append (k : Seg) (l1 l2 : List (Seg × Seg)) :
    assocGet k (l1 ++ l2) = (assocGet k l1).or (assocGet k l2) := by
  induction l1 with
  | nil => simp [assocGet]
  | cons e l ih =>
    obtain ⟨a, b⟩ := e
    simp only [List.cons_append, assocGet]
    split
    · simp
    · exact ih

theorem assocGet_applyBinds (b : List (Seg × Seg)) (c : Caps) (k : Seg) :
    assocGet k (applyBinds c b) = (lastBound b k).or (assocGet k c) := by
  induction b generalizing c with
  | nil => simp [applyBinds, lastBound, assocGet]
  | cons e b ih =>
    obtain ⟨n, s⟩ := e
    have : applyBinds c ((n, s) :: b) = applyBinds (capsInsert c n s) b := rfl
    rw [this, ih, assocGet_capsInsert]
    simp only [lastBound, List.reverse_cons, assocGet_append, assocGet]
    by_cases h : k = n
    · subst h
      cases assocGet k b.reverse <;> simp
    · have : ¬ n = k := fun e => h e.symm
      cases assocGet k b.reverse <;> simp [h, this]

theorem keys_capsInsert (m : Caps) (k v : Seg) (h : (m.map (·.1)).Nodup) :
    ((capsInsert m k v).map (·.1)).Nodup := by
  simp only [capsInsert, List.map_cons, List.nodup_cons]
  constructor
  · simp only [List.mem_map, List.mem_filter]
    rintro ⟨e, ⟨_, he⟩, rfl⟩
    simp at he
  · exact (h.sublist ((List.filter_sublist).map _))

theorem keys_applyBinds (b : List (Seg × Seg)) (c : Caps) (h : (c.map (·.1)).Nodup) :
    ((applyBinds c b).map (·.1)).Nodup := by
  induction b generalizing c with
  | nil => exact h
  | cons e b ih => exact ih _ (keys_capsInsert c e.1 e.2 h)

/-! ### `matches`: the index based fold against the relation -/

def lastIsAll (pat : Pattern) : Bool :=
  match pat.getLast? with
  | some .all => true
  | _ => false

/-- the fold of `matches`, walking pattern and path side by side; `la` = the last pattern part is the wildcard -/
def zipMatch (la : Bool) : List PathPart → List Seg → Caps → Option Caps
  | _, [], c => some c
  | [], _ :: ss, c => if la then zipMatch la [] ss c else none
  | .all :: ps, _ :: ss, c => zipMatch la ps ss c
  | .exact e :: ps, s :: ss, c => if e = s then zipMatch la ps ss c else none
  | .as n :: ps, s :: ss, c => zipMatch la ps ss (capsInsert c n s)

theorem foldStep_past (pat : Pattern) (caps : Caps) (idx : Nat) (part : Seg) (h : pat.length ≤ idx) :
    foldStep pat caps idx part = if lastIsAll pat = true then some caps else none := by
  unfold foldStep lastIsAll
  simp only [ge_iff_le, h, if_true]
  cases pat.getLast? with
  | none => simp
  | some p => cases p <;> simp

theorem tryFold_eq_zip (pat : Pattern) (ss : List Seg) : ∀ (idx : Nat) (c : Caps),
    tryFold pat idx ss c = zipMatch (lastIsAll pat) (pat.drop idx) ss c := by
  induction ss with
  | nil => intro idx c; cases pat.drop idx <;> simp [tryFold, zipMatch]
  | cons s ss ih =>
    intro idx c
    by_cases hlt : idx < pat.length
    · have hd : pat.drop idx = pat[idx] :: pat.drop (idx + 1) := List.drop_eq_getElem_cons hlt
      have hg : pat[idx]? = some pat[idx] := List.getElem?_eq_getElem hlt
      rw [hd]
      simp only [tryFold, foldStep, ge_iff_le, Nat.not_le.mpr hlt, if_false, hg]
      cases pat[idx] with
      | all => simp only [zipMatch]; exact ih _ _
      | exact e =>
        simp only [zipMatch]
        by_cases he : e = s
        · simp only [he, if_true]; exact ih _ _
        · simp [he]
      | as n => simp only [zipMatch]; exact ih _ _
    · have hge : pat.length ≤ idx := Nat.le_of_not_lt hlt
      have hd : pat.drop idx = [] := List.drop_eq_nil_of_le hge
      have hd' : pat.drop (idx + 1) = [] := List.drop_eq_nil_of_le (by omega)
      rw [hd]
      have := ih (idx + 1) c
      rw [hd'] at this
      simp only [tryFold, foldStep_past _ _ _ _ hge, zipMatch]
      by_cases hla : lastIsAll pat = true
      · simp only [hla, if_true] at this ⊢
        exact this
      · simp [hla]

theorem zip_nil_true (ss : List Seg) (c : Caps) : zipMatch true [] ss c = some c := by
  induction ss with
  | nil => simp [zipMatch]
  | cons s ss ih => simp [zipMatch, ih]

theorem zip_nil_false (ss : List Seg) (c c' : Caps) :
    zipMatch false [] ss c = some c' ↔ ss = [] ∧ c' = c := by
  cases ss with
  | nil => simp [zipMatch, eq_comm]
  | cons s ss => simp [zipMatch]

theorem matches_nil_left (ss : List Seg) (b : List (Seg × Seg)) : Matches [] ss b ↔ ss = [] ∧ b = [] := by
  constructor
  · intro h; cases h; exact ⟨rfl, rfl⟩
  · rintro ⟨rfl, rfl⟩; exact Matches.done

theorem matches_length {ps : List PathPart} {ss : List Seg} {b : List (Seg × Seg)}
    (h : Matches ps ss b) : ps.length ≤ ss.length := by
  induction h with
  | done => simp
  | literal s _ ih => simp only [List.length_cons]; omega
  | named n s _ ih => simp only [List.length_cons]; omega
  | wildOne s _ ih => simp only [List.length_cons]; omega
  | wildTail s t _ => simp

/-- the captures are a function of pattern and path -/
theorem matches_binds_unique {ps : List PathPart} {ss : List Seg} {b b' : List (Seg × Seg)}
    (h : Matches ps ss b) (h' : Matches ps ss b') : b = b' := by
  induction h generalizing b' with
  | done => cases h'; rfl
  | literal s _ ih =>
    cases h' with
    | literal _ h2 => exact ih h2
  | named n s _ ih =>
    cases h' with
    | named _ _ h2 => rw [ih h2]
  | wildOne s h1 ih =>
    cases h' with
    | wildOne _ h2 => exact ih h2
    | wildTail _ t ht =>
      cases h1 with
      | done => contradiction
  | wildTail s t ht =>
    cases h' with
    | wildOne _ h2 =>
      cases h2 with
      | done => contradiction
    | wildTail _ _ _ => rfl

theorem lastIsAll_cons_cons (p p' : PathPart) (ps : List PathPart) :
    lastIsAll (p :: p' :: ps) = lastIsAll (p' :: ps) := by
  simp [lastIsAll, List.getLast?_cons_cons]

theorem zip_iff_matches (ps : List PathPart) : ∀ (ss : List Seg) (c c' : Caps), ps ≠ [] →
    ps.length ≤ ss.length →
    (zipMatch (lastIsAll ps) ps ss c = some c' ↔ ∃ b, Matches ps ss b ∧ c' = applyBinds c b) := by
  induction ps with
  | nil => intro ss c c' h; contradiction
  | cons p ps ih =>
    intro ss c c' _ hlen
    cases ss with
    | nil => simp at hlen
    | cons s ss =>
      simp only [List.length_cons, Nat.add_le_add_iff_right] at hlen
      cases ps with
      | nil =>
        cases p with
        | all =>
          have hl : lastIsAll [PathPart.all] = true := by simp [lastIsAll]
          rw [hl]
          simp only [zipMatch, zip_nil_true, Option.some.injEq]
          constructor
          · rintro rfl
            refine ⟨[], ?_, rfl⟩
            cases ss with
            | nil => exact Matches.wildOne s Matches.done
            | cons t ts => exact Matches.wildTail s (t :: ts) (by simp)
          · rintro ⟨b, hm, rfl⟩
            cases hm with
            | wildOne _ h2 => cases h2; rfl
            | wildTail _ _ _ => rfl
        | exact e =>
          have hl : lastIsAll [PathPart.exact e] = false := by simp [lastIsAll]
          rw [hl]
          simp only [zipMatch]
          constructor
          · intro h
            by_cases he : e = s
            · subst he
              simp only [if_true] at h
              obtain ⟨rfl, rfl⟩ := (zip_nil_false _ _ _).mp h
              exact ⟨[], Matches.literal e Matches.done, rfl⟩
            · simp [he] at h
          · rintro ⟨b, hm, rfl⟩
            cases hm with
            | literal _ h2 =>
              cases h2
              simp [zipMatch, applyBinds]
        | as n =>
          have hl : lastIsAll [PathPart.as n] = false := by simp [lastIsAll]
          rw [hl]
          simp only [zipMatch]
          constructor
          · intro h
            obtain ⟨rfl, rfl⟩ := (zip_nil_false _ _ _).mp h
            exact ⟨[(n, s)], Matches.named n s Matches.done, rfl⟩
          · rintro ⟨b, hm, rfl⟩
            cases hm with
            | named _ _ h2 =>
              cases h2
              simp [zipMatch, applyBinds]
      | cons p' ps' =>
        rw [lastIsAll_cons_cons]
        have ih' := fun c c' => ih ss c c' (by simp) hlen
        cases p with
        | all =>
          simp only [zipMatch]
          rw [ih']
          constructor
          · rintro ⟨b, hm, rfl⟩; exact ⟨b, Matches.wildOne s hm, rfl⟩
          · rintro ⟨b, hm, rfl⟩
            cases hm with
            | wildOne _ h2 => exact ⟨b, h2, rfl⟩
        | exact e =>
          simp only [zipMatch]
          constructor
          · intro h
            by_cases he : e = s
            · subst he
              simp only [if_true] at h
              obtain ⟨b, hm, rfl⟩ := (ih' _ _).mp h
              exact ⟨b, Matches.literal e hm, rfl⟩
            · simp [he] at h
          · rintro ⟨b, hm, rfl⟩
            cases hm with
            | literal _ h2 =>
              simp only [if_true]
              exact (ih' _ _).mpr ⟨b, h2, rfl⟩
        | as n =>
          simp only [zipMatch]
          rw [ih']
          constructor
          · rintro ⟨b, hm, rfl⟩; exact ⟨(n, s) :: b, Matches.named n s hm, rfl⟩
          · rintro ⟨b, hm, rfl⟩
            cases hm with
            | named _ _ h2 => exact ⟨_, h2, rfl⟩

/-- `ObjectPathPattern::matches` returns captures iff the relation holds, and the captures are the
    bindings applied from left to right -/
theorem patMatches_iff (pat : Pattern) (q : List Char) (caps : Caps) :
    patMatches pat q = some caps ↔ ∃ b, Matches pat (splitSlash q) b ∧ caps = applyBinds [] b := by
  unfold patMatches
  simp only
  cases pat with
  | nil =>
    have hne := splitSlash_ne_nil q
    cases hq : splitSlash q with
    | nil => exact absurd hq hne
    | cons s t =>
      simp only [List.length_cons, List.length_nil, Nat.not_lt_zero, if_false, tryFold, foldStep,
        ge_iff_le, Nat.le_refl, if_true, List.getLast?_nil]
      constructor
      · intro h; simp at h
      · rintro ⟨b, hm, _⟩; cases hm
  | cons p ps =>
    by_cases hlt : (splitSlash q).length < (p :: ps).length
    · simp only [hlt, if_true]
      constructor
      · intro h; simp at h
      · rintro ⟨b, hm, _⟩
        have := matches_length hm
        omega
    · simp only [hlt, if_false]
      rw [tryFold_eq_zip]
      simp only [List.drop_zero]
      exact zip_iff_matches (p :: ps) _ _ _ (by simp) (Nat.le_of_not_lt hlt)

end Rustbus.Dispatch
