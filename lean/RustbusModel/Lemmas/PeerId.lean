import RustbusModel.Model.PeerId
namespace Rustbus.PeerId

def isHexUpper (c : Char) : Bool :=
  ('0' ≤ c ∧ c ≤ '9') ∨ ('A' ≤ c ∧ c ≤ 'F')

theorem hexUpper_isHex (n : Nat) (h : n < 16) : isHexUpper (hexUpper n) = true := by
  have : n = 0 ∨ n = 1 ∨ n = 2 ∨ n = 3 ∨ n = 4 ∨ n = 5 ∨ n = 6 ∨ n = 7 ∨ n = 8 ∨ n = 9 ∨
      n = 10 ∨ n = 11 ∨ n = 12 ∨ n = 13 ∨ n = 14 ∨ n = 15 := by omega
  rcases this with h|h|h|h|h|h|h|h|h|h|h|h|h|h|h|h <;> subst h <;> decide

theorem hexDigitsAux_len (fuel : Nat) : ∀ (k n : Nat) (acc : List Char),
    1 ≤ k → k ≤ fuel → n < 16 ^ k →
    1 + acc.length ≤ (hexDigitsAux fuel n acc).length ∧
    (hexDigitsAux fuel n acc).length ≤ k + acc.length := by
  induction fuel with
  | zero => intro k n acc h1 h2; omega
  | succ f ih =>
    intro k n acc h1 h2 h3
    unfold hexDigitsAux
    split
    · simp only [List.length_cons]; omega
    · rename_i hn
      have hk : 2 ≤ k := by
        rcases Nat.lt_or_ge k 2 with hlt | hge
        · have : k = 1 := by omega
          subst this; simp at h3; omega
        · exact hge
      have hdiv : n / 16 < 16 ^ (k - 1) := by
        have : 16 ^ k = 16 ^ (k - 1) * 16 := by
          rw [← Nat.pow_succ]; congr 1; omega
        rw [this] at h3
        exact Nat.div_lt_of_lt_mul (by rw [Nat.mul_comm]; exact h3)
      have := ih (k - 1) (n / 16) (hexUpper (n % 16) :: acc) (by omega) (by omega) hdiv
      simp only [List.length_cons] at this
      omega

theorem hexDigitsAux_allHex (fuel : Nat) : ∀ (n : Nat) (acc : List Char),
    acc.all isHexUpper = true → (hexDigitsAux fuel n acc).all isHexUpper = true := by
  induction fuel with
  | zero => intro n acc h; simpa [hexDigitsAux] using h
  | succ f ih =>
    intro n acc h
    unfold hexDigitsAux
    split
    · rename_i hn
      simp only [List.all_cons, Bool.and_eq_true]
      exact ⟨hexUpper_isHex n hn, h⟩
    · apply ih
      simp only [List.all_cons, Bool.and_eq_true]
      exact ⟨hexUpper_isHex _ (Nat.mod_lt _ (by omega)), h⟩

theorem fmtHexMin_len (w n : Nat) (hw : 1 ≤ w) (hw16 : w ≤ 16) (hn : n < 16 ^ w) :
    (fmtHexMin w n).length = w := by
  unfold fmtHexMin hexDigits
  have := hexDigitsAux_len 16 w n [] hw hw16 hn
  simp only [List.length_nil, Nat.add_zero] at this
  simp only [List.length_append, List.length_replicate]
  omega

theorem fmtHexMin_allHex (w n : Nat) : (fmtHexMin w n).all isHexUpper = true := by
  unfold fmtHexMin hexDigits
  simp only [List.all_append, Bool.and_eq_true]
  refine ⟨?_, hexDigitsAux_allHex 16 n [] (by simp)⟩
  simp [List.all_replicate, isHexUpper]

end Rustbus.PeerId
