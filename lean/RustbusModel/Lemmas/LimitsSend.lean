import RustbusModel.Model.Limits
import RustbusModel.Lemmas.Header
import RustbusModel.Lemmas.Marshal
import RustbusModel.Lemmas.WireShapeInduct
/-!
C18, send side: the length-level models equal the byte-level ones (`fieldsEnd_eq`, `marshalLen_eq`,
`fixed_array_isSome`), refusal is exactly the two limits (`marshalHeader_none_iff`, `enc_array_isSome`),
a refused component refuses the whole value, and whatever is emitted is accepted by the receive side's
frame-size computation (`send_within_recv`).
-/
namespace Rustbus.Limits
open Rustbus Rustbus.Bytes Rustbus.Wire Rustbus.Spec.Wire Rustbus.Header Rustbus.Spec.Header

/-! ### the header at the level of lengths -/

/-- offset at which the raw field list ends when it starts at `n` -/
def endOf (bo : ByteOrder) (n : Nat) (es : List Entry) : Nat := n + (rawList bo n es).length

theorem endOf_append (bo : ByteOrder) (n : Nat) (a b : List Entry) :
    endOf bo n (a ++ b) = endOf bo (endOf bo n a) b := by
  simp only [endOf, rawList_append, List.length_append]; omega

theorem endOf_optU32 (bo : ByteOrder) (n c : Nat) (x : Option Nat) :
    endOf bo n (optU32 c x) = stepU32 x.isSome n := by
  cases x <;> simp [endOf, optU32, rawList, rawEntry, stepU32, hdr8_length, bytesOf_length]; omega

theorem endOf_optStr (bo : ByteOrder) (n c : Nat) (s : Option (List UInt8)) :
    endOf bo n (optStr c s) = stepStr (s.map List.length) n := by
  cases s <;> simp [endOf, optStr, rawList, rawEntry, stepStr, hdr8_length, bytesOf_length]; omega

theorem endOf_optPath (bo : ByteOrder) (n : Nat) (s : Option (List UInt8)) :
    endOf bo n (optPath s) = stepStr (s.map List.length) n := by
  cases s <;> simp [endOf, optPath, rawList, rawEntry, stepStr, hdr8_length, bytesOf_length]; omega

theorem endOf_optSig (m : Msg) (n : Nat) :
    endOf m.bo n (optSig m) = stepSig (if m.body.isEmpty then none else some m.bodySig.length) n := by
  unfold optSig
  by_cases h : m.body.isEmpty = true
  · simp [h, endOf, rawList, stepSig]
  · simp [h, endOf, rawList, rawEntry, stepSig, hdr8_length]; omega

theorem endOf_optFds (m : Msg) (n : Nat) :
    endOf m.bo n (optFds m) = stepU32 (m.nfds != 0) n := by
  unfold optFds
  by_cases h : m.nfds = 0
  · simp [h, endOf, rawList, stepU32]
  · simp [h, endOf, rawList, rawEntry, stepU32, hdr8_length, bytesOf_length]; omega

/-- the field array of a message ends where the length-level model says -/
theorem fieldsEnd_eq (m : Msg) :
    16 + (rawList m.bo 16 (msgEntries m)).length = fieldsEnd (lensOf m) := by
  have : 16 + (rawList m.bo 16 (msgEntries m)).length = endOf m.bo 16 (msgEntries m) := rfl
  rw [this, msgEntries_eq]
  simp only [endOf_append, endOf_optU32, endOf_optStr, endOf_optPath, endOf_optSig, endOf_optFds]
  rfl


/-- `marshal::marshal` accepts/refuses, and sizes the header, as the length-level model says
    (for valid type, names and body signature) -/
theorem marshalLen_eq (m : Msg) (serial : Nat) (h1 : 1 ≤ m.typ) (h4 : m.typ ≤ 4) (hn : NamesOk m) :
    (marshalHeader m serial).map List.length = marshalLen (lensOf m) := by
  rw [marshalHeader_ok m serial h1 h4 hn]
  have hl := marshalOut_length m serial
  have hf := fieldsEnd_eq m
  unfold marshalLen
  dsimp only
  have hb : (lensOf m).bodyLen = m.body.length := rfl
  rw [← hf, hb, hl]
  generalize (rawList m.bo 16 (msgEntries m)).length = L at *
  rw [show 16 + L - 16 = L by omega]
  by_cases c1 : L > maxArrayLen
  · simp only [if_pos c1]; rfl
  · simp only [if_neg c1]
    by_cases c2 : 16 + L + padLen 8 (16 + L) + m.body.length > maxMessageLen
    · simp only [if_pos c2]; rfl
    · simp only [if_neg c2, Option.map_some, hl]

/-- refusal is exactly: field array > 64 MiB or header + padding + body > 128 MiB -/
theorem marshalHeader_none_iff (m : Msg) (serial : Nat) (h1 : 1 ≤ m.typ) (h4 : m.typ ≤ 4) (hn : NamesOk m) :
    marshalHeader m serial = none ↔
      (fieldsEnd (lensOf m) - 16 > maxArrayLen ∨
       fieldsEnd (lensOf m) + padLen 8 (fieldsEnd (lensOf m)) + m.body.length > maxMessageLen) := by
  have h := marshalLen_eq m serial h1 h4 hn
  unfold marshalLen at h
  dsimp only at h
  have hb : (lensOf m).bodyLen = m.body.length := rfl
  rw [hb] at h
  constructor
  · intro hnone
    rw [hnone] at h
    simp only [Option.map_none] at h
    by_cases c1 : fieldsEnd (lensOf m) - 16 > maxArrayLen
    · exact Or.inl c1
    · rw [if_neg c1] at h
      by_cases c2 : fieldsEnd (lensOf m) + padLen 8 (fieldsEnd (lensOf m)) + m.body.length > maxMessageLen
      · exact Or.inr c2
      · rw [if_neg c2] at h; cases h
  · intro hc
    cases hm : marshalHeader m serial with
    | none => rfl
    | some out =>
      rw [hm] at h
      simp only [Option.map_some] at h
      rcases hc with c1 | c2
      · rw [if_pos c1] at h; cases h
      · by_cases c1 : fieldsEnd (lensOf m) - 16 > maxArrayLen
        · rw [if_pos c1] at h; cases h
        · rw [if_neg c1, if_pos c2] at h; cases h

/-! ### every message the send side emits is within the receive side's limits -/

theorem send_within_recv (m : Msg) (serial : Nat) (hr : msgInRange m serial) (hs : 0 < serial)
    (hdr : List UInt8) (h : marshalHeader m serial = some hdr) :
    bytesNeeded (hdr ++ m.body) = .bytes (hdr.length + m.body.length) := by
  obtain ⟨h1, h4, hn⟩ := marshalHeader_names m serial hdr h
  have harr := marshalHeader_array_limit m serial hdr h
  obtain ⟨_, _, hsz, _⟩ := marshalHeader_fields_valid m serial hdr h
  rw [marshalHeader_ok m serial h1 h4 hn] at h
  rw [if_neg (by omega)] at h
  split at h
  · cases h
  · simp only [Option.some.injEq] at h
    subst h
    obtain ⟨hfl, hser, hbl, _, _⟩ := hr
    have hfx : fixedOk ⟨m.bo, m.typ, m.flags, m.body.length, serial⟩ := ⟨h1, h4, hfl, hbl, hs, hser⟩
    have hlen := marshalOut_length m serial
    generalize hL : (rawList m.bo 16 (msgEntries m)).length = L at *
    -- shape of the output: 12 fixed bytes, the length word, the rest
    have hshape : marshalOut m serial ++ m.body =
        fixedBytes ⟨m.bo, m.typ, m.flags, m.body.length, serial⟩ ++
          (bytesOf m.bo 4 L ++ (rawList m.bo 16 (msgEntries m) ++
            (zeros (padLen 8 (16 + L)) ++ m.body))) := by
      simp only [marshalOut, Header.padTo, List.append_assoc, List.length_append, fixedBytes_length,
        bytesOf_length, hL]
      have : 12 + (4 + L) = 16 + L := by omega
      rw [this]
    have hdf : decodeFixed (marshalOut m serial ++ m.body) =
        some ⟨m.bo, m.typ, m.flags, m.body.length, serial⟩ := by
      rw [hshape]; exact decodeFixed_fixedBytes _ _ hfx
    have hsl : slice (marshalOut m serial ++ m.body) 12 4 = bytesOf m.bo 4 L := by
      rw [hshape]
      exact slice_mid _ _ _ 12 4 (fixedBytes_length _).symm (by simp [bytesOf_length])
    unfold bytesNeeded
    rw [if_neg (by simp only [List.length_append]; omega), hdf]
    dsimp only
    rw [hsl, valOf_bytesOf _ _ _ (by have := maxArrayLen_lt; omega)]
    have e1 : 12 + L + 4 = 16 + L := by omega
    rw [e1, if_neg (by omega)]
    congr 1
    omega


/-! ### arrays on the send side -/

/-- an array is refused exactly when an element is refused or the element region exceeds 64 MiB -/
theorem enc_array_isSome (bo : ByteOrder) (off : Nat) (e : Ty) (vs : List Val) :
    (enc bo off (.array e) (.arr vs)).isSome = true ↔
      ∃ body, encList bo (off + padLen 4 off + 4 + padLen e.align (off + padLen 4 off + 4)) e vs = some body ∧
        body.length ≤ maxArrayLen := by
  constructor
  · intro h
    cases he : enc bo off (.array e) (.arr vs) with
    | none => rw [he] at h; cases h
    | some bs =>
      obtain ⟨body, hb, hl, _⟩ := enc_array_some he
      exact ⟨body, hb, hl⟩
  · rintro ⟨body, hb, hl⟩
    simp only [enc, hb, if_pos hl, Option.isSome_some]

theorem enc_dict_isSome (bo : ByteOrder) (off : Nat) (k : Base) (vt : Ty) (es : List Val) :
    (enc bo off (.dict k vt) (.arr es)).isSome = true ↔
      ∃ body, encEntries bo (off + padLen 4 off + 4 + padLen 8 (off + padLen 4 off + 4)) k vt es = some body ∧
        body.length ≤ maxArrayLen := by
  constructor
  · intro h
    cases he : enc bo off (.dict k vt) (.arr es) with
    | none => rw [he] at h; cases h
    | some bs =>
      obtain ⟨body, hb, hl, _⟩ := enc_dict_some he
      exact ⟨body, hb, hl⟩
  · rintro ⟨body, hb, hl⟩
    simp only [enc, hb, if_pos hl, Option.isSome_some]

/-- arrays of fixed-size elements (the `&[u8]`, `Vec<u64>` … fast path and the element-wise path alike):
    accepted iff `width * count ≤ 64 MiB` -/
theorem fixed_array_isSome (bo : ByteOrder) (off : Nat) (b : Base) (k : Nat) (ns : List Nat)
    (hb : Marshal.fastElem b = true) (hk : b.fixedSize = some k) (hn : ∀ n ∈ ns, n < 256 ^ k) :
    (enc bo off (.array (.base b)) (.arr (ns.map Val.num))).isSome = arrOk k ns.length := by
  have h := Marshal.marshalSliceFastM_eq_enc bo b k ns (zeros off) hb hk hn
  rw [zeros_length] at h
  have : (enc bo off (.array (.base b)) (.arr (ns.map Val.num))).isSome =
      (Marshal.marshalSliceFastM bo b k ns (zeros off)).isSome := by
    rw [h]; cases enc bo off (.array (.base b)) (.arr (ns.map Val.num)) <;> rfl
  rw [this]
  unfold Marshal.marshalSliceFastM arrOk
  dsimp only
  by_cases c : k * ns.length ≤ maxArrayLen
  · rw [if_pos c]; simp [c]
  · rw [if_neg c]; simp [c]

/-! ### a refused component refuses the whole value (every nesting level) -/

theorem encList_none_of_elem (bo : ByteOrder) (e : Ty) (pre : List Val) (v : Val) (post : List Val)
    (off : Nat) (b1 : List UInt8) (hpre : encList bo off e pre = some b1)
    (h : enc bo (off + b1.length) e v = none) : encList bo off e (pre ++ v :: post) = none := by
  induction pre generalizing off b1 with
  | nil =>
    simp only [encList, Option.some.injEq] at hpre
    subst hpre
    simp only [List.length_nil, Nat.add_zero] at h
    simp only [List.nil_append, encList, h]
  | cons p ps ih =>
    obtain ⟨b, r, h1, h2, rfl⟩ := encList_cons_some hpre
    simp only [List.cons_append, encList, h1]
    rw [ih (off + b.length) r h2 (by rw [List.length_append] at h; rw [Nat.add_assoc]; exact h)]

theorem encFields_none_of_field (bo : ByteOrder) (pre : List Ty) (t : Ty) (post : List Ty)
    (vpre : List Val) (v : Val) (vpost : List Val)
    (off : Nat) (b1 : List UInt8) (hpre : encFields bo off pre vpre = some b1)
    (h : enc bo (off + b1.length) t v = none) :
    encFields bo off (pre ++ t :: post) (vpre ++ v :: vpost) = none := by
  induction pre generalizing off b1 vpre with
  | nil =>
    cases vpre with
    | nil =>
      simp only [encFields, Option.some.injEq] at hpre
      subst hpre
      simp only [List.length_nil, Nat.add_zero] at h
      simp only [List.nil_append, encFields, h]
    | cons x xs => simp [encFields] at hpre
  | cons p ps ih =>
    cases vpre with
    | nil => simp [encFields] at hpre
    | cons x xs =>
      obtain ⟨b, r, h1, h2, rfl⟩ := encFields_cons_some hpre
      simp only [List.cons_append, encFields, h1]
      rw [ih xs (off + b.length) r h2 (by rw [List.length_append] at h; rw [Nat.add_assoc]; exact h)]

theorem enc_variant_none_of_payload (bo : ByteOrder) (off : Nat) (t : Ty) (v : Val)
    (h : enc bo (off + (sigBytes t).length + 2) t v = none) :
    enc bo off .variant (.variant t v) = none := by
  simp only [enc, h]
  split <;> rfl

theorem encEntries_none_of_value (bo : ByteOrder) (k : Base) (vt : Ty) (kv vv : Val) (rest : List Val)
    (off : Nat) (kb : List UInt8) (hk : encBase bo (off + padLen 8 off) k kv = some kb)
    (h : enc bo (off + padLen 8 off + kb.length) vt vv = none) :
    encEntries bo off k vt (.struct [kv, vv] :: rest) = none := by
  simp only [encEntries, hk, h]

/-! ### the contexts the engine wraps a byte array in -/

theorem padLen_one' (off : Nat) : padLen 1 off = 0 := by simp [padLen, Nat.mod_one]

theorem encList_bytes_length (bo : ByteOrder) (ns : List Nat) (off : Nat) (body : List UInt8)
    (h : encList bo off (.base .byte) (ns.map Val.num) = some body) : body.length = ns.length := by
  induction ns generalizing off body with
  | nil => simp only [List.map_nil, encList, Option.some.injEq] at h; subst h; rfl
  | cons n ns ih =>
    rw [List.map_cons] at h
    obtain ⟨b, r, h1, h2, rfl⟩ := encList_cons_some h
    simp only [enc, encBase, Base.fixedSize] at h1
    split at h1
    · simp only [Option.some.injEq] at h1
      subst h1
      have hb : (zeros (padLen Base.byte.align off) ++ bytesOf bo 1 n).length = 1 := by
        simp [zeros_length, bytesOf_length, Base.align, padLen_one']
      rw [List.length_append, hb, ih _ _ h2, List.length_cons]; omega
    · cases h1

/-- length of an accepted byte array: padding to 4, the length word, the bytes -/
theorem enc_bytes_length (bo : ByteOrder) (off : Nat) (ns : List Nat) (bs : List UInt8)
    (h : enc bo off (.array (.base .byte)) (.arr (ns.map Val.num)) = some bs) :
    bs.length = padLen 4 off + 4 + ns.length := by
  obtain ⟨body, hb, _, rfl⟩ := enc_array_some h
  have := encList_bytes_length bo ns _ body hb
  simp only [List.length_append, zeros_length, bytesOf_length, this, Ty.align, Base.align, padLen_one']
  omega

theorem byte_array_isSome (bo : ByteOrder) (off : Nat) (ns : List Nat) (hn : ∀ n ∈ ns, n < 256) :
    (enc bo off (.array (.base .byte)) (.arr (ns.map Val.num))).isSome = arrOk 1 ns.length :=
  fixed_array_isSome bo off .byte 1 ns rfl rfl (by simpa using hn)

/-- a struct `(y T)`: accepted exactly when the second field is accepted at its offset -/
theorem struct_y_ctx (bo : ByteOrder) (off x : Nat) (hx : x < 256) (t : Ty) (v : Val) :
    (enc bo off (.struct [.base .byte, t]) (.struct [.num x, v])).isSome =
      (enc bo (off + padLen 8 off + 1) t v).isSome := by
  have hb : Base.byte.bound = 256 := rfl
  rw [enc]
  simp only [List.isEmpty_cons, Bool.false_eq_true, if_false, encFields]
  rw [enc]
  simp only [encBase, Base.fixedSize, hb, hx, if_true, List.length_append, zeros_length, bytesOf_length,
    Base.align, padLen_one', Nat.zero_add]
  cases enc bo (off + padLen 8 off + 1) t v <;> rfl

/-- a byte array as the second field of a struct `(yay)`: accepted exactly when the array is -/
theorem struct_ctx (bo : ByteOrder) (off x : Nat) (hx : x < 256) (ns : List Nat) (hn : ∀ n ∈ ns, n < 256) :
    (enc bo off (.struct [.base .byte, .array (.base .byte)]) (.struct [.num x, .arr (ns.map Val.num)])).isSome =
      arrOk 1 ns.length := by
  rw [struct_y_ctx bo off x hx, byte_array_isSome bo _ ns hn]

/-- a variant: accepted exactly when the payload (of a valid type) is accepted at its offset -/
theorem variant_any_ctx (bo : ByteOrder) (off : Nat) (t : Ty) (v : Val) (ht : variantTypeOk t = true) :
    (enc bo off .variant (.variant t v)).isSome = (enc bo (off + (sigBytes t).length + 2) t v).isSome := by
  rw [enc]
  simp only [ht, if_true]
  cases enc bo (off + (sigBytes t).length + 2) t v <;> rfl

/-- a byte array in a variant: accepted exactly when the array is -/
theorem variant_ctx (bo : ByteOrder) (off : Nat) (ns : List Nat) (hn : ∀ n ∈ ns, n < 256) :
    (enc bo off .variant (.variant (.array (.base .byte)) (.arr (ns.map Val.num)))).isSome =
      arrOk 1 ns.length := by
  rw [variant_any_ctx bo off _ _ (by decide), byte_array_isSome bo _ ns hn]


theorem encBase_key_k (bo : ByteOrder) (o : Nat) :
    encBase bo o .string (.str [107]) = some (zeros (padLen 4 o) ++ (bytesOf bo 4 1 ++ [107, 0])) := by
  have h1 : strOk .string [107] = true := by decide
  simp [encBase, Base.fixedSize, h1]

/-- a byte array as the value of the only entry `"k"` of a dict `a{say}`: the dict's own element region is
    `12 + n` bytes (key 6, padding 2, length word 4, the bytes), and that is what decides -/
theorem dict1_ctx (bo : ByteOrder) (off : Nat) (ns : List Nat) (hn : ∀ n ∈ ns, n < 256) :
    (enc bo off (.dict .string (.array (.base .byte)))
      (.arr [.struct [.str [107], .arr (ns.map Val.num)]])).isSome =
      decide (12 + ns.length ≤ maxArrayLen) := by
  have hin := byte_array_isSome bo
    (off + padLen 4 off + 4 + padLen 8 (off + padLen 4 off + 4) + 6) ns hn
  have hlen := enc_bytes_length bo
    (off + padLen 4 off + 4 + padLen 8 (off + padLen 4 off + 4) + 6) ns
  generalize hv : Val.arr (ns.map Val.num) = v at hin hlen ⊢
  generalize ht : Ty.array (.base .byte) = t at hin hlen ⊢
  generalize hS : off + padLen 4 off + 4 + padLen 8 (off + padLen 4 off + 4) = S at hin hlen ⊢
  have hS8 : padLen 8 S = 0 := by subst hS; simp only [padLen]; omega
  have hS4 : padLen 4 S = 0 := by subst hS; simp only [padLen]; omega
  have hS6 : padLen 4 (S + 6) = 2 := by subst hS; simp only [padLen]; omega
  rw [enc]
  simp only [hS, encEntries, hS8, Nat.add_zero, encBase_key_k, hS4, zeros, List.replicate_zero, List.nil_append,
    List.length_append, bytesOf_length, List.length_cons, List.length_nil]
  cases he : enc bo (S + 6) t v with
  | none =>
    rw [he] at hin
    have : ¬ (12 + ns.length ≤ maxArrayLen) := by
      intro hc
      have : arrOk 1 ns.length = true := by simp [arrOk]; omega
      rw [this] at hin; cases hin
    simp [this]
  | some vb =>
    have hl := hlen vb he
    rw [hS6] at hl
    dsimp only
    by_cases hc : 12 + ns.length ≤ maxArrayLen
    · rw [if_pos (by simp only [List.length_append, List.length_nil, List.length_cons, bytesOf_length]; omega)]
      simp [hc]
    · rw [if_neg (by simp only [List.length_append, List.length_nil, List.length_cons, bytesOf_length]; omega)]
      simp [hc]

end Rustbus.Limits
