import RustbusModel.Model.Recv
import RustbusModel.Lemmas.Header
/-!
C18, receive side: a memory invariant of the receive loop that holds for ARBITRARY peers (any byte stream,
well-formed or not, any announced lengths), all histories, all kernel answers: the reservation never exceeds
`buffered + 64 KiB`, the protocol maximum, or what the buffered header announces; and what is buffered never
exceeds what arrived (`run_good`). Depends on `Model/Recv.lean` only (not on the C09 lemmas).
-/
namespace Rustbus.Limits
open Rustbus Rustbus.Bytes Rustbus.Header Rustbus.Recv

/-! ### `bytesNeeded` looks at the first 16 bytes only, and never announces less than 16 -/

theorem slice_take' (buf : List UInt8) (m off k : Nat) (h : off + k ≤ m) :
    slice (buf.take m) off k = slice buf off k := by
  unfold slice
  rw [List.drop_take, List.take_take]
  congr 1; omega

theorem decodeFixed_take16' (buf : List UInt8) (h : 16 ≤ buf.length) :
    decodeFixed (buf.take 16) = decodeFixed buf := by
  unfold decodeFixed
  rw [slice_take' buf 16 4 4 (by omega), slice_take' buf 16 8 4 (by omega)]
  have h1 : (buf.take 16).length = 16 := by simp [List.length_take]; omega
  rw [h1]
  have h2 : ¬ buf.length < 12 := by omega
  simp only [h2, if_false, show ¬ (16 < 12) by omega]
  match buf, h with
  | e :: t :: f :: ver :: tl, _ => simp [List.take]
  | [], h => simp at h
  | [_], h => simp at h
  | [_, _], h => simp at h
  | [_, _, _], h => simp at h

theorem bytesNeeded_take16' (buf : List UInt8) (h : 16 ≤ buf.length) :
    bytesNeeded (buf.take 16) = bytesNeeded buf := by
  unfold bytesNeeded
  rw [decodeFixed_take16' buf h, slice_take' buf 16 12 4 (by omega)]
  have h1 : (buf.take 16).length = 16 := by simp [List.length_take]; omega
  rw [h1]
  have h2 : ¬ buf.length < 16 := by omega
  simp only [h2, if_false, show ¬ (16 < 16) by omega]

theorem bytesNeeded_append (buf more : List UInt8) (h : 16 ≤ buf.length) :
    bytesNeeded (buf ++ more) = bytesNeeded buf := by
  rw [← bytesNeeded_take16' (buf ++ more) (by simp only [List.length_append]; omega),
    ← bytesNeeded_take16' buf h, List.take_append_of_le_length h]

theorem bytesNeeded_ge16 (buf : List UInt8) (n : Nat) (h : bytesNeeded buf = .bytes n) : 16 ≤ n := by
  unfold bytesNeeded at h
  split at h
  · simp only [Needed.bytes.injEq] at h; omega
  · split at h
    · cases h
    · dsimp only at h
      split at h
      · cases h
      · simp only [Needed.bytes.injEq] at h; omega

theorem bytesNeeded_short (buf : List UInt8) (h : buf.length < 16) : bytesNeeded buf = .bytes 16 := by
  unfold bytesNeeded; rw [if_pos h]

/-! ### what one `recvmsg` hands over -/

theorem recvmsg_eagain' (w w' : World) (req k : Nat) (h : recvmsg w req k = (.eagain, w')) : w' = w := by
  unfold recvmsg at h
  dsimp only at h
  split at h
  · simp only [Prod.mk.injEq] at h; exact h.2.symm
  · split at h
    · split at h
      · simp only [Prod.mk.injEq] at h; exact h.2.symm
      · simp only [Prod.mk.injEq] at h; cases h.1
    · simp only [Prod.mk.injEq] at h; cases h.1

theorem recvmsg_data (w w' : World) (req k : Nat) (bytes : List UInt8) (fds : List Nat)
    (h : recvmsg w req k = (.data bytes fds, w')) :
    bytes.length ≤ req ∧ bytes.length + w'.avail ≤ w.avail := by
  unfold recvmsg at h
  dsimp only at h
  split at h
  · simp only [Prod.mk.injEq] at h; cases h.1
  · split at h
    · split at h
      · simp only [Prod.mk.injEq] at h; cases h.1
      · simp only [Prod.mk.injEq, RecvMsg.data.injEq] at h
        obtain ⟨⟨rfl, _⟩, rfl⟩ := h
        simp only [List.length_nil]; omega
    · simp only [Prod.mk.injEq, RecvMsg.data.injEq] at h
      obtain ⟨⟨rfl, _⟩, rfl⟩ := h
      simp only [List.length_map, List.length_take]
      omega


/-! ### the memory invariant, for ARBITRARY streams -/

/-- the reservation fits what is buffered plus one growth step, the protocol maximum, and what the
    buffered header announces -/
def MemInv (st : State) : Prop :=
  st.buf.length ≤ st.cap ∧ st.cap ≤ max 16 (st.buf.length + maxGrowth) ∧ st.cap ≤ maxMessageLen ∧
  ∀ n, bytesNeeded st.buf = .bytes n → st.cap ≤ max 16 n

/-- bytes buffered plus bytes queued in the socket: only `arrive` events increase it -/
def pot (st : State) (w : World) : Nat := st.buf.length + w.avail

/-- bytes that arrive during a call -/
def evArr : List Ev → Nat
  | [] => 0
  | .arrive n :: r => n + evArr r
  | _ :: r => evArr r

/-- bytes that arrive during a history (between the calls and during them): an upper bound of what the
    client can have received -/
def arrivals : List Action → Nat
  | [] => 0
  | .arrive n :: r => n + arrivals r
  | .call _ evs :: r => evArr evs + arrivals r

theorem memInv_empty : MemInv State.empty := by
  refine ⟨Nat.le_refl _, by simp [State.empty], by simp [State.empty, maxMessageLen], ?_⟩
  intro n _; simp [State.empty]

theorem maxMessageLen_ge : 16 ≤ maxMessageLen := by decide

theorem refill_good (st : State) (w : World) (n k : Nat) (hI : MemInv st)
    (hn : bytesNeeded st.buf = .bytes n) :
    MemInv (refill st w n k).2.1 ∧ pot (refill st w n k).2.1 (refill st w n k).2.2 ≤ pot st w := by
  obtain ⟨i1, i2, i3, i4⟩ := hI
  have i4n := i4 n hn
  have hlim := bytesNeeded_limits st.buf n hn
  have h16 := bytesNeeded_ge16 st.buf n hn
  have hMM := maxMessageLen_ge
  unfold refill
  split
  · exact ⟨⟨i1, i2, i3, i4⟩, Nat.le_refl _⟩
  · rename_i hlt
    dsimp only
    -- the state after `reserve`
    have r1 : (reserve st n).buf = st.buf := rfl
    have r2 : (reserve st n).cap = max st.cap (min n (st.buf.length + maxGrowth)) := rfl
    generalize reserve st n = st1 at r1 r2 ⊢
    generalize hc : st1.cap = c1 at r2 ⊢
    generalize hG : maxGrowth = G at *
    generalize hM : maxMessageLen = M at *
    generalize hL : st.buf.length = L at *
    have q1 : L ≤ c1 := by omega
    have q2 : c1 ≤ max 16 (L + G) := by omega
    have q3 : c1 ≤ M := by omega
    have q4 : c1 ≤ max 16 n := by omega
    have hI1 : MemInv st1 := by
      refine ⟨by rw [r1, hc, hL]; exact q1, by rw [r1, hc, hL, hG]; exact q2, by rw [hc, hM]; exact q3, ?_⟩
      intro n' hn'
      rw [r1, hn] at hn'
      simp only [Needed.bytes.injEq] at hn'
      subst hn'
      rw [hc]; exact q4
    cases hr : recvmsg w (c1 - L) k with
    | mk m w' =>
      cases m with
      | eagain =>
        dsimp only
        have := recvmsg_eagain' _ _ _ _ hr
        subst this
        refine ⟨hI1, ?_⟩
        unfold pot; rw [r1]; exact Nat.le_refl _
      | data bytes fds =>
        dsimp only
        obtain ⟨d1, d2⟩ := recvmsg_data _ _ _ _ _ _ hr
        split
        · refine ⟨hI1, ?_⟩
          unfold pot; dsimp only; rw [r1, hL]; omega
        · refine ⟨?_, ?_⟩
          · refine ⟨?_, ?_, ?_, ?_⟩
            · simp only [List.length_append, hL]; omega
            · simp only [List.length_append, hL, hG]; omega
            · simp only [hM]; exact q3
            · intro n' hn'
              dsimp only at hn' ⊢
              by_cases h16' : 16 ≤ L
              · rw [bytesNeeded_append _ _ (by omega), hn] at hn'
                simp only [Needed.bytes.injEq] at hn'
                subst hn'
                exact q4
              · have hn16 := bytesNeeded_short st.buf (by omega)
                rw [hn] at hn16
                simp only [Needed.bytes.injEq] at hn16
                have := bytesNeeded_ge16 _ _ hn'
                omega
          · unfold pot
            simp only [List.length_append, hL]; omega


/-- a call result: the invariant holds again, and buffered + queued bytes grew by at most `a` -/
def Good (st : State) (w : World) (r : Res × State × World) (a : Nat) : Prop :=
  MemInv r.2.1 ∧ pot r.2.1 r.2.2 ≤ pot st w + a

theorem good_same (st : State) (w : World) (res : Res) (a : Nat) (hI : MemInv st) :
    Good st w (res, st, w) a := ⟨hI, by dsimp only; omega⟩

theorem check_need {st : State} {n : Nat} (h : check st = .need n) : bytesNeeded st.buf = .bytes n := by
  unfold check at h
  split at h
  · rename_i hl
    simp only [Check.need.injEq] at h
    subst h
    exact bytesNeeded_short _ hl
  · split at h
    · rename_i n' hb
      split at h
      · cases h
      · simp only [Check.need.injEq] at h; subst h; exact hb
    · cases h
    · cases h

theorem recvWith_good (st : State) (w : World) (n : Nat) (evs : List Ev) (hI : MemInv st)
    (hn : bytesNeeded st.buf = .bytes n) : Good st w (recvWith st w n evs) (evArr evs) := by
  induction evs generalizing w with
  | nil =>
    obtain ⟨a, b⟩ := refill_good st w n 0 hI hn
    exact ⟨a, by simp only [recvWith, evArr]; omega⟩
  | cons e evs ih =>
    cases e with
    | arrive m =>
      obtain ⟨a, b⟩ := ih (w.arrive m)
      refine ⟨a, ?_⟩
      simp only [recvWith, evArr]
      have : pot st (w.arrive m) = pot st w + m := by simp only [pot, World.arrive]; omega
      omega
    | deliver k =>
      obtain ⟨a, b⟩ := refill_good st w n k hI hn
      exact ⟨a, by simp only [recvWith, evArr]; omega⟩
    | wouldBlock =>
      obtain ⟨a, b⟩ := refill_good st w n 0 hI hn
      exact ⟨a, by simp only [recvWith, evArr]; omega⟩

theorem readOnce_good (st : State) (w : World) (evs : List Ev) (hI : MemInv st) :
    Good st w (readOnce st w evs) (evArr evs) := by
  unfold readOnce
  cases hb : bytesNeeded st.buf with
  | bytes n => exact recvWith_good st w n evs hI hb
  | tooLong => exact good_same st w _ _ hI
  | invalid => exact good_same st w _ _ hI

theorem readMore_good (st : State) (w : World) (evs : List Ev) (hI : MemInv st) :
    Good st w (readMore st w evs) (evArr evs) := by
  unfold readMore
  cases check st with
  | whole => exact good_same st w _ _ hI
  | err r => exact good_same st w _ _ hI
  | need n => exact readOnce_good st w evs hI

theorem readWhole_good (st : State) (w : World) (evs : List Ev) (hI : MemInv st) :
    Good st w (readWhole st w evs) (evArr evs) := by
  induction evs generalizing st w with
  | nil =>
    unfold readWhole
    cases hc : check st with
    | whole => exact good_same st w _ _ hI
    | err r => exact good_same st w _ _ hI
    | need n =>
      obtain ⟨a, b⟩ := refill_good st w n 0 hI (check_need hc)
      exact ⟨a, by simp only [evArr]; omega⟩
  | cons e evs ih =>
    cases e with
    | arrive m =>
      unfold readWhole
      cases hc : check st with
      | whole => exact good_same st w _ _ hI
      | err r => exact good_same st w _ _ hI
      | need n =>
        obtain ⟨a, b⟩ := ih st (w.arrive m) hI
        refine ⟨a, ?_⟩
        dsimp only
        have : pot st (w.arrive m) = pot st w + m := by simp only [pot, World.arrive]; omega
        simp only [evArr]; omega
    | wouldBlock =>
      unfold readWhole
      cases hc : check st with
      | whole => exact good_same st w _ _ hI
      | err r => exact good_same st w _ _ hI
      | need n =>
        obtain ⟨a, b⟩ := refill_good st w n 0 hI (check_need hc)
        exact ⟨a, by simp only [evArr]; omega⟩
    | deliver k =>
      unfold readWhole
      cases hc : check st with
      | whole => exact good_same st w _ _ hI
      | err r => exact good_same st w _ _ hI
      | need n =>
        obtain ⟨a, b⟩ := refill_good st w n k hI (check_need hc)
        dsimp only
        rcases hr : refill st w n k with ⟨res, st', w'⟩
        rw [hr] at a b
        dsimp only at a b
        have key : Good st w (res, st', w') (evArr (Ev.deliver k :: evs)) :=
          ⟨a, by simp only [evArr]; omega⟩
        cases res with
        | readOk =>
          dsimp only
          obtain ⟨c, d⟩ := ih st' w' a
          exact ⟨c, by simp only [evArr]; omega⟩
        | skipped => exact key
        | msg _ _ => exact key
        | timedOut => exact key
        | closed => exact key
        | invalid => exact key
        | tooLong => exact key
        | malformed => exact key

theorem getNext_good (st : State) (w : World) (evs : List Ev) (hI : MemInv st) :
    Good st w (getNext st w evs) (evArr evs) := by
  unfold getNext
  obtain ⟨a, b⟩ := readWhole_good st w evs hI
  rcases hr : readWhole st w evs with ⟨res, st', w'⟩
  rw [hr] at a b
  dsimp only at a b
  have key : Good st w (res, st', w') (evArr evs) := ⟨a, b⟩
  have hemp : ∀ r : Res, Good st w (r, State.empty, w') (evArr evs) := by
    intro r
    refine ⟨memInv_empty, ?_⟩
    dsimp only
    have : pot State.empty w' ≤ pot st' w' := by simp only [pot, State.empty, List.length_nil]; omega
    omega
  cases res with
  | readOk =>
    dsimp only
    cases decodeHeader st'.buf with
    | none => exact key
    | some _ =>
      dsimp only
      cases decodeMessage st'.buf with
      | none => exact hemp _
      | some _ => exact hemp _
  | skipped => exact key
  | msg _ _ => exact key
  | timedOut => exact key
  | closed => exact key
  | invalid => exact key
  | tooLong => exact key
  | malformed => exact key

theorem step_good (c : Call) (st : State) (w : World) (evs : List Ev) (hI : MemInv st) :
    Good st w (step c st w evs) (evArr evs) := by
  cases c with
  | readOnce => exact readOnce_good st w evs hI
  | readMore => exact readMore_good st w evs hI
  | getNext => exact getNext_good st w evs hI

theorem run_good (acts : List Action) (st : State) (w : World) (hI : MemInv st) :
    MemInv (run st w acts).2.1 ∧ pot (run st w acts).2.1 (run st w acts).2.2 ≤ pot st w + arrivals acts := by
  induction acts generalizing st w with
  | nil => exact ⟨hI, by simp only [run, arrivals]; omega⟩
  | cons a acts ih =>
    cases a with
    | arrive m =>
      obtain ⟨c, d⟩ := ih st (w.arrive m) hI
      refine ⟨c, ?_⟩
      have : pot st (w.arrive m) = pot st w + m := by simp only [pot, World.arrive]; omega
      simp only [run, arrivals]; omega
    | call cl evs =>
      obtain ⟨a1, b1⟩ := step_good cl st w evs hI
      simp only [run]
      rcases hs : step cl st w evs with ⟨r, st', w'⟩
      rw [hs] at a1 b1
      dsimp only at a1 b1 ⊢
      obtain ⟨c, d⟩ := ih st' w' a1
      rcases hr : run st' w' acts with ⟨tr, st'', w''⟩
      rw [hr] at c d
      dsimp only at c d ⊢
      exact ⟨c, by simp only [arrivals]; omega⟩

end Rustbus.Limits
