import RustbusModel.Model.Wire
import RustbusModel.Spec.Wire
import RustbusModel.Lemmas.Sig
import RustbusModel.Lemmas.WireBytes
/-!
Wire proofs, part 1: signatures as bytes (the variant case), and both directions for the basic types
(`encBase` / `decBase`).
-/
namespace Rustbus.Wire
open Rustbus Rustbus.Bytes Rustbus.Spec.Wire

theorem char_toNat_ofNat (n : Nat) (h : n < 256) : (Char.ofNat n).toNat = n := by
  have hv : n.isValidChar := Or.inl (by omega)
  simp only [Char.ofNat, hv, dite_true]
  rfl

theorem byte_char_byte (b : UInt8) : UInt8.ofNat (Char.ofNat b.toNat).toNat = b := by
  rw [char_toNat_ofNat _ b.toNat_lt]; exact UInt8.ofNat_toNat

theorem char_byte_char (c : Char) (h : c.toNat < 256) : Char.ofNat (UInt8.ofNat c.toNat).toNat = c := by
  rw [UInt8.toNat_ofNat', Nat.mod_eq_of_lt (by simpa using h)]; exact Char.ofNat_toNat c

theorem sigBytes_of_latin1 (sg : List UInt8) :
    (latin1 sg).map (fun c => UInt8.ofNat c.toNat) = sg := by
  induction sg with
  | nil => rfl
  | cons b bs ih =>
    simp only [latin1, List.map_cons, List.map_map] at ih ⊢
    rw [byte_char_byte]
    congr 1

theorem base_char_lt (b : Base) : b.char.toNat < 256 := by cases b <;> decide

mutual
theorem toStr_lt : (t : Ty) → ∀ c ∈ t.toStr, c.toNat < 256
  | .base b => by simp [Ty.toStr, base_char_lt]
  | .array e => by
    have := toStr_lt e
    intro c hc
    simp only [Ty.toStr, List.mem_cons] at hc
    rcases hc with rfl | hc
    · decide
    · exact this c hc
  | .dict k v => by
    have := toStr_lt v
    intro c hc
    simp only [Ty.toStr, List.mem_cons, List.mem_append, List.mem_nil_iff, or_false] at hc
    rcases hc with rfl | rfl | rfl | hc | rfl
    · decide
    · decide
    · exact base_char_lt k
    · exact this c hc
    · decide
  | .struct fs => by
    have := listToStr_lt fs
    intro c hc
    simp only [Ty.toStr, List.mem_cons, List.mem_append, List.mem_nil_iff, or_false] at hc
    rcases hc with rfl | hc | rfl
    · decide
    · exact this c hc
    · decide
  | .variant => by simp [Ty.toStr]
theorem listToStr_lt : (ts : List Ty) → ∀ c ∈ Ty.listToStr ts, c.toNat < 256
  | [] => by simp [Ty.listToStr]
  | t :: ts => by
    have h1 := toStr_lt t
    have h2 := listToStr_lt ts
    intro c hc
    simp only [Ty.listToStr, List.mem_append] at hc
    rcases hc with hc | hc
    · exact h1 c hc
    · exact h2 c hc
end

theorem latin1_sigBytes (t : Ty) : latin1 (sigBytes t) = t.toStr := by
  have h := toStr_lt t
  simp only [latin1, sigBytes, List.map_map]
  generalize t.toStr = s at h
  induction s with
  | nil => rfl
  | cons c s ih =>
    simp only [List.map_cons, Function.comp]
    rw [char_byte_char c (h c (by simp)), ih (fun c hc => h c (by simp [hc]))]

theorem sigBytes_length (t : Ty) : (sigBytes t).length = t.toStr.length := by simp [sigBytes]

theorem listToStr_single (t : Ty) : Ty.listToStr [t] = t.toStr := by simp [Ty.listToStr]

theorem variantTypeOk_iff (t : Ty) :
    variantTypeOk t = true ↔ Spec.Sig.Denotes t.toStr [t] := by
  simp only [variantTypeOk, Spec.Sig.Denotes, Spec.Sig.ValidTypes, Bool.and_eq_true, decide_eq_true_eq,
    sigBytes_length, listToStr_single, List.mem_singleton, forall_eq, true_and]
  constructor
  · rintro ⟨⟨hw, hd⟩, hl⟩
    have := (Sig.depthOk_iff t hw 0 0).1 hd
    exact ⟨hl, hw, by omega, by omega⟩
  · rintro ⟨hl, hw, ha, hs⟩
    exact ⟨⟨hw, (Sig.depthOk_iff t hw 0 0).2 (by omega)⟩, hl⟩

theorem parse_sigBytes (t : Ty) (h : variantTypeOk t = true) :
    Sig.parseDescription (latin1 (sigBytes t)) = some [t] := by
  rw [latin1_sigBytes, Sig.parseDescription_iff]
  exact (variantTypeOk_iff t).1 h

theorem parse_sound (sg : List UInt8) (t : Ty) (h : Sig.parseDescription (latin1 sg) = some [t]) :
    sg = sigBytes t ∧ variantTypeOk t = true := by
  rw [Sig.parseDescription_iff] at h
  have h2 : latin1 sg = t.toStr := by rw [h.2.1, listToStr_single]
  constructor
  · rw [sigBytes, ← h2, sigBytes_of_latin1]
  · rw [variantTypeOk_iff, ← h2]; exact h

theorem strOk_signature_length (bs : List UInt8) (h : strOk .signature bs = true) : bs.length ≤ 255 := by
  simp only [strOk, Sig.validateSignature] at h
  split at h
  · simp at h
  · rename_i hu
    have := Sig.length_le_utf8Len (latin1 bs)
    simp only [latin1, List.length_map] at this hu
    omega

/-! ### basic types -/

theorem fixedSize_facts {b : Base} {k : Nat} (hk : b.fixedSize = some k) :
    0 < k ∧ b.bound ≤ 256 ^ k := by
  cases b <;> simp [Base.fixedSize] at hk <;> subst hk <;> simp [Base.bound, Base.fixedSize]

theorem encBase_fixed {bo : ByteOrder} {off : Nat} {b : Base} {k : Nat} {v : Val} {bs : List UInt8}
    (hk : b.fixedSize = some k) :
    encBase bo off b v = some bs ↔
      ∃ n, v = .num n ∧ n < b.bound ∧ bs = zeros (padLen b.align off) ++ bytesOf bo k n := by
  unfold encBase
  rw [hk]
  cases v <;> simp
  intro _; exact eq_comm

theorem encBase_str {bo : ByteOrder} {off : Nat} {b : Base} {v : Val} {bs : List UInt8}
    (hb : b = .string ∨ b = .objpath) :
    encBase bo off b v = some bs ↔
      ∃ s, v = .str s ∧ strOk b s = true ∧ s.length < 256 ^ 4 ∧
        bs = zeros (padLen 4 off) ++ (bytesOf bo 4 s.length ++ (s ++ [0])) := by
  unfold encBase
  rcases hb with rfl | rfl <;> cases v <;> simp [Base.fixedSize] <;>
  · intro _ _; exact eq_comm

theorem encBase_sig {bo : ByteOrder} {off : Nat} {v : Val} {bs : List UInt8} :
    encBase bo off .signature v = some bs ↔
      ∃ s, v = .str s ∧ strOk .signature s = true ∧ bs = UInt8.ofNat s.length :: (s ++ [0]) := by
  unfold encBase
  cases v <;> simp [Base.fixedSize]
  intro _; exact eq_comm

theorem fdsOk_iff (nfds : Option Nat) (t : Ty) (v : Val) :
    fdsOk nfds t v = true ↔ ∀ c, nfds = some c → fdsBelow c t v = true := by
  cases nfds <;> simp [fdsOk]

/-- completeness for fixed-size basic types -/
theorem decBase_encBase_fixed (bo : ByteOrder) (b : Base) (k : Nat) (v : Val) (pre bs suf : List UInt8)
    (nfds : Option Nat) (lim : Nat) (hk : b.fixedSize = some k)
    (h : encBase bo pre.length b v = some bs)
    (hfd : ∀ c, nfds = some c → fdsBelow c (.base b) v = true)
    (hl : pre.length + bs.length ≤ lim) (hl2 : lim ≤ pre.length + bs.length + suf.length) :
    decBase bo (pre ++ (bs ++ suf)) nfds b pre.length lim = some (v, pre.length + bs.length) := by
  obtain ⟨n, rfl, hn, rfl⟩ := (encBase_fixed hk).1 h
  obtain ⟨hk0, hbd⟩ := fixedSize_facts hk
  simp only [List.length_append, zeros_length, bytesOf_length] at hl hl2 ⊢
  unfold decBase
  simp only [hk, List.append_assoc]
  rw [skipPad_ok pre _ b.align lim pre.length rfl (by omega) (by simp; omega)]
  simp only []
  have h2 := readNum_ok bo (pre ++ zeros (padLen b.align pre.length)) suf k n lim
    (pre.length + padLen b.align pre.length) (by simp) (by omega) (by omega) (by simp; omega)
  simp only [List.append_assoc] at h2
  rw [h2]
  simp only [hn, if_true]
  cases nfds with
  | none => cases b <;> simp <;> omega
  | some c =>
    have := hfd c rfl
    cases b <;> simp_all [fdsBelow] <;> omega

theorem decBase_str_eq (bo : ByteOrder) (buf : List UInt8) (nfds : Option Nat) (b : Base) (off lim : Nat)
    (hb : b = .string ∨ b = .objpath) :
    decBase bo buf nfds b off lim =
      match skipPad buf off lim 4 with
      | none => none
      | some o =>
        match readNum bo buf o lim 4 with
        | none => none
        | some len =>
          if o + len + 5 ≤ lim then
            if slice buf (o + 4 + len) 1 = [0] && strOk b (slice buf (o + 4) len) then
              some (.str (slice buf (o + 4) len), o + len + 5) else none
          else none := by
  rcases hb with rfl | rfl <;> rfl

theorem decBase_sig_eq (bo : ByteOrder) (buf : List UInt8) (nfds : Option Nat) (off lim : Nat) :
    decBase bo buf nfds .signature off lim =
      match readNum bo buf off lim 1 with
      | none => none
      | some len =>
        if off + len + 2 ≤ lim then
          if slice buf (off + 1 + len) 1 = [0] && strOk .signature (slice buf (off + 1) len) then
            some (.str (slice buf (off + 1) len), off + len + 2) else none
        else none := rfl

theorem decBase_fixed_eq (bo : ByteOrder) (buf : List UInt8) (nfds : Option Nat) (b : Base) (k off lim : Nat)
    (hk : b.fixedSize = some k) :
    decBase bo buf nfds b off lim =
      match skipPad buf off lim b.align with
      | none => none
      | some o =>
        match readNum bo buf o lim k with
        | none => none
        | some n =>
          if n < b.bound then
            match (generalizing := false) b, nfds with
            | .unixfd, some cnt => if n < cnt then some (.num n, o + k) else none
            | _, _ => some (.num n, o + k)
          else none := by
  unfold decBase; simp only [hk]; rfl

theorem decBase_encBase_str (bo : ByteOrder) (b : Base) (v : Val) (pre bs suf : List UInt8)
    (nfds : Option Nat) (lim : Nat) (hb : b = .string ∨ b = .objpath)
    (h : encBase bo pre.length b v = some bs)
    (hl : pre.length + bs.length ≤ lim) (hl2 : lim ≤ pre.length + bs.length + suf.length) :
    decBase bo (pre ++ (bs ++ suf)) nfds b pre.length lim = some (v, pre.length + bs.length) := by
  obtain ⟨s, rfl, hs, hn, rfl⟩ := (encBase_str hb).1 h
  simp only [List.length_append, zeros_length, bytesOf_length, List.length_cons, List.length_nil] at hl hl2 ⊢
  rw [decBase_str_eq _ _ _ _ _ _ hb]
  simp only [List.append_assoc]
  rw [skipPad_ok pre _ 4 lim pre.length rfl (by omega) (by simp; omega)]
  simp only []
  have h2 := readNum_ok bo (pre ++ zeros (padLen 4 pre.length)) (s ++ ([0] ++ suf)) 4 s.length lim
    (pre.length + padLen 4 pre.length) (by simp) hn (by omega) (by simp; omega)
  simp only [List.append_assoc] at h2
  rw [h2]
  simp only []
  rw [if_pos (by omega)]
  have h3 := slice_mid (pre ++ (zeros (padLen 4 pre.length) ++ bytesOf bo 4 s.length)) s ([0] ++ suf)
    (pre.length + padLen 4 pre.length + 4) s.length (by simp; omega) rfl
  simp only [List.append_assoc] at h3
  rw [h3]
  have h4 := slice_mid (pre ++ (zeros (padLen 4 pre.length) ++ (bytesOf bo 4 s.length ++ s))) [0] suf
    (pre.length + padLen 4 pre.length + 4 + s.length) 1 (by simp; omega) rfl
  simp only [List.append_assoc] at h4
  rw [h4]
  simp [hs]; omega

theorem decBase_encBase_sig (bo : ByteOrder) (v : Val) (pre bs suf : List UInt8)
    (nfds : Option Nat) (lim : Nat)
    (h : encBase bo pre.length .signature v = some bs)
    (hl : pre.length + bs.length ≤ lim) (hl2 : lim ≤ pre.length + bs.length + suf.length) :
    decBase bo (pre ++ (bs ++ suf)) nfds .signature pre.length lim = some (v, pre.length + bs.length) := by
  obtain ⟨s, rfl, hs, rfl⟩ := encBase_sig.1 h
  have hlen := strOk_signature_length s hs
  simp only [List.length_append, List.length_cons, List.length_nil] at hl hl2 ⊢
  rw [decBase_sig_eq]
  have h2 := readNum_ok bo pre (s ++ ([0] ++ suf)) 1 s.length lim pre.length rfl (by omega) (by omega)
    (by simp; omega)
  have e2 : pre ++ (UInt8.ofNat s.length :: (s ++ [0]) ++ suf) =
      pre ++ (bytesOf bo 1 s.length ++ (s ++ ([0] ++ suf))) := by
    rw [bytesOf_one bo _ (by omega)]; simp
  rw [e2, h2]
  simp only []
  rw [if_pos (by omega)]
  have h3 := slice_mid (pre ++ bytesOf bo 1 s.length) s ([0] ++ suf)
    (pre.length + 1) s.length (by simp) rfl
  simp only [List.append_assoc] at h3
  rw [h3]
  have h4 := slice_mid (pre ++ (bytesOf bo 1 s.length ++ s)) [0] suf
    (pre.length + 1 + s.length) 1 (by simp; omega) rfl
  simp only [List.append_assoc] at h4
  rw [h4]
  simp [hs]; omega

/-- completeness for all basic types -/
theorem decBase_encBase (bo : ByteOrder) (b : Base) (v : Val) (pre bs suf : List UInt8)
    (nfds : Option Nat) (lim : Nat)
    (h : encBase bo pre.length b v = some bs)
    (hfd : ∀ c, nfds = some c → fdsBelow c (.base b) v = true)
    (hl : pre.length + bs.length ≤ lim) (hl2 : lim ≤ pre.length + bs.length + suf.length) :
    decBase bo (pre ++ (bs ++ suf)) nfds b pre.length lim = some (v, pre.length + bs.length) := by
  cases hk : b.fixedSize with
  | some k => exact decBase_encBase_fixed bo b k v pre bs suf nfds lim hk h hfd hl hl2
  | none =>
    cases b <;> simp [Base.fixedSize] at hk
    · exact decBase_encBase_str bo _ v pre bs suf nfds lim (Or.inl rfl) h hl hl2
    · exact decBase_encBase_str bo _ v pre bs suf nfds lim (Or.inr rfl) h hl hl2
    · exact decBase_encBase_sig bo v pre bs suf nfds lim h hl hl2

theorem encBase_pos (bo : ByteOrder) (off : Nat) (b : Base) (v : Val) (bs : List UInt8)
    (h : encBase bo off b v = some bs) : 0 < bs.length := by
  cases hk : b.fixedSize with
  | some k =>
    obtain ⟨n, rfl, hn, rfl⟩ := (encBase_fixed hk).1 h
    have := (fixedSize_facts hk).1
    simp only [List.length_append, zeros_length, bytesOf_length]; omega
  | none =>
    cases b <;> simp [Base.fixedSize] at hk
    · obtain ⟨s, rfl, hs, hn, rfl⟩ := (encBase_str (Or.inl rfl)).1 h
      simp only [List.length_append, zeros_length, bytesOf_length]; omega
    · obtain ⟨s, rfl, hs, hn, rfl⟩ := (encBase_str (Or.inr rfl)).1 h
      simp only [List.length_append, zeros_length, bytesOf_length]; omega
    · obtain ⟨s, rfl, hs, rfl⟩ := encBase_sig.1 h
      simp

theorem encBase_decBase_fixed (bo : ByteOrder) (buf : List UInt8) (nfds : Option Nat) (b : Base) (k : Nat)
    (off lim : Nat) (v : Val) (o' : Nat) (hk : b.fixedSize = some k)
    (h : decBase bo buf nfds b off lim = some (v, o')) :
    off < o' ∧ o' ≤ lim ∧ lim ≤ buf.length ∧ encBase bo off b v = some (slice buf off (o' - off)) ∧
    (∀ c, nfds = some c → fdsBelow c (.base b) v = true) := by
  rw [decBase_fixed_eq _ _ _ _ _ _ _ hk] at h
  obtain ⟨hk0, hbd⟩ := fixedSize_facts hk
  split at h
  · simp at h
  · rename_i o ho
    split at h
    · simp at h
    · rename_i n hn
      split at h
      · rename_i hlt
        obtain ⟨rfl, _, hb, hz⟩ := skipPad_sound _ _ _ _ _ ho
        obtain ⟨h1, h2, h3, h4⟩ := readNum_sound _ _ _ _ _ _ hn
        have key : v = .num n ∧ o' = off + padLen b.align off + k ∧
            (∀ c, nfds = some c → fdsBelow c (.base b) (.num n) = true) := by
          split at h
          · split at h
            · rename_i hc
              simp only [Option.some.injEq, Prod.mk.injEq] at h
              refine ⟨h.1.symm, h.2.symm, ?_⟩
              intro c hc'; cases hc'; simp [fdsBelow, hc]
            · simp at h
          · rename_i hne
            simp only [Option.some.injEq, Prod.mk.injEq] at h
            refine ⟨h.1.symm, h.2.symm, ?_⟩
            intro c hc'
            cases b <;> simp [fdsBelow]
            exact absurd hc' (fun hh => hne c rfl hh)
        obtain ⟨rfl, rfl, hfd⟩ := key
        refine ⟨by omega, by omega, hb, ?_, hfd⟩
        rw [encBase_fixed hk]
        refine ⟨n, rfl, hlt, ?_⟩
        have : off + padLen b.align off + k - off = padLen b.align off + k := by omega
        rw [this, slice_add, hz, h4]
      · simp at h

theorem encBase_decBase_str (bo : ByteOrder) (buf : List UInt8) (nfds : Option Nat) (b : Base)
    (off lim : Nat) (v : Val) (o' : Nat) (hb : b = .string ∨ b = .objpath)
    (h : decBase bo buf nfds b off lim = some (v, o')) :
    off < o' ∧ o' ≤ lim ∧ lim ≤ buf.length ∧ encBase bo off b v = some (slice buf off (o' - off)) ∧
    (∀ c, nfds = some c → fdsBelow c (.base b) v = true) := by
  rw [decBase_str_eq _ _ _ _ _ _ hb] at h
  split at h
  · simp at h
  · rename_i o ho
    split at h
    · simp at h
    · rename_i len hn
      split at h
      · rename_i hle
        split at h
        · rename_i hc
          simp only [Bool.and_eq_true, decide_eq_true_eq] at hc
          simp only [Option.some.injEq, Prod.mk.injEq] at h
          obtain ⟨rfl, rfl⟩ := h
          obtain ⟨rfl, _, hbl, hz⟩ := skipPad_sound _ _ _ _ _ ho
          obtain ⟨h1, h2, h3, h4⟩ := readNum_sound _ _ _ _ _ _ hn
          have hsl : (slice buf (off + padLen 4 off + 4) len).length = len := slice_length _ _ _ (by omega)
          refine ⟨by omega, by omega, hbl, ?_, ?_⟩
          · rw [encBase_str hb]
            refine ⟨_, rfl, hc.2, by rw [hsl]; exact h3, ?_⟩
            have : off + padLen 4 off + len + 5 - off = padLen 4 off + (4 + (len + 1)) := by omega
            rw [this, slice_add, slice_add, slice_add, hz, hsl, h4]
            have e : off + padLen 4 off + 4 + len = off + padLen 4 off + 4 + len := rfl
            rw [hc.1]
          · intro c _; rcases hb with rfl | rfl <;> simp [fdsBelow]
        · simp at h
      · simp at h

theorem encBase_decBase_sig (bo : ByteOrder) (buf : List UInt8) (nfds : Option Nat)
    (off lim : Nat) (v : Val) (o' : Nat)
    (h : decBase bo buf nfds .signature off lim = some (v, o')) :
    off < o' ∧ o' ≤ lim ∧ lim ≤ buf.length ∧ encBase bo off .signature v = some (slice buf off (o' - off)) ∧
    (∀ c, nfds = some c → fdsBelow c (.base .signature) v = true) := by
  rw [decBase_sig_eq] at h
  split at h
  · simp at h
  · rename_i len hn
    split at h
    · rename_i hle
      split at h
      · rename_i hc
        simp only [Bool.and_eq_true, decide_eq_true_eq] at hc
        simp only [Option.some.injEq, Prod.mk.injEq] at h
        obtain ⟨rfl, rfl⟩ := h
        obtain ⟨h1, h2, h3, h4⟩ := readNum_sound _ _ _ _ _ _ hn
        have hsl : (slice buf (off + 1) len).length = len := slice_length _ _ _ (by omega)
        refine ⟨by omega, by omega, h2, ?_, ?_⟩
        · rw [encBase_sig]
          refine ⟨_, rfl, hc.2, ?_⟩
          have : off + len + 2 - off = 1 + (len + 1) := by omega
          rw [this, slice_add, slice_add, hsl, ← h4, hc.1, bytesOf_one bo len (by omega)]
          rfl
        · intro c _; simp [fdsBelow]
      · simp at h
    · simp at h

/-- soundness for all basic types -/
theorem encBase_decBase (bo : ByteOrder) (buf : List UInt8) (nfds : Option Nat) (b : Base)
    (off lim : Nat) (v : Val) (o' : Nat)
    (h : decBase bo buf nfds b off lim = some (v, o')) :
    off < o' ∧ o' ≤ lim ∧ lim ≤ buf.length ∧ encBase bo off b v = some (slice buf off (o' - off)) ∧
    (∀ c, nfds = some c → fdsBelow c (.base b) v = true) := by
  cases hk : b.fixedSize with
  | some k => exact encBase_decBase_fixed bo buf nfds b k off lim v o' hk h
  | none =>
    cases b <;> simp [Base.fixedSize] at hk
    · exact encBase_decBase_str bo buf nfds _ off lim v o' (Or.inl rfl) h
    · exact encBase_decBase_str bo buf nfds _ off lim v o' (Or.inr rfl) h
    · exact encBase_decBase_sig bo buf nfds off lim v o' h

end Rustbus.Wire
