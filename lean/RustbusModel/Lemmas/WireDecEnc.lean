import RustbusModel.Lemmas.WireBase
/-!
Wire proofs, part 2: one-step unfoldings of `dec`, progress (`enc_pos'`), and completeness
(`complete_all`: the decoder inverts the encoder), by strong induction on the nesting budget.
-/
namespace Rustbus.Wire
open Rustbus Rustbus.Bytes Rustbus.Spec.Wire

/-! ### one-step unfoldings of `dec` -/
section unfold
variable (bo : ByteOrder) (buf : List UInt8) (nfds : Option Nat)

theorem dec_base (d : Nat) (b : Base) (off lim : Nat) :
    dec bo buf nfds d (.base b) off lim = decBase bo buf nfds b off lim := by
  simp only [dec]

theorem dec_zero (t : Ty) (off lim : Nat) (ht : ∀ b, t ≠ .base b) :
    dec bo buf nfds 0 t off lim = none := by
  cases t <;> first | exact absurd rfl (ht _) | simp only [dec]

theorem dec_array (d : Nat) (e : Ty) (off lim : Nat) :
    dec bo buf nfds (d + 1) (.array e) off lim =
    match skipPad buf off lim 4 with
    | none => none
    | some o =>
      match readNum bo buf o lim 4 with
      | none => none
      | some len =>
        if len ≤ maxArrayLen then
          match skipPad buf (o + 4) lim e.align with
          | none => none
          | some o2 =>
            if o2 + len ≤ lim then
              match decList bo buf nfds d e o2 (o2 + len) len with
              | none => none
              | some vs => some (.arr vs, o2 + len)
            else none
        else none := by
  simp only [dec]; rfl

theorem dec_dict_one (k : Base) (v : Ty) (off lim : Nat) :
    dec bo buf nfds 1 (.dict k v) off lim = none := by
  simp only [dec]

theorem dec_dict (d' : Nat) (k : Base) (v : Ty) (off lim : Nat) :
    dec bo buf nfds (d' + 2) (.dict k v) off lim =
      match skipPad buf off lim 4 with
      | none => none
      | some o =>
        match readNum bo buf o lim 4 with
        | none => none
        | some len =>
          if len ≤ maxArrayLen then
            match skipPad buf (o + 4) lim 8 with
            | none => none
            | some o2 =>
              if o2 + len ≤ lim then
                match decEntries bo buf nfds d' k v o2 (o2 + len) len with
                | none => none
                | some es => some (.arr es, o2 + len)
              else none
          else none := by
  simp only [dec]; rfl

theorem dec_struct (d : Nat) (fs : List Ty) (off lim : Nat) :
    dec bo buf nfds (d + 1) (.struct fs) off lim =
    if fs.isEmpty then none
    else
      match skipPad buf off lim 8 with
      | none => none
      | some o =>
        match decFields bo buf nfds d fs o lim with
        | none => none
        | some (vs, o') => some (.struct vs, o') := by
  simp only [dec]; rfl

theorem dec_variant (d : Nat) (off lim : Nat) :
    dec bo buf nfds (d + 1) .variant off lim =
    match readNum bo buf off lim 1 with
    | none => none
    | some len =>
      if off + len + 2 ≤ lim then
        if slice buf (off + 1 + len) 1 = [0] then
          match Sig.parseDescription (latin1 (slice buf (off + 1) len)) with
          | some [t] =>
            match dec bo buf nfds d t (off + len + 2) lim with
            | none => none
            | some (v, o') => some (.variant t v, o')
          | _ => none
        else none
      else none := by
  simp only [dec]; rfl

theorem decList_zero (d : Nat) (e : Ty) (off lim : Nat) :
    decList bo buf nfds d e off lim 0 = if off = lim then some [] else none := by
  simp only [decList]

theorem decList_succ (d : Nat) (e : Ty) (off lim fuel : Nat) :
    decList bo buf nfds d e off lim (fuel + 1) =
    if off = lim then some []
    else
      match dec bo buf nfds d e off lim with
      | none => none
      | some (v, o') =>
        match decList bo buf nfds d e o' lim fuel with
        | none => none
        | some vs => some (v :: vs) := by
  simp only [decList]; rfl

theorem decEntries_zero (d : Nat) (k : Base) (vt : Ty) (off lim : Nat) :
    decEntries bo buf nfds d k vt off lim 0 = if off = lim then some [] else none := by
  simp only [decEntries]

theorem decEntries_succ (d : Nat) (k : Base) (vt : Ty) (off lim fuel : Nat) :
    decEntries bo buf nfds d k vt off lim (fuel + 1) =
    if off = lim then some []
    else
      match skipPad buf off lim 8 with
      | none => none
      | some o =>
        match decBase bo buf nfds k o lim with
        | none => none
        | some (kv, o1) =>
          match dec bo buf nfds d vt o1 lim with
          | none => none
          | some (vv, o2) =>
            match decEntries bo buf nfds d k vt o2 lim fuel with
            | none => none
            | some es => some (.struct [kv, vv] :: es) := by
  simp only [decEntries]; rfl

theorem decFields_nil (d : Nat) (off lim : Nat) :
    decFields bo buf nfds d [] off lim = some ([], off) := by
  simp only [decFields]

theorem decFields_cons (d : Nat) (t : Ty) (ts : List Ty) (off lim : Nat) :
    decFields bo buf nfds d (t :: ts) off lim =
    match dec bo buf nfds d t off lim with
    | none => none
    | some (v, o') =>
      match decFields bo buf nfds d ts o' lim with
      | none => none
      | some (vs, o'') => some (v :: vs, o'') := by
  simp only [decFields]; rfl
end unfold


theorem maxArrayLen_lt : maxArrayLen < 256 ^ 4 := by decide

/-! ### progress -/

theorem enc_pos' (bo : ByteOrder) (t : Ty) (off : Nat) (v : Val) (bs : List UInt8)
    (h : enc bo off t v = some bs) : 0 < bs.length := by
  match t, v with
  | .base b, v =>
    simp only [enc] at h
    exact encBase_pos bo off b v bs h
  | .array e, .arr vs =>
    simp only [enc] at h
    split at h
    · simp at h
    · split at h
      · simp only [Option.some.injEq] at h; subst h
        simp only [List.length_append, zeros_length, bytesOf_length]; omega
      · simp at h
  | .dict k vt, .arr es =>
    simp only [enc] at h
    split at h
    · simp at h
    · split at h
      · simp only [Option.some.injEq] at h; subst h
        simp only [List.length_append, zeros_length, bytesOf_length]; omega
      · simp at h
  | .struct [], .struct vs => simp [enc] at h
  | .struct (t :: ts), .struct [] => simp [enc, encFields] at h
  | .struct (t :: ts), .struct (v :: vs) =>
    simp only [enc, encFields] at h
    split at h
    · simp at h
    · split at h
      · simp at h
      · rename_i body hb
        split at hb
        · simp at hb
        · rename_i b hb1
          have := enc_pos' bo t _ v b hb1
          split at hb
          · simp at hb
          · simp only [Option.some.injEq] at hb h; subst hb; subst h
            simp only [List.length_append, zeros_length]; omega
  | .variant, .variant t v =>
    simp only [enc] at h
    split at h
    · split at h
      · simp at h
      · simp only [Option.some.injEq] at h; subst h
        simp
    · simp at h
  | .array _, .num _ | .array _, .str _ | .array _, .struct _ | .array _, .variant _ _ => simp [enc] at h
  | .dict _ _, .num _ | .dict _ _, .str _ | .dict _ _, .struct _ | .dict _ _, .variant _ _ => simp [enc] at h
  | .struct _, .num _ | .struct _, .str _ | .struct _, .arr _ | .struct _, .variant _ _ => simp [enc] at h
  | .variant, .num _ | .variant, .str _ | .variant, .arr _ | .variant, .struct _ => simp [enc] at h


/-! ### completeness: `dec` inverts `enc` -/

theorem decBase_encBase' (bo : ByteOrder) (b : Base) (v : Val) (off : Nat) (pre bs suf : List UInt8)
    (nfds : Option Nat) (lim : Nat) (ho : off = pre.length)
    (h : encBase bo off b v = some bs)
    (hfd : ∀ c, nfds = some c → fdsBelow c (.base b) v = true)
    (hl : off + bs.length ≤ lim) (hl2 : lim ≤ pre.length + bs.length + suf.length) :
    decBase bo (pre ++ (bs ++ suf)) nfds b off lim = some (v, off + bs.length) := by
  subst ho; exact decBase_encBase bo b v pre bs suf nfds lim h hfd hl hl2

/-- the completeness statement at nesting budget `d` -/
def Complete (bo : ByteOrder) (nfds : Option Nat) (d : Nat) : Prop :=
  ∀ (t : Ty) (v : Val) (off : Nat) (pre bs suf : List UInt8) (lim : Nat), off = pre.length →
    enc bo off t v = some bs → depthOf t v ≤ d → (∀ c, nfds = some c → fdsBelow c t v = true) →
    off + bs.length ≤ lim → lim ≤ pre.length + bs.length + suf.length →
    dec bo (pre ++ (bs ++ suf)) nfds d t off lim = some (v, off + bs.length)

theorem decList_complete (bo : ByteOrder) (nfds : Option Nat) (d : Nat) (hQ : Complete bo nfds d) (e : Ty)
    (vs : List Val) (off : Nat) (pre bs suf : List UInt8) (lim fuel : Nat) (ho : off = pre.length)
    (h : encList bo off e vs = some bs) (hd : depthOfList e vs ≤ d)
    (hfd : ∀ c, nfds = some c → fdsBelowList c e vs = true)
    (hlim : lim = off + bs.length) (hf : bs.length ≤ fuel) :
    decList bo (pre ++ (bs ++ suf)) nfds d e off lim fuel = some vs := by
  induction vs generalizing off pre bs fuel with
  | nil =>
    simp only [encList, Option.some.injEq] at h; subst h
    cases fuel <;> simp [decList, hlim]
  | cons v vs ih =>
    simp only [encList] at h
    split at h
    · simp at h
    · rename_i b hb
      split at h
      · simp at h
      · rename_i rest hr
        simp only [Option.some.injEq] at h; subst h
        have hpos := enc_pos' bo e off v b hb
        simp only [List.length_append] at hf hlim
        simp only [depthOfList] at hd
        match fuel with
        | 0 => omega
        | fuel + 1 =>
          rw [decList_succ, if_neg (by omega)]
          have h1 := hQ e v off pre b (rest ++ suf) lim ho hb (by omega)
            (fun c hc => by have := hfd c hc; simp only [fdsBelowList, Bool.and_eq_true] at this; exact this.1)
            (by omega) (by simp only [List.length_append]; omega)
          simp only [List.append_assoc] at h1 ⊢
          rw [h1]
          simp only []
          have h2 := ih (off + b.length) (pre ++ b) rest fuel (by simp [ho]) hr (by omega)
            (fun c hc => by have := hfd c hc; simp only [fdsBelowList, Bool.and_eq_true] at this; exact this.2)
            (by omega) (by omega)
          simp only [List.append_assoc] at h2
          rw [h2]

theorem decFields_complete (bo : ByteOrder) (nfds : Option Nat) (d : Nat) (hQ : Complete bo nfds d)
    (ts : List Ty) (vs : List Val) (off : Nat) (pre bs suf : List UInt8) (lim : Nat) (ho : off = pre.length)
    (h : encFields bo off ts vs = some bs) (hd : depthOfFields ts vs ≤ d)
    (hfd : ∀ c, nfds = some c → fdsBelowFields c ts vs = true)
    (hl : off + bs.length ≤ lim) (hl2 : lim ≤ pre.length + bs.length + suf.length) :
    decFields bo (pre ++ (bs ++ suf)) nfds d ts off lim = some (vs, off + bs.length) := by
  induction ts generalizing vs off pre bs with
  | nil =>
    cases vs with
    | nil => simp only [encFields, Option.some.injEq] at h; subst h; simp [decFields]
    | cons _ _ => simp [encFields] at h
  | cons t ts ih =>
    cases vs with
    | nil => simp [encFields] at h
    | cons v vs =>
      simp only [encFields] at h
      split at h
      · simp at h
      · rename_i b hb
        split at h
        · simp at h
        · rename_i rest hr
          simp only [Option.some.injEq] at h; subst h
          simp only [List.length_append] at hl hl2
          simp only [depthOfFields] at hd
          rw [decFields_cons]
          have h1 := hQ t v off pre b (rest ++ suf) lim ho hb (by omega)
            (fun c hc => by have := hfd c hc; simp only [fdsBelowFields, Bool.and_eq_true] at this; exact this.1)
            (by omega) (by simp only [List.length_append]; omega)
          simp only [List.append_assoc] at h1 ⊢
          rw [h1]
          simp only []
          have h2 := ih vs (off + b.length) (pre ++ b) rest (by simp [ho]) hr (by omega)
            (fun c hc => by have := hfd c hc; simp only [fdsBelowFields, Bool.and_eq_true] at this; exact this.2)
            (by omega) (by simp only [List.length_append]; omega)
          simp only [List.append_assoc] at h2
          rw [h2]
          simp only [List.length_append, Nat.add_assoc]


theorem decEntries_complete (bo : ByteOrder) (nfds : Option Nat) (d : Nat) (hQ : Complete bo nfds d)
    (k : Base) (vt : Ty)
    (es : List Val) (off : Nat) (pre bs suf : List UInt8) (lim fuel : Nat) (ho : off = pre.length)
    (h : encEntries bo off k vt es = some bs) (hd : depthOfEntries vt es ≤ d)
    (hfd : ∀ c, nfds = some c → fdsBelowEntries c k vt es = true)
    (hlim : lim = off + bs.length) (hf : bs.length ≤ fuel) :
    decEntries bo (pre ++ (bs ++ suf)) nfds d k vt off lim fuel = some es := by
  match es with
  | [] =>
    simp only [encEntries, Option.some.injEq] at h; subst h
    cases fuel <;> simp [decEntries, hlim]
  | .struct [kv, vv] :: rest =>
    simp only [encEntries] at h
    split at h
    · simp at h
    · rename_i kb hkb
      split at h
      · simp at h
      · rename_i vb hvb
        split at h
        · simp at h
        · rename_i bs' hr
          simp only [Option.some.injEq] at h; subst h
          have hpos := encBase_pos bo _ k kv kb hkb
          simp only [List.length_append, zeros_length] at hf hlim
          simp only [depthOfEntries] at hd
          have hfk : ∀ c, nfds = some c → fdsBelow c (.base k) kv = true := fun c hc => by
            have := hfd c hc; simp only [fdsBelowEntries, Bool.and_eq_true] at this; exact this.1.1
          have hfv : ∀ c, nfds = some c → fdsBelow c vt vv = true := fun c hc => by
            have := hfd c hc; simp only [fdsBelowEntries, Bool.and_eq_true] at this; exact this.1.2
          have hfr : ∀ c, nfds = some c → fdsBelowEntries c k vt rest = true := fun c hc => by
            have := hfd c hc; simp only [fdsBelowEntries, Bool.and_eq_true] at this; exact this.2
          match fuel with
          | 0 => omega
          | fuel + 1 =>
            rw [decEntries_succ, if_neg (by omega)]
            simp only [List.append_assoc]
            rw [skipPad_ok pre _ 8 lim off ho (by omega) (by simp only [List.length_append]; omega)]
            simp only []
            have h0 := decBase_encBase' bo k kv (off + padLen 8 off) (pre ++ zeros (padLen 8 off)) kb
              (vb ++ (bs' ++ suf)) nfds lim (by simp [ho]) hkb hfk (by omega)
              (by simp only [List.length_append, zeros_length]; omega)
            simp only [List.append_assoc] at h0
            rw [h0]
            simp only []
            have h1 := hQ vt vv (off + padLen 8 off + kb.length) (pre ++ (zeros (padLen 8 off) ++ kb)) vb
              (bs' ++ suf) lim (by simp [ho]; omega) hvb (by omega) hfv (by omega)
              (by simp only [List.length_append, zeros_length]; omega)
            simp only [List.append_assoc] at h1
            rw [h1]
            simp only []
            have h2 := decEntries_complete bo nfds d hQ k vt rest (off + padLen 8 off + kb.length + vb.length)
              (pre ++ (zeros (padLen 8 off) ++ (kb ++ vb))) bs' suf lim fuel (by simp [ho]; omega) hr
              (by omega) hfr (by omega) (by omega)
            simp only [List.append_assoc] at h2
            rw [h2]
  | .num _ :: _ | .str _ :: _ | .arr _ :: _ | .variant _ _ :: _ => simp [encEntries] at h
  | .struct [] :: _ | .struct [_] :: _ | .struct (_ :: _ :: _ :: _) :: _ => simp [encEntries] at h


theorem complete_base (bo : ByteOrder) (nfds : Option Nat) (d : Nat) (b : Base)
    (v : Val) (off : Nat) (pre bs suf : List UInt8) (lim : Nat) (ho : off = pre.length)
    (h : enc bo off (.base b) v = some bs) (hfd : ∀ c, nfds = some c → fdsBelow c (.base b) v = true)
    (hl : off + bs.length ≤ lim) (hl2 : lim ≤ pre.length + bs.length + suf.length) :
    dec bo (pre ++ (bs ++ suf)) nfds d (.base b) off lim = some (v, off + bs.length) := by
  simp only [enc] at h
  rw [dec_base]
  exact decBase_encBase' bo b v off pre bs suf nfds lim ho h hfd hl hl2

theorem complete_array (bo : ByteOrder) (nfds : Option Nat) (d : Nat) (hQ : Complete bo nfds d) (e : Ty)
    (vs : List Val) (off : Nat) (pre bs suf : List UInt8) (lim : Nat) (ho : off = pre.length)
    (h : enc bo off (.array e) (.arr vs) = some bs) (hd : depthOfList e vs ≤ d)
    (hfd : ∀ c, nfds = some c → fdsBelowList c e vs = true)
    (hl : off + bs.length ≤ lim) (hl2 : lim ≤ pre.length + bs.length + suf.length) :
    dec bo (pre ++ (bs ++ suf)) nfds (d + 1) (.array e) off lim = some (.arr vs, off + bs.length) := by
  simp only [enc] at h
  split at h
  · simp at h
  · rename_i body hb
    split at h
    · rename_i hlen
      simp only [Option.some.injEq] at h; subst h
      rw [dec_array]
      simp only [List.append_assoc]
      simp only [List.length_append, zeros_length, bytesOf_length] at hl hl2 ⊢
      have hm := maxArrayLen_lt
      rw [skipPad_ok pre _ 4 lim off ho (by omega) (by simp only [List.length_append, bytesOf_length, zeros_length]; omega)]
      simp only []
      have h2 := readNum_ok bo (pre ++ zeros (padLen 4 off))
        (zeros (padLen e.align (off + padLen 4 off + 4)) ++ (body ++ suf)) 4 body.length lim
        (off + padLen 4 off) (by simp [ho]) (by omega) (by omega)
        (by simp only [List.length_append, zeros_length]; omega)
      simp only [List.append_assoc] at h2
      rw [h2]
      simp only []
      rw [if_pos hlen]
      have h3 := skipPad_ok (pre ++ (zeros (padLen 4 off) ++ bytesOf bo 4 body.length)) (body ++ suf)
        e.align lim (off + padLen 4 off + 4) (by simp [ho]; omega) (by omega)
        (by simp only [List.length_append, zeros_length, bytesOf_length]; omega)
      simp only [List.append_assoc] at h3
      rw [h3]
      simp only []
      rw [if_pos (by omega)]
      have h4 := decList_complete bo nfds d hQ e vs
        (off + padLen 4 off + 4 + padLen e.align (off + padLen 4 off + 4))
        (pre ++ (zeros (padLen 4 off) ++ (bytesOf bo 4 body.length ++
          zeros (padLen e.align (off + padLen 4 off + 4))))) body suf
        (off + padLen 4 off + 4 + padLen e.align (off + padLen 4 off + 4) + body.length) body.length
        (by simp [ho]; omega) hb hd hfd rfl (Nat.le_refl _)
      simp only [List.append_assoc] at h4
      rw [h4]
      simp only [Option.some.injEq, Prod.mk.injEq, true_and]; omega
    · simp at h

theorem complete_dict (bo : ByteOrder) (nfds : Option Nat) (d : Nat) (hQ : Complete bo nfds d)
    (k : Base) (vt : Ty)
    (es : List Val) (off : Nat) (pre bs suf : List UInt8) (lim : Nat) (ho : off = pre.length)
    (h : enc bo off (.dict k vt) (.arr es) = some bs) (hd : depthOfEntries vt es ≤ d)
    (hfd : ∀ c, nfds = some c → fdsBelowEntries c k vt es = true)
    (hl : off + bs.length ≤ lim) (hl2 : lim ≤ pre.length + bs.length + suf.length) :
    dec bo (pre ++ (bs ++ suf)) nfds (d + 2) (.dict k vt) off lim = some (.arr es, off + bs.length) := by
  simp only [enc] at h
  split at h
  · simp at h
  · rename_i body hb
    split at h
    · rename_i hlen
      simp only [Option.some.injEq] at h; subst h
      rw [dec_dict]
      simp only [List.append_assoc]
      simp only [List.length_append, zeros_length, bytesOf_length] at hl hl2 ⊢
      have hm := maxArrayLen_lt
      rw [skipPad_ok pre _ 4 lim off ho (by omega) (by simp only [List.length_append, bytesOf_length, zeros_length]; omega)]
      simp only []
      have h2 := readNum_ok bo (pre ++ zeros (padLen 4 off))
        (zeros (padLen 8 (off + padLen 4 off + 4)) ++ (body ++ suf)) 4 body.length lim
        (off + padLen 4 off) (by simp [ho]) (by omega) (by omega)
        (by simp only [List.length_append, zeros_length]; omega)
      simp only [List.append_assoc] at h2
      rw [h2]
      simp only []
      rw [if_pos hlen]
      have h3 := skipPad_ok (pre ++ (zeros (padLen 4 off) ++ bytesOf bo 4 body.length)) (body ++ suf)
        8 lim (off + padLen 4 off + 4) (by simp [ho]; omega) (by omega)
        (by simp only [List.length_append, zeros_length, bytesOf_length]; omega)
      simp only [List.append_assoc] at h3
      rw [h3]
      simp only []
      rw [if_pos (by omega)]
      have h4 := decEntries_complete bo nfds d hQ k vt es
        (off + padLen 4 off + 4 + padLen 8 (off + padLen 4 off + 4))
        (pre ++ (zeros (padLen 4 off) ++ (bytesOf bo 4 body.length ++
          zeros (padLen 8 (off + padLen 4 off + 4))))) body suf
        (off + padLen 4 off + 4 + padLen 8 (off + padLen 4 off + 4) + body.length) body.length
        (by simp [ho]; omega) hb hd hfd rfl (Nat.le_refl _)
      simp only [List.append_assoc] at h4
      rw [h4]
      simp only [Option.some.injEq, Prod.mk.injEq, true_and]; omega
    · simp at h

theorem complete_struct (bo : ByteOrder) (nfds : Option Nat) (d : Nat) (hQ : Complete bo nfds d)
    (fs : List Ty)
    (vs : List Val) (off : Nat) (pre bs suf : List UInt8) (lim : Nat) (ho : off = pre.length)
    (h : enc bo off (.struct fs) (.struct vs) = some bs) (hd : depthOfFields fs vs ≤ d)
    (hfd : ∀ c, nfds = some c → fdsBelowFields c fs vs = true)
    (hl : off + bs.length ≤ lim) (hl2 : lim ≤ pre.length + bs.length + suf.length) :
    dec bo (pre ++ (bs ++ suf)) nfds (d + 1) (.struct fs) off lim = some (.struct vs, off + bs.length) := by
  simp only [enc] at h
  split at h
  · simp at h
  · rename_i hne
    split at h
    · simp at h
    · rename_i body hb
      simp only [Option.some.injEq] at h; subst h
      rw [dec_struct, if_neg hne]
      simp only [List.append_assoc]
      simp only [List.length_append, zeros_length] at hl hl2 ⊢
      rw [skipPad_ok pre _ 8 lim off ho (by omega) (by simp only [List.length_append]; omega)]
      simp only []
      have h4 := decFields_complete bo nfds d hQ fs vs (off + padLen 8 off) (pre ++ zeros (padLen 8 off))
        body suf lim (by simp [ho]) hb hd hfd (by omega)
        (by simp only [List.length_append, zeros_length]; omega)
      simp only [List.append_assoc] at h4
      rw [h4]
      simp only [Option.some.injEq, Prod.mk.injEq, true_and]; omega

theorem complete_variant (bo : ByteOrder) (nfds : Option Nat) (d : Nat) (hQ : Complete bo nfds d)
    (t : Ty) (v : Val) (off : Nat) (pre bs suf : List UInt8) (lim : Nat) (ho : off = pre.length)
    (h : enc bo off .variant (.variant t v) = some bs) (hd : depthOf t v ≤ d)
    (hfd : ∀ c, nfds = some c → fdsBelow c t v = true)
    (hl : off + bs.length ≤ lim) (hl2 : lim ≤ pre.length + bs.length + suf.length) :
    dec bo (pre ++ (bs ++ suf)) nfds (d + 1) .variant off lim = some (.variant t v, off + bs.length) := by
  simp only [enc] at h
  split at h
  · rename_i hok
    split at h
    · simp at h
    · rename_i body hb
      simp only [Option.some.injEq] at h; subst h
      have hlen : (sigBytes t).length ≤ 255 := by
        simp only [variantTypeOk, Bool.and_eq_true, decide_eq_true_eq] at hok; exact hok.2
      simp only [List.length_append, List.length_cons] at hl hl2 ⊢
      rw [dec_variant]
      have e2 : pre ++ (UInt8.ofNat (sigBytes t).length :: (sigBytes t ++ 0 :: body) ++ suf) =
          pre ++ (bytesOf bo 1 (sigBytes t).length ++ (sigBytes t ++ ([0] ++ (body ++ suf)))) := by
        rw [bytesOf_one bo _ (by omega)]; simp
      rw [e2]
      rw [readNum_ok bo pre _ 1 (sigBytes t).length lim off ho (by omega) (by omega)
        (by simp only [List.length_append, List.length_cons, List.length_nil]; omega)]
      simp only []
      rw [if_pos (by omega)]
      have h3 := slice_mid (pre ++ bytesOf bo 1 (sigBytes t).length) (sigBytes t) ([0] ++ (body ++ suf))
        (off + 1) (sigBytes t).length (by simp [ho]) rfl
      simp only [List.append_assoc] at h3
      rw [h3]
      have h4 := slice_mid (pre ++ (bytesOf bo 1 (sigBytes t).length ++ sigBytes t)) [0] (body ++ suf)
        (off + 1 + (sigBytes t).length) 1 (by simp [ho]; omega) rfl
      simp only [List.append_assoc] at h4
      rw [h4, if_pos rfl, parse_sigBytes t hok]
      simp only []
      have h5 := hQ t v (off + (sigBytes t).length + 2)
        (pre ++ (bytesOf bo 1 (sigBytes t).length ++ (sigBytes t ++ [0]))) body suf lim
        (by simp [ho]; omega) hb hd hfd (by omega)
        (by simp only [List.length_append, bytesOf_length, List.length_cons, List.length_nil]; omega)
      simp only [List.append_assoc] at h5
      rw [h5]
      simp only [Option.some.injEq, Prod.mk.injEq, true_and]; omega
  · simp at h

theorem complete_all (bo : ByteOrder) (nfds : Option Nat) (d : Nat) : Complete bo nfds d := by
  induction d using Nat.strongRecOn with
  | _ d ih =>
    intro t v off pre bs suf lim ho h hd hfd hl hl2
    match t, v with
    | .base b, v => exact complete_base bo nfds d b v off pre bs suf lim ho h hfd hl hl2
    | .array e, .arr vs =>
      simp only [depthOf] at hd
      simp only [fdsBelow] at hfd
      match d with
      | 0 => omega
      | d + 1 =>
        exact complete_array bo nfds d (ih d (by omega)) e vs off pre bs suf lim ho h (by omega) hfd hl hl2
    | .dict k vt, .arr es =>
      simp only [depthOf] at hd
      simp only [fdsBelow] at hfd
      match d with
      | 0 => omega
      | 1 => omega
      | d + 2 =>
        exact complete_dict bo nfds d (ih d (by omega)) k vt es off pre bs suf lim ho h (by omega) hfd hl hl2
    | .struct fs, .struct vs =>
      simp only [depthOf] at hd
      simp only [fdsBelow] at hfd
      match d with
      | 0 => omega
      | d + 1 =>
        exact complete_struct bo nfds d (ih d (by omega)) fs vs off pre bs suf lim ho h (by omega) hfd hl hl2
    | .variant, .variant t v =>
      simp only [depthOf] at hd
      simp only [fdsBelow] at hfd
      match d with
      | 0 => omega
      | d + 1 =>
        exact complete_variant bo nfds d (ih d (by omega)) t v off pre bs suf lim ho h (by omega) hfd hl hl2
    | .array _, .num _ | .array _, .str _ | .array _, .struct _ | .array _, .variant _ _ => simp [enc] at h
    | .dict _ _, .num _ | .dict _ _, .str _ | .dict _ _, .struct _ | .dict _ _, .variant _ _ => simp [enc] at h
    | .struct _, .num _ | .struct _, .str _ | .struct _, .arr _ | .struct _, .variant _ _ => simp [enc] at h
    | .variant, .num _ | .variant, .str _ | .variant, .arr _ | .variant, .struct _ => simp [enc] at h

end Rustbus.Wire
