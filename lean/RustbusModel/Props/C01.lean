import RustbusModel.Lemmas.Wire
/-!
C01 — Typed values survive marshal→unmarshal unchanged, for every type and position.

`enc` is what the marshallers emit (tied to the code by the correspondence run, C02), `dec` what the
unmarshallers do. The theorems hold for every type of the algebra (arbitrary nesting of arrays, dicts,
structs, variants), every value, both byte orders, every prefix (hence every start offset and every
alignment phase) and every suffix (hence whatever follows is untouched).
-/
namespace Rustbus.Wire
open Rustbus Rustbus.Bytes Rustbus.Spec.Wire

/-- Round trip: a value that was written (`enc … = some bs`) after an arbitrary prefix and followed by
    arbitrary bytes is read back as the same value, and reading consumes exactly the bytes that
    writing produced. -/
theorem roundtrip (bo : ByteOrder) (t : Ty) (v : Val) (pre bs suf : List UInt8) (nfds : Nat)
    (h : enc bo pre.length t v = some bs)
    (hd : depthOf t v ≤ maxDepth) (hfd : fdsBelow nfds t v = true) :
    unmarshal bo (pre ++ (bs ++ suf)) nfds pre.length t = some (v, pre.length + bs.length) := by
  unfold unmarshal
  apply dec_enc bo t v pre bs suf (some nfds) maxDepth _ h hd
  · simpa [fdsOk] using hfd
  · simp only [List.length_append]; omega
  · simp only [List.length_append]; omega

/-- The same through raw validation: it accepts what was written and reports exactly its length. -/
theorem validate_roundtrip (bo : ByteOrder) (t : Ty) (v : Val) (pre bs suf : List UInt8)
    (h : enc bo pre.length t v = some bs) (hd : depthOf t v ≤ maxDepth) :
    validate bo (pre ++ (bs ++ suf)) pre.length t = some bs.length := by
  unfold validate
  have := dec_enc bo t v pre bs suf none maxDepth (pre ++ (bs ++ suf)).length h hd (by simp [fdsOk])
    (by simp only [List.length_append]; omega) (by simp only [List.length_append]; omega)
  rw [this]; simp

/-- Reading never depends on what follows: two buffers that agree up to the end of the value decode alike. -/
theorem suffix_irrelevant (bo : ByteOrder) (t : Ty) (v : Val) (pre bs suf suf' : List UInt8) (nfds : Nat)
    (h : enc bo pre.length t v = some bs) (hd : depthOf t v ≤ maxDepth) (hfd : fdsBelow nfds t v = true) :
    unmarshal bo (pre ++ (bs ++ suf)) nfds pre.length t = unmarshal bo (pre ++ (bs ++ suf')) nfds pre.length t := by
  rw [roundtrip bo t v pre bs suf nfds h hd hfd, roundtrip bo t v pre bs suf' nfds h hd hfd]

private theorem body_aux (bo : ByteOrder) (nfds : Option Nat) :
    ∀ (ts : List Ty) (vs : List Val) (pre bs : List UInt8),
      encFields bo pre.length ts vs = some bs →
      (∀ p ∈ ts.zip vs, depthOf p.1 p.2 ≤ maxDepth ∧ fdsOk nfds p.1 p.2 = true) →
      decBody bo (pre ++ bs) nfds ts pre.length = some vs := by
  intro ts
  induction ts with
  | nil =>
    intro vs pre bs h _
    cases vs with
    | nil =>
      simp only [encFields, Option.some.injEq] at h
      subst h
      simp [decBody]
    | cons v vs => simp [encFields] at h
  | cons t ts ih =>
    intro vs pre bs h hall
    cases vs with
    | nil => simp [encFields] at h
    | cons v vs =>
      simp only [encFields] at h
      cases hb : enc bo pre.length t v with
      | none => simp [hb] at h
      | some b =>
        simp only [hb] at h
        cases hr : encFields bo (pre.length + b.length) ts vs with
        | none => simp [hr] at h
        | some bs' =>
          simp only [hr, Option.some.injEq] at h
          subst h
          have hp := hall (t, v) (by simp)
          have hdec := dec_enc bo t v pre b bs' nfds maxDepth (pre ++ (b ++ bs')).length hb hp.1 hp.2
            (by simp only [List.length_append]; omega) (by simp only [List.length_append]; omega)
          simp only [decBody, hdec]
          have := ih vs (pre ++ b) bs' (by simpa [List.length_append] using hr)
            (fun p hp' => hall p (by simp only [List.zip_cons_cons, List.mem_cons]; exact Or.inr hp'))
          simp only [List.append_assoc, List.length_append] at this
          rw [this]

/-- A whole body: pushing the values one after the other (each at the offset where the previous one
    ended) and then getting them in order with their types returns exactly the values, and all bytes
    are used. -/
theorem body_roundtrip (bo : ByteOrder) (ts : List Ty) (vs : List Val) (bs : List UInt8) (nfds : Nat)
    (h : encFields bo 0 ts vs = some bs)
    (hall : ∀ p ∈ ts.zip vs, depthOf p.1 p.2 ≤ maxDepth ∧ fdsBelow nfds p.1 p.2 = true) :
    decBody bo bs (some nfds) ts 0 = some vs := by
  have := body_aux bo (some nfds) ts vs [] bs (by simpa using h)
    (fun p hp => by simpa [fdsOk] using hall p hp)
  simpa using this

-- non-vacuity: `aat` (array of arrays of u64) at phase 4, big endian, with a prefix and a suffix
def exTy : Ty := .array (.array (.base .u64))
def exVal : Val := .arr [.arr [.num 1, .num 2], .arr [.num 3]]
def exBytes : List UInt8 :=
  [0, 0, 0, 40, 0, 0, 0, 16, 0, 0, 0, 0, 0, 0, 0, 0, 0, 0, 0, 1, 0, 0, 0, 0, 0, 0, 0, 2,
   0, 0, 0, 8, 0, 0, 0, 0, 0, 0, 0, 0, 0, 0, 0, 3]
example : enc .be 4 exTy exVal = some exBytes := by decide +kernel
example : unmarshal .be ([9, 9, 9, 9] ++ (exBytes ++ [0x5a])) 0 4 exTy = some (exVal, 4 + exBytes.length) :=
  roundtrip .be exTy exVal [9, 9, 9, 9] exBytes [0x5a] 0 (by decide +kernel) (by decide +kernel) (by decide +kernel)

end Rustbus.Wire

#print axioms Rustbus.Wire.roundtrip
#print axioms Rustbus.Wire.validate_roundtrip
#print axioms Rustbus.Wire.suffix_irrelevant
#print axioms Rustbus.Wire.body_roundtrip
