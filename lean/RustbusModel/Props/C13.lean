import RustbusModel.Model.Serial
import RustbusModel.Lemmas.Serial
/-!
C13 — Serials are fresh, non-zero and increasing; replies are correlated to their call.
-/
namespace Rustbus.Serial

/-- Invariant used below: all fresh serials handed out so far are below the counter, which is ≥ 1. -/
private theorem run_inv : ∀ (ops : List Op) (c : Conn) (is : List Issued) (c' : Conn),
    1 ≤ c.counter → run c ops = some (is, c') →
    c.counter ≤ c'.counter ∧
    (∀ i ∈ is, i.fresh = true → c.counter ≤ i.serial ∧ i.serial < c'.counter) ∧
    List.Pairwise (fun a b => a.fresh = true → b.fresh = true → a.serial < b.serial) is := by
  intro ops
  induction ops with
  | nil =>
    intro c is c' _ h
    simp only [run, Option.some.injEq, Prod.mk.injEq] at h
    obtain ⟨rfl, rfl⟩ := h
    simp
  | cons op ops ih =>
    intro c is c' hc h
    simp only [run] at h
    cases hs : step c op with
    | none => simp [hs] at h
    | some p =>
      obtain ⟨i, c1⟩ := p
      simp only [hs] at h
      cases hr : run c1 ops with
      | none => simp [hr] at h
      | some q =>
        obtain ⟨is', c2⟩ := q
        simp only [hr, Option.some.injEq, Prod.mk.injEq] at h
        obtain ⟨rfl, rfl⟩ := h
        -- one step
        have hstep : c.counter ≤ c1.counter ∧ 1 ≤ c1.counter ∧
            (i.fresh = true → i.serial = c.counter ∧ c1.counter = c.counter + 1) := by
          cases op with
          | alloc =>
            simp only [step, allocSerial] at hs
            split at hs
            · simp only [Option.map_some, Option.some.injEq, Prod.mk.injEq] at hs
              obtain ⟨rfl, rfl⟩ := hs
              simp
            · simp at hs
          | send p =>
            cases p with
            | some s =>
              simp only [step, sendSerial, Option.map_some, Option.some.injEq, Prod.mk.injEq] at hs
              obtain ⟨rfl, rfl⟩ := hs
              simp; omega
            | none =>
              simp only [step, sendSerial, allocSerial] at hs
              split at hs
              · simp only [Option.map_some, Option.some.injEq, Prod.mk.injEq] at hs
                obtain ⟨rfl, rfl⟩ := hs
                simp
              · simp at hs
        obtain ⟨h1, h2, h3⟩ := hstep
        obtain ⟨g1, g2, g3⟩ := ih c1 is' c2 h2 hr
        refine ⟨by omega, ?_, ?_⟩
        · intro j hj hf
          simp only [List.mem_cons] at hj
          rcases hj with rfl | hj
          · have := h3 hf; omega
          · have := g2 j hj hf; omega
        · rw [List.pairwise_cons]
          refine ⟨?_, g3⟩
          intro b hb hfa hfb
          have := h3 hfa
          have := g2 b hb hfb
          omega

/-- Every serial the connection issues itself (explicit allocation or a send without preset) is
    non-zero and strictly greater than every serial it issued before, for every history of
    alloc / send / preset-send that does not hit the overflow panic. -/
theorem serials_fresh_increasing (ops : List Op) (is : List Issued) (c' : Conn)
    (h : run Conn.init ops = some (is, c')) :
    (∀ i ∈ is, i.fresh = true → 0 < i.serial) ∧
    List.Pairwise (fun a b => a.fresh = true → b.fresh = true → a.serial < b.serial) is := by
  obtain ⟨_, h2, h3⟩ := run_inv ops Conn.init is c' (by simp [Conn.init]) h
  refine ⟨?_, h3⟩
  intro i hi hf
  have := (h2 i hi hf).1
  simp [Conn.init] at this; omega

/-- A message with a preset serial is sent with exactly that serial and does not consume a fresh one. -/
theorem preset_wins (c : Conn) (s : Nat) : sendSerial c (some s) = some (s, c) := rfl

/-- The overflow branch, stated instead of hidden: allocation fails (panics) exactly when the
    counter is `u32::MAX`; below that it returns the counter and increments it. -/
theorem alloc_overflow (c : Conn) :
    (allocSerial c = none ↔ u32Max ≤ c.counter) ∧
    (c.counter < u32Max → allocSerial c = some (c.counter, ⟨c.counter + 1⟩)) := by
  unfold allocSerial
  constructor
  · split <;> simp <;> omega
  · intro h; rw [if_pos (by omega)]

/-- No history shorter than 2^32 - 2 operations can hit the overflow. -/
theorem no_overflow_before (ops : List Op) (h : ops.length + 1 < u32Max) :
    (run Conn.init ops).isSome = true := by
  suffices ∀ (ops : List Op) (c : Conn), c.counter + ops.length < u32Max → (run c ops).isSome = true by
    exact this ops Conn.init (by simp [Conn.init]; omega)
  intro ops
  induction ops with
  | nil => intro c _; simp [run]
  | cons op ops ih =>
    intro c hc
    simp only [List.length_cons] at hc
    have hstep : ∃ i c1, step c op = some (i, c1) ∧ c1.counter ≤ c.counter + 1 := by
      cases op with
      | alloc =>
        refine ⟨⟨c.counter, true⟩, ⟨c.counter + 1⟩, ?_, by simp⟩
        simp [step, allocSerial]; omega
      | send p =>
        cases p with
        | some s => exact ⟨⟨s, false⟩, c, by simp [step, sendSerial], by omega⟩
        | none =>
          refine ⟨⟨c.counter, true⟩, ⟨c.counter + 1⟩, ?_, by simp⟩
          simp [step, sendSerial, allocSerial]; omega
    obtain ⟨i, c1, hs, hle⟩ := hstep
    have := ih c1 (by omega)
    simp only [run, hs]
    cases hr : run c1 ops with
    | none => simp [hr] at this
    | some q => simp

/-- Replies of every kind carry the call's serial as reply serial and its sender as destination. -/
theorem replies_correlated (call : Hdr) (name : List Char) :
    (makeResponse call).replySerial = call.serial ∧ (makeResponse call).destination = call.sender ∧
    (makeErrorResponse call name).replySerial = call.serial ∧
    (makeErrorResponse call name).destination = call.sender ∧
    (makeResponse call).serial = none ∧ (makeErrorResponse call name).serial = none := by
  simp [makeResponse, makeErrorResponse]


/-! ### Suspended and resumed sends (`into_progress` / `resume`), interleaved with explicit allocation -/

/-- Freshness over histories that also suspend, resume and give up sends: every serial the connection issues itself
    — by `alloc_serial`, by a send, or by a send that is suspended before it is transmitted — is non-zero and strictly
    greater than every serial it issued before. In particular the serial of a suspended send is never handed out a
    second time, neither while it is suspended nor after it was given up. -/
theorem serials_fresh_increasing_suspended (ops : List Op2) (es : List Ev) (c' : Conn2)
    (h : run2 Conn2.init ops = some (es, c')) :
    (∀ i ∈ issuedOf es, i.fresh = true → 0 < i.serial) ∧
    List.Pairwise (fun a b => a.fresh = true → b.fresh = true → a.serial < b.serial) (issuedOf es) := by
  obtain ⟨_, h2, h3⟩ := run2_inv ops Conn2.init es c' h
  refine ⟨?_, h3⟩
  intro i hi hf
  have := (h2 i hi hf).1
  simp [Conn2.init, Conn.init] at this; omega

/-- The serial reported to the caller is the serial in the transmitted header, also across a suspension: a send that
    is suspended, followed by any number `n` of explicit allocations, followed by its resumption, puts on the wire
    exactly the serial that `send_message` reported (the preset one if there was one); everything in between are
    fresh serials of the allocations. Holds from every connection state. -/
theorem resumed_send_carries_reported_serial (c : Conn2) (p : Option Nat) (n : Nat) (es : List Ev) (c' : Conn2)
    (h : run2 c (.begin p :: (List.replicate n (.base .alloc) ++ [.resume])) = some (es, c')) :
    ∃ s mid, es = .issued ⟨s, p.isNone⟩ :: (mid ++ [.wire s]) ∧ (∀ q, p = some q → s = q) ∧
      (∀ e ∈ mid, ∃ i, e = .issued i ∧ i.fresh = true) ∧ c'.pending = none := by
  simp only [run2] at h
  cases hs : step2 c (.begin p) with
  | none => simp [hs] at h
  | some r =>
    obtain ⟨es0, c1⟩ := r
    simp only [hs] at h
    -- the begin step
    have hb : ∃ s, es0 = [.issued ⟨s, p.isNone⟩] ∧ c1.pending = some s ∧ (∀ q, p = some q → s = q) := by
      simp only [step2] at hs
      cases hp : c.pending with
      | some s => simp [hp] at hs
      | none =>
        simp only [hp] at hs
        cases hq : sendSerial c.conn p with
        | none => simp [hq] at hs
        | some w =>
          obtain ⟨s, k⟩ := w
          simp only [hq, Option.map_some, Option.some.injEq, Prod.mk.injEq] at hs
          obtain ⟨rfl, rfl⟩ := hs
          refine ⟨s, rfl, rfl, ?_⟩
          intro q hq'
          subst hq'
          simp only [sendSerial, Option.some.injEq, Prod.mk.injEq] at hq
          exact hq.1.symm
    obtain ⟨s, rfl, hpend, hpre⟩ := hb
    rw [run2_append] at h
    cases ha : run2 c1 (List.replicate n (.base .alloc)) with
    | none => simp [ha] at h
    | some w =>
      obtain ⟨mid, c2⟩ := w
      simp only [ha] at h
      obtain ⟨k1, k2⟩ := run2_allocs n c1 mid c2 ha
      have hp2 : c2.pending = some s := by rw [k1, hpend]
      simp only [run2, step2, hp2, List.append_nil, Option.some.injEq, Prod.mk.injEq] at h
      obtain ⟨rfl, rfl⟩ := h
      exact ⟨s, mid, by simp, hpre, k2, rfl⟩

/-- Histories compose: what happens after a prefix depends only on the state the prefix left, so the two theorems
    above apply at any point of any longer history. -/
theorem histories_compose (c : Conn2) (xs ys : List Op2) (es : List Ev) (c' : Conn2)
    (h : run2 c (xs ++ ys) = some (es, c')) :
    ∃ es1 c1 es2, run2 c xs = some (es1, c1) ∧ run2 c1 ys = some (es2, c') ∧ es = es1 ++ es2 := by
  rw [run2_append] at h
  cases h1 : run2 c xs with
  | none => simp [h1] at h
  | some q =>
    obtain ⟨es1, c1⟩ := q
    simp only [h1] at h
    cases h2 : run2 c1 ys with
    | none => simp [h2] at h
    | some r =>
      obtain ⟨es2, c2⟩ := r
      simp only [h2, Option.some.injEq, Prod.mk.injEq] at h
      obtain ⟨rfl, rfl⟩ := h
      exact ⟨es1, c1, es2, rfl, h2, rfl⟩

/-- An unsuspended send reports and transmits the same serial. -/
theorem send_reports_wire_serial (c : Conn2) (p : Option Nat) (es : List Ev) (c' : Conn2)
    (h : step2 c (.base (.send p)) = some (es, c')) :
    ∃ s, es = [.issued ⟨s, p.isNone⟩, .wire s] ∧ (∀ q, p = some q → s = q) := by
  simp only [step2] at h
  cases hp : c.pending with
  | some s => simp [hp] at h
  | none =>
    simp only [hp] at h
    cases hq : sendSerial c.conn p with
    | none => simp [hq] at h
    | some w =>
      obtain ⟨s, k⟩ := w
      simp only [hq, Option.map_some, Option.some.injEq, Prod.mk.injEq] at h
      obtain ⟨rfl, rfl⟩ := h
      refine ⟨s, rfl, ?_⟩
      intro q hq'
      subst hq'
      simp only [sendSerial, Option.some.injEq, Prod.mk.injEq] at hq
      exact hq.1.symm

-- non-vacuity: suspend (serial 2), allocate twice (3, 4), resume (2 on the wire), send (5); give one up (6), send (7)
example : (run2 Conn2.init [.base (.send none), .begin none, .base .alloc, .base .alloc, .resume, .base (.send none),
      .begin none, .abandon, .base (.send none)]).map (·.1) =
    some [.issued ⟨1, true⟩, .wire 1, .issued ⟨2, true⟩, .issued ⟨3, true⟩, .issued ⟨4, true⟩, .wire 2,
      .issued ⟨5, true⟩, .wire 5, .issued ⟨6, true⟩, .issued ⟨7, true⟩, .wire 7] := by decide


/-- `send_hello` matches the caller with the right answer: it reports a unique name only if the message it read carries,
    as reply serial, exactly the serial the Hello was sent with — a fresh serial of this connection — and the name is the
    string in that message; a message with any other (or no) reply serial is never taken for the answer. -/
theorem hello_correlated (c : Conn) (a : Arrival) (s : Nat) (r : HelloRes) (c' : Conn)
    (h : sendHello c a = some (s, r, c')) :
    s = c.counter ∧ c'.counter = c.counter + 1 ∧
    (∀ n, r = .name n ↔ (a.replySerial = some s ∧ a.bodyString = some n)) ∧
    (r = .notTheAnswer ↔ a.replySerial ≠ some s) := by
  unfold sendHello allocSerial at h
  split at h
  · simp at h
  · rename_i s0 c0 heq
    split at heq
    · simp only [Option.some.injEq, Prod.mk.injEq] at heq
      obtain ⟨rfl, rfl⟩ := heq
      by_cases hrs : a.replySerial = some c.counter
      · simp only [hrs, ne_eq, not_true_eq_false, ↓reduceIte] at h
        cases hb : a.bodyString with
        | none =>
          simp only [hb, Option.some.injEq, Prod.mk.injEq] at h
          obtain ⟨rfl, rfl, rfl⟩ := h
          simp [hrs]
        | some n =>
          simp only [hb, Option.some.injEq, Prod.mk.injEq] at h
          obtain ⟨rfl, rfl, rfl⟩ := h
          simp [hrs]
      · simp only [ne_eq, hrs, not_false_eq_true, ↓reduceIte, Option.some.injEq, Prod.mk.injEq] at h
        obtain ⟨rfl, rfl, rfl⟩ := h
        simp [hrs]
    · simp at heq

example : sendHello ⟨5⟩ ⟨some 5, some ":1.7".toList⟩ = some (5, .name ":1.7".toList, ⟨6⟩) := by decide
example : sendHello ⟨5⟩ ⟨some 4, some ":1.7".toList⟩ = some (5, .notTheAnswer, ⟨6⟩) := by decide

-- non-vacuity: a concrete history with presets in between
example : (run Conn.init [.send none, .alloc, .send (some 7), .send none]).map (·.1.map (·.serial)) =
    some [1, 2, 7, 3] := by decide

end Rustbus.Serial

#print axioms Rustbus.Serial.serials_fresh_increasing
#print axioms Rustbus.Serial.preset_wins
#print axioms Rustbus.Serial.alloc_overflow
#print axioms Rustbus.Serial.no_overflow_before
#print axioms Rustbus.Serial.replies_correlated
#print axioms Rustbus.Serial.serials_fresh_increasing_suspended
#print axioms Rustbus.Serial.resumed_send_carries_reported_serial
#print axioms Rustbus.Serial.histories_compose
#print axioms Rustbus.Serial.send_reports_wire_serial
#print axioms Rustbus.Serial.hello_correlated
