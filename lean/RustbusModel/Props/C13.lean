import RustbusModel.Model.Serial
/-!
C13 — Serials are fresh, non-zero and increasing; replies are correlated to their call.
-/
namespace Rustbus.Serial

/-- Invariant used below: all fresh serials handed out so far are below the counter, which is ≥ 1. -/
private theorem run_inv : ∀ (ops : List Op) (c : Conn) (is : List Issued) (c' : Conn),
    1 ≤ c.counter → run c ops = some (is, c') →
    c.counter ≤ c'.counter ∧
    (∀ i ∈ is, i.fresh = true → c.counter ≤ i.serial ∧ i.serial < c'.counter) ∧
    List.Pairwise (fun a b => a.fresh = true → b.fresh = true → a.serial < b.serial) is := by
  intro ops
  induction ops with
  | nil =>
    intro c is c' _ h
    simp only [run, Option.some.injEq, Prod.mk.injEq] at h
    obtain ⟨rfl, rfl⟩ := h
    simp
  | cons op ops ih =>
    intro c is c' hc h
    simp only [run] at h
    cases hs : step c op with
    | none => simp [hs] at h
    | some p =>
      obtain ⟨i, c1⟩ := p
      simp only [hs] at h
      cases hr : run c1 ops with
      | none => simp [hr] at h
      | some q =>
        obtain ⟨is', c2⟩ := q
        simp only [hr, Option.some.injEq, Prod.mk.injEq] at h
        obtain ⟨rfl, rfl⟩ := h
        -- one step
        have hstep : c.counter ≤ c1.counter ∧ 1 ≤ c1.counter ∧
            (i.fresh = true → i.serial = c.counter ∧ c1.counter = c.counter + 1) := by
          cases op with
          | alloc =>
            simp only [step, allocSerial] at hs
            split at hs
            · simp only [Option.map_some, Option.some.injEq, Prod.mk.injEq] at hs
              obtain ⟨rfl, rfl⟩ := hs
              simp
            · simp at hs
          | send p =>
            cases p with
            | some s =>
              simp only [step, sendSerial, Option.map_some, Option.some.injEq, Prod.mk.injEq] at hs
              obtain ⟨rfl, rfl⟩ := hs
              simp; omega
            | none =>
              simp only [step, sendSerial, allocSerial] at hs
              split at hs
              · simp only [Option.map_some, Option.some.injEq, Prod.mk.injEq] at hs
                obtain ⟨rfl, rfl⟩ := hs
                simp
              · simp at hs
        obtain ⟨h1, h2, h3⟩ := hstep
        obtain ⟨g1, g2, g3⟩ := ih c1 is' c2 h2 hr
        refine ⟨by omega, ?_, ?_⟩
        · intro j hj hf
          simp only [List.mem_cons] at hj
          rcases hj with rfl | hj
          · have := h3 hf; omega
          · have := g2 j hj hf; omega
        · rw [List.pairwise_cons]
          refine ⟨?_, g3⟩
          intro b hb hfa hfb
          have := h3 hfa
          have := g2 b hb hfb
          omega

/-- Every serial the connection issues itself (explicit allocation or a send without preset) is
    non-zero and strictly greater than every serial it issued before, for every history of
    alloc / send / preset-send that does not hit the overflow panic. -/
theorem serials_fresh_increasing (ops : List Op) (is : List Issued) (c' : Conn)
    (h : run Conn.init ops = some (is, c')) :
    (∀ i ∈ is, i.fresh = true → 0 < i.serial) ∧
    List.Pairwise (fun a b => a.fresh = true → b.fresh = true → a.serial < b.serial) is := by
  obtain ⟨_, h2, h3⟩ := run_inv ops Conn.init is c' (by simp [Conn.init]) h
  refine ⟨?_, h3⟩
  intro i hi hf
  have := (h2 i hi hf).1
  simp [Conn.init] at this; omega

/-- A message with a preset serial is sent with exactly that serial and does not consume a fresh one. -/
theorem preset_wins (c : Conn) (s : Nat) : sendSerial c (some s) = some (s, c) := rfl

/-- The overflow branch, stated instead of hidden: allocation fails (panics) exactly when the
    counter is `u32::MAX`; below that it returns the counter and increments it. -/
theorem alloc_overflow (c : Conn) :
    (allocSerial c = none ↔ u32Max ≤ c.counter) ∧
    (c.counter < u32Max → allocSerial c = some (c.counter, ⟨c.counter + 1⟩)) := by
  unfold allocSerial
  constructor
  · split <;> simp <;> omega
  · intro h; rw [if_pos (by omega)]

/-- No history shorter than 2^32 - 2 operations can hit the overflow. -/
theorem no_overflow_before (ops : List Op) (h : ops.length + 1 < u32Max) :
    (run Conn.init ops).isSome = true := by
  suffices ∀ (ops : List Op) (c : Conn), c.counter + ops.length < u32Max → (run c ops).isSome = true by
    exact this ops Conn.init (by simp [Conn.init]; omega)
  intro ops
  induction ops with
  | nil => intro c _; simp [run]
  | cons op ops ih =>
    intro c hc
    simp only [List.length_cons] at hc
    have hstep : ∃ i c1, step c op = some (i, c1) ∧ c1.counter ≤ c.counter + 1 := by
      cases op with
      | alloc =>
        refine ⟨⟨c.counter, true⟩, ⟨c.counter + 1⟩, ?_, by simp⟩
        simp [step, allocSerial]; omega
      | send p =>
        cases p with
        | some s => exact ⟨⟨s, false⟩, c, by simp [step, sendSerial], by omega⟩
        | none =>
          refine ⟨⟨c.counter, true⟩, ⟨c.counter + 1⟩, ?_, by simp⟩
          simp [step, sendSerial, allocSerial]; omega
    obtain ⟨i, c1, hs, hle⟩ := hstep
    have := ih c1 (by omega)
    simp only [run, hs]
    cases hr : run c1 ops with
    | none => simp [hr] at this
    | some q => simp

/-- Replies of every kind carry the call's serial as reply serial and its sender as destination. -/
theorem replies_correlated (call : Hdr) (name : List Char) :
    (makeResponse call).replySerial = call.serial ∧ (makeResponse call).destination = call.sender ∧
    (makeErrorResponse call name).replySerial = call.serial ∧
    (makeErrorResponse call name).destination = call.sender ∧
    (makeResponse call).serial = none ∧ (makeErrorResponse call name).serial = none := by
  simp [makeResponse, makeErrorResponse]

-- non-vacuity: a concrete history with presets in between
example : (run Conn.init [.send none, .alloc, .send (some 7), .send none]).map (·.1.map (·.serial)) =
    some [1, 2, 7, 3] := by decide

end Rustbus.Serial

#print axioms Rustbus.Serial.serials_fresh_increasing
#print axioms Rustbus.Serial.preset_wins
#print axioms Rustbus.Serial.alloc_overflow
#print axioms Rustbus.Serial.no_overflow_before
#print axioms Rustbus.Serial.replies_correlated
