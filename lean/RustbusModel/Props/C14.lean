import RustbusModel.Lemmas.RpcRun
import RustbusModel.Lemmas.RpcAvail
/-!
C14 — RpcConn delivers every accepted message exactly once to the right consumer.

A history is a finite list of operations `Op`: the peer writes a message (`arrive m`) or the client
calls `try_get_* / wait_* / refill_once / refill_all`, in any interleaving. Every message carries
the verdict of the filter on it (`accepted`), so "for all filters" is "for all taggings".
`run State.init ops = some (tr, st)`: the history ran (no `unwrap()` panic, see `no_panic`) with
trace `tr` (operation, observation) and final state `st`. All theorems hold for ALL histories of
ANY length; the hypothesis on arrivals is the one of the property (distinct reply serials), plus
`UniqueIds` where the statement talks about "the same arrival twice".

Vocabulary (Spec/Rpc.lean): `arrivals ops` what the peer wrote; `events tr` every delivery with
the consumer it went to; `handed tr` the delivered messages; `handedTo k tr` those of one consumer;
`returned tr` the error replies returned by `refill_all`; `queued st` what is still stored;
`st.wire` what is still in the socket; `st.sent` the error replies written to the peer.
-/
namespace Rustbus.Rpc

/-- Refinement: after any history from a fresh `RpcConn`, with `c` = the arrivals read from the
    socket so far (`arrivals ops = c ++ st.wire`), the concrete state represents the three abstract
    queues of `c` and the owed error replies (`Refines`): accepted signals of `c` = delivered to the
    signal consumer ++ `st.signals` (in order), the same for calls, accepted replies/errors of `c` =
    delivered to response waiters ++ stored in `st.responses` (as multisets; stored under, and
    delivered under, their reply serial), one unknown-method error per rejected call of `c` =
    `st.sent` ++ returned by `refill_all` (as multisets). -/
theorem refinement (ops : List Op) (tr : List (Op × Obs)) (st : State)
    (hd : DistinctReplySerials (arrivals ops)) (hr : run State.init ops = some (tr, st)) :
    ∃ c, arrivals ops = c ++ st.wire ∧ Refines c (events tr) (returned tr) st := by
  obtain ⟨c, h1, h2⟩ := refines_run ops refines_init (by simpa [State.init] using hd) hr
  exact ⟨c, by simpa [State.init] using h1, by simpa using h2⟩

/-- Step commutation behind `refinement`: from ANY state that represents abstract queues, one
    operation moves some arrivals from the socket to "consumed", appends its deliveries and
    returned errors, and the new state represents the new abstract queues. -/
theorem refinement_step (c : List Msg) (evs : List (Consumer × Msg)) (ret : List ErrReply)
    (st st' : State) (op : Op) (obs : Obs) (h : Refines c evs ret st)
    (hd : DistinctReplySerials (c ++ st.wire ++ arrivals [op])) (hs : step st op = some (obs, st')) :
    ∃ c', c ++ st.wire ++ arrivals [op] = c' ++ st'.wire ∧
      Refines c' (evs ++ deliveredOf (op, obs)) (ret ++ returnedOf (op, obs)) st' :=
  refines_step h hd hs

/-- Exactly once + conservation: every message handed out by any try/wait operation is an accepted
    arrival; no arrival is handed out twice; the accepted arrivals are, as a multiset, exactly
    {handed out} + {still stored in signals/calls/responses} + {accepted ones still in the socket};
    and these three parts are pairwise disjoint (no tag occurs twice in their concatenation). -/
theorem exactly_once (ops : List Op) (tr : List (Op × Obs)) (st : State)
    (hu : UniqueIds (arrivals ops)) (hd : DistinctReplySerials (arrivals ops))
    (hr : run State.init ops = some (tr, st)) :
    (∀ m ∈ handed tr, m ∈ arrivals ops ∧ m.accepted = true) ∧
    ((handed tr).map (·.id)).Nodup ∧
    ((arrivals ops).filter (·.accepted)).Perm
      (handed tr ++ queued st ++ st.wire.filter (·.accepted)) ∧
    ((handed tr ++ queued st ++ st.wire).map (·.id)).Nodup := by
  obtain ⟨c, hc, href⟩ := refinement ops tr st hd hr
  have hcons : (c.filter (·.accepted)).Perm (handed tr ++ queued st) := refines_conservation href
  have hall : ((handed tr ++ queued st ++ st.wire).map (·.id)).Nodup := by
    have hp : (handed tr ++ queued st ++ st.wire).Perm (c.filter (·.accepted) ++ st.wire) :=
      List.Perm.append_right _ hcons.symm
    rw [(hp.map (·.id)).nodup_iff]
    have hsub : (c.filter (·.accepted) ++ st.wire).Sublist (arrivals ops) := by
      rw [hc]
      exact List.Sublist.append List.filter_sublist (List.Sublist.refl _)
    have hu' : ((arrivals ops).map (fun m => m.id)).Nodup := hu
    exact (hsub.map (fun m => m.id)).nodup hu'
  refine ⟨?_, ?_, ?_, hall⟩
  · intro m hm
    have : m ∈ c.filter (·.accepted) := hcons.mem_iff.mpr (List.mem_append_left _ hm)
    rw [List.mem_filter] at this
    exact ⟨by rw [hc]; exact List.mem_append_left _ this.1, this.2⟩
  · have hsub : (handed tr).Sublist (handed tr ++ queued st ++ st.wire) := by
      rw [List.append_assoc]
      exact List.sublist_append_left _ _
    exact (hsub.map (·.id)).nodup hall
  · rw [hc, List.filter_append]
    exact List.Perm.append_right _ hcons

/-- Right consumer, by consumer: whatever `try_get_signal`/`wait_signal` hands out is an accepted
    signal, whatever `try_get_call`/`wait_call` hands out is an accepted call, and whatever
    `try_get_response(s)`/`wait_response(s)` hands out is an accepted reply or error whose reply
    serial is `s`. -/
theorem right_consumer (ops : List Op) (tr : List (Op × Obs)) (st : State)
    (hd : DistinctReplySerials (arrivals ops)) (hr : run State.init ops = some (tr, st)) :
    ∀ e ∈ events tr,
      match e.1 with
      | .signal => accSignal e.2 = true
      | .call => accCall e.2 = true
      | .response s => accResp e.2 = true ∧ e.2.replySerial = some s := by
  obtain ⟨c, _, href⟩ := refinement ops tr st hd hr
  intro e he
  obtain ⟨k, m⟩ := e
  cases k with
  | signal =>
    have h1 : m ∈ toConsumer .signal (events tr) :=
      List.mem_map.mpr ⟨(.signal, m), List.mem_filter.mpr ⟨he, by simp⟩, rfl⟩
    have h2 : m ∈ sigQueue c := by rw [href.signals]; exact List.mem_append_left _ h1
    exact (List.mem_filter.mp h2).2
  | call =>
    have h1 : m ∈ toConsumer .call (events tr) :=
      List.mem_map.mpr ⟨(.call, m), List.mem_filter.mpr ⟨he, by simp⟩, rfl⟩
    have h2 : m ∈ callQueue c := by rw [href.calls]; exact List.mem_append_left _ h1
    exact (List.mem_filter.mp h2).2
  | response s =>
    have h1 : m ∈ toResponders (events tr) :=
      List.mem_map.mpr ⟨(.response s, m), List.mem_filter.mpr ⟨he, by simp [isRespConsumer]⟩, rfl⟩
    have h2 : m ∈ respSet c := href.responses.mem_iff.mpr (List.mem_append_left _ h1)
    exact ⟨(List.mem_filter.mp h2).2, href.underSerial _ he s rfl⟩

/-- Right consumer, by message kind: a signal is only ever returned by `try_get_signal`/`wait_signal`,
    a call only by `try_get_call`/`wait_call`, a reply or error only by
    `try_get_response(s)`/`wait_response(s)` with `s` = its reply serial. -/
theorem right_consumer_by_kind (ops : List Op) (tr : List (Op × Obs)) (st : State)
    (hd : DistinctReplySerials (arrivals ops)) (hr : run State.init ops = some (tr, st)) :
    ∀ k m, (k, m) ∈ events tr →
      (isSignal m = true → k = .signal) ∧ (isCall m = true → k = .call) ∧
      (isResp m = true → ∃ s, k = .response s ∧ m.replySerial = some s) := by
  intro k m he
  have h := right_consumer ops tr st hd hr (k, m) he
  cases k with
  | signal =>
    simp only [accSignal, Bool.and_eq_true] at h
    have ht := h.2
    unfold isSignal at ht
    refine ⟨fun _ => rfl, ?_, ?_⟩ <;> intro h' <;> simp only [isCall, isResp] at h' <;>
      split at ht <;> simp_all
  | call =>
    simp only [accCall, Bool.and_eq_true] at h
    have ht := h.2
    unfold isCall at ht
    refine ⟨?_, fun _ => rfl, ?_⟩ <;> intro h' <;> simp only [isSignal, isResp] at h' <;>
      split at ht <;> simp_all
  | response s =>
    simp only [accResp, Bool.and_eq_true] at h
    have ht := h.1.2
    unfold isResp at ht
    refine ⟨?_, ?_, fun _ => ⟨s, rfl, h.2⟩⟩ <;> intro h' <;> simp only [isSignal, isCall] at h' <;>
      split at ht <;> simp_all

/-- The message returned for serial `s` is THE accepted reply/error of the history that answers
    `s` (the abstract partial map reply serial ↦ message, looked up at `s`). -/
theorem response_is_the_reply (ops : List Op) (tr : List (Op × Obs)) (st : State)
    (hd : DistinctReplySerials (arrivals ops)) (hr : run State.init ops = some (tr, st))
    (s : Nat) (m : Msg) (he : (Consumer.response s, m) ∈ events tr) :
    respMap (arrivals ops) s = some m := by
  have h := right_consumer ops tr st hd hr _ he
  simp only at h
  obtain ⟨c, hc, href⟩ := refinement ops tr st hd hr
  have h1 : m ∈ toResponders (events tr) :=
    List.mem_map.mpr ⟨(.response s, m), List.mem_filter.mpr ⟨he, by simp [isRespConsumer]⟩, rfl⟩
  have h2 : m ∈ respSet c := href.responses.mem_iff.mpr (List.mem_append_left _ h1)
  have h3 : m ∈ arrivals ops := by rw [hc]; exact List.mem_append_left _ (List.mem_filter.mp h2).1
  exact respMap_of_mem _ m s hd h3 h.1 h.2

/-- FIFO: the accepted signals of the history, in arrival order, are exactly: those handed out by
    `try_get_signal`/`wait_signal` (in the order they were handed out), then those still in
    `signals`, then those still in the socket. In particular the handed-out sequence is a prefix of
    the accepted-arrival sequence. The same for calls. -/
theorem fifo (ops : List Op) (tr : List (Op × Obs)) (st : State)
    (hd : DistinctReplySerials (arrivals ops)) (hr : run State.init ops = some (tr, st)) :
    sigQueue (arrivals ops) = handedTo .signal tr ++ st.signals ++ sigQueue st.wire ∧
    callQueue (arrivals ops) = handedTo .call tr ++ st.calls ++ callQueue st.wire ∧
    handedTo .signal tr <+: sigQueue (arrivals ops) ∧
    handedTo .call tr <+: callQueue (arrivals ops) := by
  obtain ⟨c, hc, href⟩ := refinement ops tr st hd hr
  have h1 : sigQueue (arrivals ops) = handedTo .signal tr ++ st.signals ++ sigQueue st.wire := by
    rw [hc, sigQueue_append, href.signals]; rfl
  have h2 : callQueue (arrivals ops) = handedTo .call tr ++ st.calls ++ callQueue st.wire := by
    rw [hc, callQueue_append, href.calls]; rfl
  refine ⟨h1, h2, ?_, ?_⟩
  · rw [h1, List.append_assoc]; exact List.prefix_append _ _
  · rw [h2, List.append_assoc]; exact List.prefix_append _ _

/-- A message the filter rejects is never handed out, by any operation. -/
theorem rejected_never_delivered (ops : List Op) (tr : List (Op × Obs)) (st : State)
    (hd : DistinctReplySerials (arrivals ops)) (hr : run State.init ops = some (tr, st)) :
    ∀ m, m.accepted = false → m ∉ handed tr := by
  intro m hacc hm
  obtain ⟨c, _, href⟩ := refinement ops tr st hd hr
  have : m ∈ c.filter (·.accepted) :=
    (refines_conservation href).mem_iff.mpr (List.mem_append_left _ hm)
  rw [List.mem_filter] at this
  simp [hacc] at this

/-- Rejected calls are answered exactly once: with `c` = the arrivals read so far (no longer in the
    socket), the error replies produced — written to the peer (`st.sent`) or returned by
    `refill_all` (`returned tr`) — are, as a multiset, exactly one unknown-method error per rejected
    call in `c`, carrying that call's serial as reply serial and its sender as destination.
    Hence: none for any other message, never two for the same call, as many errors as rejected
    calls read. -/
theorem rejected_call_answered_once (ops : List Op) (tr : List (Op × Obs)) (st : State)
    (hd : DistinctReplySerials (arrivals ops)) (hr : run State.init ops = some (tr, st)) :
    ∃ c, arrivals ops = c ++ st.wire ∧
      (st.sent ++ returned tr).Perm ((c.filter rejCall).map (fun call =>
        { replySerial := call.serial, dest := call.sender,
          errorName := "org.freedesktop.DBus.Error.UnknownMethod".toList : ErrReply })) ∧
      (st.sent ++ returned tr).length = (c.filter rejCall).length ∧
      (∀ e ∈ st.sent ++ returned tr, ∃ call ∈ c, call.accepted = false ∧ call.typ = .call ∧
        e.replySerial = call.serial ∧ e.dest = call.sender) := by
  obtain ⟨c, hc, href⟩ := refinement ops tr st hd hr
  have hp : (st.sent ++ returned tr).Perm ((c.filter rejCall).map unknownMethod) := href.errors.symm
  refine ⟨c, hc, hp, ?_, ?_⟩
  · rw [hp.length_eq, List.length_map]
  · intro e he
    have := hp.mem_iff.mp he
    obtain ⟨call, hcall, rfl⟩ := List.mem_map.mp this
    rw [List.mem_filter] at hcall
    obtain ⟨h1, h2⟩ := hcall
    simp only [rejCall, Bool.and_eq_true, Bool.not_eq_true'] at h2
    refine ⟨call, h1, h2.1, ?_, rfl, rfl⟩
    have := h2.2
    unfold isCall at this
    split at this <;> simp_all

/-- The explicit precondition instead of a silent totalisation: if every reply and error that
    arrives carries a reply serial (what header validation, C06, guarantees for every message that
    `get_next_message` returns), no history reaches the `response_serial.unwrap()` panic. -/
theorem no_panic (ops : List Op) (hw : WellFormed (arrivals ops)) :
    (run State.init ops).isSome = true :=
  run_isSome ops State.init (by simpa [State.init] using hw)

/-- …and without that precondition the panic is reachable (the model does not hide it): an accepted
    reply without REPLY_SERIAL kills `refill_once`. -/
theorem panic_reachable :
    run State.init [.arrive ⟨1, .reply, 7, none, none, true⟩, .refillOnce] = none := by
  decide

/-- The wait loops' fuel (`wire.length + 1` iterations) is enough: a wait reports "would block"
    only when it has read everything that was in the socket. -/
theorem wait_blocked_only_when_drained (st st' : State) (k : Consumer)
    (h : wait st k = some (none, st')) : st'.wire = [] :=
  waitLoop_blocked_drained k _ st st' (Nat.lt_succ_self _) h

/-- **Availability.** A message that is already stored for a consumer - the oldest signal, the oldest call, the reply or
    error filed under the serial asked for - is handed out by the very next `try_get_*` / `wait_*` of that consumer:
    without reading the socket, without writing anything, whatever else is stored or queued. -/
theorem stored_message_is_returned (st : State) (k : Consumer) (m : Msg) (h : stored st k = some m) :
    (tryGet st k).1 = some m ∧ wait st k = some (some m, (tryGet st k).2) ∧
    (tryGet st k).2.wire = st.wire ∧ (tryGet st k).2.sent = st.sent := by
  have ht : (tryGet st k).1 = some m := by rw [tryGet_is_stored, h]
  refine ⟨ht, ?_, ?_, ?_⟩
  · unfold wait
    simp only [waitLoop]
    cases hh : tryGet st k with
    | mk r st' =>
      rw [hh] at ht
      simp only at ht
      subst ht
      rfl
  · cases k <;> simp only [tryGet] <;> split <;> rfl
  · cases k <;> simp only [tryGet] <;> split <;> rfl

/-- **A blocked wait means absence.** A `wait_*` that reports "would block" has read everything that was in the socket
    (`wait_blocked_only_when_drained`) and nothing for its consumer is stored: the message it waits for has not arrived, or
    was rejected by the filter. -/
theorem blocked_wait_means_absent (st st' : State) (k : Consumer) (h : wait st k = some (none, st')) :
    stored st' k = none ∧ st'.wire = [] :=
  ⟨waitLoop_blocked_absent k _ st st' (Nat.lt_succ_self _) h, wait_blocked_only_when_drained st st' k h⟩

-- non-vacuity: a reply filed under serial 5 next to another one and a queued signal
def exStored : State :=
  State.mk [] [] [(6, Msg.mk 4 .error 13 (some 6) none true), (5, Msg.mk 3 .reply 12 (some 5) none true)]
    [Msg.mk 1 .signal 10 none none true] []
example : stored exStored (.response 5) = some (Msg.mk 3 .reply 12 (some 5) none true) := by decide

/-! ### non-vacuity: a concrete mixed history -/

section Examples

private def sig1 : Msg := ⟨1, .signal, 10, none, some ":1.7".toList, true⟩
private def callR : Msg := ⟨2, .call, 11, none, some ":1.8".toList, false⟩
private def rep5 : Msg := ⟨3, .reply, 12, some 5, some ":1.9".toList, true⟩
private def err6 : Msg := ⟨4, .error, 13, some 6, none, true⟩
private def sigR : Msg := ⟨5, .signal, 14, none, some ":1.7".toList, false⟩
private def callA : Msg := ⟨6, .call, 15, none, some ":1.8".toList, true⟩
private def callR2 : Msg := ⟨7, .call, 16, none, none, false⟩
private def repR : Msg := ⟨8, .reply, 17, some 9, none, false⟩
private def sig3 : Msg := ⟨9, .signal, 18, none, none, true⟩
private def callR3 : Msg := ⟨10, .call, 19, none, some ":1.8".toList, false⟩

private def hist : List Op :=
  [.arrive sig1, .arrive callR, .arrive rep5, .tryResponse 5, .waitResponse 5,
   .arrive err6, .arrive sigR, .arrive callA, .arrive callR2, .arrive repR, .refillAll,
   .trySignal, .trySignal, .waitCall, .tryResponse 6, .tryResponse 9, .refillOnce, .arrive sig3,
   .waitCall, .tryCall, .arrive callR3, .refillOnce]

/-- what the history does: the reply is not there before the socket is read; `wait_response(5)`
    reads past the signal and the rejected call (which is answered at once) up to the reply;
    `refill_all` returns the error for the second rejected call; the rejected reply and signal
    vanish; `wait_call` with nothing to come reads the late signal and blocks. -/
example : (run State.init hist).map (fun r => (r.1.map (·.2), r.2)) = some
    ([.arrived, .arrived, .arrived, .tried none, .got rep5,
      .arrived, .arrived, .arrived, .arrived, .arrived, .drained [unknownMethod callR2],
      .tried (some sig1), .tried none, .got callA, .tried (some err6), .tried none, .timedOut, .arrived,
      .blocked, .tried none, .arrived, .refilled .call],
     { signals := [sig3], calls := [], responses := [], wire := [],
       sent := [unknownMethod callR, unknownMethod callR3] }) := by
  decide +kernel

example : UniqueIds (arrivals hist) := by unfold UniqueIds; decide +kernel
example : WellFormed (arrivals hist) := by
  intro m hm; simp [arrivals, hist] at hm
  rcases hm with rfl | rfl | rfl | rfl | rfl | rfl | rfl | rfl | rfl | rfl <;> decide
example : DistinctReplySerials (arrivals hist) := by
  simp [DistinctReplySerials, arrivals, hist, isResp, sig1, callR, rep5, err6, sigR, callA, callR2, repR, sig3, callR3]

/-- Why "distinct reply serials" is part of the property: with two accepted replies to the same
    serial the `HashMap` keeps only the later one — the earlier is neither handed out nor stored. -/
example :
    let a : Msg := ⟨1, .reply, 10, some 5, none, true⟩
    let b : Msg := ⟨2, .reply, 11, some 5, none, true⟩
    (run State.init [.arrive a, .arrive b, .refillAll, .tryResponse 5, .tryResponse 5]).map
        (fun r => (r.1.map (·.2), r.2)) =
      some ([.arrived, .arrived, .drained [], .tried (some b), .tried none], State.init) := by
  decide +kernel

end Examples

end Rustbus.Rpc

#print axioms Rustbus.Rpc.refinement
#print axioms Rustbus.Rpc.refinement_step
#print axioms Rustbus.Rpc.exactly_once
#print axioms Rustbus.Rpc.right_consumer
#print axioms Rustbus.Rpc.right_consumer_by_kind
#print axioms Rustbus.Rpc.response_is_the_reply
#print axioms Rustbus.Rpc.fifo
#print axioms Rustbus.Rpc.rejected_never_delivered
#print axioms Rustbus.Rpc.rejected_call_answered_once
#print axioms Rustbus.Rpc.no_panic
#print axioms Rustbus.Rpc.panic_reachable
#print axioms Rustbus.Rpc.wait_blocked_only_when_drained
#print axioms Rustbus.Rpc.stored_message_is_returned
#print axioms Rustbus.Rpc.blocked_wait_means_absent
