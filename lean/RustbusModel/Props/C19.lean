import RustbusModel.Lemmas.DispatchRoutes
/-!
C19 — Dispatch routes each call to the matching handler and replies exactly once.

Model: `Model/Dispatch.lean` (`ObjectPathPattern::{new,matches}`, `PathMatcher::{insert,get_match}`,
one iteration of `DispatchConn::run` = `step`, the loop over a history = `Runs`, in which the
`HashMap` may present the route table in ANY iteration order before every message).
Vocabulary: `Spec/Dispatch.lean` (`Segments`, `PartOf`, `Matches`, `lastBound`, `routeOf`, `lastAdd`,
`okAdds`, `ReplyOk`, `AllPairs`, `KeysNodup`).
-/
namespace Rustbus.Dispatch
open Spec

variable {H : Type}

private theorem allPairs_partOf (segs : List Seg) (parts : List PathPart) :
    AllPairs PartOf segs parts ↔ parts = segs.map classify := by
  constructor
  · intro h
    induction h with
    | nil => rfl
    | cons h1 _ ih => rw [ih, List.map_cons, (classify_iff _ _).mp h1]
  · rintro rfl
    induction segs with
    | nil => exact AllPairs.nil
    | cons s segs ih => exact AllPairs.cons ((classify_iff _ _).mpr rfl) ih

/-- `split('/')` as modelled yields exactly the slash-separated segments of a string: at least one,
    none containing a slash, and joining them with slashes gives the string back. -/
theorem split_spec (s : List Char) (segs : List Seg) : Segments s segs ↔ segs = splitSlash s :=
  segments_iff s segs

/-- `ObjectPathPattern::new`, for every pattern string: the pattern has one part per slash-separated
    segment; a segment starting with ':' is a named capture (the name keeps the colon), the segment
    "*" is the wildcard, everything else is a literal. In particular a pattern is never empty. -/
theorem pattern_new_spec (p : List Char) (parts : List PathPart) :
    (patternNew p = parts ↔ ∃ segs, Segments p segs ∧ AllPairs PartOf segs parts) ∧ patternNew p ≠ [] := by
  refine ⟨?_, patternNew_ne_nil p⟩
  constructor
  · rintro rfl
    exact ⟨splitSlash p, (segments_iff _ _).mpr rfl, (allPairs_partOf _ _).mpr rfl⟩
  · rintro ⟨segs, hs, hp⟩
    rw [(segments_iff _ _).mp hs] at hp
    exact ((allPairs_partOf _ _).mp hp).symm

/-- `ObjectPathPattern::matches`, for ALL patterns and ALL query strings: it returns `Some(captures)`
    iff the pattern matches the path segment by segment (literal segments equal, named segments
    capture, a wildcard matches one segment or, as the last part, any non-empty tail), and then the
    capture map holds exactly the captured segments: every name maps to the segment captured under it
    (the last one for a repeated name), there is no other entry and no key twice. The captures of the
    relation are unique. -/
theorem matches_iff_spec (pat : Pattern) (q : List Char) :
    (∀ caps, patMatches pat q = some caps →
        ∃ b, Matches pat (splitSlash q) b ∧ (∀ k, assocGet k caps = lastBound b k) ∧
          (caps.map (·.1)).Nodup) ∧
    (∀ b, Matches pat (splitSlash q) b →
        ∃ caps, patMatches pat q = some caps ∧ ∀ k, assocGet k caps = lastBound b k) ∧
    (∀ b b', Matches pat (splitSlash q) b → Matches pat (splitSlash q) b' → b = b') := by
  refine ⟨?_, ?_, fun b b' h h' => matches_binds_unique h h'⟩
  · intro caps h
    obtain ⟨b, hm, rfl⟩ := (patMatches_iff pat q caps).mp h
    refine ⟨b, hm, fun k => ?_, keys_applyBinds b [] (by simp)⟩
    rw [assocGet_applyBinds]; simp [assocGet]
  · intro b hm
    refine ⟨applyBinds [] b, (patMatches_iff pat q _).mpr ⟨b, hm, rfl⟩, fun k => ?_⟩
    rw [assocGet_applyBinds]; simp [assocGet]

/-- One dispatch step, for every route table (in whatever order it is iterated) and every message:
    exactly one handler is invoked; if it is a registered route then the message has an object path,
    the route's pattern matches that path, and the handler is given exactly the captures of that match;
    otherwise it is the default handler, with empty captures, and either the message has no object
    path or no registered pattern matches it. -/
theorem handler_is_a_match_or_default (rs : Routes H) (ev : Event H) :
    ∃ who caps, (step rs ev).invoked = [(who, caps)] ∧
      match who with
      | .route h => ∃ obj pat b, ev.msg.object = some obj ∧ (pat, h) ∈ rs ∧
          Matches pat (splitSlash obj) b ∧ ∀ k, assocGet k caps = lastBound b k
      | .default => caps = [] ∧
          (ev.msg.object = none ∨
            ∃ obj, ev.msg.object = some obj ∧ ∀ e ∈ rs, ¬ ∃ b, Matches e.1 (splitSlash obj) b) := by
  refine ⟨(select rs ev.msg).1, (select rs ev.msg).2, step_invoked rs ev, ?_⟩
  unfold select
  cases hobj : ev.msg.object with
  | none => simp
  | some obj =>
    simp only
    cases hg : getMatch rs obj with
    | none =>
      simp only
      refine ⟨trivial, Or.inr ⟨obj, rfl, ?_⟩⟩
      intro e he ⟨b, hm⟩
      have hn := (getMatch_none.mp hg) e he
      obtain ⟨caps, hc, _⟩ := (matches_iff_spec e.1 obj).2.1 b hm
      rw [hn] at hc
      exact absurd hc (by simp)
    | some r =>
      obtain ⟨caps, h⟩ := r
      simp only
      obtain ⟨pat, hmem, hp⟩ := getMatch_some hg
      obtain ⟨b, hm, hk, _⟩ := (matches_iff_spec pat obj).1 caps hp
      exact ⟨obj, pat, b, rfl, hmem, hm, hk⟩

/-- When exactly one registered pattern matches the object path (the table being a map, as a
    `HashMap` is), the handler registered for it is the one invoked - for EVERY iteration order of the
    table - and it is given the captures of that match. -/
theorem unique_match_is_called (rs : Routes H) (hnd : KeysNodup rs) (ev : Event H) (obj : List Char)
    (pat : Pattern) (h : H) (b : List (Seg × Seg))
    (hobj : ev.msg.object = some obj) (hmem : (pat, h) ∈ rs) (hm : Matches pat (splitSlash obj) b)
    (huniq : ∀ e ∈ rs, (∃ b', Matches e.1 (splitSlash obj) b') → e.1 = pat) :
    ∀ seen : Routes H, seen.Perm rs →
      ∃ caps, (step seen ev).invoked = [(.route h, caps)] ∧ ∀ k, assocGet k caps = lastBound b k := by
  intro seen hp
  rw [step_invoked]
  unfold select
  simp only [hobj]
  obtain ⟨caps0, hc0, _⟩ := (matches_iff_spec pat obj).2.1 b hm
  cases hg : getMatch seen obj with
  | none =>
    have := (getMatch_none.mp hg) (pat, h) (hp.mem_iff.mpr hmem)
    simp only [hc0] at this
    exact absurd this (by simp)
  | some r =>
    obtain ⟨caps, h'⟩ := r
    obtain ⟨pat', hmem', hp'⟩ := getMatch_some hg
    have hmem'' : (pat', h') ∈ rs := hp.mem_iff.mp hmem'
    obtain ⟨b', hm', hk', _⟩ := (matches_iff_spec pat' obj).1 caps hp'
    have hpat : pat' = pat := huniq (pat', h') hmem'' ⟨b', hm'⟩
    subst hpat
    have hh : h' = h := by
      have h1 := (mem_iff_routeOf hnd pat' h').mp hmem''
      have h2 := (mem_iff_routeOf hnd pat' h).mp hmem
      rw [h1] at h2
      exact Option.some.inj h2
    subst hh
    have hb : b' = b := matches_binds_unique hm' hm
    subst hb
    exact ⟨caps, rfl, hk'⟩

/-- The judgement the driver uses for the choice a real `HashMap` made: `legalChoice` holds exactly
    for the choices that `get_match` produces under SOME iteration order of the table. -/
theorem legal_iff_some_order [DecidableEq H] (rs : Routes H) (q : List Char) (hdr : Serial.Hdr)
    (c : Chosen H) :
    legalChoice rs q c = true ↔
      ∃ seen : Routes H, seen.Perm rs ∧ (select seen { hdr := hdr, object := some q }).1 = c := by
  cases c with
  | default =>
    simp only [legalChoice, List.all_eq_true, Option.isNone_iff_eq_none]
    constructor
    · intro hall
      refine ⟨rs, List.Perm.refl _, ?_⟩
      simp [select, getMatch_none.mpr hall]
    · rintro ⟨seen, hp, hs⟩
      intro e he
      simp only [select] at hs
      cases hg : getMatch seen q with
      | none => exact (getMatch_none.mp hg) e (hp.mem_iff.mpr he)
      | some r => simp [hg] at hs
  | route h =>
    simp only [legalChoice, List.any_eq_true, Bool.and_eq_true, decide_eq_true_eq]
    constructor
    · rintro ⟨e, he, rfl, hsome⟩
      refine ⟨e :: rs.erase e, (List.perm_cons_erase he).symm, ?_⟩
      obtain ⟨caps, hc⟩ := Option.isSome_iff_exists.mp hsome
      obtain ⟨p, g⟩ := e
      simp [select, getMatch, hc]
    · rintro ⟨seen, hp, hs⟩
      simp only [select] at hs
      cases hg : getMatch seen q with
      | none => simp [hg] at hs
      | some r =>
        obtain ⟨caps, h'⟩ := r
        simp only [hg, Chosen.route.injEq] at hs
        subst hs
        obtain ⟨p, hmem, hpm⟩ := getMatch_some hg
        exact ⟨(p, h'), hp.mem_iff.mp hmem, rfl, by simp [hpm]⟩

/-- Over ALL histories of incoming messages, handler behaviours and iteration orders: there is one
    loop iteration per message, and in each of them exactly one handler is invoked and - when it
    returned `Ok` and the send succeeded - exactly one message is written: the handler's own reply, or
    for `Ok(None)` an empty method return whose reply serial is the call's serial and whose
    destination is the call's sender. A handler error writes nothing and ends the loop
    (`ReplyOk`, Spec/Dispatch.lean). -/
theorem exactly_one_reply {rs final : Routes H} {evs : List (Event H)} {outs : List (StepOut H)}
    (h : Runs rs evs outs final) : AllPairs ReplyOk evs outs := by
  induction h with
  | nil rs => exact AllPairs.nil
  | cons _ _ ih => exact AllPairs.cons (step_replyOk _ _) ih

/-- Over all histories: every message is given to exactly one handler (one invocation per loop
    iteration, as many iterations as messages), and that handler is chosen as
    `handler_is_a_match_or_default` says from some iteration order of the table of that moment. -/
theorem one_handler_per_message {rs final : Routes H} {evs : List (Event H)} {outs : List (StepOut H)}
    (h : Runs rs evs outs final) :
    outs.length = evs.length ∧
    AllPairs (fun ev out => out.invoked.length = 1 ∧ ∃ seen, out = step seen ev) evs outs := by
  refine ⟨runs_length h, ?_⟩
  induction h with
  | nil rs => exact AllPairs.nil
  | cons _ _ ih => exact AllPairs.cons ⟨by simp [step_invoked], _, rfl⟩ ih

/-- Over all histories (initial table a map): the table `seen` that the loop consults for a message
    `ev` - after the messages `pre`, before the messages `post` - is, as a set of (pattern, handler)
    entries, exactly: the initial table overridden by the registrations made by the handlers of
    earlier messages that returned `Ok` (`okAdds`; per pattern the most recent wins). So a route added
    by a successful handler applies to every later message until a later successful registration of
    the same pattern replaces it, and a registration made by a handler that returned `Err` is in no
    later table - also not after `run` has been called again. -/
theorem routes_merge_iff_ok {rs final : Routes H} {pre post : List (Event H)} {ev : Event H}
    {outs : List (StepOut H)} (hnd : KeysNodup rs) (h : Runs rs (pre ++ ev :: post) outs final) :
    ∃ outsPre out outsPost seen, outs = outsPre ++ out :: outsPost ∧ outsPre.length = pre.length ∧
      out = step seen ev ∧
      ∀ pat hdl, (pat, hdl) ∈ seen ↔
        (lastAdd (okAdds pre outsPre) pat).or (routeOf pat rs) = some hdl := by
  obtain ⟨o1, o2, mid, rfl, hl, h1, h2⟩ := runs_split pre h
  cases h2 with
  | @cons _ seen _ _ outs' _ hp hrest =>
    refine ⟨o1, _, outs', seen, rfl, hl, rfl, ?_⟩
    obtain ⟨hmid, htab⟩ := runs_table h1 hnd
    intro pat hdl
    rw [mem_iff_routeOf (keysNodup_perm hp hmid), routeOf_perm hp hmid, htab]

/-- Consequence, stated directly: every entry of a table consulted later comes from the initial
    table or from a registration made by a handler that returned `Ok`; nothing else ever gets in. -/
theorem failing_handler_routes_never_apply {rs final : Routes H} {pre post : List (Event H)}
    {ev : Event H} {outs : List (StepOut H)} (hnd : KeysNodup rs)
    (h : Runs rs (pre ++ ev :: post) outs final) :
    ∃ outsPre out outsPost seen, outs = outsPre ++ out :: outsPost ∧ outsPre.length = pre.length ∧
      out = step seen ev ∧ ∀ e ∈ seen, e ∈ rs ∨ e ∈ okAdds pre outsPre := by
  obtain ⟨o1, out, o3, seen, h1, h2, h3, h4⟩ := routes_merge_iff_ok hnd h
  refine ⟨o1, out, o3, seen, h1, h2, h3, ?_⟩
  rintro ⟨pat, hdl⟩ he
  have := (h4 pat hdl).mp he
  cases hl : lastAdd (okAdds pre o1) pat with
  | none =>
    rw [hl] at this
    exact Or.inl (routeOf_some_mem (by simpa using this))
  | some g =>
    rw [hl] at this
    simp only [Option.some_or, Option.some.injEq] at this
    subst this
    exact Or.inr (lastAdd_some_mem hl)

/-- Registrations through `add_handler` / `PathMatcher::insert` keep the table a map, so the
    hypothesis `KeysNodup` above holds for every table a program can build. -/
theorem tables_are_maps (regs : List (List Char × H)) :
    KeysNodup (regs.foldl (fun rs r => pmInsert rs r.1 r.2) ([] : Routes H)) := by
  have : ∀ (rs : Routes H), KeysNodup rs → KeysNodup (regs.foldl (fun rs r => pmInsert rs r.1 r.2) rs) := by
    induction regs with
    | nil => intro rs h; exact h
    | cons r regs ih => intro rs h; exact ih _ (keysNodup_insertRoute rs _ _ h)
  exact this [] (by simp [KeysNodup])

/-- The function the driver executes is one of the runs the theorems above quantify over. -/
theorem runAll_is_a_run (rs : Routes H) (evs : List (Event H)) :
    Runs rs evs (runAll rs evs).1 (runAll rs evs).2 := runAll_runs rs evs

/-! ### non-vacuity -/

-- "/a/:x/*" against "/a/b/c/d": matched through the wildcard tail, one capture
example : patMatches (patternNew "/a/:x/*".toList) "/a/b/c/d".toList = some [(":x".toList, "b".toList)] := by
  decide +kernel
-- a repeated name keeps the last capture
example : patMatches (patternNew "/:x/:x".toList) "/a/b".toList = some [(":x".toList, "b".toList)] := by
  decide +kernel
-- too short, too long without trailing wildcard, wildcard in the middle matches exactly one segment
example : patMatches (patternNew "/a/b".toList) "/a".toList = none := by decide +kernel
example : patMatches (patternNew "/a".toList) "/a/b".toList = none := by decide +kernel
example : patMatches (patternNew "/*/b".toList) "/a/a/b".toList = none := by decide +kernel
-- the relation itself is inhabited in all its constructors
example : Matches [.exact [], .exact ['a'], .as [':', 'x'], .all] [[], ['a'], ['b'], ['c'], ['d']]
    [([':', 'x'], ['b'])] :=
  .literal _ (.literal _ (.named _ _ (.wildTail _ _ (by simp))))
example : Matches [.all, .exact ['b']] [['a'], ['b']] [] := .wildOne _ (.literal _ .done)

private def hdrOf (serial : Nat) : Serial.Hdr :=
  { serial := some serial, sender := some ":1.5".toList, destination := none, replySerial := none,
    errorName := none, isError := false }

/-- a history: message 1 (default handler, `Ok(None)`) registers "/a" → 7; message 2 (handler 7
    fails) tries to register "/b" → 8; message 3 on "/b" still gets the default handler -/
private def demo : List (Event Nat) :=
  [ { msg := ⟨hdrOf 11, some "/a".toList⟩, behave := fun _ _ => ⟨.empty, [("/a".toList, 7)]⟩, sendOk := true },
    { msg := ⟨hdrOf 12, some "/a".toList⟩, behave := fun _ _ => ⟨.err, [("/b".toList, 8)]⟩, sendOk := true },
    { msg := ⟨hdrOf 13, some "/b".toList⟩, behave := fun _ _ => ⟨.empty, []⟩, sendOk := true } ]

example : ((runAll ([] : Routes Nat) demo).1.map (fun o => o.invoked.map (·.1))) =
    [[.default], [.route 7], [.default]] := by decide +kernel
example : ((runAll ([] : Routes Nat) demo).1.map (fun o => o.written.map (fun r => (r.replySerial, r.destination)))) =
    [[(some 11, some ":1.5".toList)], [], [(some 13, some ":1.5".toList)]] := by decide +kernel
example : ((runAll ([] : Routes Nat) demo).1.map (·.ended)) = [.continues, .handlerErr, .continues] := by
  decide +kernel

end Rustbus.Dispatch

#print axioms Rustbus.Dispatch.split_spec
#print axioms Rustbus.Dispatch.pattern_new_spec
#print axioms Rustbus.Dispatch.matches_iff_spec
#print axioms Rustbus.Dispatch.handler_is_a_match_or_default
#print axioms Rustbus.Dispatch.unique_match_is_called
#print axioms Rustbus.Dispatch.legal_iff_some_order
#print axioms Rustbus.Dispatch.exactly_one_reply
#print axioms Rustbus.Dispatch.one_handler_per_message
#print axioms Rustbus.Dispatch.routes_merge_iff_ok
#print axioms Rustbus.Dispatch.failing_handler_routes_never_apply
#print axioms Rustbus.Dispatch.tables_are_maps
#print axioms Rustbus.Dispatch.runAll_is_a_run
