import RustbusModel.Lemmas.LimitsDec
import RustbusModel.Lemmas.LimitsSend
import RustbusModel.Lemmas.LimitsRecv
import RustbusModel.Model.Send
import RustbusModel.Props.C01
import RustbusModel.Props.C02
import RustbusModel.Model.MarshalParam
import RustbusModel.Props.C03
import RustbusModel.Props.C09
/-!
C18 — Spec size and depth limits are enforced before resources are committed.

RECEIVE: `Header.bytesNeeded` models `RecvConn::bytes_needed_for_current_message`, `Recv.run` the receive loop
(`refill_buffer` growing the buffer in 64 KiB steps) over an explicit kernel/peer; the theorems hold for EVERY
peer (any byte stream, any announced lengths), every history of arrivals and client calls, every kernel answer.
DECODE: `Wire.dec` models `validate_raw`, the Param and the typed unmarshallers (tied to all three by the
correspondence run); `Limits.decT` is the same decoder instrumented with the highest byte index it looked at.
SEND: `Wire.enc` / `Marshal.marshalM` model the marshallers (C02), `Header.marshalHeader` models
`marshal::marshal`, `Send.sendMessage` models `SendConn::send_message`.
Limits: `maxArrayLen` = 64 MiB, `maxMessageLen` = 128 MiB, `maxDepth` = 64, `maxGrowth` = 64 KiB.
What a theorem cannot show - the allocations the real code performs - is measured by the engine with a
counting allocator.
-/
namespace Rustbus.Limits
open Rustbus Rustbus.Bytes Rustbus.Wire Rustbus.Spec.Wire Rustbus.Header Rustbus.Spec.Header Rustbus.Recv

/-! ## RECEIVE -/

/-- 1. The announcement check is exact. For every buffer of at least 16 bytes with a valid fixed header
    (`F` = the field array length word, `B` = the body length word, both read in the header's byte order):
    the header is refused as too long **iff** `F > 64 MiB` or `16 + F + padding + B > 128 MiB`; otherwise
    exactly `16 + F + padding + B` bytes are asked for; it is never reported as invalid. -/
theorem announcement_limit (buf : List UInt8) (h16 : 16 ≤ buf.length) (fx : Fixed)
    (hfx : decodeFixed buf = some fx) :
    bytesNeeded buf = announce (valOf fx.bo (slice buf 12 4)) fx.bodyLen ∧
    (bytesNeeded buf = .tooLong ↔
      (valOf fx.bo (slice buf 12 4) > maxArrayLen ∨
       16 + valOf fx.bo (slice buf 12 4) + padLen 8 (16 + valOf fx.bo (slice buf 12 4)) + fx.bodyLen >
         maxMessageLen)) ∧
    (∀ n, bytesNeeded buf = .bytes n →
      n = 16 + valOf fx.bo (slice buf 12 4) + padLen 8 (16 + valOf fx.bo (slice buf 12 4)) + fx.bodyLen ∧
      valOf fx.bo (slice buf 12 4) ≤ maxArrayLen ∧ n ≤ maxMessageLen) := by
  have key : bytesNeeded buf = announce (valOf fx.bo (slice buf 12 4)) fx.bodyLen := by
    unfold bytesNeeded announce
    rw [if_neg (by omega), hfx]
    dsimp only
    rw [show 12 + valOf fx.bo (slice buf 12 4) + 4 = 16 + valOf fx.bo (slice buf 12 4) by omega]
  refine ⟨key, ?_, ?_⟩
  · rw [key]; unfold announce; dsimp only
    constructor
    · intro h; split at h
      · assumption
      · cases h
    · intro h; rw [if_pos h]
  · intro n h
    rw [key] at h; unfold announce at h; dsimp only at h
    split at h
    · cases h
    · simp only [Needed.bytes.injEq] at h; omega

/-- 1b. … for ALL 2^32 values of both length words, both byte orders, every type/flags/serial, whatever
    follows the 16 bytes: the outcome is the function `announce F B` of the two announced lengths alone. -/
theorem announcement_limit_all_lengths (fx : Fixed) (hok : fixedOk fx) (F : Nat) (hF : F < 256 ^ 4)
    (rest : List UInt8) :
    bytesNeeded (fixedBytes fx ++ (bytesOf fx.bo 4 F ++ rest)) = announce F fx.bodyLen := by
  have hdf := decodeFixed_fixedBytes fx (bytesOf fx.bo 4 F ++ rest) hok
  have hsl : slice (fixedBytes fx ++ (bytesOf fx.bo 4 F ++ rest)) 12 4 = bytesOf fx.bo 4 F :=
    slice_mid _ _ _ 12 4 (fixedBytes_length _).symm (by simp [bytesOf_length])
  have h := (announcement_limit _ (by simp only [List.length_append, fixedBytes_length, bytesOf_length]; omega) fx hdf).1
  rw [hsl, valOf_bytesOf _ _ _ hF] at h
  exact h

/-- 1c. A header whose fixed part is not valid (endianness flag, message type, version, serial 0) is
    refused as invalid as soon as 16 bytes are there. -/
theorem invalid_header_refused (buf : List UInt8) (h16 : 16 ≤ buf.length) (h : decodeFixed buf = none) :
    bytesNeeded buf = .invalid := by
  unfold bytesNeeded; rw [if_neg (by omega), h]

/-- 2. (C09) An invalid or oversized announcement is refused by every client call before anything is read:
    the error is returned with buffer, descriptors, reservation and socket unchanged — nothing is read,
    nothing reserved — in ANY state, whatever happens during the call. -/
theorem oversized_refused_before_reading (st : State) (w : World) (c : Call) (evs : List Ev) :
    (bytesNeeded st.buf = .tooLong → step c st w evs = (.tooLong, st, w)) ∧
    (bytesNeeded st.buf = .invalid → step c st w evs = (.invalid, st, w)) :=
  ⟨(refused_announcement_reads_nothing st w c evs).2, (refused_announcement_reads_nothing st w c evs).1⟩

/-- 3. Memory follows the bytes received, not the bytes announced. For EVERY peer (arbitrary byte stream
    `w0.rest`, well-formed or not), every history of arrivals and client calls, every kernel answer, at the end
    of the history: the buffer fits its reservation; the reservation is at most `max 16 (buffered + 64 KiB)`,
    at most 128 MiB, and at most what the buffered header announces; and (when nothing was queued before the
    history starts) at most `max 16 (bytes that ever arrived + 64 KiB)`. -/
theorem memory_follows_bytes_received (w0 : World) (acts : List Action) (tr : List Res) (st : State)
    (w : World) (h : run State.empty w0 acts = (tr, st, w)) :
    st.buf.length ≤ st.cap ∧
    st.cap ≤ max 16 (st.buf.length + maxGrowth) ∧
    st.cap ≤ maxMessageLen ∧
    (∀ n, bytesNeeded st.buf = .bytes n → st.cap ≤ max 16 n) ∧
    (w0.avail = 0 → st.buf.length ≤ arrivals acts ∧ st.cap ≤ max 16 (arrivals acts + maxGrowth)) := by
  obtain ⟨⟨i1, i2, i3, i4⟩, hp⟩ := run_good acts State.empty w0 memInv_empty
  rw [h] at i1 i2 i3 i4 hp
  dsimp only at i1 i2 i3 i4 hp
  refine ⟨i1, i2, i3, i4, ?_⟩
  intro h0
  have : st.buf.length ≤ arrivals acts := by
    simp only [pot, State.empty, List.length_nil, h0] at hp; omega
  exact ⟨this, by omega⟩

/-- 3b. A header announcing `N` (up to 128 MiB) followed by only `k` bytes: however the client calls, the
    reservation stays below `k + 64 KiB` (16 at least). -/
theorem few_bytes_small_buffer (w0 : World) (h0 : w0.avail = 0) (acts : List Action) (k : Nat)
    (hk : arrivals acts ≤ k) : (run State.empty w0 acts).2.1.cap ≤ max 16 (k + maxGrowth) := by
  rcases hr : run State.empty w0 acts with ⟨tr, st, w⟩
  have := (memory_follows_bytes_received w0 acts tr st w hr).2.2.2.2 h0
  dsimp only; omega

/-- 3c. One `refill_buffer` never reserves beyond `filled + 64 KiB` nor beyond its request (any state). -/
theorem reserve_step_clamped (st : State) (maxBuf : Nat) :
    (reserve st maxBuf).cap ≤ max st.cap (st.buf.length + maxGrowth) ∧
    (reserve st maxBuf).cap ≤ max st.cap maxBuf := by
  simp only [reserve]
  generalize maxGrowth = G
  omega

/-! ## DECODE -/

/-- 4a. The array limit is checked on the length word alone. If the length word of an array at `off` (at
    `lenPos off` = `off` aligned to 4) reads more than 64 MiB, the decoder rejects — for EVERY buffer that
    agrees on the bytes up to and including that length word (so the element region, present or not, is
    never consulted), every clipping limit, every nesting budget (i.e. at every nesting level), with or
    without descriptor checking. Likewise for dicts. -/
theorem array_limit_checked_first (bo : ByteOrder) (buf : List UInt8) (off : Nat)
    (hbig : maxArrayLen < valOf bo (slice buf (lenPos off) 4))
    (buf' : List UInt8) (hpre : buf'.take (lenPos off + 4) = buf.take (lenPos off + 4))
    (nfds : Option Nat) (d lim : Nat) :
    (∀ e, dec bo buf' nfds d (.array e) off lim = none) ∧
    (∀ k vt, dec bo buf' nfds d (.dict k vt) off lim = none) :=
  ⟨fun e => dec_array_big bo buf off e hbig buf' hpre nfds d lim,
   fun k vt => dec_dict_big bo buf off k vt hbig buf' hpre nfds d lim⟩

/-- 4b. A rejected component rejects the whole value, whatever surrounds it: a struct with a rejected field
    (after the earlier fields decoded), a variant whose payload is rejected, an array with a rejected element,
    a dict with a rejected value. Together with 4a: an oversized array is refused at every nesting level. -/
theorem rejection_propagates (bo : ByteOrder) (buf : List UInt8) (nfds : Option Nat) (d lim : Nat) :
    (∀ pre t post off o vs o1, skipPad buf off lim 8 = some o →
      decFields bo buf nfds d pre o lim = some (vs, o1) → dec bo buf nfds d t o1 lim = none →
      dec bo buf nfds (d + 1) (.struct (pre ++ t :: post)) off lim = none) ∧
    (∀ off, (∀ t len, readNum bo buf off lim 1 = some len →
        Sig.parseDescription (latin1 (slice buf (off + 1) len)) = some [t] →
        dec bo buf nfds d t (off + len + 2) lim = none) →
      dec bo buf nfds (d + 1) .variant off lim = none) ∧
    (∀ e off fuel, off ≠ lim → dec bo buf nfds d e off lim = none →
      decList bo buf nfds d e off lim fuel = none) ∧
    (∀ e off fuel v o', off ≠ lim → dec bo buf nfds d e off lim = some (v, o') →
      decList bo buf nfds d e off lim (fuel + 1) = (decList bo buf nfds d e o' lim fuel).map (v :: ·)) ∧
    (∀ k vt off fuel o o1 kv, off ≠ lim → skipPad buf off lim 8 = some o →
      decBase bo buf nfds k o lim = some (kv, o1) → dec bo buf nfds d vt o1 lim = none →
      decEntries bo buf nfds d k vt off lim fuel = none) :=
  ⟨fun pre t post off o vs o1 hp hpre h => dec_struct_none_of_field bo buf nfds d lim pre t post off o vs o1 hp hpre h,
   fun off h => dec_variant_inner_none bo buf nfds d off lim h,
   fun e off fuel hne h => decList_none_of_head bo buf nfds d e off lim fuel hne h,
   fun e off fuel v o' hne h => decList_cons_of_head bo buf nfds d e off lim fuel v o' hne h,
   fun k vt off fuel o o1 kv hne hp hk h => decEntries_none_of_value bo buf nfds d k vt off lim fuel o o1 kv hne hp hk h⟩

/-- 4c. The instrumented decoder IS the decoder: same result on every input. -/
theorem instrumented_same_result (bo : ByteOrder) (buf : List UInt8) (nfds : Option Nat) (d : Nat) (t : Ty)
    (off lim : Nat) : (decT bo buf nfds d t off lim).res = dec bo buf nfds d t off lim :=
  resEq_all bo buf nfds d t off lim

/-- 4d. The instrumented statement, for a value of ANY type at ANY nesting level: if anywhere during the
    decoding a length word larger than 64 MiB is met (at offset `p`), the whole decoding fails and those four
    bytes are the last thing looked at (high-water mark `p + 4`): neither the element region nor anything
    after it is inspected. In general the decoder never looks at or beyond its limit, and a successful
    decoding has looked exactly up to the end of the value. -/
theorem oversized_length_stops_decoding (bo : ByteOrder) (buf : List UInt8) (nfds : Option Nat) (d : Nat)
    (t : Ty) (off lim : Nat) :
    (∀ p, (decT bo buf nfds d t off lim).big = some p →
      dec bo buf nfds d t off lim = none ∧ (decT bo buf nfds d t off lim).hw = p + 4 ∧ off ≤ p ∧
      maxArrayLen < valOf bo (slice buf p 4)) ∧
    off ≤ (decT bo buf nfds d t off lim).hw ∧ (decT bo buf nfds d t off lim).hw ≤ max off lim ∧
    (∀ v o', dec bo buf nfds d t off lim = some (v, o') →
      (decT bo buf nfds d t off lim).hw = o' ∧ (decT bo buf nfds d t off lim).big = none) := by
  obtain ⟨h1, h2, h3, h4⟩ := hwOk_all bo buf nfds d t off lim
  rw [← instrumented_same_result]
  refine ⟨fun p hp => h4 p hp, h1, h2, fun v o' h => h3 (v, o') h⟩

/-- 4e. … and an array/dict whose own length word is readable and oversized is where that happens: the
    instrumented decoder stops right after the length word. -/
theorem array_limit_instrumented (bo : ByteOrder) (buf : List UInt8) (nfds : Option Nat) (d : Nat) (e : Ty)
    (off lim : Nat) (hp : skipPad buf off lim 4 = some (lenPos off)) (hl : lenPos off + 4 ≤ lim)
    (hb : lim ≤ buf.length) (hbig : maxArrayLen < valOf bo (slice buf (lenPos off) 4)) :
    (decT bo buf nfds (d + 1) (.array e) off lim).res = none ∧
    (decT bo buf nfds (d + 1) (.array e) off lim).hw = lenPos off + 4 ∧
    (decT bo buf nfds (d + 1) (.array e) off lim).big = some (lenPos off) := by
  rw [decT_array]
  have h1 : skipPadT buf off lim 4 = (some (lenPos off), lenPos off) := by
    unfold skipPadT; rw [hp]
    rw [if_pos ⟨by unfold lenPos at hl; omega, hb⟩]; rfl
  have h2 : readNumT bo buf (lenPos off) lim 4 =
      (some (valOf bo (slice buf (lenPos off) 4)), lenPos off + 4) := by
    unfold readNumT readNum; rw [if_pos ⟨hl, hb⟩, if_pos ⟨hl, hb⟩]
  rw [h1]; dsimp only; rw [h2]; dsimp only
  rw [if_neg (by omega)]
  exact ⟨rfl, by dsimp only; omega, rfl⟩

/-- 4f. Every array and dict the decoder accepts has an element region of at most 64 MiB. -/
theorem accepted_arrays_within_limit (bo : ByteOrder) (buf : List UInt8) (nfds : Option Nat) (d : Nat)
    (off lim : Nat) (v : Val) (o' : Nat) :
    (∀ e, dec bo buf nfds d (.array e) off lim = some (v, o') →
      ∃ vs body, v = .arr vs ∧
        encList bo (off + padLen 4 off + 4 + padLen e.align (off + padLen 4 off + 4)) e vs = some body ∧
        body.length ≤ maxArrayLen) ∧
    (∀ k vt, dec bo buf nfds d (.dict k vt) off lim = some (v, o') →
      ∃ es body, v = .arr es ∧
        encEntries bo (off + padLen 4 off + 4 + padLen 8 (off + padLen 4 off + 4)) k vt es = some body ∧
        body.length ≤ maxArrayLen) := by
  constructor
  · intro e h
    have h4 := (enc_dec bo buf nfds d _ off lim v o' h).2.2.2.1
    cases v with
    | arr vs =>
      obtain ⟨body, hb, hl, _⟩ := enc_array_some h4
      exact ⟨vs, body, rfl, hb, hl⟩
    | num n => simp [enc] at h4
    | str s => simp [enc] at h4
    | struct vs => simp [enc] at h4
    | variant t v => simp [enc] at h4
  · intro k vt h
    have h4 := (enc_dec bo buf nfds d _ off lim v o' h).2.2.2.1
    cases v with
    | arr es =>
      obtain ⟨body, hb, hl, _⟩ := enc_dict_some h4
      exact ⟨es, body, rfl, hb, hl⟩
    | num n => simp [enc] at h4
    | str s => simp [enc] at h4
    | struct vs => simp [enc] at h4
    | variant t v => simp [enc] at h4

private theorem depthOfList_base (b : Base) (vs : List Val) : depthOfList (.base b) vs = 0 := by
  induction vs with
  | nil => rfl
  | cons v vs ih => simp only [depthOfList, depthOf, ih]; rfl

/-- 4g. The boundary is exact on complete data. An array of `n` fixed-size elements of width `k` that is
    completely present: if `k * n ≤ 64 MiB` it has an encoding and validation accepts it wherever it stands
    (any prefix, any suffix); if `k * n > 64 MiB` every buffer whose length word reads `k * n` is rejected,
    although all the bytes may be there. (The driver answers `c18.fullarr` with `arrOk k n`.) -/
theorem decode_boundary (bo : ByteOrder) (b : Base) (k : Nat) (ns : List Nat)
    (hb : Marshal.fastElem b = true) (hk : b.fixedSize = some k) (hn : ∀ n ∈ ns, n < 256 ^ k) :
    (k * ns.length ≤ maxArrayLen → ∀ pre suf : List UInt8,
      ∃ bs, enc bo pre.length (.array (.base b)) (.arr (ns.map Val.num)) = some bs ∧
        validate bo (pre ++ (bs ++ suf)) pre.length (.array (.base b)) = some bs.length) ∧
    (maxArrayLen < k * ns.length → ∀ (buf : List UInt8) (off : Nat) (nfds : Option Nat) (d lim : Nat),
      valOf bo (slice buf (lenPos off) 4) = k * ns.length →
      dec bo buf nfds d (.array (.base b)) off lim = none) := by
  constructor
  · intro hle pre suf
    have h : (enc bo pre.length (.array (.base b)) (.arr (ns.map Val.num))).isSome = true := by
      rw [fixed_array_isSome bo pre.length b k ns hb hk hn]; simp [arrOk, hle]
    cases he : enc bo pre.length (.array (.base b)) (.arr (ns.map Val.num)) with
    | none => rw [he] at h; cases h
    | some bs =>
      refine ⟨bs, rfl, validate_roundtrip bo _ _ pre bs suf he ?_⟩
      simp only [depthOf, depthOfList_base]; unfold maxDepth; omega
  · intro hgt buf off nfds d lim hw
    exact (array_limit_checked_first bo buf off (by rw [hw]; exact hgt) buf rfl nfds d lim).1 (.base b)

/-- 5a. Depth limit, acceptance side (C03): validation accepts exactly the encodings of values nested at most
    64 levels deep — a deeper value is never accepted, a value of depth ≤ 64 always is. -/
theorem depth_limit (bo : ByteOrder) (buf : List UInt8) (off : Nat) (t : Ty) (n : Nat) :
    validate bo buf off t = some n ↔
      (off + n ≤ buf.length ∧ ∃ v, enc bo off t v = some (slice buf off n) ∧ depthOf t v ≤ 64) :=
  validate_iff bo buf off t n

/-- 5b. Depth limit, mechanism side: whatever is accepted with nesting budget `d` is nested at most `d` deep;
    and a container entered with budget 0 — the 65th level when starting from 64 — is refused for EVERY
    buffer, offset and limit without a single byte being inspected (the instrumented high-water mark stays
    at `off`). So the recursion depth of the decoders is at most 64 whatever the bytes say. -/
theorem depth_limit_enforced_on_entry (bo : ByteOrder) (buf : List UInt8) (nfds : Option Nat) :
    (∀ d t off lim v o', dec bo buf nfds d t off lim = some (v, o') → depthOf t v ≤ d) ∧
    (∀ t off lim, (∀ b, t ≠ .base b) →
      dec bo buf nfds 0 t off lim = none ∧ decT bo buf nfds 0 t off lim = ⟨none, off, none⟩) ∧
    (∀ k vt off lim, dec bo buf nfds 1 (.dict k vt) off lim = none ∧
      decT bo buf nfds 1 (.dict k vt) off lim = ⟨none, off, none⟩) :=
  ⟨fun d t off lim v o' h => (enc_dec bo buf nfds d t off lim v o' h).2.2.2.2.1,
   fun t off lim ht => ⟨dec_zero bo buf nfds t off lim ht, decT_zero bo buf nfds t off lim ht⟩,
   fun k vt off lim => ⟨dec_dict_one bo buf nfds k vt off lim, decT_dict_one bo buf nfds k vt off lim⟩⟩

/-- 5c. A value nested deeper than 64 levels is rejected wherever its encoding stands: between any prefix and
    suffix, by validation and by unmarshalling (with any number of descriptors). -/
theorem deeper_than_64_rejected (bo : ByteOrder) (t : Ty) (v : Val) (pre bs suf : List UInt8)
    (h : enc bo pre.length t v = some bs) (hd : 64 < depthOf t v) :
    validate bo (pre ++ (bs ++ suf)) pre.length t = none ∧
    ∀ nfds, unmarshal bo (pre ++ (bs ++ suf)) nfds pre.length t = none := by
  have key : ∀ nfds, dec bo (pre ++ (bs ++ suf)) nfds maxDepth t pre.length (pre ++ (bs ++ suf)).length = none := by
    intro nfds
    cases hdec : dec bo (pre ++ (bs ++ suf)) nfds maxDepth t pre.length (pre ++ (bs ++ suf)).length with
    | none => rfl
    | some r =>
      obtain ⟨v', o'⟩ := r
      obtain ⟨_, _, _, _, h5, h6⟩ := enc_dec bo _ nfds maxDepth t _ _ v' o' hdec
      -- replay without descriptor check and with a budget that covers `v`
      have h1 := dec_transfer bo _ nfds none maxDepth (depthOf t v) t _ _ v' o' hdec
        (fun hle => Nat.le_trans hle (Nat.le_of_lt (by unfold maxDepth at *; omega)))
        (fun c hc => by cases hc)
      have h2 := dec_enc bo t v pre bs suf none (depthOf t v) (pre ++ (bs ++ suf)).length h (Nat.le_refl _)
        (by simp [fdsOk]) (by simp only [List.length_append]; omega) (by simp only [List.length_append]; omega)
      rw [h2] at h1
      simp only [Option.some.injEq, Prod.mk.injEq] at h1
      obtain ⟨rfl, _⟩ := h1
      unfold maxDepth at h5; omega
  refine ⟨?_, fun nfds => key (some nfds)⟩
  unfold validate; rw [key none]

/-- 6. What the decoders build is bounded by what they consumed. For every accepted value: its number of
    nodes (basic values, strings, arrays, structs, dict entries, variants — one allocation-sized unit each)
    is at most `(budget + 1)` times the number of bytes it occupies, i.e. at most 65 per byte from the top
    (every node except a struct level occupies at least one byte of its own, struct levels are bounded by the
    depth), and the total of its string bytes is at most the bytes it occupies. No accepted input makes the
    decoder build more than a fixed multiple of the bytes actually present. -/
theorem decode_allocation_bounded (bo : ByteOrder) (buf : List UInt8) :
    (∀ nfds d t off lim v o', dec bo buf nfds d t off lim = some (v, o') →
      nodes v ≤ (d + 1) * (o' - off) ∧ strBytes v ≤ o' - off ∧ off < o') ∧
    (∀ nfds off t v o', unmarshal bo buf nfds off t = some (v, o') →
      nodes v ≤ 65 * (o' - off) ∧ strBytes v ≤ o' - off ∧ o' ≤ buf.length) ∧
    (∀ off t n, validate bo buf off t = some n →
      ∃ v, dec bo buf none maxDepth t off buf.length = some (v, off + n) ∧
        nodes v ≤ 65 * n ∧ strBytes v ≤ n) := by
  refine ⟨fun nfds d t off lim v o' h => dec_size bo buf nfds d t off lim v o' h, ?_, ?_⟩
  · intro nfds off t v o' h
    obtain ⟨a, b, _⟩ := dec_size bo buf (some nfds) maxDepth t off buf.length v o' h
    exact ⟨a, b, (enc_dec bo buf (some nfds) maxDepth t off buf.length v o' h).2.1⟩
  · intro off t n h
    unfold validate at h
    cases hd : dec bo buf none maxDepth t off buf.length with
    | none => rw [hd] at h; cases h
    | some r =>
      obtain ⟨v, o'⟩ := r
      rw [hd] at h
      simp only [Option.some.injEq] at h
      obtain ⟨a, b, c⟩ := dec_size bo buf none maxDepth t off buf.length v o' hd
      subst h
      exact ⟨v, by rw [show off + (o' - off) = o' by omega], a, b⟩

/-! ## SEND -/

/-- 7a. The marshallers refuse every array and dict whose element region exceeds 64 MiB and accept it at
    exactly 64 MiB: given the elements are encodable (to `body`), the array is emitted **iff**
    `body.length ≤ 67108864`. The mechanism-level marshaller (placeholder + back-patch) refuses exactly
    when the encoding does. -/
theorem send_array_limit (bo : ByteOrder) (off : Nat) :
    (∀ e vs, (enc bo off (.array e) (.arr vs)).isSome = true ↔
      ∃ body, encList bo (off + padLen 4 off + 4 + padLen e.align (off + padLen 4 off + 4)) e vs = some body ∧
        body.length ≤ maxArrayLen) ∧
    (∀ k vt es, (enc bo off (.dict k vt) (.arr es)).isSome = true ↔
      ∃ body, encEntries bo (off + padLen 4 off + 4 + padLen 8 (off + padLen 4 off + 4)) k vt es = some body ∧
        body.length ≤ maxArrayLen) ∧
    (∀ t v buf, (Marshal.marshalM bo t v buf).isSome = (enc bo buf.length t v).isSome) := by
  refine ⟨enc_array_isSome bo off, enc_dict_isSome bo off, ?_⟩
  intro t v buf
  rw [marshal_is_enc]
  cases enc bo buf.length t v <;> rfl

/-- 7b. Arrays of fixed-size elements (`&[u8]`, `Vec<u64>`, … — the slice fast path and the element-wise path
    alike): emitted iff `element width × count ≤ 64 MiB`, at every offset, in both byte orders. -/
theorem send_fixed_array_limit (bo : ByteOrder) (off : Nat) (b : Base) (k : Nat) (ns : List Nat)
    (hb : Marshal.fastElem b = true) (hk : b.fixedSize = some k) (hn : ∀ n ∈ ns, n < 256 ^ k) :
    ((enc bo off (.array (.base b)) (.arr (ns.map Val.num))).isSome = true ↔ k * ns.length ≤ maxArrayLen) ∧
    ((Marshal.marshalSliceFastM bo b k ns (zeros off)).isSome = true ↔ k * ns.length ≤ maxArrayLen) := by
  have h1 := fixed_array_isSome bo off b k ns hb hk hn
  have h2 := fast_path_is_enc bo b k ns (zeros off) hb hk hn
  rw [zeros_length] at h2
  have h3 : (Marshal.marshalSliceFastM bo b k ns (zeros off)).isSome =
      (enc bo off (.array (.base b)) (.arr (ns.map Val.num))).isSome := by
    rw [h2]; cases enc bo off (.array (.base b)) (.arr (ns.map Val.num)) <;> rfl
  rw [h3, h1]
  simp [arrOk]

/-- 7c. At any nesting level: if a component is refused (at the offset where it is placed) the whole value is
    refused — an element of an array, a field of a struct, the payload of a variant, a value of a dict. -/
theorem send_refusal_propagates (bo : ByteOrder) :
    (∀ e pre v post off b1, encList bo off e pre = some b1 → enc bo (off + b1.length) e v = none →
      encList bo off e (pre ++ v :: post) = none) ∧
    (∀ pre t post vpre v vpost off b1, encFields bo off pre vpre = some b1 →
      enc bo (off + b1.length) t v = none →
      encFields bo off (pre ++ t :: post) (vpre ++ v :: vpost) = none) ∧
    (∀ off t v, enc bo (off + (sigBytes t).length + 2) t v = none →
      enc bo off .variant (.variant t v) = none) ∧
    (∀ k vt kv vv rest off kb, encBase bo (off + padLen 8 off) k kv = some kb →
      enc bo (off + padLen 8 off + kb.length) vt vv = none →
      encEntries bo off k vt (.struct [kv, vv] :: rest) = none) ∧
    (∀ off e vs, encList bo (off + padLen 4 off + 4 + padLen e.align (off + padLen 4 off + 4)) e vs = none →
      enc bo off (.array e) (.arr vs) = none) ∧
    (∀ off fs vs, encFields bo (off + padLen 8 off) fs vs = none →
      enc bo off (.struct fs) (.struct vs) = none) :=
  ⟨fun e pre v post off b1 => encList_none_of_elem bo e pre v post off b1,
   fun pre t post vpre v vpost off b1 => encFields_none_of_field bo pre t post vpre v vpost off b1,
   fun off t v => enc_variant_none_of_payload bo off t v,
   fun k vt kv vv rest off kb => encEntries_none_of_value bo k vt kv vv rest off kb,
   fun off e vs h => by simp only [enc, h],
   fun off fs vs h => by simp only [enc, h]; split <;> rfl⟩

/-- 7d. The contexts the correspondence run wraps a byte array of `n` bytes in: as the second field of a struct
    `(yay)` and as the payload of a variant it is emitted iff `n ≤ 64 MiB` (the context changes nothing); as the
    value of the only entry `"k"` of a dict `a{say}` the DICT's own element region is `12 + n` bytes and the whole
    is emitted iff `12 + n ≤ 64 MiB`. (The driver answers `c18.arr` with exactly these right-hand sides.) -/
theorem send_contexts (bo : ByteOrder) (off : Nat) (ns : List Nat) (hn : ∀ n ∈ ns, n < 256) :
    (∀ x, x < 256 →
      (enc bo off (.struct [.base .byte, .array (.base .byte)]) (.struct [.num x, .arr (ns.map Val.num)])).isSome =
        arrOk 1 ns.length) ∧
    (enc bo off .variant (.variant (.array (.base .byte)) (.arr (ns.map Val.num)))).isSome = arrOk 1 ns.length ∧
    (enc bo off (.dict .string (.array (.base .byte)))
      (.arr [.struct [.str [107], .arr (ns.map Val.num)]])).isSome = decide (12 + ns.length ≤ maxArrayLen) :=
  ⟨fun x hx => struct_ctx bo off x hx ns hn, variant_ctx bo off ns hn, dict1_ctx bo off ns hn⟩

/-- 8a. `marshal::marshal` (valid type, names and body signature given) refuses **iff** the header field array
    exceeds 64 MiB or header + padding + body exceeds 128 MiB; otherwise the header has exactly the length the
    length-level model `marshalLen` computes (this is what the correspondence run uses for 64 MiB inputs). -/
theorem send_message_limit (m : Msg) (serial : Nat) (h1 : 1 ≤ m.typ) (h4 : m.typ ≤ 4) (hn : NamesOk m) :
    (marshalHeader m serial = none ↔
      (fieldsEnd (lensOf m) - 16 > maxArrayLen ∨
       fieldsEnd (lensOf m) + padLen 8 (fieldsEnd (lensOf m)) + m.body.length > maxMessageLen)) ∧
    (marshalHeader m serial).map List.length = marshalLen (lensOf m) :=
  ⟨marshalHeader_none_iff m serial h1 h4 hn, marshalLen_eq m serial h1 h4 hn⟩

/-- 8b. When marshalling refuses, `send_message` returns the error without creating a send context: there is
    nothing that could be written, not a byte reaches the socket. The serial is allocated BEFORE marshalling,
    as in the code: a refused message without preset serial has consumed one serial (the counter advanced
    by one), a refused message with a preset serial has consumed none. -/
theorem refused_send_writes_nothing (c : Serial.Conn) (hm : Msg) (fds : List Nat) :
    (∀ s, marshalHeader hm s = none → Send.sendMessage c hm fds (some s) = .refused c) ∧
    (c.counter + 1 ≤ Serial.u32Max → marshalHeader hm c.counter = none →
      Send.sendMessage c hm fds none = .refused ⟨c.counter + 1⟩) ∧
    (∀ preset ctx c', Send.sendMessage c hm fds preset = .started ctx c' →
      ∃ hdr, marshalHeader hm ctx.st.serial = some hdr ∧ ctx.msg = ⟨hdr, hm.body, fds⟩ ∧
        ctx.st.bytesSent = 0 ∧ hdr.length + hm.body.length ≤ maxMessageLen) := by
  refine ⟨?_, ?_, ?_⟩
  · intro s h
    simp only [Send.sendMessage, Serial.sendSerial, h]
  · intro hc h
    simp only [Send.sendMessage, Serial.sendSerial, Serial.allocSerial, if_pos hc, h]
  · intro preset ctx c' h
    unfold Send.sendMessage at h
    cases hs : Serial.sendSerial c preset with
    | none => rw [hs] at h; cases h
    | some r =>
      obtain ⟨s, c2⟩ := r
      rw [hs] at h
      dsimp only at h
      cases hmh : marshalHeader hm s with
      | none => rw [hmh] at h; cases h
      | some hdr =>
        rw [hmh] at h
        simp only [Send.Start.started.injEq] at h
        obtain ⟨rfl, _⟩ := h
        exact ⟨hdr, hmh, rfl, rfl, (marshalHeader_fields_valid hm s hdr hmh).2.2.1⟩

/-- 9. Send and receive limits agree: every message the send side emits is within the receive side's limits —
    the frame size a receiver computes from the emitted bytes is exactly their length (never `MessageTooLong`). -/
theorem send_receive_limits_agree (m : Msg) (serial : Nat) (hr : msgInRange m serial) (hs : 0 < serial)
    (hdr : List UInt8) (h : marshalHeader m serial = some hdr) :
    bytesNeeded (hdr ++ m.body) = .bytes (hdr.length + m.body.length) ∧
    hdr.length + m.body.length ≤ maxMessageLen :=
  ⟨send_within_recv m serial hr hs hdr h, (marshalHeader_fields_valid m serial hdr h).2.2.1⟩

/-! ## non-vacuity -/

/-- a little-endian method call header announcing field array length `F` (4 bytes LE) and body length `B` -/
def exHdr (f b : List UInt8) : List UInt8 := [108, 1, 0, 1] ++ b ++ [1, 0, 0, 0] ++ f

-- 64 MiB field array is still announced, 64 MiB + 1 is too long; total 128 MiB ok, 128 MiB + 8 too long
example : bytesNeeded (exHdr [0, 0, 0, 4] [0, 0, 0, 0]) = .bytes 67108880 := by decide +kernel
example : bytesNeeded (exHdr [1, 0, 0, 4] [0, 0, 0, 0]) = .tooLong := by decide +kernel
example : bytesNeeded (exHdr [0, 0, 0, 0] [240, 255, 255, 7]) = .bytes 134217728 := by decide +kernel
example : bytesNeeded (exHdr [0, 0, 0, 0] [248, 255, 255, 7]) = .tooLong := by decide +kernel
example : bytesNeeded (exHdr [255, 255, 255, 255] [255, 255, 255, 255]) = .tooLong := by decide +kernel
example : announce 67108864 0 = .bytes 67108880 ∧ announce 67108865 0 = .tooLong ∧
    announce 0 134217712 = .bytes 134217728 ∧ announce 0 134217713 = .tooLong ∧
    announce 4294967295 4294967295 = .tooLong := by decide +kernel

/-- a peer announces 128 MiB and then sends 100 bytes: the client has reserved 116 + 64 KiB, not 128 MiB -/
def exStream : List (UInt8 × List Nat) :=
  ((exHdr [0, 0, 0, 0] [240, 255, 255, 7]) ++ List.replicate 100 7).map (fun b => (b, []))

example : (run State.empty ⟨exStream, 0⟩
      [.arrive 116, .call .getNext [.deliver 4096, .deliver 4096, .deliver 4096], .call .readOnce []]).1 =
    [.timedOut, .timedOut] := by decide +kernel
example : (run State.empty ⟨exStream, 0⟩
      [.arrive 116, .call .getNext [.deliver 4096, .deliver 4096, .deliver 4096], .call .readOnce []]).2.1.cap =
    65652 := by decide +kernel
example : (run State.empty ⟨exStream, 0⟩
      [.arrive 116, .call .getNext [.deliver 4096, .deliver 4096, .deliver 4096]]).2.1.buf.length = 116 := by
  decide +kernel

private theorem pv : Sig.parseDescription (latin1 [118]) = some [.variant] := by rfl
private theorem py : Sig.parseDescription (latin1 [121]) = some [.base .byte] := by rfl
private theorem pay : Sig.parseDescription (latin1 [97, 121]) = some [.array (.base .byte)] := by rfl
private theorem dz (bo : ByteOrder) (buf : List UInt8) (nfds : Option Nat) (off lim : Nat) :
    dec bo buf nfds 0 .variant off lim = none := dec_zero _ _ _ _ _ _ (by intro b; simp)
private theorem dzT (bo : ByteOrder) (buf : List UInt8) (nfds : Option Nat) (off lim : Nat) :
    decT bo buf nfds 0 .variant off lim = ⟨none, off, none⟩ := decT_zero _ _ _ _ _ _ (by intro b; simp)

set_option linter.unusedSimpArgs false
/-- evaluates the decoders on concrete bytes (`dec` is defined by well-founded recursion, so the kernel
    cannot just compute it; the one-step unfolding lemmas can) -/
local macro "eval_dec" : tactic => `(tactic|
  simp (decide := true) [validate, validateT, unmarshal, maxDepth, dec_variant, dec_base, dec_array, dec_struct,
    decFields_cons, decFields_nil, decT_variant, decT_base, decT_array, decT_struct, decFieldsT_cons,
    decFieldsT_nil, decBase, decBaseT, skipPadT, readNumT, readNum, skipPad, slice, valOf, leVal, padLen, pv, py,
    pay, Base.fixedSize, Base.align, Base.bound, allZero, maxArrayLen, Ty.align, decList_zero, decList_succ,
    decListT_zero, decListT_succ, dz, dzT])

/-- `y` then a variant holding `ay` whose length word says 64 MiB + 1, followed by 3 bytes only -/
def exBig : List UInt8 := [9, 2, 97, 121, 0, 0, 0, 0, 1, 0, 0, 4, 1, 2, 3]

example : validate .le exBig 0 (.struct [.base .byte, .variant]) = none := by unfold exBig; eval_dec
-- … the instrumented decoder stopped right after the length word at offset 8 (high-water mark 12 of 15)
example : (validateT .le exBig 0 (.struct [.base .byte, .variant])).res.isNone = true ∧
    (validateT .le exBig 0 (.struct [.base .byte, .variant])).hw = 12 ∧
    (validateT .le exBig 0 (.struct [.base .byte, .variant])).big = some 8 := by unfold exBig; eval_dec
-- with the length word exactly at the limit the same bytes are rejected only because the elements are
-- missing (no oversize marker); with a small length they are accepted
example : (validateT .le [9, 2, 97, 121, 0, 0, 0, 0, 0, 0, 0, 4, 1, 2, 3] 0
    (.struct [.base .byte, .variant])).big = none := by eval_dec
example : validate .le [9, 2, 97, 121, 0, 0, 0, 0, 3, 0, 0, 0, 1, 2, 3] 0 (.struct [.base .byte, .variant]) =
    some 15 := by eval_dec

/-- a variant bomb: `n + 1` variants nested, the innermost holding the byte 42 -/
def bomb : Nat → List UInt8
  | 0 => [1, 121, 0, 42]
  | n + 1 => [1, 118, 0] ++ bomb n
def bombVal : Nat → Val
  | 0 => .variant (.base .byte) (.num 42)
  | n + 1 => .variant .variant (bombVal n)

-- 64 levels are accepted (C03: the bytes are the encoding of a value of depth 64) …
example : validate .le (bomb 63) 0 .variant = some 193 :=
  (depth_limit .le (bomb 63) 0 .variant 193).2
    ⟨by decide +kernel, bombVal 63, by decide +kernel, by decide +kernel⟩
-- … 65 and 66 levels are rejected, by validation and by unmarshalling (5c)
example : validate .le (bomb 64) 0 .variant = none ∧ (∀ n, unmarshal .le (bomb 64) n 0 .variant = none) := by
  have := deeper_than_64_rejected .le .variant (bombVal 64) [] (bomb 64) []
    (by decide +kernel) (by decide +kernel)
  simpa using this
example : validate .be (bomb 65) 0 .variant = none := by
  have := (deeper_than_64_rejected .be .variant (bombVal 65) [] (bomb 65) []
    (by decide +kernel) (by decide +kernel)).1
  simpa using this
-- the same by running the decoders; the 65-deep bomb is abandoned when the 65th level is entered: exactly the
-- 64 × 3 signature bytes before it were looked at
set_option maxRecDepth 100000 in
example : validate .le (bomb 64) 0 .variant = none ∧ (validateT .le (bomb 64) 0 .variant).hw = 192 := by
  simp only [bomb, List.append_eq, List.cons_append, List.nil_append]; eval_dec
set_option maxRecDepth 100000 in
example : (unmarshal .le (bomb 63) 0 0 .variant).isSome = true := by
  simp only [bomb, List.append_eq, List.cons_append, List.nil_append]; eval_dec

-- byte arrays on the send side: 64 MiB accepted, one more byte refused (without building the lists)
example (bo : ByteOrder) (off : Nat) :
    (enc bo off (.array (.base .byte)) (.arr ((List.replicate 67108864 0).map Val.num))).isSome = true :=
  (send_fixed_array_limit bo off .byte 1 _ rfl rfl (by intro n hn; rw [List.eq_of_mem_replicate hn]; decide)).1.2
    (by rw [List.length_replicate]; decide)
example (bo : ByteOrder) (off : Nat) :
    enc bo off (.array (.base .byte)) (.arr ((List.replicate 67108865 0).map Val.num)) = none := by
  have h := (send_fixed_array_limit bo off .byte 1 (List.replicate 67108865 0) rfl rfl
    (by intro n hn; rw [List.eq_of_mem_replicate hn]; decide)).1
  rw [List.length_replicate] at h
  cases he : enc bo off (.array (.base .byte)) (.arr ((List.replicate 67108865 0).map Val.num)) with
  | none => rfl
  | some bs => rw [he] at h; exact absurd (h.1 rfl) (by decide)

-- header lengths: a method call with path "/", member "m" and a body of `bodyLen` bytes of signature `y`
def exLens (pathLen bodyLen : Nat) : MsgLens :=
  { replySerial := false, interface := none, destination := none, sender := none, member := some 1,
    path := some pathLen, errorName := none, sig := if bodyLen = 0 then none else some 1,
    bodyLen := bodyLen, hasFds := false }

example : marshalLen (exLens 1 1) = some 56 := by decide +kernel
-- body of 128 MiB - 56 accepted, one more byte refused; an object path that makes the field array exactly
-- 64 MiB accepted, one more byte refused
example : marshalLen (exLens 1 134217672) = some 56 ∧ marshalLen (exLens 1 134217673) = none ∧
    marshalLen (exLens 67108839 0) = some 67108880 ∧ marshalLen (exLens 67108840 0) = none := by
  decide +kernel

end Rustbus.Limits

namespace Rustbus.Marshal
open Rustbus Rustbus.Bytes Rustbus.Wire Rustbus.Spec.Wire

/-- **Send-side nesting limit (Param API).** What `marshal_param` emits needs at most 64 container levels, and - with NO
    depth hypothesis left - is accepted by raw validation and read back as the same value by the decoders, whatever
    precedes and follows it: the Param marshaller never produces bytes its own receive side refuses. -/
theorem param_send_depth_limit (bo : ByteOrder) (t : Ty) (v : Val) (pre out suf : List UInt8) (nfds : Nat)
    (h : marshalParam bo t v pre = some out) (hfd : fdsBelow nfds t v = true) :
    depthOf t v ≤ maxDepth ∧
    ∃ bs, out = pre ++ bs ∧ enc bo pre.length t v = some bs ∧
      validate bo (pre ++ (bs ++ suf)) pre.length t = some bs.length ∧
      unmarshal bo (pre ++ (bs ++ suf)) nfds pre.length t = some (v, pre.length + bs.length) := by
  unfold marshalParam at h
  by_cases hd : depthOf t v ≤ maxDepth
  · rw [if_pos hd] at h
    obtain ⟨bs, he, rfl⟩ := marshal_extends bo t v pre out h
    exact ⟨hd, bs, rfl, he, validate_roundtrip bo t v pre bs suf he hd, roundtrip bo t v pre bs suf nfds he hd hfd⟩
  · rw [if_neg hd] at h; simp at h

/-- a value nested deeper than 64 levels is refused by the Param marshaller although the mechanism could write it -/
theorem param_too_deep_refused (bo : ByteOrder) (t : Ty) (v : Val) (buf : List UInt8) (h : maxDepth < depthOf t v) :
    marshalParam bo t v buf = none := by
  unfold marshalParam
  rw [if_neg (by omega)]


-- non-vacuity: a tower of 64 variants around a byte is marshalled, validated and read back; 65 are refused
def vtower : Nat → Val
  | 0 => .num 9
  | n + 1 => .variant (if n = 0 then .base .byte else .variant) (vtower n)
example : (marshalParam .le .variant (vtower 64) [0, 0, 0]).isSome = true ∧ depthOf .variant (vtower 64) = 64 ∧
    marshalParam .le .variant (vtower 65) [0, 0, 0] = none ∧ (marshalM .le .variant (vtower 65) [0, 0, 0]).isSome = true := by
  decide +kernel

end Rustbus.Marshal

#print axioms Rustbus.Limits.announcement_limit
#print axioms Rustbus.Limits.announcement_limit_all_lengths
#print axioms Rustbus.Limits.invalid_header_refused
#print axioms Rustbus.Limits.oversized_refused_before_reading
#print axioms Rustbus.Limits.memory_follows_bytes_received
#print axioms Rustbus.Limits.few_bytes_small_buffer
#print axioms Rustbus.Limits.reserve_step_clamped
#print axioms Rustbus.Limits.array_limit_checked_first
#print axioms Rustbus.Limits.rejection_propagates
#print axioms Rustbus.Limits.instrumented_same_result
#print axioms Rustbus.Limits.oversized_length_stops_decoding
#print axioms Rustbus.Limits.array_limit_instrumented
#print axioms Rustbus.Limits.accepted_arrays_within_limit
#print axioms Rustbus.Limits.decode_boundary
#print axioms Rustbus.Limits.depth_limit
#print axioms Rustbus.Limits.depth_limit_enforced_on_entry
#print axioms Rustbus.Limits.deeper_than_64_rejected
#print axioms Rustbus.Limits.decode_allocation_bounded
#print axioms Rustbus.Limits.send_array_limit
#print axioms Rustbus.Limits.send_fixed_array_limit
#print axioms Rustbus.Limits.send_refusal_propagates
#print axioms Rustbus.Limits.send_contexts
#print axioms Rustbus.Limits.send_message_limit
#print axioms Rustbus.Limits.refused_send_writes_nothing
#print axioms Rustbus.Limits.send_receive_limits_agree
#print axioms Rustbus.Marshal.param_send_depth_limit
#print axioms Rustbus.Marshal.param_too_deep_refused
